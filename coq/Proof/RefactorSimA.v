(** C16, closure-representation independence (Proof/RefactorSimDefs.v) - part A:
    the unfolding equations of the reference interpreter that Proof/SemFacts.v,
    Proof/DefaultRulesSem.v and Proof/RefactorSem.v do not have yet, the relational monad
    rules ([rel2], [oblivious]) and the store primitives. *)
From Coq Require Import ZArith NArith List Bool String Lia.
From DL Require Import Lib.Bytes Lib.F64 Lua.Syntax Lua.Sem Model.Refactor.
From DL Require Import Proof.SemFacts Proof.DefaultRulesSem Proof.RefactorSem Proof.RefactorSimDefs.
Import ListNotations.
Open Scope N_scope.

(** * Unfolding equations *)
Section Unfold.
Variable d : dialect.

Definition not_table (v : value) : Prop := match v with VTable _ => False | _ => True end.
Definition not_callable (v : value) : Prop :=
  match v with VClosure _ | VExt _ | VBuiltin _ => False | _ => True end.

Lemma call_S_other n f args : not_callable f ->
  call d (S n) f args =
  (h <- metamethod f "__call" ;;
   match h with
   | VNil => fail 10
   | _ => call d n h (f :: args)
   end).
Proof. destruct f; intros []; reflexivity. Qed.

Lemma index_S_other n o k : not_table o ->
  index d (S n) o k =
  (h <- metamethod o "__index" ;;
   match h with
   | VNil => fail 11
   | VTable _ => index d n h k
   | _ => vs <- call d n h [o; k] ;; ret (first vs)
   end).
Proof. destruct o; intros []; reflexivity. Qed.

Lemma setindex_S_other n o k v : not_table o ->
  setindex d (S n) o k v =
  (h <- metamethod o "__newindex" ;;
   match h with
   | VNil => fail 13
   | VTable _ => setindex d n h k v
   | _ => _ <- call d n h [o; k; v] ;; ret tt
   end).
Proof. destruct o; intros []; reflexivity. Qed.

Lemma tostr_0 v s : tostr d 0 v s = Fuel. Proof. reflexivity. Qed.
Lemma arith_0 o a b s : arith d 0 o a b s = Fuel. Proof. reflexivity. Qed.
Lemma concat_0 a b s : concat d 0 a b s = Fuel. Proof. reflexivity. Qed.
Lemma equal_0 a b s : equal d 0 a b s = Fuel. Proof. reflexivity. Qed.
Lemma less_0 st a b s : less d 0 st a b s = Fuel. Proof. reflexivity. Qed.
Lemma length_0 v s : length d 0 v s = Fuel. Proof. reflexivity. Qed.
Lemma call_builtin_0 b args s : call_builtin d 0 b args s = Fuel. Proof. reflexivity. Qed.
Lemma assign_target_0 rho t v s : assign_target d 0 rho t v s = Fuel. Proof. reflexivity. Qed.
Lemma exec_repeat_0 rho va b c s : exec_repeat d 0 rho va b c s = Fuel. Proof. reflexivity. Qed.
Lemma exec_numfor_0 rho va x i st sp b s : exec_numfor d 0 rho va x i st sp b s = Fuel. Proof. reflexivity. Qed.
Lemma exec_genfor_0 rho va vars f s0 ctl b s : exec_genfor d 0 rho va vars f s0 ctl b s = Fuel.
Proof. reflexivity. Qed.

Lemma eval_target_S_index n rho va p k :
  eval_target d (S n) rho va (EIndex p k) =
  (o <- eval1 d n rho va p ;; kv <- eval1 d n rho va k ;; ret (None, o, kv)).
Proof. reflexivity. Qed.

Definition is_assignable (e : expr) : bool :=
  match e with EIdent _ | EField _ _ | EIndex _ _ => true | _ => false end.
Lemma eval_target_S_other n rho va e : is_assignable e = false ->
  eval_target d (S n) rho va e = unsup 60.
Proof. destruct e; intros H; try discriminate H; reflexivity. Qed.

(** the builtins: inner loops *)
Definition pcall_wrap (m : M (list value)) : M (list value) :=
  fun s =>
    match m s with
    | Ok vs s' => Ok (VBool true :: vs) s'
    | Err (EUser v) s' => Ok [VBool false; v] s'
    | Err (ERun _) s' => Ok [VBool false; vstr "<error>"] s'
    | Fuel => Fuel
    | Unsup w => Unsup w
    end.

Definition raise {A} (v : value) : M A := fun s => Err (EUser v) s.

Definition next_skip (a1 : value) :=
  fix skip (es : list (value * value)) : option (list (value * value)) :=
    match es with
    | [] => None
    | (k, _) :: rest => if raw_equal k a1 then Some rest else skip rest
    end.

Definition minmax_go (b : N) :=
  fix go (vs : list value) (acc : option f64) : M (list value) :=
    match vs with
    | [] => match acc with Some x => num_result x | None => fail 46 end
    | v :: rest =>
      match tonum v with
      | None => fail 46
      | Some x =>
        if is_nan x then unsup 46
        else go rest (match acc with
                      | None => Some x
                      | Some y => if b =? B_max then (if fltb y x then Some x else Some y)
                                  else (if fltb x y then Some x else Some y)
                      end)
      end
    end.

Definition char_go :=
  fix go (vs : list value) (acc : bytes) : M (list value) :=
    match vs with
    | [] => ret [VStr (rev acc)]
    | v :: rest =>
      match tonum v with
      | Some x => if is_integer x && (0 <=? to_Z x)%Z && (to_Z x <? 256)%Z
                  then go rest (Z.to_N (to_Z x) :: acc) else fail 51
      | None => fail 51
      end
    end.

Definition tconcat_go (t : table) (sep : bytes) :=
  fix go (is : list nat) (acc : bytes) (first_item : bool) : M (list value) :=
    match is with
    | [] => ret [VStr acc]
    | i :: rest =>
      match raw_get (t_entries t) (VNum (of_Z (Z.of_nat i))) with
      | VStr s => go rest (acc ++ (if first_item then [] else sep) ++ s) false
      | VNum x => go rest (acc ++ (if first_item then [] else sep) ++ tostring_num d x) false
      | _ => fail 53
      end
    end.

Definition format_go (n : nat) :=
  fix go (fuel : nat) (f : bytes) (vs : list value) (acc : bytes) : M (list value) :=
    match fuel with
    | O => fun _ => Fuel
    | S fuel =>
      match f with
      | [] => ret [VStr acc]
      | 37 :: 37 :: f' => go fuel f' vs (acc ++ [37])
      | 37 :: c :: f' =>
        match vs with
        | [] => fail 54
        | v :: vs' =>
          if (c =? 115) || (c =? 42) then     (* %s, and Luau's %* *)
            if (c =? 42) && negb (is_luau d) then fail 54
            else
            sv <- tostr d n v ;;
            match sv with
            | VStr s => go fuel f' vs' (acc ++ s)
            | _ => fail 54
            end
          else if (c =? 100) then             (* %d *)
            match tonum v with
            | Some x => if is_integer x then
                          let z := to_Z x in
                          go fuel f' vs' (acc ++ (if (z <? 0)%Z then [45] else []) ++ dec_digits (Z.to_N (Z.abs z)))
                        else unsup 54
            | None => fail 54
            end
          else unsup 54
        end
      | [37] => fail 54
      | c :: f' => go fuel f' vs (acc ++ [c])
      end
    end.

Lemma call_builtin_S n b args :
  call_builtin d (S n) b args =
    let a0 := arg args 0 in let a1 := arg args 1 in let a2 := arg args 2 in
    if b =? B_select then
      match a0 with
      | VStr [35] => ret [VNum (of_Z (Z.of_nat (List.length args) - 1))]
      | VNum x =>
        if is_integer x then
          let i := to_Z x in
          if (0 <? i)%Z then ret (skipn (Z.to_nat i) args)
          else if (i <? 0)%Z then
            let k := (Z.of_nat (List.length args) - 1 + i)%Z in
            if (k <? 0)%Z then fail 30 else ret (skipn (Z.to_nat k + 1) args)
          else fail 30
        else unsup 30
      | _ => fail 30
      end
    else if b =? B_tostring then v <- tostr d n a0 ;; ret [v]
    else if b =? B_tonumber then
      match args with
      | [_] | [_; VNil] => ret [match tonum a0 with Some x => VNum x | None => VNil end]
      | _ => unsup 31
      end
    else if b =? B_type then
      match args with [] => fail 32 | _ => ret [VStr (type_name a0)] end
    else if b =? B_rawget then
      match a0 with
      | VTable a => t <- get_table a ;;
                    ret [raw_get (t_entries t) (match norm_key a1 with Some k => k | None => a1 end)]
      | _ => fail 33
      end
    else if b =? B_rawset then
      match a0, norm_key a1 with
      | VTable a, Some k => t <- get_table a ;;
                            _ <- set_table a (mkTable (raw_set (t_entries t) k a2) (t_meta t)) ;;
                            ret [a0]
      | _, _ => fail 34
      end
    else if b =? B_rawequal then ret [VBool (raw_equal a0 a1)]
    else if b =? B_rawlen then
      match a0 with
      | VTable a => t <- get_table a ;; ret [VNum (of_Z (border (t_entries t)))]
      | VStr s => ret [VNum (of_Z (Z.of_nat (List.length s)))]
      | _ => fail 35
      end
    else if b =? B_setmetatable then
      match a0, a1 with
      | VTable a, VNil => t <- get_table a ;; _ <- set_table a (mkTable (t_entries t) None) ;; ret [a0]
      | VTable a, VTable m =>
        t <- get_table a ;;
        _ <- set_table a (mkTable (t_entries t) (Some m)) ;; ret [a0]
      | _, _ => fail 36
      end
    else if b =? B_getmetatable then
      m <- metatable_of a0 ;;
      match m with
      | None => ret [VNil]
      | Some a => t <- get_table a ;;
                  match raw_get (t_entries t) (vstr "__metatable") with
                  | VNil => ret [VTable a]
                  | v => ret [v]
                  end
      end
    else if b =? B_pcall then pcall_wrap (call d n a0 (tl args))
    else if b =? B_error then raise a0
    else if b =? B_assert then
      match args with
      | [] => fail 37
      | _ => if truthy a0 then ret args
             else match args with
                  | [_] => raise (vstr "assertion failed!")
                  | _ => raise a1
                  end
      end
    else if b =? B_next then
      match a0 with
      | VTable a =>
        t <- get_table a ;;
        let live := filter (fun kv : value * value => match snd kv with VNil => false | _ => true end) in
        let after :=
          match a1 with
          | VNil => Some (t_entries t)
          | _ => next_skip a1 (t_entries t)
          end in
        match after with
        | None => fail 38
        | Some es => match live es with
                     | [] => ret [VNil]
                     | (k, v) :: _ => ret [k; v]
                     end
        end
      | _ => fail 38
      end
    else if b =? B_pairs then
      match a0 with
      | VTable _ => ret [VBuiltin B_next; a0; VNil]
      | _ => fail 39
      end
    else if b =? B_ipairs then
      match a0 with
      | VTable _ => ret [VBuiltin B_ipairs_iter; a0; VNum fzero]
      | _ => fail 40
      end
    else if b =? B_ipairs_iter then
      match a1 with
      | VNum x =>
        let i := VNum (fadd x fone) in
        v <- index d n a0 i ;;
        match v with VNil => ret [VNil] | _ => ret [i; v] end
      | _ => fail 41
      end
    else if b =? B_unpack then
      match a0, tl args with
      | VTable a, [] =>
        t <- get_table a ;;
        let nlen := border (t_entries t) in
        ret (map (fun i => raw_get (t_entries t) (VNum (of_Z (Z.of_nat i)))) (seq 1 (Z.to_nat nlen)))
      | _, _ => unsup 42
      end
    else if b =? B_floor then
      match tonum a0 with Some x => num_result (ffloor x) | None => fail 43 end
    else if b =? B_sqrt then
      match tonum a0 with Some x => num_result (fsqrt x) | None => fail 44 end
    else if b =? B_abs then
      match tonum a0 with Some x => num_result (fabs x) | None => fail 45 end
    else if (b =? B_max) || (b =? B_min) then
      match args with
      | [] => fail 46
      | _ => minmax_go b args None
      end
    else if b =? B_len then
      match a0 with
      | VStr s => ret [VNum (of_Z (Z.of_nat (List.length s)))]
      | VNum x => ret [VNum (of_Z (Z.of_nat (List.length (tostring_num d x))))]
      | _ => fail 47
      end
    else if b =? B_sub then
      match a0, tonum a1 with
      | VStr s, Some i =>
        match (match a2 with VNil => Some (of_Z (-1)) | _ => tonum a2 end) with
        | Some j => if is_integer i && is_integer j then ret [VStr (lua_sub s (to_Z i) (to_Z j))] else unsup 48
        | None => fail 48
        end
      | _, _ => fail 48
      end
    else if b =? B_rep then
      match a0, tonum a1 with
      | VStr s, Some k => if is_integer k then ret [VStr (List.concat (repeat s (Z.to_nat (to_Z k))))] else unsup 49
      | _, _ => fail 49
      end
    else if b =? B_byte then
      match a0, tl args with
      | VStr s, [] => match s with c :: _ => ret [VNum (of_N c)] | [] => ret [] end
      | _, _ => unsup 50
      end
    else if b =? B_char then char_go args []
    else if b =? B_insert then
      match a0, args with
      | VTable a, [_; v] =>
        t <- get_table a ;;
        _ <- set_table a (mkTable (raw_set (t_entries t) (VNum (of_Z (border (t_entries t) + 1))) v) (t_meta t)) ;;
        ret []
      | _, _ => unsup 52
      end
    else if b =? B_concat then
      match a0 with
      | VTable a =>
        t <- get_table a ;;
        let sep := match a1 with VStr s => Some s | VNil => Some [] | VNum x => Some (tostring_num d x) | _ => None end in
        match sep, tl (tl args) with
        | Some sep, [] => tconcat_go t sep (seq 1 (Z.to_nat (border (t_entries t)))) [] true
        | _, _ => unsup 53
        end
      | _ => fail 53
      end
    else if b =? B_format then
      match a0 with
      | VStr fmt => format_go n (S (List.length fmt)) fmt (tl args) []
      | _ => unsup 54
      end
    else unsup 55.
Proof. reflexivity. Qed.

(** statements *)
Lemma exec_stmt_S_compound n rho va op var e :
  exec_stmt d (S n) rho va (SCompound op var e) =
  (t <- eval_target d n rho va var ;;
   rhs <- eval1 d n rho va e ;;
   cur <- (match t with
           | (Some a, _, _) => get_cell a
           | (None, o, k) => index d n o k
           end) ;;
   r <- (match op with
         | BConcat => concat d n cur rhs
         | _ => arith d n op cur rhs
         end) ;;
   _ <- assign_target d n rho t r ;;
   ret (rho, SigNone)).
Proof. reflexivity. Qed.

Lemma exec_stmt_S_repeat n rho va b c :
  exec_stmt d (S n) rho va (SRepeat b c) = (sg <- exec_repeat d n rho va b c ;; ret (rho, sg)).
Proof. reflexivity. Qed.

Lemma exec_stmt_S_numfor n rho va var start stop step b :
  exec_stmt d (S n) rho va (SNumericFor var start stop step b) =
  (v0 <- eval1 d n rho va start ;;
   v1 <- eval1 d n rho va stop ;;
   v2 <- (match step with Some e => eval1 d n rho va e | None => ret (VNum fone) end) ;;
   match tonum v0, tonum v1, tonum v2 with
   | Some x0, Some x1, Some x2 =>
     if is_nan x2 || is_zero x2 then unsup 61
     else sg <- exec_numfor d n rho va (param_name var) x0 x1 x2 b ;; ret (rho, sg)
   | _, _, _ => fail 61
   end).
Proof. reflexivity. Qed.

Lemma exec_stmt_S_genfor n rho va vars es b :
  exec_stmt d (S n) rho va (SGenericFor vars es b) =
  (vs <- eval_list d n rho va es ;;
   match arg vs 0 with
   | VTable _ => unsup 62
   | f => sg <- exec_genfor d n rho va vars f (arg vs 1) (arg vs 2) b ;; ret (rho, sg)
   end).
Proof. reflexivity. Qed.

Lemma exec_stmt_S_typedecl n rho va ex x g t :
  exec_stmt d (S n) rho va (STypeDecl ex x g t) = ret (rho, SigNone).
Proof. reflexivity. Qed.
Lemma exec_stmt_S_typefunction n rho va ex x f :
  exec_stmt d (S n) rho va (STypeFunction ex x f) = ret (rho, SigNone).
Proof. reflexivity. Qed.

Definition repeat_go (n : nat) (va : list value) (last : option laststmt) :=
  fix go (ss : list stmt) (rho : env) : M (env * signal) :=
    match ss with
    | [] =>
      match last with
      | None => ret (rho, SigNone)
      | Some LBreak => ret (rho, SigBreak)
      | Some LContinue => ret (rho, SigContinue)
      | Some (LReturn es) => vs <- eval_list d n rho va es ;; ret (rho, SigReturn vs)
      end
    | st :: rest =>
      '(rho', sg) <- exec_stmt d n rho va st ;;
      match sg with
      | SigNone => go rest rho'
      | _ => ret (rho', sg)
      end
    end.

Lemma exec_repeat_S n rho va stmts last c :
  exec_repeat d (S n) rho va (Block stmts last) c =
  ('(rho', sg) <- repeat_go n va last stmts rho ;;
   match sg with
   | SigBreak => ret SigNone
   | SigReturn _ => ret sg
   | _ =>
     cv <- eval1 d n rho' va c ;;
     if truthy cv then ret SigNone else exec_repeat d n rho va (Block stmts last) c
   end).
Proof. reflexivity. Qed.

Lemma repeat_go_nil n va last rho :
  repeat_go n va last [] rho =
  match last with
  | None => ret (rho, SigNone)
  | Some LBreak => ret (rho, SigBreak)
  | Some LContinue => ret (rho, SigContinue)
  | Some (LReturn es) => vs <- eval_list d n rho va es ;; ret (rho, SigReturn vs)
  end.
Proof. reflexivity. Qed.
Lemma repeat_go_cons n va last st rest rho :
  repeat_go n va last (st :: rest) rho =
  ('(rho', sg) <- exec_stmt d n rho va st ;;
   match sg with
   | SigNone => repeat_go n va last rest rho'
   | _ => ret (rho', sg)
   end).
Proof. reflexivity. Qed.

Lemma exec_numfor_S n rho va x i stop step b :
  exec_numfor d (S n) rho va x i stop step b =
  (if (if fltb fzero step then fleb i stop else fleb stop i) then
     a <- new_cell (VNum i) ;;
     sg <- exec_block d n ((x, a) :: rho) va b ;;
     match sg with
     | SigBreak => ret SigNone
     | SigReturn _ => ret sg
     | _ => exec_numfor d n rho va x (fadd i step) stop step b
     end
   else ret SigNone).
Proof. reflexivity. Qed.

Lemma exec_genfor_S n rho va vars f s ctl b :
  exec_genfor d (S n) rho va vars f s ctl b =
  (vs <- call d n f [s; ctl] ;;
   match first vs with
   | VNil => ret SigNone
   | ctl' =>
     rho' <- local_go vars vs rho ;;
     sg <- exec_block d n rho' va b ;;
     match sg with
     | SigBreak => ret SigNone
     | SigReturn _ => ret sg
     | _ => exec_genfor d n rho va vars f s ctl' b
     end
   end).
Proof. reflexivity. Qed.

Lemma local_go_nil vs acc : local_go [] vs acc = ret acc. Proof. reflexivity. Qed.
Lemma local_go_cons p rest vs acc :
  local_go (p :: rest) vs acc = (a <- new_cell (arg vs 0) ;; local_go rest (tl vs) ((param_name p, a) :: acc)).
Proof. reflexivity. Qed.

Lemma bind_params_nil args : bind_params [] args = ret []. Proof. reflexivity. Qed.
Lemma bind_params_cons p ps args :
  bind_params (p :: ps) args =
  (a <- new_cell (arg args 0) ;; rest <- bind_params ps (tl args) ;; ret ((param_name p, a) :: rest)).
Proof. reflexivity. Qed.

Lemma path_go_short n o ks : (List.length ks <= 1)%nat -> path_go d n o ks = ret o.
Proof. destruct ks as [|k [|k2 ks]]; cbn [List.length]; intros H; try reflexivity. lia. Qed.
Lemma path_go_cons n o k k2 ks :
  path_go d n o (k :: k2 :: ks) = (o' <- index d n o (VStr k) ;; path_go d n o' (k2 :: ks)).
Proof. reflexivity. Qed.

Lemma targets_go_nil n rho va : targets_go d n rho va [] = ret []. Proof. reflexivity. Qed.
Lemma targets_go_cons n rho va v rest :
  targets_go d n rho va (v :: rest) =
  (t <- eval_target d n rho va v ;; ts <- targets_go d n rho va rest ;; ret (t :: ts)).
Proof. reflexivity. Qed.
Lemma assign_go_nil n rho vs : assign_go d n rho [] vs = ret tt. Proof. reflexivity. Qed.
Lemma assign_go_cons n rho t rest vs :
  assign_go d n rho (t :: rest) vs = (_ <- assign_target d n rho t (arg vs 0) ;; assign_go d n rho rest (tl vs)).
Proof. reflexivity. Qed.

End Unfold.
