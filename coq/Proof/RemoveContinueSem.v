(** C06/C07, remove_continue: semantic lemma for the simplest shape, against the reference
    interpreter Lua/Sem.v.

    Input   [while c do SS continue end]      (the [continue] is the body's last statement)
    Output  [while c do
               local F = false
               repeat SS F = true break until true
               if not F then break end
             end]                               (Model/RemoveContinue.v, [body_out])
    Reference for the comparison ([body_ref]):
            [while c do local F = false SS F = true continue end]
    i.e. the input with the flag declared and set but the CONTROL FLOW of the input.  The
    theorem: for every condition, environment, store, varargs and dialect, the output loop
    computes exactly what the reference loop computes (same result or error, same store, same
    events), with 10 more units of fuel - for every statement list [SS] that (run under the
    flag binding) never signals [continue], keeps the flag visible when it ends normally, and
    leaves the flag [false] when it signals [break].  [SS] may [break] and [return].

    PARTIAL: what is missing to relate the output to the INPUT is that declaring and setting
    a local that [SS] does not mention does not change behaviour (the flag allocates one
    cell per iteration, so all later cell addresses shift: an equivalence up to renaming of
    addresses, not an equality of stores). *)
From Coq Require Import ZArith NArith List Bool String Lia.
From DL Require Import Lib.Bytes Lib.F64 Lua.Syntax Lua.Sem Proof.SemFacts Proof.LoweringFuel
  Model.RemoveContinue.
Import ListNotations.
Open Scope N_scope.

Section Sound.
Variable d : dialect.
Variable id : N.

Definition F : name := continue_name id.
Definition flag_decl : stmt := SLocal false [Param F None] [EFalse].
Definition flag_test : stmt := SIf [SBranch (EUnary UNot (EIdent F)) (Block [] (Some LBreak))] None.

Definition body_ref (ss : list stmt) : block := Block (flag_decl :: ss ++ [set_flag id]) (Some LContinue).
Definition body_out (ss : list stmt) : block := wrap_loop_block id (Block (ss ++ [set_flag id]) (Some LBreak)).

Lemma body_out_eq ss :
  body_out ss = Block [flag_decl; SRepeat (Block (ss ++ [set_flag id]) (Some LBreak)) ETrue; flag_test] None.
Proof. reflexivity. Qed.

(** running a statement list with fuel [n] for each statement, as [exec_repeat] does *)
Definition run (n : nat) (va : list value) (last : option laststmt) (ss : list stmt) (rho : env) : M (env * signal) :=
  repeat_loop (fun r es => eval_list d n r va es) (fun r st => exec_stmt d n r va st) last ss rho.

Definition cell_is (s : store) (a : N) (v : value) : Prop := nth_N (cells s) (N.to_nat a) = Some v.

(** what the theorem asks of the statements of the body *)
Definition flag_discipline (ss : list stmt) : Prop :=
  forall n va rho s rho1 sg s1 a,
    lookup rho F = Some a -> cell_is s a (VBool false) ->
    run n va None ss rho s = Ok (rho1, sg) s1 ->
    sg <> SigContinue /\
    (sg = SigNone -> lookup rho1 F = Some a /\ exists v, cell_is s1 a v) /\
    (sg = SigBreak -> cell_is s1 a (VBool false)).


(** * List and store facts *)
Lemma nth_N_lt {A} (l : list A) i x : nth_N l i = Some x -> (i < List.length l)%nat.
Proof.
  revert i; induction l as [|y l IH]; intros [|i] H; cbn in *; try discriminate; try lia.
  apply IH in H. lia.
Qed.
Lemma nth_N_app_len {A} (l : list A) x : nth_N (l ++ [x]) (List.length l) = Some x.
Proof. induction l as [|y l IH]; cbn; auto. Qed.
Lemma nth_N_set_same {A} (l : list A) i v : (i < List.length l)%nat -> nth_N (set_nth l i v) i = Some v.
Proof.
  revert i; induction l as [|y l IH]; intros [|i] H; cbn in *; try lia; auto.
  apply IH. lia.
Qed.

Lemma lookup_head rho x a : lookup ((x, a) :: rho) x = Some a.
Proof. cbn [lookup]. replace (bytes_eqb x x) with true; [reflexivity|]. symmetry. apply bytes_eqb_eq. reflexivity. Qed.

(** * The statement runs *)
Lemma run_app n va last ss tl rho s :
  run n va last (ss ++ tl) rho s =
  bind (run n va None ss rho)
       (fun p => match snd p with SigNone => run n va last tl (fst p) | _ => ret p end) s.
Proof.
  revert rho s. induction ss as [|st ss IH]; intros rho s.
  - reflexivity.
  - cbn [app]. unfold run in *. cbn [repeat_loop]. unfold bind in *.
    destruct (exec_stmt d n rho va st s) as [[rho' sg] s1|e s1| |w]; try reflexivity.
    destruct sg; try reflexivity. apply IH.
Qed.

Lemma run_mono n n' va last ss rho : (n <= n')%nat -> refines (run n va last ss rho) (run n' va last ss rho).
Proof.
  intros L. unfold run. apply repeat_loop_mono.
  - intros r es. apply eval_list_refines_le, L.
  - intros r st. apply exec_stmt_refines_le, L.
Qed.

Definition sig_of (m : M (env * signal)) : M signal := bind m (fun p => ret (snd p)).

Lemma stmts_run n va last ss : forall m rho s, (m <= S n)%nat ->
  exec_stmts d m rho va ss last s <> Fuel ->
  sig_of (run n va last ss rho) s = exec_stmts d m rho va ss last s.
Proof.
  induction ss as [|st ss IH]; intros [|m] rho s Hm Hne; try (exfalso; apply Hne; reflexivity).
  - rewrite exec_stmts_unf in *. unfold sig_of, run. cbn [repeat_loop].
    destruct last as [[| |es]|]; try reflexivity.
    assert (E : eval_list d n rho va es s = eval_list d m rho va es s).
    { apply eval_list_refines_le; [lia|]. intros C. apply Hne. unfold bind. rewrite C. reflexivity. }
    unfold bind. rewrite E. destruct (eval_list d m rho va es s); reflexivity.
  - rewrite exec_stmts_unf in *. unfold sig_of, run in *. cbn [repeat_loop].
    assert (E : exec_stmt d n rho va st s = exec_stmt d m rho va st s).
    { apply exec_stmt_refines_le; [lia|]. intros C. apply Hne. unfold bind. rewrite C. reflexivity. }
    unfold bind in *. rewrite E.
    destruct (exec_stmt d m rho va st s) as [[rho' sg] s1|e s1| |w]; try reflexivity.
    destruct sg; try reflexivity.
    exact (IH m rho' s1 ltac:(lia) Hne).
Qed.


(** * The fixed statements of the wrapping, with enough fuel *)
Definition with_cells (s : store) (c : list value) : store :=
  mkStore c (tables s) (closures s) (trace s) (oracle s) (fresh s).

Lemma decl_step k rho va s :
  exec_stmt d (S (S (S k))) rho va flag_decl s =
  Ok ((F, N.of_nat (List.length (cells s))) :: rho, SigNone) (with_cells s (cells s ++ [VBool false])).
Proof.
  unfold flag_decl. rewrite exec_stmt_unf. cbv beta iota. rewrite eval_list_unf. cbv beta iota.
  rewrite eval_S_false. reflexivity.
Qed.

Lemma set_flag_step k rho va s a : lookup rho F = Some a ->
  exec_stmt d (S (S (S k))) rho va (set_flag id) s =
  Ok (rho, SigNone) (with_cells s (set_nth (cells s) (N.to_nat a) (VBool true))).
Proof.
  intros L. unfold set_flag. fold F. rewrite exec_stmt_unf. cbv beta iota.
  cbn [targets_loop]. rewrite eval_target_unf. cbv beta iota. rewrite L.
  rewrite eval_list_unf. cbv beta iota. rewrite eval_S_true.
  cbv [bind ret]. cbn [assign_loop]. cbv [bind ret]. rewrite assign_target_unf. reflexivity.
Qed.

Lemma not_flag_step k rho va s a v : lookup rho F = Some a -> cell_is s a v ->
  eval1 d (S (S (S (S k)))) rho va (EUnary UNot (EIdent F)) s = Ok (VBool (negb (truthy v))) s.
Proof.
  intros L C. rewrite eval1_S, eval_S_unary, eval1_S, eval_S_ident, L.
  unfold bind, get_cell. unfold cell_is in C. rewrite C. reflexivity.
Qed.

(** a [continue] that ends an iteration and a body that ends normally are the same to a loop *)
Definition norm (sg : signal) : signal := match sg with SigContinue => SigNone | _ => sg end.
Definition norm_res (r : res signal) : res signal :=
  match r with Ok sg s => Ok (norm sg) s | _ => r end.



Lemma flag_test_step k rho va s a v : lookup rho F = Some a -> cell_is s a v ->
  exec_stmts d (S (S (S (S (S (S (S k))))))) rho va [flag_test] None s =
  Ok (if truthy v then SigNone else SigBreak) s.
Proof.
  intros L C. rewrite exec_stmts_unf. cbv beta iota. unfold flag_test. rewrite exec_stmt_unf. cbv beta iota.
  cbn [sif_loop]. unfold bind.
  rewrite (not_flag_step (S k) rho va s a v L C).
  destruct (truthy v); cbn [negb truthy].
  - cbv [ret]. rewrite exec_stmts_unf. reflexivity.
  - rewrite exec_block_unf. rewrite exec_stmts_unf. reflexivity.
Qed.

Lemma norm_res_ok sg s : norm_res (Ok sg s) = Ok (norm sg) s. Proof. reflexivity. Qed.

(** * The hypothesis is satisfiable: statement-wise discipline, and two kinds of statements
    that have it (a local declared from a literal; a [break] under a literal condition) *)
Definition stmt_discipline (st : stmt) : Prop :=
  forall n va rho s rho1 sg s1 a,
    lookup rho F = Some a -> cell_is s a (VBool false) ->
    exec_stmt d n rho va st s = Ok (rho1, sg) s1 ->
    sg <> SigContinue /\
    (sg = SigNone -> lookup rho1 F = Some a /\ cell_is s1 a (VBool false)) /\
    (sg = SigBreak -> cell_is s1 a (VBool false)).

Lemma discipline_of_stmts ss : Forall stmt_discipline ss -> flag_discipline ss.
Proof.
  intros HF n va. induction ss as [|st ss IH]; intros rho s rho1 sg s1 a L C R.
  - unfold run in R. cbn [repeat_loop] in R. injection R as <- <- <-.
    split; [discriminate|]. split; [intros _; split; [exact L|exists (VBool false); exact C]|intros E; discriminate E].
  - inversion HF as [|? ? Hst Hrest]; subst. unfold run in R. cbn [repeat_loop] in R. unfold bind in R.
    destruct (exec_stmt d n rho va st s) as [[rho2 sg2] s2|e s2| |w] eqn:E; try discriminate R.
    destruct (Hst _ _ _ _ _ _ _ _ L C E) as (NC & HN & HB).
    destruct sg2.
    + destruct (HN eq_refl) as (L2 & C2). exact (IH Hrest _ _ _ _ _ _ L2 C2 R).
    + injection R as <- <- <-. split; [discriminate|]. split; [intros E'; discriminate E'|intros _; apply HB; reflexivity].
    + exfalso. apply NC. reflexivity.
    + injection R as <- <- <-. split; [discriminate|]. split; intros E'; discriminate E'.
Qed.

Definition lit_value (e : expr) : option value :=
  match e with ETrue => Some (VBool true) | EFalse => Some (VBool false) | ENil => Some VNil | _ => None end.

Lemma eval_lit k rho va e v : lit_value e = Some v -> eval d (S k) rho va e = ret [v].
Proof. destruct e; intros E; try discriminate E; injection E as <-; reflexivity. Qed.

Lemma local_lit_discipline y e v : y <> F -> lit_value e = Some v ->
  stmt_discipline (SLocal false [Param y None] [e]).
Proof.
  intros Ny Hv n va rho s rho1 sg s1 a L C E.
  apply (exec_stmt_mono d n (S (S (S n)))) in E; [|lia].
  rewrite exec_stmt_unf in E. cbv beta iota in E. rewrite eval_list_unf in E. cbv beta iota in E.
  rewrite (eval_lit _ _ _ _ _ Hv) in E. cbv [bind ret new_cell] in E. cbn [arg nth tl param_name] in E.
  injection E as <- <- <-.
  split; [discriminate|]. split; [|intros E'; discriminate E'].
  intros _. split.
  - cbn [lookup]. destruct (bytes_eqb F y) eqn:B; [apply bytes_eqb_eq in B; congruence|exact L].
  - unfold cell_is in *. cbn [cells].
    clear - C. revert C. generalize (N.to_nat a). generalize (cells s).
    induction l as [|x l IHl]; intros [|i] H; cbn in *; try discriminate; auto.
Qed.

Lemma break_block_step n rho va : exec_block d (S (S (S n))) rho va (Block [] (Some LBreak)) = ret SigBreak.
Proof. rewrite exec_block_unf. rewrite exec_stmts_unf. reflexivity. Qed.

Lemma if_one_step n rho va e blk : exec_stmt d (S n) rho va (SIf [SBranch e blk] None) =
  (sg <- (cv <- eval1 d n rho va e;; if truthy cv then exec_block d n rho va blk else ret SigNone);; ret (rho, sg)).
Proof. rewrite exec_stmt_unf. reflexivity. Qed.

Lemma eval1_lit n rho va e v s : lit_value e = Some v -> eval1 d (S (S n)) rho va e s = Ok v s.
Proof. intros Hv. rewrite eval1_S, (eval_lit _ _ _ _ _ Hv). reflexivity. Qed.

Lemma break_if_lit_step n rho va e v s : lit_value e = Some v ->
  exec_stmt d (S (S (S (S n)))) rho va (SIf [SBranch e (Block [] (Some LBreak))] None) s =
  Ok (rho, if truthy v then SigBreak else SigNone) s.
Proof.
  intros Hv. rewrite if_one_step, break_block_step. unfold bind. rewrite (eval1_lit _ _ _ _ _ _ Hv).
  destruct (truthy v); reflexivity.
Qed.

Lemma break_if_lit_discipline e v : lit_value e = Some v ->
  stmt_discipline (SIf [SBranch e (Block [] (Some LBreak))] None).
Proof.
  intros Hv n va rho s rho1 sg s1 a L C E.
  apply (exec_stmt_mono d n (S (S (S (S n))))) in E; [|lia].
  rewrite (break_if_lit_step _ _ _ _ _ _ Hv) in E.
  destruct (truthy v); injection E as <- <- <-.
  - split; [discriminate|]. split; [intros E'; discriminate E'|intros _; exact C].
  - split; [discriminate|]. split; [intros _; split; assumption|intros E'; discriminate E'].
Qed.

Section Body.
Variable ss : list stmt.
Hypothesis Hss : flag_discipline ss.

Lemma rest_sound n va rho' s1 a :
  lookup rho' F = Some a -> cell_is s1 a (VBool false) ->
  exec_stmts d (S (S (S n))) rho' va (ss ++ [set_flag id]) (Some LContinue) s1 <> Fuel ->
  exec_stmts d (S (S (S (S (S (S (S (S n)))))))) rho' va
    [SRepeat (Block (ss ++ [set_flag id]) (Some LBreak)) ETrue; flag_test] None s1 =
  norm_res (exec_stmts d (S (S (S n))) rho' va (ss ++ [set_flag id]) (Some LContinue) s1).
Proof.
  intros L C Hne.
  pose proof (stmts_run (S (S (S (S (S n))))) va (Some LContinue) (ss ++ [set_flag id]) (S (S (S n))) rho' s1 ltac:(lia) Hne) as EQ.
  rewrite <- EQ in Hne |- *. clear EQ.
  unfold sig_of in *. unfold bind in Hne |- *. rewrite run_app in Hne |- *.
  rewrite exec_stmts_unf. cbv beta iota. rewrite exec_stmt_unf. cbv beta iota. rewrite exec_repeat_unf. cbv beta iota.
  change (repeat_loop (fun r => eval_list d (S (S (S (S (S n))))) r va) (fun r => exec_stmt d (S (S (S (S (S n))))) r va))
    with (run (S (S (S (S (S n))))) va).
  unfold bind in Hne |- *. rewrite run_app. unfold bind.
  destruct (run (S (S (S (S (S n))))) va None ss rho' s1) as [[rho1 sg] s2|e s2| |w] eqn:ER; cbn [fst snd] in *.
  - destruct (Hss _ _ _ _ _ _ _ _ L C ER) as (NC & HN & HB). destruct sg.
    + destruct (HN eq_refl) as (L1 & v & C1).
      unfold run at 1 2. cbn [repeat_loop]. unfold bind.
      rewrite (set_flag_step (S (S n)) rho1 va s2 a L1). cbv [ret]. cbv beta iota.
      assert (C2 : cell_is (with_cells s2 (set_nth (cells s2) (N.to_nat a) (VBool true))) a (VBool true)).
      { unfold cell_is, with_cells. cbn [cells]. apply nth_N_set_same. exact (nth_N_lt _ _ _ C1). }
      rewrite (flag_test_step n rho' va _ a _ L C2). reflexivity.
    + specialize (HB eq_refl). cbv [ret]. cbv beta iota.
      rewrite (flag_test_step n rho' va _ a _ L HB). reflexivity.
    + exfalso. apply NC. reflexivity.
    + reflexivity.
  - reflexivity.
  - exfalso. apply Hne. reflexivity.
  - reflexivity.
Qed.

Definition after_decl (rho : env) (s : store) : env * store :=
  ((F, N.of_nat (List.length (cells s))) :: rho, with_cells s (cells s ++ [VBool false])).

Lemma ref_body_step n rho va s :
  exec_block d (S (S (S (S (S n))))) rho va (body_ref ss) s =
  exec_stmts d (S (S (S n))) (fst (after_decl rho s)) va (ss ++ [set_flag id]) (Some LContinue) (snd (after_decl rho s)).
Proof.
  unfold body_ref. rewrite exec_block_unf, exec_stmts_unf. unfold bind. rewrite decl_step. reflexivity.
Qed.

Lemma out_body_step n rho va s :
  exec_block d (S (S (S (S (S (S (S (S (S (S n)))))))))) rho va (body_out ss) s =
  exec_stmts d (S (S (S (S (S (S (S (S n)))))))) (fst (after_decl rho s)) va
    [SRepeat (Block (ss ++ [set_flag id]) (Some LBreak)) ETrue; flag_test] None (snd (after_decl rho s)).
Proof.
  rewrite body_out_eq. rewrite exec_block_unf, exec_stmts_unf. unfold bind. rewrite decl_step. reflexivity.
Qed.

Lemma body_sound_S n rho va s :
  exec_block d (S (S (S (S (S n))))) rho va (body_ref ss) s <> Fuel ->
  exec_block d (S (S (S (S (S (S (S (S (S (S n)))))))))) rho va (body_out ss) s =
  norm_res (exec_block d (S (S (S (S (S n))))) rho va (body_ref ss) s).
Proof.
  rewrite out_body_step, ref_body_step. intros Hne.
  apply (rest_sound n va _ _ (N.of_nat (List.length (cells s)))).
  - apply lookup_head.
  - unfold cell_is, after_decl, with_cells. cbn [snd cells]. rewrite Nat2N.id. apply nth_N_app_len.
  - exact Hne.
Qed.

Lemma body_sound n rho va s :
  exec_block d n rho va (body_ref ss) s <> Fuel ->
  exec_block d (S (S (S (S (S (S (S (S (S (S n)))))))))) rho va (body_out ss) s =
  norm_res (exec_block d n rho va (body_ref ss) s).
Proof.
  intros Hne.
  assert (E : exec_block d (S (S (S (S (S n))))) rho va (body_ref ss) s = exec_block d n rho va (body_ref ss) s).
  { apply exec_block_refines_le; [lia|exact Hne]. }
  rewrite <- E. apply body_sound_S. rewrite E. exact Hne.
Qed.
End Body.

(** * The loop *)
Definition plus10 (n : nat) : nat := S (S (S (S (S (S (S (S (S (S n))))))))).

Lemma continue_while_sound_S : forall ss, flag_discipline ss ->
  forall n rho va c s,
    exec_while d n rho va c (body_ref ss) s <> Fuel ->
    exec_while d (plus10 n) rho va c (body_out ss) s = exec_while d n rho va c (body_ref ss) s.
Proof.
  intros ss Hss. induction n as [|n IH]; intros rho va c s Hne; [exfalso; apply Hne; reflexivity|].
  change (plus10 (S n)) with (S (plus10 n)).
  rewrite (exec_while_unf d (plus10 n)). rewrite (exec_while_unf d n) in Hne |- *. unfold bind in Hne |- *.
  assert (Ec : eval1 d (plus10 n) rho va c s = eval1 d n rho va c s).
  { apply eval1_refines_le; [unfold plus10; lia|]. intros C. apply Hne. rewrite C. reflexivity. }
  rewrite Ec. destruct (eval1 d n rho va c s) as [cv s1|e s1| |w]; try reflexivity.
  destruct (truthy cv); [|reflexivity].
  assert (Hb : exec_block d n rho va (body_ref ss) s1 <> Fuel).
  { intros C. apply Hne. rewrite C. reflexivity. }
  unfold plus10 at 1. rewrite (body_sound ss Hss n rho va s1 Hb).
  destruct (exec_block d n rho va (body_ref ss) s1) as [sg s2|e s2| |w]; try reflexivity.
  cbn [norm_res]. destruct sg; cbn [norm]; try reflexivity; apply IH; exact Hne.
Qed.

Theorem continue_while_sound_partial : forall ss, flag_discipline ss ->
  forall n rho va c s,
    exec_while d n rho va c (body_ref ss) s <> Fuel ->
    exec_while d (10 + n) rho va c (body_out ss) s = exec_while d n rho va c (body_ref ss) s.
Proof. exact continue_while_sound_S. Qed.

End Sound.

(** the rule's output on the input shape is [body_out] (the loop gets id 1) *)
Example body_out_is_rule_output :
  let c := EIdent [99] in
  let ss := [SCall (ECall (EIdent [102]) None (ATuple []));
             SIf [SBranch (EIdent [97]) (Block [] (Some LBreak))] None] in
  remove_continue_block (Block [SWhile c (Block ss (Some LContinue))] None) = Block [SWhile c (body_out 1 ss)] None.
Proof. vm_compute. reflexivity. Qed.


(** the hypotheses of [continue_while_sound_partial] hold for a body that declares locals and
    leaves the loop with [break] (both the normal and the [break] path are exercised) *)
Example flag_discipline_example d :
  flag_discipline d 1 [SLocal false [Param [121] None] [ETrue];
                       SIf [SBranch EFalse (Block [] (Some LBreak))] None;
                       SIf [SBranch ETrue (Block [] (Some LBreak))] None].
Proof.
  apply discipline_of_stmts. apply Forall_cons; [|apply Forall_cons; [|apply Forall_cons; [|apply Forall_nil]]].
  - eapply local_lit_discipline; [|reflexivity]. vm_compute. discriminate.
  - eapply break_if_lit_discipline. reflexivity.
  - eapply break_if_lit_discipline. reflexivity.
Qed.
