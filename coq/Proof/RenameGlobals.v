(** The configured avoid set of rename_variables (Model/Rename.v: set_globals) is the UNION of
    DEFAULT and of what every entry of the `globals` list stands for, whatever the order of the
    list and however often a group is repeated. *)
From Coq Require Import NArith List Bool Permutation.
From DL Require Import Lib.Bytes Model.Rename.
Import ListNotations.

Lemma set_globals_in dflt roblox l : forall cur x,
  In x (set_globals dflt roblox cur l) <-> In x cur \/ exists e, In e l /\ In x (expand_entry dflt roblox e).
Proof.
  unfold set_globals. induction l as [|e l IH]; intros cur x; cbn [fold_left].
  - split; [now left | intros [H | [e [[] _]]]; exact H].
  - rewrite IH. rewrite in_app_iff. split.
    + intros [[H | H] | [e' [H1 H2]]].
      * now left.
      * right. exists e. split; [now left | exact H].
      * right. exists e'. split; [now right | exact H2].
    + intros [H | [e' [[<- | H1] H2]]].
      * left. now left.
      * left. now right.
      * right. exists e'. now split.
Qed.

(** membership in the configured globals: the union over the list *)
Theorem configured_globals_union : forall dflt roblox l x,
  In x (configured_globals dflt roblox l) <->
  In x dflt \/ exists e, In e l /\ In x (expand_entry dflt roblox e).
Proof. intros. apply set_globals_in. Qed.

(** the order of the list (and the position or repetition of "$default" / "$roblox") is irrelevant *)
Theorem configured_globals_order_independent : forall dflt roblox l l',
  (forall e, In e l <-> In e l') ->
  forall x, In x (configured_globals dflt roblox l) <-> In x (configured_globals dflt roblox l').
Proof.
  intros dflt roblox l l' H x. rewrite !configured_globals_union.
  split; (intros [K | [e [K1 K2]]]; [now left | right; exists e; split; [now apply H | exact K2]]).
Qed.

Corollary configured_globals_permutation : forall dflt roblox l l',
  Permutation l l' ->
  forall x, In x (configured_globals dflt roblox l) <-> In x (configured_globals dflt roblox l').
Proof.
  intros dflt roblox l l' P. apply configured_globals_order_independent.
  intros e. split; [apply (Permutation_in e P) | apply (Permutation_in e (Permutation_sym P))].
Qed.

(** every listed name, wherever it stands in the list, is in the avoid set of the processor and stays there *)
Theorem listed_name_avoided : forall dflt roblox l extra x,
  In (GName x) l -> In x (avoid (init (configured_globals dflt roblox l ++ extra))).
Proof.
  intros dflt roblox l extra x H. cbn [init avoid]. apply in_or_app. left. apply in_or_app. left.
  apply configured_globals_union. right. exists (GName x). split; [exact H | now left].
Qed.
