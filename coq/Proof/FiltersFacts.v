(** C20 — proofs about Model/Filters.v. *)
From Coq Require Import List Bool.
From DL Require Import Model.Filters.
Import ListNotations.

Section FiltersFacts.

Variables pattern path text block : Type.
Variable matches : pattern -> path -> bool.
Variable parse : text -> option block.
Variable bundle : path -> block -> option block.
Variable generate : block -> text -> text.

Notation should_apply := (should_apply matches).
Notation selected := (selected matches).
Notation run_rules := (run_rules matches).
Notation process_file := (process_file matches parse bundle generate).
Notation process_tree := (process_tree matches parse bundle generate).
Notation rule := (rule pattern path block).
Notation config := (config pattern path block).

(** ** The decision is the documented one *)

Lemma all_not_matching : forall (ps : list pattern) f,
  forallb (fun p => negb (matches p f)) ps = true <-> (forall p, In p ps -> matches p f = false).
Proof.
  intros ps f. rewrite forallb_forall. split; intros H p Hp.
  - apply negb_true_iff. apply H. exact Hp.
  - apply negb_true_iff. apply H. exact Hp.
Qed.

Lemma should_apply_selected : forall flt f, should_apply flt f = true <-> selected flt f.
Proof.
  intros [ap sk] f. unfold Filters.should_apply, Filters.selected. cbn [apply_to skip].
  split.
  - intros H.
    destruct (negb (is_empty ap) && forallb (fun p => negb (matches p f)) ap) eqn:Hap; [discriminate|].
    destruct (negb (is_empty sk) && existsb (fun p => matches p f) sk) eqn:Hsk; [discriminate|].
    split.
    + apply andb_false_iff in Hap. destruct Hap as [Hap|Hap].
      * left. destruct ap; [reflexivity|discriminate].
      * right.
        assert (Hex : existsb (fun p => matches p f) ap = true).
        { clear -Hap. induction ap as [|p ps IH]; cbn in *; [discriminate|].
          destruct (matches p f); cbn in *; [reflexivity|]. apply IH. exact Hap. }
        apply existsb_exists in Hex. exact Hex.
    + intros p Hp. apply andb_false_iff in Hsk. destruct Hsk as [Hsk|Hsk].
      * destruct sk; [destruct Hp|discriminate].
      * destruct (matches p f) eqn:Hm; [|reflexivity].
        assert (existsb (fun p => matches p f) sk = true) by (apply existsb_exists; eauto).
        congruence.
  - intros [Hap Hsk].
    assert (E1 : negb (is_empty ap) && forallb (fun p => negb (matches p f)) ap = false).
    { destruct Hap as [->|[p [Hin Hm]]]; [reflexivity|].
      apply andb_false_iff. right.
      destruct (forallb (fun p => negb (matches p f)) ap) eqn:Hall; [|reflexivity].
      rewrite all_not_matching in Hall. rewrite (Hall p Hin) in Hm. discriminate. }
    assert (E2 : negb (is_empty sk) && existsb (fun p => matches p f) sk = false).
    { apply andb_false_iff. right.
      destruct (existsb (fun p => matches p f) sk) eqn:Hex; [|reflexivity].
      apply existsb_exists in Hex. destruct Hex as [p [Hin Hm]]. rewrite (Hsk p Hin) in Hm. discriminate. }
    rewrite E1, E2. reflexivity.
Qed.

Lemma should_apply_not_selected : forall flt f, should_apply flt f = false <-> ~ selected flt f.
Proof.
  intros flt f. rewrite <- should_apply_selected. destruct (should_apply flt f); split; intros; congruence.
Qed.

Lemma should_apply_no_filter : forall f, should_apply no_filter f = true.
Proof. reflexivity. Qed.

(** ** Top level *)

Definition set_filter (flt : filter pattern) (c : config) : config := Config flt (c_rules c).

(** A file that parses (and bundles): it is written, transformed by the rules, exactly when the
    top-level filter selects it -- then with the same result as without any top-level filter --
    and otherwise it is left alone (nothing is written), whatever the rules are. *)
Lemma global_filter_spec : forall (c : config) f src b0 b1,
  parse src = Some b0 -> bundle f b0 = Some b1 ->
  (selected (c_filter c) f ->
     process_file c f src = process_file (set_filter no_filter c) f src /\
     process_file c f src <> Skipped) /\
  (~ selected (c_filter c) f -> process_file c f src = Skipped).
Proof.
  intros c f src b0 b1 Hp Hb. unfold Filters.process_file. rewrite Hp, Hb.
  cbn [set_filter c_filter c_rules]. rewrite should_apply_no_filter. cbn [negb].
  split.
  - intros Hs. apply should_apply_selected in Hs. rewrite Hs. cbn [negb].
    split; [reflexivity|]. destruct (run_rules (c_rules c) f b1); discriminate.
  - intros Hs. apply should_apply_not_selected in Hs. rewrite Hs. reflexivity.
Qed.

(** The only thing process_file looks at in the top-level filter is the decision for this file. *)
Lemma global_filter_local : forall (c : config) flt' f src,
  should_apply (c_filter c) f = should_apply flt' f ->
  process_file c f src = process_file (set_filter flt' c) f src.
Proof.
  intros c flt' f src H. unfold Filters.process_file. cbn [set_filter c_filter c_rules]. rewrite H. reflexivity.
Qed.

(** ** One rule of a pipeline *)

Lemma run_rules_app : forall (rs1 rs2 : list rule) f b,
  run_rules (rs1 ++ rs2) f b =
  match run_rules rs1 f b with Some b' => run_rules rs2 f b' | None => None end.
Proof.
  induction rs1 as [|r rs1 IH]; intros rs2 f b; cbn [app Filters.run_rules]; [reflexivity|].
  destruct (should_apply (r_filter r) f).
  - destruct (r_process r f b); [apply IH|reflexivity].
  - apply IH.
Qed.

(** A rule whose filter rejects the file: the pipeline behaves as if the rule were deleted. *)
Lemma rule_filter_skip : forall (rs1 rs2 : list rule) (r : rule) f b,
  should_apply (r_filter r) f = false ->
  run_rules (rs1 ++ r :: rs2) f b = run_rules (rs1 ++ rs2) f b.
Proof.
  intros rs1 rs2 r f b H. rewrite !run_rules_app. destruct (run_rules rs1 f b); [|reflexivity].
  cbn [Filters.run_rules]. rewrite H. reflexivity.
Qed.

(** A rule whose filter accepts the file: the pipeline behaves as if the rule had no filter. *)
Lemma rule_filter_apply : forall (rs1 rs2 : list rule) (r : rule) f b,
  should_apply (r_filter r) f = true ->
  run_rules (rs1 ++ r :: rs2) f b = run_rules (rs1 ++ unfiltered r :: rs2) f b.
Proof.
  intros rs1 rs2 r f b H. rewrite !run_rules_app. destruct (run_rules rs1 f b); [|reflexivity].
  cbn [Filters.run_rules unfiltered with_filter r_filter r_process]. rewrite H, should_apply_no_filter. reflexivity.
Qed.

(** Replacing the filter of one rule by any filter that takes the same decision for this file
    changes nothing for this file; the other rules keep their filters and are run or skipped as before. *)
Lemma rule_filter_local : forall (rs1 rs2 : list rule) (r : rule) flt' f b,
  should_apply (r_filter r) f = should_apply flt' f ->
  run_rules (rs1 ++ r :: rs2) f b = run_rules (rs1 ++ with_filter flt' r :: rs2) f b.
Proof.
  intros rs1 rs2 r flt' f b H. rewrite !run_rules_app. destruct (run_rules rs1 f b); [|reflexivity].
  cbn [Filters.run_rules with_filter r_filter r_process]. rewrite H. reflexivity.
Qed.

(** The same three facts for the whole treatment of a file. *)
Definition set_rules (rs : list rule) (c : config) : config := Config (c_filter c) rs.

Lemma process_file_rules_ext : forall (c : config) rs rs' f src,
  (forall b, run_rules rs f b = run_rules rs' f b) ->
  process_file (set_rules rs c) f src = process_file (set_rules rs' c) f src.
Proof.
  intros c rs rs' f src H. unfold Filters.process_file. cbn [set_rules c_filter c_rules].
  destruct (parse src); [|reflexivity]. destruct (bundle f b); [|reflexivity].
  rewrite H. reflexivity.
Qed.

Lemma file_rule_filter_skip : forall (c : config) rs1 rs2 (r : rule) f src,
  ~ selected (r_filter r) f ->
  process_file (set_rules (rs1 ++ r :: rs2) c) f src = process_file (set_rules (rs1 ++ rs2) c) f src.
Proof.
  intros c rs1 rs2 r f src H. apply process_file_rules_ext. intros b.
  apply rule_filter_skip. apply should_apply_not_selected. exact H.
Qed.

Lemma file_rule_filter_apply : forall (c : config) rs1 rs2 (r : rule) f src,
  selected (r_filter r) f ->
  process_file (set_rules (rs1 ++ r :: rs2) c) f src =
  process_file (set_rules (rs1 ++ unfiltered r :: rs2) c) f src.
Proof.
  intros c rs1 rs2 r f src H. apply process_file_rules_ext. intros b.
  apply rule_filter_apply. apply should_apply_selected. exact H.
Qed.

(** ** Locality over a whole tree of files *)

(** Two configurations with the same rule bodies whose filters (top level and rule by rule) take
    the same decisions for the file [f]. *)
Inductive rules_agree (f : path) : list rule -> list rule -> Prop :=
| ra_nil : rules_agree f [] []
| ra_cons : forall r r' rs rs',
    r_process r = r_process r' ->
    should_apply (r_filter r) f = should_apply (r_filter r') f ->
    rules_agree f rs rs' -> rules_agree f (r :: rs) (r' :: rs').

Definition configs_agree (f : path) (c c' : config) : Prop :=
  should_apply (c_filter c) f = should_apply (c_filter c') f /\ rules_agree f (c_rules c) (c_rules c').

Lemma run_rules_agree : forall f rs rs', rules_agree f rs rs' -> forall b, run_rules rs f b = run_rules rs' f b.
Proof.
  intros f rs rs' H. induction H as [|r r' rs rs' Hp Hs _ IH]; intros b; [reflexivity|].
  cbn [Filters.run_rules]. rewrite Hs, Hp. destruct (should_apply (r_filter r') f).
  - destruct (r_process r' f b); [apply IH|reflexivity].
  - apply IH.
Qed.

Lemma process_file_agree : forall f c c' src, configs_agree f c c' -> process_file c f src = process_file c' f src.
Proof.
  intros f c c' src [Hg Hr]. unfold Filters.process_file. rewrite Hg.
  destruct (parse src); [|reflexivity]. destruct (bundle f b); [|reflexivity].
  rewrite (run_rules_agree f _ _ Hr). reflexivity.
Qed.

(** Filters never affect any other file or rule: editing filters anywhere in the configuration
    leaves the outcome of every file on which all the decisions are unchanged exactly as it was,
    position by position in the tree. *)
Lemma filters_local : forall (c c' : config) files,
  length (process_tree c files) = length (process_tree c' files) /\
  forall n f src, nth_error files n = Some (f, src) ->
    configs_agree f c c' ->
    nth_error (process_tree c files) n = Some (f, process_file c f src) /\
    nth_error (process_tree c' files) n = Some (f, process_file c f src).
Proof.
  intros c c' files. unfold Filters.process_tree. split; [rewrite !map_length; reflexivity|].
  intros n f src Hn Hag. rewrite !nth_error_map, Hn. cbn [option_map fst snd].
  rewrite (process_file_agree f c c' src Hag). split; reflexivity.
Qed.

(** [rules_agree] is reflexive and is what "change the filter of one rule" produces. *)
Lemma rules_agree_refl : forall f rs, rules_agree f rs rs.
Proof. intros f rs. induction rs; constructor; auto. Qed.

Lemma rules_agree_one : forall f rs1 rs2 (r : rule) flt',
  should_apply (r_filter r) f = should_apply flt' f ->
  rules_agree f (rs1 ++ r :: rs2) (rs1 ++ with_filter flt' r :: rs2).
Proof.
  intros f rs1 rs2 r flt' H. induction rs1 as [|x rs1 IH]; cbn [app].
  - constructor; [reflexivity|exact H|apply rules_agree_refl].
  - constructor; [reflexivity|reflexivity|exact IH].
Qed.

(** ** Both levels decide on the same path with the same function: a filter put on every rule selects exactly
    the files the same filter selects at the top level *)
Lemma levels_agree_reject : forall (rs : list rule) flt f b,
  should_apply flt f = false -> run_rules (map (with_filter flt) rs) f b = Some b.
Proof.
  induction rs as [|r rs IH]; intros flt f b H; cbn [map Filters.run_rules with_filter r_filter]; [reflexivity|].
  rewrite H. apply IH. exact H.
Qed.

Lemma levels_agree_select : forall (rs : list rule) flt f b,
  should_apply flt f = true -> run_rules (map (with_filter flt) rs) f b = run_rules (map unfiltered rs) f b.
Proof.
  induction rs as [|r rs IH]; intros flt f b H; cbn [map Filters.run_rules with_filter unfiltered r_filter r_process]; [reflexivity|].
  rewrite H, should_apply_no_filter. destruct (r_process r f b); [apply IH; exact H|reflexivity].
Qed.

Lemma levels_agree : forall (rs : list rule) flt f src b0 b1,
  parse src = Some b0 -> bundle f b0 = Some b1 ->
  (process_file (Config flt (map unfiltered rs)) f src = Skipped <->
   run_rules (map (with_filter flt) rs) f b1 = Some b1 /\ should_apply flt f = false) /\
  (should_apply flt f = true ->
   process_file (Config flt (map unfiltered rs)) f src = process_file (Config no_filter (map (with_filter flt) rs)) f src).
Proof.
  intros rs flt f src b0 b1 Hp Hb. unfold Filters.process_file. rewrite Hp, Hb. cbn [c_filter c_rules].
  rewrite should_apply_no_filter. cbn [negb]. split.
  - destruct (should_apply flt f) eqn:E; cbn [negb].
    + split; [|intros [_ H]; discriminate]. destruct (run_rules (map unfiltered rs) f b1); discriminate.
    + split; [intros _; split; [apply levels_agree_reject; exact E|reflexivity]|reflexivity].
  - intros E. rewrite E. cbn [negb]. rewrite (levels_agree_select rs flt f b1 E). reflexivity.
Qed.

End FiltersFacts.

Arguments set_filter {pattern path block}.
Arguments set_rules {pattern path block}.
Arguments rules_agree {pattern path block}.
Arguments configs_agree {pattern path block}.
