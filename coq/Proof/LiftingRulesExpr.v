(** C01, LIFTING - instantiations for the expression-level rules:
    remove_function_call_parens (unconditional) and convert_index_to_field restricted to
    string-LITERAL keys ([..._literal]; the general rule evaluates its key statically and the
    node theorem [index_to_field_sound] needs the store invariant [env_plain] and loses the
    key's fresh allocations, neither of which holds for arbitrary programs: PARTIAL). *)
From Coq Require Import ZArith NArith List Bool String Lia.
From DL Require Import Lib.Bytes Lib.F64 Lua.Syntax Lua.Sem Model.Evaluator Model.DefaultRules.
From DL Require Model.Serializer.
From DL Require Import Proof.LoweringFuel.
From DL Require Import Proof.SemFacts Proof.DefaultRulesSem Proof.RefactorSem Proof.RefactorSimA.
From DL Require Import Proof.DefaultRulesSoundExpr.
From DL Require Import Proof.LiftingDefs Proof.LiftingSim Proof.LiftingVisit.
Import ListNotations.
Open Scope N_scope.

Definition Rnone {A} : A -> A -> Prop := fun _ _ => False.

Lemma refines_eq {A} (m1 m2 : M A) : (forall s, m1 s = m2 s) -> refines m1 m2.
Proof. intros H s _. symmetry. apply H. Qed.

Lemma refines_bind_l {A B} (m : M A) (f1 f2 : A -> M B) :
  (forall a, refines (f1 a) (f2 a)) -> refines (bind m f1) (bind m f2).
Proof. intros H. apply refines_bind; [apply refines_refl|exact H]. Qed.

(** a computation that, when it does not run out of fuel, yields [c] and leaves the store alone *)
Lemma refines_bind_const {A B} (m : M A) (c : A) (f : A -> M B) (g : M B) :
  refines m (ret c) -> refines (f c) g -> refines (bind m f) g.
Proof.
  intros Hm Hf st Hn. unfold bind in *. specialize (Hm st).
  destruct (m st) as [a s0|e s0| |w] eqn:E; try (exfalso; apply Hn; reflexivity);
    specialize (Hm ltac:(discriminate)); cbn in Hm; inversion Hm; subst.
  now apply Hf.
Qed.

(** hooks that leave a kind of node alone *)
Section IdHooks.
Variable Re : expr -> expr -> Prop.
Variable Rv : expr -> expr -> Prop.
Variable Rt : list tentry -> list tentry -> Prop.
Variable Rs : stmt -> stmt -> Prop.
Variable Rb : block -> block -> Prop.
Lemma id_ok_e e e' : cong_expr Re Rv Rt Rs Rb e e' -> crel_expr Re Rv Rt Rs Rb e e'.
Proof. apply cr_e_same. Qed.
Lemma id_ok_v e e' : cong_expr Re Rv Rt Rs Rb e e' -> crel_var Re Rv Rt Rs Rb e e'.
Proof. apply cr_v_same. Qed.
Lemma id_ok_t ens ens' : Forall2 (cong_tentry Re Rv Rt Rs Rb) ens ens' -> crel_entries Re Rv Rt Rs Rb ens ens'.
Proof. apply cr_t_same. Qed.
Lemma id_ok_s st st' : cong_stmt Re Rv Rt Rs Rb st st' -> crel_stmt Re Rv Rt Rs Rb st st'.
Proof. apply cr_s_same. Qed.
Lemma id_ok_b b b' : cong_block Re Rv Rt Rs Rb b b' -> crel_block Re Rv Rt Rs Rb b b'.
Proof. apply cr_b_same. Qed.
End IdHooks.

(** * remove_function_call_parens *)
Section CallParens.
Variable d : dialect.

Definition Re_cp (e e1 : expr) : Prop := e1 = rw_call_parens e.

Lemma args_string_refines n rho va str :
  refines (eval_args d n rho va (ATuple [EString str])) (eval_args d n rho va (AString str)).
Proof. intros s Hf. eapply call_parens_string_args; [reflexivity|exact Hf]. Qed.

Lemma args_table_refines n rho va ens :
  refines (eval_args d n rho va (ATuple [ETable ens])) (eval_args d n rho va (ATable ens)).
Proof.
  destruct n as [|[|[|n]]]; try (intros s Hf; exfalso; apply Hf; reflexivity).
  intros s Hf. rewrite call_parens_table_args in *.
  apply (eval_args_refines_le d (S n) (S (S (S n)))); [lia|exact Hf].
Qed.

Lemma call_args_refines n rho va p m a a' :
  (forall k, refines (eval_args d k rho va a) (eval_args d k rho va a')) ->
  refines (eval d n rho va (ECall p m a)) (eval d n rho va (ECall p m a')).
Proof.
  intros Ha. destruct n as [|n]; [apply refines_fuel|]. rewrite !eval_S_call.
  apply refines_bind_l. intros o. destruct m as [mname|].
  - apply refines_bind_l. intros f. apply refines_bind; [apply Ha|intros; apply refines_refl].
  - apply refines_bind; [apply Ha|intros; apply refines_refl].
Qed.

Lemma call_parens_refines e n rho va :
  refines (eval d n rho va e) (eval d n rho va (rw_call_parens e)).
Proof.
  destruct e; try apply refines_refl. destruct a as [es| |]; try apply refines_refl.
  destruct es as [|x es]; try apply refines_refl.
  destruct x; destruct es; try apply refines_refl; cbn [rw_call_parens]; apply call_args_refines; intros k.
  - apply args_string_refines.
  - apply args_table_refines.
Qed.

Lemma hooks_call_parens_ok : hooks_ok Re_cp Rnone Rnone Rnone Rnone hooks_call_parens.
Proof.
  constructor; cbn [hooks_call_parens h_expr h_prefix h_var h_call h_table h_stmt h_block].
  - intros e e' Hg. eapply cr_e_rw; [reflexivity|].
    replace (rw_call_parens e) with (call_hook hooks_call_parens e); [exact Hg|].
    destruct e; reflexivity.
  - intros e e' Hg. eapply cr_e_rw; [reflexivity|].
    replace (rw_call_parens e) with (call_hook hooks_call_parens e); [exact Hg|].
    destruct e; reflexivity.
  - apply id_ok_v.
  - intros c c' Hg. eapply cr_e_rw; [reflexivity|exact Hg].
  - apply id_ok_t.
  - apply id_ok_s.
  - apply id_ok_b.
Qed.

Theorem lifting_remove_function_call_parens : forall n orc b out,
  run_chunk d n orc b = out -> out <> OutFuel ->
  run_chunk d n orc (rule_remove_function_call_parens b) = out.
Proof.
  intros n orc b out. unfold rule_remove_function_call_parens.
  apply (lifting_apply_hooks Re_cp Rnone Rnone Rnone Rnone d); try (intros ? ? []; fail).
  - intros e e1 ->. intros; apply call_parens_refines.
  - exact hooks_call_parens_ok.
Qed.

End CallParens.

(** * convert_index_to_field, string-literal keys *)

Definition rw_index_to_field_lit (e : expr) : expr :=
  match e with
  | EIndex p (EString s) => if Serializer.is_valid_identifier s then EField p s else e
  | _ => e
  end.
Definition rw_index_entry_lit (en : tentry) : tentry :=
  match en with
  | TIndex (EString s) v => if Serializer.is_valid_identifier s then TField s v else en
  | _ => en
  end.
Definition hooks_index_to_field_lit : hooks :=
  mkHooks (fun b => b) (fun s => s) rw_index_to_field_lit rw_index_to_field_lit rw_index_to_field_lit
          (fun e => e) (map rw_index_entry_lit).
(** the rule with [convert_to_field] answering only on string literals *)
Definition rule_convert_index_to_field_literal : block -> block := apply_hooks hooks_index_to_field_lit.

(** on a literal key the two rewrites coincide *)
Lemma rw_index_to_field_lit_agrees p s :
  rw_index_to_field (EIndex p (EString s)) = rw_index_to_field_lit (EIndex p (EString s)).
Proof.
  cbn [rw_index_to_field rw_index_to_field_lit]. unfold convert_to_field, hse. cbn [has_side_effects evaluate].
  destruct (Serializer.is_valid_identifier s); reflexivity.
Qed.
Lemma rw_index_entry_lit_agrees s v :
  rw_index_entry (TIndex (EString s) v) = rw_index_entry_lit (TIndex (EString s) v).
Proof.
  cbn [rw_index_entry rw_index_entry_lit]. unfold convert_to_field, hse. cbn [has_side_effects evaluate].
  destruct (Serializer.is_valid_identifier s); reflexivity.
Qed.

Section IndexToField.
Variable d : dialect.

Definition Re_if (e e1 : expr) : Prop := e1 = rw_index_to_field_lit e.
Definition Rt_if (ens ens1 : list tentry) : Prop := ens1 = map rw_index_entry_lit ens.

Lemma index_lit_refines e n rho va :
  refines (eval d n rho va e) (eval d n rho va (rw_index_to_field_lit e)).
Proof.
  destruct e; try apply refines_refl. destruct e2; try apply refines_refl.
  cbn [rw_index_to_field_lit]. destruct (Serializer.is_valid_identifier s); [|apply refines_refl].
  intros st Hf. eapply index_to_field_literal_sound; [reflexivity|exact Hf].
Qed.

Lemma key_literal_refines n rho va s :
  refines (eval1 d n rho va (EString s)) (ret (VStr s)).
Proof.
  destruct n as [|[|n]]; try (intros st Hf; exfalso; apply Hf; reflexivity).
  intros st _. reflexivity.
Qed.

Lemma index_lit_target_refines e n rho va :
  refines (eval_target d n rho va e) (eval_target d n rho va (rw_index_to_field_lit e)).
Proof.
  destruct e; try apply refines_refl. destruct e2; try apply refines_refl.
  cbn [rw_index_to_field_lit]. destruct (Serializer.is_valid_identifier s); [|apply refines_refl].
  destruct n as [|n]; [apply refines_fuel|].
  rewrite eval_target_S_index, eval_target_S_field. apply refines_bind_l. intros o.
  eapply refines_bind_const; [apply key_literal_refines|apply refines_refl].
Qed.

Lemma entries_lit_refines ens : forall n rho va a pos,
  refines (fill_table d n rho va a ens pos) (fill_table d n rho va a (map rw_index_entry_lit ens) pos).
Proof.
  induction ens as [|en rest IHr]; intros n rho va a pos; [apply refines_refl|].
  destruct n as [|n]; [apply refines_fuel|]. cbn [map].
  destruct en as [f v|k v|v].
  - cbn [rw_index_entry_lit]. rewrite !fill_S_field.
    apply refines_bind_l. intros x. apply refines_bind_l. intros u. apply IHr.
  - assert (Hkeep : refines (fill_table d (S n) rho va a (TIndex k v :: rest) pos)
                            (fill_table d (S n) rho va a (TIndex k v :: map rw_index_entry_lit rest) pos)).
    { rewrite !fill_S_index. apply refines_bind_l. intros kv. apply refines_bind_l. intros x.
      apply refines_bind_l. intros u. apply IHr. }
    destruct k; try exact Hkeep. cbn [rw_index_entry_lit].
    destruct (Serializer.is_valid_identifier s); [|exact Hkeep].
    rewrite fill_S_index, fill_S_field.
    eapply refines_bind_const; [apply key_literal_refines|].
    apply refines_bind_l. intros x. apply refines_bind_l. intros u. apply IHr.
  - destruct rest as [|x rest].
    + cbn [map rw_index_entry_lit]. apply refines_refl.
    + cbn [rw_index_entry_lit]. change (map rw_index_entry_lit (x :: rest)) with (rw_index_entry_lit x :: map rw_index_entry_lit rest) in *.
      rewrite !fill_S_value. apply refines_bind_l. intros y. apply refines_bind_l. intros u.
      apply (IHr n rho va a (pos + 1)%Z).
Qed.

Lemma hooks_index_to_field_lit_ok : hooks_ok Re_if Re_if Rt_if Rnone Rnone hooks_index_to_field_lit.
Proof.
  constructor; cbn [hooks_index_to_field_lit h_expr h_prefix h_var h_call h_table h_stmt h_block].
  - intros e e' Hg. eapply cr_e_rw; [reflexivity|].
    replace (rw_index_to_field_lit e) with (call_hook hooks_index_to_field_lit (rw_index_to_field_lit e)); [exact Hg|].
    destruct (rw_index_to_field_lit e); reflexivity.
  - intros e e' Hg. eapply cr_e_rw; [reflexivity|].
    replace (rw_index_to_field_lit e) with (call_hook hooks_index_to_field_lit (rw_index_to_field_lit e)); [exact Hg|].
    destruct (rw_index_to_field_lit e); reflexivity.
  - intros e e' Hg. eapply cr_v_rw; [reflexivity|exact Hg].
  - apply id_ok_e.
  - intros ens ens' Hg. eapply cr_t_rw; [reflexivity|exact Hg].
  - apply id_ok_s.
  - apply id_ok_b.
Qed.

Theorem lifting_convert_index_to_field_literal : forall n orc b out,
  run_chunk d n orc b = out -> out <> OutFuel ->
  run_chunk d n orc (rule_convert_index_to_field_literal b) = out.
Proof.
  intros n orc b out. unfold rule_convert_index_to_field_literal.
  apply (lifting_apply_hooks Re_if Re_if Rt_if Rnone Rnone d); try (intros ? ? []; fail).
  - intros e e1 ->. intros; apply index_lit_refines.
  - intros e e1 ->. intros; apply index_lit_target_refines.
  - intros ens ens1 ->. intros; apply entries_lit_refines.
  - exact hooks_index_to_field_lit_ok.
Qed.

(** the rule itself, on programs in which it only ever fires on string-literal keys *)
Theorem lifting_convert_index_to_field_partial : forall n orc b out,
  rule_convert_index_to_field b = rule_convert_index_to_field_literal b ->
  run_chunk d n orc b = out -> out <> OutFuel ->
  run_chunk d n orc (rule_convert_index_to_field b) = out.
Proof. intros n orc b out ->. apply lifting_convert_index_to_field_literal. Qed.

End IndexToField.
