(** C14 — the theorems: soundness of the serializer model with respect to the reference
    interpreter, the integers it covers, and the refutation for the keys Lua cannot hold. *)
From Coq Require Import ZArith NArith List Bool Lia.
From Coq Require Import Floats.SpecFloat.
From DL Require Import Lib.Bytes Lib.F64 Lua.Syntax Lua.Sem Lua.DataSpec Model.Serializer.
From DL Require Import Proof.SerializerF64 Proof.SerializerTable Proof.SerializerSound.
From DL Require Model.Lexer.
Import ListNotations.
Open Scope N_scope.
Local Notation len := List.length.

(** * explicit fuel, any environment, any store *)

Theorem serialize_sound_fuel d e :
  ints_ok d -> wf_keys d -> seq_len_ok d -> to_expression d = Some e ->
  forall dialect n rho va s, (size d <= n)%nat ->
  exists v s', eval dialect n rho va e s = Ok [v] s' /\
    (* every table of [s] is unchanged, the value lives in tables allocated after [s] *)
    (forall b t, nth_N (tables s) b = Some t -> nth_N (tables s') b = Some t) /\
    value_denotes_from (len (tables s)) s' v d.
Proof.
  intros Hi Hw Hl He dl n rho va s Hn.
  destruct (evaluates_all dl d (conj Hi (conj Hw Hl)) e He n rho va s Hn) as (v & s' & E & K & D).
  exists v, s'. split; [exact E|]. split; [exact (proj1 K)|exact D].
Qed.

Lemma serialize_sound_core d e :
  ints_ok d -> wf_keys d -> seq_len_ok d -> to_expression d = Some e ->
  forall dialect, exists n vs s',
    eval dialect n [] [] e (initial_store []) = Ok vs s' /\ value_denotes s' (first vs) d.
Proof.
  intros Hi Hw Hl He dl.
  destruct (serialize_sound_fuel d e Hi Hw Hl He dl (size d) [] [] (initial_store []) (le_n _))
    as (v & s' & E & _ & D).
  exists (size d), [v], s'. split; [exact E|]. cbn [first]. unfold value_denotes.
  eapply denotes_weaken; [exact D|lia].
Qed.

(** * which integers *)

(** every integer: Flocq's [binary_round_correct] (classical reals) *)
Lemma ints_ok_all d : ints_ok d.
Proof.
  induction d as [| b | z | bits | str | items IH | entries IH] using data_ind'; cbn [ints_ok]; auto.
  - apply int_roundtrip_valid.
  - induction IH; cbn; auto.
  - induction IH as [|[k v] r [Hk Hv] Hr IHr]; cbn; auto.
Qed.

(** integers that binary64 represents exactly: no axiom *)
Fixpoint ints_exact (d : data) : Prop :=
  match d with
  | DInt z => (Z.abs z < 9007199254740992)%Z
  | DSeq items => (fix all (l : list data) : Prop :=
                     match l with [] => True | x :: r => ints_exact x /\ all r end) items
  | DMap entries => (fix all (l : list (data * data)) : Prop :=
                       match l with
                       | [] => True
                       | (k, v) :: r => ints_exact k /\ ints_exact v /\ all r
                       end) entries
  | _ => True
  end.

Lemma ints_exact_ok d : ints_exact d -> ints_ok d.
Proof.
  induction d as [| b | z | bits | str | items IH | entries IH] using data_ind'; cbn [ints_ok ints_exact]; auto.
  - apply int_roundtrip_small.
  - induction IH as [|x r Hx Hr IHr]; [auto|]. intros [A B]. split; [exact (Hx A)|exact (IHr B)].
  - induction IH as [|[k v] r [Hk Hv] Hr IHr]; [auto|]. cbn [fst snd] in *. intros (A & B & C).
    split; [exact (Hk A)|]. split; [exact (Hv B)|exact (IHr C)].
Qed.

Theorem serialize_sound d e :
  wf_keys d -> seq_len_ok d -> to_expression d = Some e ->
  forall dialect, exists n vs s',
    eval dialect n [] [] e (initial_store []) = Ok vs s' /\ value_denotes s' (first vs) d.
Proof. intros. eapply serialize_sound_core; eauto. apply ints_ok_all. Qed.

Theorem serialize_sound_exact_ints d e :
  ints_exact d -> wf_keys d -> seq_len_ok d -> to_expression d = Some e ->
  forall dialect, exists n vs s',
    eval dialect n [] [] e (initial_store []) = Ok vs s' /\ value_denotes s' (first vs) d.
Proof. intros. eapply serialize_sound_core; eauto. now apply ints_exact_ok. Qed.

(** * the keys [wf_keys] excludes: the emitted constructor raises a run-time error *)

Theorem serialize_null_key_refuted :
  exists d e, to_expression d = Some e /\
    forall dialect, exists s', eval dialect 4 [] [] e (initial_store []) = Err (ERun 12) s'.
Proof.
  exists (DMap [(DNull, DInt 1)]). eexists. split; [reflexivity|].
  intros []; eexists; vm_compute; reflexivity.
Qed.

Theorem serialize_nan_key_refuted :
  exists d e, to_expression d = Some e /\
    forall dialect, exists s', eval dialect 4 [] [] e (initial_store []) = Err (ERun 12) s'.
Proof.
  exists (DMap [(DFloat 9221120237041090560, DInt 2)]). eexists. split; [reflexivity|].
  intros []; eexists; vm_compute; reflexivity.
Qed.

(** * what the serializer cannot express: only integers outside i64 / u64 *)

Fixpoint ints_supported (d : data) : Prop :=
  match d with
  | DInt z => int_supported z = true
  | DSeq items => (fix all (l : list data) : Prop :=
                     match l with [] => True | x :: r => ints_supported x /\ all r end) items
  | DMap entries => (fix all (l : list (data * data)) : Prop :=
                       match l with
                       | [] => True
                       | (k, v) :: r => ints_supported k /\ ints_supported v /\ all r
                       end) entries
  | _ => True
  end.

Theorem serialize_total d : ints_supported d -> exists e, to_expression d = Some e.
Proof.
  induction d as [| b | z | bits | str | items IH | entries IH] using data_ind'; cbn [ints_supported].
  - intros _. eexists. reflexivity.
  - intros _. destruct b; eexists; reflexivity.
  - intros H. cbn [to_expression]. rewrite H. eexists. reflexivity.
  - intros _. eexists. reflexivity.
  - intros _. eexists. reflexivity.
  - intros H. rewrite to_expression_seq.
    assert (exists es, seq_entries items = Some es) as [es ->]; [|eexists; reflexivity].
    induction IH as [|x r Hx Hr IHr]; [eexists; reflexivity|]. destruct H as [A B].
    destruct (Hx A) as [e E]. destruct (IHr B) as [es Hes].
    cbn [seq_entries]. rewrite E, Hes. eexists. reflexivity.
  - intros H. rewrite to_expression_map.
    assert (exists es, map_entries entries = Some es) as [es ->]; [|eexists; reflexivity].
    induction IH as [|[k v] r [Hk Hv] Hr IHr]; [eexists; reflexivity|]. cbn [fst snd] in *.
    destruct H as (A & B & C).
    destruct (Hk A) as [ke Eke]. destruct (Hv B) as [ve Eve]. destruct (IHr C) as [es Hes].
    cbn [map_entries]. rewrite Eke, Eve, Hes. eexists. reflexivity.
Qed.

(** * keys written bare ([name = v]) are Lua names that are not reserved words, in the sense of
    the lexer model of C03 ([Model/Lexer.v]) *)

Lemma ident_chars_tail s : ident_chars false s = true -> forallb Lexer.is_ident_char s = true.
Proof.
  induction s as [|c r IH]; [reflexivity|]. cbn [ident_chars forallb]. intros H.
  apply andb_true_iff in H as [A B]. rewrite IH by exact B. rewrite andb_true_r.
  unfold Lexer.is_ident_char, Lexer.is_alpha. unfold is_ascii_alpha in A. cbn [negb] in A.
  rewrite andb_true_r in A.
  destruct (((65 <=? c) && (c <=? 90)) || ((97 <=? c) && (c <=? 122))); [reflexivity|].
  cbn [orb] in *. destruct (c =? 95); [now rewrite orb_true_r|]. now rewrite orb_false_r in *.
Qed.

Theorem field_names_are_names s : is_valid_identifier s = true ->
  exists c r, s = c :: r /\ Lexer.is_ident_start c = true /\
              forallb Lexer.is_ident_char r = true /\ Lexer.is_keyword s = false.
Proof.
  unfold is_valid_identifier. intros H.
  apply andb_true_iff in H as [H Hk]. apply andb_true_iff in H as [H Hc].
  apply andb_true_iff in H as [Hne _].
  destruct s as [|c r]; [discriminate|]. exists c, r. split; [reflexivity|].
  cbn [ident_chars] in Hc. apply andb_true_iff in Hc as [Hs Hr]. split; [|split].
  - unfold Lexer.is_ident_start, Lexer.is_alpha. unfold is_ascii_alpha in Hs. cbn [negb] in Hs.
    rewrite andb_false_r, orb_false_r in Hs. exact Hs.
  - now apply ident_chars_tail.
  - apply negb_true_iff in Hk. exact Hk.
Qed.

(** * non-vacuity *)

Definition example_doc : data :=
  DMap [ (DString (of_string "do"), DSeq [DInt 1; DNull; DFloat 4609434218613702656; DBool true]);
         (DString (of_string "a b"), DMap [(DInt 7, DString [0; 255]); (DString [], DNull)]);
         (DString (of_string "a b"), DInt (-3));
         (DString (of_string "x"), DInt 12345678901234567890) ].

Example example_doc_hypotheses :
  wf_keys example_doc /\ seq_len_ok example_doc /\ ints_supported example_doc /\
  exists e, to_expression example_doc = Some e.
Proof.
  split; [|split; [|split]].
  - cbn. repeat split; discriminate.
  - cbn. repeat split; lia.
  - cbn. repeat split.
  - eexists. vm_compute. reflexivity.
Qed.
