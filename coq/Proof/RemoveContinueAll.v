(** C07: composition of all NINE lowering rules (the eight of Proof/LoweringCensusAll.v and
    remove_continue, Model/RemoveContinue.v). *)
From Coq Require Import ZArith NArith List Bool Lia Permutation.
From DL Require Import Lib.Bytes Lua.Syntax Lua.Census Model.Visit Model.Lowering Model.RemoveContinue
  Proof.LoweringCensusBase Proof.LoweringCensusRules Proof.LoweringCensusAll Proof.RemoveContinue
  Proof.RemoveContinueScoped.
Import ListNotations.
Local Open Scope nat_scope.

Definition rule_continue : rule := (1, remove_continue_block).

(** all nine rules with the index of the construct each targets *)
Definition lowering_rules9 : list rule := rule_continue :: lowering_rules.

(** no rule introduces a construct that is absent *)
Definition keeps_zero (r : block -> block) : Prop :=
  forall j b, j < 9 -> feature j b = 0%N -> feature j (r b) = 0%N.

Lemma rules9_keep_zero : forall p, In p lowering_rules9 -> keeps_zero (snd p).
Proof.
  intros p [<-|Hp].
  - exact preserves_continue.
  - exact (proj2 (lowering_rules_lower p Hp)).
Qed.

Lemma rules9_remove : forall p, In p lowering_rules9 -> fst p <> 1 -> forall b, feature (fst p) (snd p b) = 0%N.
Proof.
  intros p [<-|Hp] Ne; [cbn in Ne; contradiction|].
  exact (proj1 (lowering_rules_lower p Hp)).
Qed.

(** each of the nine rules removes its construct (remove_continue: from the trees in its
    domain, [continue_in_loops]) and introduces none of the nine *)
Theorem lowering_rules9_lower : forall p, In p lowering_rules9 ->
  (forall b, continue_in_loops b = true -> feature (fst p) (snd p b) = 0%N) /\
  (forall j b, j < 9 -> feature j b = 0%N -> feature j (snd p b) = 0%N).
Proof.
  intros p Hp. split; [|exact (rules9_keep_zero p Hp)].
  destruct Hp as [<-|Hp]; intros b Hb.
  - apply removes_continue, Hb.
  - apply (proj1 (lowering_rules_lower p Hp)).
Qed.

Lemma lowered_feature9 : forall rs, (forall p, In p rs -> In p lowering_rules9) ->
  forall j b, j < 9 -> feature j b = 0%N \/ (j <> 1 /\ In j (map fst rs)) -> feature j (apply_rules rs b) = 0%N.
Proof.
  induction rs as [|[i r] rs IH]; intros G j b Hj Hc.
  - destruct Hc as [Z|[_ []]]. exact Z.
  - unfold apply_rules. cbn [fold_left snd]. fold (apply_rules rs (r b)).
    pose proof (G (i, r) (or_introl eq_refl)) as Hin.
    apply IH; [intros p Hp; apply G; right; exact Hp|exact Hj|].
    destruct Hc as [Z|[Ne [E|Hin']]].
    + left. apply (rules9_keep_zero _ Hin); assumption.
    + left. cbn [fst] in E. subst j. apply (rules9_remove _ Hin). exact Ne.
    + right. split; assumption.
Qed.

Lemma apply_rules_app rs1 rs2 b : apply_rules (rs1 ++ rs2) b = apply_rules rs2 (apply_rules rs1 b).
Proof. unfold apply_rules. apply fold_left_app. Qed.

(** All nine rules, remove_continue at ANY position: the rules before it are any of the other
    eight (any order, any multiplicity), the rules after it any of the nine; together they
    cover every construct.  If the tree that reaches remove_continue is in its domain, the
    result is a Lua 5.1 tree. *)
Theorem all_lowered9_at : forall rs1 rs2,
  (forall p, In p rs1 -> In p lowering_rules) ->
  (forall p, In p rs2 -> In p lowering_rules9) ->
  (forall j, j < 9 -> j <> 1 -> In j (map fst (rs1 ++ rs2))) ->
  forall b, continue_in_loops (apply_rules rs1 b) = true ->
  lua51_tree (apply_rules (rs1 ++ rule_continue :: rs2) b) = true.
Proof.
  intros rs1 rs2 S1 S2 Cov b Hb. apply lua51_tree_iff. intros j Hj.
  rewrite apply_rules_app. unfold apply_rules at 1. cbn [fold_left rule_continue snd].
  fold (apply_rules rs2 (remove_continue_block (apply_rules rs1 b))).
  apply lowered_feature9; [exact S2|exact Hj|].
  destruct (Nat.eq_dec j 1) as [->|Ne].
  - left. apply removes_continue, Hb.
  - specialize (Cov j Hj Ne). rewrite map_app in Cov. apply in_app_or in Cov as [H1|H2].
    + left. apply preserves_continue; [exact Hj|].
      apply lowered_feature; [intros p Hp; apply lowering_rules_lower, S1, Hp|exact Hj|right; exact H1].
    + right. split; assumption.
Qed.

(** remove_continue FIRST, then the other rules in any order: no side condition on
    intermediate trees *)
Theorem all_lowered9_continue_first : forall rs,
  (forall p, In p rs -> In p lowering_rules9) ->
  (forall j, j < 9 -> j <> 1 -> In j (map fst rs)) ->
  forall b, continue_in_loops b = true -> lua51_tree (apply_rules (rule_continue :: rs) b) = true.
Proof.
  intros rs S Cov b Hb. apply (all_lowered9_at [] rs); [intros p []|exact S|exact Cov|exact Hb].
Qed.

(** every one of the nine rules keeps a tree in the domain of remove_continue *)
Theorem lowering_rules9_keep_domain : forall p, In p lowering_rules9 ->
  forall b, continue_in_loops b = true -> continue_in_loops (snd p b) = true.
Proof.
  intros p [<-|Hp].
  - exact remove_continue_output_in_loops.
  - exact (lowering_rules_keep_domain p Hp).
Qed.

Lemma apply_keep_domain : forall rs, (forall p, In p rs -> In p lowering_rules9) ->
  forall b, continue_in_loops b = true -> continue_in_loops (apply_rules rs b) = true.
Proof.
  induction rs as [|p rs IH]; intros G b Hb; [exact Hb|].
  unfold apply_rules. cbn [fold_left]. fold (apply_rules rs (snd p b)).
  apply IH; [intros q Hq; apply G; right; exact Hq|].
  apply lowering_rules9_keep_domain; [apply G; left; reflexivity|exact Hb].
Qed.

Lemma apply_keep_zero : forall rs, (forall p, In p rs -> In p lowering_rules9) ->
  forall j b, j < 9 -> feature j b = 0%N -> feature j (apply_rules rs b) = 0%N.
Proof.
  intros rs G j b Hj Z. apply lowered_feature9; [exact G|exact Hj|left; exact Z].
Qed.

(** ALL NINE RULES, ANY ORDER, any multiplicity: a list of rules among the nine that contains
    a rule for each of the nine constructs turns every tree of remove_continue's domain
    (every valid Luau program) into a Lua 5.1 tree *)
Theorem all_lowered9 : forall rs,
  (forall p, In p rs -> In p lowering_rules9) ->
  (forall j, j < 9 -> In j (map fst rs)) ->
  forall b, continue_in_loops b = true -> lua51_tree (apply_rules rs b) = true.
Proof.
  intros rs G Cov b Hb. apply lua51_tree_iff. intros j Hj.
  specialize (Cov j Hj). apply in_map_iff in Cov as ([i r] & E & Hin). cbn [fst] in E. subst i.
  apply in_split in Hin as (rs1 & rs2 & ->). rewrite apply_rules_app.
  unfold apply_rules at 1. cbn [fold_left snd]. fold (apply_rules rs2 (r (apply_rules rs1 b))).
  apply apply_keep_zero; [intros p Hp; apply G, in_or_app; right; right; exact Hp|exact Hj|].
  assert (Hin : In (j, r) lowering_rules9) by (apply G, in_or_app; right; left; reflexivity).
  apply (proj1 (lowering_rules9_lower (j, r) Hin)).
  apply apply_keep_domain; [intros p Hp; apply G, in_or_app; left; exact Hp|exact Hb].
Qed.

(** in particular every permutation of the nine rules (ten entries: remove_interpolated_string
    is listed with both strategies) *)
Corollary all_lowered9_permutation : forall rs, Permutation rs lowering_rules9 ->
  forall b, continue_in_loops b = true -> lua51_tree (apply_rules rs b) = true.
Proof.
  intros rs P. apply all_lowered9.
  - intros p Hp. exact (Permutation_in p P Hp).
  - intros j Hj. apply (Permutation_in j (Permutation_map fst (Permutation_sym P))).
    cbn. do 9 (destruct j as [|j]; [tauto|]). lia.
Qed.

Example all_lowered9_example :
  let c := EIdent [99%N] in
  let b := Block [SWhile c (Block [SLocal true [Param [120%N] (Some (TyNode 0%N [] []))]
                     [EIf [EBranch c (EBinary BIDiv (ENumber (NBin 5%N false)) (EInterp [ISExpr (EIdent [121%N])]))]
                          (EFunction (FBody [] false None None None 1%N (Block [SCompound BAdd (EIdent [122%N]) ENil] None)))];
                     SIf [SBranch c (Block [] (Some LContinue))] None] (Some LBreak))] None in
  continue_in_loops b = true /\ lua51_tree b = false /\
  forallb (fun i => negb (N.eqb (feature i b) 0)) (seq 0 9) = true /\
  lua51_tree (apply_rules lowering_rules9 b) = true.
Proof. vm_compute. repeat split. Qed.
