(** The no-fusion theorem for the model of the dense generator's push automaton. *)
From DL Require Import Lib.Bytes Model.Lexer Model.DenseGen Model.C02Spec Proof.LexerFacts.
Require Import Lia Arith PeanoNat.
Open Scope N_scope.

Definition R (x : bytes) := run cfg0 x.
Definition stA (x : bytes) : lstate := snd (snd (R x)).

Lemma R_app x y :
  R (x ++ y) = let '(o1, k1) := R x in let '(o2, k2) := run k1 y in (o1 ++ o2, k2).
Proof. unfold R. apply run_app. Qed.

Lemma R_app_eq x y z : R x = R y -> R (x ++ z) = R (y ++ z).
Proof. unfold R. apply run_app_eq. Qed.

Lemma stA_eq x y : R x = R y -> stA x = stA y.
Proof. unfold stA. intros ->. reflexivity. Qed.

(** appending one white-space byte after a clean state *)
Lemma R_ws x c :
  clean (stA x) = true -> ws c ->
  R (x ++ [c]) = (fst (R x) ++ flush (stA x), (fst (snd (R x)), LStart)).
Proof.
  intros Hc Hw. rewrite R_app. unfold stA in *.
  destruct (R x) as [o [stk st]]. cbn [fst snd] in *.
  rewrite run_one, step_clean_ws by assumption. reflexivity.
Qed.

Lemma stA_ws x c : clean (stA x) = true -> ws c -> stA (x ++ [c]) = LStart.
Proof. intros Hc Hw. unfold stA at 1. rewrite R_ws by assumption. reflexivity. Qed.

Lemma ws32 : ws 32. Proof. left; reflexivity. Qed.
Lemma ws10 : ws 10. Proof. right; reflexivity. Qed.

(** a space and a new line are interchangeable after a clean state *)
Lemma R_space_newline x z :
  clean (stA x) = true -> R (x ++ [32] ++ z) = R (x ++ [10] ++ z).
Proof.
  intros Hc. rewrite !app_assoc. apply R_app_eq.
  rewrite (R_ws x 32 Hc ws32), (R_ws x 10 Hc ws10). reflexivity.
Qed.

(** a second new line changes nothing *)
Lemma R_newline_twice x z :
  clean (stA x) = true -> R (x ++ [10] ++ [10] ++ z) = R (x ++ [10] ++ z).
Proof.
  intros Hc.
  replace (x ++ [10] ++ [10] ++ z) with (((x ++ [10]) ++ [10]) ++ z) by (rewrite <- !app_assoc; reflexivity).
  replace (x ++ [10] ++ z) with ((x ++ [10]) ++ z) by (rewrite <- !app_assoc; reflexivity).
  apply R_app_eq.
  assert (Hc' : clean (stA (x ++ [10])) = true) by (rewrite stA_ws; auto using ws10).
  rewrite (R_ws (x ++ [10]) 10 Hc' ws10).
  rewrite (stA_ws x 10 Hc ws10). cbn [flush]. rewrite app_nil_r.
  rewrite (R_ws x 10 Hc ws10). reflexivity.
Qed.

(** a junction where the next byte cannot extend the pending token may receive a new line *)
Lemma R_junction x c s :
  clean (stA x) = true -> junction_ok (stA x) c = true ->
  R (x ++ c :: s) = R (x ++ 10 :: c :: s).
Proof.
  intros Hc Hj.
  replace (x ++ c :: s) with ((x ++ [c]) ++ s) by (rewrite <- app_assoc; reflexivity).
  replace (x ++ 10 :: c :: s) with ((x ++ [10; c]) ++ s) by (rewrite <- app_assoc; reflexivity).
  apply R_app_eq.
  rewrite !R_app. unfold stA in *. destruct (R x) as [o [stk st]]. cbn [fst snd] in *.
  rewrite run_one.
  change [10; c] with ([10] ++ [c]). rewrite run_app, run_one.
  rewrite (step_clean_ws stk st 10 Hc ws10). rewrite run_one.
  destruct st as [|racc|ph racc|p|n|q esc racc|n cl racc|esc racc|racc|n racc|racc|n cl racc|] eqn:Est;
    try discriminate Hc.
  - cbn [flush]. destruct (step (stk, LStart) c) as [o1 k1]. reflexivity.
  - rewrite <- Est in *. rewrite step_no_extend; try assumption.
    + destruct (step (stk, LStart) c) as [o1 k1]. cbn [fst snd]. reflexivity.
    + rewrite Est; discriminate.
    + rewrite Est in Hj |- *. cbn [junction_ok] in Hj. apply Bool.negb_true_iff in Hj. exact Hj.
  - rewrite <- Est in *. rewrite step_no_extend; try assumption.
    + destruct (step (stk, LStart) c) as [o1 k1]. cbn [fst snd]. reflexivity.
    + rewrite Est; discriminate.
    + rewrite Est in Hj |- *. cbn [junction_ok] in Hj. apply Bool.negb_true_iff in Hj. exact Hj.
  - rewrite <- Est in *. rewrite step_no_extend; try assumption.
    + destruct (step (stk, LStart) c) as [o1 k1]. cbn [fst snd]. reflexivity.
    + rewrite Est; discriminate.
    + rewrite Est in Hj |- *. cbn [junction_ok] in Hj. apply Bool.negb_true_iff in Hj. exact Hj.
Qed.

(** * stripping trailing spaces ([merge_char]) *)
Lemma strip_app_space x : strip_trailing_spaces (x ++ [32]) = strip_trailing_spaces x.
Proof. unfold strip_trailing_spaces. rewrite rev_app_distr. reflexivity. Qed.

Lemma strip_app_other x c : (c =? 32) = false -> strip_trailing_spaces (x ++ [c]) = x ++ [c].
Proof.
  intros H. unfold strip_trailing_spaces. rewrite rev_app_distr. cbn [rev app strip_spaces_r].
  rewrite H. cbn [rev]. rewrite rev_involutive. reflexivity.
Qed.

Lemma clean_before_space x : clean (stA (x ++ [32])) = true -> clean (stA x) = true.
Proof.
  intros H. destruct (clean (stA x)) eqn:E; [reflexivity|].
  unfold stA in *. rewrite R_app in H. destruct (R x) as [o [stk st]]. cbn [snd] in *.
  rewrite run_one in H.
  pose proof (unclean_space stk st E) as U.
  destruct (step (stk, st) 32) as [o2 [stk2 st2]]. cbn [snd] in *. congruence.
Qed.

(** after a clean state, the trailing spaces may be dropped before a new line *)
Lemma R_strip x :
  clean (stA x) = true ->
  clean (stA (strip_trailing_spaces x)) = true
  /\ R (strip_trailing_spaces x ++ [10]) = R (x ++ [10]).
Proof.
  induction x as [|c y IH] using rev_ind; intros Hc.
  - split; [exact Hc|reflexivity].
  - destruct (c =? 32) eqn:E.
    + apply N.eqb_eq in E. subst c.
      rewrite strip_app_space.
      pose proof (clean_before_space y Hc) as Hy.
      destruct (IH Hy) as [IH1 IH2]. split; [exact IH1|].
      rewrite IH2. rewrite <- app_assoc.
      rewrite (R_space_newline y [10] Hy).
      pose proof (R_newline_twice y [] Hy) as D. rewrite !app_nil_r in D. symmetry. exact D.
    + rewrite strip_app_other by exact E. split; [exact Hc|reflexivity].
Qed.

Lemma R_strip_z x z :
  clean (stA x) = true -> R (strip_trailing_spaces x ++ [10] ++ z) = R (x ++ [10] ++ z).
Proof.
  intros Hc. rewrite !app_assoc. apply R_app_eq. apply R_strip. exact Hc.
Qed.

(** * what each push variant appends *)
Definition is_sep (sep : bytes) : Prop := sep = [] \/ sep = [32] \/ sep = [10].

Lemma last_push_split g x s :
  out g = x ++ s -> lastlen g = List.length s -> last_push g = s /\ before_last_push g = x.
Proof.
  intros Ho Hl. unfold last_push, before_last_push. rewrite Ho, Hl, app_length.
  replace (List.length x + List.length s - List.length s)%nat with (List.length x) by lia.
  split.
  - rewrite skipn_app, skipn_all, Nat.sub_diag. reflexivity.
  - rewrite firstn_app, firstn_all, Nat.sub_diag. cbn [firstn]. apply app_nil_r.
Qed.

Lemma psin_shape T span g c n :
  exists sep, is_sep sep /\ out (push_space_if_needed T span g c n) = out g ++ sep
              /\ (sep = [] -> needs_space T g c = false).
Proof.
  unfold push_space_if_needed, is_sep.
  destruct (span <=? col g).
  - exists [10]. cbn. intuition discriminate.
  - destruct (needs_space T g c) eqn:En.
    + destruct (span <? col g + n + 1).
      * exists [10]. cbn. intuition discriminate.
      * exists [32]. cbn. intuition discriminate.
    + destruct (span <? col g + n).
      * exists [10]. cbn. intuition discriminate.
      * exists []. cbn. rewrite app_nil_r. intuition.
Qed.

Lemma push_str_shape T span g c s' :
  exists sep, is_sep sep
    /\ out (push_str T span g (c :: s')) = out g ++ sep ++ c :: s'
    /\ lastlen (push_str T span g (c :: s')) = List.length (c :: s')
    /\ (sep = [] -> needs_space T g c = false).
Proof.
  cbn [push_str].
  destruct (psin_shape T span g c (blen (c :: s'))) as [sep [Hs [Ho Hn]]].
  exists sep. split; [exact Hs|]. split; [|split; [reflexivity|exact Hn]].
  unfold raw_push. cbn [out]. rewrite Ho, <- app_assoc. reflexivity.
Qed.

Lemma push_break_shape T span g p s :
  exists sep, is_sep sep
    /\ out (push_break T span g p s) = out g ++ sep ++ s
    /\ lastlen (push_break T span g p s) = List.length s
    /\ (sep = [] -> pred_holds T p (last_push g) = false).
Proof.
  unfold push_break, is_sep.
  destruct (pred_holds T p (last_push g)) eqn:Ep.
  - destruct (fits span g (1 + blen s)).
    + exists [32]. cbn. rewrite <- app_assoc. intuition discriminate.
    + exists [10]. cbn. rewrite <- app_assoc. intuition discriminate.
  - destruct (negb (fits span g (blen s))).
    + exists [10]. cbn. rewrite <- app_assoc. intuition discriminate.
    + exists []. cbn. intuition.
Qed.

Lemma nlraw_shape span g n s :
  exists sep, (sep = [] \/ sep = [10])
    /\ out (raw_push (push_new_line_if_needed span g n) s) = out g ++ sep ++ s
    /\ lastlen (raw_push (push_new_line_if_needed span g n) s) = List.length s.
Proof.
  unfold push_new_line_if_needed.
  destruct (span <=? col g).
  - exists [10]. cbn. rewrite <- app_assoc. intuition.
  - destruct (span <? col g + n).
    + exists [10]. cbn. rewrite <- app_assoc. intuition.
    + exists []. cbn. intuition.
Qed.

(** the junction of a separable push: whatever separator was chosen, the tokens are those of
    the rendering with a new line, and [merge_char] may follow *)
Lemma sep_junction X sep c s' :
  clean (stA X) = true -> is_sep sep ->
  (sep = [] -> junction_ok (stA X) c = true) ->
  R (X ++ sep ++ c :: s') = R (X ++ [10] ++ c :: s')
  /\ clean (stA (strip_trailing_spaces (X ++ sep))) = true
  /\ R (strip_trailing_spaces (X ++ sep) ++ [10] ++ c :: s') = R (X ++ [10] ++ c :: s').
Proof.
  intros Hc Hs Hj. destruct Hs as [->|[->| ->]].
  - rewrite app_nil_r. cbn [app]. specialize (Hj eq_refl).
    split; [apply R_junction; assumption|].
    split; [apply R_strip; assumption|].
    apply R_strip_z; assumption.
  - split; [apply R_space_newline; assumption|].
    rewrite strip_app_space.
    split; [apply R_strip; assumption|].
    apply R_strip_z; assumption.
  - split; [reflexivity|].
    rewrite strip_app_other by reflexivity.
    split; [rewrite stA_ws; auto using ws10|].
    rewrite <- app_assoc. apply R_newline_twice. assumption.
Qed.

(** * the invariant *)
Record Inv (g : gen) (Y prev : bytes) (mg : bool) : Prop := {
  inv_run : R (out g) = R Y;
  inv_prev : prev <> [] -> exists body, out g = body ++ prev /\ lastlen g = List.length prev;
  inv_len : (lastlen g <= List.length (out g))%nat;
  inv_mg : mg = true ->
           clean (stA (strip_trailing_spaces (before_last_push g))) = true
           /\ R (strip_trailing_spaces (before_last_push g) ++ [10] ++ last_push g) = R (out g)
}.

Lemma last_opt_app body prev : prev <> [] -> last_opt (body ++ prev) = last_opt prev.
Proof.
  intros Hp. induction body as [|b body IH]; [reflexivity|].
  cbn [app]. change (last_opt (b :: body ++ prev)) with
    (match body ++ prev with [] => Some b | _ :: _ => last_opt (body ++ prev) end).
  destruct (body ++ prev) eqn:E.
  - destruct body; [cbn in E; congruence|discriminate E].
  - exact IH.
Qed.

(** a push of [c :: s'] after a separator chosen by the automaton *)
Lemma sep_push g g' sep c s' :
  clean (stA (out g)) = true -> is_sep sep ->
  (sep = [] -> junction_ok (stA (out g)) c = true) ->
  out g' = out g ++ sep ++ c :: s' -> lastlen g' = List.length (c :: s') ->
  R (out g') = R (out g ++ [10] ++ c :: s')
  /\ (exists body, out g' = body ++ c :: s' /\ lastlen g' = List.length (c :: s'))
  /\ (lastlen g' <= List.length (out g'))%nat
  /\ clean (stA (strip_trailing_spaces (before_last_push g'))) = true
  /\ R (strip_trailing_spaces (before_last_push g') ++ [10] ++ last_push g') = R (out g').
Proof.
  intros Hc Hs Hj Ho Hl.
  destruct (sep_junction (out g) sep c s' Hc Hs Hj) as [A [B C]].
  assert (Ho' : out g' = (out g ++ sep) ++ c :: s') by (rewrite Ho, app_assoc; reflexivity).
  destruct (last_push_split g' (out g ++ sep) (c :: s') Ho' Hl) as [Lp Bp].
  split; [rewrite Ho; exact A|].
  split; [exists (out g ++ sep); split; assumption|].
  split; [rewrite Hl, Ho, !app_length; lia|].
  rewrite Lp, Bp. split; [exact B|]. rewrite C, Ho. symmetry. exact A.
Qed.

Lemma clean_junction_lparen st : clean st = true -> junction_ok st 40 = true.
Proof.
  destruct st as [|racc|ph racc|p|n|q esc racc|n cl racc|esc racc|racc|n racc|racc|n cl racc|];
    intros H; try discriminate H; try reflexivity.
  - destruct ph; reflexivity.
  - destruct p; try discriminate H; reflexivity.
Qed.

Lemma length_last_push g : (lastlen g <= List.length (out g))%nat -> List.length (last_push g) = lastlen g.
Proof. intros H. unfold last_push. rewrite skipn_length. lia. Qed.

Lemma before_last_app g : before_last_push g ++ last_push g = out g.
Proof. unfold before_last_push, last_push. apply firstn_skipn. Qed.

Lemma stA_snd Y : snd (snd (R Y)) = stA Y.
Proof. reflexivity. Qed.

(** one push preserves the invariant *)
Lemma push_inv T span g Y prev mg it :
  Inv g Y prev mg ->
  item_ok T (snd (R Y)) prev mg it = true ->
  Inv (push T span g it) (Y ++ canon_item it) (next_prev it) (next_mg (snd (R Y)) it).
Proof.
  intros [Irun Iprev Ilen Img] Hok.
  unfold item_ok in Hok. rewrite stA_snd in Hok.
  assert (Est : stA Y = stA (out g)) by (symmetry; apply stA_eq; exact Irun).
  unfold push, canon_item, next_prev, next_mg. rewrite stA_snd.
  destruct it as [m s]. cbn [imode itext] in *.
  destruct m as [|p|  |n| | ].
  - (* MStr *)
    destruct s as [|c s']; [discriminate Hok|].
    apply andb_true_iff in Hok as [Hc Hj0]. rewrite Est in Hc, Hj0.
    destruct (push_str_shape T span g c s') as [sep [Hs [Ho [Hl Hn]]]].
    assert (Hj : sep = [] -> junction_ok (stA (out g)) c = true).
    { intros E. specialize (Hn E). apply orb_true_iff in Hj0 as [J|J]; [exact J|].
      destruct (last_opt prev) as [l|] eqn:El; [|discriminate J].
      assert (Hp : prev <> []) by (intros ->; discriminate El).
      destruct (Iprev Hp) as [body [Hb _]].
      unfold needs_space in Hn. rewrite Hb, (last_opt_app body prev Hp), El in Hn. congruence. }
    destruct (sep_push g _ sep c s' Hc Hs Hj Ho Hl) as [A [B [C [D E]]]].
    constructor.
    + rewrite A. apply R_app_eq. exact Irun.
    + intros _. exact B.
    + exact C.
    + intros _. split; assumption.
  - (* MBreak *)
    destruct s as [|c s']; [discriminate Hok|].
    apply andb_true_iff in Hok as [Hc Hj0]. rewrite Est in Hc, Hj0.
    destruct (push_break_shape T span g p (c :: s')) as [sep [Hs [Ho [Hl Hn]]]].
    assert (Hj : sep = [] -> junction_ok (stA (out g)) c = true).
    { intros E. specialize (Hn E). apply orb_true_iff in Hj0 as [J|J]; [exact J|].
      assert (Hp : prev <> []) by (intros ->; discriminate J).
      destruct (Iprev Hp) as [body [Hb Hl']].
      destruct (last_push_split g body prev Hb Hl') as [Lp _]. congruence. }
    destruct (sep_push g _ sep c s' Hc Hs Hj Ho Hl) as [A [B [C [D E]]]].
    constructor.
    + rewrite A. apply R_app_eq. exact Irun.
    + intros _. exact B.
    + exact C.
    + intros _. split; assumption.
  - (* MRaw *)
    constructor.
    + cbn [raw_push out]. apply R_app_eq. exact Irun.
    + intros Hp. exists (out g). cbn [raw_push out lastlen]. split; reflexivity.
    + cbn [raw_push out lastlen]. rewrite app_length. lia.
    + intros Hm. apply andb_true_iff in Hm as [Hc Hne]. rewrite Est in Hc.
      destruct s as [|c s']; [discriminate Hne|].
      rewrite Est, Hc in Hok. cbn [negb orb] in Hok.
      assert (Hsep : is_sep []) by (left; reflexivity).
      destruct (sep_push g (raw_push g (c :: s')) [] c s' Hc Hsep (fun _ => Hok) eq_refl eq_refl)
        as [_ [_ [_ [D E]]]].
      split; assumption.
  - (* MNlRaw *)
    destruct s as [|c s']; [discriminate Hok|].
    apply andb_true_iff in Hok as [Hc Hj]. rewrite Est in Hc, Hj.
    destruct (nlraw_shape span g n (c :: s')) as [sep [Hs [Ho Hl]]].
    assert (Hs' : is_sep sep) by (destruct Hs as [->| ->]; [left|right; right]; reflexivity).
    destruct (sep_push g _ sep c s' Hc Hs' (fun _ => Hj) Ho Hl) as [A [B [C [D E]]]].
    constructor.
    + rewrite A. cbn [app]. rewrite <- (R_junction (out g) c s' Hc Hj). apply R_app_eq. exact Irun.
    + intros _. exact B.
    + exact C.
    + intros _. split; assumption.
  - (* MMerge *)
    apply andb_true_iff in Hok as [Hok Hm]. apply andb_true_iff in Hok as [Ht Hc].
    apply bytes_eqb_eq in Ht. subst s.
    rewrite Est in Hc. subst mg.
    destruct (Img eq_refl) as [Mc Mr].
    unfold merge_char. destruct (fits span g 1).
    + assert (Hsep : is_sep []) by (left; reflexivity).
      destruct (sep_push g (raw_push g [40]) [] 40 [] Hc Hsep (fun _ => clean_junction_lparen _ Hc) eq_refl eq_refl)
        as [_ [_ [C [D E]]]].
      constructor.
      * cbn [raw_push out]. apply R_app_eq. exact Irun.
      * intros F; congruence.
      * exact C.
      * intros _. split; assumption.
    + set (B := strip_trailing_spaces (before_last_push g)) in *.
      set (lp := last_push g) in *.
      pose proof (length_last_push g Ilen) as Llp. fold lp in Llp.
      constructor; cbn [out lastlen].
      * replace (B ++ [10] ++ lp ++ [40]) with ((B ++ [10] ++ lp) ++ [40]) by (rewrite <- !app_assoc; reflexivity).
        rewrite (R_app_eq _ _ [40] Mr). apply R_app_eq. exact Irun.
      * intros F; congruence.
      * rewrite !app_length. cbn [List.length]. lia.
      * intros _.
        assert (Ho : out {| out := B ++ [10] ++ lp ++ [40]; col := N.of_nat (S (lastlen g)); lastlen := S (lastlen g) |}
                     = (B ++ [10]) ++ (lp ++ [40])) by (cbn [out]; rewrite <- !app_assoc; reflexivity).
        assert (Hl : lastlen {| out := B ++ [10] ++ lp ++ [40]; col := N.of_nat (S (lastlen g)); lastlen := S (lastlen g) |}
                     = List.length (lp ++ [40])) by (cbn [lastlen]; rewrite app_length; cbn [List.length]; lia).
        destruct (last_push_split _ _ _ Ho Hl) as [Lp Bp]. rewrite Lp, Bp.
        rewrite strip_app_other by reflexivity.
        split; [rewrite stA_ws; auto using ws10|].
        cbn [out]. rewrite <- !app_assoc.
        apply (R_newline_twice B (lp ++ [40]) Mc).
  - (* MSpace *)
    constructor.
    + cbn [space out]. apply R_app_eq. exact Irun.
    + intros F; congruence.
    + cbn [space out lastlen]. rewrite app_length. lia.
    + intros F; discriminate F.
Qed.

Lemma run_snd_app Y z : snd (run (snd (R Y)) z) = snd (R (Y ++ z)).
Proof.
  rewrite R_app. destruct (R Y) as [o k]. cbn [snd]. destruct (run k z) as [o2 k2]. reflexivity.
Qed.

Lemma stream_inv T span items : forall g Y prev mg,
  Inv g Y prev mg ->
  stream_ok_from T (snd (R Y)) prev mg items = true ->
  R (out (fold_left (push T span) items g)) = R (Y ++ canon items).
Proof.
  induction items as [|it rest IH]; intros g Y prev mg HI Hok.
  - cbn [fold_left canon flat_map]. rewrite app_nil_r. exact (inv_run _ _ _ _ HI).
  - cbn [stream_ok_from] in Hok. apply andb_true_iff in Hok as [H1 H2].
    cbn [fold_left]. unfold canon. cbn [flat_map]. fold (canon rest).
    rewrite app_assoc.
    apply (IH _ _ (next_prev it) (next_mg (snd (R Y)) it)).
    + exact (push_inv T span g Y prev mg it HI H1).
    + rewrite <- run_snd_app. exact H2.
Qed.

Lemma Inv_init : Inv gen0 [] [] false.
Proof.
  constructor.
  - reflexivity.
  - intros H; congruence.
  - cbn. lia.
  - intros H; discriminate H.
Qed.

(** THE AUTOMATON NEVER FUSES TOKENS: whenever every junction of the push list is safe under
    the table ([stream_ok], decidable), the text written at ANY column span lexes exactly as
    the canonical rendering of the pushes (a new line at every place a separator is allowed). *)
Theorem no_fusion_stream : forall T span items,
  stream_ok T items = true ->
  lex_all (emit T span items) = lex_all (canon items)
  /\ lex (emit T span items) = lex (canon items).
Proof.
  intros T span items H.
  assert (E : R (emit T span items) = R (canon items)).
  { unfold emit, emit_gen. apply (stream_inv T span items gen0 [] [] false Inv_init). exact H. }
  assert (L : lex_all (emit T span items) = lex_all (canon items)).
  { unfold lex_all. unfold R in E. rewrite E. reflexivity. }
  split; [exact L|]. unfold lex. rewrite L. reflexivity.
Qed.

(** * from the finite condition on the tables to every push list of the adjacency universe *)
Lemma In_range128 c : (c <? 128) = true -> In c range128.
Proof.
  intros H. apply N.ltb_lt in H. unfold range128.
  apply in_map_iff. exists (N.to_nat c). split; [apply N2Nat.id|].
  apply in_seq. lia.
Qed.

Lemma In_reps st : clean st = true -> st <> LStart -> In (rep st) reps.
Proof.
  intros Hc Hs.
  destruct st as [|racc|ph racc|p|n|q esc racc|n cl racc|esc racc|racc|n racc|racc|n cl racc|];
    try discriminate Hc; try congruence.
  - cbn. auto.
  - destruct ph; cbn; auto.
  - destruct p; try discriminate Hc; cbn; auto 20.
Qed.

Lemma rep_facts st :
  (forall c, junction_ok (rep st) c = junction_ok st c)
  /\ (forall l, consistent (rep st) l = consistent st l)
  /\ (forall c, excluded_str (rep st) c = excluded_str st c)
  /\ (forall f, first_consistent (rep st) f = first_consistent st f).
Proof.
  destruct st as [|racc|ph racc|p|n|q esc racc|n cl racc|esc racc|racc|n racc|racc|n cl racc|];
    repeat split; intros; try reflexivity; try (destruct ph; reflexivity).
  - cbn [rep junction_ok extends step_st]. destruct (is_ident_char c); reflexivity.
  - cbn [rep junction_ok extends step_st]. destruct (num_next ph c); reflexivity.
Qed.

Lemma is_start_true st : is_start st = true -> st = LStart.
Proof. destruct st; try discriminate; reflexivity. Qed.

Lemma is_start_false st : is_start st = false -> st <> LStart.
Proof. destruct st; try discriminate; congruence. Qed.

Lemma adj_to_item T k prev mg it :
  spacing_ok T = true -> adj_ok k prev mg it = true -> item_ok T k prev mg it = true.
Proof.
  intros Hsp Ha. unfold spacing_ok in Hsp. apply andb_true_iff in Hsp as [Hstr Hbrk].
  unfold adj_ok in Ha. unfold item_ok in *. destruct k as [stk st]. cbn [snd] in *.
  destruct (rep_facts st) as [Rj [Rc [Re Rf]]].
  destruct (imode it) as [|p|  |n| | ]; try exact Ha.
  - (* MStr *)
    destruct (itext it) as [|c s']; [exact Ha|].
    apply andb_true_iff in Ha as [Hc Ha]. rewrite Hc. cbn [andb].
    destruct (is_start st) eqn:Es.
    + apply is_start_true in Es. subst st. reflexivity.
    + apply is_start_false in Es. cbn [orb] in Ha.
      destruct (last_opt prev) as [l|]; [|discriminate Ha].
      apply andb_true_iff in Ha as [Ha Hx]. apply andb_true_iff in Ha as [Ha Hc128].
      apply andb_true_iff in Ha as [Hcons Hl128].
      unfold spacing_ok_str in Hstr.
      rewrite forallb_forall in Hstr. specialize (Hstr _ (In_reps st Hc Es)).
      rewrite forallb_forall in Hstr. specialize (Hstr _ (In_range128 l Hl128)).
      rewrite forallb_forall in Hstr. specialize (Hstr _ (In_range128 c Hc128)).
      rewrite Rj, Rc, Re, Hcons, Hx in Hstr. cbn [andb negb] in Hstr. exact Hstr.
  - (* MBreak *)
    destruct (itext it) as [|c s']; [exact Ha|].
    apply andb_true_iff in Ha as [Ha Hrest]. apply andb_true_iff in Ha as [Hpc Hc].
    apply N.eqb_eq in Hpc. subst c. rewrite Hc. cbn [andb].
    destruct (is_start st) eqn:Es.
    + apply is_start_true in Es. subst st. reflexivity.
    + apply is_start_false in Es. cbn [orb] in Hrest.
      destruct prev as [|f prev']; [discriminate Hrest|].
      destruct (last_opt (f :: prev')) as [l|] eqn:El; [|discriminate Hrest].
      apply andb_true_iff in Hrest as [Ha Hx]. apply andb_true_iff in Ha as [Ha Hf128].
      apply andb_true_iff in Ha as [Ha Hl128]. apply andb_true_iff in Ha as [Hcons Hfc].
      unfold spacing_ok_brk in Hbrk.
      assert (Hp : In p all_preds) by (destruct p; cbn; auto 10).
      rewrite forallb_forall in Hbrk. specialize (Hbrk _ Hp).
      rewrite forallb_forall in Hbrk. specialize (Hbrk _ (In_reps st Hc Es)).
      rewrite forallb_forall in Hbrk. specialize (Hbrk _ (In_range128 l Hl128)).
      unfold excluded_brk in *. rewrite Rj, Rc, Re, Hcons, Hx in Hbrk. cbn [andb negb] in Hbrk.
      destruct (junction_ok st (pred_char p)); [reflexivity|]. cbn [orb].
      rewrite forallb_forall in Hbrk. specialize (Hbrk _ (In_range128 f Hf128)).
      rewrite Rf, Hfc in Hbrk.
      unfold pred_holds. rewrite El. exact Hbrk.
Qed.

Lemma adjacency_to_stream T : spacing_ok T = true ->
  forall items k prev mg,
  adjacency_ok_from k prev mg items = true -> stream_ok_from T k prev mg items = true.
Proof.
  intros Hsp. induction items as [|it rest IH]; intros k prev mg H; [reflexivity|].
  cbn [adjacency_ok_from stream_ok_from] in *. apply andb_true_iff in H as [H1 H2].
  rewrite (adj_to_item T k prev mg it Hsp H1). cbn [andb]. apply IH. exact H2.
Qed.

(** NO FUSION.  For every table satisfying the decidable condition [spacing_ok], for every
    push list inside the adjacency universe and every column span, the text written by the
    automaton lexes exactly as the canonical rendering of the pushes. *)
Theorem no_fusion : forall T, spacing_ok T = true ->
  forall span items, adjacency_ok items = true ->
  lex (emit T span items) = lex (canon items).
Proof.
  intros T Hsp span items Ha.
  apply (no_fusion_stream T span items).
  unfold stream_ok. apply adjacency_to_stream; assumption.
Qed.
