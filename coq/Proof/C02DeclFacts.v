(** Declarations: the [nil] values a generator appends to a [const] value list do not change what
    any variable receives. *)
From DL Require Import Lib.Bytes Model.C02Spec.
Require Import Lia.
Open Scope N_scope.

Lemma receives_nils k i : receives (repeat nilv k) i = RNil.
Proof.
  revert i. induction k as [|k IH]; intros i; [reflexivity|].
  cbn [repeat receives]. destruct (repeat nilv k) as [|w rest] eqn:E.
  - cbn. destruct i; reflexivity.
  - destruct i; [reflexivity|]. apply IH.
Qed.

(** appending nils after a last value that is not multi-valued changes nothing *)
Lemma receives_app_nils : forall vals k i,
  match last_dval vals with Some v => d_multi v = false | None => True end ->
  receives (vals ++ repeat nilv k) i = receives vals i.
Proof.
  induction vals as [|v rest IH]; intros k i H.
  - cbn [app]. rewrite receives_nils. reflexivity.
  - destruct rest as [|w rest'].
    + (* v is the last value *)
      cbn [last_dval] in H.
      destruct k as [|k]; [reflexivity|].
      cbn [app repeat receives]. rewrite H.
      destruct i as [|i']; [reflexivity|].
      exact (receives_nils (S k) i').
    + assert (H' : match last_dval (w :: rest') with Some x => d_multi x = false | None => True end)
        by exact H.
      cbn [app]. change ((w :: rest') ++ repeat nilv k) with (w :: (rest' ++ repeat nilv k)).
      cbn [receives]. destruct i as [|i']; [reflexivity|].
      change (w :: rest' ++ repeat nilv k) with ((w :: rest') ++ repeat nilv k).
      apply IH. exact H'.
Qed.

(** CONST PADDING IS NEUTRAL: when darklua's "the last value provides the rest" decision agrees
    with the semantics on the last value, every variable (any index) receives from the written
    value list exactly what it receives from the tree's value list. *)
Theorem const_padding_neutral : forall (skip : dval -> bool) n vals,
  (forall v, last_dval vals = Some v -> skip v = d_multi v) ->
  forall i, receives (written_values skip n vals) i = receives vals i.
Proof.
  intros skip n vals Hs i. unfold written_values.
  destruct (Nat.leb n (List.length vals)); [reflexivity|]. cbn [orb].
  destruct (last_dval vals) as [v|] eqn:E.
  - rewrite (Hs v eq_refl). destruct (d_multi v) eqn:Em; [reflexivity|].
    apply receives_app_nils. rewrite E. exact Em.
  - apply receives_app_nils. rewrite E. exact I.
Qed.

(** and when it does not agree the padding is NOT neutral: a decision that forgets that [...] is
    multi-valued writes [const a, b = ...] as [const a, b = ..., nil] and [b] becomes nil *)
Theorem const_padding_refuted_for_wrong_decision :
  exists skip n vals i, receives (written_values skip n vals) i <> receives vals i.
Proof.
  exists (fun _ => false), 2%nat, [{| d_id := 1; d_multi := true; d_nil := false |}], 1%nat.
  vm_compute. discriminate.
Qed.
