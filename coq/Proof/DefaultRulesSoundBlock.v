(** C01, block-level rewrites that need no static evaluation:
    filter_after_early_return ([early_return_sound]), remove_empty_do ([empty_do_sound*]),
    remove_method_definition ([method_def_sound*]), the single-variable case of
    remove_nil_declaration ([nil_decl_single_sound], [nil_decl_partial]). *)
From Coq Require Import ZArith NArith List Bool String Lia.
From DL Require Import Lib.Bytes Lib.F64 Lua.Syntax Lua.Sem Model.Evaluator Model.DefaultRules
  Proof.SemFacts Proof.DefaultRulesSem.
Import ListNotations.
Open Scope N_scope.

Section Block.
Variable d : dialect.

(** * filter_after_early_return *)

(** a statement on which [search_remove_after] answers never completes normally *)
Definition never_none (n : nat) : Prop :=
  forall st rho va s rho' sg s',
    stmt_returns st = true -> exec_stmt d n rho va st s = Ok (rho', sg) s' -> sg <> SigNone.

Lemma stmts_none_inv k :
  (forall m, (m < k)%nat -> never_none m) ->
  forall ss rho va last s s',
    exec_stmts d k rho va ss last s = Ok SigNone s' ->
    existsb stmt_returns ss = false /\ (forall es, last <> Some (LReturn es)).
Proof.
  intros IH ss. revert k IH.
  induction ss as [|st rest IHss]; intros k IH rho va last s s' H; (destruct k as [|k]; [discriminate|]).
  - rewrite exec_stmts_S_nil in H. split; [reflexivity|]. intros es E. subst last.
    inv_ok H. discriminate.
  - rewrite exec_stmts_S_cons in H. apply bind_ok in H as ([rho1 sg1] & s1 & H1 & H2).
    cbn [stmts_cont] in H2. destruct sg1; try (inv_ok H2; discriminate).
    cbn [existsb]. destruct (stmt_returns st) eqn:Er.
    + exfalso. eapply (IH k); eauto.
    + cbn [orb]. eapply IHss; [|exact H2]. intros m Hm. apply IH. lia.
Qed.

Lemma never_none_all : forall n, never_none n.
Proof.
  induction n as [n IH] using lt_wf_ind.
  intros st rho va s rho' sg s' Hr H.
  destruct st; try discriminate Hr. destruct b as [ss last].
  destruct n as [|n]; [discriminate|]. rewrite exec_stmt_S_do in H. inv_ok H.
  inversion E; subst; clear E. intros ->.
  destruct n as [|n]; [discriminate|]. rewrite exec_block_S in H0.
  apply stmts_none_inv in H0 as [A B].
  - cbn [stmt_returns] in Hr. destruct last as [[| |es]|]; try discriminate Hr.
    + exact (B es eq_refl).
    + congruence.
  - intros m Hm. apply IH. lia.
Qed.

(** the statements after a statement that always returns, and the block's last statement,
    are never reached: the two runs coincide for every outcome (value, error, out of fuel) *)
Theorem early_return_stmts : forall pre st rest last n rho va s,
  stmt_returns st = true ->
  exec_stmts d n rho va (pre ++ st :: rest) last s = exec_stmts d n rho va (pre ++ [st]) None s.
Proof.
  induction pre as [|x pre IH]; intros st rest last n rho va s Hr; (destruct n as [|n]; [reflexivity|]);
    cbn [app]; rewrite !exec_stmts_S_cons; apply bind_eq; intros [rho1 sg1] s1 H1; cbn [stmts_cont].
  - destruct sg1; try reflexivity. exfalso. eapply never_none_all; eauto.
  - destruct sg1; try reflexivity. apply IH. exact Hr.
Qed.

Lemma search_remove_after_spec ss i :
  search_remove_after ss = Some i ->
  exists pre st rest, ss = pre ++ st :: rest /\ stmt_returns st = true /\ firstn (S i) ss = pre ++ [st].
Proof.
  revert i; induction ss as [|x ss IH]; intros i H; [discriminate|].
  cbn [search_remove_after] in H. destruct (stmt_returns x) eqn:E.
  - inversion H; subst. exists [], x, ss. auto.
  - destruct (search_remove_after ss) as [j|]; [|discriminate]. inversion H; subst.
    destruct (IH j eq_refl) as (pre & st & rest & -> & Hs & Hf).
    exists (x :: pre), st, rest. repeat split; auto.
    change (firstn (S (S j)) (x :: pre ++ st :: rest)) with (x :: firstn (S j) (pre ++ st :: rest)).
    rewrite Hf. reflexivity.
Qed.

(** the rule's rewrite of a block ([Processor::process_block]) leaves the run of the block
    unchanged, at the same fuel, for every outcome *)
Theorem early_return_sound : forall b n rho va s,
  exec_block d n rho va (rw_early_return b) s = exec_block d n rho va b s.
Proof.
  intros [ss last] n rho va s. unfold rw_early_return.
  destruct (search_remove_after ss) as [i|] eqn:E; [|reflexivity].
  destruct (search_remove_after_spec _ _ E) as (pre & st & rest & -> & Hs & Hf). rewrite Hf.
  destruct n as [|n]; [reflexivity|]. rewrite !exec_block_S. symmetry. now apply early_return_stmts.
Qed.

(** * remove_empty_do *)

(** an empty [do end] completes normally and changes nothing *)
Theorem empty_do_stmt_sound : forall n rho va s r s',
  exec_stmt d n rho va (SDo (Block [] None)) s = Ok r s' -> r = (rho, SigNone) /\ s' = s.
Proof.
  intros n rho va s r s' H.
  destruct n as [|n]; [discriminate|]. rewrite exec_stmt_S_do in H. inv_ok H.
  destruct n as [|n]; [discriminate|]. rewrite exec_block_S in H0.
  destruct n as [|n]; [discriminate|]. rewrite exec_stmts_S_nil in H0. inv_ok H0. subst. auto.
Qed.

Lemma empty_do_stmt_run n rho va s :
  exec_stmt d (S (S (S n))) rho va (SDo (Block [] None)) s = Ok (rho, SigNone) s.
Proof. rewrite exec_stmt_S_do, exec_block_S, exec_stmts_S_nil. reflexivity. Qed.

Lemma stmts_cont_none m va rest last rho s :
  stmts_cont d m va rest last (rho, SigNone) s = exec_stmts d m rho va rest last s.
Proof. reflexivity. Qed.

(** at the head of a statement list the empty [do end] only costs fuel *)
Theorem empty_do_head_sound : forall n rho va rest last s,
  exec_stmts d (S (S (S (S n)))) rho va (SDo (Block [] None) :: rest) last s =
  exec_stmts d (S (S (S n))) rho va rest last s.
Proof.
  intros. rewrite exec_stmts_S_cons. unfold bind. rewrite empty_do_stmt_run. apply stmts_cont_none.
Qed.

(** whenever the list with the empty [do end] completes (or fails with a Lua error), so does
    the list without it when it stands first *)
Theorem empty_do_sound : forall n rho va rest last s r,
  exec_stmts d n rho va (SDo (Block [] None) :: rest) last s = r -> r <> Fuel ->
  exists n', exec_stmts d n' rho va rest last s = r.
Proof.
  intros n rho va rest last s r H Hf.
  do 4 (destruct n as [|n]; [subst r; exfalso; apply Hf; reflexivity|]).
  exists (S (S (S n))). rewrite <- H. symmetry. apply empty_do_head_sound.
Qed.

(** * remove_method_definition *)

(** [function base.fields:m(ps) body end] and [function base.fields.m(self, ps) body end]
    run the same code after allocating their closure records ... *)
Theorem method_def_stmt_sound : forall n rho va base fields m f,
  exec_stmt d (S n) rho va (SFunction base fields (Some m) f) =
  (c <- new_closure (mkClosure f rho true) ;; sfunction_store d n rho va base (fields ++ [m]) c) /\
  exec_stmt d (S n) rho va (rw_method_def (SFunction base fields (Some m) f)) =
  (c <- new_closure (mkClosure (add_self f) rho false) ;; sfunction_store d n rho va base (fields ++ [m]) c).
Proof.
  intros. split.
  - apply exec_stmt_S_function.
  - cbn [rw_method_def]. rewrite exec_stmt_S_function. rewrite app_nil_r. reflexivity.
Qed.

(** ... and the two closure records are indistinguishable by [call] (the only consumer of
    closure records): same effective parameters, variadic flag, body, captured environment *)
Theorem method_def_closure_sound : forall f rho,
  let c1 := mkClosure f rho true in
  let c2 := mkClosure (add_self f) rho false in
  effective_params c1 = effective_params c2 /\ closure_variadic c1 = closure_variadic c2 /\
  closure_block c1 = closure_block c2 /\ c_env c1 = c_env c2.
Proof. intros [ps v vt rt g at_ body] rho. cbv zeta. repeat split. Qed.

Theorem method_def_call_sound : forall n a args s1 s2 f rho,
  get_closure a s1 = Ok (mkClosure f rho true) s1 ->
  get_closure a s2 = Ok (mkClosure (add_self f) rho false) s2 ->
  call d (S n) (VClosure a) args s1 =
    call_closure d n (effective_params (mkClosure f rho true)) (closure_variadic (mkClosure f rho true))
                 (closure_block (mkClosure f rho true)) rho args s1 /\
  call d (S n) (VClosure a) args s2 =
    call_closure d n (effective_params (mkClosure f rho true)) (closure_variadic (mkClosure f rho true))
                 (closure_block (mkClosure f rho true)) rho args s2.
Proof.
  intros n a args s1 s2 f rho H1 H2. rewrite !call_S_closure. unfold bind. rewrite H1, H2.
  destruct (method_def_closure_sound f rho) as (E1 & E2 & E3 & E4). cbv zeta in *.
  rewrite <- E1, <- E2, <- E3. split; reflexivity.
Qed.

(** * remove_nil_declaration, one variable: [local a = nil] and [local a] *)

Theorem nil_decl_single_sound : forall n rho va x s r s',
  exec_stmt d n rho va (SLocal false [x] [ENil]) s = Ok r s' ->
  rw_nil_declaration (SLocal false [x] [ENil]) = SLocal false [x] [] /\
  exec_stmt d n rho va (SLocal false [x] []) s = Ok r s'.
Proof.
  intros n rho va x s r s' H. split; [reflexivity|].
  destruct n as [|n]; [discriminate|]. rewrite exec_stmt_S_local in *.
  apply bind_ok in H as (vs & s1 & H1 & H2).
  destruct n as [|n]; [discriminate|]. rewrite eval_list_S_one in H1.
  destruct n as [|n]; [discriminate|]. rewrite eval_S_nil in H1. inv_ok H1. subst.
  rewrite eval_list_S_nil. rewrite bind_ret_l. exact H2.
Qed.

(** every variable is initialised with a literal [nil]: [local a, b = nil, nil] and
    [local a, b] (the variables keep their order, so the same cells are bound to the same
    names).  The general case, in which the variables of the [nil] values move behind the
    others ([local a, b = nil, e] becomes [local b, a = e]), permutes the fresh cells and is
    not covered: PARTIAL. *)
Lemma eval_list_nils : forall k n rho va s vs s',
  eval_list d n rho va (repeat ENil k) s = Ok vs s' -> vs = repeat VNil k /\ s' = s.
Proof.
  induction k as [|k IH]; intros n rho va s vs s' H; (destruct n as [|n]; [discriminate|]).
  - cbn [repeat] in H. rewrite eval_list_S_nil in H. inv_ok H. subst; auto.
  - cbn [repeat] in H. destruct k as [|k].
    + cbn [repeat] in H. rewrite eval_list_S_one in H.
      destruct n as [|n]; [discriminate|]. rewrite eval_S_nil in H. inv_ok H. subst; auto.
    + change (repeat ENil (S k)) with (ENil :: repeat ENil k) in H. rewrite eval_list_S_cons in H.
      apply bind_ok in H as (v & s1 & Hv & H). apply bind_ok in H as (ws & s2 & Hw & H). inv_ok H. subst.
      apply IH in Hw as [-> ->].
      destruct n as [|n]; [discriminate|]. rewrite eval1_S in Hv.
      destruct n as [|n]; [discriminate|]. rewrite eval_S_nil in Hv.
      apply bind_ok in Hv as (a & s0 & Ha & Hv). inv_ok Ha. inv_ok Hv. subst. auto.
Qed.

Lemma local_go_nils : forall xs k acc s, local_go xs (repeat VNil k) acc s = local_go xs [] acc s.
Proof.
  induction xs as [|x xs IH]; intros k acc s; [reflexivity|].
  cbn [local_go]. assert (arg (repeat VNil k) 0 = arg [] 0) as -> by (destruct k; reflexivity).
  apply bind_eq. intros a s1 _. destruct k as [|k]; [reflexivity|]. cbn [repeat tl]. rewrite IH. reflexivity.
Qed.

Lemma split_vars_nils : forall xs, split_vars xs (repeat ENil (List.length xs)) = ([], xs).
Proof. induction xs as [|x xs IH]; [reflexivity|]. cbn [List.length repeat split_vars]. rewrite IH. reflexivity. Qed.

Lemma filter_nils k : filter (fun e => negb (is_nil e)) (repeat ENil k) = [].
Proof. induction k; [reflexivity|]. cbn. exact IHk. Qed.

Lemma rw_nil_declaration_all_nil xs :
  xs <> [] -> names_distinct (map param_name xs) = true ->
  rw_nil_declaration (SLocal false xs (repeat ENil (List.length xs))) = SLocal false xs [].
Proof.
  intros Hne Hd. unfold rw_nil_declaration.
  assert (firstn (List.length xs) (repeat ENil (List.length xs)) ++ filter hse (skipn (List.length xs) (repeat ENil (List.length xs)))
          = repeat ENil (List.length xs)) as ->.
  { rewrite firstn_all2 by (rewrite repeat_length; lia).
    rewrite skipn_all2 by (rewrite repeat_length; lia). apply app_nil_r. }
  rewrite repeat_length, Nat.ltb_irrefl, Hd. cbn [andb negb].
  assert (existsb is_nil (repeat ENil (List.length xs)) = true) as ->.
  { destruct xs; [congruence|]. reflexivity. }
  cbn [negb]. rewrite split_vars_nils, filter_nils. reflexivity.
Qed.

Theorem nil_decl_partial : forall xs n rho va s r s',
  xs <> [] -> names_distinct (map param_name xs) = true ->
  exec_stmt d n rho va (SLocal false xs (repeat ENil (List.length xs))) s = Ok r s' ->
  exec_stmt d n rho va (rw_nil_declaration (SLocal false xs (repeat ENil (List.length xs)))) s = Ok r s'.
Proof.
  intros xs n rho va s r s' Hne Hd H. rewrite (rw_nil_declaration_all_nil _ Hne Hd).
  destruct n as [|n]; [discriminate|]. rewrite exec_stmt_S_local in *.
  apply bind_ok in H as (vs & s1 & Hv & H).
  destruct n as [|n]; [discriminate|]. rewrite eval_list_S_nil, bind_ret_l.
  apply eval_list_nils in Hv as [-> ->].
  unfold bind in *. rewrite local_go_nils in H. exact H.
Qed.

End Block.

(** * The rewrites fire on concrete programs, which run *)

Definition sident (x : string) : expr := EIdent (of_string x).
Definition scall0 (f : string) : stmt := SCall (ECall (sident f) None (ATuple [])).
Definition snum (z : Z) : expr := ENumber (NDec (to_bits (of_Z z)) None).

(** [ext_a() do do return 1 end end ext_b() return 2] *)
Example early_return_example :
  let b := Block [scall0 "ext_a"; SDo (Block [SDo (Block [] (Some (LReturn [snum 1])))] None); scall0 "ext_b"]
                 (Some (LReturn [snum 2])) in
  let s := initial_store [] in
  rw_early_return b = Block [scall0 "ext_a"; SDo (Block [SDo (Block [] (Some (LReturn [snum 1])))] None)] None /\
  exists s', exec_block L51 20 [] [] b s = Ok (SigReturn [VNum (of_Z 1)]) s' /\
             exec_block L51 20 [] [] (rw_early_return b) s = Ok (SigReturn [VNum (of_Z 1)]) s' /\
             trace s' = [EvCall (of_string "ext_a") []].
Proof. cbv zeta. split; [reflexivity|]. eexists. repeat split; vm_compute; reflexivity. Qed.

(** [do end ext_a()] *)
Example empty_do_example :
  let b := Block [SDo (Block [] None); scall0 "ext_a"] None in
  let s := initial_store [] in
  rw_empty_do b = Block [scall0 "ext_a"] None /\
  exists s', exec_block L51 20 [] [] b s = Ok SigNone s' /\
             exec_block L51 19 [] [] (rw_empty_do b) s = Ok SigNone s'.
Proof. cbv zeta. split; [reflexivity|]. eexists. split; vm_compute; reflexivity. Qed.

(** [local t = {} function t:m(a) return self, a end return t:m(5)] and its rewriting
    [function t.m(self, a) ...] return the same values *)
Example method_def_example :
  let f := FBody [Param (of_string "a") None] false None None None 0
                 (Block [] (Some (LReturn [sident "self"; sident "a"]))) in
  let prog st := Block [SLocal false [Param (of_string "t") None] [ETable []]; st]
                       (Some (LReturn [ECall (sident "t") (Some (of_string "m")) (ATuple [snum 5])])) in
  let st := SFunction (of_string "t") [] (Some (of_string "m")) f in
  let s := initial_store [] in
  rw_method_def st = SFunction (of_string "t") [of_string "m"] None (add_self f) /\
  exists s1 s2 a, exec_block L51 30 [] [] (prog st) s = Ok (SigReturn [VTable a; VNum (of_Z 5)]) s1 /\
                  exec_block L51 30 [] [] (prog (rw_method_def st)) s = Ok (SigReturn [VTable a; VNum (of_Z 5)]) s2.
Proof. cbv zeta. split; [reflexivity|]. do 3 eexists. split; vm_compute; reflexivity. Qed.

Example nil_decl_example :
  let st := SLocal false [Param (of_string "a") None] [ENil] in
  let s := initial_store [] in
  exists s', exec_stmt L51 5 [] [] st s = Ok ([(of_string "a", 0)], SigNone) s' /\
             exec_stmt L51 5 [] [] (rw_nil_declaration st) s = Ok ([(of_string "a", 0)], SigNone) s'.
Proof. cbv zeta. eexists. split; vm_compute; reflexivity. Qed.
