(** C01, LIFTING - the hypotheses of the [..._partial] theorems are satisfiable by programs on
    which the rules do fire, and the lifted theorems apply to runs that complete. *)
From Coq Require Import ZArith NArith List Bool String.
From DL Require Import Lib.Bytes Lib.F64 Lua.Syntax Lua.Sem Model.Evaluator Model.DefaultRules.
From DL Require Import Proof.LiftingRulesExpr Proof.LiftingRulesBlock Proof.LiftingRulesIf.
Import ListNotations.
Open Scope N_scope.

Definition xid (x : string) : expr := EIdent (of_string x).
Definition xcall0 (f : string) : stmt := SCall (ECall (xid f) None (ATuple [])).
Definition xnum (z : Z) : expr := ENumber (NDec (to_bits (of_Z z)) None).
Definition xfb (ps : list param) (blk : block) : fbody := FBody ps false None None None 0 blk.

(** [local t = {["a"] = 1}  local function g() return t["a"] end  t["b"] = g()  return t["b"]]:
    the rewritten index sits in a closure body, in an assignment target and in a table
    constructor *)
Definition ex_index : block :=
  Block [ SLocal false [Param (of_string "t") None] [ETable [TIndex (EString (of_string "a")) (xnum 1)]];
          SLocalFunction (of_string "g")
            (xfb [] (Block [] (Some (LReturn [EIndex (xid "t") (EString (of_string "a"))]))));
          SAssign [EIndex (xid "t") (EString (of_string "b"))] [ECall (xid "g") None (ATuple [])] ]
        (Some (LReturn [EIndex (xid "t") (EString (of_string "b"))])).

Example index_to_field_partial_example :
  rule_convert_index_to_field ex_index = rule_convert_index_to_field_literal ex_index /\
  rule_convert_index_to_field ex_index =
    Block [ SLocal false [Param (of_string "t") None] [ETable [TField (of_string "a") (xnum 1)]];
            SLocalFunction (of_string "g")
              (xfb [] (Block [] (Some (LReturn [EField (xid "t") (of_string "a")]))));
            SAssign [EField (xid "t") (of_string "b")] [ECall (xid "g") None (ATuple [])] ]
          (Some (LReturn [EField (xid "t") (of_string "b")])) /\
  run_chunk L51 40 [] ex_index = OutOk [] [RNum (to_bits (of_Z 1))].
Proof. split; [|split]; vm_compute; reflexivity. Qed.

(** [while false do ext_a() end  repeat while nil do ext_b() end until true  ext_c()  return 1] *)
Definition ex_while : block :=
  Block [ SWhile EFalse (Block [xcall0 "ext_a"] None);
          SRepeat (Block [SWhile ENil (Block [xcall0 "ext_b"] None)] None) ETrue;
          xcall0 "ext_c" ]
        (Some (LReturn [xnum 1])).

Example remove_unused_while_partial_example :
  rule_remove_unused_while ex_while = rule_remove_unused_while_literal ex_while /\
  rule_remove_unused_while ex_while =
    Block [ SRepeat (Block [] None) ETrue; xcall0 "ext_c" ] (Some (LReturn [xnum 1])) /\
  run_chunk L51 40 [] ex_while = OutOk [EvCall (of_string "ext_c") []] [RNum (to_bits (of_Z 1))].
Proof. split; [|split]; vm_compute; reflexivity. Qed.

(** [local function f(x) if false then ext_a() elseif x then ext_b() else ext_c() end end
     if true then f(nil) else ext_d() end
     return (if nil then 1 else 2)] *)
Definition ex_if : block :=
  Block [ SLocalFunction (of_string "f")
            (xfb [Param (of_string "x") None]
                 (Block [SIf [SBranch EFalse (Block [xcall0 "ext_a"] None);
                              SBranch (xid "x") (Block [xcall0 "ext_b"] None)]
                             (Some (Block [xcall0 "ext_c"] None))] None));
          SIf [SBranch ETrue (Block [SCall (ECall (xid "f") None (ATuple [ENil]))] None)]
              (Some (Block [xcall0 "ext_d"] None)) ]
        (Some (LReturn [EIf [EBranch ENil (xnum 1)] (xnum 2)])).

Example remove_unused_if_branch_partial_example :
  rule_remove_unused_if_branch ex_if = rule_remove_unused_if_branch_literal ex_if /\
  rule_remove_unused_if_branch ex_if =
    Block [ SLocalFunction (of_string "f")
              (xfb [Param (of_string "x") None]
                   (Block [SIf [SBranch (xid "x") (Block [xcall0 "ext_b"] None)]
                               (Some (Block [xcall0 "ext_c"] None))] None));
            SDo (Block [SCall (ECall (xid "f") None (ATuple [ENil]))] None) ]
          (Some (LReturn [xnum 2])) /\
  run_chunk Luau 40 [] ex_if = OutOk [EvCall (of_string "ext_c") []] [RNum (to_bits (of_Z 2))].
Proof. split; [|split]; vm_compute; reflexivity. Qed.

(** [local t = {}  function t:m(a) return self, a end  do end  do return t:m "s" end  ext_a()]:
    remove_method_definition, remove_function_call_parens, remove_empty_do and
    filter_after_early_return all fire *)
Definition ex_misc : block :=
  Block [ SLocal false [Param (of_string "t") None] [ETable []];
          SFunction (of_string "t") [] (Some (of_string "m"))
            (xfb [Param (of_string "a") None] (Block [] (Some (LReturn [xid "self"; xid "a"]))));
          SDo (Block [] None);
          SDo (Block [] (Some (LReturn [ECall (xid "t") (Some (of_string "m")) (ATuple [EString (of_string "s")])])));
          xcall0 "ext_a" ]
        None.

Example unconditional_rules_example :
  rule_remove_method_definition ex_misc <> ex_misc /\
  rule_remove_function_call_parens ex_misc <> ex_misc /\
  rule_remove_empty_do ex_misc <> ex_misc /\
  rule_filter_after_early_return ex_misc <> ex_misc /\
  run_chunk L51 40 [] ex_misc = OutOk [] [RTable [(RStr (of_string "m"), RFunc)] false; RStr (of_string "s")] /\
  run_chunk L51 40 []
    (rule_filter_after_early_return (rule_remove_empty_do (rule_remove_function_call_parens
       (rule_remove_method_definition ex_misc)))) = OutOk [] [RTable [(RStr (of_string "m"), RFunc)] false; RStr (of_string "s")].
Proof.
  split; [vm_compute; discriminate|]. split; [vm_compute; discriminate|].
  split; [vm_compute; discriminate|]. split; [vm_compute; discriminate|].
  split; vm_compute; reflexivity.
Qed.

(** * closed constant expressions (Proof/LiftingRulesConst.v) *)
From DL Require Import Proof.LiftingRulesConst.

(** [local t = {["a" .. "b"] = 1 + 2 * 3}
     while 1 > 2 do ext_a() end
     if not (2 <= 1) then ext_b() end
     return t["a" .. "b"], not (1 > 2), ("x" .. "y"), -(2 - 3)] *)
Definition xstr (s : string) : expr := EString (of_string s).
Definition ex_const : block :=
  Block [ SLocal false [Param (of_string "t") None]
            [ETable [TIndex (EBinary BConcat (xstr "a") (xstr "b"))
                            (EBinary BAdd (xnum 1) (EBinary BMul (xnum 2) (xnum 3)))]];
          SWhile (EBinary BGt (xnum 1) (xnum 2)) (Block [xcall0 "ext_a"] None);
          SIf [SBranch (EUnary UNot (EBinary BLe (xnum 2) (xnum 1))) (Block [xcall0 "ext_b"] None)] None ]
        (Some (LReturn [ EIndex (xid "t") (EBinary BConcat (xstr "a") (xstr "b"));
                         EUnary UNot (EBinary BGt (xnum 1) (xnum 2));
                         EParen (EBinary BConcat (xstr "x") (xstr "y"));
                         EUnary UMinus (EBinary BSub (xnum 2) (xnum 3)) ])).

Example const_partial_example :
  rule_convert_index_to_field ex_const = rule_convert_index_to_field_const ex_const /\
  rule_convert_index_to_field ex_const <> ex_const /\
  rule_remove_unused_while ex_const = rule_remove_unused_while_const ex_const /\
  rule_remove_unused_while ex_const <> ex_const /\
  rule_remove_unused_if_branch ex_const = rule_remove_unused_if_branch_const ex_const /\
  rule_remove_unused_if_branch ex_const <> ex_const /\
  rule_compute_expression ex_const = rule_compute_expression_const ex_const /\
  rule_compute_expression ex_const =
    Block [ SLocal false [Param (of_string "t") None]
              [ETable [TIndex (xstr "ab") (xnum 7)]];
            SWhile EFalse (Block [xcall0 "ext_a"] None);
            SIf [SBranch ETrue (Block [xcall0 "ext_b"] None)] None ]
          (Some (LReturn [ EIndex (xid "t") (xstr "ab"); ETrue; EParen (xstr "xy"); xnum 1 ])) /\
  run_chunk L51 40 [] ex_const =
    OutOk [EvCall (of_string "ext_b") []]
          [RNum (to_bits (of_Z 7)); RBool true; RStr (of_string "xy"); RNum (to_bits (of_Z 1))].
Proof.
  split; [vm_compute; reflexivity|]. split; [vm_compute; discriminate|].
  split; [vm_compute; reflexivity|]. split; [vm_compute; discriminate|].
  split; [vm_compute; reflexivity|]. split; [vm_compute; discriminate|].
  split; [vm_compute; reflexivity|]. split; vm_compute; reflexivity.
Qed.

(** * compute_expression: no same-fuel statement for the rule as it is

    [return 5 - 1e309] (the literal [1e309] is +infinity) completes with 6 units of fuel; the
    rule folds it to the literal of minus infinity, [(-1)/0], which is two levels deeper and
    needs 8.  (The restricted oracle [ev_const] leaves minus infinity alone.) *)
From Coq Require Import Floats.SpecFloat.
Definition ex_neg_inf : block :=
  Block [] (Some (LReturn [EBinary BSub (xnum 5) (ENumber (NDec (to_bits (S754_infinity false)) None))])).

Example compute_same_fuel_refuted :
  rule_compute_expression ex_neg_inf =
    Block [] (Some (LReturn [EBinary BDiv (EUnary UMinus (xnum 1)) (xnum 0)])) /\
  run_chunk L51 6 [] ex_neg_inf = OutOk [] [RNum (to_bits (S754_infinity true))] /\
  run_chunk L51 6 [] (rule_compute_expression ex_neg_inf) = OutFuel /\
  run_chunk L51 8 [] (rule_compute_expression ex_neg_inf) = OutOk [] [RNum (to_bits (S754_infinity true))].
Proof. split; [|split; [|split]]; vm_compute; reflexivity. Qed.
