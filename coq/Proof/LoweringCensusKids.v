(** One level of a tree: the root's own census contribution, the children tagged by the
    position in which the traversal of Model/Visit.v visits them, and how the children maps
    of Model/Visit.v act on them. *)
From Coq Require Import ZArith NArith List Bool Lia ZifyBool ZifyN ZifyNat.
From DL Require Import Lib.Bytes Lua.Syntax Lua.Census Model.Visit Proof.LoweringCensusBase.
Import ListNotations.
Local Open Scope nat_scope.

(** a child and the role in which it is visited: expression, prefix, variable, the call of
    a call statement, the condition of a repeat, a block, a type *)
Inductive kid :=
| KE (e : expr) | KP (e : expr) | KV (e : expr) | KC (e : expr) | KR (e : expr)
| KB (b : block) | KT (t : ty).

Definition kids_opt_ty (o : option ty) : list kid := match o with Some t => [KT t] | None => [] end.
Definition kids_param (p : param) : list kid := match p with Param _ t => kids_opt_ty t end.
Definition kids_fbody (f : fbody) : list kid :=
  match f with
  | FBody ps _ vt rt gen _ body =>
    flat_map kids_param ps ++ kids_opt_ty vt ++ kids_opt_ty rt ++ kids_opt_ty gen ++ [KB body]
  end.
Definition kids_tentry (t : tentry) : list kid :=
  match t with TField _ v => [KE v] | TIndex k v => [KE k; KE v] | TValue v => [KE v] end.
Definition kids_args (a : args) : list kid :=
  match a with ATuple es => map KE es | AString _ => [] | ATable en => flat_map kids_tentry en end.
Definition kids_iseg (s : iseg) : list kid := match s with ISStr _ => [] | ISExpr e => [KE e] end.
Definition kids_ebranch (b : ebranch) : list kid := match b with EBranch c r => [KE c; KE r] end.

Definition kids_expr (e : expr) : list kid :=
  match e with
  | ENil | ETrue | EFalse | ENumber _ | EString _ | EVarArgs | EIdent _ => []
  | EInterp segs => flat_map kids_iseg segs
  | EField p _ => [KP p]
  | EIndex p k => [KP p; KE k]
  | ECall p _ a => KP p :: kids_args a
  | EFunction f => kids_fbody f
  | EIf bs els => flat_map kids_ebranch bs ++ [KE els]
  | EParen e' => [KE e']
  | ETable en => flat_map kids_tentry en
  | EUnary _ e' => [KE e']
  | EBinary _ l r => [KE l; KE r]
  | ETypeCast e' t => [KE e'; KT t]
  | ETypeInst p tys => KP p :: map KT tys
  end.

Definition kids_ty (t : ty) : list kid :=
  match t with TyNode _ subs es => map KT subs ++ map KE es end.

Definition kids_sbranch (b : sbranch) : list kid := match b with SBranch c body => [KE c; KB body] end.
Definition kids_opt_block (o : option block) : list kid := match o with Some b => [KB b] | None => [] end.
Definition kids_opt_expr (o : option expr) : list kid := match o with Some e => [KE e] | None => [] end.

Definition kids_stmt (s : stmt) : list kid :=
  match s with
  | SAssign vars vals => map KV vars ++ map KE vals
  | SDo b => [KB b]
  | SCall c => [KC c]
  | SCompound _ var v => [KV var; KE v]
  | SFunction _ _ _ f => kids_fbody f
  | SGenericFor vars es b => flat_map kids_param vars ++ map KE es ++ [KB b]
  | SIf bs els => flat_map kids_sbranch bs ++ kids_opt_block els
  | SLocal _ vars vals => flat_map kids_param vars ++ map KE vals
  | SLocalFunction _ f => kids_fbody f
  | SNumericFor var a b step body => kids_param var ++ [KE a; KE b] ++ kids_opt_expr step ++ [KB body]
  | SRepeat b c => [KB b; KR c]
  | SWhile c b => [KE c; KB b]
  | STypeDecl _ _ gen t => kids_opt_ty gen ++ [KT t]
  | STypeFunction _ _ f => kids_fbody f
  end.

Definition kids_last (l : laststmt) : list kid :=
  match l with LReturn es => map KE es | _ => [] end.

Definition f_kid (i : nat) (c : kid) : N :=
  match c with
  | KE e | KP e | KV e | KC e | KR e => f_expr i e
  | KB b => f_block i b
  | KT t => f_ty i t
  end.

Definition w_kid (c : kid) : nat :=
  match c with
  | KE e | KP e | KV e | KC e | KR e => w_expr e
  | KB b => w_block b
  | KT t => w_ty t
  end.

(** * Roots *)
Definition attrs_root (i : nat) (f : fbody) : N :=
  match f with FBody _ _ _ _ _ attrs _ => if (attrs =? 0)%N then 0%N else u i 8 end.

Definition root_expr (i : nat) (e : expr) : N :=
  match e with
  | ENumber n => if luau_number n then u i 5 else 0%N
  | EInterp _ => u i 3
  | EIf _ _ => u i 2
  | EBinary BIDiv _ _ => u i 4
  | ETypeCast _ _ | ETypeInst _ _ => u i 7
  | EFunction f => attrs_root i f
  | _ => 0%N
  end.

Definition root_stmt (i : nat) (s : stmt) : N :=
  match s with
  | SCompound op _ _ => (u i 0 + match op with BIDiv => u i 4 | _ => 0 end)%N
  | SLocal c _ _ => if c then u i 6 else 0%N
  | STypeDecl _ _ _ _ => u i 7
  | STypeFunction _ _ f => (u i 7 + attrs_root i f)%N
  | SFunction _ _ _ f | SLocalFunction _ f => attrs_root i f
  | _ => 0%N
  end.

Definition root_last (i : nat) (l : laststmt) : N :=
  match l with LContinue => u i 1 | _ => 0%N end.

Ltac kcbn :=
  cbn [map f_kid w_kid sumN sum fold_right app flat_map kids_opt_ty kids_param kids_tentry kids_iseg kids_ebranch
       kids_sbranch kids_opt_block kids_opt_expr kids_expr kids_stmt kids_last kids_ty kids_args kids_fbody optN wopt
       f_iseg f_ebranch f_tentry f_sbranch f_expr f_stmt f_last f_args w_iseg w_ebranch w_tentry w_sbranch w_expr
       w_stmt w_last w_args root_expr root_stmt root_last attrs_root].

(** * F1: decomposition *)
Lemma f_kids_opt_ty i o : sumN (map (f_kid i) (kids_opt_ty o)) = optN (f_ty i) o.
Proof. destruct o; kcbn; lia. Qed.

Lemma f_kids_param i p : sumN (map (f_kid i) (kids_param p)) = f_param i p.
Proof. destruct p. feq. cbn [kids_param]. apply f_kids_opt_ty. Qed.

Lemma f_kids_fbody i f : f_fbody i f = (attrs_root i f + sumN (map (f_kid i) (kids_fbody f)))%N.
Proof.
  destruct f as [ps va vt rt gen attrs body]. feq. cbn [kids_fbody attrs_root].
  rewrite !map_app, !sumN_app, !f_kids_opt_ty, sumN_flat_map.
  rewrite (sumN_map_ext (fun x => sumN (map (f_kid i) (kids_param x))) (f_param i) ps) by (intros; apply f_kids_param).
  cbn [map f_kid sumN fold_right]. lia.
Qed.

Lemma f_kids_tentry i t : sumN (map (f_kid i) (kids_tentry t)) = f_tentry i t.
Proof. destruct t; kcbn; lia. Qed.

Lemma f_kids_tentries i en : sumN (map (f_kid i) (flat_map kids_tentry en)) = sumN (map (f_tentry i) en).
Proof. rewrite sumN_flat_map. apply sumN_map_ext. intros; apply f_kids_tentry. Qed.

Lemma f_kids_map_KE i es : sumN (map (f_kid i) (map KE es)) = sumN (map (f_expr i) es).
Proof. rewrite map_map. reflexivity. Qed.
Lemma f_kids_map_KV i es : sumN (map (f_kid i) (map KV es)) = sumN (map (f_expr i) es).
Proof. rewrite map_map. reflexivity. Qed.
Lemma f_kids_map_KT i ts : sumN (map (f_kid i) (map KT ts)) = sumN (map (f_ty i) ts).
Proof. rewrite map_map. reflexivity. Qed.

Lemma f_kids_args i a : sumN (map (f_kid i) (kids_args a)) = f_args i a.
Proof. destruct a; feq; cbn [kids_args f_args]; [apply f_kids_map_KE|reflexivity|apply f_kids_tentries]. Qed.

Theorem f_expr_kids i e : f_expr i e = (root_expr i e + sumN (map (f_kid i) (kids_expr e)))%N.
Proof.
  destruct e; feq; cbn [f_expr root_expr kids_expr]; try (kcbn; lia).
  - rewrite sumN_flat_map. f_equal. apply sumN_map_ext. intros [b|e] _; kcbn; lia.
  - cbn [map f_kid]. rewrite sumN_cons, f_kids_args. lia.
  - apply f_kids_fbody.
  - rewrite map_app, sumN_app, sumN_flat_map.
    rewrite (sumN_map_ext (fun x => sumN (map (f_kid i) (kids_ebranch x))) (f_ebranch i) branches) by (intros [c r] _; kcbn; lia). kcbn. lia.
  - rewrite f_kids_tentries. lia.
  - cbn [map f_kid]. rewrite sumN_cons, f_kids_map_KT. lia.
Qed.

Theorem f_ty_kids i t : f_ty i t = (u i 7 + sumN (map (f_kid i) (kids_ty t)))%N.
Proof.
  destruct t as [k subs es]. feq. cbn [kids_ty].
  rewrite map_app, sumN_app, f_kids_map_KT, f_kids_map_KE. reflexivity.
Qed.

Lemma f_kids_params i ps : sumN (map (f_kid i) (flat_map kids_param ps)) = sumN (map (f_param i) ps).
Proof. rewrite sumN_flat_map. apply sumN_map_ext. intros; apply f_kids_param. Qed.

Theorem f_stmt_kids i s : f_stmt i s = (root_stmt i s + sumN (map (f_kid i) (kids_stmt s)))%N.
Proof.
  destruct s; feq; cbn [f_stmt root_stmt kids_stmt]; try (kcbn; lia).
  - rewrite map_app, sumN_app, f_kids_map_KV, f_kids_map_KE. lia.
  - apply f_kids_fbody.
  - rewrite !map_app, !sumN_app, f_kids_params, f_kids_map_KE. kcbn. lia.
  - rewrite map_app, sumN_app, sumN_flat_map.
    rewrite (sumN_map_ext (fun x => sumN (map (f_kid i) (kids_sbranch x))) (f_sbranch i) branches) by (intros [c b] _; kcbn; lia).
    destruct els; kcbn; lia.
  - rewrite map_app, sumN_app, f_kids_params, f_kids_map_KE. destruct is_const; lia.
  - apply f_kids_fbody.
  - rewrite !map_app, !sumN_app, f_kids_param. destruct step; kcbn; lia.
  - rewrite map_app, sumN_app, f_kids_opt_ty. kcbn. lia.
  - rewrite (f_kids_fbody i f). lia.
Qed.

Theorem f_last_kids i l : f_last i l = (root_last i l + sumN (map (f_kid i) (kids_last l)))%N.
Proof. destruct l; feq; cbn [f_last root_last kids_last]; try (kcbn; lia). rewrite f_kids_map_KE. lia. Qed.

(** * F3: kids are lighter *)
Lemma w_kids_opt_ty o : sum (map w_kid (kids_opt_ty o)) = wopt w_ty o.
Proof. destruct o; kcbn; lia. Qed.
Lemma w_kids_param p : S (sum (map w_kid (kids_param p))) = w_param p.
Proof. destruct p. weq. cbn [kids_param]. rewrite w_kids_opt_ty. reflexivity. Qed.

Lemma sum_map_le_pointwise {A} (f g : A -> nat) l : (forall x, In x l -> f x <= g x) -> sum (map f l) <= sum (map g l).
Proof.
  induction l as [|x l IH]; intros H; [kcbn; lia|]. cbn [map]. rewrite !sum_cons.
  pose proof (H x (or_introl eq_refl)).
  assert (sum (map f l) <= sum (map g l)) by (apply IH; intros; apply H; right; assumption). lia.
Qed.

Lemma w_kids_params ps : sum (map w_kid (flat_map kids_param ps)) <= sum (map w_param ps).
Proof. rewrite sum_flat_map. apply sum_map_le_pointwise. intros p _. pose proof (w_kids_param p). lia. Qed.

Lemma w_kids_fbody f : sum (map w_kid (kids_fbody f)) < w_fbody f.
Proof.
  destruct f as [ps va vt rt gen attrs body]. weq. cbn [kids_fbody].
  rewrite !map_app, !sum_app, !w_kids_opt_ty. pose proof (w_kids_params ps). cbn [map w_kid sum fold_right]. lia.
Qed.

Lemma w_kids_tentries en : sum (map w_kid (flat_map kids_tentry en)) <= sum (map w_tentry en).
Proof. rewrite sum_flat_map. apply sum_map_le_pointwise. intros [f v|k v|v] _; kcbn; lia. Qed.

Lemma w_kids_map_KE es : sum (map w_kid (map KE es)) = sum (map w_expr es).
Proof. rewrite map_map. reflexivity. Qed.
Lemma w_kids_map_KV es : sum (map w_kid (map KV es)) = sum (map w_expr es).
Proof. rewrite map_map. reflexivity. Qed.
Lemma w_kids_map_KT ts : sum (map w_kid (map KT ts)) = sum (map w_ty ts).
Proof. rewrite map_map. reflexivity. Qed.

Lemma w_kids_args a : sum (map w_kid (kids_args a)) < w_args a.
Proof.
  destruct a; weq; cbn [kids_args w_args]; [rewrite w_kids_map_KE; lia|kcbn; lia|].
  pose proof (w_kids_tentries entries). lia.
Qed.

Lemma w_kids_expr_sum e : sum (map w_kid (kids_expr e)) < w_expr e.
Proof.
  destruct e; weq; cbn [kids_expr w_expr]; try (kcbn; lia).
  - rewrite sum_flat_map.
    assert (sum (map (fun x => sum (map w_kid (kids_iseg x))) segs) <= sum (map w_iseg segs)).
    { apply sum_map_le_pointwise. intros [b|e] _; kcbn; lia. } lia.
  - cbn [map w_kid]. rewrite sum_cons. pose proof (w_kids_args a). lia.
  - pose proof (w_kids_fbody f). lia.
  - rewrite map_app, sum_app, sum_flat_map.
    assert (sum (map (fun x => sum (map w_kid (kids_ebranch x))) branches) <= sum (map w_ebranch branches)).
    { apply sum_map_le_pointwise. intros [c r] _; kcbn; lia. } kcbn. lia.
  - pose proof (w_kids_tentries entries). lia.
  - destruct op; kcbn; lia.
  - cbn [map w_kid]. rewrite sum_cons, w_kids_map_KT. lia.
Qed.

Lemma in_sum_lt l c n : In c l -> sum (map w_kid l) < n -> w_kid c < n.
Proof. intros H L. pose proof (sum_in w_kid l c H). lia. Qed.

Theorem w_kids_expr e c : In c (kids_expr e) -> w_kid c < w_expr e.
Proof. intros H. eapply in_sum_lt; [exact H|apply w_kids_expr_sum]. Qed.

Theorem w_kids_ty t c : In c (kids_ty t) -> w_kid c < w_ty t.
Proof.
  intros H. eapply in_sum_lt; [exact H|]. destruct t as [k subs es]. weq. cbn [kids_ty].
  rewrite map_app, sum_app, w_kids_map_KT, w_kids_map_KE. lia.
Qed.

Theorem w_kids_stmt s c : In c (kids_stmt s) -> w_kid c < w_stmt s.
Proof.
  intros H. eapply in_sum_lt; [exact H|]. clear H.
  destruct s; weq; cbn [kids_stmt w_stmt]; try (kcbn; lia).
  - rewrite map_app, sum_app, w_kids_map_KV, w_kids_map_KE. lia.
  - pose proof (w_kids_fbody f). lia.
  - rewrite !map_app, !sum_app, w_kids_map_KE. pose proof (w_kids_params vars). kcbn. lia.
  - rewrite map_app, sum_app, sum_flat_map.
    assert (sum (map (fun x => sum (map w_kid (kids_sbranch x))) branches) <= sum (map w_sbranch branches)).
    { apply sum_map_le_pointwise. intros [c0 b] _; kcbn; lia. } destruct els; kcbn; lia.
  - rewrite map_app, sum_app, w_kids_map_KE. pose proof (w_kids_params vars). lia.
  - pose proof (w_kids_fbody f). lia.
  - rewrite !map_app, !sum_app. pose proof (w_kids_param var). destruct step; kcbn; lia.
  - rewrite map_app, sum_app, w_kids_opt_ty. kcbn. lia.
  - pose proof (w_kids_fbody f). lia.
Qed.

Theorem w_kids_last l c : In c (kids_last l) -> w_kid c < w_last l.
Proof.
  intros H. eapply in_sum_lt; [exact H|]. destruct l; weq; cbn [kids_last w_last]; try (kcbn; lia).
  rewrite w_kids_map_KE. lia.
Qed.

(** * F2: the children maps act on the kids *)
Record vis := mkVis {
  ve : expr -> expr; vp : expr -> expr; vv : expr -> expr; vc : expr -> expr; vr : expr -> expr;
  vb : block -> block; vt : ty -> ty;
}.

Definition vkid (V : vis) (c : kid) : kid :=
  match c with
  | KE e => KE (ve V e) | KP e => KP (vp V e) | KV e => KV (vv V e) | KC e => KC (vc V e)
  | KR e => KR (vr V e) | KB b => KB (vb V b) | KT t => KT (vt V t)
  end.

Lemma flat_map_map_comm {A B} (g : A -> list B) (h : A -> A) (v : B -> B) l :
  (forall x, g (h x) = map v (g x)) -> flat_map g (map h l) = map v (flat_map g l).
Proof.
  intros H. induction l as [|x l IH]; [reflexivity|]. cbn [map flat_map]. rewrite map_app, H, IH. reflexivity.
Qed.

Section F2.
Variable V : vis.
Let xe := expr_children (ve V) (vp V) (vb V) (vt V).

Lemma kids_opt_ty_map o : kids_opt_ty (option_map (vt V) o) = map (vkid V) (kids_opt_ty o).
Proof. destruct o; reflexivity. Qed.

Lemma kids_param_map p : kids_param (param_children (vt V) p) = map (vkid V) (kids_param p).
Proof. destruct p. cbn [param_children kids_param]. apply kids_opt_ty_map. Qed.

Lemma kids_params_map ps :
  flat_map kids_param (map (param_children (vt V)) ps) = map (vkid V) (flat_map kids_param ps).
Proof. apply flat_map_map_comm. apply kids_param_map. Qed.

Lemma kids_fbody_map f : kids_fbody (fbody_children (vb V) (vt V) f) = map (vkid V) (kids_fbody f).
Proof.
  destruct f as [ps va vt0 rt gen attrs body]. cbn [fbody_children kids_fbody].
  rewrite !map_app, kids_params_map, !kids_opt_ty_map. reflexivity.
Qed.

Lemma kids_tentries_map en :
  flat_map kids_tentry (map (tentry_children (ve V)) en) = map (vkid V) (flat_map kids_tentry en).
Proof. apply flat_map_map_comm. intros [f v|k v|v]; reflexivity. Qed.

Lemma map_KE_map es : map KE (map (ve V) es) = map (vkid V) (map KE es).
Proof. rewrite !map_map. reflexivity. Qed.
Lemma map_KV_map es : map KV (map (vv V) es) = map (vkid V) (map KV es).
Proof. rewrite !map_map. reflexivity. Qed.
Lemma map_KT_map ts : map KT (map (vt V) ts) = map (vkid V) (map KT ts).
Proof. rewrite !map_map. reflexivity. Qed.

Lemma kids_args_map a : kids_args (args_children (ve V) a) = map (vkid V) (kids_args a).
Proof. destruct a; cbn [args_children kids_args]; [apply map_KE_map|reflexivity|apply kids_tentries_map]. Qed.

Theorem kids_expr_map e : kids_expr (xe e) = map (vkid V) (kids_expr e).
Proof.
  unfold xe. destruct e; cbn [expr_children kids_expr]; try reflexivity.
  - apply flat_map_map_comm. intros [b|e]; reflexivity.
  - cbn [map vkid]. rewrite kids_args_map. reflexivity.
  - apply kids_fbody_map.
  - rewrite map_app. f_equal. apply flat_map_map_comm. intros [c r]; reflexivity.
  - apply kids_tentries_map.
  - cbn [map vkid]. rewrite map_KT_map. reflexivity.
Qed.

Theorem root_expr_map i e : root_expr i (xe e) = root_expr i e.
Proof. unfold xe. destruct e; try reflexivity. destruct f; reflexivity. Qed.

Theorem kids_ty_map t : kids_ty (ty_children (ve V) (vt V) t) = map (vkid V) (kids_ty t).
Proof. destruct t as [k subs es]. cbn [ty_children kids_ty]. rewrite map_app, map_KT_map, map_KE_map. reflexivity. Qed.

Let xs := stmt_children (ve V) (vb V) (vt V) (vv V) (vc V) (vr V).

Theorem kids_stmt_map s : kids_stmt (xs s) = map (vkid V) (kids_stmt s).
Proof.
  unfold xs. destruct s; cbn [stmt_children kids_stmt]; try reflexivity.
  - rewrite map_app, map_KV_map, map_KE_map. reflexivity.
  - apply kids_fbody_map.
  - rewrite !map_app, kids_params_map, map_KE_map. reflexivity.
  - rewrite map_app. f_equal; [|destruct els; reflexivity].
    apply flat_map_map_comm. intros [c b]; reflexivity.
  - rewrite map_app, kids_params_map, map_KE_map. reflexivity.
  - apply kids_fbody_map.
  - rewrite !map_app, kids_param_map. destruct step; reflexivity.
  - rewrite map_app, kids_opt_ty_map. reflexivity.
  - apply kids_fbody_map.
Qed.

Theorem root_stmt_map i s : root_stmt i (xs s) = root_stmt i s.
Proof. unfold xs. destruct s; try reflexivity; destruct f; reflexivity. Qed.

Theorem kids_last_map l : kids_last (last_children (ve V) l) = map (vkid V) (kids_last l).
Proof. destruct l; cbn [last_children kids_last]; try reflexivity. apply map_KE_map. Qed.

Theorem root_last_map i l : root_last i (last_children (ve V) l) = root_last i l.
Proof. destruct l; reflexivity. Qed.
End F2.

(** * The census of a node rebuilt from visited kids *)
Lemma sumN_kids_zero i V l :
  (forall c, In c l -> f_kid i (vkid V c) = 0%N) -> sumN (map (f_kid i) (map (vkid V) l)) = 0%N.
Proof. intros H. rewrite map_map. apply sumN_map_zero. exact H. Qed.

Lemma f_expr_children i V e :
  (forall c, In c (kids_expr e) -> f_kid i (vkid V c) = 0%N) ->
  f_expr i (expr_children (ve V) (vp V) (vb V) (vt V) e) = root_expr i e.
Proof. intros H. rewrite f_expr_kids, root_expr_map, kids_expr_map, sumN_kids_zero by exact H. lia. Qed.

Lemma f_ty_children i V t :
  (forall c, In c (kids_ty t) -> f_kid i (vkid V c) = 0%N) ->
  f_ty i (ty_children (ve V) (vt V) t) = u i 7.
Proof. intros H. rewrite f_ty_kids, kids_ty_map, sumN_kids_zero by exact H. lia. Qed.

Lemma f_stmt_children i V s :
  (forall c, In c (kids_stmt s) -> f_kid i (vkid V c) = 0%N) ->
  f_stmt i (stmt_children (ve V) (vb V) (vt V) (vv V) (vc V) (vr V) s) = root_stmt i s.
Proof. intros H. rewrite f_stmt_kids, root_stmt_map, kids_stmt_map, sumN_kids_zero by exact H. lia. Qed.

Lemma f_last_children i V l :
  (forall c, In c (kids_last l) -> f_kid i (vkid V c) = 0%N) ->
  f_last i (last_children (ve V) l) = root_last i l.
Proof. intros H. rewrite f_last_kids, root_last_map, kids_last_map, sumN_kids_zero by exact H. lia. Qed.

(** zero census: root and kids are zero *)
Lemma f_expr_zero_inv i e : f_expr i e = 0%N -> root_expr i e = 0%N /\ forall c, In c (kids_expr e) -> f_kid i c = 0%N.
Proof.
  rewrite f_expr_kids. intros H. split; [lia|]. apply sumN_map_zero_inv. lia.
Qed.
Lemma f_ty_zero_inv i t : f_ty i t = 0%N -> u i 7 = 0%N /\ forall c, In c (kids_ty t) -> f_kid i c = 0%N.
Proof. rewrite f_ty_kids. intros H. split; [lia|]. apply sumN_map_zero_inv. lia. Qed.
Lemma f_stmt_zero_inv i s : f_stmt i s = 0%N -> root_stmt i s = 0%N /\ forall c, In c (kids_stmt s) -> f_kid i c = 0%N.
Proof. rewrite f_stmt_kids. intros H. split; [lia|]. apply sumN_map_zero_inv. lia. Qed.
Lemma f_last_zero_inv i l : f_last i l = 0%N -> root_last i l = 0%N /\ forall c, In c (kids_last l) -> f_kid i c = 0%N.
Proof. rewrite f_last_kids. intros H. split; [lia|]. apply sumN_map_zero_inv. lia. Qed.

(** * F4: children maps that agree on the kids agree on the node *)
Definition kid_agree (V V' : vis) (c : kid) : Prop := vkid V c = vkid V' c.

Lemma map_agree {A} (f g : A -> A) l : (forall x, In x l -> f x = g x) -> map f l = map g l.
Proof. intros H. apply map_ext_in. exact H. Qed.

Section F4.
Variables V V' : vis.

Lemma opt_ty_agree o : (forall c, In c (kids_opt_ty o) -> kid_agree V V' c) -> option_map (vt V) o = option_map (vt V') o.
Proof.
  destruct o as [t|]; [|reflexivity]. intros H. cbn [option_map]. f_equal.
  specialize (H (KT t) (or_introl eq_refl)). unfold kid_agree in H. cbn in H. congruence.
Qed.

Lemma param_agree p : (forall c, In c (kids_param p) -> kid_agree V V' c) -> param_children (vt V) p = param_children (vt V') p.
Proof. destruct p. cbn [kids_param param_children]. intros H. f_equal. apply opt_ty_agree, H. Qed.

Lemma params_agree ps : (forall c, In c (flat_map kids_param ps) -> kid_agree V V' c) ->
  map (param_children (vt V)) ps = map (param_children (vt V')) ps.
Proof.
  intros H. apply map_agree. intros p Hp. apply param_agree. intros c Hc. apply H.
  apply in_flat_map. exists p. split; assumption.
Qed.

Lemma KE_agree e : kid_agree V V' (KE e) -> ve V e = ve V' e.
Proof. unfold kid_agree. cbn. congruence. Qed.
Lemma KP_agree e : kid_agree V V' (KP e) -> vp V e = vp V' e.
Proof. unfold kid_agree. cbn. congruence. Qed.
Lemma KV_agree e : kid_agree V V' (KV e) -> vv V e = vv V' e.
Proof. unfold kid_agree. cbn. congruence. Qed.
Lemma KC_agree e : kid_agree V V' (KC e) -> vc V e = vc V' e.
Proof. unfold kid_agree. cbn. congruence. Qed.
Lemma KR_agree e : kid_agree V V' (KR e) -> vr V e = vr V' e.
Proof. unfold kid_agree. cbn. congruence. Qed.
Lemma KB_agree b : kid_agree V V' (KB b) -> vb V b = vb V' b.
Proof. unfold kid_agree. cbn. congruence. Qed.
Lemma KT_agree t : kid_agree V V' (KT t) -> vt V t = vt V' t.
Proof. unfold kid_agree. cbn. congruence. Qed.

Lemma fbody_agree f : (forall c, In c (kids_fbody f) -> kid_agree V V' c) ->
  fbody_children (vb V) (vt V) f = fbody_children (vb V') (vt V') f.
Proof.
  destruct f as [ps va vt0 rt gen attrs body]. cbn [kids_fbody fbody_children]. intros H.
  f_equal.
  - apply params_agree. intros c Hc. apply H. apply in_or_app. left. exact Hc.
  - apply opt_ty_agree. intros c Hc. apply H. apply in_or_app. right. apply in_or_app. left. exact Hc.
  - apply opt_ty_agree. intros c Hc. apply H. do 2 (apply in_or_app; right). apply in_or_app. left. exact Hc.
  - apply opt_ty_agree. intros c Hc. apply H. do 3 (apply in_or_app; right). apply in_or_app. left. exact Hc.
  - apply KB_agree. apply H. do 4 (apply in_or_app; right). left. reflexivity.
Qed.

Lemma tentry_agree t : (forall c, In c (kids_tentry t) -> kid_agree V V' c) ->
  tentry_children (ve V) t = tentry_children (ve V') t.
Proof.
  destruct t as [f v|k v|v]; cbn [kids_tentry tentry_children]; intros H; f_equal; apply KE_agree, H; cbn; auto.
Qed.

Lemma tentries_agree en : (forall c, In c (flat_map kids_tentry en) -> kid_agree V V' c) ->
  map (tentry_children (ve V)) en = map (tentry_children (ve V')) en.
Proof.
  intros H. apply map_agree. intros t Ht. apply tentry_agree. intros c Hc. apply H.
  apply in_flat_map. exists t. split; assumption.
Qed.

Lemma exprs_agree es : (forall c, In c (map KE es) -> kid_agree V V' c) -> map (ve V) es = map (ve V') es.
Proof. intros H. apply map_agree. intros e He. apply KE_agree, H. apply in_map. exact He. Qed.
Lemma vars_agree es : (forall c, In c (map KV es) -> kid_agree V V' c) -> map (vv V) es = map (vv V') es.
Proof. intros H. apply map_agree. intros e He. apply KV_agree, H. apply in_map. exact He. Qed.
Lemma tys_agree ts : (forall c, In c (map KT ts) -> kid_agree V V' c) -> map (vt V) ts = map (vt V') ts.
Proof. intros H. apply map_agree. intros e He. apply KT_agree, H. apply in_map. exact He. Qed.

Lemma args_agree a : (forall c, In c (kids_args a) -> kid_agree V V' c) ->
  args_children (ve V) a = args_children (ve V') a.
Proof.
  destruct a; cbn [kids_args args_children]; intros H; f_equal; [apply exprs_agree|apply tentries_agree]; exact H.
Qed.

Theorem expr_children_agree e : (forall c, In c (kids_expr e) -> kid_agree V V' c) ->
  expr_children (ve V) (vp V) (vb V) (vt V) e = expr_children (ve V') (vp V') (vb V') (vt V') e.
Proof.
  destruct e; cbn [kids_expr expr_children]; intros H; try reflexivity.
  - f_equal. apply map_agree. intros [b|e] Hs; [reflexivity|]. cbn [iseg_children]. f_equal.
    apply KE_agree, H. apply in_flat_map. exists (ISExpr e). split; [exact Hs|left; reflexivity].
  - f_equal. apply KP_agree, H. left; reflexivity.
  - f_equal; [apply KP_agree|apply KE_agree]; apply H; cbn; auto.
  - f_equal; [apply KP_agree, H; left; reflexivity|]. apply args_agree. intros c Hc. apply H. right. exact Hc.
  - f_equal. apply fbody_agree, H.
  - f_equal.
    + apply map_agree. intros [c r] Hb. cbn [ebranch_children].
      f_equal; apply KE_agree, H; apply in_or_app; left; apply in_flat_map; exists (EBranch c r); cbn; auto.
    + apply KE_agree, H. apply in_or_app. right. left. reflexivity.
  - f_equal. apply KE_agree, H. left; reflexivity.
  - f_equal. apply tentries_agree, H.
  - f_equal. apply KE_agree, H. left; reflexivity.
  - f_equal; apply KE_agree, H; cbn; auto.
  - f_equal; [apply KE_agree|apply KT_agree]; apply H; cbn; auto.
  - f_equal; [apply KP_agree, H; left; reflexivity|]. apply tys_agree. intros c Hc. apply H. right. exact Hc.
Qed.

Theorem ty_children_agree t : (forall c, In c (kids_ty t) -> kid_agree V V' c) ->
  ty_children (ve V) (vt V) t = ty_children (ve V') (vt V') t.
Proof.
  destruct t as [k subs es]. cbn [kids_ty ty_children]. intros H. f_equal.
  - apply tys_agree. intros c Hc. apply H. apply in_or_app. left. exact Hc.
  - apply exprs_agree. intros c Hc. apply H. apply in_or_app. right. exact Hc.
Qed.

Theorem stmt_children_agree s : (forall c, In c (kids_stmt s) -> kid_agree V V' c) ->
  stmt_children (ve V) (vb V) (vt V) (vv V) (vc V) (vr V) s =
  stmt_children (ve V') (vb V') (vt V') (vv V') (vc V') (vr V') s.
Proof.
  destruct s; cbn [kids_stmt stmt_children]; intros H.
  - f_equal; [apply vars_agree|apply exprs_agree]; intros c Hc; apply H; apply in_or_app; auto.
  - f_equal. apply KB_agree, H. left; reflexivity.
  - f_equal. apply KC_agree, H. left; reflexivity.
  - f_equal; [apply KV_agree|apply KE_agree]; apply H; cbn; auto.
  - f_equal. apply fbody_agree, H.
  - f_equal.
    + apply params_agree. intros c Hc. apply H. apply in_or_app. left. exact Hc.
    + apply exprs_agree. intros c Hc. apply H. apply in_or_app. right. apply in_or_app. left. exact Hc.
    + apply KB_agree, H. do 2 (apply in_or_app; right). left. reflexivity.
  - f_equal.
    + apply map_agree. intros [c b] Hb. cbn [sbranch_children].
      f_equal; [apply KE_agree|apply KB_agree]; apply H; apply in_or_app; left; apply in_flat_map;
        exists (SBranch c b); cbn; auto.
    + destruct els as [b|]; [|reflexivity]. cbn [option_map]. f_equal. apply KB_agree, H.
      apply in_or_app. right. left. reflexivity.
  - f_equal.
    + apply params_agree. intros c Hc. apply H. apply in_or_app. left. exact Hc.
    + apply exprs_agree. intros c Hc. apply H. apply in_or_app. right. exact Hc.
  - f_equal. apply fbody_agree, H.
  - f_equal.
    + apply param_agree. intros c Hc. apply H. apply in_or_app. left. exact Hc.
    + apply KE_agree, H. apply in_or_app. right. left. reflexivity.
    + apply KE_agree, H. apply in_or_app. right. right. left. reflexivity.
    + destruct step as [e|]; [|reflexivity]. cbn [option_map]. f_equal. apply KE_agree, H.
      apply in_or_app. right. cbn. auto.
    + apply KB_agree, H. apply in_or_app. right. cbn [app]. right. right. apply in_or_app. right. left. reflexivity.
  - f_equal; [apply KB_agree|apply KR_agree]; apply H; cbn; auto.
  - f_equal; [apply KE_agree|apply KB_agree]; apply H; cbn; auto.
  - f_equal.
    + apply opt_ty_agree. intros c Hc. apply H. apply in_or_app. left. exact Hc.
    + apply KT_agree, H. apply in_or_app. right. left. reflexivity.
  - f_equal. apply fbody_agree, H.
Qed.

Theorem last_children_agree l : (forall c, In c (kids_last l) -> kid_agree V V' c) ->
  last_children (ve V) l = last_children (ve V') l.
Proof. destruct l; cbn [kids_last last_children]; intros H; try reflexivity. f_equal. apply exprs_agree, H. Qed.
End F4.

(** * Weight of a node rebuilt from visited kids *)
Section Weight.
Variable V : vis.
Hypothesis He : forall e, w_expr (ve V e) <= w_expr e.
Hypothesis Hp : forall e, w_expr (vp V e) <= w_expr e.
Hypothesis Hv : forall e, w_expr (vv V e) <= w_expr e.
Hypothesis Hc : forall e, w_expr (vc V e) <= w_expr e.
Hypothesis Hr : forall e, w_expr (vr V e) <= w_expr e.
Hypothesis Hb : forall b, w_block (vb V b) <= w_block b.
Hypothesis Ht : forall t, w_ty (vt V t) <= w_ty t.

Lemma wopt_map_ty o : wopt w_ty (option_map (vt V) o) <= wopt w_ty o.
Proof. destruct o; cbn; [apply Ht|lia]. Qed.

Lemma w_param_children p : w_param (param_children (vt V) p) <= w_param p.
Proof. destruct p. cbn [param_children]. weq. pose proof (wopt_map_ty t). lia. Qed.

Lemma w_params_children ps : sum (map w_param (map (param_children (vt V)) ps)) <= sum (map w_param ps).
Proof. apply sum_map_le. intros; apply w_param_children. Qed.

Lemma w_fbody_children f : w_fbody (fbody_children (vb V) (vt V) f) <= w_fbody f.
Proof.
  destruct f as [ps va vt0 rt gen attrs body]. cbn [fbody_children]. weq.
  pose proof (w_params_children ps). pose proof (wopt_map_ty vt0). pose proof (wopt_map_ty rt).
  pose proof (wopt_map_ty gen). pose proof (Hb body). lia.
Qed.

Lemma w_tentry_children t : w_tentry (tentry_children (ve V) t) <= w_tentry t.
Proof. destruct t as [f v|k v|v]; cbn [tentry_children w_tentry]; try pose proof (He k); pose proof (He v); lia. Qed.

Lemma w_args_children a : w_args (args_children (ve V) a) <= w_args a.
Proof.
  destruct a; cbn [args_children]; weq; cbn [w_args]; [|lia|].
  - assert (sum (map w_expr (map (ve V) es)) <= sum (map w_expr es)) by (apply sum_map_le; intros; apply He). lia.
  - assert (sum (map w_tentry (map (tentry_children (ve V)) entries)) <= sum (map w_tentry entries))
      by (apply sum_map_le; intros; apply w_tentry_children). lia.
Qed.

Theorem w_expr_children e : w_expr (expr_children (ve V) (vp V) (vb V) (vt V) e) <= w_expr e.
Proof.
  destruct e; cbn [expr_children]; weq; cbn [w_expr]; try lia.
  - assert (sum (map w_iseg (map (iseg_children (ve V)) segs)) <= sum (map w_iseg segs)).
    { apply sum_map_le. intros [b|e] _; cbn [iseg_children w_iseg]; [lia|]. pose proof (He e). lia. } lia.
  - pose proof (Hp e). lia.
  - pose proof (Hp e1). pose proof (He e2). lia.
  - pose proof (Hp e). pose proof (w_args_children a). lia.
  - pose proof (w_fbody_children f). lia.
  - assert (sum (map w_ebranch (map (ebranch_children (ve V)) branches)) <= sum (map w_ebranch branches)).
    { apply sum_map_le. intros [c r] _; cbn [ebranch_children w_ebranch]. pose proof (He c). pose proof (He r). lia. }
    pose proof (He e). lia.
  - pose proof (He e). lia.
  - assert (sum (map w_tentry (map (tentry_children (ve V)) entries)) <= sum (map w_tentry entries))
      by (apply sum_map_le; intros; apply w_tentry_children). lia.
  - pose proof (He e). lia.
  - pose proof (He e1). pose proof (He e2). destruct op; lia.
  - pose proof (He e). pose proof (Ht t). lia.
  - pose proof (Hp e).
    assert (sum (map w_ty (map (vt V) tys)) <= sum (map w_ty tys)) by (apply sum_map_le; intros; apply Ht). lia.
Qed.

Theorem w_ty_children t : w_ty (ty_children (ve V) (vt V) t) <= w_ty t.
Proof.
  destruct t as [k subs es]. cbn [ty_children]. weq.
  assert (sum (map w_ty (map (vt V) subs)) <= sum (map w_ty subs)) by (apply sum_map_le; intros; apply Ht).
  assert (sum (map w_expr (map (ve V) es)) <= sum (map w_expr es)) by (apply sum_map_le; intros; apply He). lia.
Qed.

Theorem w_stmt_children s :
  w_stmt (stmt_children (ve V) (vb V) (vt V) (vv V) (vc V) (vr V) s) <= w_stmt s.
Proof.
  destruct s; cbn [stmt_children]; weq; cbn [w_stmt].
  - assert (sum (map w_expr (map (vv V) vars)) <= sum (map w_expr vars)) by (apply sum_map_le; intros; apply Hv).
    assert (sum (map w_expr (map (ve V) vals)) <= sum (map w_expr vals)) by (apply sum_map_le; intros; apply He). lia.
  - pose proof (Hb b). lia.
  - pose proof (Hc call). lia.
  - pose proof (Hv var). pose proof (He v). lia.
  - pose proof (w_fbody_children f). lia.
  - pose proof (w_params_children vars).
    assert (sum (map w_expr (map (ve V) es)) <= sum (map w_expr es)) by (apply sum_map_le; intros; apply He).
    pose proof (Hb b). lia.
  - assert (sum (map w_sbranch (map (sbranch_children (ve V) (vb V)) branches)) <= sum (map w_sbranch branches)).
    { apply sum_map_le. intros [c b] _; cbn [sbranch_children w_sbranch]. pose proof (He c). pose proof (Hb b). lia. }
    assert (wopt w_block (option_map (vb V) els) <= wopt w_block els) by (destruct els; cbn; [apply Hb|lia]). lia.
  - pose proof (w_params_children vars).
    assert (sum (map w_expr (map (ve V) vals)) <= sum (map w_expr vals)) by (apply sum_map_le; intros; apply He). lia.
  - pose proof (w_fbody_children f). lia.
  - pose proof (w_param_children var). pose proof (He start). pose proof (He stop). pose proof (Hb b).
    assert (wopt w_expr (option_map (ve V) step) <= wopt w_expr step) by (destruct step; cbn; [apply He|lia]). lia.
  - pose proof (Hb b). pose proof (Hr cond). lia.
  - pose proof (He cond). pose proof (Hb b). lia.
  - pose proof (wopt_map_ty generics). pose proof (Ht t). lia.
  - pose proof (w_fbody_children f). lia.
Qed.

Theorem w_last_children l : w_last (last_children (ve V) l) <= w_last l.
Proof.
  destruct l; cbn [last_children]; weq; cbn [w_last]; try lia.
  assert (sum (map w_expr (map (ve V) es)) <= sum (map w_expr es)) by (apply sum_map_le; intros; apply He). lia.
Qed.
End Weight.
