(** The written text of a number node keeps the node's value: the theorems behind the per-run
    oracle of [Model/NumberValue.v] ([value_kept]) for the arms of the writer modelled in
    [Model/NumberWrite.v]. *)
From Coq Require Import ZArith NArith List Bool Lia Zpower.
From Coq Require Import Floats.SpecFloat.
From DL Require Import Lib.Bytes Lib.F64 Lua.Syntax Model.NumberLit Model.NumberWrite Model.NumberValue.
From DL Require Import Proof.EvaluatorF64 Proof.SerializerF64 Proof.NumberWrite.
Import ListNotations.
Open Scope N_scope.

(** * hexadecimal and binary *)

Lemma text_value_0 r : text_value (48 :: r) = option_map lit_value (from_str (48 :: r)).
Proof. reflexivity. Qed.

Theorem write_hex_value_kept : forall v u e, v < 2 ^ 64 ->
  (forall ex up, e = Some (ex, up) -> ex < 2 ^ 32) ->
  value_kept (NHex v u e) (write_hex v u e) = true.
Proof.
  intros v u e Hv He. unfold value_kept.
  assert (E : text_value (write_hex v u e) = option_map lit_value (from_str (write_hex v u e)))
    by (unfold write_hex; apply text_value_0).
  rewrite E, write_hex_roundtrip by assumption. cbn [option_map]. apply same_f64_refl.
Qed.

Theorem write_bin_value_kept : forall v u, v < 2 ^ 64 ->
  value_kept (NBin v u) (write_bin v u) = true.
Proof.
  intros v u Hv. unfold value_kept.
  assert (E : text_value (write_bin v u) = option_map lit_value (from_str (write_bin v u)))
    by (unfold write_bin; apply text_value_0).
  rewrite E, write_bin_roundtrip by assumption. cbn [option_map]. apply same_f64_refl.
Qed.

(** * the non-finite values *)

Theorem write_nonfinite_value_kept : forall bits ex t,
  (of_bits bits = S754_nan \/ exists s, of_bits bits = S754_infinity s) ->
  write_number_model (NDec bits ex) = Some t ->
  value_kept (NDec bits ex) t = true.
Proof.
  intros bits ex t H Hw. unfold write_number_model in Hw. unfold value_kept. cbn [lit_value].
  destruct H as [H|[s H]]; rewrite H in *.
  - injection Hw as <-. reflexivity.
  - injection Hw as <-. destruct s; reflexivity.
Qed.

(** * integer-valued decimal nodes *)

Lemma from_str_write_dec_int neg m :
  from_str (write_dec_int neg m) = Some (NDec (to_bits (of_decimal_c neg (Z.of_N m) 0)) None).
Proof.
  assert (Hval : forall c, In c (write_dec_int neg m) -> c = 45 \/ (48 <= c /\ c <= 57)).
  { unfold write_dec_int. intros c Hin. apply in_app_or in Hin. destruct Hin as [Hin|Hin].
    - destruct neg; [destruct Hin as [<-|[]]; left; reflexivity|destruct Hin].
    - right. apply fmt_radix_dec_digits with (v := m). exact Hin. }
  assert (Hnot : forall c, ~ (c = 45 \/ (48 <= c /\ c <= 57)) -> ~ In c (write_dec_int neg m)).
  { intros c Hc Hin. apply Hc. apply Hval. exact Hin. }
  rewrite from_str_decimal by exact Hval. unfold decimal_branch.
  rewrite prefix_b_46_notin by (apply Hnot; lia).
  rewrite (index_of_notin 101) by (apply Hnot; lia).
  rewrite (index_of_notin 69) by (apply Hnot; lia).
  cbv beta iota zeta.
  rewrite filter_underscore_id by (apply Hnot; lia).
  rewrite parse_f64_dec_int. reflexivity.
Qed.

Lemma text_value_dec_head (c : N) (r : bytes) (neg : bool) : 48 <= c /\ c <= 57 ->
  text_value ((if neg then [45] else []) ++ c :: r) =
  option_map lit_value (from_str ((if neg then [45] else []) ++ c :: r)).
Proof.
  intros Hc.
  assert (Hc' : c = 48 \/ c = 49 \/ c = 50 \/ c = 51 \/ c = 52 \/ c = 53 \/ c = 54 \/ c = 55 \/
                c = 56 \/ c = 57) by lia.
  destruct neg; repeat (destruct Hc' as [->|Hc']; [reflexivity|]); subst c; reflexivity.
Qed.

Lemma text_value_write_dec_int neg m :
  text_value (write_dec_int neg m) = option_map lit_value (from_str (write_dec_int neg m)).
Proof.
  unfold write_dec_int.
  pose proof (fmt_radix_dec_digits m) as HD. pose proof (fmt_radix_nonempty 10 m) as Hne.
  destruct (fmt_radix 10 m) as [|c r]; [congruence|].
  apply text_value_dec_head. apply HD. left. reflexivity.
Qed.

(** the value read back from the text, whatever [m] *)
Lemma text_value_dec_int neg m :
  text_value (write_dec_int neg m) =
  Some (of_bits (to_bits (if neg then fneg (of_N m) else of_N m))).
Proof.
  rewrite text_value_write_dec_int, from_str_write_dec_int. cbn [option_map lit_value].
  rewrite of_decimal_c_int. reflexivity.
Qed.

Lemma sg_of_N_pos (neg : bool) p : (Z.pos p < 9007199254740992)%Z ->
  (if neg then fneg (of_N (N.pos p)) else of_N (N.pos p)) =
  S754_finite neg (fst (small_repr p)) (snd (small_repr p)).
Proof.
  intros H. unfold of_N. cbn [Z.of_N]. rewrite of_Z_pos_small by assumption.
  destruct neg; reflexivity.
Qed.

Lemma write_model_small (neg : bool) p : (Z.pos p < 9007199254740992)%Z ->
  write_number_model
    (NDec (to_bits (S754_finite neg (fst (small_repr p)) (snd (small_repr p)))) None) =
  Some (write_dec_int neg (N.pos p)).
Proof.
  intros Hp. unfold write_number_model.
  rewrite of_to_bits
    by (unfold valid; cbn [valid_binary]; apply small_repr_bounded; assumption).
  pose proof (digits_le_53 p Hp) as Hd.
  unfold small_repr.
  destruct (53 - Z.pos (digits2_pos p))%Z as [|k|k] eqn:E; cbn [fst snd]; [| |lia].
  - cbv beta iota zeta. change (0 <=? 0)%Z with true. cbv iota.
    rewrite Z.pow_0_r, Z.mul_1_r.
    destruct (Z.ltb_spec (Z.pos p) 9007199254740992%Z); [reflexivity|lia].
  - cbv beta iota zeta. change (0 <=? - Z.pos k)%Z with false. cbv iota.
    change (- - Z.pos k)%Z with (Z.pos k).
    rewrite shift_pos_correct. change (Zpower_pos 2 k) with (2 ^ Z.pos k)%Z.
    assert (Hnz : (2 ^ Z.pos k <> 0)%Z) by (apply Z.pow_nonzero; lia).
    rewrite (Z.mul_comm (2 ^ Z.pos k)), Z.mod_mul, Z.div_mul by assumption.
    reflexivity.
Qed.

Theorem write_dec_int_value_kept : forall (neg : bool) m, m < 2 ^ 53 ->
  write_number_model (NDec (to_bits (if neg then fneg (of_N m) else of_N m)) None)
    = Some (write_dec_int neg m) /\
  value_kept (NDec (to_bits (if neg then fneg (of_N m) else of_N m)) None) (write_dec_int neg m) = true.
Proof.
  intros neg m Hm. split.
  - destruct m as [|p].
    + destruct neg; reflexivity.
    + change (2 ^ 53) with 9007199254740992 in Hm.
      rewrite sg_of_N_pos by lia. apply write_model_small. lia.
  - unfold value_kept. rewrite text_value_dec_int. cbn [lit_value]. apply same_f64_refl.
Qed.

Print Assumptions write_hex_value_kept.
Print Assumptions write_bin_value_kept.
Print Assumptions write_nonfinite_value_kept.
Print Assumptions write_dec_int_value_kept.
