(** C17, statement position: what [RemoveFunctionCallProcessor::process_statement] leaves in place
    of a removed call statement.

    [assert(a1, ..., an)] / [debug.profilebegin(a1, ..., an)] as a STATEMENT becomes
    [expressions_as_statement (preserve_args (ATuple [a1..an]))]: the arguments with side effects
    are kept in order - as call statements when the argument is a call under parentheses / type
    casts ([inner_expr]), otherwise gathered into [local _ = v1, v2, ...].

    - [calls_as_statement_sound]: when every kept argument is a call, the statement evaluates the
      kept arguments once, in order, and ends in EXACTLY the store and environment they leave;
    - [removed_call_stmt_sound]: hence it does what the original statement does with the callee
      bound to a function that returns nothing / its arguments and leaves the store alone;
    - [assert_removal_sound], [profile_removal_sound]: the same on the hook [rc_stmt] of the model;
    - [local_underscore_sound]: a kept argument that is NOT a call is evaluated once, but the store
      gets one more cell and the environment a binding of [_];
      [local_underscore_shadows_refuted]: which is observable when [_] is a variable of the
      program (recorded finding). *)
From Coq Require Import ZArith NArith List Bool String Lia.
From DL Require Import Lib.Bytes Lib.F64 Lua.Syntax Lua.Sem Lua.EvalSpec.
From DL Require Import Model.Evaluator Model.Removal.
From DL Require Import Proof.SemFacts Proof.EvaluatorStore Proof.DefaultRulesSem Proof.RefactorSem.
From DL Require Import Proof.RemovalSoundValue.
Import ListNotations.
Open Scope N_scope.

Definition is_call (e : expr) : bool := match e with ECall _ _ _ => true | _ => false end.

(** * the shape of [expressions_as_statement] *)

Lemma eas_go_calls es : forall acc,
  Forall (fun e => is_call (inner_expr e) = true) es ->
  eas_go acc es = rev acc ++ map (fun e => SCall (inner_expr e)) es.
Proof.
  induction es as [|e es IH]; intros acc Hf.
  - cbn [eas_go map]. rewrite app_nil_r. reflexivity.
  - inversion Hf as [|? ? He Hes]; subst. cbn [eas_go map].
    destruct (inner_expr e) eqn:E; try discriminate He.
    rewrite (IH _ Hes). cbn [rev]. rewrite <- app_assoc. reflexivity.
Qed.

Lemma eas_single_noncall e :
  is_call (inner_expr e) = false ->
  expressions_as_statement [e] = SLocal false [Param nm_underscore None] [inner_expr e].
Proof.
  intros H. unfold expressions_as_statement. cbn [eas_go].
  destruct (inner_expr e); try discriminate H; reflexivity.
Qed.

Section Stmt.
Variable d : dialect.
Variable rho : env.
Variable va : list value.

(** * (1) parentheses and type casts only truncate *)
Lemma inner_expr_eval_first e : forall k s vs s1,
  eval d k rho va e s = Ok vs s1 ->
  exists k' vs', eval d k' rho va (inner_expr e) s = Ok vs' s1 /\ first vs' = first vs.
Proof.
  induction e as [ | | | nb | str | segs | | x | p IHp f | p IHp ky IHk | p IHp m a | f | bs els IHels
                 | e' IH | ens | op e' IH | op l IHl r IHr | e' IH t | p IHp tys ];
    intros k s vs s1 H; cbn [inner_expr]; try (exists k, vs; split; [exact H|reflexivity]).
  - destruct k as [|k]; [discriminate|]. rewrite eval_S_paren in H.
    apply bind_ok in H as (v & s2 & H1 & Hret). apply ret_ok in Hret as [-> ->].
    destruct k as [|k]; [discriminate|]. rewrite eval1_S in H1.
    apply bind_ok in H1 as (vs1 & s3 & H1 & Hret). apply ret_ok in Hret as [-> ->].
    destruct (IH _ _ _ _ H1) as (k' & vs' & He & Hv). exists k', vs'. split; [exact He|exact Hv].
  - destruct k as [|k]; [discriminate|]. rewrite eval_S_typecast in H.
    apply bind_ok in H as (v & s2 & H1 & Hret). apply ret_ok in Hret as [-> ->].
    destruct k as [|k]; [discriminate|]. rewrite eval1_S in H1.
    apply bind_ok in H1 as (vs1 & s3 & H1 & Hret). apply ret_ok in Hret as [-> ->].
    destruct (IH _ _ _ _ H1) as (k' & vs' & He & Hv). exists k', vs'. split; [exact He|exact Hv].
Qed.

Lemma inner_expr_eval e k s vs s1 :
  eval d k rho va e s = Ok vs s1 -> exists k' vs', eval d k' rho va (inner_expr e) s = Ok vs' s1.
Proof.
  intros H. destruct (inner_expr_eval_first _ _ _ _ _ H) as (k' & vs' & He & _). eauto.
Qed.

Lemma evals_in_order_inner es s s' :
  evals_in_order d rho va es s s' -> evals_in_order d rho va (map inner_expr es) s s'.
Proof.
  induction 1 as [s|e es s k vs s1 s' He Hes IH]; cbn [map].
  - constructor.
  - destruct (inner_expr_eval _ _ _ _ _ He) as (k' & vs' & He').
    econstructor; [exact He'|exact IH].
Qed.

(** * (2) a sequence of call statements *)
Lemma call_stmt_exec k e s vs s1 :
  eval d k rho va e s = Ok vs s1 ->
  forall j, (k + 1 <= j)%nat -> exec_stmt d j rho va (SCall e) s = Ok (rho, SigNone) s1.
Proof.
  intros H j L. destruct j as [|j]; [lia|]. rewrite exec_stmt_S_call.
  eapply bind_ok_intro; [eapply eval_up; [exact H|lia]|reflexivity].
Qed.

Lemma call_stmts_exec es s s' :
  evals_in_order d rho va es s s' ->
  exists m, forall j, (m <= j)%nat ->
    exec_stmts d j rho va (map SCall es) None s = Ok SigNone s'.
Proof.
  induction 1 as [s|e es s k vs s1 s' He Hes (m & IH)]; cbn [map].
  - exists 1%nat. intros j L. destruct j as [|j]; [lia|]. rewrite exec_stmts_S_nil. reflexivity.
  - exists (k + m + 2)%nat. intros j L. destruct j as [|j]; [lia|]. rewrite exec_stmts_S_cons.
    eapply bind_ok_intro; [apply (call_stmt_exec _ _ _ _ _ He); lia|].
    cbn [stmts_cont]. apply IH. lia.
Qed.

Theorem calls_as_statement_sound es s s' :
  evals_in_order d rho va es s s' ->
  Forall (fun e => is_call (inner_expr e) = true) es ->
  exists m, forall j, (m <= j)%nat ->
    exec_stmt d j rho va (expressions_as_statement es) s = Ok (rho, SigNone) s'.
Proof.
  intros Hio Hf. apply evals_in_order_inner in Hio.
  unfold expressions_as_statement. rewrite (eas_go_calls _ _ Hf). cbn [rev app].
  replace (map (fun e => SCall (inner_expr e)) es) with (map SCall (map inner_expr es))
    by (rewrite map_map; reflexivity).
  destruct (call_stmts_exec _ _ _ Hio) as (m & Hm).
  destruct es as [|e1 [|e2 rest]]; cbn [map] in *.
  - (* [do end] *)
    exists (m + 2)%nat. intros j L. destruct j as [|[|j]]; try lia.
    rewrite exec_stmt_S_do. eapply bind_ok_intro; [rewrite exec_block_S; apply Hm; lia|reflexivity].
  - (* the bare call *)
    inversion Hio as [|? ? ? k vs s1 ? He Hnil]; subst. inversion Hnil; subst.
    exists (k + 1)%nat. intros j L. eapply call_stmt_exec; [exact He|exact L].
  - (* [do c1 c2 ... end] *)
    exists (m + 2)%nat. intros j L. destruct j as [|[|j]]; try lia.
    rewrite exec_stmt_S_do. eapply bind_ok_intro; [rewrite exec_block_S; apply Hm; lia|reflexivity].
Qed.

(** * (3) the removed call statement *)

(** what the proof needs of the callee: at the store the arguments leave, calling it returns
    nothing / something and changes nothing ([noop_callee] and [identity_callee] of
    Proof/RemovalSoundValue.v without the clause on the returned values). *)
Definition inert_callee_at (p : expr) (es : list expr) (s : store) : Prop :=
  forall k f s0, eval1 d k rho va p s = Ok f s0 ->
    s0 = s /\
    forall k2 args s1, eval_list d k2 rho va es s = Ok args s1 ->
    forall j r s2, call d j f args s1 = Ok r s2 -> s2 = s1.

Lemma noop_inert p es s : noop_callee d rho va p es s -> inert_callee_at p es s.
Proof.
  intros Hn k f s0 Hp. destruct (Hn _ _ _ Hp) as [-> Hc]. split; [reflexivity|].
  intros k2 args s1 Ha j r s2 H. destruct (Hc _ _ _ Ha _ _ _ H) as [_ ->]. reflexivity.
Qed.

Lemma identity_inert p es s : identity_callee d rho va p es s -> inert_callee_at p es s.
Proof.
  intros Hn k f s0 Hp. destruct (Hn _ _ _ Hp) as [-> Hc]. split; [reflexivity|].
  intros k2 args s1 Ha j r s2 H. destruct (Hc _ _ _ Ha _ _ _ H) as [_ ->]. reflexivity.
Qed.

Theorem removed_call_stmt_sound_at n p es s rho' sg s' :
  inert_callee_at p es s ->
  Forall (kept_or_quiet d rho va) es ->
  Forall (fun e => is_call (inner_expr e) = true) (filter hse es) ->
  exec_stmt d n rho va (SCall (ECall p None (ATuple es))) s = Ok (rho', sg) s' ->
  exists m, forall j, (m <= j)%nat ->
    exec_stmt d j rho va (expressions_as_statement (preserve_args (ATuple es))) s = Ok (rho', sg) s'.
Proof.
  intros Hc Hf Hcalls H. destruct n as [|n]; [discriminate|]. rewrite exec_stmt_S_call in H.
  apply bind_ok in H as (r & sr & H & Hret). apply ret_ok in Hret as [E ->].
  inversion E; subst rho' sg; clear E.
  apply call_inv in H as (n1 & f & s0 & args & s1 & -> & Hp & Ha & Hcall).
  destruct (Hc _ _ _ Hp) as [-> Hinert].
  destruct n1 as [|n1]; [discriminate|]. rewrite eval_args_S_tuple in Ha.
  rewrite (Hinert _ _ _ Ha _ _ _ Hcall).
  pose proof (eval_list_in_order _ _ _ _ _ _ _ _ Hf Ha) as Hio.
  cbn [preserve_args]. apply calls_as_statement_sound; assumption.
Qed.

Theorem removed_call_stmt_sound n p es s rho' sg s' :
  noop_callee d rho va p es s \/ identity_callee d rho va p es s ->
  Forall (kept_or_quiet d rho va) es ->
  Forall (fun e => is_call (inner_expr e) = true) (filter hse es) ->
  exec_stmt d n rho va (SCall (ECall p None (ATuple es))) s = Ok (rho', sg) s' ->
  exists m, forall j, (m <= j)%nat ->
    exec_stmt d j rho va (expressions_as_statement (preserve_args (ATuple es))) s = Ok (rho', sg) s'.
Proof.
  intros Hc. apply removed_call_stmt_sound_at.
  destruct Hc as [Hc|Hc]; [apply noop_inert|apply identity_inert]; exact Hc.
Qed.

(** * (4) on the hook of the model *)
Lemma rc_stmt_assert sc es :
  in_scope nm_assert sc = false ->
  rc_stmt assert_matcher true sc (SCall (ECall (EIdent nm_assert) None (ATuple es))) =
  expressions_as_statement (preserve_args (ATuple es)).
Proof.
  intros Hsc. cbn [rc_stmt assert_matcher m_matches]. unfold assert_matches. rewrite Hsc.
  reflexivity.
Qed.

Lemma rc_stmt_profile sc f es :
  in_scope nm_debug sc = false -> f = nm_profilebegin \/ f = nm_profileend ->
  rc_stmt profile_matcher true sc (SCall (ECall (EField (EIdent nm_debug) f) None (ATuple es))) =
  expressions_as_statement (preserve_args (ATuple es)).
Proof.
  intros Hsc Hf. cbn [rc_stmt profile_matcher m_matches]. unfold profile_matches. rewrite Hsc.
  destruct Hf as [-> | ->]; reflexivity.
Qed.

Theorem assert_removal_sound n sc es s rho' sg s' :
  in_scope nm_assert sc = false ->
  noop_callee d rho va (EIdent nm_assert) es s \/ identity_callee d rho va (EIdent nm_assert) es s ->
  Forall (kept_or_quiet d rho va) es ->
  Forall (fun e => is_call (inner_expr e) = true) (filter hse es) ->
  exec_stmt d n rho va (SCall (ECall (EIdent nm_assert) None (ATuple es))) s = Ok (rho', sg) s' ->
  exists m, forall j, (m <= j)%nat ->
    exec_stmt d j rho va
      (rc_stmt assert_matcher true sc (SCall (ECall (EIdent nm_assert) None (ATuple es)))) s
    = Ok (rho', sg) s'.
Proof.
  intros Hsc Hc Hf Hcalls H. rewrite (rc_stmt_assert _ _ Hsc).
  eapply removed_call_stmt_sound; eassumption.
Qed.

Theorem profile_removal_sound n sc f es s rho' sg s' :
  in_scope nm_debug sc = false -> f = nm_profilebegin \/ f = nm_profileend ->
  noop_callee d rho va (EField (EIdent nm_debug) f) es s
  \/ identity_callee d rho va (EField (EIdent nm_debug) f) es s ->
  Forall (kept_or_quiet d rho va) es ->
  Forall (fun e => is_call (inner_expr e) = true) (filter hse es) ->
  exec_stmt d n rho va (SCall (ECall (EField (EIdent nm_debug) f) None (ATuple es))) s
  = Ok (rho', sg) s' ->
  exists m, forall j, (m <= j)%nat ->
    exec_stmt d j rho va
      (rc_stmt profile_matcher true sc (SCall (ECall (EField (EIdent nm_debug) f) None (ATuple es)))) s
    = Ok (rho', sg) s'.
Proof.
  intros Hsc Hfn Hc Hf Hcalls H. rewrite (rc_stmt_profile _ _ _ Hsc Hfn).
  eapply removed_call_stmt_sound; eassumption.
Qed.

(** * (5) one kept argument that is not a call: [local _ = v] *)
Lemma arg0_first vs : arg vs 0 = first vs.
Proof. destruct vs; reflexivity. Qed.

Theorem local_underscore_sound k e s vs s1 :
  eval d k rho va e s = Ok vs s1 -> is_call (inner_expr e) = false ->
  exists k' vs',
    eval d k' rho va (inner_expr e) s = Ok vs' s1 /\ first vs' = first vs /\
    forall j, (k' + 2 <= j)%nat ->
      exec_stmt d j rho va (expressions_as_statement [e]) s =
      Ok ((nm_underscore, N.of_nat (List.length (cells s1))) :: rho, SigNone)
         (mkStore (cells s1 ++ [first vs']) (tables s1) (closures s1) (trace s1) (oracle s1) (fresh s1)).
Proof.
  intros H Hnc. destruct (inner_expr_eval_first _ _ _ _ _ H) as (k' & vs' & He & Hv).
  exists k', vs'. split; [exact He|]. split; [exact Hv|].
  intros j L. rewrite (eas_single_noncall _ Hnc). destruct j as [|[|j]]; try lia.
  rewrite exec_stmt_S_local. eapply bind_ok_intro.
  { rewrite eval_list_S_one. eapply eval_up; [exact He|lia]. }
  rewrite <- arg0_first. reflexivity.
Qed.

End Stmt.

(** * (5') the binding of [_] is observable *)
Definition ext_call_b : expr := ECall (EIdent (of_string "ext_b")) None (ATuple []).
Definition st_us : store :=
  mkStore [VClosure 0; VNum (of_Z 5)] initial_tables [mkClosure noop_body [] false] [] [] 0.
Definition rho_us : env := [(nm_underscore, 1); (of_string "f", 0)].
Definition ret_us : option laststmt := Some (LReturn [EIdent nm_underscore]).
Definition not_ext : expr := EUnary UNot ext_call.


(** the reference: [f(not ext_a())] with [f] a no-op, then [return _], where [_] is a local of
    the program holding 5; the output: [local _ = not ext_a()], then [return _].  Same events,
    the reference leaves the cells alone, and the returned values differ. *)
Theorem local_underscore_shadows_refuted :
  exists dl rho p es last s r1 s1 r2 s2,
    filter hse es = es /\
    exec_stmts dl 20 rho [] [SCall (ECall p None (ATuple es))] last s = Ok r1 s1 /\
    exec_stmts dl 20 rho [] [expressions_as_statement (preserve_args (ATuple es))] last s = Ok r2 s2 /\
    cells s1 = cells s /\ trace s1 = trace s2 /\
    r1 = SigReturn [VNum (of_Z 5)] /\ r2 = SigReturn [VBool true].
Proof.
  exists L51, rho_us, (EIdent (of_string "f")), [not_ext], ret_us, st_us.
  eexists. eexists. eexists. eexists.
  split; [reflexivity|].
  split; [vm_compute; reflexivity|].
  split; [vm_compute; reflexivity|].
  repeat split; vm_compute; reflexivity.
Qed.

(** the same on a whole chunk through the rule: [local _ = 5; debug.profilebegin(not ext_a());
    return _] returns 5 whatever [debug.profilebegin] does, the output of
    remove_debug_profiling returns [true] *)
Definition prog_us : block :=
  Block [SLocal false [Param nm_underscore None] [ENumber (NDec (to_bits (of_Z 5)) None)];
         SCall (ECall (EField (EIdent nm_debug) nm_profilebegin) None (ATuple [not_ext]))] ret_us.

Theorem local_underscore_shadows_rule_refuted :
  exists b tr1 v1 tr2 v2,
    run_chunk L51 30 [] b = OutOk tr1 [v1] /\
    run_chunk L51 30 [] (rule_remove_debug_profiling true b) = OutOk tr2 [v2] /\
    v1 = RNum (to_bits (of_Z 5)) /\ v2 = RBool true.
Proof.
  exists prog_us. eexists. eexists. eexists. eexists.
  split; [vm_compute; reflexivity|].
  split; [vm_compute; reflexivity|].
  split; vm_compute; reflexivity.
Qed.

(** * (6) the hypotheses of [removed_call_stmt_sound_at] are satisfiable *)

(** [f(ext_a(), 1, (ext_b()))] with [f] a no-op *)
Definition es3 : list expr := [ext_call; one; EParen ext_call_b].

Example removed_call_stmt_example :
  expressions_as_statement (preserve_args (ATuple es3)) =
    SDo (Block [SCall ext_call; SCall ext_call_b] None) /\
  exists s',
    exec_stmt L51 20 rho_noop [] (SCall (call_f es3)) st_noop = Ok (rho_noop, SigNone) s' /\
    exec_stmt L51 20 rho_noop []
      (rc_stmt profile_matcher true []
         (SCall (ECall (EField (EIdent nm_debug) nm_profilebegin) None (ATuple es3)))) st_noop
      = Ok (rho_noop, SigNone) s' /\
    trace s' = [EvCall (of_string "ext_b") []; EvCall (of_string "ext_a") []].
Proof.
  split; [reflexivity|]. eexists.
  split; [vm_compute; reflexivity|].
  split; [vm_compute; reflexivity|].
  vm_compute; reflexivity.
Qed.

Example removed_call_args_example :
  Forall (kept_or_quiet L51 rho_noop []) es3 /\
  Forall (fun e => is_call (inner_expr e) = true) (filter hse es3).
Proof.
  split.
  - unfold es3. apply Forall_cons; [left; reflexivity|].
    apply Forall_cons; [right; split; [reflexivity|apply simple_quiet_quiet; reflexivity]|].
    apply Forall_cons; [left; reflexivity|apply Forall_nil].
  - apply Forall_forall. apply forallb_forall. vm_compute. reflexivity.
Qed.

(** a closure without parameters and with an empty body is inert wherever it is still there *)
Lemma call_noop_closure d a cenv s1 j args r s2 :
  nth_N (closures s1) (N.to_nat a) = Some (mkClosure noop_body cenv false) ->
  call d j (VClosure a) args s1 = Ok r s2 -> r = [] /\ s2 = s1.
Proof.
  intros Hn H. destruct j as [|j]; [discriminate|]. rewrite call_S_closure in H.
  apply bind_ok in H as (c & sc & Hg & Hc).
  unfold get_closure in Hg. rewrite Hn in Hg. inversion Hg; subst c sc; clear Hg.
  unfold call_closure in Hc.
  cbn [effective_params closure_variadic closure_block c_body c_self c_env noop_body] in Hc.
  apply bind_ok in Hc as (rho0 & s3 & Hb & Hc). cbv in Hb. inversion Hb; subst rho0 s3; clear Hb.
  apply bind_ok in Hc as (sg & s4 & Hx & Hret).
  destruct j as [|j]; [discriminate|]. rewrite exec_block_S in Hx.
  destruct j as [|j]; [discriminate|]. rewrite exec_stmts_S_nil in Hx.
  apply ret_ok in Hx as [-> ->]. apply ret_ok in Hret as [-> ->]. auto.
Qed.

Example removed_call_callee_example :
  inert_callee_at L51 rho_noop [] (EIdent (of_string "f")) es3 st_noop.
Proof.
  intros k f s0 Hp.
  apply eval1_reads in Hp as [-> Hr]; [|left; vm_compute; discriminate].
  split; [reflexivity|].
  assert (f = VClosure 0) as -> by (vm_compute in Hr; congruence).
  intros k2 args s1 Ha j r s2 Hc.
  assert (Hcl : nth_N (closures s1) (N.to_nat 0) = Some (mkClosure noop_body [] false)).
  { assert (E20 : exists a20 s20, eval_list L51 20 rho_noop [] es3 st_noop = Ok a20 s20 /\
                    nth_N (closures s20) (N.to_nat 0) = Some (mkClosure noop_body [] false)).
    { eexists. eexists. split; [vm_compute; reflexivity|vm_compute; reflexivity]. }
    destruct E20 as (a20 & s20 & E20 & Hcl20).
    destruct (Nat.le_ge_cases k2 20) as [L|L].
    - pose proof (eval_list_up _ _ _ _ _ _ _ _ _ Ha L) as Ha'. rewrite E20 in Ha'.
      inversion Ha'; subst. exact Hcl20.
    - pose proof (eval_list_up _ _ _ _ _ _ _ _ _ E20 L) as E'. rewrite Ha in E'.
      inversion E'; subst. exact Hcl20. }
  destruct (call_noop_closure _ _ _ _ _ _ _ _ Hcl Hc) as [_ ->]. reflexivity.
Qed.

(** so the theorem applies to the example *)
Example removed_call_stmt_example_applies n rho' sg s' :
  exec_stmt L51 n rho_noop [] (SCall (call_f es3)) st_noop = Ok (rho', sg) s' ->
  exists m, forall j, (m <= j)%nat ->
    exec_stmt L51 j rho_noop [] (expressions_as_statement (preserve_args (ATuple es3))) st_noop
    = Ok (rho', sg) s'.
Proof.
  apply removed_call_stmt_sound_at;
    [exact removed_call_callee_example|apply removed_call_args_example..].
Qed.

(** * the callee hypotheses of the theorems are satisfiable by real closures *)

(** [noop_callee]: [f] bound to [function() end] *)
Example noop_callee_example :
  noop_callee L51 rho_noop [] (EIdent (of_string "f")) es3 st_noop.
Proof.
  intros k f s0 Hp.
  apply eval1_reads in Hp as [-> Hr]; [|left; vm_compute; discriminate].
  split; [reflexivity|].
  assert (f = VClosure 0) as -> by (vm_compute in Hr; congruence).
  intros k2 args s1 Ha j r s2 Hc.
  assert (Hcl : nth_N (closures s1) (N.to_nat 0) = Some (mkClosure noop_body [] false)).
  { assert (E20 : exists a20 s20, eval_list L51 20 rho_noop [] es3 st_noop = Ok a20 s20 /\
                                  nth_N (closures s20) (N.to_nat 0) = Some (mkClosure noop_body [] false))
      by (eexists; eexists; split; vm_compute; reflexivity).
    destruct E20 as (a20 & s20 & E20 & Hcl20).
    destruct (Nat.le_ge_cases k2 20) as [L|L].
    - pose proof (eval_list_up _ _ _ _ _ _ _ _ _ Ha L) as Ha'. rewrite E20 in Ha'.
      inversion Ha'; subst. exact Hcl20.
    - pose proof (eval_list_up _ _ _ _ _ _ _ _ _ E20 L) as E'. rewrite Ha in E'.
      inversion E'; subst. exact Hcl20. }
  exact (call_noop_closure _ _ _ _ _ _ _ _ Hcl Hc).
Qed.

(** [identity_callee]: [f] bound to [function(...) return ... end] *)
Definition identity_body : fbody := FBody [] true None None None 0 (Block [] (Some (LReturn [EVarArgs]))).
Definition st_ident : store := mkStore [VClosure 0] initial_tables [mkClosure identity_body [] false] [] [] 0.

Lemma call_identity_closure d a cenv s1 j args r s2 :
  nth_N (closures s1) (N.to_nat a) = Some (mkClosure identity_body cenv false) ->
  call d j (VClosure a) args s1 = Ok r s2 -> r = args /\ s2 = s1.
Proof.
  intros Hn H. destruct j as [|j]; [discriminate|]. rewrite call_S_closure in H.
  apply bind_ok in H as (c & sc & Hg & Hc).
  unfold get_closure in Hg. rewrite Hn in Hg. inversion Hg; subst c sc; clear Hg.
  unfold call_closure in Hc.
  cbn [effective_params closure_variadic closure_block c_body c_self c_env identity_body] in Hc.
  apply bind_ok in Hc as (rho0 & s3 & Hb & Hc). cbv in Hb. inversion Hb; subst rho0 s3; clear Hb.
  apply bind_ok in Hc as (sg & s4 & Hx & Hret).
  destruct j as [|j]; [discriminate|]. rewrite exec_block_S in Hx.
  destruct j as [|j]; [discriminate|]. rewrite exec_stmts_S_nil in Hx.
  apply bind_ok in Hx as (vs & s5 & Hv & Hret2). apply ret_ok in Hret2 as [-> ->].
  destruct j as [|j]; [discriminate|]. rewrite eval_list_S_one in Hv.
  destruct j as [|j]; [discriminate|]. rewrite eval_S_varargs in Hv. apply ret_ok in Hv as [-> ->].
  apply ret_ok in Hret as [-> ->]. cbn [List.length skipn]. auto.
Qed.

Example identity_callee_example :
  identity_callee L51 rho_noop [] (EIdent (of_string "f")) es3 st_ident.
Proof.
  intros k f s0 Hp.
  apply eval1_reads in Hp as [-> Hr]; [|left; vm_compute; discriminate].
  split; [reflexivity|].
  assert (f = VClosure 0) as -> by (vm_compute in Hr; congruence).
  intros k2 args s1 Ha j r s2 Hc.
  assert (Hcl : nth_N (closures s1) (N.to_nat 0) = Some (mkClosure identity_body [] false)).
  { assert (E20 : exists a20 s20, eval_list L51 20 rho_noop [] es3 st_ident = Ok a20 s20 /\
                                  nth_N (closures s20) (N.to_nat 0) = Some (mkClosure identity_body [] false))
      by (eexists; eexists; split; vm_compute; reflexivity).
    destruct E20 as (a20 & s20 & E20 & Hcl20).
    destruct (Nat.le_ge_cases k2 20) as [L|L].
    - pose proof (eval_list_up _ _ _ _ _ _ _ _ _ Ha L) as Ha'. rewrite E20 in Ha'.
      inversion Ha'; subst. exact Hcl20.
    - pose proof (eval_list_up _ _ _ _ _ _ _ _ _ E20 L) as E'. rewrite Ha in E'.
      inversion E'; subst. exact Hcl20. }
  exact (call_identity_closure _ _ _ _ _ _ _ _ Hcl Hc).
Qed.
