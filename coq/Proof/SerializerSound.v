(** C14 — the expression the serializer model builds evaluates, in the reference interpreter
    ([Lua/Sem.v]) and under either dialect, to a value that denotes the document
    ([Lua/DataSpec.v: value_denotes]).  Induction on the document; the fuel is given
    explicitly ([size]). *)
From Coq Require Import ZArith NArith List Bool Lia.
From Coq Require Import Floats.SpecFloat.
From DL Require Import Lib.Bytes Lib.F64 Lua.Syntax Lua.Sem Lua.DataSpec Model.Serializer.
From DL Require Import Proof.SemFacts Proof.SerializerF64 Proof.SerializerTable.
Import ListNotations.
Open Scope N_scope.
Local Notation len := List.length.

(** * lists and stores *)

Lemma nthN_app_l {A} (l x : list A) n v : nth_N l n = Some v -> nth_N (l ++ x) n = Some v.
Proof. revert n; induction l as [|y l IH]; intros [|n] H; cbn in *; try discriminate; auto. Qed.
Lemma nthN_lt {A} (l : list A) n v : nth_N l n = Some v -> (n < len l)%nat.
Proof.
  revert n; induction l as [|y l IH]; intros [|n] H; cbn in *; try discriminate; try lia.
  apply IH in H. lia.
Qed.
Lemma nthN_length {A} (l : list A) v : nth_N (l ++ [v]) (len l) = Some v.
Proof. induction l; cbn; auto. Qed.
Lemma nthN_set_same {A} (l : list A) n v x : nth_N l n = Some x -> nth_N (set_nth l n v) n = Some v.
Proof. revert n; induction l as [|y l IH]; intros [|n] H; cbn in *; try discriminate; auto. Qed.
Lemma nthN_set_other {A} (l : list A) n m v : n <> m -> nth_N (set_nth l n v) m = nth_N l m.
Proof.
  revert n m; induction l as [|y l IH]; intros [|n] [|m] H; cbn; try reflexivity; try congruence.
  apply IH. congruence.
Qed.
Lemma set_nth_len {A} (l : list A) n v : len (set_nth l n v) = len l.
Proof. revert n; induction l as [|y l IH]; intros [|n]; cbn; auto. Qed.

Lemma Forall2_nth_r {A B} (R : A -> B -> Prop) l l' i y :
  Forall2 R l l' -> nth_error l' i = Some y -> exists x, nth_error l i = Some x /\ R x y.
Proof.
  intros H; revert i; induction H as [|x0 y0 l l' H0 H IH]; intros [|i] Hn; cbn in *; try discriminate.
  - inversion Hn; subst. eauto.
  - apply IH. exact Hn.
Qed.

Lemma Forall2_len {A B} (R : A -> B -> Prop) l l' : Forall2 R l l' -> len l = len l'.
Proof. induction 1; cbn; congruence. Qed.

Lemma Forall_mp {A} (P Q : A -> Prop) l : Forall (fun x => P x -> Q x) l -> Forall P l -> Forall Q l.
Proof. induction 1; intros H'; inversion H'; subst; constructor; auto. Qed.

(** every table of [s] is still there, unchanged *)
Definition keeps (s s' : store) : Prop :=
  (forall b t, nth_N (tables s) b = Some t -> nth_N (tables s') b = Some t) /\
  (len (tables s) <= len (tables s'))%nat.

(** ... except possibly the one at address [a] *)
Definition keeps_except (a : nat) (s s' : store) : Prop :=
  (forall b t, b <> a -> nth_N (tables s) b = Some t -> nth_N (tables s') b = Some t) /\
  (len (tables s) <= len (tables s'))%nat.

Lemma keeps_refl s : keeps s s.
Proof. split; auto. Qed.
Lemma keeps_except_refl a s : keeps_except a s s.
Proof. split; auto. Qed.
Lemma keeps_weaken a s s' : keeps s s' -> keeps_except a s s'.
Proof. intros [A B]. split; auto. Qed.
Lemma keeps_except_trans a s1 s2 s3 : keeps_except a s1 s2 -> keeps_except a s2 s3 -> keeps_except a s1 s3.
Proof. intros [A B] [C D]. split; [|lia]. intros b t Hb H. apply C; auto. Qed.

Definition upd (s : store) (a : N) (t : table) : store :=
  mkStore (cells s) (set_nth (tables s) (N.to_nat a) t) (closures s) (trace s) (oracle s) (fresh s).

Lemma upd_same s a t t0 : nth_N (tables s) (N.to_nat a) = Some t0 ->
  nth_N (tables (upd s a t)) (N.to_nat a) = Some t.
Proof. intros H. cbn. eapply nthN_set_same; eauto. Qed.

Lemma upd_keeps s a t : keeps_except (N.to_nat a) s (upd s a t).
Proof.
  split; cbn.
  - intros b t0 Hb H. rewrite nthN_set_other by congruence. exact H.
  - rewrite set_nth_len. lia.
Qed.

(** * running the monad forwards *)

Lemma bind_run {A B} (m : M A) (f : A -> M B) s a s1 : m s = Ok a s1 -> bind m f s = f a s1.
Proof. unfold bind. intros ->. reflexivity. Qed.

Lemma eval1_run dl n rho va e s v s1 :
  eval dl n rho va e s = Ok [v] s1 -> eval1 dl (S n) rho va e s = Ok v s1.
Proof. intros H. rewrite eval1_S. rewrite (bind_run _ _ _ _ _ H). reflexivity. Qed.

Lemma put_run a k k' v s t :
  nth_N (tables s) (N.to_nat a) = Some t -> norm_key k = Some k' ->
  put a k v s = Ok tt (upd s a (mkTable (raw_set (t_entries t) k' v) (t_meta t))).
Proof.
  intros Ht Hk. unfold put. rewrite (bind_run _ _ s t s).
  - rewrite Hk. reflexivity.
  - unfold get_table. rewrite Ht. reflexivity.
Qed.

Lemma new_table_run t s :
  new_table t s = Ok (N.of_nat (len (tables s)))
    (mkStore (cells s) (tables s ++ [t]) (closures s) (trace s) (oracle s) (fresh s)).
Proof. reflexivity. Qed.

(** * the specification under changes of the store *)

Lemma denotes_frame lo s s' v d :
  value_denotes_from lo s v d ->
  (forall b t, (lo <= b)%nat -> nth_N (tables s) b = Some t -> nth_N (tables s') b = Some t) ->
  value_denotes_from lo s' v d.
Proof.
  induction 1 as [| | | | |a t items Hlo Ht Hm Hel IHel Hno|a t entries Hlo Ht Hm Hel IHel Hno];
    intros F; try constructor.
  - econstructor; eauto.
  - econstructor; eauto.
Qed.

Lemma denotes_weaken lo lo' s v d :
  value_denotes_from lo s v d -> (lo' <= lo)%nat -> value_denotes_from lo' s v d.
Proof.
  induction 1 as [| | | | |a t items Hlo Ht Hm Hel IHel Hno|a t entries Hlo Ht Hm Hel IHel Hno];
    intros L; try constructor.
  - econstructor; eauto. lia.
  - econstructor; eauto. lia.
Qed.

(** * fuel *)

Fixpoint size (d : data) : nat :=
  match d with
  | DSeq items => 2 + (fix go (l : list data) : nat :=
                         match l with [] => 0 | x :: r => 2 + size x + go r end) items
  | DMap entries => 2 + (fix go (l : list (data * data)) : nat :=
                           match l with [] => 0 | (k, v) :: r => 3 + size k + size v + go r end) entries
  | _ => 1
  end%nat.

Fixpoint seq_size (l : list data) : nat :=
  match l with [] => 0 | x :: r => 2 + size x + seq_size r end%nat.
Fixpoint map_size (l : list (data * data)) : nat :=
  match l with [] => 0 | (k, v) :: r => 3 + size k + size v + map_size r end%nat.

Lemma size_seq items : size (DSeq items) = (2 + seq_size items)%nat.
Proof. reflexivity. Qed.
Lemma size_map entries : size (DMap entries) = (2 + map_size entries)%nat.
Proof. reflexivity. Qed.
Lemma size_pos d : (1 <= size d)%nat.
Proof. destruct d; cbn; lia. Qed.

(** * hypotheses, as [Forall] over the children *)

(** the bit pattern of every integer of the document decodes to the same float
    ([SerializerF64.int_roundtrip_small] / [int_roundtrip_valid]) *)
Fixpoint ints_ok (d : data) : Prop :=
  match d with
  | DInt z => int_roundtrip z
  | DSeq items => (fix all (l : list data) : Prop :=
                     match l with [] => True | x :: r => ints_ok x /\ all r end) items
  | DMap entries => (fix all (l : list (data * data)) : Prop :=
                       match l with
                       | [] => True
                       | (k, v) :: r => ints_ok k /\ ints_ok v /\ all r
                       end) entries
  | _ => True
  end.

Definition ok (d : data) : Prop := ints_ok d /\ wf_keys d /\ seq_len_ok d.

Lemma ok_seq items : ok (DSeq items) ->
  (Z.of_nat (len items) < 9007199254740992)%Z /\ Forall ok items.
Proof.
  intros (A & B & C & D). split; [exact C|]. clear C.
  induction items as [|x r IH]; constructor.
  - cbn in A, B, D. unfold ok. tauto.
  - apply IH; cbn in A, B, D; tauto.
Qed.

Lemma ok_map entries : ok (DMap entries) ->
  Forall (fun kd => ints_ok (fst kd) /\ key_value (fst kd) <> None /\ ok (snd kd)) entries.
Proof.
  intros (A & B & C).
  induction entries as [|[k v] r IH]; constructor.
  - cbn in A, B, C. cbn [fst snd]. unfold ok. tauto.
  - apply IH; cbn in A, B, C; tauto.
Qed.

(** * evaluation of one document *)

Definition evaluates (dl : dialect) (d : data) : Prop :=
  forall e, to_expression d = Some e ->
  forall n rho va s, (size d <= n)%nat ->
  exists v s', eval dl n rho va e s = Ok [v] s' /\ keeps s s' /\
               value_denotes_from (len (tables s)) s' v d.

Lemma to_expression_seq items :
  to_expression (DSeq items) = match seq_entries items with Some es => Some (ETable es) | None => None end.
Proof. reflexivity. Qed.
Lemma to_expression_map entries :
  to_expression (DMap entries) = match map_entries entries with Some es => Some (ETable es) | None => None end.
Proof. reflexivity. Qed.

(** keys: evaluation does not touch the store and gives the Lua key of the document key *)
Lemma key_eval dl k kv ke :
  ints_ok k -> key_value k = Some kv -> to_expression k = Some ke ->
  forall n rho va s, exists v, eval dl (S n) rho va ke s = Ok [v] s /\ norm_key v = Some kv.
Proof.
  intros Hi Hk He n rho va s. destruct k; cbn [key_value] in Hk; try discriminate.
  - inversion Hk; subst kv. destruct b; inversion He; subst ke; eexists; split; reflexivity.
  - cbn [to_expression] in He. destruct (int_supported z); [|discriminate]. inversion He; subst ke.
    eexists. split; [reflexivity|]. cbn [number_value]. cbn [ints_ok] in Hi. unfold int_roundtrip in Hi.
    rewrite Hi. exact Hk.
  - inversion He; subst ke. eexists. split; [reflexivity|]. exact Hk.
  - inversion Hk; subst kv. inversion He; subst ke. eexists. split; reflexivity.
Qed.

Lemma norm_pos pos : (1 <= pos < 9007199254740992)%Z ->
  norm_key (VNum (of_Z pos)) = Some (VNum (of_Z pos)).
Proof.
  intros H. destruct (of_Z_small_finite pos) as [A B]; [lia|]. cbn [norm_key]. now rewrite A, B.
Qed.

(** ** sequences: the positional loop of the table constructor *)

Lemma fill_seq dl rho va a : forall items es,
  seq_entries items = Some es ->
  Forall (evaluates dl) items ->
  forall n pos s tab,
    (seq_size items < n)%nat ->
    (1 <= pos)%Z -> (pos + Z.of_nat (len items) <= 9007199254740992)%Z ->
    nth_N (tables s) (N.to_nat a) = Some tab -> t_meta tab = None ->
    exists s' vals,
      fill_table dl n rho va a es pos s = Ok tt s' /\
      nth_N (tables s') (N.to_nat a) = Some (mkTable (seq_fill (t_entries tab) pos vals) None) /\
      keeps_except (N.to_nat a) s s' /\
      Forall2 (value_denotes_from (S (N.to_nat a)) s') vals items.
Proof.
  induction items as [|d r IH]; intros es Hes HF n pos s tab Hn Hp Hlen Ht Hm.
  - inversion Hes; subst es. destruct n as [|n]; [lia|].
    exists s, []. rewrite fill_S_nil. split; [reflexivity|]. split.
    { destruct tab as [en me]. cbn in *. subst me. exact Ht. }
    split; [apply keeps_except_refl|constructor].
  - cbn [seq_entries] in Hes. destruct (to_expression d) as [e|] eqn:Ed; [|discriminate].
    destruct (seq_entries r) as [l|] eqn:Er; [|discriminate]. inversion Hes; subst es; clear Hes.
    inversion HF as [|? ? Hd Hr]; subst. cbn [seq_size len] in *.
    (* the value of this element *)
    assert (forall m s0, (size d <= m)%nat -> nth_N (tables s0) (N.to_nat a) = Some tab ->
            exists v s1, eval dl m rho va e s0 = Ok [v] s1 /\ keeps s0 s1 /\
                         value_denotes_from (S (N.to_nat a)) s1 v d) as Hval.
    { intros m s0 Hm0 Ht0. destruct (Hd e Ed m rho va s0 Hm0) as (v & s1 & E1 & K1 & D1).
      exists v, s1. split; [exact E1|]. split; [exact K1|].
      eapply denotes_weaken; [exact D1|]. apply nthN_lt in Ht0. lia. }
    (* storing it *)
    assert (forall v s1, nth_N (tables s1) (N.to_nat a) = Some tab ->
            exists s2, put_pos a pos v s1 = Ok tt s2 /\ keeps_except (N.to_nat a) s1 s2 /\
              nth_N (tables s2) (N.to_nat a) =
                Some (mkTable (match v with VNil => t_entries tab
                                          | _ => raw_set (t_entries tab) (VNum (of_Z pos)) v end) None)) as Hput.
    { intros v s1 Ht1.
      assert (put a (VNum (of_Z pos)) v s1 =
              Ok tt (upd s1 a (mkTable (raw_set (t_entries tab) (VNum (of_Z pos)) v) (t_meta tab)))) as P.
      { apply put_run; [exact Ht1|]. apply norm_pos. lia. }
      rewrite Hm in P.
      assert (nth_N (tables s1) (N.to_nat a) = Some (mkTable (t_entries tab) None)) as Ht1'.
      { destruct tab as [en me]. cbn in *. subst me. exact Ht1. }
      destruct v; unfold put_pos;
        try (eexists; split; [exact P|]; split; [apply upd_keeps|eapply upd_same; exact Ht1]).
      exists s1. split; [reflexivity|]. split; [apply keeps_except_refl|exact Ht1']. }
    destruct n as [|n1]; [lia|].
    destruct r as [|d2 r'].
    + (* last element *)
      inversion Er; subst l; clear Er. rewrite fill_S_last.
      destruct (Hval n1 s ltac:(cbn [seq_size] in Hn; lia) Ht) as (v & s1 & E1 & K1 & D1).
      rewrite (bind_run _ _ _ _ _ E1). cbn [fill_go].
      destruct (Hput v s1 (proj1 K1 _ _ Ht)) as (s2 & P2 & K2 & T2).
      rewrite (bind_run _ _ _ _ _ P2).
      exists s2, [v]. split; [reflexivity|]. split; [exact T2|]. split.
      { eapply keeps_except_trans; [apply keeps_weaken; exact K1|exact K2]. }
      constructor; [|constructor].
      eapply denotes_frame; [exact D1|]. intros b t Hb Hbt. apply (proj1 K2); [lia|exact Hbt].
    + (* an element followed by others *)
      assert (exists x l', l = x :: l') as (x & l' & ->).
      { cbn [seq_entries] in Er. destruct (to_expression d2); [|discriminate].
        destruct (seq_entries r'); [|discriminate]. inversion Er. eauto. }
      rewrite fill_S_value.
      destruct n1 as [|n2]; [cbn [seq_size] in Hn; lia|].
      destruct (Hval n2 s ltac:(cbn [seq_size] in Hn; lia) Ht) as (v & s1 & E1 & K1 & D1).
      rewrite (bind_run _ _ _ _ _ (eval1_run _ _ _ _ _ _ _ _ E1)).
      destruct (Hput v s1 (proj1 K1 _ _ Ht)) as (s2 & P2 & K2 & T2).
      rewrite (bind_run _ _ _ _ _ P2).
      destruct (IH (x :: l') eq_refl Hr (S n2) (pos + 1)%Z s2 _ ltac:(lia) ltac:(lia)
                   ltac:(cbn [len] in *; lia) T2 eq_refl) as (s3 & vals & F3 & T3 & K3 & D3).
      exists s3, (v :: vals). split; [exact F3|]. split; [exact T3|]. split.
      { eapply keeps_except_trans; [apply keeps_weaken; exact K1|].
        eapply keeps_except_trans; [exact K2|exact K3]. }
      constructor; [|exact D3].
      eapply denotes_frame; [exact D1|]. intros b t Hb Hbt.
      apply (proj1 K3); [lia|]. apply (proj1 K2); [lia|exact Hbt].
Qed.

(** ** mappings: the key-value loop of the table constructor *)

Lemma fill_map dl rho va a : forall entries es,
  map_entries entries = Some es ->
  Forall (fun kd => ints_ok (fst kd) /\ key_value (fst kd) <> None /\ evaluates dl (snd kd)) entries ->
  forall n pos s tab,
    (map_size entries < n)%nat ->
    nth_N (tables s) (N.to_nat a) = Some tab -> t_meta tab = None ->
    exists s' kvs,
      fill_table dl n rho va a es pos s = Ok tt s' /\
      nth_N (tables s') (N.to_nat a) = Some (mkTable (map_fill (t_entries tab) kvs) None) /\
      keeps_except (N.to_nat a) s s' /\
      Forall2 (fun kv kd => key_value (fst kd) = Some (fst kv) /\
                            value_denotes_from (S (N.to_nat a)) s' (snd kv) (snd kd)) kvs entries.
Proof.
  induction entries as [|[k d] r IH]; intros es Hes HF n pos s tab Hn Ht Hm.
  - inversion Hes; subst es. destruct n as [|n]; [lia|].
    exists s, []. rewrite fill_S_nil. split; [reflexivity|]. split.
    { destruct tab as [en me]. cbn in *. subst me. exact Ht. }
    split; [apply keeps_except_refl|constructor].
  - cbn [map_entries] in Hes. destruct (to_expression k) as [ke|] eqn:Ek; [|discriminate].
    destruct (to_expression d) as [ve|] eqn:Ed; [|discriminate].
    destruct (map_entries r) as [l|] eqn:Er; [|discriminate]. inversion Hes; subst es; clear Hes.
    inversion HF as [|? ? Hkd Hr]; subst. cbn [fst snd] in Hkd. destruct Hkd as (Hik & Hkv & Hd).
    destruct (key_value k) as [kv|] eqn:Ekv; [clear Hkv|congruence].
    cbn [map_size] in Hn.
    destruct n as [|n1]; [lia|]. destruct n1 as [|n2]; [lia|]. destruct n2 as [|n3]; [lia|].
    (* key, value, store: common to the two entry forms *)
    assert (exists kraw, norm_key kraw = Some kv /\
              fill_table dl (S (S (S n3))) rho va a (table_entry ke ve :: l) pos s =
              (v <- eval1 dl (S (S n3)) rho va ve ;; _ <- put a kraw v ;; fill_table dl (S (S n3)) rho va a l pos) s)
      as (kraw & Hraw & ->).
    { destruct (key_eval dl k kv ke Hik Ekv Ek n3 rho va s) as (kr & Ekr & Nkr).
      assert (fill_table dl (S (S (S n3))) rho va a (TIndex ke ve :: l) pos s =
              (v <- eval1 dl (S (S n3)) rho va ve ;; _ <- put a kr v ;; fill_table dl (S (S n3)) rho va a l pos) s) as HI.
      { rewrite fill_S_index. rewrite (bind_run _ _ _ _ _ (eval1_run _ _ _ _ _ _ _ _ Ekr)). reflexivity. }
      unfold table_entry. destruct ke as [| | | |f| | | | | | | | | | | | | |];
        try (exists kr; split; [exact Nkr|exact HI]).
      destruct (is_valid_identifier f); [|exists kr; split; [exact Nkr|exact HI]].
      (* [name = v]: the key is the string itself *)
      exists (VStr f). split.
      - destruct k; cbn [key_value] in Ekv; try discriminate Ekv; cbn [to_expression] in Ek.
        + destruct b; discriminate Ek.
        + destruct (int_supported z); discriminate Ek.
        + discriminate Ek.
        + inversion Ek; subst. inversion Ekv; subst. reflexivity.
      - rewrite fill_S_field. reflexivity. }
    destruct (Hd ve Ed (S n3) rho va s ltac:(lia)) as (v & s1 & E1 & K1 & D1).
    rewrite (bind_run _ _ _ _ _ (eval1_run _ _ _ _ _ _ _ _ E1)).
    pose proof (put_run a kraw kv v s1 tab (proj1 K1 _ _ Ht) Hraw) as P2. rewrite Hm in P2.
    rewrite (bind_run _ _ _ _ _ P2).
    set (s2 := upd s1 a (mkTable (raw_set (t_entries tab) kv v) None)) in *.
    assert (nth_N (tables s2) (N.to_nat a) = Some (mkTable (raw_set (t_entries tab) kv v) None)) as T2.
    { eapply upd_same. exact (proj1 K1 _ _ Ht). }
    destruct (IH l eq_refl Hr (S (S n3)) pos s2 _ ltac:(lia) T2 eq_refl) as (s3 & kvs & F3 & T3 & K3 & D3).
    exists s3, ((kv, v) :: kvs). split; [exact F3|]. split; [exact T3|]. split.
    { eapply keeps_except_trans; [apply keeps_weaken; exact K1|].
      eapply keeps_except_trans; [apply upd_keeps|exact K3]. }
    constructor; [|exact D3]. cbn [fst snd]. split; [exact Ekv|].
    eapply denotes_frame.
    { eapply denotes_weaken; [exact D1|]. apply nthN_lt in Ht. lia. }
    intros b t Hb Hbt. apply (proj1 K3); [lia|]. apply (proj1 (upd_keeps s1 a _)); [lia|exact Hbt].
Qed.

(** * induction on documents *)

Lemma data_ind' (P : data -> Prop) :
  P DNull -> (forall b, P (DBool b)) -> (forall z, P (DInt z)) -> (forall bits, P (DFloat bits)) ->
  (forall s, P (DString s)) ->
  (forall items, Forall P items -> P (DSeq items)) ->
  (forall entries, Forall (fun kd => P (fst kd) /\ P (snd kd)) entries -> P (DMap entries)) ->
  forall d, P d.
Proof.
  intros Hn Hb Hi Hf Hs Hq Hm. fix rec 1. intros d. destruct d.
  - exact Hn. - apply Hb. - apply Hi. - apply Hf. - apply Hs.
  - apply Hq. induction items as [|x r IH]; constructor; [apply rec|exact IH].
  - apply Hm. induction entries as [|[k v] r IH]; constructor; [split; apply rec|exact IH].
Qed.

Lemma evaluates_all dl d : ok d -> evaluates dl d.
Proof.
  induction d as [| b | z | bits | str | items IH | entries IH] using data_ind'; intros Hok e He n rho va s Hn.
  - inversion He; subst e. destruct n as [|n]; [cbn in Hn; lia|].
    exists VNil, s. split; [reflexivity|]. split; [apply keeps_refl|constructor].
  - destruct n as [|n]; [cbn in Hn; lia|].
    exists (VBool b), s. split; [destruct b; inversion He; subst e; reflexivity|].
    split; [apply keeps_refl|constructor].
  - destruct n as [|n]; [cbn in Hn; lia|]. cbn [to_expression] in He.
    destruct (int_supported z); [|discriminate]. inversion He; subst e.
    exists (VNum (of_Z z)), s. split.
    { rewrite eval_S_number. cbn [number_value]. destruct Hok as (Hi & _). cbn [ints_ok] in Hi.
      unfold int_roundtrip in Hi. rewrite Hi. reflexivity. }
    split; [apply keeps_refl|constructor].
  - destruct n as [|n]; [cbn in Hn; lia|]. inversion He; subst e.
    exists (VNum (of_bits bits)), s. split; [reflexivity|]. split; [apply keeps_refl|constructor].
  - destruct n as [|n]; [cbn in Hn; lia|]. inversion He; subst e.
    exists (VStr str), s. split; [reflexivity|]. split; [apply keeps_refl|constructor].
  - (* sequence *)
    rewrite to_expression_seq in He. destruct (seq_entries items) as [es|] eqn:Ees; [|discriminate].
    inversion He; subst e; clear He. rewrite size_seq in Hn.
    destruct (ok_seq items Hok) as [Hlen Hoks].
    assert (Forall (evaluates dl) items) as HF by (eapply Forall_mp; eauto).
    destruct n as [|n1]; [lia|]. rewrite eval_S_table.
    rewrite (bind_run _ _ _ _ _ (new_table_run (mkTable [] None) s)).
    set (a := N.of_nat (len (tables s))).
    set (s1 := mkStore (cells s) (tables s ++ [mkTable [] None]) (closures s) (trace s) (oracle s) (fresh s)).
    assert (N.to_nat a = len (tables s)) as Ha by (unfold a; apply Nat2N.id).
    assert (nth_N (tables s1) (N.to_nat a) = Some (mkTable [] None)) as T1.
    { rewrite Ha. cbn. apply nthN_length. }
    destruct (fill_seq dl rho va a items es Ees HF n1 1%Z s1 (mkTable [] None)
                ltac:(lia) ltac:(lia) ltac:(lia) T1 eq_refl) as (s2 & vals & F2 & T2 & K2 & D2).
    rewrite (bind_run _ _ _ _ _ F2).
    exists (VTable a), s2. split; [reflexivity|]. split.
    { split.
      - intros b t Hb. apply (proj1 K2).
        + apply nthN_lt in Hb. lia.
        + cbn. apply nthN_app_l. exact Hb.
      - destruct K2 as [_ L]. cbn in L. rewrite app_length in L. cbn in L. lia. }
    cbn [t_entries] in T2.
    eapply VD_seq with (t := mkTable (seq_fill [] 1 vals) None); [lia|exact T2|reflexivity| |].
    + intros i d Hi. destruct (Forall2_nth_r _ _ _ _ _ D2 Hi) as (v & Hv & Dv).
      cbn [t_entries]. unfold seq_key. rewrite (seq_fill_nth vals [] 1%Z i v); try reflexivity; try lia.
      * eapply denotes_weaken; [exact Dv|lia].
      * rewrite (Forall2_len _ _ _ D2). lia.
      * exact Hv.
    + intros k Hk. cbn [t_entries]. rewrite seq_fill_other; [reflexivity|].
      intros i Hi. apply Hk. rewrite <- (Forall2_len _ _ _ D2). exact Hi.
  - (* mapping *)
    rewrite to_expression_map in He. destruct (map_entries entries) as [es|] eqn:Ees; [|discriminate].
    inversion He; subst e; clear He. rewrite size_map in Hn.
    pose proof (ok_map entries Hok) as Hoks.
    assert (Forall (fun kd => ints_ok (fst kd) /\ key_value (fst kd) <> None /\ evaluates dl (snd kd)) entries) as HF.
    { clear - IH Hoks. induction entries as [|kd r IHr]; constructor;
        inversion IH; inversion Hoks; subst.
      - tauto.
      - apply IHr; assumption. }
    destruct n as [|n1]; [lia|]. rewrite eval_S_table.
    rewrite (bind_run _ _ _ _ _ (new_table_run (mkTable [] None) s)).
    set (a := N.of_nat (len (tables s))).
    set (s1 := mkStore (cells s) (tables s ++ [mkTable [] None]) (closures s) (trace s) (oracle s) (fresh s)).
    assert (N.to_nat a = len (tables s)) as Ha by (unfold a; apply Nat2N.id).
    assert (nth_N (tables s1) (N.to_nat a) = Some (mkTable [] None)) as T1.
    { rewrite Ha. cbn. apply nthN_length. }
    destruct (fill_map dl rho va a entries es Ees HF n1 1%Z s1 (mkTable [] None)
                ltac:(lia) T1 eq_refl) as (s2 & kvs & F2 & T2 & K2 & D2).
    rewrite (bind_run _ _ _ _ _ F2).
    exists (VTable a), s2. split; [reflexivity|]. split.
    { split.
      - intros b t Hb. apply (proj1 K2).
        + apply nthN_lt in Hb. lia.
        + cbn. apply nthN_app_l. exact Hb.
      - destruct K2 as [_ L]. cbn in L. rewrite app_length in L. cbn in L. lia. }
    cbn [t_entries] in T2.
    eapply VD_map with (t := mkTable (map_fill [] kvs) None); [lia|exact T2|reflexivity| |].
    + intros before k d after kv Hsplit Hkv Hlater. subst entries.
      apply Forall2_app_inv_r in D2 as (kvs1 & kvs2 & D21 & D22 & ->).
      inversion D22 as [|[kv' v] ? kvs3 ? [Hk' Dv] D23]; subst. cbn [fst snd] in Hk', Dv.
      rewrite Hkv in Hk'. inversion Hk'; subst kv'.
      cbn [t_entries]. rewrite map_fill_last.
      * eapply denotes_weaken; [exact Dv|lia].
      * eapply key_value_refl; eauto.
      * intros k1 v1 Hin. destruct (Forall2_in_l _ _ _ _ D23 Hin) as ([kd dd] & Hin' & Hkd & _).
        cbn [fst snd] in Hkd. eapply Hlater; [|exact Hkd]. apply in_map_iff. exists (kd, dd). auto.
    + intros k Hk. cbn [t_entries]. rewrite map_fill_other; [reflexivity|].
      intros k0 v0 Hin. destruct (Forall2_in_l _ _ _ _ D2 Hin) as ([kd dd] & Hin' & Hkd & _).
      cbn [fst snd] in Hkd. eapply Hk; [|exact Hkd]. apply in_map_iff. exists (kd, dd). auto.
Qed.
