(** C16: [function_to_assign_sound] with the closure-representation independence of [setindex]
    (Proof/RefactorSim.v) plugged in, and satisfiable instances. *)
From Coq Require Import ZArith NArith List Bool String Lia.
From DL Require Import Lib.Bytes Lib.F64 Lua.Syntax Lua.Sem Lua.EvalSpec.
From DL Require Import Model.Removal Model.Refactor.
From DL Require Import Proof.SemFacts Proof.DefaultRulesSem Proof.RefactorSem Proof.RefactorSimDefs Proof.RefactorSim
  Proof.RefactorSoundFunction.
Import ListNotations.
Open Scope N_scope.

Theorem function_to_assign_sound_closed d n rho va base fields method f s r sL :
  exec_stmt d n rho va (SFunction base fields method f) s = Ok r sL ->
  (fields ++ opt_list method <> [] ->
   exists o, reads rho base s o /\ path_raw (tables s) o (fields ++ opt_list method)) ->
  exists m, forall j, (m <= j)%nat -> exists sR,
    exec_stmt d j rho va (rw_function_to_assign (SFunction base fields method f)) s = Ok r sR /\
    store_rel sL sR.
Proof. apply function_to_assign_sound. intros. now apply sim_setindex. Qed.

(** * a satisfiable instance: [function M.sub:m(x) return self, x end] on a module table *)

Definition fa_nm (s : string) : name := of_string s.
Definition fa_setup : stmt :=
  SAssign [EIdent (fa_nm "M")] [ETable [TField (fa_nm "sub") (ETable [])]].
Definition fa_store : store :=
  match exec_stmt L51 12 [] [] fa_setup (initial_store []) with Ok _ s => s | _ => initial_store [] end.
Definition fa_body : fbody :=
  FBody [Param (fa_nm "x") None] false None None None 0
        (Block [] (Some (LReturn [EIdent (fa_nm "self"); EIdent (fa_nm "x")]))).
Definition fa_stmt : stmt := SFunction (fa_nm "M") [fa_nm "sub"] (Some (fa_nm "m")) fa_body.
(** afterwards: [return M.sub:m(7)] *)
Definition fa_use : laststmt :=
  LReturn [ECall (EField (EIdent (fa_nm "M")) (fa_nm "sub")) (Some (fa_nm "m"))
                 (ATuple [ENumber (NDec (to_bits (of_Z 7)) None)])].

Example function_to_assign_example :
  (exists o, reads [] (fa_nm "M") fa_store o /\ path_raw (tables fa_store) o [fa_nm "sub"; fa_nm "m"]) /\
  rw_function_to_assign fa_stmt =
    SAssign [EField (EField (EIdent (fa_nm "M")) (fa_nm "sub")) (fa_nm "m")]
            [EFunction (FBody [Param nm_self None; Param (fa_nm "x") None] false None None None 0
                              (Block [] (Some (LReturn [EIdent (fa_nm "self"); EIdent (fa_nm "x")]))))] /\
  exists vs s1 s2,
    exec_stmts L51 30 [] [] [fa_stmt] (Some fa_use) fa_store = Ok (SigReturn vs) s1 /\
    exec_stmts L51 30 [] [] [rw_function_to_assign fa_stmt] (Some fa_use) fa_store = Ok (SigReturn vs) s2 /\
    vs = [VTable 8; VNum (of_Z 7)] /\ store_rel s1 s2.
Proof.
  split.
  - exists (VTable 7). split.
    + unfold reads. cbn [lookup]. eexists. split; [vm_compute; reflexivity|].
      split; [left; vm_compute; discriminate|vm_compute; reflexivity].
    + cbn [path_raw]. exists 7, (mkTable [(VStr (fa_nm "sub"), VTable 8)] None).
      split; [reflexivity|]. split; [vm_compute; reflexivity|]. split; [vm_compute; discriminate|exact I].
  - split; [reflexivity|].
    eexists. eexists. eexists. split; [vm_compute; reflexivity|]. split; [vm_compute; reflexivity|].
    split; [reflexivity|].
    repeat split; try reflexivity. cbn [closures].
    constructor; [|constructor].
    unfold clos_rel, effective_params, closure_variadic, closure_block. cbn. repeat split; auto.
Qed.
