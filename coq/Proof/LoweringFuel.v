(** Fuel monotonicity of the reference interpreter ([Lua/Sem.v]).

    [refines m1 m2]: whenever [m1] does not run out of fuel (it returns [Ok], [Err] or
    [Unsup]) [m2] returns exactly the same result.  Main theorem [fuel_monotone]: for each of
    the 24 functions [F] of the mutual fixpoint, [refines (F d n args) (F d (S n) args)];
    corollaries [F_refines_le] (for [n <= m]) and [F_mono] (the [Ok] form).  [Err] results
    have to be covered because [pcall] turns an [Err] of the callee into an [Ok].

    Method.  (1) One-step unfolding equations [F_unf : F d (S n) args = body n], the bodies
    being verbatim copies of the text of [Sem.v] (the local loops that use fuel-dependent
    operations are named, see [format_go] ... [repeat_loop]); they hold by conversion, the
    proof term is [eq_refl] and the kernel checks it at [Qed] ([exact_no_check] only skips
    the redundant, slow check by the tactic unifier).  These equations are the costly part of
    this file: the kernel compares the whole mutual block once per recursive call occurring
    in the compiled body.  (2) A step lemma per function, from [mono_at d n m] to the
    statement at [S n], [S m]: both bodies have the same shape, a small tactic walks them.
    (3) Induction on the fuel. *)
From Coq Require Import ZArith NArith List Bool String Lia.
From Coq Require Import Floats.SpecFloat.
From DL Require Import Lib.Bytes Lib.F64 Lua.Syntax Lua.Sem.
Import ListNotations.
Open Scope N_scope.


(** * Refinement of computations *)

Definition refines {A} (m1 m2 : M A) : Prop := forall s, m1 s <> Fuel -> m2 s = m1 s.

Lemma refines_refl {A} (m : M A) : refines m m.
Proof. intros s _. reflexivity. Qed.

Lemma refines_trans {A} (m1 m2 m3 : M A) : refines m1 m2 -> refines m2 m3 -> refines m1 m3.
Proof.
  intros H12 H23 s Hs. rewrite (H23 s).
  - exact (H12 s Hs).
  - rewrite (H12 s Hs). exact Hs.
Qed.

Lemma refines_fuel {A} (m : M A) : refines (fun _ => Fuel) m.
Proof. intros s Hs. exfalso. apply Hs. reflexivity. Qed.

Lemma refines_bind {A B} (m1 m2 : M A) (f1 f2 : A -> M B) :
  refines m1 m2 -> (forall a, refines (f1 a) (f2 a)) -> refines (bind m1 f1) (bind m2 f2).
Proof.
  intros Hm Hf s Hs. unfold bind in *.
  destruct (m1 s) as [a s1|e s1| |w] eqn:E1.
  - rewrite (Hm s) by (rewrite E1; discriminate). rewrite E1. apply Hf. exact Hs.
  - rewrite (Hm s) by (rewrite E1; discriminate). rewrite E1. reflexivity.
  - exfalso. apply Hs. reflexivity.
  - rewrite (Hm s) by (rewrite E1; discriminate). rewrite E1. reflexivity.
Qed.

Lemma refines_ok {A} (m1 m2 : M A) s a s' : refines m1 m2 -> m1 s = Ok a s' -> m2 s = Ok a s'.
Proof. intros H E. rewrite (H s) by (rewrite E; discriminate). exact E. Qed.

(** the protected call of [pcall]: an [Err] of the callee becomes an [Ok], hence [refines]
    has to cover errors, not only normal termination *)
Definition protect (m : M (list value)) : M (list value) :=
  fun s =>
    match m s with
    | Ok vs s' => Ok (VBool true :: vs) s'
    | Err (EUser v) s' => Ok [VBool false; v] s'
    | Err (ERun _) s' => Ok [VBool false; vstr "<error>"] s'
    | Fuel => Fuel
    | Unsup w => Unsup w
    end.

Lemma refines_protect m1 m2 : refines m1 m2 -> refines (protect m1) (protect m2).
Proof.
  intros H s Hs. unfold protect in *.
  destruct (m1 s) as [a s1|e s1| |w] eqn:E1.
  - rewrite (H s) by (rewrite E1; discriminate). rewrite E1. reflexivity.
  - rewrite (H s) by (rewrite E1; discriminate). rewrite E1. reflexivity.
  - exfalso. apply Hs. reflexivity.
  - rewrite (H s) by (rewrite E1; discriminate). rewrite E1. reflexivity.
Qed.


(** * The local loops of the interpreter that use fuel-dependent operations, as constants
    (the operations abstracted); the unfolding equations below state the bodies with them *)

Definition format_go (d : dialect) (T : value -> M value) : nat -> bytes -> list value -> bytes -> M (list value) :=
  fix go (fuel : nat) (f : bytes) (vs : list value) (acc : bytes) : M (list value) :=
    match fuel with
    | O => fun _ => Fuel
    | S fuel =>
    match f with
    | [] => ret [VStr acc]
    | 37 :: 37 :: f' => go fuel f' vs (acc ++ [37])
    | 37 :: c :: f' =>
    match vs with
    | [] => fail 54
    | v :: vs' =>
    if (c =? 115) || (c =? 42) then     
    if (c =? 42) && negb (is_luau d) then fail 54
    else
    sv <- T v ;;
    match sv with
    | VStr s => go fuel f' vs' (acc ++ s)
    | _ => fail 54
    end
    else if (c =? 100) then             
    match tonum v with
    | Some x => if is_integer x then
    let z := to_Z x in
    go fuel f' vs' (acc ++ (if (z <? 0)%Z then [45] else []) ++ dec_digits (Z.to_N (Z.abs z)))
    else unsup 54
    | None => fail 54
    end
    else unsup 54
    end
    | [37] => fail 54
    | c :: f' => go fuel f' vs (acc ++ [c])
    end
    end.

Definition if_loop (E : expr -> M value) (els : expr) : list ebranch -> M (list value) :=
  fix go (bs : list ebranch) : M (list value) :=
    match bs with
    | [] => v <- E els ;; ret [v]
    | EBranch c r :: rest =>
    cv <- E c ;;
    if truthy cv then v <- E r ;; ret [v] else go rest
    end.

Definition interp_loop (E : expr -> M value) (T : value -> M value) : list iseg -> bytes -> M (list value) :=
  fix go (ss : list iseg) (acc : bytes) : M (list value) :=
    match ss with
    | [] => ret [VStr acc]
    | ISStr s :: rest => go rest (acc ++ s)
    | ISExpr e' :: rest =>
    v <- E e' ;;
    sv <- T v ;;
    match sv with
    | VStr s => go rest (acc ++ s)
    | _ => fail 19
    end
    end.

Definition targets_loop (ET : expr -> M (option N * value * value)) : list expr -> M (list (option N * value * value)) :=
  fix go (vs : list expr) : M (list (option N * value * value)) :=
    match vs with
    | [] => ret []
    | v :: rest => t <- ET v ;; ts <- go rest ;; ret (t :: ts)
    end.

Definition assign_loop (AT : (option N * value * value) -> value -> M unit) : list (option N * value * value) -> list value -> M unit :=
  fix go (ts : list (option N * value * value)) (vs : list value) : M unit :=
    match ts with
    | [] => ret tt
    | t :: rest => _ <- AT t (arg vs 0) ;; go rest (tl vs)
    end.

Definition path_loop (I : value -> value -> M value) : value -> list name -> M value :=
  fix go (o : value) (ks : list name) : M value :=
    match ks with
    | [] | [_] => ret o
    | k :: rest => o' <- I o (VStr k) ;; go o' rest
    end.

Definition sif_loop (E : expr -> M value) (X : block -> M signal) (els : option block) : list sbranch -> M signal :=
  fix go (bs : list sbranch) : M signal :=
    match bs with
    | [] => match els with
    | Some b => X b
    | None => ret SigNone
    end
    | SBranch c b :: rest =>
    cv <- E c ;;
    if truthy cv then X b else go rest
    end.

Definition repeat_loop (EL : env -> list expr -> M (list value)) (XS : env -> stmt -> M (env * signal)) (last : option laststmt) : list stmt -> env -> M (env * signal) :=
  fix go (ss : list stmt) (rho : env) : M (env * signal) :=
    match ss with
    | [] =>
    match last with
    | None => ret (rho, SigNone)
    | Some LBreak => ret (rho, SigBreak)
    | Some LContinue => ret (rho, SigContinue)
    | Some (LReturn es) => vs <- EL rho es ;; ret (rho, SigReturn vs)
    end
    | st :: rest =>
    '(rho', sg) <- XS rho st ;;
    match sg with
    | SigNone => go rest rho'
    | _ => ret (rho', sg)
    end
    end.


(** * One-step unfolding equations (bodies copied from [Sem.v], checked by conversion) *)

Section Unfold.
Variable d : dialect.

Local Notation call := (Sem.call d).
Local Notation index := (Sem.index d).
Local Notation setindex := (Sem.setindex d).
Local Notation tostr := (Sem.tostr d).
Local Notation arith := (Sem.arith d).
Local Notation concat := (Sem.concat d).
Local Notation equal := (Sem.equal d).
Local Notation less := (Sem.less d).
Local Notation length := (Sem.length d).
Local Notation call_builtin := (Sem.call_builtin d).
Local Notation eval := (Sem.eval d).
Local Notation eval1 := (Sem.eval1 d).
Local Notation eval_list := (Sem.eval_list d).
Local Notation eval_args := (Sem.eval_args d).
Local Notation fill_table := (Sem.fill_table d).
Local Notation exec_block := (Sem.exec_block d).
Local Notation exec_stmts := (Sem.exec_stmts d).
Local Notation assign_target := (Sem.assign_target d).
Local Notation eval_target := (Sem.eval_target d).
Local Notation exec_stmt := (Sem.exec_stmt d).
Local Notation exec_while := (Sem.exec_while d).
Local Notation exec_repeat := (Sem.exec_repeat d).
Local Notation exec_numfor := (Sem.exec_numfor d).
Local Notation exec_genfor := (Sem.exec_genfor d).

Lemma call_unf n (f : value) (args : list value) :
  call (S n) f args =
  (    match f with
    | VClosure a =>
      c <- get_closure a ;;
      match c_body c with
      | FBody ps variadic _ _ _ _ body =>
        let ps := if c_self c then Param (of_string "self") None :: ps else ps in
        rho <- bind_params ps args ;;
        let va := if variadic then skipn (List.length ps) args else [] in
        sg <- exec_block n (rev rho ++ c_env c) va body ;;
        match sg with
        | SigReturn vs => ret vs
        | _ => ret []
        end
      end
    | VExt x => call_ext x args
    | VBuiltin b => call_builtin n b args
    | _ =>
      h <- metamethod f "__call" ;;
      match h with
      | VNil => fail 10
      | _ => call n h (f :: args)
      end
    end).
Proof. exact_no_check (@eq_refl _ (call (S n) f args)). Qed.

Lemma index_unf n (o k : value) :
  index (S n) o k =
  (    match o with
    | VTable a =>
      t <- get_table a ;;
      match raw_get (t_entries t) (match norm_key k with Some k' => k' | None => k end) with
      | VNil =>
        h <- metamethod o "__index" ;;
        match h with
        | VNil => ret VNil
        | VTable _ => index n h k
        | _ => vs <- call n h [o; k] ;; ret (first vs)
        end
      | v => ret v
      end
    | _ =>
      h <- metamethod o "__index" ;;
      match h with
      | VNil => fail 11
      | VTable _ => index n h k
      | _ => vs <- call n h [o; k] ;; ret (first vs)
      end
    end).
Proof. exact_no_check (@eq_refl _ (index (S n) o k)). Qed.

Lemma setindex_unf n (o k v : value) :
  setindex (S n) o k v =
  (    match o with
    | VTable a =>
      t <- get_table a ;;
      let existing := raw_get (t_entries t) (match norm_key k with Some k' => k' | None => k end) in
      h <- (match existing with VNil => metamethod o "__newindex" | _ => ret VNil end) ;;
      match h with
      | VNil =>
        match norm_key k with
        | None => fail 12
        | Some k' => set_table a (mkTable (raw_set (t_entries t) k' v) (t_meta t))
        end
      | VTable _ => setindex n h k v
      | _ => _ <- call n h [o; k; v] ;; ret tt
      end
    | _ =>
      h <- metamethod o "__newindex" ;;
      match h with
      | VNil => fail 13
      | VTable _ => setindex n h k v
      | _ => _ <- call n h [o; k; v] ;; ret tt
      end
    end).
Proof. exact_no_check (@eq_refl _ (setindex (S n) o k v)). Qed.

Lemma tostr_unf n (v : value) :
  tostr (S n) v =
  (    h <- metamethod v "__tostring" ;;
    match h with
    | VNil =>
      ret (VStr match v with
                | VNil => of_string "nil"
                | VBool true => of_string "true"
                | VBool false => of_string "false"
                | VNum x => tostring_num d x
                | VStr s => s
                | VTable _ => of_string "table"
                | _ => of_string "function"
                end)
    | _ => vs <- call n h [v] ;; ret (first vs)
    end).
Proof. exact_no_check (@eq_refl _ (tostr (S n) v)). Qed.

Lemma arith_unf n (o : binop) (a b : value) :
  arith (S n) o a b =
  (    match tonum a, tonum b with
    | Some x, Some y =>
      match arith_num d o x y with
      | Some r => ret (VNum r)
      | None => unsup 20
      end
    | _, _ =>
      match arith_name o with
      | None => unsup 21
      | Some ev =>
        h <- metamethod a ev ;;
        h <- (match h with VNil => metamethod b ev | _ => ret h end) ;;
        match h with
        | VNil => fail 14
        | _ => vs <- call n h [a; b] ;; ret (first vs)
        end
      end
    end).
Proof. exact_no_check (@eq_refl _ (arith (S n) o a b)). Qed.

Lemma concat_unf n (a b : value) :
  concat (S n) a b =
  (    let str (v : value) := match v with
                           | VStr s => Some s
                           | VNum x => Some (tostring_num d x)
                           | _ => None
                           end in
    match str a, str b with
    | Some x, Some y => ret (VStr (x ++ y))
    | _, _ =>
      h <- metamethod a "__concat" ;;
      h <- (match h with VNil => metamethod b "__concat" | _ => ret h end) ;;
      match h with
      | VNil => fail 15
      | _ => vs <- call n h [a; b] ;; ret (first vs)
      end
    end).
Proof. exact_no_check (@eq_refl _ (concat (S n) a b)). Qed.

Lemma equal_unf n (a b : value) :
  equal (S n) a b =
  (    if raw_equal a b then ret true
    else match a, b with
         | VTable _, VTable _ =>
           h1 <- metamethod a "__eq" ;;
           h2 <- metamethod b "__eq" ;;
           let h := match d with
                    | L51 => if raw_equal h1 h2 then h1 else VNil
                    | Luau => match h1 with VNil => h2 | _ => h1 end
                    end in
           match h with
           | VNil => ret false
           | _ => vs <- call n h [a; b] ;; ret (truthy (first vs))
           end
         | _, _ => ret false
         end).
Proof. exact_no_check (@eq_refl _ (equal (S n) a b)). Qed.

Lemma less_unf n (strict : bool) (a b : value) :
  less (S n) strict a b =
  (    match a, b with
    | VNum x, VNum y => ret (if strict then fltb x y else fleb x y)
    | VStr x, VStr y => ret (if strict then bytes_ltb x y else bytes_leb x y)
    | _, _ =>
      let ev := if strict then "__lt"%string else "__le"%string in
      h1 <- metamethod a ev ;;
      h2 <- metamethod b ev ;;
      match h1 with
      | VNil =>
        if strict then fail 16
        else 
          r <- less n true b a ;; ret (negb r)
      | _ =>
        if raw_equal h1 h2 then vs <- call n h1 [a; b] ;; ret (truthy (first vs))
        else if strict then fail 16 else r <- less n true b a ;; ret (negb r)
      end
    end).
Proof. exact_no_check (@eq_refl _ (less (S n) strict a b)). Qed.

Lemma length_unf n (v : value) :
  length (S n) v =
  (    match v with
    | VStr s => ret (VNum (of_Z (Z.of_nat (List.length s))))
    | VTable a =>
      h <- (if is_luau d then metamethod v "__len" else ret VNil) ;;
      match h with
      | VNil => t <- get_table a ;; ret (VNum (of_Z (border (t_entries t))))
      | _ => vs <- call n h [v] ;; ret (first vs)
      end
    | _ =>
      h <- metamethod v "__len" ;;
      match h with
      | VNil => fail 17
      | _ => vs <- call n h [v] ;; ret (first vs)
      end
    end).
Proof. exact_no_check (@eq_refl _ (length (S n) v)). Qed.

Lemma call_builtin_unf n (b : N) (args : list value) :
  call_builtin (S n) b args =
  (    let a0 := arg args 0 in let a1 := arg args 1 in let a2 := arg args 2 in
    if b =? B_select then
      match a0 with
      | VStr [35] => ret [VNum (of_Z (Z.of_nat (List.length args) - 1))]
      | VNum x =>
        if is_integer x then
          let i := to_Z x in
          if (0 <? i)%Z then ret (skipn (Z.to_nat i) args)
          else if (i <? 0)%Z then
            let k := (Z.of_nat (List.length args) - 1 + i)%Z in
            if (k <? 0)%Z then fail 30 else ret (skipn (Z.to_nat k + 1) args)
          else fail 30
        else unsup 30
      | _ => fail 30
      end
    else if b =? B_tostring then v <- tostr n a0 ;; ret [v]
    else if b =? B_tonumber then
      match args with
      | [_] | [_; VNil] => ret [match tonum a0 with Some x => VNum x | None => VNil end]
      | _ => unsup 31
      end
    else if b =? B_type then
      match args with [] => fail 32 | _ => ret [VStr (type_name a0)] end
    else if b =? B_rawget then
      match a0 with
      | VTable a => t <- get_table a ;;
                    ret [raw_get (t_entries t) (match norm_key a1 with Some k => k | None => a1 end)]
      | _ => fail 33
      end
    else if b =? B_rawset then
      match a0, norm_key a1 with
      | VTable a, Some k => t <- get_table a ;;
                            _ <- set_table a (mkTable (raw_set (t_entries t) k a2) (t_meta t)) ;;
                            ret [a0]
      | _, _ => fail 34
      end
    else if b =? B_rawequal then ret [VBool (raw_equal a0 a1)]
    else if b =? B_rawlen then
      match a0 with
      | VTable a => t <- get_table a ;; ret [VNum (of_Z (border (t_entries t)))]
      | VStr s => ret [VNum (of_Z (Z.of_nat (List.length s)))]
      | _ => fail 35
      end
    else if b =? B_setmetatable then
      match a0, a1 with
      | VTable a, VNil => t <- get_table a ;; _ <- set_table a (mkTable (t_entries t) None) ;; ret [a0]
      | VTable a, VTable m =>
        t <- get_table a ;;
        
        _ <- set_table a (mkTable (t_entries t) (Some m)) ;; ret [a0]
      | _, _ => fail 36
      end
    else if b =? B_getmetatable then
      m <- metatable_of a0 ;;
      match m with
      | None => ret [VNil]
      | Some a => t <- get_table a ;;
                  match raw_get (t_entries t) (vstr "__metatable") with
                  | VNil => ret [VTable a]
                  | v => ret [v]
                  end
      end
    else if b =? B_pcall then
      fun s =>
        match call n a0 (tl args) s with
        | Ok vs s' => Ok (VBool true :: vs) s'
        | Err (EUser v) s' => Ok [VBool false; v] s'
        | Err (ERun _) s' => Ok [VBool false; vstr "<error>"] s'
        | Fuel => Fuel
        | Unsup w => Unsup w
        end
    else if b =? B_error then fun s => Err (EUser a0) s
    else if b =? B_assert then
      match args with
      | [] => fail 37
      | _ => if truthy a0 then ret args
             else match args with
                  | [_] => fun s => Err (EUser (vstr "assertion failed!")) s
                  | _ => fun s => Err (EUser a1) s
                  end
      end
    else if b =? B_next then
      match a0 with
      | VTable a =>
        t <- get_table a ;;
        let live := filter (fun kv => match snd kv with VNil => false | _ => true end) in
        let after :=
          match a1 with
          | VNil => Some (t_entries t)
          | _ => (fix skip (es : list (value * value)) : option (list (value * value)) :=
                    match es with
                    | [] => None
                    | (k, _) :: rest => if raw_equal k a1 then Some rest else skip rest
                    end) (t_entries t)
          end in
        match after with
        | None => fail 38
        | Some es => match live es with
                     | [] => ret [VNil]
                     | (k, v) :: _ => ret [k; v]
                     end
        end
      | _ => fail 38
      end
    else if b =? B_pairs then
      match a0 with
      | VTable _ => ret [VBuiltin B_next; a0; VNil]
      | _ => fail 39
      end
    else if b =? B_ipairs then
      match a0 with
      | VTable _ => ret [VBuiltin B_ipairs_iter; a0; VNum fzero]
      | _ => fail 40
      end
    else if b =? B_ipairs_iter then
      match a1 with
      | VNum x =>
        let i := VNum (fadd x fone) in
        v <- index n a0 i ;;
        match v with VNil => ret [VNil] | _ => ret [i; v] end
      | _ => fail 41
      end
    else if b =? B_unpack then
      match a0, tl args with
      | VTable a, [] =>
        t <- get_table a ;;
        let nlen := border (t_entries t) in
        ret (map (fun i => raw_get (t_entries t) (VNum (of_Z (Z.of_nat i)))) (seq 1 (Z.to_nat nlen)))
      | _, _ => unsup 42
      end
    else if b =? B_floor then
      match tonum a0 with Some x => num_result (ffloor x) | None => fail 43 end
    else if b =? B_sqrt then
      match tonum a0 with Some x => num_result (fsqrt x) | None => fail 44 end
    else if b =? B_abs then
      match tonum a0 with Some x => num_result (fabs x) | None => fail 45 end
    else if (b =? B_max) || (b =? B_min) then
      match args with
      | [] => fail 46
      | _ =>
        (fix go (vs : list value) (acc : option f64) : M (list value) :=
           match vs with
           | [] => match acc with Some x => num_result x | None => fail 46 end
           | v :: rest =>
             match tonum v with
             | None => fail 46
             | Some x =>
               if is_nan x then unsup 46
               else go rest (match acc with
                             | None => Some x
                             | Some y => if b =? B_max then (if fltb y x then Some x else Some y)
                                         else (if fltb x y then Some x else Some y)
                             end)
             end
           end) args None
      end
    else if b =? B_len then
      match a0 with
      | VStr s => ret [VNum (of_Z (Z.of_nat (List.length s)))]
      | VNum x => ret [VNum (of_Z (Z.of_nat (List.length (tostring_num d x))))]
      | _ => fail 47
      end
    else if b =? B_sub then
      match a0, tonum a1 with
      | VStr s, Some i =>
        match (match a2 with VNil => Some (of_Z (-1)) | _ => tonum a2 end) with
        | Some j => if is_integer i && is_integer j then ret [VStr (lua_sub s (to_Z i) (to_Z j))] else unsup 48
        | None => fail 48
        end
      | _, _ => fail 48
      end
    else if b =? B_rep then
      match a0, tonum a1 with
      | VStr s, Some k => if is_integer k then ret [VStr (List.concat (repeat s (Z.to_nat (to_Z k))))] else unsup 49
      | _, _ => fail 49
      end
    else if b =? B_byte then
      match a0, tl args with
      | VStr s, [] => match s with c :: _ => ret [VNum (of_N c)] | [] => ret [] end
      | _, _ => unsup 50
      end
    else if b =? B_char then
      (fix go (vs : list value) (acc : bytes) : M (list value) :=
         match vs with
         | [] => ret [VStr (rev acc)]
         | v :: rest =>
           match tonum v with
           | Some x => if is_integer x && (0 <=? to_Z x)%Z && (to_Z x <? 256)%Z
                       then go rest (Z.to_N (to_Z x) :: acc) else fail 51
           | None => fail 51
           end
         end) args []
    else if b =? B_insert then
      match a0, args with
      | VTable a, [_; v] =>
        t <- get_table a ;;
        _ <- set_table a (mkTable (raw_set (t_entries t) (VNum (of_Z (border (t_entries t) + 1))) v) (t_meta t)) ;;
        ret []
      | _, _ => unsup 52
      end
    else if b =? B_concat then
      match a0 with
      | VTable a =>
        t <- get_table a ;;
        let sep := match a1 with VStr s => Some s | VNil => Some [] | VNum x => Some (tostring_num d x) | _ => None end in
        match sep, tl (tl args) with
        | Some sep, [] =>
          (fix go (is : list nat) (acc : bytes) (first_item : bool) : M (list value) :=
             match is with
             | [] => ret [VStr acc]
             | i :: rest =>
               match raw_get (t_entries t) (VNum (of_Z (Z.of_nat i))) with
               | VStr s => go rest (acc ++ (if first_item then [] else sep) ++ s) false
               | VNum x => go rest (acc ++ (if first_item then [] else sep) ++ tostring_num d x) false
               | _ => fail 53
               end
             end) (seq 1 (Z.to_nat (border (t_entries t)))) [] true
        | _, _ => unsup 53
        end
      | _ => fail 53
      end
    else if b =? B_format then
      match a0 with
      | VStr fmt =>
        format_go d (tostr n) (S (List.length fmt)) fmt (tl args) []
      | _ => unsup 54
      end
    else unsup 55).
Proof. exact_no_check (@eq_refl _ (call_builtin (S n) b args)). Qed.

Lemma eval_unf_ENil n rho va  :
  eval (S n) rho va (ENil) =
  ( ret [VNil]).
Proof. exact_no_check (@eq_refl _ (eval (S n) rho va (ENil))). Qed.

Lemma eval_unf_ETrue n rho va  :
  eval (S n) rho va (ETrue) =
  ( ret [VBool true]).
Proof. exact_no_check (@eq_refl _ (eval (S n) rho va (ETrue))). Qed.

Lemma eval_unf_EFalse n rho va  :
  eval (S n) rho va (EFalse) =
  ( ret [VBool false]).
Proof. exact_no_check (@eq_refl _ (eval (S n) rho va (EFalse))). Qed.

Lemma eval_unf_ENumber n rho va x :
  eval (S n) rho va (ENumber x) =
  ( ret [VNum (number_value x)]).
Proof. exact_no_check (@eq_refl _ (eval (S n) rho va (ENumber x))). Qed.

Lemma eval_unf_EString n rho va s :
  eval (S n) rho va (EString s) =
  ( ret [VStr s]).
Proof. exact_no_check (@eq_refl _ (eval (S n) rho va (EString s))). Qed.

Lemma eval_unf_EVarArgs n rho va  :
  eval (S n) rho va (EVarArgs) =
  ( ret va).
Proof. exact_no_check (@eq_refl _ (eval (S n) rho va (EVarArgs))). Qed.

Lemma eval_unf_EIdent n rho va x :
  eval (S n) rho va (EIdent x) =
  (      match lookup rho x with
      | Some a => v <- get_cell a ;; ret [v]
      | None =>
        v <- index n (VTable A_globals) (VStr x) ;;
        match v with
        | VNil => if is_ext_name x then ret [VExt x] else ret [VNil]
        | _ => ret [v]
        end
      end).
Proof. exact_no_check (@eq_refl _ (eval (S n) rho va (EIdent x))). Qed.

Lemma eval_unf_EField n rho va p f :
  eval (S n) rho va (EField p f) =
  ( o <- eval1 n rho va p ;; v <- index n o (VStr f) ;; ret [v]).
Proof. exact_no_check (@eq_refl _ (eval (S n) rho va (EField p f))). Qed.

Lemma eval_unf_EIndex n rho va p k :
  eval (S n) rho va (EIndex p k) =
  ( o <- eval1 n rho va p ;; kv <- eval1 n rho va k ;; v <- index n o kv ;; ret [v]).
Proof. exact_no_check (@eq_refl _ (eval (S n) rho va (EIndex p k))). Qed.

Lemma eval_unf_ECall n rho va p m a :
  eval (S n) rho va (ECall p m a) =
  (      o <- eval1 n rho va p ;;
      match m with
      | None => args <- eval_args n rho va a ;; call n o args
      | Some mname =>
        f <- index n o (VStr mname) ;;
        args <- eval_args n rho va a ;;
        call n f (o :: args)
      end).
Proof. exact_no_check (@eq_refl _ (eval (S n) rho va (ECall p m a))). Qed.

Lemma eval_unf_EFunction n rho va f :
  eval (S n) rho va (EFunction f) =
  ( a <- new_closure (mkClosure f rho false) ;; ret [VClosure a]).
Proof. exact_no_check (@eq_refl _ (eval (S n) rho va (EFunction f))). Qed.

Lemma eval_unf_EIf n rho va branches els :
  eval (S n) rho va (EIf branches els) =
  (      if_loop (eval1 n rho va) els branches).
Proof. exact_no_check (@eq_refl _ (eval (S n) rho va (EIf branches els))). Qed.

Lemma eval_unf_EParen n rho va e' :
  eval (S n) rho va (EParen e') =
  ( v <- eval1 n rho va e' ;; ret [v]).
Proof. exact_no_check (@eq_refl _ (eval (S n) rho va (EParen e'))). Qed.

Lemma eval_unf_ETable n rho va entries :
  eval (S n) rho va (ETable entries) =
  ( a <- new_table (mkTable [] None) ;;
                        _ <- fill_table n rho va a entries 1 ;; ret [VTable a]).
Proof. exact_no_check (@eq_refl _ (eval (S n) rho va (ETable entries))). Qed.

Lemma eval_unf_EUnary n rho va op e' :
  eval (S n) rho va (EUnary op e') =
  (      v <- eval1 n rho va e' ;;
      match op with
      | UNot => ret [VBool (negb (truthy v))]
      | UMinus =>
        match tonum v with
        | Some x => ret [VNum (fneg x)]
        | None =>
          h <- metamethod v "__unm" ;;
          match h with
          | VNil => fail 18
          | _ => vs <- call n h [v; v] ;; ret [first vs]
          end
        end
      | ULen => r <- length n v ;; ret [r]
      end).
Proof. exact_no_check (@eq_refl _ (eval (S n) rho va (EUnary op e'))). Qed.

Definition binop_body (n : nat) (op : binop) (a b : value) : M (list value) :=
  match op with
  | BEq => r <- equal n a b ;; ret [VBool r]
  | BNeq => r <- equal n a b ;; ret [VBool (negb r)]
  | BLt => r <- less n true a b ;; ret [VBool r]
  | BLe => r <- less n false a b ;; ret [VBool r]
  | BGt => r <- less n true b a ;; ret [VBool r]
  | BGe => r <- less n false b a ;; ret [VBool r]
  | BConcat => r <- concat n a b ;; ret [r]
  | _ => r <- arith n op a b ;; ret [r]
  end.

Lemma eval_unf_and n rho va l r :
  eval (S n) rho va (EBinary BAnd l r) =
  (a <- eval1 n rho va l ;; if truthy a then b <- eval1 n rho va r ;; ret [b] else ret [a]).
Proof. exact_no_check (@eq_refl _ (eval (S n) rho va (EBinary BAnd l r))). Qed.

Lemma eval_unf_or n rho va l r :
  eval (S n) rho va (EBinary BOr l r) =
  (a <- eval1 n rho va l ;; if truthy a then ret [a] else b <- eval1 n rho va r ;; ret [b]).
Proof. exact_no_check (@eq_refl _ (eval (S n) rho va (EBinary BOr l r))). Qed.

Lemma eval_unf_binop n rho va op l r :
  match op with BAnd | BOr => False | _ => True end ->
  eval (S n) rho va (EBinary op l r) =
  (a <- eval1 n rho va l ;; b <- eval1 n rho va r ;; binop_body n op a b).
Proof.
  destruct op; intros H; try (exfalso; exact H);
    match goal with |- ?x = _ => exact_no_check (@eq_refl _ x) end.
Qed.

Lemma eval_unf_EInterp n rho va segs :
  eval (S n) rho va (EInterp segs) =
  (      interp_loop (eval1 n rho va) (tostr n) segs []).
Proof. exact_no_check (@eq_refl _ (eval (S n) rho va (EInterp segs))). Qed.

Lemma eval_unf_ETypeCast n rho va e' w1 :
  eval (S n) rho va (ETypeCast e' w1) =
  ( v <- eval1 n rho va e' ;; ret [v]).
Proof. exact_no_check (@eq_refl _ (eval (S n) rho va (ETypeCast e' w1))). Qed.

Lemma eval_unf_ETypeInst n rho va p w1 :
  eval (S n) rho va (ETypeInst p w1) =
  ( v <- eval1 n rho va p ;; ret [v]).
Proof. exact_no_check (@eq_refl _ (eval (S n) rho va (ETypeInst p w1))). Qed.

Lemma eval1_unf n (rho : env) (va : list value) (e : expr) :
  eval1 (S n) rho va e =
  ( vs <- eval n rho va e ;; ret (first vs)).
Proof. exact_no_check (@eq_refl _ (eval1 (S n) rho va e)). Qed.

Lemma eval_list_unf n (rho : env) (va : list value) (es : list expr) :
  eval_list (S n) rho va es =
  (    match es with
    | [] => ret []
    | [e] => eval n rho va e
    | e :: rest => v <- eval1 n rho va e ;; vs <- eval_list n rho va rest ;; ret (v :: vs)
    end).
Proof. exact_no_check (@eq_refl _ (eval_list (S n) rho va es)). Qed.

Lemma eval_args_unf n (rho : env) (va : list value) (a : args) :
  eval_args (S n) rho va a =
  (    match a with
    | ATuple es => eval_list n rho va es
    | AString s => ret [VStr s]
    | ATable entries => t <- new_table (mkTable [] None) ;;
                        _ <- fill_table n rho va t entries 1 ;; ret [VTable t]
    end).
Proof. exact_no_check (@eq_refl _ (eval_args (S n) rho va a)). Qed.

Lemma fill_table_unf n (rho : env) (va : list value) (a : N) (entries : list tentry) (pos : Z) :
  fill_table (S n) rho va a entries pos =
  (    let put (k v : value) : M unit :=
      t <- get_table a ;;
      match norm_key k with
      | None => fail 12
      | Some k' => set_table a (mkTable (raw_set (t_entries t) k' v) (t_meta t))
      end in
    match entries with
    | [] => ret tt
    | TField f e :: rest => v <- eval1 n rho va e ;; _ <- put (VStr f) v ;; fill_table n rho va a rest pos
    | TIndex k e :: rest =>
      kv <- eval1 n rho va k ;; v <- eval1 n rho va e ;; _ <- put kv v ;; fill_table n rho va a rest pos
    | [TValue e] =>
      vs <- eval n rho va e ;;
      (fix go (vs : list value) (pos : Z) : M unit :=
         match vs with
         | [] => ret tt
         | v :: vs' => _ <- (match v with VNil => ret tt | _ => put (VNum (of_Z pos)) v end) ;; go vs' (pos + 1)%Z
         end) vs pos
    | TValue e :: rest =>
      v <- eval1 n rho va e ;;
      _ <- (match v with VNil => ret tt | _ => put (VNum (of_Z pos)) v end) ;;
      fill_table n rho va a rest (pos + 1)%Z
    end).
Proof. exact_no_check (@eq_refl _ (fill_table (S n) rho va a entries pos)). Qed.

Lemma exec_block_unf n (rho : env) (va : list value) (b : block) :
  exec_block (S n) rho va b =
  (    match b with
    | Block stmts last => exec_stmts n rho va stmts last
    end).
Proof. exact_no_check (@eq_refl _ (exec_block (S n) rho va b)). Qed.

Lemma exec_stmts_unf n (rho : env) (va : list value) (ss : list stmt) (last : option laststmt) :
  exec_stmts (S n) rho va ss last =
  (    match ss with
    | [] =>
      match last with
      | None => ret SigNone
      | Some LBreak => ret SigBreak
      | Some LContinue => ret SigContinue
      | Some (LReturn es) => vs <- eval_list n rho va es ;; ret (SigReturn vs)
      end
    | st :: rest =>
      '(rho', sg) <- exec_stmt n rho va st ;;
      match sg with
      | SigNone => exec_stmts n rho' va rest last
      | _ => ret sg
      end
    end).
Proof. exact_no_check (@eq_refl _ (exec_stmts (S n) rho va ss last)). Qed.

Lemma assign_target_unf n (rho : env) (tgt : (option N * value * value)) (v : value) :
  assign_target (S n) rho tgt v =
  (    match tgt with
    | (Some a, _, _) => set_cell a v
    | (None, o, k) => setindex n o k v
    end).
Proof. exact_no_check (@eq_refl _ (assign_target (S n) rho tgt v)). Qed.

Lemma eval_target_unf n (rho : env) (va : list value) (e : expr) :
  eval_target (S n) rho va e =
  (    match e with
    | EIdent x =>
      match lookup rho x with
      | Some a => ret (Some a, VNil, VNil)
      | None => ret (None, VTable A_globals, VStr x)
      end
    | EField p f => o <- eval1 n rho va p ;; ret (None, o, VStr f)
    | EIndex p k => o <- eval1 n rho va p ;; kv <- eval1 n rho va k ;; ret (None, o, kv)
    | _ => unsup 60
    end).
Proof. exact_no_check (@eq_refl _ (eval_target (S n) rho va e)). Qed.

Lemma exec_stmt_unf n (rho : env) (va : list value) (st : stmt) :
  exec_stmt (S n) rho va st =
  (    match st with
    | SAssign vars vals =>
      tgts <- targets_loop (eval_target n rho va) vars ;;
      vs <- eval_list n rho va vals ;;
      _ <- assign_loop (assign_target n rho) tgts vs ;;
      ret (rho, SigNone)
    | SDo b => sg <- exec_block n rho va b ;; ret (rho, sg)
    | SCall c => _ <- eval n rho va c ;; ret (rho, SigNone)
    | SCompound op var e =>
      t <- eval_target n rho va var ;;
      rhs <- eval1 n rho va e ;;
      cur <- (match t with
              | (Some a, _, _) => get_cell a
              | (None, o, k) => index n o k
              end) ;;
      r <- (match op with
            | BConcat => concat n cur rhs
            | _ => arith n op cur rhs
            end) ;;
      _ <- assign_target n rho t r ;;
      ret (rho, SigNone)
    | SFunction base fields method f =>
      c <- new_closure (mkClosure f rho (match method with Some _ => true | None => false end)) ;;
      let path := fields ++ (match method with Some m => [m] | None => [] end) in
      match path with
      | [] =>
        t <- eval_target n rho va (EIdent base) ;;
        _ <- assign_target n rho t (VClosure c) ;; ret (rho, SigNone)
      | _ =>
        o <- eval1 n rho va (EIdent base) ;;
        o <- path_loop (index n) o path ;;
        _ <- setindex n o (VStr (last path [])) (VClosure c) ;;
        ret (rho, SigNone)
      end
    | SLocal _ vars vals =>
      vs <- eval_list n rho va vals ;;
      rho' <- (fix go (ps : list param) (vs : list value) (acc : env) : M env :=
                 match ps with
                 | [] => ret acc
                 | p :: rest => a <- new_cell (arg vs 0) ;; go rest (tl vs) ((param_name p, a) :: acc)
                 end) vars vs rho ;;
      ret (rho', SigNone)
    | SLocalFunction x f =>
      a <- new_cell VNil ;;
      let rho' := (x, a) :: rho in
      c <- new_closure (mkClosure f rho' false) ;;
      _ <- set_cell a (VClosure c) ;;
      ret (rho', SigNone)
    | SIf branches els =>
      sg <- sif_loop (eval1 n rho va) (exec_block n rho va) els branches ;;
      ret (rho, sg)
    | SWhile c b => sg <- exec_while n rho va c b ;; ret (rho, sg)
    | SRepeat b c => sg <- exec_repeat n rho va b c ;; ret (rho, sg)
    | SNumericFor var start stop step b =>
      v0 <- eval1 n rho va start ;;
      v1 <- eval1 n rho va stop ;;
      v2 <- (match step with Some e => eval1 n rho va e | None => ret (VNum fone) end) ;;
      match tonum v0, tonum v1, tonum v2 with
      | Some x0, Some x1, Some x2 =>
        if is_nan x2 || is_zero x2 then unsup 61
        else sg <- exec_numfor n rho va (param_name var) x0 x1 x2 b ;; ret (rho, sg)
      | _, _, _ => fail 61
      end
    | SGenericFor vars es b =>
      vs <- eval_list n rho va es ;;
      match arg vs 0 with
      | VTable _ => unsup 62        
      | f => sg <- exec_genfor n rho va vars f (arg vs 1) (arg vs 2) b ;; ret (rho, sg)
      end
    | STypeDecl _ _ _ _ => ret (rho, SigNone)
    | STypeFunction _ _ _ => ret (rho, SigNone)
    end).
Proof. exact_no_check (@eq_refl _ (exec_stmt (S n) rho va st)). Qed.

Lemma exec_while_unf n (rho : env) (va : list value) (c : expr) (b : block) :
  exec_while (S n) rho va c b =
  (    cv <- eval1 n rho va c ;;
    if truthy cv then
      sg <- exec_block n rho va b ;;
      match sg with
      | SigBreak => ret SigNone
      | SigReturn vs => ret sg
      | _ => exec_while n rho va c b
      end
    else ret SigNone).
Proof. exact_no_check (@eq_refl _ (exec_while (S n) rho va c b)). Qed.

Lemma exec_repeat_unf n (rho : env) (va : list value) (b : block) (c : expr) :
  exec_repeat (S n) rho va b c =
  (    match b with
    | Block stmts last =>
      '(rho', sg) <- repeat_loop (fun r => eval_list n r va) (fun r => exec_stmt n r va) last stmts rho ;;
      match sg with
      | SigBreak => ret SigNone
      | SigReturn _ => ret sg
      | _ =>
        cv <- eval1 n rho' va c ;;
        if truthy cv then ret SigNone else exec_repeat n rho va b c
      end
    end).
Proof. exact_no_check (@eq_refl _ (exec_repeat (S n) rho va b c)). Qed.

Lemma exec_numfor_unf n (rho : env) (va : list value) (x : name) (i stop step : f64) (b : block) :
  exec_numfor (S n) rho va x i stop step b =
  (    let continue_loop := if fltb fzero step then fleb i stop else fleb stop i in
    if continue_loop then
      a <- new_cell (VNum i) ;;
      sg <- exec_block n ((x, a) :: rho) va b ;;
      match sg with
      | SigBreak => ret SigNone
      | SigReturn _ => ret sg
      | _ => exec_numfor n rho va x (fadd i step) stop step b
      end
    else ret SigNone).
Proof. exact_no_check (@eq_refl _ (exec_numfor (S n) rho va x i stop step b)). Qed.

Lemma exec_genfor_unf n (rho : env) (va : list value) (vars : list param) (f s ctl : value) (b : block) :
  exec_genfor (S n) rho va vars f s ctl b =
  (    vs <- call n f [s; ctl] ;;
    match first vs with
    | VNil => ret SigNone
    | ctl' =>
      rho' <- (fix go (ps : list param) (vs : list value) (acc : env) : M env :=
                 match ps with
                 | [] => ret acc
                 | p :: rest => a <- new_cell (arg vs 0) ;; go rest (tl vs) ((param_name p, a) :: acc)
                 end) vars vs rho ;;
      sg <- exec_block n rho' va b ;;
      match sg with
      | SigBreak => ret SigNone
      | SigReturn _ => ret sg
      | _ => exec_genfor n rho va vars f s ctl' b
      end
    end).
Proof. exact_no_check (@eq_refl _ (exec_genfor (S n) rho va vars f s ctl b)). Qed.

End Unfold.

(** * The statement: all 24 functions at once *)

Definition mono_at (d : dialect) (n m : nat) : Prop :=
  (forall (f : value) (args : list value), refines (call d n f args) (call d m f args)) /\
  (forall (o k : value), refines (index d n o k) (index d m o k)) /\
  (forall (o k v : value), refines (setindex d n o k v) (setindex d m o k v)) /\
  (forall (v : value), refines (tostr d n v) (tostr d m v)) /\
  (forall (o : binop) (a b : value), refines (arith d n o a b) (arith d m o a b)) /\
  (forall (a b : value), refines (concat d n a b) (concat d m a b)) /\
  (forall (a b : value), refines (equal d n a b) (equal d m a b)) /\
  (forall (strict : bool) (a b : value), refines (less d n strict a b) (less d m strict a b)) /\
  (forall (v : value), refines (length d n v) (length d m v)) /\
  (forall (b : N) (args : list value), refines (call_builtin d n b args) (call_builtin d m b args)) /\
  (forall (rho : env) (va : list value) (e : expr), refines (eval d n rho va e) (eval d m rho va e)) /\
  (forall (rho : env) (va : list value) (e : expr), refines (eval1 d n rho va e) (eval1 d m rho va e)) /\
  (forall (rho : env) (va : list value) (es : list expr), refines (eval_list d n rho va es) (eval_list d m rho va es)) /\
  (forall (rho : env) (va : list value) (a : args), refines (eval_args d n rho va a) (eval_args d m rho va a)) /\
  (forall (rho : env) (va : list value) (a : N) (entries : list tentry) (pos : Z), refines (fill_table d n rho va a entries pos) (fill_table d m rho va a entries pos)) /\
  (forall (rho : env) (va : list value) (b : block), refines (exec_block d n rho va b) (exec_block d m rho va b)) /\
  (forall (rho : env) (va : list value) (ss : list stmt) (last : option laststmt), refines (exec_stmts d n rho va ss last) (exec_stmts d m rho va ss last)) /\
  (forall (rho : env) (tgt : (option N * value * value)) (v : value), refines (assign_target d n rho tgt v) (assign_target d m rho tgt v)) /\
  (forall (rho : env) (va : list value) (e : expr), refines (eval_target d n rho va e) (eval_target d m rho va e)) /\
  (forall (rho : env) (va : list value) (st : stmt), refines (exec_stmt d n rho va st) (exec_stmt d m rho va st)) /\
  (forall (rho : env) (va : list value) (c : expr) (b : block), refines (exec_while d n rho va c b) (exec_while d m rho va c b)) /\
  (forall (rho : env) (va : list value) (b : block) (c : expr), refines (exec_repeat d n rho va b c) (exec_repeat d m rho va b c)) /\
  (forall (rho : env) (va : list value) (x : name) (i stop step : f64) (b : block), refines (exec_numfor d n rho va x i stop step b) (exec_numfor d m rho va x i stop step b)) /\
  (forall (rho : env) (va : list value) (vars : list param) (f s ctl : value) (b : block), refines (exec_genfor d n rho va vars f s ctl b) (exec_genfor d m rho va vars f s ctl b)).

(** * The walker

    Both sides of a goal [refines (body n) (body m)] have the same shape and differ only in
    the fuel handed to the recursive calls: descend through [bind] and through every
    [match]/[if] whose scrutinee is syntactically the same on both sides; close the leaves by
    reflexivity, by the induction hypothesis on the fuel ([ihtac]) or by a hypothesis of an
    inner induction. *)
Local Ltac step_gen ihtac :=
  lazymatch goal with
  | |- refines ?a ?b =>
    first
      [ constr_eq a b; apply refines_refl
      | ihtac
      | lazymatch goal with
        | |- refines (bind _ _) (bind _ _) => apply refines_bind; [ | intro ]
        | |- refines (match ?x with _ => _ end) (match ?y with _ => _ end) =>
          constr_eq x y; destruct x; cbv beta match
        end
      | match goal with H : context [@refines] |- _ => solve [apply H] end ]
  end.
Local Ltac no_ih := idtac; fail.
Local Ltac walk0 := repeat step_gen no_ih.

(** monotonicity of the loops in the operations they are given *)
Lemma format_go_mono d (T1 T2 : value -> M value) :
  (forall v, refines (T1 v) (T2 v)) ->
  forall k f vs acc, refines (format_go d T1 k f vs acc) (format_go d T2 k f vs acc).
Proof.
  intros HT. induction k as [|k IHk]; intros f vs acc; cbn [format_go]; walk0.
Qed.

Lemma if_loop_mono (E1 E2 : expr -> M value) els :
  (forall e, refines (E1 e) (E2 e)) ->
  forall bs, refines (if_loop E1 els bs) (if_loop E2 els bs).
Proof. intros HE. induction bs as [|b bs IH]; cbn [if_loop]; walk0. Qed.

Lemma interp_loop_mono (E1 E2 : expr -> M value) (T1 T2 : value -> M value) :
  (forall e, refines (E1 e) (E2 e)) -> (forall v, refines (T1 v) (T2 v)) ->
  forall ss acc, refines (interp_loop E1 T1 ss acc) (interp_loop E2 T2 ss acc).
Proof. intros HE HT. induction ss as [|x ss IH]; intros acc; cbn [interp_loop]; walk0. Qed.

Lemma targets_loop_mono (ET1 ET2 : expr -> M (option N * value * value)) :
  (forall e, refines (ET1 e) (ET2 e)) ->
  forall vs, refines (targets_loop ET1 vs) (targets_loop ET2 vs).
Proof. intros HE. induction vs as [|x vs IH]; cbn [targets_loop]; walk0. Qed.

Lemma assign_loop_mono (AT1 AT2 : (option N * value * value) -> value -> M unit) :
  (forall t v, refines (AT1 t v) (AT2 t v)) ->
  forall ts vs, refines (assign_loop AT1 ts vs) (assign_loop AT2 ts vs).
Proof. intros HA. induction ts as [|x ts IH]; intros vs; cbn [assign_loop]; walk0. Qed.

Lemma path_loop_mono (I1 I2 : value -> value -> M value) :
  (forall o k, refines (I1 o k) (I2 o k)) ->
  forall ks o, refines (path_loop I1 o ks) (path_loop I2 o ks).
Proof. intros HI. induction ks as [|k ks IH]; intros o; cbn [path_loop]; walk0. Qed.

Lemma sif_loop_mono (E1 E2 : expr -> M value) (X1 X2 : block -> M signal) els :
  (forall e, refines (E1 e) (E2 e)) -> (forall b, refines (X1 b) (X2 b)) ->
  forall bs, refines (sif_loop E1 X1 els bs) (sif_loop E2 X2 els bs).
Proof. intros HE HX. induction bs as [|b bs IH]; cbn [sif_loop]; walk0. Qed.

Lemma repeat_loop_mono (EL1 EL2 : env -> list expr -> M (list value))
      (XS1 XS2 : env -> stmt -> M (env * signal)) last :
  (forall r es, refines (EL1 r es) (EL2 r es)) -> (forall r st, refines (XS1 r st) (XS2 r st)) ->
  forall ss rho, refines (repeat_loop EL1 XS1 last ss rho) (repeat_loop EL2 XS2 last ss rho).
Proof. intros HE HX. induction ss as [|st ss IH]; intros rho; cbn [repeat_loop]; walk0. Qed.


Section Step.
Variable d : dialect.
Variables n m : nat.
Hypothesis HM : mono_at d n m.

Lemma IH_call (f : value) (args : list value) : refines (call d n f args) (call d m f args).
Proof. apply HM. Qed.
Lemma IH_index (o k : value) : refines (index d n o k) (index d m o k).
Proof. apply HM. Qed.
Lemma IH_setindex (o k v : value) : refines (setindex d n o k v) (setindex d m o k v).
Proof. apply HM. Qed.
Lemma IH_tostr (v : value) : refines (tostr d n v) (tostr d m v).
Proof. apply HM. Qed.
Lemma IH_arith (o : binop) (a b : value) : refines (arith d n o a b) (arith d m o a b).
Proof. apply HM. Qed.
Lemma IH_concat (a b : value) : refines (concat d n a b) (concat d m a b).
Proof. apply HM. Qed.
Lemma IH_equal (a b : value) : refines (equal d n a b) (equal d m a b).
Proof. apply HM. Qed.
Lemma IH_less (strict : bool) (a b : value) : refines (less d n strict a b) (less d m strict a b).
Proof. apply HM. Qed.
Lemma IH_length (v : value) : refines (length d n v) (length d m v).
Proof. apply HM. Qed.
Lemma IH_call_builtin (b : N) (args : list value) : refines (call_builtin d n b args) (call_builtin d m b args).
Proof. apply HM. Qed.
Lemma IH_eval (rho : env) (va : list value) (e : expr) : refines (eval d n rho va e) (eval d m rho va e).
Proof. apply HM. Qed.
Lemma IH_eval1 (rho : env) (va : list value) (e : expr) : refines (eval1 d n rho va e) (eval1 d m rho va e).
Proof. apply HM. Qed.
Lemma IH_eval_list (rho : env) (va : list value) (es : list expr) : refines (eval_list d n rho va es) (eval_list d m rho va es).
Proof. apply HM. Qed.
Lemma IH_eval_args (rho : env) (va : list value) (a : args) : refines (eval_args d n rho va a) (eval_args d m rho va a).
Proof. apply HM. Qed.
Lemma IH_fill_table (rho : env) (va : list value) (a : N) (entries : list tentry) (pos : Z) : refines (fill_table d n rho va a entries pos) (fill_table d m rho va a entries pos).
Proof. apply HM. Qed.
Lemma IH_exec_block (rho : env) (va : list value) (b : block) : refines (exec_block d n rho va b) (exec_block d m rho va b).
Proof. apply HM. Qed.
Lemma IH_exec_stmts (rho : env) (va : list value) (ss : list stmt) (last : option laststmt) : refines (exec_stmts d n rho va ss last) (exec_stmts d m rho va ss last).
Proof. apply HM. Qed.
Lemma IH_assign_target (rho : env) (tgt : (option N * value * value)) (v : value) : refines (assign_target d n rho tgt v) (assign_target d m rho tgt v).
Proof. apply HM. Qed.
Lemma IH_eval_target (rho : env) (va : list value) (e : expr) : refines (eval_target d n rho va e) (eval_target d m rho va e).
Proof. apply HM. Qed.
Lemma IH_exec_stmt (rho : env) (va : list value) (st : stmt) : refines (exec_stmt d n rho va st) (exec_stmt d m rho va st).
Proof. apply HM. Qed.
Lemma IH_exec_while (rho : env) (va : list value) (c : expr) (b : block) : refines (exec_while d n rho va c b) (exec_while d m rho va c b).
Proof. apply HM. Qed.
Lemma IH_exec_repeat (rho : env) (va : list value) (b : block) (c : expr) : refines (exec_repeat d n rho va b c) (exec_repeat d m rho va b c).
Proof. apply HM. Qed.
Lemma IH_exec_numfor (rho : env) (va : list value) (x : name) (i stop step : f64) (b : block) : refines (exec_numfor d n rho va x i stop step b) (exec_numfor d m rho va x i stop step b).
Proof. apply HM. Qed.
Lemma IH_exec_genfor (rho : env) (va : list value) (vars : list param) (f s ctl : value) (b : block) : refines (exec_genfor d n rho va vars f s ctl b) (exec_genfor d m rho va vars f s ctl b).
Proof. apply HM. Qed.

Ltac ih :=
  idtac;
  lazymatch goal with
  | |- refines (Sem.call _ _ _ _) _ => apply IH_call
  | |- refines (Sem.index _ _ _ _) _ => apply IH_index
  | |- refines (Sem.setindex _ _ _ _ _) _ => apply IH_setindex
  | |- refines (Sem.tostr _ _ _) _ => apply IH_tostr
  | |- refines (Sem.arith _ _ _ _ _) _ => apply IH_arith
  | |- refines (Sem.concat _ _ _ _) _ => apply IH_concat
  | |- refines (Sem.equal _ _ _ _) _ => apply IH_equal
  | |- refines (Sem.less _ _ _ _ _) _ => apply IH_less
  | |- refines (Sem.length _ _ _) _ => apply IH_length
  | |- refines (Sem.call_builtin _ _ _ _) _ => apply IH_call_builtin
  | |- refines (Sem.eval _ _ _ _ _) _ => apply IH_eval
  | |- refines (Sem.eval1 _ _ _ _ _) _ => apply IH_eval1
  | |- refines (Sem.eval_list _ _ _ _ _) _ => apply IH_eval_list
  | |- refines (Sem.eval_args _ _ _ _ _) _ => apply IH_eval_args
  | |- refines (Sem.fill_table _ _ _ _ _ _ _) _ => apply IH_fill_table
  | |- refines (Sem.exec_block _ _ _ _ _) _ => apply IH_exec_block
  | |- refines (Sem.exec_stmts _ _ _ _ _ _) _ => apply IH_exec_stmts
  | |- refines (Sem.assign_target _ _ _ _ _) _ => apply IH_assign_target
  | |- refines (Sem.eval_target _ _ _ _ _) _ => apply IH_eval_target
  | |- refines (Sem.exec_stmt _ _ _ _ _) _ => apply IH_exec_stmt
  | |- refines (Sem.exec_while _ _ _ _ _ _) _ => apply IH_exec_while
  | |- refines (Sem.exec_repeat _ _ _ _ _ _) _ => apply IH_exec_repeat
  | |- refines (Sem.exec_numfor _ _ _ _ _ _ _ _ _) _ => apply IH_exec_numfor
  | |- refines (Sem.exec_genfor _ _ _ _ _ _ _ _ _) _ => apply IH_exec_genfor
  | |- refines (fun s => match Sem.call _ _ ?f ?l s with _ => _ end) _ =>
    exact (refines_protect _ _ (IH_call f l))
  | |- refines (binop_body _ _ _ _ _) _ => unfold binop_body; cbv beta match
  | |- refines (format_go _ _ _ _ _ _) _ => apply format_go_mono; intros; cbv beta; ih
  | |- refines (if_loop _ _ _) _ => apply if_loop_mono; intros; cbv beta; ih
  | |- refines (interp_loop _ _ _ _) _ => apply interp_loop_mono; intros; cbv beta; ih
  | |- refines (targets_loop _ _) _ => apply targets_loop_mono; intros; cbv beta; ih
  | |- refines (assign_loop _ _ _) _ => apply assign_loop_mono; intros; cbv beta; ih
  | |- refines (path_loop _ _ _) _ => apply path_loop_mono; intros; cbv beta; ih
  | |- refines (sif_loop _ _ _ _) _ => apply sif_loop_mono; intros; cbv beta; ih
  | |- refines (repeat_loop _ _ _ _ _) _ => apply repeat_loop_mono; intros; cbv beta; ih
  end.
Ltac step := step_gen ih.
Ltac walk := repeat step.
Ltac unf_walk lem := rewrite !lem; cbv beta zeta; walk.

Lemma call_step (f : value) (args : list value) :
  refines (call d (S n) f args) (call d (S m) f args).
Proof. unf_walk call_unf. Qed.

Lemma index_step (o k : value) :
  refines (index d (S n) o k) (index d (S m) o k).
Proof. unf_walk index_unf. Qed.

Lemma setindex_step (o k v : value) :
  refines (setindex d (S n) o k v) (setindex d (S m) o k v).
Proof. unf_walk setindex_unf. Qed.

Lemma tostr_step (v : value) :
  refines (tostr d (S n) v) (tostr d (S m) v).
Proof. unf_walk tostr_unf. Qed.

Lemma arith_step (o : binop) (a b : value) :
  refines (arith d (S n) o a b) (arith d (S m) o a b).
Proof. unf_walk arith_unf. Qed.

Lemma concat_step (a b : value) :
  refines (concat d (S n) a b) (concat d (S m) a b).
Proof. unf_walk concat_unf. Qed.

Lemma equal_step (a b : value) :
  refines (equal d (S n) a b) (equal d (S m) a b).
Proof. unf_walk equal_unf. Qed.

Lemma less_step (strict : bool) (a b : value) :
  refines (less d (S n) strict a b) (less d (S m) strict a b).
Proof. unf_walk less_unf. Qed.

Lemma length_step (v : value) :
  refines (length d (S n) v) (length d (S m) v).
Proof. unf_walk length_unf. Qed.

Lemma call_builtin_step (b : N) (args : list value) :
  refines (call_builtin d (S n) b args) (call_builtin d (S m) b args).
Proof. unf_walk call_builtin_unf. Qed.

Lemma eval_step (rho : env) (va : list value) (e : expr) :
  refines (eval d (S n) rho va e) (eval d (S m) rho va e).
Proof.
  destruct e as [ | | | | | | | | | | | | | | | op l r | | | ];
    try (first [ unf_walk eval_unf_ENil | unf_walk eval_unf_ETrue | unf_walk eval_unf_EFalse | unf_walk eval_unf_ENumber | unf_walk eval_unf_EString | unf_walk eval_unf_EVarArgs | unf_walk eval_unf_EIdent | unf_walk eval_unf_EField | unf_walk eval_unf_EIndex | unf_walk eval_unf_ECall | unf_walk eval_unf_EFunction | unf_walk eval_unf_EIf | unf_walk eval_unf_EParen | unf_walk eval_unf_ETable | unf_walk eval_unf_EUnary | unf_walk eval_unf_EInterp | unf_walk eval_unf_ETypeCast | unf_walk eval_unf_ETypeInst ]; fail).
  destruct op;
    first [ unf_walk eval_unf_and | unf_walk eval_unf_or
          | rewrite !eval_unf_binop by exact I; cbv beta zeta; walk ].
Qed.

Lemma eval1_step (rho : env) (va : list value) (e : expr) :
  refines (eval1 d (S n) rho va e) (eval1 d (S m) rho va e).
Proof. unf_walk eval1_unf. Qed.

Lemma eval_list_step (rho : env) (va : list value) (es : list expr) :
  refines (eval_list d (S n) rho va es) (eval_list d (S m) rho va es).
Proof. unf_walk eval_list_unf. Qed.

Lemma eval_args_step (rho : env) (va : list value) (a : args) :
  refines (eval_args d (S n) rho va a) (eval_args d (S m) rho va a).
Proof. unf_walk eval_args_unf. Qed.

Lemma fill_table_step (rho : env) (va : list value) (a : N) (entries : list tentry) (pos : Z) :
  refines (fill_table d (S n) rho va a entries pos) (fill_table d (S m) rho va a entries pos).
Proof. unf_walk fill_table_unf. Qed.

Lemma exec_block_step (rho : env) (va : list value) (b : block) :
  refines (exec_block d (S n) rho va b) (exec_block d (S m) rho va b).
Proof. unf_walk exec_block_unf. Qed.

Lemma exec_stmts_step (rho : env) (va : list value) (ss : list stmt) (last : option laststmt) :
  refines (exec_stmts d (S n) rho va ss last) (exec_stmts d (S m) rho va ss last).
Proof. unf_walk exec_stmts_unf. Qed.

Lemma assign_target_step (rho : env) (tgt : (option N * value * value)) (v : value) :
  refines (assign_target d (S n) rho tgt v) (assign_target d (S m) rho tgt v).
Proof. unf_walk assign_target_unf. Qed.

Lemma eval_target_step (rho : env) (va : list value) (e : expr) :
  refines (eval_target d (S n) rho va e) (eval_target d (S m) rho va e).
Proof. unf_walk eval_target_unf. Qed.

Lemma exec_stmt_step (rho : env) (va : list value) (st : stmt) :
  refines (exec_stmt d (S n) rho va st) (exec_stmt d (S m) rho va st).
Proof. unf_walk exec_stmt_unf. Qed.

Lemma exec_while_step (rho : env) (va : list value) (c : expr) (b : block) :
  refines (exec_while d (S n) rho va c b) (exec_while d (S m) rho va c b).
Proof. unf_walk exec_while_unf. Qed.

Lemma exec_repeat_step (rho : env) (va : list value) (b : block) (c : expr) :
  refines (exec_repeat d (S n) rho va b c) (exec_repeat d (S m) rho va b c).
Proof. unf_walk exec_repeat_unf. Qed.

Lemma exec_numfor_step (rho : env) (va : list value) (x : name) (i stop step : f64) (b : block) :
  refines (exec_numfor d (S n) rho va x i stop step b) (exec_numfor d (S m) rho va x i stop step b).
Proof. unf_walk exec_numfor_unf. Qed.

Lemma exec_genfor_step (rho : env) (va : list value) (vars : list param) (f s ctl : value) (b : block) :
  refines (exec_genfor d (S n) rho va vars f s ctl b) (exec_genfor d (S m) rho va vars f s ctl b).
Proof. unf_walk exec_genfor_unf. Qed.

End Step.

(** * The induction on the fuel *)

Lemma mono_at_0 d m : mono_at d 0 m.
Proof. unfold mono_at. repeat split; intros; apply refines_fuel. Qed.

Lemma mono_at_S d n m : mono_at d n m -> mono_at d (S n) (S m).
Proof.
  intros H. unfold mono_at.
  split; [exact (call_step d n m H)|].
  split; [exact (index_step d n m H)|].
  split; [exact (setindex_step d n m H)|].
  split; [exact (tostr_step d n m H)|].
  split; [exact (arith_step d n m H)|].
  split; [exact (concat_step d n m H)|].
  split; [exact (equal_step d n m H)|].
  split; [exact (less_step d n m H)|].
  split; [exact (length_step d n m H)|].
  split; [exact (call_builtin_step d n m H)|].
  split; [exact (eval_step d n m H)|].
  split; [exact (eval1_step d n m H)|].
  split; [exact (eval_list_step d n m H)|].
  split; [exact (eval_args_step d n m H)|].
  split; [exact (fill_table_step d n m H)|].
  split; [exact (exec_block_step d n m H)|].
  split; [exact (exec_stmts_step d n m H)|].
  split; [exact (assign_target_step d n m H)|].
  split; [exact (eval_target_step d n m H)|].
  split; [exact (exec_stmt_step d n m H)|].
  split; [exact (exec_while_step d n m H)|].
  split; [exact (exec_repeat_step d n m H)|].
  split; [exact (exec_numfor_step d n m H)|].
  exact (exec_genfor_step d n m H).
Qed.

Lemma mono_at_le d : forall n m, (n <= m)%nat -> mono_at d n m.
Proof.
  induction n as [|n IHn]; intros m Hle.
  - apply mono_at_0.
  - destruct m as [|m]; [lia|]. apply mono_at_S, IHn. lia.
Qed.

(** ** Main theorem: one more unit of fuel never changes a result that did not run out of fuel *)
Theorem fuel_monotone : forall (d : dialect) (n : nat),
  (forall (f : value) (args : list value), refines (call d n f args) (call d (S n) f args)) /\
  (forall (o k : value), refines (index d n o k) (index d (S n) o k)) /\
  (forall (o k v : value), refines (setindex d n o k v) (setindex d (S n) o k v)) /\
  (forall (v : value), refines (tostr d n v) (tostr d (S n) v)) /\
  (forall (o : binop) (a b : value), refines (arith d n o a b) (arith d (S n) o a b)) /\
  (forall (a b : value), refines (concat d n a b) (concat d (S n) a b)) /\
  (forall (a b : value), refines (equal d n a b) (equal d (S n) a b)) /\
  (forall (strict : bool) (a b : value), refines (less d n strict a b) (less d (S n) strict a b)) /\
  (forall (v : value), refines (length d n v) (length d (S n) v)) /\
  (forall (b : N) (args : list value), refines (call_builtin d n b args) (call_builtin d (S n) b args)) /\
  (forall (rho : env) (va : list value) (e : expr), refines (eval d n rho va e) (eval d (S n) rho va e)) /\
  (forall (rho : env) (va : list value) (e : expr), refines (eval1 d n rho va e) (eval1 d (S n) rho va e)) /\
  (forall (rho : env) (va : list value) (es : list expr), refines (eval_list d n rho va es) (eval_list d (S n) rho va es)) /\
  (forall (rho : env) (va : list value) (a : args), refines (eval_args d n rho va a) (eval_args d (S n) rho va a)) /\
  (forall (rho : env) (va : list value) (a : N) (entries : list tentry) (pos : Z), refines (fill_table d n rho va a entries pos) (fill_table d (S n) rho va a entries pos)) /\
  (forall (rho : env) (va : list value) (b : block), refines (exec_block d n rho va b) (exec_block d (S n) rho va b)) /\
  (forall (rho : env) (va : list value) (ss : list stmt) (last : option laststmt), refines (exec_stmts d n rho va ss last) (exec_stmts d (S n) rho va ss last)) /\
  (forall (rho : env) (tgt : (option N * value * value)) (v : value), refines (assign_target d n rho tgt v) (assign_target d (S n) rho tgt v)) /\
  (forall (rho : env) (va : list value) (e : expr), refines (eval_target d n rho va e) (eval_target d (S n) rho va e)) /\
  (forall (rho : env) (va : list value) (st : stmt), refines (exec_stmt d n rho va st) (exec_stmt d (S n) rho va st)) /\
  (forall (rho : env) (va : list value) (c : expr) (b : block), refines (exec_while d n rho va c b) (exec_while d (S n) rho va c b)) /\
  (forall (rho : env) (va : list value) (b : block) (c : expr), refines (exec_repeat d n rho va b c) (exec_repeat d (S n) rho va b c)) /\
  (forall (rho : env) (va : list value) (x : name) (i stop step : f64) (b : block), refines (exec_numfor d n rho va x i stop step b) (exec_numfor d (S n) rho va x i stop step b)) /\
  (forall (rho : env) (va : list value) (vars : list param) (f s ctl : value) (b : block), refines (exec_genfor d n rho va vars f s ctl b) (exec_genfor d (S n) rho va vars f s ctl b)).
Proof. intros d n. exact (mono_at_le d n (S n) (Nat.le_succ_diag_r n)). Qed.

(** * Corollaries, one pair per function *)

Lemma call_refines_le d n m (f : value) (args : list value) : (n <= m)%nat -> refines (call d n f args) (call d m f args).
Proof. intros Hle. apply (mono_at_le d n m Hle). Qed.
Lemma call_mono d n m (f : value) (args : list value) s0 r s1 :
  (n <= m)%nat -> call d n f args s0 = Ok r s1 -> call d m f args s0 = Ok r s1.
Proof. intros Hle. apply refines_ok, call_refines_le, Hle. Qed.

Lemma index_refines_le d n m (o k : value) : (n <= m)%nat -> refines (index d n o k) (index d m o k).
Proof. intros Hle. apply (mono_at_le d n m Hle). Qed.
Lemma index_mono d n m (o k : value) s0 r s1 :
  (n <= m)%nat -> index d n o k s0 = Ok r s1 -> index d m o k s0 = Ok r s1.
Proof. intros Hle. apply refines_ok, index_refines_le, Hle. Qed.

Lemma setindex_refines_le d n m (o k v : value) : (n <= m)%nat -> refines (setindex d n o k v) (setindex d m o k v).
Proof. intros Hle. apply (mono_at_le d n m Hle). Qed.
Lemma setindex_mono d n m (o k v : value) s0 r s1 :
  (n <= m)%nat -> setindex d n o k v s0 = Ok r s1 -> setindex d m o k v s0 = Ok r s1.
Proof. intros Hle. apply refines_ok, setindex_refines_le, Hle. Qed.

Lemma tostr_refines_le d n m (v : value) : (n <= m)%nat -> refines (tostr d n v) (tostr d m v).
Proof. intros Hle. apply (mono_at_le d n m Hle). Qed.
Lemma tostr_mono d n m (v : value) s0 r s1 :
  (n <= m)%nat -> tostr d n v s0 = Ok r s1 -> tostr d m v s0 = Ok r s1.
Proof. intros Hle. apply refines_ok, tostr_refines_le, Hle. Qed.

Lemma arith_refines_le d n m (o : binop) (a b : value) : (n <= m)%nat -> refines (arith d n o a b) (arith d m o a b).
Proof. intros Hle. apply (mono_at_le d n m Hle). Qed.
Lemma arith_mono d n m (o : binop) (a b : value) s0 r s1 :
  (n <= m)%nat -> arith d n o a b s0 = Ok r s1 -> arith d m o a b s0 = Ok r s1.
Proof. intros Hle. apply refines_ok, arith_refines_le, Hle. Qed.

Lemma concat_refines_le d n m (a b : value) : (n <= m)%nat -> refines (concat d n a b) (concat d m a b).
Proof. intros Hle. apply (mono_at_le d n m Hle). Qed.
Lemma concat_mono d n m (a b : value) s0 r s1 :
  (n <= m)%nat -> concat d n a b s0 = Ok r s1 -> concat d m a b s0 = Ok r s1.
Proof. intros Hle. apply refines_ok, concat_refines_le, Hle. Qed.

Lemma equal_refines_le d n m (a b : value) : (n <= m)%nat -> refines (equal d n a b) (equal d m a b).
Proof. intros Hle. apply (mono_at_le d n m Hle). Qed.
Lemma equal_mono d n m (a b : value) s0 r s1 :
  (n <= m)%nat -> equal d n a b s0 = Ok r s1 -> equal d m a b s0 = Ok r s1.
Proof. intros Hle. apply refines_ok, equal_refines_le, Hle. Qed.

Lemma less_refines_le d n m (strict : bool) (a b : value) : (n <= m)%nat -> refines (less d n strict a b) (less d m strict a b).
Proof. intros Hle. apply (mono_at_le d n m Hle). Qed.
Lemma less_mono d n m (strict : bool) (a b : value) s0 r s1 :
  (n <= m)%nat -> less d n strict a b s0 = Ok r s1 -> less d m strict a b s0 = Ok r s1.
Proof. intros Hle. apply refines_ok, less_refines_le, Hle. Qed.

Lemma length_refines_le d n m (v : value) : (n <= m)%nat -> refines (length d n v) (length d m v).
Proof. intros Hle. apply (mono_at_le d n m Hle). Qed.
Lemma length_mono d n m (v : value) s0 r s1 :
  (n <= m)%nat -> length d n v s0 = Ok r s1 -> length d m v s0 = Ok r s1.
Proof. intros Hle. apply refines_ok, length_refines_le, Hle. Qed.

Lemma call_builtin_refines_le d n m (b : N) (args : list value) : (n <= m)%nat -> refines (call_builtin d n b args) (call_builtin d m b args).
Proof. intros Hle. apply (mono_at_le d n m Hle). Qed.
Lemma call_builtin_mono d n m (b : N) (args : list value) s0 r s1 :
  (n <= m)%nat -> call_builtin d n b args s0 = Ok r s1 -> call_builtin d m b args s0 = Ok r s1.
Proof. intros Hle. apply refines_ok, call_builtin_refines_le, Hle. Qed.

Lemma eval_refines_le d n m (rho : env) (va : list value) (e : expr) : (n <= m)%nat -> refines (eval d n rho va e) (eval d m rho va e).
Proof. intros Hle. apply (mono_at_le d n m Hle). Qed.
Lemma eval_mono d n m (rho : env) (va : list value) (e : expr) s0 r s1 :
  (n <= m)%nat -> eval d n rho va e s0 = Ok r s1 -> eval d m rho va e s0 = Ok r s1.
Proof. intros Hle. apply refines_ok, eval_refines_le, Hle. Qed.

Lemma eval1_refines_le d n m (rho : env) (va : list value) (e : expr) : (n <= m)%nat -> refines (eval1 d n rho va e) (eval1 d m rho va e).
Proof. intros Hle. apply (mono_at_le d n m Hle). Qed.
Lemma eval1_mono d n m (rho : env) (va : list value) (e : expr) s0 r s1 :
  (n <= m)%nat -> eval1 d n rho va e s0 = Ok r s1 -> eval1 d m rho va e s0 = Ok r s1.
Proof. intros Hle. apply refines_ok, eval1_refines_le, Hle. Qed.

Lemma eval_list_refines_le d n m (rho : env) (va : list value) (es : list expr) : (n <= m)%nat -> refines (eval_list d n rho va es) (eval_list d m rho va es).
Proof. intros Hle. apply (mono_at_le d n m Hle). Qed.
Lemma eval_list_mono d n m (rho : env) (va : list value) (es : list expr) s0 r s1 :
  (n <= m)%nat -> eval_list d n rho va es s0 = Ok r s1 -> eval_list d m rho va es s0 = Ok r s1.
Proof. intros Hle. apply refines_ok, eval_list_refines_le, Hle. Qed.

Lemma eval_args_refines_le d n m (rho : env) (va : list value) (a : args) : (n <= m)%nat -> refines (eval_args d n rho va a) (eval_args d m rho va a).
Proof. intros Hle. apply (mono_at_le d n m Hle). Qed.
Lemma eval_args_mono d n m (rho : env) (va : list value) (a : args) s0 r s1 :
  (n <= m)%nat -> eval_args d n rho va a s0 = Ok r s1 -> eval_args d m rho va a s0 = Ok r s1.
Proof. intros Hle. apply refines_ok, eval_args_refines_le, Hle. Qed.

Lemma fill_table_refines_le d n m (rho : env) (va : list value) (a : N) (entries : list tentry) (pos : Z) : (n <= m)%nat -> refines (fill_table d n rho va a entries pos) (fill_table d m rho va a entries pos).
Proof. intros Hle. apply (mono_at_le d n m Hle). Qed.
Lemma fill_table_mono d n m (rho : env) (va : list value) (a : N) (entries : list tentry) (pos : Z) s0 r s1 :
  (n <= m)%nat -> fill_table d n rho va a entries pos s0 = Ok r s1 -> fill_table d m rho va a entries pos s0 = Ok r s1.
Proof. intros Hle. apply refines_ok, fill_table_refines_le, Hle. Qed.

Lemma exec_block_refines_le d n m (rho : env) (va : list value) (b : block) : (n <= m)%nat -> refines (exec_block d n rho va b) (exec_block d m rho va b).
Proof. intros Hle. apply (mono_at_le d n m Hle). Qed.
Lemma exec_block_mono d n m (rho : env) (va : list value) (b : block) s0 r s1 :
  (n <= m)%nat -> exec_block d n rho va b s0 = Ok r s1 -> exec_block d m rho va b s0 = Ok r s1.
Proof. intros Hle. apply refines_ok, exec_block_refines_le, Hle. Qed.

Lemma exec_stmts_refines_le d n m (rho : env) (va : list value) (ss : list stmt) (last : option laststmt) : (n <= m)%nat -> refines (exec_stmts d n rho va ss last) (exec_stmts d m rho va ss last).
Proof. intros Hle. apply (mono_at_le d n m Hle). Qed.
Lemma exec_stmts_mono d n m (rho : env) (va : list value) (ss : list stmt) (last : option laststmt) s0 r s1 :
  (n <= m)%nat -> exec_stmts d n rho va ss last s0 = Ok r s1 -> exec_stmts d m rho va ss last s0 = Ok r s1.
Proof. intros Hle. apply refines_ok, exec_stmts_refines_le, Hle. Qed.

Lemma assign_target_refines_le d n m (rho : env) (tgt : (option N * value * value)) (v : value) : (n <= m)%nat -> refines (assign_target d n rho tgt v) (assign_target d m rho tgt v).
Proof. intros Hle. apply (mono_at_le d n m Hle). Qed.
Lemma assign_target_mono d n m (rho : env) (tgt : (option N * value * value)) (v : value) s0 r s1 :
  (n <= m)%nat -> assign_target d n rho tgt v s0 = Ok r s1 -> assign_target d m rho tgt v s0 = Ok r s1.
Proof. intros Hle. apply refines_ok, assign_target_refines_le, Hle. Qed.

Lemma eval_target_refines_le d n m (rho : env) (va : list value) (e : expr) : (n <= m)%nat -> refines (eval_target d n rho va e) (eval_target d m rho va e).
Proof. intros Hle. apply (mono_at_le d n m Hle). Qed.
Lemma eval_target_mono d n m (rho : env) (va : list value) (e : expr) s0 r s1 :
  (n <= m)%nat -> eval_target d n rho va e s0 = Ok r s1 -> eval_target d m rho va e s0 = Ok r s1.
Proof. intros Hle. apply refines_ok, eval_target_refines_le, Hle. Qed.

Lemma exec_stmt_refines_le d n m (rho : env) (va : list value) (st : stmt) : (n <= m)%nat -> refines (exec_stmt d n rho va st) (exec_stmt d m rho va st).
Proof. intros Hle. apply (mono_at_le d n m Hle). Qed.
Lemma exec_stmt_mono d n m (rho : env) (va : list value) (st : stmt) s0 r s1 :
  (n <= m)%nat -> exec_stmt d n rho va st s0 = Ok r s1 -> exec_stmt d m rho va st s0 = Ok r s1.
Proof. intros Hle. apply refines_ok, exec_stmt_refines_le, Hle. Qed.

Lemma exec_while_refines_le d n m (rho : env) (va : list value) (c : expr) (b : block) : (n <= m)%nat -> refines (exec_while d n rho va c b) (exec_while d m rho va c b).
Proof. intros Hle. apply (mono_at_le d n m Hle). Qed.
Lemma exec_while_mono d n m (rho : env) (va : list value) (c : expr) (b : block) s0 r s1 :
  (n <= m)%nat -> exec_while d n rho va c b s0 = Ok r s1 -> exec_while d m rho va c b s0 = Ok r s1.
Proof. intros Hle. apply refines_ok, exec_while_refines_le, Hle. Qed.

Lemma exec_repeat_refines_le d n m (rho : env) (va : list value) (b : block) (c : expr) : (n <= m)%nat -> refines (exec_repeat d n rho va b c) (exec_repeat d m rho va b c).
Proof. intros Hle. apply (mono_at_le d n m Hle). Qed.
Lemma exec_repeat_mono d n m (rho : env) (va : list value) (b : block) (c : expr) s0 r s1 :
  (n <= m)%nat -> exec_repeat d n rho va b c s0 = Ok r s1 -> exec_repeat d m rho va b c s0 = Ok r s1.
Proof. intros Hle. apply refines_ok, exec_repeat_refines_le, Hle. Qed.

Lemma exec_numfor_refines_le d n m (rho : env) (va : list value) (x : name) (i stop step : f64) (b : block) : (n <= m)%nat -> refines (exec_numfor d n rho va x i stop step b) (exec_numfor d m rho va x i stop step b).
Proof. intros Hle. apply (mono_at_le d n m Hle). Qed.
Lemma exec_numfor_mono d n m (rho : env) (va : list value) (x : name) (i stop step : f64) (b : block) s0 r s1 :
  (n <= m)%nat -> exec_numfor d n rho va x i stop step b s0 = Ok r s1 -> exec_numfor d m rho va x i stop step b s0 = Ok r s1.
Proof. intros Hle. apply refines_ok, exec_numfor_refines_le, Hle. Qed.

Lemma exec_genfor_refines_le d n m (rho : env) (va : list value) (vars : list param) (f s ctl : value) (b : block) : (n <= m)%nat -> refines (exec_genfor d n rho va vars f s ctl b) (exec_genfor d m rho va vars f s ctl b).
Proof. intros Hle. apply (mono_at_le d n m Hle). Qed.
Lemma exec_genfor_mono d n m (rho : env) (va : list value) (vars : list param) (f s ctl : value) (b : block) s0 r s1 :
  (n <= m)%nat -> exec_genfor d n rho va vars f s ctl b s0 = Ok r s1 -> exec_genfor d m rho va vars f s ctl b s0 = Ok r s1.
Proof. intros Hle. apply refines_ok, exec_genfor_refines_le, Hle. Qed.

Print Assumptions fuel_monotone.
Print Assumptions eval_mono.
