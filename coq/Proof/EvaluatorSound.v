(** Soundness of darklua's static evaluator model ([Model/Evaluator.v]) against the reference
    interpreter ([Lua/Sem.v]): [single_sound], [evaluate_sound], [pure_sound]. *)
From Coq Require Import ZArith NArith List Bool String Lia.
From Coq Require Import Floats.SpecFloat.
From DL Require Import Lib.Bytes Lib.F64 Lua.Syntax Lua.Sem Model.StringLit Model.NumberLit
  Model.Evaluator Lua.EvalSpec Lua.EvalSpec2 Proof.SemFacts Proof.EvaluatorStore Proof.EvaluatorF64
  Proof.EvaluatorCoercion Proof.EvaluatorInv.
Import ListNotations.
Open Scope N_scope.
Local Notation llen := List.length.

(** * [single_sound] *)

Lemma if_go_single d n rho va els : forall bs s vs s',
  if_go d n rho va els bs s = Ok vs s' -> llen vs = 1%nat.
Proof.
  induction bs as [|[c r] bs IH]; intros s vs s' H.
  - rewrite if_go_nil in H. inv_ok H. subst. reflexivity.
  - rewrite if_go_cons in H. inv_ok H. destruct (truthy a).
    + inv_ok H1. subst. reflexivity.
    + eapply IH; eauto.
Qed.

Lemma interp_go_single d n rho va : forall segs acc s vs s',
  interp_go d n rho va segs acc s = Ok vs s' -> llen vs = 1%nat.
Proof.
  induction segs as [|[x|e] segs IH]; intros acc s vs s' H.
  - rewrite interp_go_nil in H. inv_ok H. subst. reflexivity.
  - rewrite interp_go_str in H. eapply IH; eauto.
  - rewrite interp_go_expr in H. inv_ok H. destruct a0; try (inv_ok H2; fail). eapply IH; eauto.
Qed.

Theorem single_sound : forall d n rho va e s vs s',
  can_return_multiple_values e = false ->
  eval d n rho va e s = Ok vs s' -> List.length vs = 1%nat.
Proof.
  intros d n rho va e s vs s' Hc H. destruct n; [discriminate|].
  destruct e; try discriminate Hc.
  - rewrite eval_S_nil in H. inv_ok H; subst; reflexivity.
  - rewrite eval_S_true in H. inv_ok H; subst; reflexivity.
  - rewrite eval_S_false in H. inv_ok H; subst; reflexivity.
  - rewrite eval_S_number in H. inv_ok H; subst; reflexivity.
  - rewrite eval_S_string in H. inv_ok H; subst; reflexivity.
  - rewrite eval_S_interp in H. eapply interp_go_single; eauto.
  - rewrite eval_S_ident in H. destruct (lookup rho x).
    + inv_ok H. subst; reflexivity.
    + inv_ok H. destruct a; try (inv_ok H1; subst; reflexivity).
      destruct (is_ext_name x); inv_ok H1; subst; reflexivity.
  - rewrite eval_S_field in H. inv_ok H. subst; reflexivity.
  - rewrite eval_S_index in H. inv_ok H. subst; reflexivity.
  - rewrite eval_S_function in H. inv_ok H. subst; reflexivity.
  - rewrite eval_S_if in H. eapply if_go_single; eauto.
  - rewrite eval_S_paren in H. inv_ok H. subst; reflexivity.
  - rewrite eval_S_table in H. inv_ok H. subst; reflexivity.
  - destruct op; try discriminate Hc.
    + rewrite eval_S_and in H. inv_ok H. destruct (truthy a); inv_ok H1; subst; reflexivity.
    + rewrite eval_S_or in H. inv_ok H. destruct (truthy a); inv_ok H1; subst; reflexivity.
  - rewrite eval_S_typecast in H. inv_ok H. subst; reflexivity.
  - rewrite eval_S_typeinst in H. inv_ok H. subst; reflexivity.
Qed.

(** * [evaluate_sound] and [pure_sound] *)

Theorem evaluate_sound : forall d e n rho va s vs s',
  deep_safe d e = true -> ctor_pure d e = true -> env_plain s ->
  eval d n rho va e s = Ok vs s' ->
  lv_matches s' (evaluate e) (first vs).
Proof.
  intros d e n rho va s vs s' Hd Hc He H.
  unfold deep_safe in Hd. apply andb_true_iff in Hd as [Hd _].
  destruct (evaluate e) eqn:E; try exact I; rewrite <- E;
    (eapply lv_ok_matches;
     eapply (proj1 (main_all d n) true e rho va s vs s'); [|exact He|exact H];
     cbn [Hyp]; unfold HypK; split; [exact Hd|split; [exact Hc|congruence]]).
Qed.

Theorem pure_sound : forall d e n rho va s vs s',
  has_side_effects false e = false -> deep_safe d e = true -> env_plain s ->
  eval d n rho va e s = Ok vs s' -> store_extends s s'.
Proof.
  intros d e n rho va s vs s' Hs Hd He H.
  unfold deep_safe in Hd. apply andb_true_iff in Hd as [Hd Ht].
  eapply (proj1 (main_all d n) false e rho va s vs s'); [|exact He|exact H].
  cbn [Hyp]. unfold HypP. auto.
Qed.

(** a pure expression is moreover described by its static value (no [ctor_pure] needed) *)
Theorem pure_evaluate_sound : forall d e n rho va s vs s',
  has_side_effects false e = false -> deep_safe d e = true -> env_plain s ->
  eval d n rho va e s = Ok vs s' -> lv_matches s' (evaluate e) (first vs).
Proof.
  intros d e n rho va s vs s' Hs Hd He H.
  unfold deep_safe in Hd. apply andb_true_iff in Hd as [Hd Ht].
  eapply lv_ok_matches.
  eapply (proj1 (main_all d n) false e rho va s vs s'); [|exact He|exact H].
  cbn [Hyp]. unfold HypP. auto.
Qed.

(** * Witnesses: the carve-outs are necessary *)

Definition b (s : string) : bytes := of_string s.
Definition num (x : f64) : expr := ENumber (NDec (to_bits x) None).
Definition n_0_1 : f64 := of_decimal_c false 1 (-1).
Definition n_0_2 : f64 := of_decimal_c false 2 (-1).

Lemma env_plain_initial orc : env_plain (initial_store orc).
Proof.
  split.
  - eexists. split; [reflexivity|reflexivity].
  - eexists. split; [reflexivity|reflexivity].
Qed.

Definition ok_vs (r : res (list value)) : list value := match r with Ok vs _ => vs | _ => [] end.
Definition ok_st (s : store) (r : res (list value)) : store := match r with Ok _ s' => s' | _ => s end.

(** [(0.1 + 0.2) .. ""]: Rust prints 0.30000000000000004, Lua 5.1 prints 0.3 ([%.14g]) *)
Definition e_concat : expr := EBinary BConcat (EBinary BAdd (num n_0_1) (num n_0_2)) (EString []).

Theorem evaluate_sound_refuted_dialect : exists d e n rho va s vs s',
  ctor_pure d e = true /\ env_plain s /\ eval d n rho va e s = Ok vs s' /\
  ~ lv_matches s' (evaluate e) (first vs).
Proof.
  set (s := initial_store []). set (r := eval L51 10 [] [] e_concat s).
  exists L51, e_concat, 10%nat, [], [], s, (ok_vs r), (ok_st s r).
  split; [reflexivity|]. split; [apply env_plain_initial|]. split; [vm_compute; reflexivity|].
  vm_compute. intros E. discriminate E.
Qed.

(** [5 % (1/0)]: darklua folds with a - b*floor(a/b) = nan, Luau computes fmod = 5 *)
Definition e_mod : expr :=
  EBinary BMod (num (of_Z 5)) (EBinary BDiv (num (of_Z 1)) (num (of_Z 0))).

Theorem evaluate_sound_refuted_mod : exists d e n rho va s vs s',
  ctor_pure d e = true /\ concat_safe d e = true /\ env_plain s /\ eval d n rho va e s = Ok vs s' /\
  ~ lv_matches s' (evaluate e) (first vs).
Proof.
  set (s := initial_store []). set (r := eval Luau 10 [] [] e_mod s).
  exists Luau, e_mod, 10%nat, [], [], s, (ok_vs r), (ok_st s r).
  split; [reflexivity|]. split; [reflexivity|]. split; [apply env_plain_initial|].
  split; [vm_compute; reflexivity|].
  vm_compute. intros E. discriminate E.
Qed.

(** an interpolated string [`{ ({ (function() getmetatable("").__tostring = function() return "evil" end end)() } and "x") }`]:
    the entry of the table constructor installs [__tostring] in the string metatable
    before the sibling "x" is rendered *)
Definition fb (blk : block) : fbody := FBody [] false None None None 0 blk.
Definition f_evil : expr := EFunction (fb (Block [] (Some (LReturn [EString (b "evil")])))).
Definition f_tamper : expr :=
  EFunction (fb (Block [SAssign [EField (ECall (EIdent (b "getmetatable")) None (AString [])) (b "__tostring")]
                               [f_evil]] None)).
Definition e_tamper : expr :=
  EInterp [ISExpr (EBinary BAnd (ETable [TValue (ECall f_tamper None (ATuple []))]) (EString (b "x")))].

Theorem evaluate_sound_refuted_ctor : exists d e n rho va s vs s',
  deep_safe d e = true /\ env_plain s /\ eval d n rho va e s = Ok vs s' /\
  ~ lv_matches s' (evaluate e) (first vs).
Proof.
  set (s := initial_store []). set (r := eval L51 30 [] [] e_tamper s).
  exists L51, e_tamper, 30%nat, [], [], s, (ok_vs r), (ok_st s r).
  split; [reflexivity|]. split; [apply env_plain_initial|]. split; [vm_compute; reflexivity|].
  vm_compute. intros E. discriminate E.
Qed.

(** [((0.1 + 0.2) .. "" == "0.3") and ext_f()]: statically the comparison is false, so the
    call is believed dead; under Lua 5.1 it is true and the call runs *)
Definition e_dead_call : expr :=
  EBinary BAnd (EBinary BEq e_concat (EString (b "0.3"))) (ECall (EIdent (b "ext_f")) None (ATuple [])).

Theorem pure_sound_refuted_dialect : exists d e n rho va s vs s',
  has_side_effects false e = false /\ env_plain s /\ eval d n rho va e s = Ok vs s' /\
  ~ store_extends s s'.
Proof.
  set (s := initial_store []). set (r := eval L51 20 [] [] e_dead_call s).
  exists L51, e_dead_call, 20%nat, [], [], s, (ok_vs r), (ok_st s r).
  split; [vm_compute; reflexivity|]. split; [apply env_plain_initial|]. split; [vm_compute; reflexivity|].
  intros (Ht & _). vm_compute in Ht. discriminate Ht.
Qed.

(** the same inside a table constructor: [dialect_safe] alone (which stops at table
    constructors) does not suffice, [deep_safe] is needed *)
Theorem pure_sound_refuted_shallow : exists d e n rho va s vs s',
  has_side_effects false e = false /\ dialect_safe d e = true /\ env_plain s /\
  eval d n rho va e s = Ok vs s' /\ ~ store_extends s s'.
Proof.
  set (s := initial_store []). set (e := ETable [TValue e_dead_call]). set (r := eval L51 20 [] [] e s).
  exists L51, e, 20%nat, [], [], s, (ok_vs r), (ok_st s r).
  split; [vm_compute; reflexivity|]. split; [reflexivity|]. split; [apply env_plain_initial|].
  split; [vm_compute; reflexivity|].
  intros (Ht & _). vm_compute in Ht. discriminate Ht.
Qed.

(** * Satisfiability: the hypotheses hold of a non-trivial expression that evaluates *)

(** [("1" .. "0") + 1 == 11 and not nil] *)
Definition e_example : expr :=
  EBinary BAnd
    (EBinary BEq (EBinary BAdd (EBinary BConcat (EString (b "1")) (EString (b "0"))) (num (of_Z 1)))
                 (num (of_Z 11)))
    (EUnary UNot ENil).

Example evaluator_example :
  let s := initial_store [] in
  deep_safe L51 e_example = true /\ deep_safe Luau e_example = true /\
  ctor_pure L51 e_example = true /\ ctor_pure Luau e_example = true /\
  has_side_effects false e_example = false /\ env_plain s /\
  evaluate e_example = LTrue /\
  (exists s', eval L51 20 [] [] e_example s = Ok [VBool true] s') /\
  (exists s', eval Luau 20 [] [] e_example s = Ok [VBool true] s').
Proof.
  cbv zeta. repeat split; try (vm_compute; reflexivity); try apply env_plain_initial.
  - eexists. vm_compute. reflexivity.
  - eexists. vm_compute. reflexivity.
Qed.

(** a table constructor with pure entries, an if-expression and an interpolated string *)
Definition e_example2 : expr :=
  EInterp [ISStr (b "v="); ISExpr (EIf [EBranch (EBinary BLt (num (of_Z 1)) (num (of_Z 2)))
                                               (EBinary BAnd (ETable [TValue (EIdent (b "x")); TField (b "k") (EString (b "v"))])
                                                             (EString (b "yes")))]
                                       (EString (b "no")))].

Example evaluator_example2 :
  let s := initial_store [] in
  deep_safe L51 e_example2 = true /\ ctor_pure L51 e_example2 = true /\
  has_side_effects false e_example2 = false /\ env_plain s /\
  evaluate e_example2 = LString (b "v=yes") /\
  (exists s', eval L51 20 [] [] e_example2 s = Ok [VStr (b "v=yes")] s').
Proof.
  cbv zeta. repeat split; try (vm_compute; reflexivity); try apply env_plain_initial.
  eexists. vm_compute. reflexivity.
Qed.

Print Assumptions single_sound.
Print Assumptions evaluate_sound.
Print Assumptions pure_sound.
