(** Soundness of darklua's static evaluator model ([Model/Evaluator.v]) against the reference
    interpreter ([Lua/Sem.v]): [single_sound], [evaluate_sound], [pure_sound]. *)
From Coq Require Import ZArith NArith List Bool String Lia.
From Coq Require Import Floats.SpecFloat.
From DL Require Import Lib.Bytes Lib.F64 Lua.Syntax Lua.Sem Model.StringLit Model.NumberLit
  Model.Evaluator Lua.EvalSpec Lua.EvalSpec2 Proof.SemFacts Proof.EvaluatorStore Proof.EvaluatorF64.
Import ListNotations.
Open Scope N_scope.
Local Notation llen := List.length.

(** * [single_sound] *)

Lemma if_go_single d n rho va els : forall bs s vs s',
  if_go d n rho va els bs s = Ok vs s' -> llen vs = 1%nat.
Proof.
  induction bs as [|[c r] bs IH]; intros s vs s' H.
  - rewrite if_go_nil in H. inv_ok H. subst. reflexivity.
  - rewrite if_go_cons in H. inv_ok H. destruct (truthy a).
    + inv_ok H1. subst. reflexivity.
    + eapply IH; eauto.
Qed.

Lemma interp_go_single d n rho va : forall segs acc s vs s',
  interp_go d n rho va segs acc s = Ok vs s' -> llen vs = 1%nat.
Proof.
  induction segs as [|[x|e] segs IH]; intros acc s vs s' H.
  - rewrite interp_go_nil in H. inv_ok H. subst. reflexivity.
  - rewrite interp_go_str in H. eapply IH; eauto.
  - rewrite interp_go_expr in H. inv_ok H. destruct a0; try (inv_ok H2; fail). eapply IH; eauto.
Qed.

Theorem single_sound : forall d n rho va e s vs s',
  can_return_multiple_values e = false ->
  eval d n rho va e s = Ok vs s' -> List.length vs = 1%nat.
Proof.
  intros d n rho va e s vs s' Hc H. destruct n; [discriminate|].
  destruct e; try discriminate Hc.
  - rewrite eval_S_nil in H. inv_ok H; subst; reflexivity.
  - rewrite eval_S_true in H. inv_ok H; subst; reflexivity.
  - rewrite eval_S_false in H. inv_ok H; subst; reflexivity.
  - rewrite eval_S_number in H. inv_ok H; subst; reflexivity.
  - rewrite eval_S_string in H. inv_ok H; subst; reflexivity.
  - rewrite eval_S_interp in H. eapply interp_go_single; eauto.
  - rewrite eval_S_ident in H. destruct (lookup rho x).
    + inv_ok H. subst; reflexivity.
    + inv_ok H. destruct a; try (inv_ok H1; subst; reflexivity).
      destruct (is_ext_name x); inv_ok H1; subst; reflexivity.
  - rewrite eval_S_field in H. inv_ok H. subst; reflexivity.
  - rewrite eval_S_index in H. inv_ok H. subst; reflexivity.
  - rewrite eval_S_function in H. inv_ok H. subst; reflexivity.
  - rewrite eval_S_if in H. eapply if_go_single; eauto.
  - rewrite eval_S_paren in H. inv_ok H. subst; reflexivity.
  - rewrite eval_S_table in H. inv_ok H. subst; reflexivity.
  - destruct op; try discriminate Hc.
    + rewrite eval_S_and in H. inv_ok H. destruct (truthy a); inv_ok H1; subst; reflexivity.
    + rewrite eval_S_or in H. inv_ok H. destruct (truthy a); inv_ok H1; subst; reflexivity.
  - rewrite eval_S_typecast in H. inv_ok H. subst; reflexivity.
  - rewrite eval_S_typeinst in H. inv_ok H. subst; reflexivity.
Qed.
