(** [nameless] is idempotent (Lua/Resolve.v), through a monotonicity lemma for the
    occurrence predicate [ao_*] under an invariant of the environment. *)
From Coq Require Import Arith PeanoNat NArith List Bool Lia.
From DL Require Import Lib.Bytes Lua.Syntax Lua.Resolve Proof.ResolveInd Proof.ResolveFacts.
Import ListNotations.

Section Mono.
Variable pick : renv -> name -> name.
Variables p q : renv -> name -> bool.
Variable I : renv -> Prop.
Hypothesis I_bind : forall env x, I env -> I (bind pick env x).
Hypothesis I_self : forall env, I env -> I (bind_self env).
Hypothesis Hpq : forall env x, I env -> p env x = true -> q env x = true.

Definition M {A} (ap aq : renv -> A -> bool) (a : A) : Prop :=
  forall env, I env -> ap env a = true -> aq env a = true.

Definition Mty := M (ao_ty pick p) (ao_ty pick q).
Definition Mexpr := M (ao_expr pick p) (ao_expr pick q).
Definition Miseg := M (ao_iseg pick p) (ao_iseg pick q).
Definition Mebranch := M (ao_ebranch pick p) (ao_ebranch pick q).
Definition Margs := M (ao_args pick p) (ao_args pick q).
Definition Mtentry := M (ao_tentry pick p) (ao_tentry pick q).
Definition Mfbody (f : fbody) : Prop :=
  forall ws, M (fun env => ao_fbody pick p env ws) (fun env => ao_fbody pick q env ws) f.
Definition Mparam (x : param) : Prop :=
  match x with Param _ t => forall env, I env -> optb (ao_ty pick p env) t = true -> optb (ao_ty pick q env) t = true end.
Definition Mstmt := M (ao_stmt pick p) (ao_stmt pick q).
Definition Msbranch := M (ao_sbranch pick p) (ao_sbranch pick q).
Definition Mblock := M (ao_block pick p) (ao_block pick q).
Definition Mlast := M (ao_last pick p) (ao_last pick q).

Lemma forallb_mono {A} (ap aq : renv -> A -> bool) l env :
  Forall (M ap aq) l -> I env -> forallb (ap env) l = true -> forallb (aq env) l = true.
Proof.
  intros F HI. induction F as [|a l Ha F IH]; intros H; [reflexivity|].
  cbn [forallb] in *. apply andb_true_iff in H as [H1 H2]. apply andb_true_iff. split; [now apply Ha | now apply IH].
Qed.

Lemma optb_mono {A} (ap aq : renv -> A -> bool) o env :
  OptP (M ap aq) o -> I env -> optb (ap env) o = true -> optb (aq env) o = true.
Proof. intros F HI H. destruct o; [now apply F | reflexivity]. Qed.

Lemma params_mono ps env :
  Forall Mparam ps -> I env -> ao_params (ao_ty pick p env) ps = true -> ao_params (ao_ty pick q env) ps = true.
Proof.
  intros F HI. unfold ao_params. induction F as [|[x t] l Ha F IH]; intros H; [reflexivity|].
  cbn [forallb] in *. apply andb_true_iff in H as [H1 H2]. apply andb_true_iff. split; [now apply Ha | now apply IH].
Qed.

Lemma I_bind_all xs : forall env, I env -> I (bind_all pick env xs).
Proof.
  induction xs as [|x xs IH]; intros env HI; [exact HI|].
  unfold bind_all in *. cbn [fold_left]. apply IH. now apply I_bind.
Qed.

Lemma I_stmt_env s env : I env -> I (stmt_env pick env s).
Proof. intros HI. destruct s; try exact HI; cbn [stmt_env]; [now apply I_bind_all | now apply I_bind]. Qed.

Lemma I_seq_env ss : forall env, I env -> I (seq_env (stmt_env pick) env ss).
Proof.
  induction ss as [|s ss IH]; intros env HI; [exact HI|].
  unfold seq_env in *. cbn [fold_left]. apply IH. now apply I_stmt_env.
Qed.

Lemma seq_mono ss : Forall Mstmt ss -> forall env, I env ->
  seq_forallb (stmt_env pick) (ao_stmt pick p) env ss = true ->
  seq_forallb (stmt_env pick) (ao_stmt pick q) env ss = true.
Proof.
  intros F. induction F as [|s ss Hs F IH]; intros env HI H; [reflexivity|].
  cbn [seq_forallb] in *. apply andb_true_iff in H as [H1 H2]. apply andb_true_iff. split.
  - now apply Hs.
  - apply IH; [now apply I_stmt_env | exact H2].
Qed.

Ltac fold_aop r H :=
  fold (ao_ty pick r) (ao_expr pick r) (ao_iseg pick r) (ao_ebranch pick r) (ao_args pick r)
       (ao_tentry pick r) (ao_fbody pick r) (ao_stmt pick r) (ao_sbranch pick r)
       (ao_block pick r) (ao_last pick r) in H.
Ltac fold_aog r :=
  fold (ao_ty pick r) (ao_expr pick r) (ao_iseg pick r) (ao_ebranch pick r) (ao_args pick r)
       (ao_tentry pick r) (ao_fbody pick r) (ao_stmt pick r) (ao_sbranch pick r)
       (ao_block pick r) (ao_last pick r).
Ltac unf H :=
  cbn [ao_ty ao_expr ao_iseg ao_ebranch ao_args ao_tentry ao_fbody ao_stmt ao_sbranch ao_block ao_last] in H;
  cbv zeta in H; fold_aop p H;
  cbn [ao_ty ao_expr ao_iseg ao_ebranch ao_args ao_tentry ao_fbody ao_stmt ao_sbranch ao_block ao_last];
  cbv zeta; fold_aog q.
Ltac split_ands :=
  repeat match goal with
         | H : _ && _ = true |- _ => apply andb_true_iff in H; destruct H
         end.
Ltac finish :=
  repeat (apply andb_true_iff; split);
  eauto using forallb_mono, optb_mono, params_mono, I_bind_all, I_bind, I_self, I_seq_env, seq_mono.
Ltac expose :=
  repeat match goal with
         | H : Mty _ |- _ => hnf in H
         | H : Mexpr _ |- _ => hnf in H
         | H : Miseg _ |- _ => hnf in H
         | H : Mebranch _ |- _ => hnf in H
         | H : Margs _ |- _ => hnf in H
         | H : Mtentry _ |- _ => hnf in H
         | H : Mfbody _ |- _ => unfold Mfbody, M in H
         | H : Mstmt _ |- _ => hnf in H
         | H : Msbranch _ |- _ => hnf in H
         | H : Mblock _ |- _ => hnf in H
         | H : Mlast _ |- _ => hnf in H
         end.
Ltac mono := intros; repeat (progress (hnf; intros)); match goal with HH : _ = true |- _ => unf HH end; split_ands; expose; finish.

Lemma m_TyNode k subs es : Forall Mty subs -> Forall Mexpr es -> Mty (TyNode k subs es).
Proof. mono. Qed.
Lemma m_triv e : (forall r env, ao_expr pick r env e = true) -> Mexpr e.
Proof. intros E env _ _. apply E. Qed.
Lemma m_EInterp segs : Forall Miseg segs -> Mexpr (EInterp segs).
Proof. mono. Qed.
Lemma m_EIdent x : Mexpr (EIdent x).
Proof. mono. Qed.
Lemma m_EField e f : Mexpr e -> Mexpr (EField e f).
Proof. mono. Qed.
Lemma m_EIndex e k : Mexpr e -> Mexpr k -> Mexpr (EIndex e k).
Proof. mono. Qed.
Lemma m_ECall e m a : Mexpr e -> Margs a -> Mexpr (ECall e m a).
Proof. mono. Qed.
Lemma m_EFunction f : Mfbody f -> Mexpr (EFunction f).
Proof. mono. Qed.
Lemma m_EIf bs els : Forall Mebranch bs -> Mexpr els -> Mexpr (EIf bs els).
Proof. mono. Qed.
Lemma m_EParen e : Mexpr e -> Mexpr (EParen e).
Proof. mono. Qed.
Lemma m_ETable entries : Forall Mtentry entries -> Mexpr (ETable entries).
Proof. mono. Qed.
Lemma m_EUnary op e : Mexpr e -> Mexpr (EUnary op e).
Proof. mono. Qed.
Lemma m_EBinary op l r : Mexpr l -> Mexpr r -> Mexpr (EBinary op l r).
Proof. mono. Qed.
Lemma m_ETypeCast e t : Mexpr e -> Mty t -> Mexpr (ETypeCast e t).
Proof. mono. Qed.
Lemma m_ETypeInst e tys : Mexpr e -> Forall Mty tys -> Mexpr (ETypeInst e tys).
Proof. mono. Qed.
Lemma m_ISStr s : Miseg (ISStr s).
Proof. mono. Qed.
Lemma m_ISExpr e : Mexpr e -> Miseg (ISExpr e).
Proof. mono. Qed.
Lemma m_EBranch c r : Mexpr c -> Mexpr r -> Mebranch (EBranch c r).
Proof. mono. Qed.
Lemma m_ATuple es : Forall Mexpr es -> Margs (ATuple es).
Proof. mono. Qed.
Lemma m_AString s : Margs (AString s).
Proof. mono. Qed.
Lemma m_ATable entries : Forall Mtentry entries -> Margs (ATable entries).
Proof. mono. Qed.
Lemma m_TField f v : Mexpr v -> Mtentry (TField f v).
Proof. mono. Qed.
Lemma m_TIndex k v : Mexpr k -> Mexpr v -> Mtentry (TIndex k v).
Proof. mono. Qed.
Lemma m_TValue v : Mexpr v -> Mtentry (TValue v).
Proof. mono. Qed.
Lemma m_FBody ps va vt rt gen attrs body :
  Forall Mparam ps -> OptP Mty vt -> OptP Mty rt -> OptP Mty gen -> Mblock body ->
  Mfbody (FBody ps va vt rt gen attrs body).
Proof.
  mono. match goal with Hb : forall env, I env -> ao_block pick p env body = true -> _ |- _ => apply Hb; [|assumption] end.
  apply I_bind_all. destruct ws; auto.
Qed.
Lemma m_Param x t : OptP Mty t -> Mparam (Param x t).
Proof. intros Ht env HI H. now apply (optb_mono _ _ _ _ Ht). Qed.
Lemma m_SAssign vars vals : Forall Mexpr vars -> Forall Mexpr vals -> Mstmt (SAssign vars vals).
Proof. mono. Qed.
Lemma m_SDo b : Mblock b -> Mstmt (SDo b).
Proof. mono. Qed.
Lemma m_SCall c : Mexpr c -> Mstmt (SCall c).
Proof. mono. Qed.
Lemma m_SCompound op var v : Mexpr var -> Mexpr v -> Mstmt (SCompound op var v).
Proof. mono. Qed.
Lemma m_SFunction base fields method f : Mfbody f -> Mstmt (SFunction base fields method f).
Proof. mono. Qed.
Lemma m_SGenericFor vars es b : Forall Mparam vars -> Forall Mexpr es -> Mblock b -> Mstmt (SGenericFor vars es b).
Proof. mono. Qed.
Lemma m_SIf bs els : Forall Msbranch bs -> OptP Mblock els -> Mstmt (SIf bs els).
Proof. mono. Qed.
Lemma m_SLocal c vars vals : Forall Mparam vars -> Forall Mexpr vals -> Mstmt (SLocal c vars vals).
Proof. mono. Qed.
Lemma m_SLocalFunction x f : Mfbody f -> Mstmt (SLocalFunction x f).
Proof. mono. Qed.
Lemma m_SNumericFor var a b step body :
  Mparam var -> Mexpr a -> Mexpr b -> OptP Mexpr step -> Mblock body -> Mstmt (SNumericFor var a b step body).
Proof. destruct var as [x t]. mono. Qed.
Lemma m_SRepeat b c : Mblock b -> Mexpr c -> Mstmt (SRepeat b c).
Proof.
  intros Hb Hc env HI H. destruct b as [ss last]. unf H. split_ands.
  assert (Ha : ao_block pick q env (Block ss last) = true).
  { apply Hb; [exact HI|]. cbn [ao_block]. fold_aog p. apply andb_true_iff. split; assumption. }
  cbn [ao_block] in Ha. fold_aop q Ha. split_ands. expose. finish.
Qed.
Lemma m_SWhile c b : Mexpr c -> Mblock b -> Mstmt (SWhile c b).
Proof. mono. Qed.
Lemma m_STypeDecl ex x gen t : OptP Mty gen -> Mty t -> Mstmt (STypeDecl ex x gen t).
Proof. mono. Qed.
Lemma m_STypeFunction ex x f : Mfbody f -> Mstmt (STypeFunction ex x f).
Proof. mono. Qed.
Lemma m_SBranch c b : Mexpr c -> Mblock b -> Msbranch (SBranch c b).
Proof. mono. Qed.
Lemma m_Block ss last : Forall Mstmt ss -> OptP Mlast last -> Mblock (Block ss last).
Proof. mono. Qed.
Lemma m_LBreak : Mlast LBreak.
Proof. mono. Qed.
Lemma m_LContinue : Mlast LContinue.
Proof. mono. Qed.
Lemma m_LReturn es : Forall Mexpr es -> Mlast (LReturn es).
Proof. mono. Qed.

Definition mono_block : forall b, Mblock b :=
  ind_block Mty Mexpr Miseg Mebranch Margs Mtentry Mfbody Mparam Mstmt Msbranch Mblock Mlast
    m_TyNode
    (m_triv ENil (fun _ _ => eq_refl)) (m_triv ETrue (fun _ _ => eq_refl)) (m_triv EFalse (fun _ _ => eq_refl))
    (fun n => m_triv (ENumber n) (fun _ _ => eq_refl)) (fun s => m_triv (EString s) (fun _ _ => eq_refl))
    m_EInterp (m_triv EVarArgs (fun _ _ => eq_refl)) m_EIdent m_EField m_EIndex m_ECall m_EFunction m_EIf m_EParen
    m_ETable m_EUnary m_EBinary m_ETypeCast m_ETypeInst
    m_ISStr m_ISExpr m_EBranch m_ATuple m_AString m_ATable m_TField m_TIndex m_TValue
    m_FBody m_Param
    m_SAssign m_SDo m_SCall m_SCompound m_SFunction m_SGenericFor m_SIf m_SLocal m_SLocalFunction m_SNumericFor
    m_SRepeat m_SWhile m_STypeDecl m_STypeFunction
    m_SBranch m_Block m_LBreak m_LContinue m_LReturn.
End Mono.

(** ---------------------------------------------------------------------------------------
    environments built by the normaliser *)
Fixpoint ce (env : renv) : Prop :=
  match env with
  | [] => True
  | (o, n) :: r => (n = canon (List.length r) \/ (o = self_name /\ n = self_name)) /\ ce r
  end.

Lemma canon_inj k k' : canon k = canon k' -> k = k'.
Proof. unfold canon. intros H. inversion H. now apply Nat2N.inj. Qed.

Lemma canon_not_self k : canon k <> self_name.
Proof. unfold canon, self_name. intros H. inversion H. Qed.

Lemma is_canon_canon k : is_canon (canon k) = true.
Proof. reflexivity. Qed.

(** the new name of whatever [x] resolves to in a canonical environment *)
Lemma ce_lookup env x m :
  ce env -> lookup env x = Some m ->
  (x = self_name /\ m = self_name) \/ exists k, (k < List.length env)%nat /\ m = canon k.
Proof.
  induction env as [|[o n] r IH]; intros C H; [discriminate|].
  cbn [lookup] in H. destruct C as [Hd C]. destruct (bytes_eqb o x) eqn:E.
  - apply bytes_eqb_eq in E. subst o. inversion H; subst m.
    destruct Hd as [-> | [-> ->]]; [right; exists (List.length r); cbn; split; [lia | reflexivity] | now left].
  - destruct (IH C H) as [L | [k [Hk ->]]]; [now left|]. right. exists k. cbn. split; [lia | reflexivity].
Qed.

Lemma bytes_eqb_false a b : a <> b -> bytes_eqb a b = false.
Proof. intros NE. destruct (bytes_eqb a b) eqn:E; [apply bytes_eqb_eq in E; contradiction | reflexivity]. Qed.

Lemma ce_bound_ok env x i :
  ce env -> find_fst env x = Some i -> find_snd env (occ env x) = Some i.
Proof.
  revert i. induction env as [|[o n] r IH]; intros i C H; [discriminate|].
  destruct C as [Hd C]. cbn [find_fst] in H. unfold occ. cbn [lookup find_snd].
  destruct (bytes_eqb o x) eqn:E.
  - inversion H; subst i. now rewrite (proj2 (bytes_eqb_eq n n) eq_refl).
  - destruct (find_fst r x) as [i'|] eqn:F; [|discriminate]. cbn in H. inversion H; subst i.
    specialize (IH i' C eq_refl). unfold occ in IH.
    destruct (lookup r x) as [m|] eqn:L.
    + assert (NE : n <> m).
      { destruct (ce_lookup r x m C L) as [[-> ->] | [k [Hk ->]]].
        - destruct Hd as [-> | [-> ->]]; [apply canon_not_self|].
          intros _. rewrite (proj2 (bytes_eqb_eq self_name self_name) eq_refl) in E. discriminate.
        - destruct Hd as [-> | [-> ->]].
          + intros K. apply canon_inj in K. lia.
          + intros K. symmetry in K. now apply canon_not_self in K. }
      rewrite (bytes_eqb_false _ _ NE), IH. reflexivity.
    + exfalso. rewrite lookup_pos, F in L. discriminate.
Qed.

Lemma ce_free_ok env x :
  ce env -> find_fst env x = None -> is_canon x = false -> find_snd env x = None.
Proof.
  induction env as [|[o n] r IH]; intros C H NC; [reflexivity|].
  destruct C as [Hd C]. cbn [find_fst] in H. cbn [find_snd].
  destruct (bytes_eqb o x) eqn:E; [discriminate|].
  destruct (find_fst r x) eqn:F; [discriminate|].
  assert (NE : n <> x).
  { destruct Hd as [-> | [-> ->]].
    - intros K. subst x. cbn in NC. discriminate.
    - intros K. subst x. rewrite (proj2 (bytes_eqb_eq self_name self_name) eq_refl) in E. discriminate. }
  rewrite (bytes_eqb_false _ _ NE), (IH C eq_refl NC). reflexivity.
Qed.

Definition canon_free_at (env : renv) (x : name) : bool :=
  match lookup env x with Some _ => true | None => negb (is_canon x) end.

Lemma ce_occ_ok env x : ce env -> canon_free_at env x = true -> occ_ok env x = true.
Proof.
  intros C H. unfold canon_free_at in H. unfold occ_ok.
  destruct (find_fst env x) as [i|] eqn:F.
  - rewrite (ce_bound_ok env x i C F). cbn. apply Nat.eqb_refl.
  - assert (L : lookup env x = None) by (rewrite lookup_pos, F; reflexivity).
    rewrite L in H. apply negb_true_iff in H.
    unfold occ. rewrite L. now rewrite (ce_free_ok env x C F H).
Qed.

Lemma ce_bind env x : ce env -> ce (bind canon_pick env x).
Proof. intros C. unfold bind, canon_pick. cbn [ce]. split; [now left | exact C]. Qed.

Lemma ce_self env : ce env -> ce (bind_self env).
Proof. intros C. unfold bind_self. cbn [ce]. split; [right; split; reflexivity | exact C]. Qed.

Lemma canon_free_rename_ok b : canon_free b = true -> rename_ok canon_pick b = true.
Proof.
  intros H. unfold rename_ok.
  apply (mono_block canon_pick canon_free_at occ_ok ce ce_bind ce_self ce_occ_ok b [] I H).
Qed.

(** normalising twice is normalising once, for every tree whose free identifiers are not
    spelled like canonical names (no Lua identifier starts with '%') *)
Theorem nameless_idempotent : forall b, canon_free b = true -> nameless (nameless b) = nameless b.
Proof.
  intros b H. apply (nameless_rename_invariant canon_pick b). now apply canon_free_rename_ok.
Qed.

(** ---------------------------------------------------------------------------------------
    A sufficient condition for [rename_ok], in the terms of the renamer's invariant: every new
    name is distinct from the new names of the binders in scope, is not one of the names [G]
    (which contain every free identifier of the program) and is not [self]. *)
Section Fresh.
Variable pick : renv -> name -> name.
Variable G : list name.

Definition gmem (x : name) : bool := existsb (bytes_eqb x) G.
Definition free_in_at (env : renv) (x : name) : bool :=
  match lookup env x with Some _ => true | None => gmem x end.
(** every free identifier of b is in G *)
Definition free_in (b : block) : bool := ao_block pick free_in_at [] b.

Definition entry_ok (e : name * name) : Prop :=
  (fst e = self_name /\ snd e = self_name) \/ (gmem (snd e) = false /\ snd e <> self_name).
Definition coherent (env : renv) : Prop :=
  (forall x i, find_fst env x = Some i -> find_snd env (occ env x) = Some i) /\ Forall entry_ok env.

Hypothesis pick_fresh : forall env x, ~ In (pick env x) (map snd env).
Hypothesis pick_not_G : forall env x, gmem (pick env x) = false.
Hypothesis pick_not_self : forall env x, pick env x <> self_name.

Lemma occ_in env x m : lookup env x = Some m -> In m (map snd env).
Proof.
  induction env as [|[o n] r IH]; [discriminate|]. cbn [lookup map snd].
  destruct (bytes_eqb o x); [intros H; inversion H; now left | intros H; right; now apply IH].
Qed.

Lemma coherent_step env o n :
  coherent env -> entry_ok (o, n) ->
  (forall x m, bytes_eqb o x = false -> lookup env x = Some m -> n <> m) ->
  coherent ((o, n) :: env).
Proof.
  intros [C F] E NE. split; [|now constructor].
  intros x i H. cbn [find_fst] in H. unfold occ. cbn [lookup find_snd].
  destruct (bytes_eqb o x) eqn:Eo.
  - inversion H; subst i. now rewrite (proj2 (bytes_eqb_eq n n) eq_refl).
  - destruct (find_fst env x) as [i'|] eqn:Fx; [|discriminate]. cbn in H. inversion H; subst i.
    specialize (C x i' Fx). unfold occ in C.
    destruct (lookup env x) as [m|] eqn:L.
    + rewrite (bytes_eqb_false _ _ (NE x m Eo L)), C. reflexivity.
    + exfalso. rewrite lookup_pos, Fx in L. discriminate.
Qed.

Lemma coherent_bind env x : coherent env -> coherent (bind pick env x).
Proof.
  intros C. unfold bind. apply coherent_step; [exact C | |].
  - right. cbn [snd]. split; [apply pick_not_G | apply pick_not_self].
  - intros y m _ L K. apply (pick_fresh env x). rewrite K. now apply (occ_in env y).
Qed.

Lemma coherent_self env : coherent env -> coherent (bind_self env).
Proof.
  intros C. unfold bind_self. apply coherent_step; [exact C | left; split; reflexivity |].
  intros y m E L K. subst m. destruct C as [_ F].
  (* an entry of env maps y to self: it is (self, self), so y = self *)
  assert (H : forall env', Forall entry_ok env' -> lookup env' y = Some self_name -> y = self_name).
  { induction env' as [|[o n] r IH]; intros F' L'; [discriminate|].
    inversion F' as [|? ? He Fr]; subst. cbn [lookup] in L'. destruct (bytes_eqb o y) eqn:Eo.
    - inversion L'; subst n. apply bytes_eqb_eq in Eo. subst o.
      destruct He as [[He _] | [_ He]]; [exact He | cbn in He; contradiction].
    - now apply IH. }
  specialize (H env F L). subst y.
  rewrite (proj2 (bytes_eqb_eq self_name self_name) eq_refl) in E. discriminate.
Qed.

Lemma coherent_occ_ok env x : coherent env -> free_in_at env x = true -> occ_ok env x = true.
Proof.
  intros [C F] H. unfold free_in_at in H. unfold occ_ok.
  destruct (find_fst env x) as [i|] eqn:Fx.
  - rewrite (C x i Fx). cbn. apply Nat.eqb_refl.
  - assert (L : lookup env x = None) by (rewrite lookup_pos, Fx; reflexivity).
    rewrite L in H. unfold occ. rewrite L.
    assert (N : find_snd env x = None).
    { clear C L. induction env as [|[o n] r IH]; [reflexivity|].
      inversion F as [|? ? He Fr]; subst. cbn [find_fst] in Fx. cbn [find_snd].
      destruct (bytes_eqb o x) eqn:Eo; [discriminate|].
      destruct (find_fst r x) eqn:Fr'; [discriminate|].
      assert (NE : n <> x).
      { intros K. subst n. destruct He as [[He1 He2] | [He _]]; cbn [fst snd] in *.
        - subst o x. rewrite (proj2 (bytes_eqb_eq self_name self_name) eq_refl) in Eo. discriminate.
        - rewrite H in He. discriminate. }
      rewrite (bytes_eqb_false _ _ NE), (IH Fr eq_refl). reflexivity. }
    now rewrite N.
Qed.

Theorem fresh_rename_ok : forall b, free_in b = true -> rename_ok pick b = true.
Proof.
  intros b H. unfold rename_ok.
  apply (mono_block pick free_in_at occ_ok coherent coherent_bind coherent_self coherent_occ_ok b []);
    [|exact H].
  split; [intros x i K; discriminate | constructor].
Qed.
End Fresh.

(** renaming with names that are fresh among the live new names, outside a set [G] containing the
    program's free identifiers, and never [self], preserves the nameless form *)
Theorem nameless_fresh_rename_invariant : forall (pick : renv -> name -> name) (G : list name) (b : block),
  (forall env x, ~ In (pick env x) (map snd env)) ->
  (forall env x, gmem G (pick env x) = false) ->
  (forall env x, pick env x <> self_name) ->
  free_in pick G b = true ->
  nameless (ren_block pick [] b) = nameless b.
Proof.
  intros pick G b H1 H2 H3 H4. apply nameless_rename_invariant.
  now apply (fresh_rename_ok pick G H1 H2 H3).
Qed.

Theorem rename_preserves_binding_partial :
  forall (pick : renv -> name -> name) (G : list name) (p : block),
  (forall env x, ~ In (pick env x) (map snd env)) ->
  (forall env x, gmem G (pick env x) = false) ->
  (forall env x, pick env x <> self_name) ->
  free_in pick G p = true ->
  fingerprint (nameless (ren_block pick [] p)) = fingerprint (nameless p).
Proof. intros pick G p H1 H2 H3 H4. f_equal. now apply nameless_fresh_rename_invariant with (G := G). Qed.
