(** convert_require keeps the target (Model/Require.v: [generate_path], [strip_target],
    [head_path], [locate]) for requiring files and targets below the working directory,
    without aliases: the path that is generated from the resolved file leads the target
    mode's locator back to the stripped form of that file. *)
From DL Require Import Lib.Bytes Model.Paths Model.Require Proof.PathsBasics Proof.PathsFacts.
Require Import Lia PeanoNat.
Open Scope N_scope.

(** * [strip_target] only looks at the last name *)

Lemma is_mfn_app c x y n :
  is_module_folder_name c (x ++ y ++ [Norm n]) = is_module_folder_name c (y ++ [Norm n]).
Proof. unfold is_module_folder_name, file_stem. rewrite !file_name_app. reflexivity. Qed.

Lemma pop_app x y n : pop (x ++ y ++ [Norm n]) = x ++ y.
Proof. rewrite app_assoc. apply pop_snoc. discriminate. Qed.

Lemma set_extension_app x y n e :
  set_extension (x ++ y ++ [Norm n]) e = x ++ set_extension (y ++ [Norm n]) e.
Proof.
  unfold set_extension. rewrite file_name_app. rewrite file_name_snoc.
  destruct (name_stem n); [|reflexivity].
  rewrite (app_assoc x y), !removelast_snoc, <- app_assoc. reflexivity.
Qed.

Lemma strip_target_app c x y n :
  strip_target c (x ++ y ++ [Norm n]) = x ++ strip_target c (y ++ [Norm n]).
Proof.
  unfold strip_target, extension. rewrite is_mfn_app, file_name_app.
  destruct (is_module_folder_name c (y ++ [Norm n])).
  - rewrite pop_app, pop_snoc by discriminate. reflexivity.
  - destruct (is_lua_ext _); [apply set_extension_app|reflexivity].
Qed.

Lemma strip_target_simple c y n : simple y = true -> simple (strip_target c (y ++ [Norm n])) = true.
Proof.
  intros H. unfold strip_target.
  destruct (is_module_folder_name c _).
  - rewrite pop_snoc by discriminate. exact H.
  - destruct (is_lua_ext _).
    + unfold set_extension. rewrite file_name_snoc. destruct (name_stem n).
      * rewrite removelast_snoc, simple_app, H. reflexivity.
      * rewrite simple_app, H. reflexivity.
    + rewrite simple_app, H. reflexivity.
Qed.

Lemma simple_snoc_inv (t : path) :
  simple t = true -> t <> [] -> exists y n, t = y ++ [Norm n] /\ simple y = true.
Proof.
  intros H Hne. destruct (exists_last Hne) as (y & c & ->).
  rewrite simple_app in H. apply andb_true_iff in H as [Hy Hc].
  destruct c; try discriminate. eauto.
Qed.

Lemma simple_head_norm (t : path) : simple t = true -> t <> [] -> exists n r, t = Norm n :: r.
Proof. destruct t as [|[] t]; intros H Hne; try discriminate; try congruence. eauto. Qed.

(** * the relative path from the requiring file to the target *)

Definition relpath (k : nat) (t' : path) : path :=
  match k with O => Cur :: t' | _ => repeat Par k ++ t' end.

Lemma grpp_snoc d s : get_relative_parent_path (d ++ [Norm s]) = match d with [] => [Cur] | _ => d end.
Proof. unfold get_relative_parent_path. rewrite parent_snoc by discriminate. destruct d; reflexivity. Qed.

Lemma grpp_snoc_nonempty d c : d <> [] -> c <> Root -> get_relative_parent_path (d ++ [c]) = d.
Proof. intros H Hc. unfold get_relative_parent_path. rewrite parent_snoc by exact Hc. destruct d; congruence. Qed.

Lemma app_nonempty_r {A} (a b : list A) : b <> [] -> a ++ b <> [].
Proof. intros H E. apply app_eq_nil in E as [_ E]. congruence. Qed.

Lemma get_relative_path_simple cp d' t' s :
  simple cp = true -> simple d' = true -> simple t' = true -> t' <> [] -> diverge t' d' = true ->
  get_relative_path (cp ++ t') ((cp ++ d') ++ [Norm s]) true = Some (relpath (List.length d') t').
Proof.
  intros Hcp Hd Ht Hne Hdiv.
  assert (Hroot : has_root (cp ++ t') = false) by (apply simple_no_root; rewrite simple_app, Hcp, Ht; reflexivity).
  unfold get_relative_path. rewrite grpp_snoc, Hroot. cbn [andb].
  destruct (simple_head_norm t' Ht Hne) as (x & r & Et).
  destruct (cp ++ d') as [|c0 dd] eqn:Ed.
  - (* the requiring file is directly in the working directory *)
    apply app_eq_nil in Ed as [-> ->]. cbn [app List.length relpath] in *.
    unfold diff_paths. rewrite Hroot. cbn [has_root Bool.eqb negb].
    subst t'.
    assert (E : diff_loop (Norm x :: r) [Cur] [] = Some (Norm x :: r)) by (destruct r; reflexivity).
    rewrite E. cbn [option_map]. rewrite from_iter_plain by (apply simple_plain; exact Ht).
    cbn [starts_with_cur starts_with_par negb andb]. rewrite (join_plain [Cur]) by (apply simple_plain; exact Ht).
    cbn [app]. rewrite normalize_true_cur_simple by exact Ht. reflexivity.
  - rewrite <- Ed. unfold diff_paths. rewrite Hroot.
    rewrite (simple_no_root (cp ++ d')) by (rewrite simple_app, Hcp, Hd; reflexivity).
    cbn [Bool.eqb negb]. rewrite diff_loop_common, (diff_loop_diverge t' d' Hne Hd Hdiv).
    cbn [option_map].
    rewrite from_iter_plain by (rewrite plain_app, plain_repeat_par; apply simple_plain; exact Ht).
    destruct d' as [|y d'].
    + cbn [List.length repeat app relpath]. subst t'.
      cbn [starts_with_cur starts_with_par negb andb]. rewrite (join_plain [Cur]) by (apply simple_plain; exact Ht).
      cbn [app]. rewrite normalize_true_cur_simple by exact Ht. reflexivity.
    + cbn [List.length repeat app relpath starts_with_cur starts_with_par negb andb].
      change (Par :: repeat Par (List.length d') ++ t') with (repeat Par (S (List.length d')) ++ t').
      rewrite normalize_pars_simple by (try exact Ht; lia). reflexivity.
Qed.

(** * what [generate_path] produces *)

Definition gen_prefix (init : bool) (k : nat) : path :=
  if init then
    match k with
    | O => [Norm self_name]
    | S O => [Cur]
    | S j => repeat Par j
    end
  else match k with O => [Cur] | _ => repeat Par k end.

Section NoAlias.
Variable tgt : config.
Hypothesis Hsrc : c_sources tgt = [].

Definition init_source (src : path) : bool := c_luau tgt && is_module_folder_name tgt src.

Lemma generate_path_simple cp d' t' s :
  simple cp = true -> simple d' = true -> simple t' = true -> t' <> [] -> diverge t' d' = true ->
  generate_path tgt ((cp ++ d') ++ [Norm s]) (cp ++ t') =
  gen_prefix (init_source ((cp ++ d') ++ [Norm s])) (List.length d') ++ t'.
Proof.
  intros Hcp Hd Ht Hne Hdiv.
  assert (Hs : simple ((cp ++ d') ++ [Norm s]) = true) by (rewrite !simple_app, Hcp, Hd; reflexivity).
  assert (Hct : simple (cp ++ t') = true) by (rewrite simple_app, Hcp, Ht; reflexivity).
  destruct (simple_head_norm t' Ht Hne) as (x & r & Et).
  unfold generate_path. rewrite (normalize_simple false _ Hs), (normalize_simple false _ Hct).
  assert (Hrel : is_require_relative (cp ++ t') = false).
  { destruct cp as [|[] cp]; subst t'; try discriminate; reflexivity. }
  rewrite Hrel, Hsrc. cbn [best_alias].
  rewrite (get_relative_path_simple cp d' t' s Hcp Hd Ht Hne Hdiv).
  fold (init_source ((cp ++ d') ++ [Norm s])).
  destruct (init_source ((cp ++ d') ++ [Norm s])); cbn [gen_prefix].
  - destruct (List.length d') as [|[|j]]; cbn [relpath].
    + cbn [starts_with_cur skipn]. apply extend_plain. apply simple_plain. exact Ht.
    + cbn [repeat app starts_with_cur]. subst t'. cbn [starts_with_par_par starts_with_par skipn].
      apply (extend_plain [Cur]). apply simple_plain. exact Ht.
    + cbn [repeat app starts_with_cur starts_with_par_par skipn].
      apply from_iter_plain.
      change (Par :: repeat Par j ++ t') with (repeat Par (S j) ++ t').
      rewrite plain_app, plain_repeat_par. apply simple_plain. exact Ht.
  - destruct (List.length d') as [|j]; cbn [relpath]; reflexivity.
Qed.

Lemma normalize_gen_prefix init k st :
  simple st = true -> normalize true (gen_prefix init k ++ st) = gen_prefix init k ++ st.
Proof.
  intros H. unfold gen_prefix. destruct init.
  - destruct k as [|[|j]].
    + apply normalize_simple. cbn [app simple forallb is_norm andb]. exact H.
    + apply normalize_true_cur_simple. exact H.
    + apply (normalize_pars_simple true (S j) st H). lia.
  - destruct k as [|j].
    + apply normalize_true_cur_simple. exact H.
    + apply (normalize_pars_simple true (S j) st H). lia.
Qed.

(** * where the target mode starts looking: the stripped target, possibly behind a "." *)

Lemma self_name_eqb : bytes_eqb self_name self_name = true.
Proof. apply bytes_eqb_refl. Qed.

Lemma head_path_generated rc cp d' s st :
  simple cp = true -> simple d' = true -> simple st = true -> cp ++ st <> [] ->
  let src := (cp ++ d') ++ [Norm s] in
  exists h, head_path tgt rc src (gen_prefix (init_source src) (List.length d') ++ st) = inl h /\
            (normalize true h = cp ++ st \/ (cp = [] /\ normalize true h = Cur :: st)).
Proof.
  intros Hcp Hd Hst Hne src. subst src.
  assert (Hpl : plain st = true) by (apply simple_plain; exact Hst).
  assert (Hcs : simple (cp ++ st) = true) by (rewrite simple_app, Hcp, Hst; reflexivity).
  unfold head_path, init_source.
  destruct (c_luau tgt) eqn:Eluau; cbn [andb].
  - destruct (is_module_folder_name tgt ((cp ++ d') ++ [Norm s])) eqn:Einit; cbn [gen_prefix].
    + (* luau mode, the requiring file is a module-folder file *)
      destruct d' as [|x d1]; cbn [List.length].
      * (* @self *)
        cbn [app is_require_relative starts_with_cur starts_with_par orb has_root comp_bytes].
        rewrite self_name_eqb. rewrite app_nil_r, grpp_snoc.
        eexists. split; [reflexivity|].
        rewrite (join_plain _ st Hpl). destruct cp.
        -- right. split; [reflexivity|]. apply normalize_true_cur_simple. exact Hst.
        -- left. apply normalize_simple. exact Hcs.
      * destruct d1 as [|x' d2]; cbn [List.length].
        -- (* one level up: "./" from the parent of the folder *)
           cbn [app is_require_relative starts_with_cur orb].
           rewrite grpp_snoc_nonempty by (try discriminate; apply app_nonempty_r; discriminate).
           assert (E : get_relative_parent_path (cp ++ [x]) = match cp with [] => [Cur] | _ => cp end).
           { unfold get_relative_parent_path. rewrite parent_snoc.
             - destruct cp; reflexivity.
             - cbn [simple forallb] in Hd. destruct x; try discriminate. }
           rewrite E.
           eexists. split; [reflexivity|]. destruct cp.
           ++ right. split; [reflexivity|]. rewrite join_cur_nonempty by discriminate.
              apply normalize_true_cur_simple. exact Hst.
           ++ left. rewrite join_cur_nonempty by discriminate. apply normalize_simple. exact Hcs.
        -- (* two or more levels up *)
           assert (Hrel : is_require_relative (repeat Par (S (List.length d2)) ++ st) = true) by reflexivity.
           rewrite Hrel. rewrite grpp_snoc_nonempty by (try discriminate; apply app_nonempty_r; discriminate).
           assert (Hd2 : x :: x' :: d2 <> []) by discriminate.
           destruct (exists_last Hd2) as (dd & z & Edd).
           assert (Hlen : List.length dd = S (List.length d2)).
           { apply (f_equal (@List.length comp)) in Edd. rewrite app_length in Edd. cbn in Edd. lia. }
           assert (Hdd : simple dd = true /\ z <> Root).
           { rewrite Edd, simple_app in Hd. apply andb_true_iff in Hd as [H1 H2]. split; [exact H1|].
             destruct z; try discriminate. }
           destruct Hdd as [Hdd Hz].
           rewrite Edd.
           assert (E : get_relative_parent_path (cp ++ dd ++ [z]) = cp ++ dd).
           { rewrite app_assoc. apply grpp_snoc_nonempty; [|exact Hz].
             apply app_nonempty_r. intros ->. discriminate. }
           rewrite E. eexists. split; [reflexivity|]. left.
           rewrite join_plain by (rewrite plain_app, plain_repeat_par; exact Hpl).
           rewrite <- Hlen, <- app_assoc. apply normalize_cancel; assumption.
    + (* luau mode, ordinary requiring file *)
      destruct d' as [|x d1]; cbn [List.length].
      * cbn [app is_require_relative starts_with_cur orb]. rewrite app_nil_r, grpp_snoc.
        eexists. split; [reflexivity|]. destruct cp.
        -- right. split; [reflexivity|]. rewrite join_cur_nonempty by discriminate.
           apply normalize_true_cur_simple. exact Hst.
        -- left. rewrite join_cur_nonempty by discriminate. apply normalize_simple. exact Hcs.
      * assert (Hrel : is_require_relative (repeat Par (S (List.length d1)) ++ st) = true) by reflexivity.
        rewrite Hrel. rewrite grpp_snoc_nonempty by (try discriminate; apply app_nonempty_r; discriminate).
        eexists. split; [reflexivity|]. left.
        rewrite join_plain by (rewrite plain_app, plain_repeat_par; exact Hpl).
        rewrite <- app_assoc.
        change (S (List.length d1)) with (List.length (x :: d1)).
        apply normalize_cancel; assumption.
  - (* path mode *)
    cbn [gen_prefix]. rewrite pop_snoc by discriminate.
    destruct d' as [|x d1]; cbn [List.length].
    + cbn [app is_require_relative starts_with_cur orb]. rewrite app_nil_r.
      eexists. split; [reflexivity|]. destruct cp.
      * right. split; [reflexivity|]. rewrite join_nil_l. apply normalize_true_cur_simple. exact Hst.
      * left. rewrite join_cur_nonempty by discriminate. apply normalize_simple. exact Hcs.
    + assert (Hrel : is_require_relative (repeat Par (S (List.length d1)) ++ st) = true) by reflexivity.
      rewrite Hrel. eexists. split; [reflexivity|]. left.
      rewrite join_plain by (rewrite plain_app, plain_repeat_par; exact Hpl).
      rewrite <- app_assoc.
      change (S (List.length d1)) with (List.length (x :: d1)).
      apply normalize_cancel; assumption.
Qed.

End NoAlias.

(** * a leading "." does not change which candidate exists first *)

Lemma is_file_cur f x : x <> [] -> is_file f (Cur :: x) = is_file f x.
Proof. intros H. unfold is_file. rewrite normalize_false_cur by exact H. reflexivity. Qed.

Lemma first_file_cons_cur f l :
  (forall x, In x l -> x <> []) ->
  first_file f (map (cons Cur) l) = option_map (cons Cur) (first_file f l).
Proof.
  induction l as [|x l IH]; intros H; cbn [map first_file option_map]; [reflexivity|].
  rewrite is_file_cur by (apply H; left; reflexivity).
  destruct (is_file f x); [reflexivity|]. apply IH. intros y Hy. apply H. right. exact Hy.
Qed.

Lemma documented_candidates_cons_cur y n m :
  documented_candidates (Cur :: y ++ [Norm n]) m = map (cons Cur) (documented_candidates (y ++ [Norm n]) m).
Proof.
  unfold documented_candidates, folder_documented, sibling.
  change (Cur :: y ++ [Norm n]) with ((Cur :: y) ++ [Norm n]).
  rewrite !file_name_snoc, !pop_snoc by discriminate.
  destruct (is_lua_ext (name_ext n)); [reflexivity|].
  destruct (name_ext m); reflexivity.
Qed.

Lemma documented_candidates_nonempty q m x : q <> [] -> In x (documented_candidates q m) -> x <> [].
Proof.
  intros Hq. unfold documented_candidates, folder_documented, sibling.
  destruct (file_name q); [destruct (is_lua_ext _)|]; destruct (name_ext m); cbn [In];
    intros H; repeat (destruct H as [<-|H]; [try exact Hq; intros E; apply app_eq_nil in E as [_ E]; discriminate|]);
    destruct H.
Qed.

(** * the theorem *)

(** the target is the first existing candidate of what is left of it after [strip_target] *)
Definition unambiguous (c : config) (f : fs) (t : path) : Prop :=
  first_file f (candidates (strip_target c t) (module_folder_name c)) = Some t.

Definition unambiguousb (c : config) (f : fs) (t : path) : bool :=
  match first_file f (candidates (strip_target c t) (module_folder_name c)) with
  | Some q => path_eqb q t
  | None => false
  end.

Lemma unambiguousb_spec c f t : unambiguousb c f t = true <-> unambiguous c f t.
Proof.
  unfold unambiguousb, unambiguous. destruct (first_file f _) as [q|].
  - rewrite path_eqb_eq. split; congruence.
  - split; discriminate.
Qed.

Theorem convert_keeps_target_paths :
  forall (tgt : config) (rcs : rc_files) (f : fs) (d : path) (s : bytes) (t : path) (m : bytes),
    c_sources tgt = [] ->
    parse_path (module_folder_name tgt) = [Norm m] ->
    simple d = true -> simple t = true ->
    path_prefix t d = false ->
    strip_target tgt t <> [] ->
    unambiguous tgt f t ->
    exists t',
      find_require_path tgt rcs f (d ++ [Norm s])
        (normalize true (strip_target tgt (generate_path tgt (d ++ [Norm s]) t))) = Found t' /\
      same_file t' t = true.
Proof.
  intros tgt rcs f d s t m Hsrc Hmfn Hd Ht Hpre Hstrip Hun.
  destruct (common_prefix_split t d) as (cp & t' & d' & -> & -> & Hdiv).
  rewrite simple_app in Hd, Ht. apply andb_true_iff in Hd as [Hcp Hd']. apply andb_true_iff in Ht as [_ Ht'].
  assert (Hne : t' <> []).
  { intros ->. rewrite app_nil_r in Hpre. clear - Hpre. induction cp as [|c cp IH]; [discriminate|].
    cbn [app path_prefix] in Hpre. rewrite comp_eqb_refl in Hpre. auto. }
  destruct (simple_snoc_inv t' Ht' Hne) as (y & n & -> & Hy).
  rewrite (generate_path_simple tgt Hsrc cp d' (y ++ [Norm n]) s Hcp Hd' Ht' Hne Hdiv).
  rewrite strip_target_app. rewrite strip_target_app in Hstrip.
  pose proof (strip_target_simple tgt y n Hy) as Hst.
  rewrite normalize_gen_prefix by exact Hst.
  unfold find_require_path.
  destruct (head_path_generated tgt (rc_aliases tgt rcs ((cp ++ d') ++ [Norm s])) cp d' s _ Hcp Hd' Hst Hstrip)
    as (h & Hh & Hnorm).
  rewrite Hh. unfold locate.
  unfold unambiguous in Hun. rewrite strip_target_app in Hun.
  assert (Hts : simple (cp ++ y ++ [Norm n]) = true) by (rewrite !simple_app, Hcp, Hy; reflexivity).
  destruct Hnorm as [Hnorm|[-> Hnorm]]; rewrite Hnorm.
  - rewrite Hun. eexists. split; [reflexivity|].
    unfold same_file. rewrite (normalize_simple true _ Hts). apply path_eqb_refl.
  - cbn [app] in *.
    destruct (strip_target tgt (y ++ [Norm n])) as [|c0 st0] eqn:Est; [congruence|].
    assert (Hst' : c0 :: st0 <> []) by discriminate.
    destruct (simple_snoc_inv _ Hst Hst') as (y0 & n0 & E0 & _).
    rewrite E0 in Hun |- *.
    rewrite (candidates_documented_order _ _ m Hmfn) in Hun.
    rewrite (candidates_documented_order _ _ m Hmfn).
    rewrite documented_candidates_cons_cur.
    rewrite first_file_cons_cur
      by (intros x Hx; apply (documented_candidates_nonempty (y0 ++ [Norm n0]) m x); [destruct y0; discriminate|exact Hx]).
    rewrite Hun. cbn [option_map]. eexists. split; [reflexivity|].
    unfold same_file. rewrite normalize_true_cur_simple by exact Ht'.
    rewrite normalize_false_cur by exact Hne. apply path_eqb_refl.
Qed.
