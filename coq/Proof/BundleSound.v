(** Bundler model (Model/Bundle.v): every pushed error is justified by the graph, the chain of a
    "cyclic require" error walks along edges, and only reachable files get defined. *)
From Coq Require Import NArith Arith PeanoNat List Bool Lia.
From DL Require Import Lib.Bytes Model.Rename Model.Bundle Proof.BundleSpec Proof.BundleBasics
  Proof.BundleRel.
Import ListNotations.
Open Scope N_scope.

Section Sound.
Variable g : graph.
Variable roots : list req.

Definition justified (e : error) : Prop :=
  match e with
  | ENotFound lit => In (RNotFound lit) roots \/
      exists f reqs r, reach g roots f /\ lookup g f = Some (KLua reqs r) /\ In (RNotFound lit) reqs
  | ECyclic chain => names_cycle g chain /\ exists f, hd_error chain = Some f /\ reach g roots f
  | EResource f => reach g roots f /\ (lookup g f = None \/ lookup g f = Some KBroken)
  | EModule f => reach g roots f /\ exists reqs r, lookup g f = Some (KLua reqs r) /\ r <> Some 1%nat
  end.

(** ** walks *)

Lemma walk_tail a l : walk g (a :: l) -> walk g l.
Proof. destruct l as [|b l]; cbn; tauto. Qed.

Lemma walk_snoc l a b : walk g (l ++ [a]) -> edge g a b -> walk g ((l ++ [a]) ++ [b]).
Proof.
  induction l as [|x l IH]; intros W E.
  - cbn. auto.
  - cbn [app] in *. destruct (l ++ [a]) as [|y t] eqn:Eq; [destruct l; discriminate|].
    cbn [app]. cbn [walk] in W |- *. destruct W as [E1 W]. split; [exact E1|].
    apply (IH W E).
Qed.

Lemma walk_skipn i : forall l, walk g l -> walk g (skipn i l).
Proof.
  induction i as [|i IH]; intros l W; [exact W|].
  destruct l as [|x l]; [exact W|]. cbn [skipn]. apply IH. eapply walk_tail; exact W.
Qed.

Lemma walk_path mid : forall a b, walk g (a :: mid ++ [b]) -> path g a b.
Proof.
  induction mid as [|m mid IH]; intros a b W.
  - cbn in W. apply path_edge. tauto.
  - cbn [app walk] in W. destruct W as [E W]. eapply path_step; [exact E|]. now apply IH.
Qed.

Lemma names_cycle_path chain f :
  names_cycle g chain -> hd_error chain = Some f -> path g f f.
Proof.
  intros [f' [mid [-> W]]] [= ->]. now apply walk_path in W.
Qed.

Lemma cyclic_chain stack f i :
  index_of f stack = Some i -> walk g (stack ++ [f]) ->
  names_cycle g (skipn i stack ++ [f]) /\ hd_error (skipn i stack ++ [f]) = Some f.
Proof.
  intros Hi W. destruct (index_of_some _ _ _ Hi) as [L [tl E]].
  assert (E2 : skipn i (stack ++ [f]) = skipn i stack ++ [f]).
  { rewrite skipn_app. replace (i - List.length stack)%nat with O by lia. reflexivity. }
  split.
  - exists f, tl. split; [now rewrite E|]. rewrite <- E2. now apply walk_skipn.
  - now rewrite E.
Qed.

(** ** the invariant *)

Definition J (s : state) : Prop :=
  (forall e, In e (errors s) -> justified e) /\
  (forall f, In f (map fst (defs s)) -> reach g roots f).

Lemma J_push e s : justified e -> J s -> J (push_error e s).
Proof.
  intros Je [A B]. split; [|exact B]. cbn. intros e' H.
  apply in_app_or in H as [H|[<-|[]]]; auto.
Qed.

Lemma J_skip_push f e s : justified e -> J s -> J (add_skip f (push_error e s)).
Proof. intros Je Js. apply (J_push e s Je) in Js. exact Js. Qed.

Lemma J_define f sites s : reach g roots f -> J s -> J (fst (define f sites s)).
Proof.
  intros R [A B]. split; [exact A|]. cbn [define fst defs]. intros f' H.
  rewrite map_app in H. apply in_app_or in H as [H|[<-|[]]]; auto.
Qed.

Definition Q_Inl (stack : list file) (f : file) (s s' : state) (r : inlined) : Prop :=
  walk g (stack ++ [f]) -> reach g roots f -> J s ->
  J s' /\ (forall e, r = inr e -> justified e).

Definition Q_Vis (stack : list file) (rs : list req) (s s' : state) (xs : list site) : Prop :=
  (forall b, In (RFile b) rs -> walk g (stack ++ [b]) /\ reach g roots b) ->
  (forall lit, In (RNotFound lit) rs -> justified (ENotFound lit)) ->
  J s -> J s'.

Lemma sites_of_file stack f reqs ret :
  walk g (stack ++ [f]) -> reach g roots f -> lookup g f = Some (KLua reqs ret) ->
  (forall b, In (RFile b) reqs -> walk g ((stack ++ [f]) ++ [b]) /\ reach g roots b) /\
  (forall lit, In (RNotFound lit) reqs -> justified (ENotFound lit)).
Proof.
  intros W R Hl. split.
  - intros b Hb. assert (E : edge g f b) by (exists reqs, ret; auto).
    split; [now apply walk_snoc|eapply reach_step; eauto].
  - intros lit Hlit. right. exists f, reqs, ret. auto.
Qed.

Lemma Inl_Vis_sound :
  (forall stack f s s' r, Inl g stack f s s' r -> Q_Inl stack f s s' r) /\
  (forall stack rs s s' xs, Vis g stack rs s s' xs -> Q_Vis stack rs s s' xs).
Proof.
  apply Inl_Vis_ind; unfold Q_Inl, Q_Vis.
  - (* cached *) intros stack f s k Hc W R Js. split; [exact Js|discriminate].
  - (* cyclic *) intros stack f s i Hc Hi W R Js. split; [exact Js|].
    intros e [= <-]. destruct (cyclic_chain _ _ _ Hi W) as [A B].
    split; [exact A|]. exists f. auto.
  - (* resource *) intros stack f s Hc Hi Hl W R Js. split; [exact Js|].
    intros e [= <-]. split; assumption.
  - (* data *) intros stack f s Hc Hi Hl W R Js. split; [now apply J_define|discriminate].
  - (* lua *) intros stack f s reqs s1 sites Hc Hi Hl HV IH W R Js.
    destruct (sites_of_file _ _ _ _ W R Hl) as [A B].
    split; [|discriminate]. apply J_define; [exact R|]. now apply IH.
  - (* module *) intros stack f s reqs ret s1 sites Hc Hi Hl Hr HV IH W R Js.
    destruct (sites_of_file _ _ _ _ W R Hl) as [A B].
    split; [now apply IH|]. intros e [= <-]. split; [exact R|]. exists reqs, ret. auto.
  - (* nil *) intros stack s _ _ Js. exact Js.
  - (* notfound *) intros stack lit rest s s' xs HV IH A B Js.
    apply IH.
    + intros b Hb. apply A. now right.
    + intros l Hl. apply B. now right.
    + apply J_push; [|exact Js]. apply B. now left.
  - (* skip *) intros stack f rest s s' xs Hm HV IH A B Js.
    apply IH; [| |exact Js].
    + intros b Hb. apply A. now right.
    + intros l Hl. apply B. now right.
  - (* inl *) intros stack f rest s s1 k s' xs Hm HI IH1 HV IH2 A B Js.
    destruct (A f (or_introl eq_refl)) as [W R]. destruct (IH1 W R Js) as [J1 _].
    apply IH2; [| |exact J1].
    + intros b Hb. apply A. now right.
    + intros l Hl. apply B. now right.
  - (* inr *) intros stack f rest s s1 e s' xs Hm HI IH1 HV IH2 A B Js.
    destruct (A f (or_introl eq_refl)) as [W R]. destruct (IH1 W R Js) as [J1 Je].
    apply IH2.
    + intros b Hb. apply A. now right.
    + intros l Hl. apply B. now right.
    + apply J_skip_push; [now apply Je|exact J1].
Qed.

Lemma J_init : J init.
Proof. split; cbn; intros ? []. Qed.

Lemma run_entry_J fuel s sites : run_entry g fuel roots = Some (s, sites) -> J s.
Proof.
  intros H. apply run_entry_sound in H. apply (proj2 Inl_Vis_sound) in H. apply H.
  - intros b Hb. split; [cbn; exact I|now apply reach_root].
  - intros lit Hl. now left.
  - apply J_init.
Qed.

End Sound.
