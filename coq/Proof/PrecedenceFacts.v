(** Parenthesisation: the reference parser reads back every well-parenthesised tree, and the
    parentheses darklua's predicates ask for make every tree well-parenthesised. *)
From DL Require Import Lib.Bytes Model.Precedence Model.C02Spec.
Require Import Lia Arith PeanoNat.
Open Scope N_scope.

Fixpoint size (e : expr) : nat :=
  match e with
  | EAtom _ => 1
  | EParen x => S (size x)
  | EUn _ x => S (size x)
  | EBin _ l r => S (size l + size r)
  | ECast x _ => S (size x)
  end.

(** number of binary operators met by the top-level loop while reading [e] *)
Fixpoint spine (e : expr) : nat :=
  match e with
  | EBin _ l _ => S (spine l)
  | _ => 0
  end.

Lemma spine_lt_size e : (spine e < size e)%nat.
Proof. induction e; cbn [spine size]; lia. Qed.

Lemma size_le_print e : (size e <= List.length (print_plain e))%nat.
Proof.
  induction e; cbn [size print_plain List.length]; try rewrite app_length; cbn [List.length]; try lia.
Qed.

(** [e] may be read by [subexpr lim]: its top operator binds tighter than the limit *)
Definition adm (lim : N) (e : expr) : bool :=
  match e with EBin o _ _ => lim <? lprio o | _ => true end.

(** the loop with limit [lim] stops at the head of [rest] *)
Definition head_ok (lim : N) (rest : list ptok) : bool :=
  match rest with
  | KOp s :: _ => match binop_of_sym s with Some o => negb (lim <? lprio o) | None => true end
  | _ => true
  end.

(** [rest] does not start with a cast / with "<" *)
Definition head_free (rest : list ptok) : bool := match rest with KCast _ :: _ => false | _ => true end.
Definition lt_free (rest : list ptok) : bool := match rest with KOp SLt :: _ => false | _ => true end.
(** a text ending with a cast to a bare type name is not followed by "<" *)
Definition cast_ok (e : expr) (rest : list ptok) : bool := negb (ends_bare (print_plain e)) || lt_free rest.

Lemma head_ok_mono a b rest : head_ok a rest = true -> a <= b -> head_ok b rest = true.
Proof.
  unfold head_ok. destruct rest as [|[x|s| | |k] rest]; try reflexivity.
  destruct (binop_of_sym s) as [o|]; [|reflexivity].
  intros H L. apply Bool.negb_true_iff in H. apply N.ltb_ge in H.
  apply Bool.negb_true_iff. apply N.ltb_ge. lia.
Qed.

Lemma loop_stops sub lim g e rest :
  head_ok lim rest = true -> loop_with sub lim (S g) e rest = Some (e, rest).
Proof.
  unfold head_ok. cbn [loop_with]. destruct rest as [|[x|s| | |k] rest]; try reflexivity.
  destruct (binop_of_sym s) as [o|]; [|reflexivity].
  intros H. apply Bool.negb_true_iff in H. rewrite H. reflexivity.
Qed.

Lemma binop_sym_roundtrip o : binop_of_sym (sym_of_binop o) = Some o.
Proof. destruct o; reflexivity. Qed.
Lemma unop_sym_roundtrip u : unop_of_sym (sym_of_unop u) = Some u.
Proof. destruct u; reflexivity. Qed.

Lemma rp_le_bin o l r : rp (EBin o l r) <= rprio o /\ rp (EBin o l r) <= rp r.
Proof. cbn [rp]. lia. Qed.
Lemma rp_le_un u x : rp (EUn u x) <= UNARY_PRIORITY /\ rp (EUn u x) <= rp x.
Proof. cbn [rp]. lia. Qed.

Lemma with_cast_none e t : head_free t = true -> with_cast e t = Some (e, t).
Proof. destruct t as [|[x|s| | |k] t]; intros H; try reflexivity. discriminate H. Qed.

Lemma with_cast_some e k t :
  (ends_with_type_name k = true -> lt_free t = true) -> with_cast e (KCast k :: t) = Some (ECast e k, t).
Proof.
  intros H. cbn [with_cast]. destruct (ends_with_type_name k); [|reflexivity].
  specialize (H eq_refl). destruct t as [|[x|s| | |k'] t]; try reflexivity.
  destruct s; try reflexivity. discriminate H.
Qed.

(** the transcription of darklua's type loop agrees with the specification *)
Lemma trailing_bare_spec t : trailing_bare t = ends_with_type_name t.
Proof. induction t; cbn [trailing_bare ends_with_type_name]; congruence. Qed.

Lemma subexpr_atom f lim a t :
  subexpr (S f) lim (KAtom a :: t) =
  match with_cast (EAtom a) t with
  | Some (e, t') => loop_with (subexpr f) lim f e t'
  | None => None
  end.
Proof. reflexivity. Qed.

Lemma subexpr_un f lim u t :
  subexpr (S f) lim (KOp (sym_of_unop u) :: t) =
  match subexpr f UNARY_PRIORITY t with
  | Some (x, t') => loop_with (subexpr f) lim f (EUn u x) t'
  | None => None
  end.
Proof. cbn [subexpr]. rewrite unop_sym_roundtrip. reflexivity. Qed.

Lemma subexpr_paren f lim t :
  subexpr (S f) lim (KLp :: t) =
  match subexpr f 0 t with
  | Some (c, KRp :: t') =>
    match with_cast (EParen c) t' with
    | Some (e, t'') => loop_with (subexpr f) lim f e t''
    | None => None
    end
  | _ => None
  end.
Proof. reflexivity. Qed.

Lemma print_plain_nonempty e : print_plain e <> [].
Proof.
  destruct e; cbn [print_plain]; try discriminate;
    intros H; apply app_eq_nil in H as [_ H]; discriminate H.
Qed.

Lemma last_app_nonempty {A} (x y : list A) d : y <> [] -> last (x ++ y) d = last y d.
Proof.
  intros Hy. induction x as [|a x IH]; [reflexivity|].
  cbn [app]. destruct (x ++ y) eqn:E.
  - apply app_eq_nil in E as [_ E]. contradiction.
  - exact IH.
Qed.

Lemma last_cons_nonempty {A} (a : A) (y : list A) d : y <> [] -> last (a :: y) d = last y d.
Proof. intros Hy. destruct y; [contradiction|reflexivity]. Qed.

Lemma ends_bare_bin o l r : ends_bare (print_plain (EBin o l r)) = ends_bare (print_plain r).
Proof.
  unfold ends_bare. cbn [print_plain]. rewrite last_app_nonempty by discriminate.
  rewrite last_cons_nonempty by apply print_plain_nonempty. reflexivity.
Qed.
Lemma ends_bare_un u x : ends_bare (print_plain (EUn u x)) = ends_bare (print_plain x).
Proof.
  unfold ends_bare. cbn [print_plain]. rewrite last_cons_nonempty by apply print_plain_nonempty. reflexivity.
Qed.
Lemma ends_bare_paren x : ends_bare (print_plain (EParen x)) = false.
Proof.
  unfold ends_bare. cbn [print_plain]. rewrite last_cons_nonempty.
  - rewrite last_app_nonempty by discriminate. reflexivity.
  - intros E. apply app_eq_nil in E as [_ E]. discriminate E.
Qed.
Lemma ends_bare_cast x k : ends_bare (print_plain (ECast x k)) = ends_with_type_name k.
Proof.
  unfold ends_bare. cbn [print_plain]. rewrite last_app_nonempty by discriminate. reflexivity.
Qed.

Lemma lt_free_binop o t : lt_free (KOp (sym_of_binop o) :: t) = negb (is_lt o).
Proof. destruct o; reflexivity. Qed.

Lemma adm0 e : adm 0 e = true.
Proof. destruct e as [a|o l r|u x|x|x k]; try reflexivity. cbn [adm]. destruct o; reflexivity. Qed.

(** THE READING LEMMA: with enough fuel, reading the text of a well-parenthesised [e] followed
    by [rest] yields [e] and continues the loop on [rest] *)
Lemma read_expr : forall n e, (size e <= n)%nat -> wp e = true ->
  forall F lim rest, (size e <= F)%nat -> adm lim e = true -> head_ok (rp e) rest = true ->
  head_free rest = true -> cast_ok e rest = true ->
  subexpr (S F) lim (print_plain e ++ rest) = loop_with (subexpr F) lim (F - spine e) e rest.
Proof.
  induction n as [|n IH]; intros e Hn Hwp F lim rest HF Hadm Hhead Hfree Hcast.
  { destruct e; cbn [size] in Hn; lia. }
  destruct e as [a|o l r|u x|x|x k].
  - (* atom *)
    cbn [print_plain app spine]. rewrite subexpr_atom, (with_cast_none _ _ Hfree), Nat.sub_0_r. reflexivity.
  - (* binary *)
    cbn [wp] in Hwp.
    apply andb_true_iff in Hwp as [Hwp Hlt]. apply andb_true_iff in Hwp as [Hwp Hr].
    apply andb_true_iff in Hwp as [Hwp Hrp].
    apply andb_true_iff in Hwp as [Hwp Hl]. apply andb_true_iff in Hwp as [Wl Wr].
    cbn [size] in HF, Hn. cbn [adm] in Hadm.
    cbn [print_plain]. rewrite <- app_assoc. cbn [app].
    (* read l *)
    rewrite (IH l ltac:(lia) Wl F lim (KOp (sym_of_binop o) :: print_plain r ++ rest)); [|lia| | |reflexivity|].
    2:{ destruct l as [a|o' l1 l2|u' l1|l1|l1 k1]; try reflexivity. cbn [adm].
        apply N.leb_le in Hl. apply N.ltb_lt in Hadm. apply N.ltb_lt. lia. }
    2:{ cbn [head_ok]. rewrite binop_sym_roundtrip. apply Bool.negb_true_iff. apply N.ltb_ge.
        apply N.leb_le in Hrp. exact Hrp. }
    2:{ unfold cast_ok. rewrite lt_free_binop.
        apply Bool.negb_true_iff in Hlt. destruct (is_lt o); [|apply orb_true_r].
        cbn [andb] in Hlt. rewrite Hlt. reflexivity. }
    (* one iteration of the loop: the operator o *)
    pose proof (spine_lt_size l) as Sl. pose proof (spine_lt_size r) as Sr.
    destruct (F - spine l)%nat as [|g] eqn:Eg; [lia|].
    cbn [loop_with]. rewrite binop_sym_roundtrip, Hadm.
    (* read r with the fuel of the nested call *)
    destruct F as [|F0]; [lia|].
    rewrite (IH r ltac:(lia) Wr F0 (rprio o) rest); [|lia| | |exact Hfree|].
    2:{ destruct r as [a|o' r1 r2|u' r1|r1|r1 k1]; try reflexivity. exact Hr. }
    2:{ apply (head_ok_mono _ _ _ Hhead). apply rp_le_bin. }
    2:{ unfold cast_ok in *. rewrite ends_bare_bin in Hcast. exact Hcast. }
    destruct (F0 - spine r)%nat as [|g2] eqn:Eg2; [lia|].
    rewrite loop_stops.
    2:{ apply (head_ok_mono _ _ _ Hhead). apply rp_le_bin. }
    cbn [spine]. replace (S F0 - S (spine l))%nat with g by lia. reflexivity.
  - (* unary *)
    cbn [wp] in Hwp. apply andb_true_iff in Hwp as [Wx Hx].
    cbn [size] in HF, Hn. cbn [print_plain app].
    destruct F as [|F0]; [lia|].
    rewrite subexpr_un.
    pose proof (spine_lt_size x) as Sx.
    rewrite (IH x ltac:(lia) Wx F0 UNARY_PRIORITY rest); [|lia| | |exact Hfree|].
    2:{ destruct x as [a|o' x1 x2|u' x1|x1|x1 k1]; try reflexivity. exact Hx. }
    2:{ apply (head_ok_mono _ _ _ Hhead). apply rp_le_un. }
    2:{ unfold cast_ok in *. rewrite ends_bare_un in Hcast. exact Hcast. }
    destruct (F0 - spine x)%nat as [|g2] eqn:Eg2; [lia|].
    rewrite loop_stops.
    2:{ apply (head_ok_mono _ _ _ Hhead). apply rp_le_un. }
    cbn [spine]. rewrite Nat.sub_0_r. reflexivity.
  - (* parentheses *)
    cbn [wp] in Hwp. cbn [size] in HF, Hn. cbn [print_plain app]. rewrite <- app_assoc. cbn [app].
    destruct F as [|F0]; [lia|].
    rewrite subexpr_paren.
    pose proof (spine_lt_size x) as Sx.
    rewrite (IH x ltac:(lia) Hwp F0 0 (KRp :: rest)); [|lia|apply adm0|reflexivity|reflexivity|].
    2:{ unfold cast_ok. apply orb_true_r. }
    destruct (F0 - spine x)%nat as [|g2] eqn:Eg2; [lia|].
    rewrite loop_stops by reflexivity.
    rewrite (with_cast_none _ _ Hfree).
    cbn [spine]. rewrite Nat.sub_0_r. reflexivity.
  - (* cast: the inner expression is an atom or is between parentheses *)
    cbn [wp] in Hwp. apply andb_true_iff in Hwp as [Wx Hshape].
    cbn [size] in HF, Hn.
    assert (Hk : ends_with_type_name k = true -> lt_free rest = true).
    { intros E. unfold cast_ok in Hcast. rewrite ends_bare_cast, E in Hcast. exact Hcast. }
    destruct x as [a|o' x1 x2|u' x1|y|x1 k1]; try discriminate Hshape.
    + cbn [print_plain app spine].
      rewrite subexpr_atom, (with_cast_some _ _ _ Hk), Nat.sub_0_r. reflexivity.
    + cbn [wp] in Wx. cbn [size] in HF, Hn.
      cbn [print_plain app]. rewrite <- !app_assoc. cbn [app].
      destruct F as [|F0]; [lia|].
      rewrite subexpr_paren.
      pose proof (spine_lt_size y) as Sy.
      rewrite (IH y ltac:(lia) Wx F0 0 (KRp :: KCast k :: rest)); [|lia|apply adm0|reflexivity|reflexivity|].
      2:{ unfold cast_ok. apply orb_true_r. }
      destruct (F0 - spine y)%nat as [|g2] eqn:Eg2; [lia|].
      rewrite loop_stops by reflexivity.
      rewrite (with_cast_some _ _ _ Hk).
      cbn [spine]. rewrite Nat.sub_0_r. reflexivity.
Qed.

(** the reference parser reads back every well-parenthesised tree *)
Theorem parse_print_plain : forall e, wp e = true -> parse_expr (print_plain e) = Some e.
Proof.
  intros e Hwp. unfold parse_expr, parse_fuel.
  pose proof (size_le_print e) as Hs. pose proof (spine_lt_size e) as Sp.
  rewrite <- (app_nil_r (print_plain e)) at 2.
  rewrite (read_expr (size e) e (le_n _) Hwp (S (2 * List.length (print_plain e))) 0 []);
    [| lia | apply adm0 | reflexivity | reflexivity | ].
  2:{ unfold cast_ok. apply orb_true_r. }
  destruct (S (2 * List.length (print_plain e)) - spine e)%nat as [|g] eqn:Eg; [lia|].
  rewrite loop_stops by reflexivity. reflexivity.
Qed.

(** * the parentheses darklua's predicates ask for are enough *)
Lemma lprio_bounds o : 1 <= lprio o /\ lprio o <= 100 /\ lprio o <= rprio o + 1 /\ rprio o <= lprio o.
Proof. destruct o; cbn; lia. Qed.

Lemma wp_wrap b e : wp (wrap b e) = wp e.
Proof. destruct b; reflexivity. Qed.

(** a lower bound of the right exposure of a well-parenthesised tree *)
Lemma rp_ge e : wp e = true ->
  match e with
  | EBin o _ _ => N.min (rprio o) UNARY_PRIORITY
  | EUn _ _ => UNARY_PRIORITY
  | _ => 100
  end <= rp e.
Proof.
  induction e as [a|o l IHl r IHr|u x IHx|x IHx|x IHx k]; intros Hwp; cbn [rp]; try lia.
  - cbn [wp] in Hwp.
    apply andb_true_iff in Hwp as [Hwp _].
    apply andb_true_iff in Hwp as [Hwp Hr]. apply andb_true_iff in Hwp as [Hwp _].
    apply andb_true_iff in Hwp as [Hwp _]. apply andb_true_iff in Hwp as [_ Wr].
    specialize (IHr Wr).
    destruct r as [a|o' r1 r2|u' r1|r1|r1 k1].
    + cbn [rp] in *. unfold UNARY_PRIORITY. lia.
    + apply N.ltb_lt in Hr. pose proof (lprio_bounds o') as B. unfold UNARY_PRIORITY in *. lia.
    + unfold UNARY_PRIORITY in *. lia.
    + cbn [rp] in *. unfold UNARY_PRIORITY. lia.
    + cbn [rp] in *. unfold UNARY_PRIORITY. lia.
  - cbn [wp] in Hwp. apply andb_true_iff in Hwp as [Wx Hx]. specialize (IHx Wx).
    destruct x as [a|o' x1 x2|u' x1|x1|x1 k1].
    + cbn [rp] in *. unfold UNARY_PRIORITY. lia.
    + apply N.ltb_lt in Hx. pose proof (lprio_bounds o') as B. unfold UNARY_PRIORITY in *. lia.
    + unfold UNARY_PRIORITY in *. lia.
    + cbn [rp] in *. unfold UNARY_PRIORITY. lia.
    + cbn [rp] in *. unfold UNARY_PRIORITY. lia.
Qed.

Lemma In_binops o : In o binops.
Proof. destruct o; cbn; auto 20. Qed.
Lemma In_unops u : In u unops.
Proof. destruct u; cbn; auto. Qed.

Lemma prec_ok_facts P : prec_ok P = true ->
  (forall o o', left_bin P o o' = false ->
     lprio o <= lprio o' /\ lprio o <= rprio o' /\ lprio o <= UNARY_PRIORITY)
  /\ (forall o o', right_bin P o o' = false -> rprio o < lprio o')
  /\ (forall o u, left_un P o u = false -> lprio o <= UNARY_PRIORITY)
  /\ (forall u o', un_bin P u o' = false -> UNARY_PRIORITY < lprio o')
  /\ cast_bin P = true /\ cast_un P = true /\ cast_cast P = true /\ left_cast P LowerThan true = true.
Proof.
  unfold prec_ok. intros H.
  apply andb_true_iff in H as [H C4]. apply andb_true_iff in H as [H C3].
  apply andb_true_iff in H as [H C2]. apply andb_true_iff in H as [H C1].
  apply andb_true_iff in H as [H1 H2].
  rewrite forallb_forall in H1. rewrite forallb_forall in H2.
  repeat split; try assumption.
  - specialize (H1 o (In_binops o)). apply andb_true_iff in H1 as [H1 _].
    rewrite forallb_forall in H1. specialize (H1 o' (In_binops o')).
    apply andb_true_iff in H1 as [H1 _]. rewrite H in H1. cbn [orb] in H1.
    apply andb_true_iff in H1 as [H1 _]. apply andb_true_iff in H1 as [H1 _].
    apply N.leb_le. exact H1.
  - specialize (H1 o (In_binops o)). apply andb_true_iff in H1 as [H1 _].
    rewrite forallb_forall in H1. specialize (H1 o' (In_binops o')).
    apply andb_true_iff in H1 as [H1 _]. rewrite H in H1. cbn [orb] in H1.
    apply andb_true_iff in H1 as [H1 _]. apply andb_true_iff in H1 as [_ H1].
    apply N.leb_le. exact H1.
  - specialize (H1 o (In_binops o)). apply andb_true_iff in H1 as [H1 _].
    rewrite forallb_forall in H1. specialize (H1 o' (In_binops o')).
    apply andb_true_iff in H1 as [H1 _]. rewrite H in H1. cbn [orb] in H1.
    apply andb_true_iff in H1 as [_ H1]. apply N.leb_le. exact H1.
  - intros o o' H. specialize (H1 o (In_binops o)). apply andb_true_iff in H1 as [H1 _].
    rewrite forallb_forall in H1. specialize (H1 o' (In_binops o')).
    apply andb_true_iff in H1 as [_ H1]. rewrite H in H1. cbn [orb] in H1.
    apply N.ltb_lt. exact H1.
  - intros o u H. specialize (H1 o (In_binops o)). apply andb_true_iff in H1 as [_ H1].
    rewrite forallb_forall in H1. specialize (H1 u (In_unops u)). rewrite H in H1.
    apply N.leb_le. exact H1.
  - intros u o' H. specialize (H2 u (In_unops u)).
    rewrite forallb_forall in H2. specialize (H2 o' (In_binops o')). rewrite H in H2.
    apply N.ltb_lt. exact H2.
Qed.

Lemma print_wrap_last b e : b = true -> ends_bare (print_plain (wrap b e)) = false.
Proof. intros ->. cbn [wrap]. apply ends_bare_paren. Qed.

(** when the written text of [e] ends with a cast to a bare type name, darklua's walk down the
    right spine of the TREE finds it *)
Lemma ends_bare_trailing P o : left_cast P o true = true ->
  forall e, ends_bare (print_plain (parenthesize P e)) = true -> trailing_cast P o e = true.
Proof.
  intros Hlc. induction e as [a|o' l IHl r IHr|u x IHx|x IHx|x IHx k]; intros H.
  - discriminate H.
  - cbn [parenthesize] in H. rewrite ends_bare_bin in H. cbn [trailing_cast].
    destruct (right_needs P o' r) eqn:E; [rewrite print_wrap_last in H by reflexivity; discriminate H|].
    cbn [wrap] in H. apply IHr. exact H.
  - cbn [parenthesize] in H. rewrite ends_bare_un in H. cbn [trailing_cast].
    destruct (operand_needs P u x) eqn:E; [rewrite print_wrap_last in H by reflexivity; discriminate H|].
    cbn [wrap] in H. apply IHx. exact H.
  - cbn [parenthesize] in H. rewrite ends_bare_paren in H. discriminate H.
  - cbn [parenthesize] in H. rewrite ends_bare_cast in H. cbn [trailing_cast].
    rewrite trailing_bare_spec, H. exact Hlc.
Qed.

Lemma parenthesize_wp P : prec_ok P = true -> forall e, wp (parenthesize P e) = true.
Proof.
  intros Hok. destruct (prec_ok_facts P Hok) as [FL [FR [FU [FO [CB [CU [CC LC]]]]]]].
  induction e as [a|o l IHl r IHr|u x IHx|x IHx|x IHx k]; cbn [parenthesize wp]; try assumption; try reflexivity.
  - (* binary *)
    rewrite !wp_wrap, IHl, IHr. cbn [andb].
    assert (Hleft :
      match wrap (left_needs P o l) (parenthesize P l) with EBin o' _ _ => lprio o <=? lprio o' | _ => true end = true
      /\ (lprio o <=? rp (wrap (left_needs P o l) (parenthesize P l))) = true
      /\ negb (is_lt o && ends_bare (print_plain (wrap (left_needs P o l) (parenthesize P l)))) = true).
    { destruct (left_needs P o l) eqn:E; cbn [wrap].
      - split; [reflexivity|]. split; [apply N.leb_le; cbn [rp]; apply lprio_bounds|].
        rewrite ends_bare_paren, andb_false_r. reflexivity.
      - unfold left_needs in E. apply orb_false_iff in E as [Eb Et].
        pose proof (rp_ge _ IHl) as G.
        split; [|split].
        + destruct l as [a|o' l1 l2|u' l1|l1|l1 k1]; cbn [parenthesize]; try reflexivity.
          apply N.leb_le. apply (FL o o' Eb).
        + apply N.leb_le.
          destruct l as [a|o' l1 l2|u' l1|l1|l1 k1]; cbn [parenthesize] in *.
          * cbn [rp]. apply lprio_bounds.
          * destruct (FL o o' Eb) as [_ [A B]]. unfold UNARY_PRIORITY in *. lia.
          * pose proof (FU o u' Eb). unfold UNARY_PRIORITY in *. lia.
          * cbn [rp]. apply lprio_bounds.
          * cbn [rp]. apply lprio_bounds.
        + destruct o; try reflexivity. cbn [is_lt andb].
          destruct (ends_bare (print_plain (parenthesize P l))) eqn:Eb'; [|reflexivity].
          rewrite (ends_bare_trailing P LowerThan LC l Eb') in Et. discriminate Et. }
    destruct Hleft as [H1 [H2 H3]]. rewrite H1, H2, H3. cbn [andb].
    rewrite andb_true_r.
    destruct r as [a|o' r1 r2|u' r1|r1|r1 k1]; cbn [right_needs parenthesize wrap]; try reflexivity.
    + destruct (right_bin P o o') eqn:E; cbn [wrap]; [reflexivity|].
      apply N.ltb_lt. apply (FR o o' E).
    + destruct (right_un P o u'); reflexivity.
  - (* unary *)
    rewrite wp_wrap, IHx. cbn [andb].
    destruct x as [a|o' x1 x2|u' x1|x1|x1 k1]; cbn [operand_needs parenthesize wrap]; try reflexivity.
    destruct (un_bin P u o') eqn:E; cbn [wrap]; [reflexivity|].
    apply N.ltb_lt. apply (FO u o' E).
  - (* cast *)
    rewrite wp_wrap, IHx. cbn [andb].
    destruct x as [a|o' x1 x2|u' x1|x1|x1 k1]; cbn [cast_inner_needs parenthesize];
      rewrite ?CB, ?CU, ?CC; reflexivity.
Qed.

Lemma strip_wrap b e : strip (wrap b e) = strip e.
Proof. destruct b; reflexivity. Qed.

(** the parentheses the generator writes never change the operator nesting *)
Lemma strip_parenthesize P e : strip (parenthesize P e) = strip e.
Proof.
  induction e as [a|o l IHl r IHr|u x IHx|x IHx|x IHx k]; cbn [parenthesize strip];
    rewrite ?strip_wrap; congruence.
Qed.

(** PARENTHESISATION ROUND TRIP.  For every table of predicates satisfying the decidable
    condition [prec_ok], for EVERY tree of operators, casts and parentheses (any depth), the
    reference parser reads the tokens the generator writes back as the same tree with the
    generator's parentheses made explicit; in particular with the same nesting. *)
Theorem paren_roundtrip : forall P, prec_ok P = true ->
  forall e, parse_expr (tokens_of_expr P e) = Some (parenthesize P e).
Proof.
  intros P Hok e. unfold tokens_of_expr. apply parse_print_plain. apply parenthesize_wp. exact Hok.
Qed.

Corollary paren_roundtrip_nesting : forall P, prec_ok P = true ->
  forall e, exists e', parse_expr (tokens_of_expr P e) = Some e' /\ strip e' = strip e.
Proof.
  intros P Hok e. exists (parenthesize P e). split; [apply paren_roundtrip; exact Hok|apply strip_parenthesize].
Qed.
