(** C20 — the hypotheses of the theorems are satisfiable by non-trivial inputs. *)
From Coq Require Import List Bool NArith.
From DL Require Import Model.Filters Model.FiltersTrace Proof.FiltersFacts.
Import ListNotations.
Open Scope N_scope.

(** patterns 0,1,2 ; files 0..3 ; pattern 0 matches every file, pattern 1 matches files 1 and 2,
    pattern 2 matches file 2 only *)
Definition ex_table : match_table := [(0,0);(0,1);(0,2);(0,3);(1,1);(1,2);(2,2)].
Definition ex_m := table_matches ex_table.
Definition ex_filter : filter N := Filter [1] [2].   (* apply to pattern 1, skip pattern 2: selects file 1 only *)
Definition ex_r (flt : filter N) (i : N) := mark_rule flt i.

(* should_apply = true / selected: file 1 ; false: files 0, 2, 3 *)
Example ex_selected : selected ex_m ex_filter 1.
Proof. apply should_apply_selected. vm_compute. reflexivity. Qed.
Example ex_not_selected_by_apply : ~ selected ex_m ex_filter 0.
Proof. apply should_apply_not_selected. vm_compute. reflexivity. Qed.
Example ex_not_selected_by_skip : ~ selected ex_m ex_filter 2.
Proof. apply should_apply_not_selected. vm_compute. reflexivity. Qed.

(* rule_filter_skip has an instance where deleting the rule matters on another file *)
Example ex_rule_skip :
  should_apply ex_m (r_filter (ex_r ex_filter 2)) 2 = false /\
  run_rules ex_m [ex_r no_filter 1; ex_r ex_filter 2; ex_r no_filter 3] 2 [] = Some [3;1] /\
  run_rules ex_m [ex_r no_filter 1; ex_r no_filter 3] 2 [] = Some [3;1] /\
  run_rules ex_m [ex_r no_filter 1; ex_r ex_filter 2; ex_r no_filter 3] 1 [] = Some [3;2;1].
Proof. vm_compute. repeat split. Qed.

(* rule_filter_apply *)
Example ex_rule_apply :
  should_apply ex_m (r_filter (ex_r ex_filter 2)) 1 = true /\
  run_rules ex_m [ex_r no_filter 1; unfiltered (ex_r ex_filter 2); ex_r no_filter 3] 1 [] = Some [3;2;1].
Proof. vm_compute. repeat split. Qed.

(* global_filter_spec: a parsed, bundled file; both branches occur *)
Example ex_global :
  trace_file ex_table ex_filter [no_filter; no_filter] 1 = Some [2;1] /\
  trace_file ex_table ex_filter [no_filter; no_filter] 2 = None /\
  trace_file ex_table no_filter [no_filter; no_filter] 2 = Some [2;1].
Proof. vm_compute. repeat split. Qed.

(* filters_local: two different filters with the same decision on file 3 (both reject), different on file 1 *)
Example ex_local :
  configs_agree ex_m 3 (trace_config no_filter [ex_filter; no_filter]) (trace_config no_filter [Filter [2] []; no_filter]) /\
  should_apply ex_m ex_filter 1 <> should_apply ex_m (Filter [2] []) 1.
Proof.
  split.
  - split; [reflexivity|]. cbn. constructor; [reflexivity|vm_compute; reflexivity|]. apply rules_agree_refl.
  - vm_compute. discriminate.
Qed.
