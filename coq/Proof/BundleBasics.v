(** Bundler model (Model/Bundle.v): list facts, termination on [enough_fuel], fuel monotonicity. *)
From Coq Require Import NArith Arith PeanoNat List Bool Lia.
From DL Require Import Lib.Bytes Model.Rename Model.Bundle Proof.BundleSpec.
Import ListNotations.
Open Scope N_scope.

(** ** lists *)

Lemma nth_error_app_some {A} (l m : list A) k x :
  nth_error l k = Some x -> nth_error (l ++ m) k = Some x.
Proof.
  intros H. rewrite nth_error_app1; [exact H|]. apply nth_error_Some. congruence.
Qed.

Lemma nth_error_snoc_len {A} (l : list A) x : nth_error (l ++ [x]) (List.length l) = Some x.
Proof. rewrite nth_error_app2 by lia. now rewrite Nat.sub_diag. Qed.

Lemma nth_error_snoc_inv {A} (l : list A) x k y :
  nth_error (l ++ [x]) k = Some y ->
  nth_error l k = Some y \/ (k = List.length l /\ y = x).
Proof.
  intros H. destruct (Nat.lt_ge_cases k (List.length l)) as [L|L].
  - left. now rewrite nth_error_app1 in H.
  - right. rewrite nth_error_app2 in H by exact L.
    destruct (k - List.length l)%nat as [|d] eqn:E.
    + cbn in H. split; [lia|congruence].
    + cbn in H. destruct d; discriminate.
Qed.

Lemma nth_error_map_fst {A B} (l : list (A * B)) k a b :
  nth_error l k = Some (a, b) -> nth_error (map fst l) k = Some a.
Proof. intros H. now rewrite (map_nth_error fst _ _ H). Qed.

Lemma nth_error_map_fst_inv {A B} (l : list (A * B)) k a :
  nth_error (map fst l) k = Some a -> exists b, nth_error l k = Some (a, b).
Proof.
  revert k; induction l as [|[a' b'] l IH]; intros [|k] H; cbn in *; try discriminate.
  - injection H as ->. now exists b'.
  - now apply IH.
Qed.

Lemma firstn_In {A} (x : A) n l : In x (firstn n l) -> In x l.
Proof.
  revert l; induction n as [|n IH]; intros [|y l] H; cbn in *; try contradiction.
  destruct H as [H|H]; [now left|right; now apply IH].
Qed.

Lemma firstn_NoDup {A} n (l : list A) : NoDup l -> NoDup (firstn n l).
Proof.
  revert l; induction n as [|n IH]; intros [|y l] H; cbn; try constructor.
  - inversion H; subst. intros C. apply firstn_In in C. contradiction.
  - inversion H; subst. now apply IH.
Qed.

Lemma Forall2_weaken {A B} (R1 R2 : A -> B -> Prop) l1 l2 :
  (forall a b, R1 a b -> R2 a b) -> Forall2 R1 l1 l2 -> Forall2 R2 l1 l2.
Proof. intros I; induction 1; constructor; auto. Qed.

Lemma NoDup_snoc {A} (l : list A) x : ~ In x l -> NoDup l -> NoDup (l ++ [x]).
Proof.
  intros NI ND. rewrite <- (rev_involutive (l ++ [x])). apply NoDup_rev.
  rewrite rev_app_distr. cbn. constructor; [rewrite <- in_rev; exact NI|now apply NoDup_rev].
Qed.

(** ** [index_of], [memf], [lookup], [cache_get] *)

Lemma index_of_none f l : index_of f l = None <-> ~ In f l.
Proof.
  induction l as [|x l IH]; cbn [index_of In].
  - tauto.
  - destruct (N.eqb_spec x f) as [E|NE].
    + split; [discriminate|]. intros H; exfalso; apply H; now left.
    + destruct (index_of f l) as [i|].
      * split; [discriminate|]. intros H. exfalso.
        assert (C : Some i = None) by (apply IH; tauto). discriminate.
      * split; [|reflexivity]. intros _ [H|H]; [contradiction|]. now apply IH.
Qed.

Lemma index_of_some f l i :
  index_of f l = Some i -> (i < List.length l)%nat /\ exists tl, skipn i l = f :: tl.
Proof.
  revert i; induction l as [|x l IH]; intros i H; cbn [index_of] in H; [discriminate|].
  destruct (N.eqb_spec x f) as [E|NE].
  - injection H as <-. subst x. cbn. split; [lia|now exists l].
  - destruct (index_of f l) as [j|]; [|discriminate]. injection H as <-.
    destruct (IH j eq_refl) as [L [tl E]]. cbn. split; [lia|now exists tl].
Qed.

Lemma memf_true f l : memf f l = true -> l <> [].
Proof. destruct l; [discriminate|discriminate]. Qed.

Lemma lookup_in g f k : lookup g f = Some k -> In f (files_of g).
Proof.
  induction g as [|[f' k'] g IH]; cbn [lookup files_of map fst In]; [discriminate|].
  destruct (N.eqb_spec f' f) as [E|NE]; [now left|]. intros H. right. now apply IH.
Qed.

(** ** unfolding [inline] by one step *)

Lemma inline_S g fuel' stack f s :
  inline g (S fuel') stack f s =
    match cache_get (cache s) f with
    | Some k => Some (s, inl k)
    | None =>
      match index_of f stack with
      | Some i => Some (s, inr (ECyclic (skipn i stack ++ [f])))
      | None =>
        match lookup g f with
        | None | Some KBroken => Some (s, inr (EResource f))
        | Some KData => let '(s', k) := define f [] s in Some (s', inl k)
        | Some (KLua reqs returns) =>
          match visit (try_inline (inline g fuel' (stack ++ [f]))) reqs s with
          | None => None
          | Some (s', sites) =>
            match returns with
            | Some 1%nat => let '(s'', k) := define f sites s' in Some (s'', inl k)
            | _ => Some (s', inr (EModule f))
            end
          end
        end
      end
    end.
Proof. reflexivity. Qed.

(** ** termination *)

Lemma visit_total rec : (forall r s, rec r s <> None) -> forall rs s, visit rec rs s <> None.
Proof.
  intros T rs; induction rs as [|r rs IH]; intros s; cbn [visit]; [discriminate|].
  destruct (rec r s) as [[s1 x]|] eqn:E; [|now apply T in E].
  destruct (visit rec rs s1) as [[s2 xs]|] eqn:E2; [discriminate|now apply IH in E2].
Qed.

Lemma try_inline_total irec :
  (forall f s, irec f s <> None) -> forall r s, try_inline irec r s <> None.
Proof.
  intros T [f|lit] s; cbn [try_inline]; [|discriminate].
  destruct (memf f (skip s)); [discriminate|].
  destruct (irec f s) as [[s' [k|e]]|] eqn:E; try discriminate. now apply T in E.
Qed.

Lemma inline_total g : forall fuel stack f s,
  NoDup stack -> incl stack (files_of g) -> (List.length g < fuel + List.length stack)%nat ->
  inline g fuel stack f s <> None.
Proof.
  induction fuel as [|fuel IH]; intros stack f s ND INC L.
  - exfalso. pose proof (NoDup_incl_length ND INC) as B. unfold files_of in B.
    rewrite map_length in B. lia.
  - rewrite inline_S.
    destruct (cache_get (cache s) f); [discriminate|].
    destruct (index_of f stack) eqn:Ei; [discriminate|].
    destruct (lookup g f) as [[reqs ret| |]|] eqn:El; try discriminate.
    assert (NI : ~ In f stack) by now apply index_of_none.
    assert (ND' : NoDup (stack ++ [f])) by now apply NoDup_snoc.
    assert (INC' : incl (stack ++ [f]) (files_of g)).
    { intros x Hx. apply in_app_or in Hx as [Hx|[<-|[]]]; [now apply INC|].
      eapply lookup_in; exact El. }
    assert (L' : (List.length g < fuel + List.length (stack ++ [f]))%nat).
    { rewrite app_length. cbn. lia. }
    destruct (visit (try_inline (inline g fuel (stack ++ [f]))) reqs s) as [[s' sites]|] eqn:Ev.
    + destruct ret as [[|[|n]]|]; discriminate.
    + exfalso. revert Ev. apply visit_total. apply try_inline_total.
      intros f0 s0. now apply IH.
Qed.

Lemma run_entry_total g roots : run_entry g (enough_fuel g) roots <> None.
Proof.
  unfold run_entry. apply visit_total. apply try_inline_total. intros f s.
  apply inline_total; [constructor|intros x []|]. unfold enough_fuel. cbn. lia.
Qed.

(** ** more fuel, same result *)

Lemma visit_mono (rec rec' : req -> state -> option (state * site)) :
  (forall r s x, rec r s = Some x -> rec' r s = Some x) ->
  forall rs s x, visit rec rs s = Some x -> visit rec' rs s = Some x.
Proof.
  intros M rs; induction rs as [|r rs IH]; intros s x H; cbn [visit] in *; [exact H|].
  destruct (rec r s) as [[s1 y]|] eqn:E; [|discriminate]. rewrite (M _ _ _ E).
  destruct (visit rec rs s1) as [[s2 ys]|] eqn:E2; [|discriminate]. now rewrite (IH _ _ E2).
Qed.

Lemma try_inline_mono (i i' : file -> state -> option (state * inlined)) :
  (forall f s x, i f s = Some x -> i' f s = Some x) ->
  forall r s x, try_inline i r s = Some x -> try_inline i' r s = Some x.
Proof.
  intros M [f|lit] s x H; cbn [try_inline] in *; [|exact H].
  destruct (memf f (skip s)); [exact H|].
  destruct (i f s) as [p|] eqn:E; [|discriminate]. now rewrite (M _ _ _ E).
Qed.

Lemma inline_mono_S g : forall n stack f s x,
  inline g n stack f s = Some x -> inline g (S n) stack f s = Some x.
Proof.
  induction n as [|n IH]; intros stack f s x H; [discriminate|].
  rewrite inline_S in H. rewrite inline_S.
  destruct (cache_get (cache s) f); [exact H|].
  destruct (index_of f stack); [exact H|].
  destruct (lookup g f) as [[reqs ret| |]|]; try exact H.
  destruct (visit (try_inline (inline g n (stack ++ [f]))) reqs s) as [p|] eqn:Ev; [|discriminate].
  assert (M : forall r s x, try_inline (inline g n (stack ++ [f])) r s = Some x ->
                            try_inline (inline g (S n) (stack ++ [f])) r s = Some x).
  { apply try_inline_mono. intros f0 s0 x0. apply IH. }
  rewrite (visit_mono _ _ M _ _ _ Ev). exact H.
Qed.

Lemma inline_mono g n m : (n <= m)%nat -> forall stack f s x,
  inline g n stack f s = Some x -> inline g m stack f s = Some x.
Proof.
  induction 1 as [|m L IH]; intros stack f s x H; [exact H|].
  apply inline_mono_S. now apply IH.
Qed.

Lemma run_entry_mono g n m roots x : (n <= m)%nat ->
  run_entry g n roots = Some x -> run_entry g m roots = Some x.
Proof.
  intros L. unfold run_entry. apply visit_mono. apply try_inline_mono.
  intros f s y. now apply inline_mono.
Qed.
