(** Small structural facts about the string writer model (kept separate from the
    round-trip development in StringLitFacts.v). *)
From DL Require Import Lib.Bytes Model.StringLit.
Open Scope N_scope.

Lemma quote_symbol_is_quote s : get_quote_symbol s = 39 \/ get_quote_symbol s = 34.
Proof. unfold get_quote_symbol. destruct (existsb _ s); [left; reflexivity|]. destruct (existsb _ s); auto. Qed.

(** the delimiter never occurs in the value unless the value holds both kinds of quote,
    in which case it is the single quote (and gets escaped by the [c =? q] arm) *)
Lemma quote_symbol_choice s :
  (existsb (N.eqb 34) s = true -> get_quote_symbol s = 39) /\
  (existsb (N.eqb 34) s = false -> existsb (N.eqb 39) s = true -> get_quote_symbol s = 34).
Proof. unfold get_quote_symbol. split; [intros ->; reflexivity | intros -> ->; reflexivity]. Qed.

Lemma write_quoted_delimited s :
  exists q, (q = 39 \/ q = 34) /\ write_quoted s = q :: quoted_body s ++ [q].
Proof. exists (get_quote_symbol s). split; [apply quote_symbol_is_quote | reflexivity]. Qed.
