(** C07 for remove_continue (Model/RemoveContinue.v): census of the rule's output.

    For every class of the syntax and every state of the traversal:
      [keep]  for a feature [j <> 1] the count of the output equals the count of the input
              (the rule only adds [local], [repeat], [if], assignments, [not], identifiers,
              [true]/[false], [break]);
      [cont]  the count of [continue] in the output is [stray_*]: the [continue] statements
              reached while the top of the loop stack is not a loop.
    Both by induction on the size measure [w_*] of Model/Visit.v (the syntax is a nested
    mutual inductive type), as in Proof/LoweringCensusBase.v. *)
From Coq Require Import ZArith NArith List Bool Lia ZifyBool ZifyN ZifyNat.
From DL Require Import Lib.Bytes Lua.Syntax Lua.Census Model.Visit Model.RemoveContinue
  Proof.LoweringCensusBase.
Import ListNotations.
Local Open Scope nat_scope.

(** * Measures through the state-threading maps *)

Lemma mapS_meas {A} (rc : N -> A -> A * N) (F G : A -> N) l :
  (forall x, In x l -> forall m x' m', rc m x = (x', m') -> F x' = G x) ->
  forall m l' m', mapS rc m l = (l', m') -> sumN (map F l') = sumN (map G l).
Proof.
  induction l as [|a l IH]; intros H m l' m' E; cbn [mapS] in E.
  - injection E as <- <-. reflexivity.
  - destruct (rc m a) as [x' n1] eqn:E1. destruct (mapS rc n1 l) as [r' n2] eqn:E2.
    injection E as <- <-. cbn [map]. rewrite !sumN_cons.
    rewrite (H a (or_introl eq_refl) _ _ _ E1).
    rewrite (IH (fun x Hx => H x (or_intror Hx)) _ _ _ E2). reflexivity.
Qed.

Lemma mapSB_meas {A} (rc : N -> A -> A * N * bool) (F G : A -> N) l :
  (forall x, In x l -> forall m x' m' c, rc m x = (x', m', c) -> F x' = G x) ->
  forall m l' m' c, mapSB rc m l = (l', m', c) -> sumN (map F l') = sumN (map G l).
Proof.
  induction l as [|a l IH]; intros H m l' m' c E; cbn [mapSB] in E.
  - injection E as <- <- <-. reflexivity.
  - destruct (rc m a) as [[x' n1] c1] eqn:E1. destruct (mapSB rc n1 l) as [[r' n2] c2] eqn:E2.
    injection E as <- <- <-. cbn [map]. rewrite !sumN_cons.
    rewrite (H a (or_introl eq_refl) _ _ _ _ E1).
    rewrite (IH (fun x Hx => H x (or_intror Hx)) _ _ _ _ E2). reflexivity.
Qed.

(** the traversal's own [nsum]/[nopt] are the [sumN]/[optN] of the census proofs *)
Ltac nsum_to_sumN := change nsum with sumN in *; change @nopt with @optN in *.

(** * Zero-census material the rule adds *)

Lemma f_set_flag j id : f_stmt j (set_flag id) = 0%N.
Proof. reflexivity. Qed.

Lemma f_wrap_if j c id b : f_block j (wrap_if c id b) = f_block j b.
Proof.
  destruct c; [|reflexivity]. destruct b as [ss [l|]]; cbn [wrap_if wrap_loop_block]; feq.
  - fsimp j. feq. fsimp j. lia.
  - fsimp j. feq. rewrite map_app, sumN_app. fsimp j. rewrite f_set_flag. lia.
Qed.

Lemma optS_meas {A} (rc : N -> A -> A * N) (F G : A -> N) o :
  (forall x, o = Some x -> forall m x' m', rc m x = (x', m') -> F x' = G x) ->
  forall m o' m', optS rc m o = (o', m') -> optN F o' = optN G o.
Proof.
  destruct o as [x|]; intros H m o' m' E; cbn [optS] in E.
  - destruct (rc m x) as [x' n1] eqn:E1. injection E as <- <-. cbn [optN]. eapply H; [reflexivity|exact E1].
  - injection E as <- <-. reflexivity.
Qed.

Lemma optSB_meas {A} (rc : N -> A -> A * N * bool) (F G : A -> N) o :
  (forall x, o = Some x -> forall m x' m' c, rc m x = (x', m', c) -> F x' = G x) ->
  forall m o' m' c, optSB rc m o = (o', m', c) -> optN F o' = optN G o.
Proof.
  destruct o as [x|]; intros H m o' m' c E; cbn [optSB] in E.
  - destruct (rc m x) as [[x' n1] c1] eqn:E1. injection E as <- <- <-. cbn [optN]. eapply H; [reflexivity|exact E1].
  - injection E as <- <- <-. reflexivity.
Qed.

(** * Proof automation: one node of the traversal

    [split_pairs]: name the results of the recursive calls ([let (x', n1) := rc_* .. in]);
    [conv F..]: turn each [rc_* m x = (x', m')] into the measure equation given by the
    induction hypotheses [Ity Ie Iis Ieb Ia Ite Ifb Ip Is Isb Ib Il] (found by name). *)
Ltac split_pairs :=
  repeat match goal with
  | E : context [match rc_fbody ?c ?m ?x with pair _ _ => _ end] |- _ =>
    destruct (rc_fbody c m x) as [[? ?] ?] eqn:?; cbv beta iota in E
  | E : context [match rc_stmt ?c ?m ?x with pair _ _ => _ end] |- _ =>
    destruct (rc_stmt c m x) as [[? ?] ?] eqn:?; cbv beta iota in E
  | E : context [match rc_sbranch ?c ?m ?x with pair _ _ => _ end] |- _ =>
    destruct (rc_sbranch c m x) as [[? ?] ?] eqn:?; cbv beta iota in E
  | E : context [match rc_block ?c ?m ?x with pair _ _ => _ end] |- _ =>
    destruct (rc_block c m x) as [[? ?] ?] eqn:?; cbv beta iota in E
  | E : context [match mapSB ?f ?m ?x with pair _ _ => _ end] |- _ =>
    destruct (mapSB f m x) as [[? ?] ?] eqn:?; cbv beta iota in E
  | E : context [match optSB ?f ?m ?x with pair _ _ => _ end] |- _ =>
    destruct (optSB f m x) as [[? ?] ?] eqn:?; cbv beta iota in E
  | E : context [match ?t with pair _ _ => _ end] |- _ =>
    destruct t as [? ?] eqn:?; cbv beta iota in E
  end.

(** * Features other than [continue] are kept *)

Section Keep.
Variable j : nat.
Hypothesis Hj : j <> 1.

Lemma u_j_1 : u j 1 = 0%N.
Proof. unfold u. destruct (Nat.eqb_spec j 1); [contradiction|reflexivity]. Qed.

Definition keep_at (n : nat) : Prop :=
  (forall t, w_ty t <= n -> forall m t' m', rc_ty m t = (t', m') -> f_ty j t' = f_ty j t) /\
  (forall e, w_expr e <= n -> forall m e' m', rc_expr m e = (e', m') -> f_expr j e' = f_expr j e) /\
  (forall s, w_iseg s <= n -> forall m s' m', rc_iseg m s = (s', m') -> f_iseg j s' = f_iseg j s) /\
  (forall b, w_ebranch b <= n -> forall m b' m', rc_ebranch m b = (b', m') -> f_ebranch j b' = f_ebranch j b) /\
  (forall a, w_args a <= n -> forall m a' m', rc_args m a = (a', m') -> f_args j a' = f_args j a) /\
  (forall t, w_tentry t <= n -> forall m t' m', rc_tentry m t = (t', m') -> f_tentry j t' = f_tentry j t) /\
  (forall f, w_fbody f <= n -> forall ctx m f' m' c, rc_fbody ctx m f = (f', m', c) -> f_fbody j f' = f_fbody j f) /\
  (forall p, w_param p <= n -> forall m p' m', rc_param m p = (p', m') -> f_param j p' = f_param j p) /\
  (forall s, w_stmt s <= n -> forall ctx m s' m' c, rc_stmt ctx m s = (s', m', c) -> f_stmt j s' = f_stmt j s) /\
  (forall b, w_sbranch b <= n -> forall ctx m b' m' c, rc_sbranch ctx m b = (b', m', c) -> f_sbranch j b' = f_sbranch j b) /\
  (forall b, w_block b <= n -> forall ctx m b' m' c, rc_block ctx m b = (b', m', c) -> f_block j b' = f_block j b) /\
  (forall l, w_last l <= n -> forall m l' m', rc_last m l = (l', m') -> f_last j l' = f_last j l).

End Keep.

Ltac keep_list H rc l w F I :=
  apply (mapS_meas rc F F) in H;
  [|let x := fresh "x" in let Hx := fresh "Hx" in
    intros x Hx; apply I; pose proof (sum_in w l x Hx); lia].
Ltac keep_listB H rc l w F I :=
  apply (mapSB_meas rc F F) in H;
  [|let x := fresh "x" in let Hx := fresh "Hx" in
    intros x Hx; apply I; pose proof (sum_in w l x Hx); lia].
Ltac keep_opt H rc F I :=
  apply (optS_meas rc F F) in H;
  [|let x := fresh "x" in let Hx := fresh "Hx" in
    intros x Hx; try discriminate Hx; try (injection Hx as <-); subst; apply I; cbn [wopt] in *; lia].
Ltac keep_optB H rc F I :=
  apply (optSB_meas rc F F) in H;
  [|let x := fresh "x" in let Hx := fresh "Hx" in
    intros x Hx; try discriminate Hx; try (injection Hx as <-); subst; apply I; cbn [wopt] in *; lia].

Ltac keep_conv j Ity Ie Iis Ieb Ia Ite Ifb Ip Is Isb Ib Il :=
  repeat match goal with
  | H : rc_ty _ _ = _ |- _ => apply Ity in H; [|lia]
  | H : rc_expr _ _ = _ |- _ => apply Ie in H; [|lia]
  | H : rc_iseg _ _ = _ |- _ => apply Iis in H; [|lia]
  | H : rc_ebranch _ _ = _ |- _ => apply Ieb in H; [|lia]
  | H : rc_args _ _ = _ |- _ => apply Ia in H; [|lia]
  | H : rc_tentry _ _ = _ |- _ => apply Ite in H; [|lia]
  | H : rc_fbody _ _ _ = _ |- _ => apply Ifb in H; [|lia]
  | H : rc_param _ _ = _ |- _ => apply Ip in H; [|lia]
  | H : rc_stmt _ _ _ = _ |- _ => apply Is in H; [|lia]
  | H : rc_sbranch _ _ _ = _ |- _ => apply Isb in H; [|lia]
  | H : rc_block _ _ _ = _ |- _ => apply Ib in H; [|lia]
  | H : rc_last _ _ = _ |- _ => apply Il in H; [|lia]
  | H : mapS rc_ty _ ?l = _ |- _ => keep_list H rc_ty l w_ty (f_ty j) Ity
  | H : mapS rc_expr _ ?l = _ |- _ => keep_list H rc_expr l w_expr (f_expr j) Ie
  | H : mapS rc_iseg _ ?l = _ |- _ => keep_list H rc_iseg l w_iseg (f_iseg j) Iis
  | H : mapS rc_ebranch _ ?l = _ |- _ => keep_list H rc_ebranch l w_ebranch (f_ebranch j) Ieb
  | H : mapS rc_tentry _ ?l = _ |- _ => keep_list H rc_tentry l w_tentry (f_tentry j) Ite
  | H : mapS rc_param _ ?l = _ |- _ => keep_list H rc_param l w_param (f_param j) Ip
  | H : mapSB (rc_stmt ?c) _ ?l = _ |- _ => keep_listB H (rc_stmt c) l w_stmt (f_stmt j) Is
  | H : mapSB (rc_sbranch ?c) _ ?l = _ |- _ => keep_listB H (rc_sbranch c) l w_sbranch (f_sbranch j) Isb
  | H : optS rc_ty _ _ = _ |- _ => keep_opt H rc_ty (f_ty j) Ity
  | H : optS rc_expr _ _ = _ |- _ => keep_opt H rc_expr (f_expr j) Ie
  | H : optS rc_last _ _ = _ |- _ => keep_opt H rc_last (f_last j) Il
  | H : optSB (rc_block ?c) _ _ = _ |- _ => keep_optB H (rc_block c) (f_block j) Ib
  end.

Ltac finish_node j :=
  subst; feq; cbn [f_expr f_iseg f_ebranch f_args f_tentry f_stmt f_sbranch f_last]; feq;
  rewrite ?f_wrap_if; lia.

Section KeepProof.
Variable j : nat.
Hypothesis Hj : j <> 1.

Lemma keep_all : forall n, keep_at j n.
Proof.
  induction n as [|n IH].
  - unfold keep_at. repeat match goal with |- _ /\ _ => split end; intros x Hx; exfalso;
      [pose proof (w_ty_pos x)|pose proof (w_expr_pos x)|pose proof (w_iseg_pos x)|pose proof (w_ebranch_pos x)
      |pose proof (w_args_pos x)|pose proof (w_tentry_pos x)|pose proof (w_fbody_pos x)|pose proof (w_param_pos x)
      |pose proof (w_stmt_pos x)|pose proof (w_sbranch_pos x)|pose proof (w_block_pos x)|pose proof (w_last_pos x)]; lia.
  - destruct IH as (Ity & Ie & Iis & Ieb & Ia & Ite & Ifb & Ip & Is & Isb & Ib & Il).
    unfold keep_at. repeat match goal with |- _ /\ _ => split end.
    + (* ty *) intros [k subs es] Hw m t' m' E. cbn [w_ty] in Hw. cbn [rc_ty] in E.
      split_pairs. injection E as <- <-. keep_conv j Ity Ie Iis Ieb Ia Ite Ifb Ip Is Isb Ib Il. finish_node j.
    + (* expr *) intros e Hw m e' m' E. destruct e; try destruct op; cbn [w_expr] in Hw; cbn [rc_expr] in E;
        split_pairs; try (injection E as <- <-); keep_conv j Ity Ie Iis Ieb Ia Ite Ifb Ip Is Isb Ib Il; finish_node j.
    + (* iseg *) intros x Hw m x' m' E. destruct x; cbn [w_iseg] in Hw; cbn [rc_iseg] in E;
        split_pairs; injection E as <- <-; keep_conv j Ity Ie Iis Ieb Ia Ite Ifb Ip Is Isb Ib Il; finish_node j.
    + (* ebranch *) intros x Hw m x' m' E. destruct x; cbn [w_ebranch] in Hw; cbn [rc_ebranch] in E;
        split_pairs; injection E as <- <-; keep_conv j Ity Ie Iis Ieb Ia Ite Ifb Ip Is Isb Ib Il; finish_node j.
    + (* args *) intros x Hw m x' m' E. destruct x; cbn [w_args] in Hw; cbn [rc_args] in E;
        split_pairs; injection E as <- <-; keep_conv j Ity Ie Iis Ieb Ia Ite Ifb Ip Is Isb Ib Il; finish_node j.
    + (* tentry *) intros x Hw m x' m' E. destruct x; cbn [w_tentry] in Hw; cbn [rc_tentry] in E;
        split_pairs; injection E as <- <-; keep_conv j Ity Ie Iis Ieb Ia Ite Ifb Ip Is Isb Ib Il; finish_node j.
    + (* fbody *) intros x Hw ctx m x' m' c E. destruct x; cbn [w_fbody] in Hw; cbn [rc_fbody] in E;
        split_pairs; injection E as <- <- <-; keep_conv j Ity Ie Iis Ieb Ia Ite Ifb Ip Is Isb Ib Il; finish_node j.
    + (* param *) intros x Hw m x' m' E. destruct x; cbn [w_param] in Hw; cbn [rc_param] in E;
        split_pairs; injection E as <- <-; keep_conv j Ity Ie Iis Ieb Ia Ite Ifb Ip Is Isb Ib Il; finish_node j.
    + (* stmt *) intros x Hw ctx m x' m' c E. destruct x; cbn [w_stmt] in Hw; cbn [rc_stmt] in E;
        split_pairs; injection E as <- <- <-; keep_conv j Ity Ie Iis Ieb Ia Ite Ifb Ip Is Isb Ib Il; finish_node j.
    + (* sbranch *) intros x Hw ctx m x' m' c E. destruct x; cbn [w_sbranch] in Hw; cbn [rc_sbranch] in E;
        split_pairs; injection E as <- <- <-; keep_conv j Ity Ie Iis Ieb Ia Ite Ifb Ip Is Isb Ib Il; finish_node j.
    + (* block *) intros [ss last] Hw ctx m x' m' c E. cbn [w_block] in Hw; cbn [rc_block] in E.
      destruct (mapSB (rc_stmt ctx) m ss) as [[ss' n1] c1] eqn:E1. cbv beta iota in E.
      destruct last as [[| |es]|]; [|destruct ctx as [id|]| |]; split_pairs;
        injection E as <- <- <-; keep_conv j Ity Ie Iis Ieb Ia Ite Ifb Ip Is Isb Ib Il;
        feq; rewrite ?map_app, ?sumN_app; fsimp j; cbn [optN] in *; rewrite ?f_last_return_eq in *; cbn [f_last] in *;
        rewrite ?f_set_flag; rewrite ?(u_j_1 j Hj) in *; lia.
    + (* last *) intros x Hw m x' m' E. destruct x; cbn [w_last] in Hw; cbn [rc_last] in E;
        split_pairs; injection E as <- <-; keep_conv j Ity Ie Iis Ieb Ia Ite Ifb Ip Is Isb Ib Il; finish_node j.
Qed.
End KeepProof.

(** * The [continue] statements left are the stray ones *)

Definition is_loop (ctx : option N) : bool := match ctx with Some _ => true | None => false end.

Lemma stray_ty_eq k subs es : stray_ty (TyNode k subs es) = (sumN (map stray_ty subs) + sumN (map stray_expr es))%N.
Proof. reflexivity. Qed.
Lemma stray_expr_interp_eq segs : stray_expr (EInterp segs) = sumN (map stray_iseg segs).
Proof. reflexivity. Qed.
Lemma stray_expr_if_eq bs els : stray_expr (EIf bs els) = (sumN (map stray_ebranch bs) + stray_expr els)%N.
Proof. reflexivity. Qed.
Lemma stray_expr_table_eq en : stray_expr (ETable en) = sumN (map stray_tentry en).
Proof. reflexivity. Qed.
Lemma stray_expr_inst_eq p tys : stray_expr (ETypeInst p tys) = (stray_expr p + sumN (map stray_ty tys))%N.
Proof. reflexivity. Qed.
Lemma stray_args_tuple_eq es : stray_args (ATuple es) = sumN (map stray_expr es).
Proof. reflexivity. Qed.
Lemma stray_args_table_eq en : stray_args (ATable en) = sumN (map stray_tentry en).
Proof. reflexivity. Qed.
Lemma stray_fbody_eq inl ps va vt rt gen attrs body :
  stray_fbody inl (FBody ps va vt rt gen attrs body) =
  (sumN (map stray_param ps) + (optN stray_ty vt + (optN stray_ty rt + (optN stray_ty gen + stray_block inl body))))%N.
Proof. reflexivity. Qed.
Lemma stray_param_eq x t : stray_param (Param x t) = optN stray_ty t.
Proof. reflexivity. Qed.
Lemma stray_stmt_assign_eq inl vars vals :
  stray_stmt inl (SAssign vars vals) = (sumN (map stray_expr vars) + sumN (map stray_expr vals))%N.
Proof. reflexivity. Qed.
Lemma stray_stmt_genfor_eq inl vars es b :
  stray_stmt inl (SGenericFor vars es b) = (sumN (map stray_param vars) + (sumN (map stray_expr es) + stray_block true b))%N.
Proof. reflexivity. Qed.
Lemma stray_stmt_if_eq inl bs els :
  stray_stmt inl (SIf bs els) = (sumN (map (stray_sbranch inl) bs) + optN (stray_block inl) els)%N.
Proof. reflexivity. Qed.
Lemma stray_stmt_local_eq inl c vars vals :
  stray_stmt inl (SLocal c vars vals) = (sumN (map stray_param vars) + sumN (map stray_expr vals))%N.
Proof. reflexivity. Qed.
Lemma stray_stmt_numfor_eq inl var a b step body :
  stray_stmt inl (SNumericFor var a b step body) =
  (stray_param var + (stray_expr a + (stray_expr b + (optN stray_expr step + stray_block true body))))%N.
Proof. reflexivity. Qed.
Lemma stray_stmt_typedecl_eq inl ex x gen t : stray_stmt inl (STypeDecl ex x gen t) = (optN stray_ty gen + stray_ty t)%N.
Proof. reflexivity. Qed.
Lemma stray_block_eq inl ss last :
  stray_block inl (Block ss last) = (sumN (map (stray_stmt inl) ss) + optN (stray_last inl) last)%N.
Proof. reflexivity. Qed.
Lemma stray_last_return_eq inl es : stray_last inl (LReturn es) = sumN (map stray_expr es).
Proof. reflexivity. Qed.

Ltac seq :=
  rewrite ?stray_ty_eq, ?stray_expr_interp_eq, ?stray_expr_if_eq, ?stray_expr_table_eq, ?stray_expr_inst_eq,
    ?stray_args_tuple_eq, ?stray_args_table_eq, ?stray_fbody_eq, ?stray_param_eq, ?stray_stmt_assign_eq,
    ?stray_stmt_genfor_eq, ?stray_stmt_if_eq, ?stray_stmt_local_eq, ?stray_stmt_numfor_eq, ?stray_stmt_typedecl_eq,
    ?stray_block_eq, ?stray_last_return_eq.

Definition cont_at (n : nat) : Prop :=
  (forall t, w_ty t <= n -> forall m t' m', rc_ty m t = (t', m') -> f_ty 1 t' = stray_ty t) /\
  (forall e, w_expr e <= n -> forall m e' m', rc_expr m e = (e', m') -> f_expr 1 e' = stray_expr e) /\
  (forall s, w_iseg s <= n -> forall m s' m', rc_iseg m s = (s', m') -> f_iseg 1 s' = stray_iseg s) /\
  (forall b, w_ebranch b <= n -> forall m b' m', rc_ebranch m b = (b', m') -> f_ebranch 1 b' = stray_ebranch b) /\
  (forall a, w_args a <= n -> forall m a' m', rc_args m a = (a', m') -> f_args 1 a' = stray_args a) /\
  (forall t, w_tentry t <= n -> forall m t' m', rc_tentry m t = (t', m') -> f_tentry 1 t' = stray_tentry t) /\
  (forall f, w_fbody f <= n -> forall ctx m f' m' c, rc_fbody ctx m f = (f', m', c) ->
     f_fbody 1 f' = stray_fbody (is_loop ctx) f) /\
  (forall p, w_param p <= n -> forall m p' m', rc_param m p = (p', m') -> f_param 1 p' = stray_param p) /\
  (forall s, w_stmt s <= n -> forall ctx m s' m' c, rc_stmt ctx m s = (s', m', c) ->
     f_stmt 1 s' = stray_stmt (is_loop ctx) s) /\
  (forall b, w_sbranch b <= n -> forall ctx m b' m' c, rc_sbranch ctx m b = (b', m', c) ->
     f_sbranch 1 b' = stray_sbranch (is_loop ctx) b) /\
  (forall b, w_block b <= n -> forall ctx m b' m' c, rc_block ctx m b = (b', m', c) ->
     f_block 1 b' = stray_block (is_loop ctx) b) /\
  (forall l, w_last l <= n -> forall m l' m', rc_last m l = (l', m') ->
     forall inl, (l = LContinue -> inl = false) -> f_last 1 l' = stray_last inl l).

Ltac cont_list H rc l w F G I :=
  apply (mapS_meas rc F G) in H;
  [|let x := fresh "x" in let Hx := fresh "Hx" in
    intros x Hx; apply I; pose proof (sum_in w l x Hx); lia].
Ltac cont_listB H rc l w F G I :=
  apply (mapSB_meas rc F G) in H;
  [|let x := fresh "x" in let Hx := fresh "Hx" in
    intros x Hx; apply I; pose proof (sum_in w l x Hx); lia].
Ltac cont_opt H rc F G I :=
  apply (optS_meas rc F G) in H;
  [|let x := fresh "x" in let Hx := fresh "Hx" in
    intros x Hx; try discriminate Hx; try (injection Hx as <-); subst; apply I; cbn [wopt] in *; lia].
Ltac cont_optB H rc F G I :=
  apply (optSB_meas rc F G) in H;
  [|let x := fresh "x" in let Hx := fresh "Hx" in
    intros x Hx; try discriminate Hx; try (injection Hx as <-); subst; apply I; cbn [wopt] in *; lia].

Ltac cont_conv Ity Ie Iis Ieb Ia Ite Ifb Ip Is Isb Ib :=
  repeat match goal with
  | H : rc_ty _ _ = _ |- _ => apply Ity in H; [|lia]
  | H : rc_expr _ _ = _ |- _ => apply Ie in H; [|lia]
  | H : rc_iseg _ _ = _ |- _ => apply Iis in H; [|lia]
  | H : rc_ebranch _ _ = _ |- _ => apply Ieb in H; [|lia]
  | H : rc_args _ _ = _ |- _ => apply Ia in H; [|lia]
  | H : rc_tentry _ _ = _ |- _ => apply Ite in H; [|lia]
  | H : rc_fbody _ _ _ = _ |- _ => apply Ifb in H; [|lia]
  | H : rc_param _ _ = _ |- _ => apply Ip in H; [|lia]
  | H : rc_stmt _ _ _ = _ |- _ => apply Is in H; [|lia]
  | H : rc_sbranch _ _ _ = _ |- _ => apply Isb in H; [|lia]
  | H : rc_block _ _ _ = _ |- _ => apply Ib in H; [|lia]
  | H : mapS rc_ty _ ?l = _ |- _ => cont_list H rc_ty l w_ty (f_ty 1) stray_ty Ity
  | H : mapS rc_expr _ ?l = _ |- _ => cont_list H rc_expr l w_expr (f_expr 1) stray_expr Ie
  | H : mapS rc_iseg _ ?l = _ |- _ => cont_list H rc_iseg l w_iseg (f_iseg 1) stray_iseg Iis
  | H : mapS rc_ebranch _ ?l = _ |- _ => cont_list H rc_ebranch l w_ebranch (f_ebranch 1) stray_ebranch Ieb
  | H : mapS rc_tentry _ ?l = _ |- _ => cont_list H rc_tentry l w_tentry (f_tentry 1) stray_tentry Ite
  | H : mapS rc_param _ ?l = _ |- _ => cont_list H rc_param l w_param (f_param 1) stray_param Ip
  | H : mapSB (rc_stmt ?c) _ ?l = _ |- _ =>
    cont_listB H (rc_stmt c) l w_stmt (f_stmt 1) (stray_stmt (is_loop c)) Is
  | H : mapSB (rc_sbranch ?c) _ ?l = _ |- _ =>
    cont_listB H (rc_sbranch c) l w_sbranch (f_sbranch 1) (stray_sbranch (is_loop c)) Isb
  | H : optS rc_ty _ _ = _ |- _ => cont_opt H rc_ty (f_ty 1) stray_ty Ity
  | H : optS rc_expr _ _ = _ |- _ => cont_opt H rc_expr (f_expr 1) stray_expr Ie
  | H : optSB (rc_block ?c) _ _ = _ |- _ => cont_optB H (rc_block c) (f_block 1) (stray_block (is_loop c)) Ib
  end.

Ltac cont_finish :=
  subst; feq; seq;
  cbn [f_expr f_iseg f_ebranch f_args f_tentry f_stmt f_sbranch f_last
       stray_expr stray_iseg stray_ebranch stray_args stray_tentry stray_stmt stray_sbranch stray_last is_loop] in *;
  feq; seq; rewrite ?f_wrap_if; cbn [u Nat.eqb] in *; lia.

Lemma cont_all : forall n, cont_at n.
Proof.
  induction n as [|n IH].
  - unfold cont_at. repeat match goal with |- _ /\ _ => split end; intros x Hx; exfalso;
      [pose proof (w_ty_pos x)|pose proof (w_expr_pos x)|pose proof (w_iseg_pos x)|pose proof (w_ebranch_pos x)
      |pose proof (w_args_pos x)|pose proof (w_tentry_pos x)|pose proof (w_fbody_pos x)|pose proof (w_param_pos x)
      |pose proof (w_stmt_pos x)|pose proof (w_sbranch_pos x)|pose proof (w_block_pos x)|pose proof (w_last_pos x)]; lia.
  - destruct IH as (Ity & Ie & Iis & Ieb & Ia & Ite & Ifb & Ip & Is & Isb & Ib & Il).
    unfold cont_at. repeat match goal with |- _ /\ _ => split end.
    + (* ty *) intros [k subs es] Hw m t' m' E. cbn [w_ty] in Hw. cbn [rc_ty] in E.
      split_pairs. injection E as <- <-. cont_conv Ity Ie Iis Ieb Ia Ite Ifb Ip Is Isb Ib. cont_finish.
    + (* expr *) intros e Hw m e' m' E. destruct e; try destruct op; cbn [w_expr] in Hw; cbn [rc_expr] in E;
        split_pairs; try (injection E as <- <-); cont_conv Ity Ie Iis Ieb Ia Ite Ifb Ip Is Isb Ib; try cont_finish.
      cbn [f_expr stray_expr]. destruct (luau_number n0); reflexivity.
    + (* iseg *) intros x Hw m x' m' E. destruct x; cbn [w_iseg] in Hw; cbn [rc_iseg] in E;
        split_pairs; injection E as <- <-; cont_conv Ity Ie Iis Ieb Ia Ite Ifb Ip Is Isb Ib; cont_finish.
    + (* ebranch *) intros x Hw m x' m' E. destruct x; cbn [w_ebranch] in Hw; cbn [rc_ebranch] in E;
        split_pairs; injection E as <- <-; cont_conv Ity Ie Iis Ieb Ia Ite Ifb Ip Is Isb Ib; cont_finish.
    + (* args *) intros x Hw m x' m' E. destruct x; cbn [w_args] in Hw; cbn [rc_args] in E;
        split_pairs; injection E as <- <-; cont_conv Ity Ie Iis Ieb Ia Ite Ifb Ip Is Isb Ib; cont_finish.
    + (* tentry *) intros x Hw m x' m' E. destruct x; cbn [w_tentry] in Hw; cbn [rc_tentry] in E;
        split_pairs; injection E as <- <-; cont_conv Ity Ie Iis Ieb Ia Ite Ifb Ip Is Isb Ib; cont_finish.
    + (* fbody *) intros x Hw ctx m x' m' c E. destruct x; cbn [w_fbody] in Hw; cbn [rc_fbody] in E;
        split_pairs; injection E as <- <- <-; cont_conv Ity Ie Iis Ieb Ia Ite Ifb Ip Is Isb Ib.
      feq. seq. destruct (attrs =? 0)%N; cbn [u Nat.eqb]; lia.
    + (* param *) intros x Hw m x' m' E. destruct x; cbn [w_param] in Hw; cbn [rc_param] in E;
        split_pairs; injection E as <- <-; cont_conv Ity Ie Iis Ieb Ia Ite Ifb Ip Is Isb Ib; cont_finish.
    + (* stmt *) intros x Hw ctx m x' m' c E. destruct x; try destruct op; try destruct is_const;
        cbn [w_stmt] in Hw; cbn [rc_stmt] in E;
        split_pairs; injection E as <- <- <-; cont_conv Ity Ie Iis Ieb Ia Ite Ifb Ip Is Isb Ib; cont_finish.
    + (* sbranch *) intros x Hw ctx m x' m' c E. destruct x; cbn [w_sbranch] in Hw; cbn [rc_sbranch] in E;
        split_pairs; injection E as <- <- <-; cont_conv Ity Ie Iis Ieb Ia Ite Ifb Ip Is Isb Ib; cont_finish.
    + (* block *) intros [ss last] Hw ctx m x' m' c E. cbn [w_block] in Hw; cbn [rc_block] in E.
      destruct (mapSB (rc_stmt ctx) m ss) as [[ss' n1] c1] eqn:E1. cbv beta iota in E.
      cont_conv Ity Ie Iis Ieb Ia Ite Ifb Ip Is Isb Ib.
      assert (Hlast : forall o n2, optS rc_last n1 last = (o, n2) -> (last = Some LContinue -> ctx = None) ->
                optN (f_last 1) o = optN (stray_last (is_loop ctx)) last).
      { intros o n2 Eo Hc. eapply optS_meas; [|exact Eo]. intros l -> k l' k' El.
        eapply Il; [cbn [wopt] in Hw; lia|exact El|]. intros ->. rewrite Hc; reflexivity. }
      destruct last as [[| |es]|]; [|destruct ctx as [id|]| |].
      * destruct (optS rc_last n1 (Some LBreak)) as [o n2] eqn:Eo. injection E as <- <- <-.
        specialize (Hlast o n2 eq_refl). feq. seq. rewrite Hlast; [lia|discriminate].
      * injection E as <- <- <-. feq. seq. rewrite map_app, sumN_app. cbn [is_loop] in *.
        fsimp 1. rewrite f_set_flag. cbn [optN stray_last]. lia.
      * destruct (optS rc_last n1 (Some LContinue)) as [o n2] eqn:Eo. injection E as <- <- <-.
        specialize (Hlast o n2 eq_refl). feq. seq. rewrite Hlast; [lia|reflexivity].
      * destruct (optS rc_last n1 (Some (LReturn es))) as [o n2] eqn:Eo. injection E as <- <- <-.
        specialize (Hlast o n2 eq_refl). feq. seq. rewrite Hlast; [lia|discriminate].
      * destruct (optS rc_last n1 None) as [o n2] eqn:Eo. injection E as <- <- <-.
        specialize (Hlast o n2 eq_refl). feq. seq. rewrite Hlast; [lia|discriminate].
    + (* last *) intros x Hw m x' m' E inl Hc. destruct x; cbn [w_last] in Hw; cbn [rc_last] in E.
      * injection E as <- <-. reflexivity.
      * injection E as <- <-. rewrite (Hc eq_refl). reflexivity.
      * split_pairs. injection E as <- <-. cont_conv Ity Ie Iis Ieb Ia Ite Ifb Ip Is Isb Ib. feq. seq. lia.
Qed.

(** * Stray [continue] statements are [continue] statements *)

Lemma sumN_map_le {A} (F G : A -> N) l : (forall x, In x l -> (F x <= G x)%N) -> (sumN (map F l) <= sumN (map G l))%N.
Proof.
  induction l as [|x l IH]; intros H; [cbn; lia|]. cbn [map]. rewrite !sumN_cons.
  pose proof (H x (or_introl eq_refl)). pose proof (IH (fun y Hy => H y (or_intror Hy))). lia.
Qed.

Lemma optN_le {A} (F G : A -> N) o : (forall x, o = Some x -> (F x <= G x)%N) -> (optN F o <= optN G o)%N.
Proof. destruct o; intros H; cbn [optN]; [apply H; reflexivity|lia]. Qed.

Definition le_at (n : nat) : Prop :=
  (forall t, w_ty t <= n -> (stray_ty t <= f_ty 1 t)%N) /\
  (forall e, w_expr e <= n -> (stray_expr e <= f_expr 1 e)%N) /\
  (forall s, w_iseg s <= n -> (stray_iseg s <= f_iseg 1 s)%N) /\
  (forall b, w_ebranch b <= n -> (stray_ebranch b <= f_ebranch 1 b)%N) /\
  (forall a, w_args a <= n -> (stray_args a <= f_args 1 a)%N) /\
  (forall t, w_tentry t <= n -> (stray_tentry t <= f_tentry 1 t)%N) /\
  (forall f, w_fbody f <= n -> forall inl, (stray_fbody inl f <= f_fbody 1 f)%N) /\
  (forall p, w_param p <= n -> (stray_param p <= f_param 1 p)%N) /\
  (forall s, w_stmt s <= n -> forall inl, (stray_stmt inl s <= f_stmt 1 s)%N) /\
  (forall b, w_sbranch b <= n -> forall inl, (stray_sbranch inl b <= f_sbranch 1 b)%N) /\
  (forall b, w_block b <= n -> forall inl, (stray_block inl b <= f_block 1 b)%N) /\
  (forall l, w_last l <= n -> forall inl, (stray_last inl l <= f_last 1 l)%N).

Ltac le_list l w I :=
  apply sumN_map_le; let x := fresh "x" in let Hx := fresh "Hx" in
  intros x Hx; apply I; pose proof (sum_in w l x Hx); lia.
Ltac le_opt I :=
  apply optN_le; let x := fresh "x" in let Hx := fresh "Hx" in
  intros x Hx; subst; apply I; cbn [wopt] in *; lia.

Ltac le_step Ity Ie Iis Ieb Ia Ite Ifb Ip Is Isb Ib Il :=
  match goal with
  | |- (0 <= _)%N => apply N.le_0_l
  | |- (_ + _ <= _ + _)%N => apply N.add_le_mono
  | |- (sumN (map stray_ty ?l) <= _)%N => le_list l w_ty Ity
  | |- (sumN (map stray_expr ?l) <= _)%N => le_list l w_expr Ie
  | |- (sumN (map stray_iseg ?l) <= _)%N => le_list l w_iseg Iis
  | |- (sumN (map stray_ebranch ?l) <= _)%N => le_list l w_ebranch Ieb
  | |- (sumN (map stray_tentry ?l) <= _)%N => le_list l w_tentry Ite
  | |- (sumN (map stray_param ?l) <= _)%N => le_list l w_param Ip
  | |- (sumN (map (stray_stmt _) ?l) <= _)%N => le_list l w_stmt Is
  | |- (sumN (map (stray_sbranch _) ?l) <= _)%N => le_list l w_sbranch Isb
  | |- (optN stray_ty _ <= _)%N => le_opt Ity
  | |- (optN stray_expr _ <= _)%N => le_opt Ie
  | |- (optN (stray_block _) _ <= _)%N => le_opt Ib
  | |- (optN (stray_last _) _ <= _)%N => le_opt Il
  | |- (stray_ty _ <= _)%N => apply Ity; lia
  | |- (stray_expr _ <= _)%N => apply Ie; lia
  | |- (stray_iseg _ <= _)%N => apply Iis; lia
  | |- (stray_ebranch _ <= _)%N => apply Ieb; lia
  | |- (stray_args _ <= _)%N => apply Ia; lia
  | |- (stray_tentry _ <= _)%N => apply Ite; lia
  | |- (stray_fbody _ _ <= _)%N => apply Ifb; lia
  | |- (stray_param _ <= _)%N => apply Ip; lia
  | |- (stray_stmt _ _ <= _)%N => apply Is; lia
  | |- (stray_sbranch _ _ <= _)%N => apply Isb; lia
  | |- (stray_block _ _ <= _)%N => apply Ib; lia
  | |- (stray_last _ _ <= _)%N => apply Il; lia
  end.

Ltac le_node Ity Ie Iis Ieb Ia Ite Ifb Ip Is Isb Ib Il :=
  feq; seq;
  cbn [f_expr f_iseg f_ebranch f_args f_tentry f_stmt f_sbranch f_last
       stray_expr stray_iseg stray_ebranch stray_args stray_tentry stray_stmt stray_sbranch stray_last];
  feq; seq; cbn [u Nat.eqb]; rewrite ?N.add_0_l;
  repeat le_step Ity Ie Iis Ieb Ia Ite Ifb Ip Is Isb Ib Il.

Lemma le_all : forall n, le_at n.
Proof.
  induction n as [|n IH].
  - unfold le_at. repeat match goal with |- _ /\ _ => split end; intros x Hx; exfalso;
      [pose proof (w_ty_pos x)|pose proof (w_expr_pos x)|pose proof (w_iseg_pos x)|pose proof (w_ebranch_pos x)
      |pose proof (w_args_pos x)|pose proof (w_tentry_pos x)|pose proof (w_fbody_pos x)|pose proof (w_param_pos x)
      |pose proof (w_stmt_pos x)|pose proof (w_sbranch_pos x)|pose proof (w_block_pos x)|pose proof (w_last_pos x)]; lia.
  - destruct IH as (Ity & Ie & Iis & Ieb & Ia & Ite & Ifb & Ip & Is & Isb & Ib & Il).
    unfold le_at. repeat match goal with |- _ /\ _ => split end.
    + intros [k subs es] Hw. cbn [w_ty] in Hw. le_node Ity Ie Iis Ieb Ia Ite Ifb Ip Is Isb Ib Il.
    + intros e Hw. destruct e; try destruct op; cbn [w_expr] in Hw; le_node Ity Ie Iis Ieb Ia Ite Ifb Ip Is Isb Ib Il.
    + intros x Hw. destruct x; cbn [w_iseg] in Hw; le_node Ity Ie Iis Ieb Ia Ite Ifb Ip Is Isb Ib Il.
    + intros x Hw. destruct x; cbn [w_ebranch] in Hw; le_node Ity Ie Iis Ieb Ia Ite Ifb Ip Is Isb Ib Il.
    + intros x Hw. destruct x; cbn [w_args] in Hw; le_node Ity Ie Iis Ieb Ia Ite Ifb Ip Is Isb Ib Il.
    + intros x Hw. destruct x; cbn [w_tentry] in Hw; le_node Ity Ie Iis Ieb Ia Ite Ifb Ip Is Isb Ib Il.
    + intros x Hw inl. destruct x; cbn [w_fbody] in Hw. feq. destruct (attrs =? 0)%N;
        le_node Ity Ie Iis Ieb Ia Ite Ifb Ip Is Isb Ib Il.
    + intros x Hw. destruct x; cbn [w_param] in Hw; le_node Ity Ie Iis Ieb Ia Ite Ifb Ip Is Isb Ib Il.
    + intros x Hw inl. destruct x; try destruct op; try destruct is_const; cbn [w_stmt] in Hw;
        le_node Ity Ie Iis Ieb Ia Ite Ifb Ip Is Isb Ib Il.
    + intros x Hw inl. destruct x; cbn [w_sbranch] in Hw; le_node Ity Ie Iis Ieb Ia Ite Ifb Ip Is Isb Ib Il.
    + intros [ss last] Hw inl. cbn [w_block] in Hw. le_node Ity Ie Iis Ieb Ia Ite Ifb Ip Is Isb Ib Il.
    + intros x Hw inl. destruct x; cbn [w_last] in Hw; le_node Ity Ie Iis Ieb Ia Ite Ifb Ip Is Isb Ib Il.
      destruct inl; cbn; lia.
Qed.

(** * The theorems about the rule *)

Lemma rc_block_triple ctx n b : rc_block ctx n b = (fst (fst (rc_block ctx n b)), snd (fst (rc_block ctx n b)), snd (rc_block ctx n b)).
Proof. destruct (rc_block ctx n b) as [[? ?] ?]. reflexivity. Qed.

(** every other construct is counted in the output exactly as in the input *)
Theorem remove_continue_keeps : forall j b, j < 9 -> j <> 1 ->
  feature j (remove_continue_block b) = feature j b.
Proof.
  intros j b Hj Ne. rewrite !feature_f_block by exact Hj. unfold remove_continue_block.
  destruct (keep_all j Ne (w_block b)) as (_ & _ & _ & _ & _ & _ & _ & _ & _ & _ & Hb & _).
  eapply Hb; [apply Nat.le_refl|apply rc_block_triple].
Qed.

(** the [continue] statements of the output are exactly the stray ones of the input *)
Theorem remove_continue_leaves_stray : forall b,
  feature 1 (remove_continue_block b) = stray_continues b.
Proof.
  intros b. rewrite feature_f_block by lia. unfold remove_continue_block, stray_continues.
  destruct (cont_all (w_block b)) as (_ & _ & _ & _ & _ & _ & _ & _ & _ & _ & Hb & _).
  change false with (is_loop None). eapply Hb; [apply Nat.le_refl|apply rc_block_triple].
Qed.

(** (a) the rule removes every [continue] that is under a loop frame ... *)
Theorem removes_continue : forall b, continue_in_loops b = true ->
  feature 1 (remove_continue_block b) = 0%N.
Proof.
  intros b H. rewrite remove_continue_leaves_stray. unfold continue_in_loops in H.
  apply N.eqb_eq in H. exact H.
Qed.

(** ... and only those: the carve-out is exact *)
Theorem removes_continue_iff : forall b,
  feature 1 (remove_continue_block b) = 0%N <-> continue_in_loops b = true.
Proof.
  intros b. rewrite remove_continue_leaves_stray. unfold continue_in_loops. symmetry. apply N.eqb_eq.
Qed.

(** the unconditional statement is false for the code as it is: a [continue] outside of any
    loop (which darklua's parser accepts) survives *)
Theorem removes_continue_refuted : exists b, feature 1 (remove_continue_block b) <> 0%N.
Proof. exists (Block [] (Some LContinue)). vm_compute. discriminate. Qed.

(** the hypothesis of [removes_continue] is satisfiable by a non-trivial input: nested loops,
    [break] beside [continue], a function with its own loop inside a loop *)
Example removes_continue_example :
  let c := EIdent [99%N] in
  let b := Block [SWhile c (Block [SIf [SBranch c (Block [] (Some LContinue))] None;
                                   SNumericFor (Param [105%N] None) c c None
                                     (Block [SIf [SBranch c (Block [] (Some LBreak))] None] (Some LContinue));
                                   SLocal false [Param [103%N] None]
                                     [EFunction (FBody [] false None None None 0%N
                                        (Block [SRepeat (Block [] (Some LContinue)) c] None))]]
                                  None)] None in
  continue_in_loops b = true /\ feature 1 b = 3%N /\ feature 1 (remove_continue_block b) = 0%N /\
  remove_continue_loops b = 3%N.
Proof. vm_compute. repeat split. Qed.

Lemma stray_le_feature : forall inl b, (stray_block inl b <= f_block 1 b)%N.
Proof.
  intros inl b. destruct (le_all (w_block b)) as (_ & _ & _ & _ & _ & _ & _ & _ & _ & _ & Hb & _).
  apply Hb. apply Nat.le_refl.
Qed.

(** a tree without [continue] is trivially in the rule's domain *)
Lemma no_continue_in_loops : forall b, feature 1 b = 0%N -> continue_in_loops b = true.
Proof.
  intros b H. rewrite feature_f_block in H by lia. unfold continue_in_loops, stray_continues.
  apply N.eqb_eq. pose proof (stray_le_feature false b). lia.
Qed.

(** (b) the rule introduces none of the nine constructs *)
Theorem preserves_continue : forall j b, j < 9 -> feature j b = 0%N ->
  feature j (remove_continue_block b) = 0%N.
Proof.
  intros j b Hj Z. destruct (Nat.eq_dec j 1) as [->|Ne].
  - apply removes_continue, no_continue_in_loops, Z.
  - rewrite remove_continue_keeps by assumption. exact Z.
Qed.

(** the output is in the rule's domain again (the rule is idempotent on the census) *)
Theorem remove_continue_output_in_loops : forall b, continue_in_loops b = true ->
  continue_in_loops (remove_continue_block b) = true.
Proof. intros b H. apply no_continue_in_loops, removes_continue, H. Qed.
