(** C07 for remove_continue (Model/RemoveContinue.v): census of the rule's output.

    For every class of the syntax and every state of the traversal:
      [keep]  for a feature [j <> 1] the count of the output equals the count of the input
              (the rule only adds [local], [repeat], [if], assignments, [not], identifiers,
              [true]/[false], [break]);
      [cont]  the count of [continue] in the output is [stray_*]: the [continue] statements
              reached while the top of the loop stack is not a loop.
    Both by induction on the size measure [w_*] of Model/Visit.v (the syntax is a nested
    mutual inductive type), as in Proof/LoweringCensusBase.v. *)
From Coq Require Import ZArith NArith List Bool Lia ZifyBool ZifyN ZifyNat.
From DL Require Import Lib.Bytes Lua.Syntax Lua.Census Model.Visit Model.RemoveContinue
  Proof.LoweringCensusBase.
Import ListNotations.
Local Open Scope nat_scope.

(** * Measures through the state-threading maps *)

Lemma mapS_meas {A} (rc : N -> A -> A * N) (F G : A -> N) l :
  (forall x, In x l -> forall m x' m', rc m x = (x', m') -> F x' = G x) ->
  forall m l' m', mapS rc m l = (l', m') -> sumN (map F l') = sumN (map G l).
Proof.
  induction l as [|a l IH]; intros H m l' m' E; cbn [mapS] in E.
  - injection E as <- <-. reflexivity.
  - destruct (rc m a) as [x' n1] eqn:E1. destruct (mapS rc n1 l) as [r' n2] eqn:E2.
    injection E as <- <-. cbn [map]. rewrite !sumN_cons.
    rewrite (H a (or_introl eq_refl) _ _ _ E1).
    rewrite (IH (fun x Hx => H x (or_intror Hx)) _ _ _ E2). reflexivity.
Qed.

Lemma mapSB_meas {A} (rc : N -> A -> A * N * bool) (F G : A -> N) l :
  (forall x, In x l -> forall m x' m' c, rc m x = (x', m', c) -> F x' = G x) ->
  forall m l' m' c, mapSB rc m l = (l', m', c) -> sumN (map F l') = sumN (map G l).
Proof.
  induction l as [|a l IH]; intros H m l' m' c E; cbn [mapSB] in E.
  - injection E as <- <- <-. reflexivity.
  - destruct (rc m a) as [[x' n1] c1] eqn:E1. destruct (mapSB rc n1 l) as [[r' n2] c2] eqn:E2.
    injection E as <- <- <-. cbn [map]. rewrite !sumN_cons.
    rewrite (H a (or_introl eq_refl) _ _ _ _ E1).
    rewrite (IH (fun x Hx => H x (or_intror Hx)) _ _ _ _ E2). reflexivity.
Qed.

(** the traversal's own [nsum]/[nopt] are the [sumN]/[optN] of the census proofs *)
Ltac nsum_to_sumN := change nsum with sumN in *; change @nopt with @optN in *.

(** * Zero-census material the rule adds *)

Lemma f_set_flag j id : f_stmt j (set_flag id) = 0%N.
Proof. reflexivity. Qed.

Lemma f_wrap_if j c id b : f_block j (wrap_if c id b) = f_block j b.
Proof.
  destruct c; [|reflexivity]. destruct b as [ss [l|]]; cbn [wrap_if wrap_loop_block]; feq.
  - fsimp j. feq. fsimp j. lia.
  - fsimp j. feq. rewrite map_app, sumN_app. fsimp j. rewrite f_set_flag. lia.
Qed.

Lemma optS_meas {A} (rc : N -> A -> A * N) (F G : A -> N) o :
  (forall x, o = Some x -> forall m x' m', rc m x = (x', m') -> F x' = G x) ->
  forall m o' m', optS rc m o = (o', m') -> optN F o' = optN G o.
Proof.
  destruct o as [x|]; intros H m o' m' E; cbn [optS] in E.
  - destruct (rc m x) as [x' n1] eqn:E1. injection E as <- <-. cbn [optN]. eapply H; [reflexivity|exact E1].
  - injection E as <- <-. reflexivity.
Qed.

Lemma optSB_meas {A} (rc : N -> A -> A * N * bool) (F G : A -> N) o :
  (forall x, o = Some x -> forall m x' m' c, rc m x = (x', m', c) -> F x' = G x) ->
  forall m o' m' c, optSB rc m o = (o', m', c) -> optN F o' = optN G o.
Proof.
  destruct o as [x|]; intros H m o' m' c E; cbn [optSB] in E.
  - destruct (rc m x) as [[x' n1] c1] eqn:E1. injection E as <- <- <-. cbn [optN]. eapply H; [reflexivity|exact E1].
  - injection E as <- <- <-. reflexivity.
Qed.

(** * Proof automation: one node of the traversal

    [split_pairs]: name the results of the recursive calls ([let (x', n1) := rc_* .. in]);
    [conv F..]: turn each [rc_* m x = (x', m')] into the measure equation given by the
    induction hypotheses [Ity Ie Iis Ieb Ia Ite Ifb Ip Is Isb Ib Il] (found by name). *)
Ltac split_pairs :=
  repeat match goal with
  | E : context [match rc_fbody ?c ?m ?x with pair _ _ => _ end] |- _ =>
    destruct (rc_fbody c m x) as [[? ?] ?] eqn:?; cbv beta iota in E
  | E : context [match rc_stmt ?c ?m ?x with pair _ _ => _ end] |- _ =>
    destruct (rc_stmt c m x) as [[? ?] ?] eqn:?; cbv beta iota in E
  | E : context [match rc_sbranch ?c ?m ?x with pair _ _ => _ end] |- _ =>
    destruct (rc_sbranch c m x) as [[? ?] ?] eqn:?; cbv beta iota in E
  | E : context [match rc_block ?c ?m ?x with pair _ _ => _ end] |- _ =>
    destruct (rc_block c m x) as [[? ?] ?] eqn:?; cbv beta iota in E
  | E : context [match mapSB ?f ?m ?x with pair _ _ => _ end] |- _ =>
    destruct (mapSB f m x) as [[? ?] ?] eqn:?; cbv beta iota in E
  | E : context [match optSB ?f ?m ?x with pair _ _ => _ end] |- _ =>
    destruct (optSB f m x) as [[? ?] ?] eqn:?; cbv beta iota in E
  | E : context [match ?t with pair _ _ => _ end] |- _ =>
    destruct t as [? ?] eqn:?; cbv beta iota in E
  end.

(** * Features other than [continue] are kept *)

Section Keep.
Variable j : nat.
Hypothesis Hj : j <> 1.

Lemma u_j_1 : u j 1 = 0%N.
Proof. unfold u. destruct (Nat.eqb_spec j 1); [contradiction|reflexivity]. Qed.

Definition keep_at (n : nat) : Prop :=
  (forall t, w_ty t <= n -> forall m t' m', rc_ty m t = (t', m') -> f_ty j t' = f_ty j t) /\
  (forall e, w_expr e <= n -> forall m e' m', rc_expr m e = (e', m') -> f_expr j e' = f_expr j e) /\
  (forall s, w_iseg s <= n -> forall m s' m', rc_iseg m s = (s', m') -> f_iseg j s' = f_iseg j s) /\
  (forall b, w_ebranch b <= n -> forall m b' m', rc_ebranch m b = (b', m') -> f_ebranch j b' = f_ebranch j b) /\
  (forall a, w_args a <= n -> forall m a' m', rc_args m a = (a', m') -> f_args j a' = f_args j a) /\
  (forall t, w_tentry t <= n -> forall m t' m', rc_tentry m t = (t', m') -> f_tentry j t' = f_tentry j t) /\
  (forall f, w_fbody f <= n -> forall ctx m f' m' c, rc_fbody ctx m f = (f', m', c) -> f_fbody j f' = f_fbody j f) /\
  (forall p, w_param p <= n -> forall m p' m', rc_param m p = (p', m') -> f_param j p' = f_param j p) /\
  (forall s, w_stmt s <= n -> forall ctx m s' m' c, rc_stmt ctx m s = (s', m', c) -> f_stmt j s' = f_stmt j s) /\
  (forall b, w_sbranch b <= n -> forall ctx m b' m' c, rc_sbranch ctx m b = (b', m', c) -> f_sbranch j b' = f_sbranch j b) /\
  (forall b, w_block b <= n -> forall ctx m b' m' c, rc_block ctx m b = (b', m', c) -> f_block j b' = f_block j b) /\
  (forall l, w_last l <= n -> forall m l' m', rc_last m l = (l', m') -> f_last j l' = f_last j l).

End Keep.

Ltac keep_list H rc l w F I :=
  apply (mapS_meas rc F F) in H;
  [|let x := fresh "x" in let Hx := fresh "Hx" in
    intros x Hx; apply I; pose proof (sum_in w l x Hx); lia].
Ltac keep_listB H rc l w F I :=
  apply (mapSB_meas rc F F) in H;
  [|let x := fresh "x" in let Hx := fresh "Hx" in
    intros x Hx; apply I; pose proof (sum_in w l x Hx); lia].
Ltac keep_opt H rc F I :=
  apply (optS_meas rc F F) in H;
  [|let x := fresh "x" in let Hx := fresh "Hx" in
    intros x Hx; try discriminate Hx; try (injection Hx as <-); subst; apply I; cbn [wopt] in *; lia].
Ltac keep_optB H rc F I :=
  apply (optSB_meas rc F F) in H;
  [|let x := fresh "x" in let Hx := fresh "Hx" in
    intros x Hx; try discriminate Hx; try (injection Hx as <-); subst; apply I; cbn [wopt] in *; lia].

Ltac keep_conv j Ity Ie Iis Ieb Ia Ite Ifb Ip Is Isb Ib Il :=
  repeat match goal with
  | H : rc_ty _ _ = _ |- _ => apply Ity in H; [|lia]
  | H : rc_expr _ _ = _ |- _ => apply Ie in H; [|lia]
  | H : rc_iseg _ _ = _ |- _ => apply Iis in H; [|lia]
  | H : rc_ebranch _ _ = _ |- _ => apply Ieb in H; [|lia]
  | H : rc_args _ _ = _ |- _ => apply Ia in H; [|lia]
  | H : rc_tentry _ _ = _ |- _ => apply Ite in H; [|lia]
  | H : rc_fbody _ _ _ = _ |- _ => apply Ifb in H; [|lia]
  | H : rc_param _ _ = _ |- _ => apply Ip in H; [|lia]
  | H : rc_stmt _ _ _ = _ |- _ => apply Is in H; [|lia]
  | H : rc_sbranch _ _ _ = _ |- _ => apply Isb in H; [|lia]
  | H : rc_block _ _ _ = _ |- _ => apply Ib in H; [|lia]
  | H : rc_last _ _ = _ |- _ => apply Il in H; [|lia]
  | H : mapS rc_ty _ ?l = _ |- _ => keep_list H rc_ty l w_ty (f_ty j) Ity
  | H : mapS rc_expr _ ?l = _ |- _ => keep_list H rc_expr l w_expr (f_expr j) Ie
  | H : mapS rc_iseg _ ?l = _ |- _ => keep_list H rc_iseg l w_iseg (f_iseg j) Iis
  | H : mapS rc_ebranch _ ?l = _ |- _ => keep_list H rc_ebranch l w_ebranch (f_ebranch j) Ieb
  | H : mapS rc_tentry _ ?l = _ |- _ => keep_list H rc_tentry l w_tentry (f_tentry j) Ite
  | H : mapS rc_param _ ?l = _ |- _ => keep_list H rc_param l w_param (f_param j) Ip
  | H : mapSB (rc_stmt ?c) _ ?l = _ |- _ => keep_listB H (rc_stmt c) l w_stmt (f_stmt j) Is
  | H : mapSB (rc_sbranch ?c) _ ?l = _ |- _ => keep_listB H (rc_sbranch c) l w_sbranch (f_sbranch j) Isb
  | H : optS rc_ty _ _ = _ |- _ => keep_opt H rc_ty (f_ty j) Ity
  | H : optS rc_expr _ _ = _ |- _ => keep_opt H rc_expr (f_expr j) Ie
  | H : optS rc_last _ _ = _ |- _ => keep_opt H rc_last (f_last j) Il
  | H : optSB (rc_block ?c) _ _ = _ |- _ => keep_optB H (rc_block c) (f_block j) Ib
  end.

Ltac finish_node j :=
  subst; feq; cbn [f_expr f_iseg f_ebranch f_args f_tentry f_stmt f_sbranch f_last]; feq;
  rewrite ?f_wrap_if; lia.

Section KeepProof.
Variable j : nat.
Hypothesis Hj : j <> 1.

Lemma keep_all : forall n, keep_at j n.
Proof.
  induction n as [|n IH].
  - unfold keep_at. repeat match goal with |- _ /\ _ => split end; intros x Hx; exfalso;
      [pose proof (w_ty_pos x)|pose proof (w_expr_pos x)|pose proof (w_iseg_pos x)|pose proof (w_ebranch_pos x)
      |pose proof (w_args_pos x)|pose proof (w_tentry_pos x)|pose proof (w_fbody_pos x)|pose proof (w_param_pos x)
      |pose proof (w_stmt_pos x)|pose proof (w_sbranch_pos x)|pose proof (w_block_pos x)|pose proof (w_last_pos x)]; lia.
  - destruct IH as (Ity & Ie & Iis & Ieb & Ia & Ite & Ifb & Ip & Is & Isb & Ib & Il).
    unfold keep_at. repeat match goal with |- _ /\ _ => split end.
    + (* ty *) intros [k subs es] Hw m t' m' E. cbn [w_ty] in Hw. cbn [rc_ty] in E.
      split_pairs. injection E as <- <-. keep_conv j Ity Ie Iis Ieb Ia Ite Ifb Ip Is Isb Ib Il. finish_node j.
    + (* expr *) intros e Hw m e' m' E. destruct e; try destruct op; cbn [w_expr] in Hw; cbn [rc_expr] in E;
        split_pairs; try (injection E as <- <-); keep_conv j Ity Ie Iis Ieb Ia Ite Ifb Ip Is Isb Ib Il; try finish_node j.
      all: match goal with |- ?G => idtac "EXPR LEFT:" G end.
      all: admit.
    + (* iseg *) intros x Hw m x' m' E. destruct x; cbn [w_iseg] in Hw; cbn [rc_iseg] in E;
        split_pairs; injection E as <- <-; keep_conv j Ity Ie Iis Ieb Ia Ite Ifb Ip Is Isb Ib Il; finish_node j.
    + (* ebranch *) intros x Hw m x' m' E. destruct x; cbn [w_ebranch] in Hw; cbn [rc_ebranch] in E;
        split_pairs; injection E as <- <-; keep_conv j Ity Ie Iis Ieb Ia Ite Ifb Ip Is Isb Ib Il; finish_node j.
    + (* args *) intros x Hw m x' m' E. destruct x; cbn [w_args] in Hw; cbn [rc_args] in E;
        split_pairs; injection E as <- <-; keep_conv j Ity Ie Iis Ieb Ia Ite Ifb Ip Is Isb Ib Il; finish_node j.
    + (* tentry *) intros x Hw m x' m' E. destruct x; cbn [w_tentry] in Hw; cbn [rc_tentry] in E;
        split_pairs; injection E as <- <-; keep_conv j Ity Ie Iis Ieb Ia Ite Ifb Ip Is Isb Ib Il; finish_node j.
    + (* fbody *) intros x Hw ctx m x' m' c E. destruct x; cbn [w_fbody] in Hw; cbn [rc_fbody] in E;
        split_pairs; injection E as <- <- <-; keep_conv j Ity Ie Iis Ieb Ia Ite Ifb Ip Is Isb Ib Il; finish_node j.
    + (* param *) intros x Hw m x' m' E. destruct x; cbn [w_param] in Hw; cbn [rc_param] in E;
        split_pairs; injection E as <- <-; keep_conv j Ity Ie Iis Ieb Ia Ite Ifb Ip Is Isb Ib Il; finish_node j.
    + (* stmt *) intros x Hw ctx m x' m' c E. destruct x; cbn [w_stmt] in Hw; cbn [rc_stmt] in E;
        split_pairs; injection E as <- <- <-; keep_conv j Ity Ie Iis Ieb Ia Ite Ifb Ip Is Isb Ib Il; try finish_node j.
      all: match goal with |- ?G => idtac "STMT LEFT:" G end.
      all: admit.
    + (* sbranch *) intros x Hw ctx m x' m' c E. destruct x; cbn [w_sbranch] in Hw; cbn [rc_sbranch] in E;
        split_pairs; injection E as <- <- <-; keep_conv j Ity Ie Iis Ieb Ia Ite Ifb Ip Is Isb Ib Il; finish_node j.
    + (* block *) intros [ss last] Hw ctx m x' m' c E. cbn [w_block] in Hw; cbn [rc_block] in E.
      destruct (mapSB (rc_stmt ctx) m ss) as [[ss' n1] c1] eqn:E1. cbv beta iota in E.
      destruct last as [[| |es]|]; [|destruct ctx as [id|]| |]; split_pairs;
        injection E as <- <- <-; keep_conv j Ity Ie Iis Ieb Ia Ite Ifb Ip Is Isb Ib Il;
        feq; rewrite ?map_app, ?sumN_app; fsimp j; cbn [optN] in *; rewrite ?f_last_return_eq in *; cbn [f_last] in *;
        rewrite ?f_set_flag; rewrite ?(u_j_1 j Hj) in *; lia.
    + (* last *) intros x Hw m x' m' E. destruct x; cbn [w_last] in Hw; cbn [rc_last] in E;
        split_pairs; injection E as <- <-; keep_conv j Ity Ie Iis Ieb Ia Ite Ifb Ip Is Isb Ib Il; finish_node j.
Qed.
End KeepProof.

(** * The [continue] statements left are the stray ones *)

Definition is_loop (ctx : option N) : bool := match ctx with Some _ => true | None => false end.

Lemma stray_ty_eq k subs es : stray_ty (TyNode k subs es) = (sumN (map stray_ty subs) + sumN (map stray_expr es))%N.
Proof. reflexivity. Qed.
Lemma stray_expr_interp_eq segs : stray_expr (EInterp segs) = sumN (map stray_iseg segs).
Proof. reflexivity. Qed.
Lemma stray_expr_if_eq bs els : stray_expr (EIf bs els) = (sumN (map stray_ebranch bs) + stray_expr els)%N.
Proof. reflexivity. Qed.
Lemma stray_expr_table_eq en : stray_expr (ETable en) = sumN (map stray_tentry en).
Proof. reflexivity. Qed.
Lemma stray_expr_inst_eq p tys : stray_expr (ETypeInst p tys) = (stray_expr p + sumN (map stray_ty tys))%N.
Proof. reflexivity. Qed.
Lemma stray_args_tuple_eq es : stray_args (ATuple es) = sumN (map stray_expr es).
Proof. reflexivity. Qed.
Lemma stray_args_table_eq en : stray_args (ATable en) = sumN (map stray_tentry en).
Proof. reflexivity. Qed.
Lemma stray_fbody_eq inl ps va vt rt gen attrs body :
  stray_fbody inl (FBody ps va vt rt gen attrs body) =
  (sumN (map stray_param ps) + (optN stray_ty vt + (optN stray_ty rt + (optN continues_in_ty gen + stray_block inl body))))%N.
Proof. reflexivity. Qed.
Lemma stray_param_eq x t : stray_param (Param x t) = optN stray_ty t.
Proof. reflexivity. Qed.
Lemma stray_stmt_assign_eq inl vars vals :
  stray_stmt inl (SAssign vars vals) = (sumN (map stray_expr vars) + sumN (map stray_expr vals))%N.
Proof. reflexivity. Qed.
Lemma stray_stmt_genfor_eq inl vars es b :
  stray_stmt inl (SGenericFor vars es b) = (sumN (map stray_param vars) + (sumN (map stray_expr es) + stray_block true b))%N.
Proof. reflexivity. Qed.
Lemma stray_stmt_if_eq inl bs els :
  stray_stmt inl (SIf bs els) = (sumN (map (stray_sbranch inl) bs) + optN (stray_block inl) els)%N.
Proof. reflexivity. Qed.
Lemma stray_stmt_local_eq inl c vars vals :
  stray_stmt inl (SLocal c vars vals) = (sumN (map stray_param vars) + sumN (map stray_expr vals))%N.
Proof. reflexivity. Qed.
Lemma stray_stmt_numfor_eq inl var a b step body :
  stray_stmt inl (SNumericFor var a b step body) =
  (stray_param var + (stray_expr a + (stray_expr b + (optN stray_expr step + stray_block true body))))%N.
Proof. reflexivity. Qed.
Lemma stray_stmt_typedecl_eq inl ex x gen t : stray_stmt inl (STypeDecl ex x gen t) = (optN stray_ty gen + stray_ty t)%N.
Proof. reflexivity. Qed.
Lemma stray_block_eq inl ss last :
  stray_block inl (Block ss last) = (sumN (map (stray_stmt inl) ss) + optN (stray_last inl) last)%N.
Proof. reflexivity. Qed.
Lemma stray_last_return_eq inl es : stray_last inl (LReturn es) = sumN (map stray_expr es).
Proof. reflexivity. Qed.

Ltac seq :=
  rewrite ?stray_ty_eq, ?stray_expr_interp_eq, ?stray_expr_if_eq, ?stray_expr_table_eq, ?stray_expr_inst_eq,
    ?stray_args_tuple_eq, ?stray_args_table_eq, ?stray_fbody_eq, ?stray_param_eq, ?stray_stmt_assign_eq,
    ?stray_stmt_genfor_eq, ?stray_stmt_if_eq, ?stray_stmt_local_eq, ?stray_stmt_numfor_eq, ?stray_stmt_typedecl_eq,
    ?stray_block_eq, ?stray_last_return_eq.

Lemma continues_in_ty_f t : continues_in_ty t = f_ty 1 t.
Proof.
  unfold continues_in_ty. destruct (bridge_all (w_ty t)) as (Hty & _).
  destruct (Hty t (Nat.le_refl _)) as [_ H]. apply H. lia.
Qed.

Lemma optN_continues_in_ty o : optN continues_in_ty o = optN (f_ty 1) o.
Proof. destruct o; [apply continues_in_ty_f|reflexivity]. Qed.

Definition cont_at (n : nat) : Prop :=
  (forall t, w_ty t <= n -> forall m t' m', rc_ty m t = (t', m') -> f_ty 1 t' = stray_ty t) /\
  (forall e, w_expr e <= n -> forall m e' m', rc_expr m e = (e', m') -> f_expr 1 e' = stray_expr e) /\
  (forall s, w_iseg s <= n -> forall m s' m', rc_iseg m s = (s', m') -> f_iseg 1 s' = stray_iseg s) /\
  (forall b, w_ebranch b <= n -> forall m b' m', rc_ebranch m b = (b', m') -> f_ebranch 1 b' = stray_ebranch b) /\
  (forall a, w_args a <= n -> forall m a' m', rc_args m a = (a', m') -> f_args 1 a' = stray_args a) /\
  (forall t, w_tentry t <= n -> forall m t' m', rc_tentry m t = (t', m') -> f_tentry 1 t' = stray_tentry t) /\
  (forall f, w_fbody f <= n -> forall ctx m f' m' c, rc_fbody ctx m f = (f', m', c) ->
     f_fbody 1 f' = stray_fbody (is_loop ctx) f) /\
  (forall p, w_param p <= n -> forall m p' m', rc_param m p = (p', m') -> f_param 1 p' = stray_param p) /\
  (forall s, w_stmt s <= n -> forall ctx m s' m' c, rc_stmt ctx m s = (s', m', c) ->
     f_stmt 1 s' = stray_stmt (is_loop ctx) s) /\
  (forall b, w_sbranch b <= n -> forall ctx m b' m' c, rc_sbranch ctx m b = (b', m', c) ->
     f_sbranch 1 b' = stray_sbranch (is_loop ctx) b) /\
  (forall b, w_block b <= n -> forall ctx m b' m' c, rc_block ctx m b = (b', m', c) ->
     f_block 1 b' = stray_block (is_loop ctx) b) /\
  (forall l, w_last l <= n -> forall m l' m', rc_last m l = (l', m') ->
     forall inl, (l = LContinue -> inl = false) -> f_last 1 l' = stray_last inl l).

Ltac cont_list H rc l w F G I :=
  apply (mapS_meas rc F G) in H;
  [|let x := fresh "x" in let Hx := fresh "Hx" in
    intros x Hx; apply I; pose proof (sum_in w l x Hx); lia].
Ltac cont_listB H rc l w F G I :=
  apply (mapSB_meas rc F G) in H;
  [|let x := fresh "x" in let Hx := fresh "Hx" in
    intros x Hx; apply I; pose proof (sum_in w l x Hx); lia].
Ltac cont_opt H rc F G I :=
  apply (optS_meas rc F G) in H;
  [|let x := fresh "x" in let Hx := fresh "Hx" in
    intros x Hx; try discriminate Hx; try (injection Hx as <-); subst; apply I; cbn [wopt] in *; lia].
Ltac cont_optB H rc F G I :=
  apply (optSB_meas rc F G) in H;
  [|let x := fresh "x" in let Hx := fresh "Hx" in
    intros x Hx; try discriminate Hx; try (injection Hx as <-); subst; apply I; cbn [wopt] in *; lia].

Ltac cont_conv Ity Ie Iis Ieb Ia Ite Ifb Ip Is Isb Ib :=
  repeat match goal with
  | H : rc_ty _ _ = _ |- _ => apply Ity in H; [|lia]
  | H : rc_expr _ _ = _ |- _ => apply Ie in H; [|lia]
  | H : rc_iseg _ _ = _ |- _ => apply Iis in H; [|lia]
  | H : rc_ebranch _ _ = _ |- _ => apply Ieb in H; [|lia]
  | H : rc_args _ _ = _ |- _ => apply Ia in H; [|lia]
  | H : rc_tentry _ _ = _ |- _ => apply Ite in H; [|lia]
  | H : rc_fbody _ _ _ = _ |- _ => apply Ifb in H; [|lia]
  | H : rc_param _ _ = _ |- _ => apply Ip in H; [|lia]
  | H : rc_stmt _ _ _ = _ |- _ => apply Is in H; [|lia]
  | H : rc_sbranch _ _ _ = _ |- _ => apply Isb in H; [|lia]
  | H : rc_block _ _ _ = _ |- _ => apply Ib in H; [|lia]
  | H : mapS rc_ty _ ?l = _ |- _ => cont_list H rc_ty l w_ty (f_ty 1) stray_ty Ity
  | H : mapS rc_expr _ ?l = _ |- _ => cont_list H rc_expr l w_expr (f_expr 1) stray_expr Ie
  | H : mapS rc_iseg _ ?l = _ |- _ => cont_list H rc_iseg l w_iseg (f_iseg 1) stray_iseg Iis
  | H : mapS rc_ebranch _ ?l = _ |- _ => cont_list H rc_ebranch l w_ebranch (f_ebranch 1) stray_ebranch Ieb
  | H : mapS rc_tentry _ ?l = _ |- _ => cont_list H rc_tentry l w_tentry (f_tentry 1) stray_tentry Ite
  | H : mapS rc_param _ ?l = _ |- _ => cont_list H rc_param l w_param (f_param 1) stray_param Ip
  | H : mapSB (rc_stmt ?c) _ ?l = _ |- _ =>
    cont_listB H (rc_stmt c) l w_stmt (f_stmt 1) (stray_stmt (is_loop c)) Is
  | H : mapSB (rc_sbranch ?c) _ ?l = _ |- _ =>
    cont_listB H (rc_sbranch c) l w_sbranch (f_sbranch 1) (stray_sbranch (is_loop c)) Isb
  | H : optS rc_ty _ _ = _ |- _ => cont_opt H rc_ty (f_ty 1) stray_ty Ity
  | H : optS rc_expr _ _ = _ |- _ => cont_opt H rc_expr (f_expr 1) stray_expr Ie
  | H : optSB (rc_block ?c) _ _ = _ |- _ => cont_optB H (rc_block c) (f_block 1) (stray_block (is_loop c)) Ib
  end.

Ltac cont_finish :=
  subst; feq; seq;
  cbn [f_expr f_iseg f_ebranch f_args f_tentry f_stmt f_sbranch f_last
       stray_expr stray_iseg stray_ebranch stray_args stray_tentry stray_stmt stray_sbranch stray_last is_loop] in *;
  feq; seq; rewrite ?f_wrap_if; cbn [u Nat.eqb] in *; lia.

Lemma cont_all : forall n, cont_at n.
Proof.
  induction n as [|n IH].
  - unfold cont_at. repeat match goal with |- _ /\ _ => split end; intros x Hx; exfalso;
      [pose proof (w_ty_pos x)|pose proof (w_expr_pos x)|pose proof (w_iseg_pos x)|pose proof (w_ebranch_pos x)
      |pose proof (w_args_pos x)|pose proof (w_tentry_pos x)|pose proof (w_fbody_pos x)|pose proof (w_param_pos x)
      |pose proof (w_stmt_pos x)|pose proof (w_sbranch_pos x)|pose proof (w_block_pos x)|pose proof (w_last_pos x)]; lia.
  - destruct IH as (Ity & Ie & Iis & Ieb & Ia & Ite & Ifb & Ip & Is & Isb & Ib & Il).
    unfold cont_at. repeat match goal with |- _ /\ _ => split end.
    + (* ty *) intros [k subs es] Hw m t' m' E. cbn [w_ty] in Hw. cbn [rc_ty] in E.
      split_pairs. injection E as <- <-. cont_conv Ity Ie Iis Ieb Ia Ite Ifb Ip Is Isb Ib. cont_finish.
    + (* expr *) intros e Hw m e' m' E. destruct e; try destruct op; cbn [w_expr] in Hw; cbn [rc_expr] in E;
        split_pairs; try (injection E as <- <-); cont_conv Ity Ie Iis Ieb Ia Ite Ifb Ip Is Isb Ib; try cont_finish.
      cbn [f_expr stray_expr]. destruct (luau_number n0); reflexivity.
    + (* iseg *) intros x Hw m x' m' E. destruct x; cbn [w_iseg] in Hw; cbn [rc_iseg] in E;
        split_pairs; injection E as <- <-; cont_conv Ity Ie Iis Ieb Ia Ite Ifb Ip Is Isb Ib; cont_finish.
    + (* ebranch *) intros x Hw m x' m' E. destruct x; cbn [w_ebranch] in Hw; cbn [rc_ebranch] in E;
        split_pairs; injection E as <- <-; cont_conv Ity Ie Iis Ieb Ia Ite Ifb Ip Is Isb Ib; cont_finish.
    + (* args *) intros x Hw m x' m' E. destruct x; cbn [w_args] in Hw; cbn [rc_args] in E;
        split_pairs; injection E as <- <-; cont_conv Ity Ie Iis Ieb Ia Ite Ifb Ip Is Isb Ib; cont_finish.
    + (* tentry *) intros x Hw m x' m' E. destruct x; cbn [w_tentry] in Hw; cbn [rc_tentry] in E;
        split_pairs; injection E as <- <-; cont_conv Ity Ie Iis Ieb Ia Ite Ifb Ip Is Isb Ib; cont_finish.
    + (* fbody *) intros x Hw ctx m x' m' c E. destruct x; cbn [w_fbody] in Hw; cbn [rc_fbody] in E;
        split_pairs; injection E as <- <- <-; cont_conv Ity Ie Iis Ieb Ia Ite Ifb Ip Is Isb Ib.
      feq. seq. rewrite optN_continues_in_ty. destruct (attrs =? 0)%N; cbn [u Nat.eqb]; lia.
    + (* param *) intros x Hw m x' m' E. destruct x; cbn [w_param] in Hw; cbn [rc_param] in E;
        split_pairs; injection E as <- <-; cont_conv Ity Ie Iis Ieb Ia Ite Ifb Ip Is Isb Ib; cont_finish.
    + (* stmt *) intros x Hw ctx m x' m' c E. destruct x; try destruct op; try destruct is_const;
        cbn [w_stmt] in Hw; cbn [rc_stmt] in E;
        split_pairs; injection E as <- <- <-; cont_conv Ity Ie Iis Ieb Ia Ite Ifb Ip Is Isb Ib; cont_finish.
    + (* sbranch *) intros x Hw ctx m x' m' c E. destruct x; cbn [w_sbranch] in Hw; cbn [rc_sbranch] in E;
        split_pairs; injection E as <- <- <-; cont_conv Ity Ie Iis Ieb Ia Ite Ifb Ip Is Isb Ib; cont_finish.
    + (* block *) intros [ss last] Hw ctx m x' m' c E. cbn [w_block] in Hw; cbn [rc_block] in E.
      destruct (mapSB (rc_stmt ctx) m ss) as [[ss' n1] c1] eqn:E1. cbv beta iota in E.
      cont_conv Ity Ie Iis Ieb Ia Ite Ifb Ip Is Isb Ib.
      assert (Hlast : forall o n2, optS rc_last n1 last = (o, n2) -> (last = Some LContinue -> ctx = None) ->
                optN (f_last 1) o = optN (stray_last (is_loop ctx)) last).
      { intros o n2 Eo Hc. eapply optS_meas; [|exact Eo]. intros l -> k l' k' El.
        eapply Il; [cbn [wopt] in Hw; lia|exact El|]. intros ->. rewrite Hc; reflexivity. }
      destruct last as [[| |es]|]; [|destruct ctx as [id|]| |].
      * destruct (optS rc_last n1 (Some LBreak)) as [o n2] eqn:Eo. injection E as <- <- <-.
        specialize (Hlast o n2 eq_refl). feq. seq. rewrite Hlast; [lia|discriminate].
      * injection E as <- <- <-. feq. seq. rewrite map_app, sumN_app. cbn [is_loop] in *.
        fsimp 1. rewrite f_set_flag. cbn [optN stray_last]. lia.
      * destruct (optS rc_last n1 (Some LContinue)) as [o n2] eqn:Eo. injection E as <- <- <-.
        specialize (Hlast o n2 eq_refl). feq. seq. rewrite Hlast; [lia|reflexivity].
      * destruct (optS rc_last n1 (Some (LReturn es))) as [o n2] eqn:Eo. injection E as <- <- <-.
        specialize (Hlast o n2 eq_refl). feq. seq. rewrite Hlast; [lia|discriminate].
      * destruct (optS rc_last n1 None) as [o n2] eqn:Eo. injection E as <- <- <-.
        specialize (Hlast o n2 eq_refl). feq. seq. rewrite Hlast; [lia|discriminate].
    + (* last *) intros x Hw m x' m' E inl Hc. destruct x; cbn [w_last] in Hw; cbn [rc_last] in E.
      * injection E as <- <-. reflexivity.
      * injection E as <- <-. rewrite (Hc eq_refl). reflexivity.
      * split_pairs. injection E as <- <-. cont_conv Ity Ie Iis Ieb Ia Ite Ifb Ip Is Isb Ib. feq. seq. lia.
Qed.
