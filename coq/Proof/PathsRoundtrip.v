(** [write_require_path] followed by [Path::new(..).components()] is the identity on
    relative paths made of an optional leading ".", ".." and well-formed names: the
    argument written by convert_require is read back as the generated path. *)
From DL Require Import Lib.Bytes Model.Paths Model.Require Proof.PathsBasics Proof.PathsFacts.
Require Import Lia PeanoNat.
Open Scope N_scope.

Definition wf_comp (c : comp) : bool :=
  match c with Par => true | Norm n => wf_name n | _ => false end.

(** an optional leading ".", then ".." and well-formed names *)
Definition wf_rel (p : path) : bool :=
  match p with Cur :: r => forallb wf_comp r | _ => forallb wf_comp p end.

Definition no_slash (s : bytes) : bool := negb (existsb (N.eqb slash) s).

Lemma wf_comp_text c :
  wf_comp c = true ->
  comp_bytes c <> [] /\ no_slash (comp_bytes c) = true /\ seg_comps [comp_bytes c] = [c] /\ is_dot (comp_bytes c) = false.
Proof.
  destruct c; try discriminate; cbn [wf_comp comp_bytes].
  - intros _. repeat split; try reflexivity. discriminate.
  - unfold wf_name. intros H.
    apply andb_true_iff in H as [H Hdd]. apply andb_true_iff in H as [H Hd]. apply andb_true_iff in H as [Hne Hs].
    apply negb_true_iff in Hdd, Hd, Hne. repeat split.
    + intros ->. discriminate.
    + exact Hs.
    + cbn [seg_comps]. rewrite Hne, Hd, Hdd. reflexivity.
    + exact Hd.
Qed.

(** ** the written text *)

Lemma ends_with_b_app a b c : b <> [] -> ends_with_b (a ++ b) c = ends_with_b b c.
Proof.
  intros Hb. induction a as [|x a IH]; [reflexivity|].
  cbn [app ends_with_b]. destruct (a ++ b) eqn:E.
  - apply app_eq_nil in E as [_ E]. congruence.
  - exact IH.
Qed.

Lemma ends_with_b_no s c : existsb (N.eqb c) s = false -> ends_with_b s c = false.
Proof.
  induction s as [|x s IH]; [reflexivity|]. cbn [existsb]. intros H.
  apply orb_false_iff in H as [Hx Hs]. cbn [ends_with_b]. destruct s.
  - rewrite N.eqb_sym. exact Hx.
  - apply IH. exact Hs.
Qed.

Definition tail_text (l : list comp) : bytes := List.concat (map (fun c => slash :: comp_bytes c) l).

Lemma tail_text_cons c l : tail_text (c :: l) = slash :: comp_bytes c ++ tail_text l.
Proof. reflexivity. Qed.

Lemma write_fold_tail l acc :
  forallb wf_comp l = true -> acc <> [] -> ends_with_slash acc = false ->
  fold_left write_step l acc = acc ++ tail_text l.
Proof.
  revert acc. induction l as [|c l IH]; intros acc Hl Hacc Hend; cbn [fold_left].
  - unfold tail_text. cbn [map List.concat]. rewrite app_nil_r. reflexivity.
  - cbn [forallb] in Hl. apply andb_true_iff in Hl as [Hc Hl].
    destruct (wf_comp_text c Hc) as (Hne & Hns & _ & _).
    assert (E : write_step acc c = acc ++ slash :: comp_bytes c).
    { unfold write_step. rewrite Hend. destruct acc as [|a0 acc0]; [congruence|]. cbn [orb].
      destruct c; try discriminate; cbn [comp_bytes]; rewrite <- app_assoc; reflexivity. }
    rewrite E, IH.
    + rewrite tail_text_cons, <- app_assoc. reflexivity.
    + exact Hl.
    + intros E0. apply app_eq_nil in E0 as [_ E0]. discriminate.
    + unfold ends_with_slash. rewrite ends_with_b_app by discriminate.
      change (slash :: comp_bytes c) with ([slash] ++ comp_bytes c). rewrite ends_with_b_app by exact Hne.
      apply ends_with_b_no. unfold no_slash in Hns. apply negb_true_iff in Hns. exact Hns.
Qed.

Lemma write_first c l :
  wf_comp c = true \/ c = Cur -> forallb wf_comp l = true ->
  write_require_path (c :: l) = comp_bytes c ++ tail_text l.
Proof.
  intros Hc Hl. unfold write_require_path. cbn [fold_left].
  assert (E : write_step [] c = comp_bytes c).
  { destruct Hc as [Hc| ->]; [|reflexivity]. destruct c; try discriminate; reflexivity. }
  rewrite E. apply write_fold_tail.
  - exact Hl.
  - destruct Hc as [Hc| ->]; [|discriminate]. apply (wf_comp_text c Hc).
  - destruct Hc as [Hc| ->]; [|reflexivity].
    destruct (wf_comp_text c Hc) as (_ & Hns & _ & _). apply ends_with_b_no.
    unfold no_slash in Hns. apply negb_true_iff in Hns. exact Hns.
Qed.

(** ** splitting it again *)

Lemma split_slash_acc_seg s rest cur :
  existsb (N.eqb slash) s = false ->
  split_slash_acc (s ++ slash :: rest) cur = (rev cur ++ s) :: split_slash_acc rest [].
Proof.
  revert cur. induction s as [|c s IH]; intros cur H; cbn [app split_slash_acc].
  - rewrite N.eqb_refl, app_nil_r. reflexivity.
  - cbn [existsb] in H. apply orb_false_iff in H as [Hc Hs].
    rewrite N.eqb_sym in Hc. rewrite Hc, IH by exact Hs. cbn [rev]. rewrite <- app_assoc. reflexivity.
Qed.

Lemma split_tail_text l t cur :
  forallb wf_comp l = true -> existsb (N.eqb slash) t = false ->
  split_slash_acc (t ++ tail_text l) cur = (rev cur ++ t) :: map comp_bytes l.
Proof.
  revert t cur. induction l as [|c l IH]; intros t cur Hl Ht.
  - unfold tail_text. cbn [map List.concat]. rewrite app_nil_r. apply split_slash_acc_no_slash. exact Ht.
  - cbn [forallb] in Hl. apply andb_true_iff in Hl as [Hc Hl].
    destruct (wf_comp_text c Hc) as (_ & Hns & _ & _). unfold no_slash in Hns. apply negb_true_iff in Hns.
    rewrite tail_text_cons. rewrite split_slash_acc_seg by exact Ht.
    rewrite (IH (comp_bytes c) [] Hl Hns). reflexivity.
Qed.

Lemma seg_comps_app a b : seg_comps (a ++ b) = seg_comps a ++ seg_comps b.
Proof.
  induction a as [|n a IH]; [reflexivity|]. cbn [app seg_comps].
  destruct (bytes_eqb n [] || is_dot n); [exact IH|]. destruct (is_dotdot n); cbn [app]; rewrite IH; reflexivity.
Qed.

Lemma seg_comps_map l : forallb wf_comp l = true -> seg_comps (map comp_bytes l) = l.
Proof.
  induction l as [|c l IH]; [reflexivity|]. cbn [forallb map]. intros H.
  apply andb_true_iff in H as [Hc Hl].
  change (comp_bytes c :: map comp_bytes l) with ([comp_bytes c] ++ map comp_bytes l).
  rewrite seg_comps_app, IH by exact Hl.
  destruct (wf_comp_text c Hc) as (_ & _ & E & _). rewrite E. reflexivity.
Qed.

Theorem parse_write_roundtrip p : wf_rel p = true -> parse_path (write_require_path p) = p.
Proof.
  destruct p as [|c l]; [reflexivity|]. intros H.
  assert (Hc : (wf_comp c = true \/ c = Cur) /\ forallb wf_comp l = true).
  { destruct c; cbn [wf_rel forallb wf_comp] in H; try discriminate.
    - split; [right; reflexivity|exact H].
    - split; [left; reflexivity|exact H].
    - apply andb_true_iff in H as [H1 H2]. split; [left; exact H1|exact H2]. }
  destruct Hc as [Hc Hl]. rewrite (write_first c l Hc Hl).
  assert (Hns : existsb (N.eqb slash) (comp_bytes c) = false).
  { destruct Hc as [Hc| ->]; [|reflexivity].
    destruct (wf_comp_text c Hc) as (_ & Hns & _ & _). unfold no_slash in Hns. apply negb_true_iff in Hns. exact Hns. }
  assert (Hne : comp_bytes c <> []).
  { destruct Hc as [Hc| ->]; [|discriminate]. apply (wf_comp_text c Hc). }
  unfold parse_path. destruct (comp_bytes c) as [|b0 t0] eqn:Et; [congruence|].
  cbn [app]. cbn [existsb] in Hns. apply orb_false_iff in Hns as [Hb0 Ht0].
  rewrite N.eqb_sym in Hb0. rewrite Hb0.
  unfold split_slash. change (b0 :: t0 ++ tail_text l) with ((b0 :: t0) ++ tail_text l).
  rewrite (split_tail_text l (b0 :: t0) [] Hl)
    by (cbn [existsb]; rewrite N.eqb_sym in Hb0; rewrite Hb0; exact Ht0).
  cbn [rev app]. rewrite <- Et.
  destruct Hc as [Hc| ->].
  - destruct (wf_comp_text c Hc) as (_ & _ & E & Hd). rewrite Hd.
    change (comp_bytes c :: map comp_bytes l) with ([comp_bytes c] ++ map comp_bytes l).
    rewrite seg_comps_app, E, seg_comps_map by exact Hl. reflexivity.
  - cbn [comp_bytes]. change (is_dot [dot]) with true. cbn iota. rewrite seg_comps_map by exact Hl. reflexivity.
Qed.
