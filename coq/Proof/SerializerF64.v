(** C14 — facts about binary64 ([Lib/F64], [spec_float]) used by the serializer proof:
    IEEE equality is an equivalence off NaN, integers below 2^53 are represented exactly
    (explicit form of [of_Z]), hence distinct integers give distinct table keys, and their
    bit pattern decodes to the same float.  Everything here is closed under the global
    context except [int_roundtrip_valid], which rests on Flocq's [binary_round_correct]
    (through [EvaluatorF64.valid_of_Z]). *)
From Coq Require Import ZArith NArith List Bool Lia Zpower.
From Coq Require Import Floats.SpecFloat.
From DL Require Import Lib.Bytes Lib.F64 Proof.EvaluatorF64.
Open Scope Z_scope.

(** * IEEE equality *)

Lemma SFeqb_true x y :
  SFeqb x y = true -> (is_zero x = true /\ is_zero y = true) \/ (x = y /\ is_nan x = false).
Proof.
  unfold SFeqb. destruct x as [sx|sx| |sx mx ex], y as [sy|sy| |sy my ey]; cbn; try discriminate;
    try (destruct sx; discriminate); try (destruct sy; discriminate); auto.
  - destruct sx, sy; try discriminate; auto.
  - destruct sx, sy; try discriminate.
    + destruct (Z.compare ex ey) eqn:E; try discriminate. apply Z.compare_eq in E. subst ey.
      destruct (Pos.compare_cont Eq mx my) eqn:P; try discriminate.
      apply Pos.compare_eq in P. subst. auto.
    + destruct (Z.compare ex ey) eqn:E; try discriminate. apply Z.compare_eq in E. subst ey.
      destruct (Pos.compare_cont Eq mx my) eqn:P; try discriminate.
      apply Pos.compare_eq in P. subst. auto.
Qed.

Lemma SFeqb_refl x : is_nan x = false -> SFeqb x x = true.
Proof.
  unfold SFeqb. destruct x as [s|s| |s m e]; cbn; try discriminate; auto.
  - destruct s; reflexivity.
  - rewrite Z.compare_refl. fold (Pos.compare m m). rewrite Pos.compare_refl. destruct s; reflexivity.
Qed.

Lemma SFeqb_zeros x y : is_zero x = true -> is_zero y = true -> SFeqb x y = true.
Proof. destruct x, y; try discriminate; reflexivity. Qed.

Lemma SFeqb_sym x y : SFeqb x y = true -> SFeqb y x = true.
Proof.
  intros H. apply SFeqb_true in H as [[A B]|[-> A]].
  - now apply SFeqb_zeros.
  - now apply SFeqb_refl.
Qed.

Lemma SFeqb_trans x y z : SFeqb x y = true -> SFeqb y z = true -> SFeqb x z = true.
Proof.
  intros H1 H2. apply SFeqb_true in H1 as [[A B]|[-> A]]; [|exact H2].
  apply SFeqb_true in H2 as [[C D]|[<- C]].
  - now apply SFeqb_zeros.
  - now apply SFeqb_zeros.
Qed.

(** * integers below 2^53 *)

Lemma digits2_shift k p : digits2_pos (shift_pos k p) = (digits2_pos p + k)%positive.
Proof.
  unfold shift_pos. induction k using Pos.peano_ind.
  - cbn. lia.
  - rewrite Pos.iter_succ. cbn [digits2_pos]. rewrite IHk. lia.
Qed.

Lemma digits_le_53 p : Z.pos p < 9007199254740992 -> Z.pos (digits2_pos p) <= 53.
Proof.
  intros Hp. pose proof (digits_bounds p) as [Hlo Hhi].
  assert (Z.pos (digits2_pos p) - 1 < 53) as H; [|lia].
  apply pow2_lt_inv; [lia|lia|]. change (2 ^ 53) with 9007199254740992. lia.
Qed.

(** mantissa and exponent of the canonical representation of a positive integer of at most
    53 bits *)
Definition small_repr (p : positive) : positive * Z :=
  match 53 - Z.pos (digits2_pos p) with
  | Z.pos k => (shift_pos k p, - Z.pos k)
  | _ => (p, 0)
  end.

Lemma small_repr_bounded p : Z.pos p < 9007199254740992 ->
  bounded prec emax (fst (small_repr p)) (snd (small_repr p)) = true.
Proof.
  intros Hp. pose proof (digits_le_53 p Hp) as Hd.
  unfold small_repr. apply bounded_spec.
  destruct (53 - Z.pos (digits2_pos p)) as [|k|k] eqn:E; cbn [fst snd].
  - lia.
  - rewrite digits2_shift. lia.
  - lia.
Qed.

Lemma binary_round_small s p : Z.pos p < 9007199254740992 ->
  SpecFloat.binary_round prec emax s p 0 = S754_finite s (fst (small_repr p)) (snd (small_repr p)).
Proof.
  intros Hp. pose proof (small_repr_bounded p Hp) as Hb.
  pose proof (digits_le_53 p Hp) as Hd.
  assert (SpecFloat.binary_round prec emax s p 0 =
          SpecFloat.binary_round_aux prec emax s (Z.pos (fst (small_repr p))) (snd (small_repr p)) loc_Exact) as ->.
  { unfold SpecFloat.binary_round, shl_align, SpecFloat.fexp, SpecFloat.emin, small_repr, prec, emax.
    rewrite Z.add_0_r, Z.sub_0_r.
    replace (Z.max (Z.pos (digits2_pos p) - 53) (3 - 1024 - 53)) with (Z.pos (digits2_pos p) - 53) by lia.
    destruct (53 - Z.pos (digits2_pos p)) as [|k|k] eqn:E.
    - replace (Z.pos (digits2_pos p) - 53) with 0 by lia. reflexivity.
    - replace (Z.pos (digits2_pos p) - 53) with (Z.neg k) by lia. reflexivity.
    - lia. }
  destruct (small_repr p) as [m e]. cbn [fst snd] in *.
  (* the canonical pair is a fixed point of rounding: the positive case is [fnorm_idem] *)
  pose proof (fnorm_idem m e Hb) as Hf.
  unfold fnorm, SpecFloat.binary_normalize, SpecFloat.binary_round in Hf.
  pose proof Hb as Hb'. unfold bounded in Hb'. apply andb_true_iff in Hb' as [Hc _].
  unfold canonical_mantissa in Hc. apply Zeq_bool_eq in Hc.
  rewrite Hc in Hf. unfold shl_align in Hf. rewrite Z.sub_diag in Hf.
  destruct s; [|exact Hf].
  rewrite <- bra_opp. rewrite Hf. reflexivity.
Qed.

Lemma of_Z_pos_small p : Z.pos p < 9007199254740992 ->
  of_Z (Z.pos p) = S754_finite false (fst (small_repr p)) (snd (small_repr p)).
Proof. intros H. unfold of_Z, fnorm. cbn [SpecFloat.binary_normalize]. now apply binary_round_small. Qed.

Lemma of_Z_neg_small p : Z.pos p < 9007199254740992 ->
  of_Z (Z.neg p) = S754_finite true (fst (small_repr p)) (snd (small_repr p)).
Proof. intros H. unfold of_Z, fnorm. cbn [SpecFloat.binary_normalize]. now apply binary_round_small. Qed.

(** the integer a small representation stands for *)
Lemma small_repr_value p : Z.pos p < 9007199254740992 ->
  to_Z (S754_finite false (fst (small_repr p)) (snd (small_repr p))) = Z.pos p.
Proof.
  intros Hp. unfold small_repr, to_Z.
  destruct (53 - Z.pos (digits2_pos p)) as [|k|k] eqn:E; cbn [fst snd].
  - cbn. lia.
  - replace (0 <=? - Z.pos k) with false by lia.
    rewrite shift_pos_correct. change (Zpower_pos 2 k) with (2 ^ Z.pos k).
    rewrite Z.opp_involutive, Z.mul_comm. apply Z.div_mul. apply Z.pow_nonzero; lia.
  - cbn. lia.
Qed.

Lemma of_Z_small_inj i j :
  0 < i < 9007199254740992 -> 0 < j < 9007199254740992 -> feqb (of_Z i) (of_Z j) = true -> i = j.
Proof.
  intros Hi Hj H. destruct i as [|p|p], j as [|q|q]; try lia.
  rewrite (of_Z_pos_small p), (of_Z_pos_small q) in H by lia.
  apply SFeqb_true in H as [[A _]|[A _]]; [discriminate|].
  rewrite <- (small_repr_value p), <- (small_repr_value q) by lia. now rewrite A.
Qed.

Lemma of_Z_small_finite i : 0 < i < 9007199254740992 ->
  is_nan (of_Z i) = false /\ is_zero (of_Z i) = false.
Proof.
  intros Hi. destruct i as [|p|p]; try lia. rewrite of_Z_pos_small by lia. split; reflexivity.
Qed.

(** * the bit pattern of an integer decodes to the same float *)

Definition int_roundtrip (z : Z) : Prop := of_bits (to_bits (of_Z z)) = of_Z z.

Lemma int_roundtrip_small z : Z.abs z < 9007199254740992 -> int_roundtrip z.
Proof.
  intros H. unfold int_roundtrip. apply of_to_bits. unfold valid.
  destruct z as [|p|p].
  - reflexivity.
  - rewrite of_Z_pos_small by lia. cbn [valid_binary]. apply small_repr_bounded. lia.
  - rewrite of_Z_neg_small by lia. cbn [valid_binary]. apply small_repr_bounded. lia.
Qed.

(** every integer: the rounded float is canonical (Flocq's [binary_round_correct], proved over
    the classical reals: its axioms appear in [Print Assumptions]) *)
Lemma int_roundtrip_valid z : int_roundtrip z.
Proof. unfold int_roundtrip. apply of_to_bits. apply valid_of_Z. Qed.
