(** The refinement theorem of C10: after a reported history, the worker's files are those of
    a fresh run. *)
From Coq Require Import Arith PeanoNat Lia.
From DL Require Import Lib.Bytes Model.WorkerFs Model.Worker Proof.WorkerBasics Proof.WorkerInv
     Proof.WorkerStep Proof.WorkerProcess.
Open Scope N_scope.

Section Main.
  Variable cfg : Type.
  Variable hash : cfg -> N.
  Variable xform : cfg -> path -> content -> fs -> option content * list path.
  Variable inp outp : path.

  Hypothesis io_disjoint1 : starts_with inp outp = false.
  Hypothesis io_disjoint2 : starts_with outp inp = false.
  Hypothesis hash_faithful : forall c1 c2, hash c1 = hash c2 ->
                                           forall q t f, xform c1 q t f = xform c2 q t f.
  Hypothesis xform_frame : forall c q t f f',
      fst (xform c q t f) <> None ->
      (forall d, In d (snd (xform c q t f)) -> fs_get f' d = fs_get f d) ->
      xform c q t f' = xform c q t f.
  Hypothesis deps_exist : forall c q t f d,
      fst (xform c q t f) <> None -> In d (snd (xform c q t f)) -> fs_get f d <> None.
  Hypothesis deps_outside : forall c q t f d,
      fst (xform c q t f) <> None -> In d (snd (xform c q t f)) -> starts_with outp d = false.

  Notation out_of := (out_of inp outp).
  Notation is_source := (is_source inp).
  Notation step := (step cfg hash xform inp outp).
  Notation run := (run cfg hash xform inp outp).
  Notation fresh := (fresh cfg xform inp outp).
  Notation healthy := (healthy cfg xform inp).
  Notation always_healthy := (always_healthy cfg xform inp).
  Notation reported_from := (reported_from cfg inp).
  Notation dirs_ok := (dirs_ok cfg hash xform inp outp).
  Notation track := (track cfg inp).
  Notation user_step := (user_step cfg).
  Notation user_fs := (user_fs cfg).

  (** * Facts extracted from [paths_ok] *)

  Definition ev_ok (E : list path) (e : event cfg) : Prop :=
    match e with
    | FsWrite p _ => touches_out outp p = false /\ In p E
    | FsRemove p => touches_out outp p = false
    | FsRemoveDir d => touches_out outp d = false
    | _ => True
    end.

  Lemma written_in_ever f0 (h : list (event cfg)) p c : In (FsWrite p c) h -> In p (ever_files cfg f0 h).
  Proof.
    intros H. unfold ever_files. apply in_or_app. right. unfold written_paths.
    apply in_flat_map. exists (FsWrite p c). split; [exact H|left; reflexivity].
  Qed.

  Lemma paths_ok_facts f0 h :
    paths_ok cfg inp outp f0 h = true ->
    let E := ever_files cfg f0 h in
    Forall (ev_ok E) h /\
    (forall a b, In a E -> In b E -> starts_with a b = true -> a = b) /\
    (forall q p, In q E -> is_source q = true -> fs_get f0 p <> None -> starts_with (out_of q) p = false) /\
    (forall p, fs_get f0 p <> None -> In p E).
  Proof.
    intros H E. unfold paths_ok in H. fold E in H.
    apply andb_true_iff in H as [H H3]. apply andb_true_iff in H as [H1 H2].
    rewrite forallb_forall in H1, H2, H3.
    split; [|split; [|split]].
    - apply Forall_forall. intros e He. specialize (H1 e He). destruct e; cbn; auto.
      + apply negb_true_iff in H1. split; [exact H1|]. eapply written_in_ever. exact He.
      + apply negb_true_iff in H1. exact H1.
      + apply negb_true_iff in H1. exact H1.
    - intros a b Ha Hb Hab. specialize (H2 a Ha). rewrite forallb_forall in H2. specialize (H2 b Hb).
      unfold strict_prefix in H2. rewrite Hab in H2. cbn in H2. apply negb_true_iff, negb_false_iff in H2.
      apply path_eqb_eq. exact H2.
    - intros q p Hq Hs Hp. specialize (H3 q Hq). rewrite Hs in H3. cbn in H3.
      rewrite forallb_forall in H3. apply fs_get_In in Hp. specialize (H3 p Hp).
      apply negb_true_iff in H3. exact H3.
    - intros p Hp. unfold E, ever_files. apply in_or_app. left. apply fs_get_In. exact Hp.
  Qed.

  Variable f0 : fs.
  Variable E : list path.
  Hypothesis E_nonest : forall a b, In a E -> In b E -> starts_with a b = true -> a = b.
  Hypothesis E_foreign : forall q p, In q E -> is_source q = true -> fs_get f0 p <> None ->
                                     starts_with (out_of q) p = false.
  Hypothesis E_initial : forall p, fs_get f0 p <> None -> In p E.

  Notation inv := (inv cfg hash xform inp outp f0 E).

  Fixpoint dirt_after (u : fs) (d : dirty) (h : list (event cfg)) : dirty :=
    match h with
    | [] => d
    | e :: h' => dirt_after (user_step u e) (track u d e) h'
    end.

  Lemma inv_initial c0 c :
    inv c0 (mkDirty [] (fs_collect f0 inp) []) f0 (mkWorld f0 c empty_tree).
  Proof.
    constructor; cbn [w_tree w_fs dC dN dR].
    - apply wf_empty.
    - intros i it Hi. unfold get_slot in Hi. destruct i; discriminate.
    - intros i it Hi. unfold get_slot in Hi. destruct i; discriminate.
    - intros i it Hi. unfold get_slot in Hi. destruct i; discriminate.
    - intros q Hq Hex Hn. exfalso. apply Hn. apply fs_collect_spec.
      unfold Worker.is_source in Hq. apply andb_true_iff in Hq as [H1 H2]. auto.
    - intros p _. right. right. reflexivity.
    - reflexivity.
    - exact E_initial.
    - reflexivity.
    - intros i it Hi. unfold get_slot in Hi. destruct i; discriminate.
  Qed.

  (** * Every event preserves the invariant; nothing panics *)

  Lemma step_inv c0 d u w e :
    inv c0 d u w -> ev_ok E e ->
    call_ok cfg inp u e = true ->
    (match e with Process => is_clean d = true /\ healthy (w_cfg w) u = true | _ => True end) ->
    dir_event_ok cfg (w_tree w) e = true ->
    exists w' c0', step w e = Running w' /\ inv c0' (track u d e) (user_step u e) w' /\
                   (match e with
                    | Process => rmf (w_tree w') = [] /\ c0' = w_cfg w /\
                                 forall j it, get_slot (slots (w_tree w')) j = Some it -> is_done (i_st it) = true
                    | _ => True
                    end) /\
                   w_cfg w' = match e with SetCfg c => c | _ => w_cfg w end.
  Proof.
    intros Hinv Hev Hcall Hproc Hdir. destruct e; cbn [step user_step Worker.user_step].
    - destruct Hev as [H1 H2]. eexists. exists c0. split; [reflexivity|]. split; [|split; [exact I|reflexivity]].
      eapply step_FsWrite; eassumption.
    - eexists. exists c0. split; [reflexivity|]. split; [|split; [exact I|reflexivity]].
      eapply step_FsRemove; eassumption.
    - eexists. exists c0. split; [reflexivity|]. split; [|split; [exact I|reflexivity]].
      eapply step_FsRemoveDir; eassumption.
    - eexists. exists c0. split; [reflexivity|]. split; [|split; [exact I|reflexivity]].
      apply step_SetCfg. exact Hinv.
    - eexists. exists c0. split; [reflexivity|]. split; [|split; [exact I|reflexivity]].
      apply step_Snapshot. exact Hinv.
    - eexists. exists c0. split; [reflexivity|]. split; [|split; [exact I|reflexivity]].
      eapply step_Collect; eassumption.
    - assert (X : exists t', source_changed (w_tree w) p = Ok t' /\
                               inv c0 (track u d (SrcChanged p)) u (mkWorld (w_fs w) (w_cfg w) t'))
        by (eapply step_SrcChanged; eassumption).
      destruct X as [t' [R I']].
      rewrite R. eexists. exists c0. split; [reflexivity|]. split; [exact I'|split; [exact I|reflexivity]].
    - assert (X : exists t', remove_source (w_tree w) p = Ok t' /\
                               inv c0 (track u d (RemoveSrc p)) u (mkWorld (w_fs w) (w_cfg w) t'))
        by (eapply step_RemoveSrc; eassumption).
      destruct X as [t' [R I']].
      rewrite R. eexists. exists c0. split; [reflexivity|]. split; [exact I'|split; [exact I|reflexivity]].
    - cbn [call_ok] in Hcall. apply andb_true_iff in Hcall as [Hc1 Hc2].
      assert (X : exists t', add_source (w_tree w) p (out_of p) = Ok t' /\
                               inv c0 (track u d (AddSrc p)) u (mkWorld (w_fs w) (w_cfg w) t'))
        by (eapply step_AddSrc; eassumption).
      destruct X as [t' [R I']].
      rewrite R. eexists. exists c0. split; [reflexivity|]. split; [exact I'|split; [exact I|reflexivity]].
    - destruct Hproc as [Hproc Hhl].
      assert (X : exists t' f',
                 process cfg hash xform (w_cfg w) (w_tree w) (w_fs w) = Some (t', f') /\
                 inv (w_cfg w) d u (mkWorld f' (w_cfg w) t') /\ rmf t' = [] /\
                 (forall j it, get_slot (slots t') j = Some it -> is_done (i_st it) = true))
        by (eapply step_Process; eassumption).
      destruct X as [t' [f' [R [I' [Hr Hd]]]]].
      rewrite R. eexists. exists (w_cfg w). split; [reflexivity|]. split; [exact I'|]. split; [|reflexivity].
      cbn [w_tree]. auto.
  Qed.

  Lemma run_inv : forall h c0 d u w,
    inv c0 d u w -> Forall (ev_ok E) h ->
    reported_from u d h = true -> dirs_ok w h = true ->
    always_healthy u (w_cfg w) h = true ->
    exists w' c0', run w h = Running w' /\ inv c0' (dirt_after u d h) (user_fs u h) w' /\
                   w_cfg w' = final_cfg cfg (w_cfg w) h.
  Proof.
    induction h as [|e h IH]; intros c0 d u w Hinv Hev Hrep Hdir Hah.
    - exists w, c0. cbn. auto.
    - inversion Hev as [|? ? He Hev']; subst.
      cbn [Worker.always_healthy] in Hah. apply andb_true_iff in Hah as [Hah1 Hah2].
      cbn [Worker.reported_from] in Hrep. apply andb_true_iff in Hrep as [Hrep Hrep'].
      apply andb_true_iff in Hrep as [Hcall Hproc].
      cbn [Worker.dirs_ok] in Hdir. apply andb_true_iff in Hdir as [Hd1 Hd2].
      destruct (step_inv c0 d u w e Hinv He Hcall) as [w1 [c1 [Hs [I1 [_ Hc]]]]].
      { destruct e; auto. }
      { exact Hd1. }
      rewrite Hs in Hd2. rewrite <- Hc in Hah2.
      destruct (IH c1 _ _ w1 I1 Hev' Hrep' Hd2 Hah2) as [w' [c' [Hr [I' Hc']]]].
      exists w', c'. cbn [Worker.run dirt_after]. rewrite Hs. split; [exact Hr|]. split; [exact I'|].
      rewrite Hc', Hc. unfold final_cfg. cbn [fold_left]. destruct e; reflexivity.
  Qed.

  Lemma reported_from_app h1 h2 u d :
    reported_from u d (h1 ++ h2) = true ->
    reported_from u d h1 = true /\ reported_from (user_fs u h1) (dirt_after u d h1) h2 = true.
  Proof.
    revert u d; induction h1 as [|e h1 IH]; intros u d H; cbn [app Worker.reported_from dirt_after] in *.
    - auto.
    - apply andb_true_iff in H as [H1 H2]. apply IH in H2 as [H2 H3]. rewrite H1, H2. auto.
  Qed.

  Lemma dirs_ok_app h1 h2 w w' :
    dirs_ok w (h1 ++ h2) = true -> run w h1 = Running w' ->
    dirs_ok w h1 = true /\ dirs_ok w' h2 = true.
  Proof.
    revert w; induction h1 as [|e h1 IH]; intros w H R; cbn [app Worker.dirs_ok Worker.run] in *.
    - inversion R; subst. auto.
    - apply andb_true_iff in H as [H1 H2]. rewrite H1. cbn [andb].
      destruct (step w e) as [w1| |] eqn:Es; try discriminate.
      apply IH; assumption.
  Qed.

  Lemma run_app h1 h2 w w' :
    run w h1 = Running w' -> run w (h1 ++ h2) = run w' h2.
  Proof.
    revert w; induction h1 as [|e h1 IH]; intros w R; cbn [app Worker.run] in *.
    - inversion R; subst. reflexivity.
    - destruct (step w e) as [w1| |]; try discriminate. apply IH. exact R.
  Qed.

  Lemma dirs_ok_prefix h1 h2 w : dirs_ok w (h1 ++ h2) = true -> dirs_ok w h1 = true.
  Proof.
    revert w; induction h1 as [|e h1 IH]; intros w H; cbn [app Worker.dirs_ok] in *; [reflexivity|].
    apply andb_true_iff in H as [H1 H2]. rewrite H1. cbn [andb].
    destruct (step w e) as [w1| |]; auto.
  Qed.

  (** * The fresh run, point-wise *)

  Lemma fresh_fold_other c u p l : forall g,
    (forall q, In q l -> out_of q <> p) ->
    fs_get (fold_left (fun g q =>
                         match fs_get u q with
                         | Some txt => match fst (xform c q txt u) with
                                       | Some o => fs_write g (out_of q) o
                                       | None => g
                                       end
                         | None => g
                         end) l g) p = fs_get g p.
  Proof.
    induction l as [|q l IH]; intros g Hl; cbn [fold_left]; [reflexivity|].
    rewrite IH by (intros q' Hq'; apply Hl; right; exact Hq').
    destruct (fs_get u q) as [txt|]; [|reflexivity].
    destruct (fst (xform c q txt u)) as [o|]; [|reflexivity].
    rewrite fs_get_write. destruct (path_eqb (out_of q) p) eqn:Ep; [|reflexivity].
    apply path_eqb_eq in Ep. exfalso. apply (Hl q); [left; reflexivity|exact Ep].
  Qed.

  Lemma fresh_other c u p :
    (forall q, In q (fs_collect u inp) -> out_of q <> p) -> fs_get (fresh c u) p = fs_get u p.
  Proof. intros H. unfold Worker.fresh. apply fresh_fold_other. exact H. Qed.

  Lemma fresh_output c u q txt o :
    In q (fs_collect u inp) -> fs_get u q = Some txt -> fst (xform c q txt u) = Some o ->
    fs_get (fresh c u) (out_of q) = Some o.
  Proof.
    intros Hin Hq Hx. unfold Worker.fresh.
    assert (Hsrc : forall q', In q' (fs_collect u inp) -> is_source q' = true).
    { intros q' H. apply fs_collect_spec in H as [_ [H1 H2]]. unfold Worker.is_source. rewrite H1, H2. reflexivity. }
    assert (Hqs : is_source q = true) by (apply Hsrc; exact Hin).
    assert (G : forall l g, (forall q', In q' l -> is_source q' = true) ->
                            (In q l \/ fs_get g (out_of q) = Some o) ->
                            fs_get (fold_left (fun g q0 =>
                                                 match fs_get u q0 with
                                                 | Some txt0 => match fst (xform c q0 txt0 u) with
                                                                | Some o0 => fs_write g (out_of q0) o0
                                                                | None => g
                                                                end
                                                 | None => g
                                                 end) l g) (out_of q) = Some o).
    { induction l as [|q' l IH]; intros g Hl Hor; cbn [fold_left].
      - destruct Hor as [[]|H]. exact H.
      - apply IH; [intros x Hx'; apply Hl; right; exact Hx'|].
        destruct (path_eq_dec q' q) as [->|Hne].
        + right. rewrite Hq, Hx, fs_get_write, path_eqb_refl. reflexivity.
        + destruct Hor as [[Heq|Hin']|Hg]; [congruence|left; exact Hin'|].
          right. destruct (fs_get u q') as [txt'|]; [|exact Hg].
          destruct (fst (xform c q' txt' u)) as [o'|]; [|exact Hg].
          rewrite fs_get_write. destruct (path_eqb (out_of q') (out_of q)) eqn:Ep; [|exact Hg].
          apply path_eqb_eq in Ep. exfalso. apply Hne.
          eapply out_of_inj; [apply Hl; left; reflexivity|exact Hqs|exact Ep]. }
    apply G; [exact Hsrc|left; exact Hin].
  Qed.

  (** * The theorem *)

  Lemma always_healthy_app h1 h2 u c :
    always_healthy u c (h1 ++ h2) = true ->
    always_healthy u c h1 = true /\
    always_healthy (user_fs u h1) (final_cfg cfg c h1) h2 = true.
  Proof.
    revert u c; induction h1 as [|e h1 IH]; intros u c H; cbn [app Worker.always_healthy] in *.
    - auto.
    - apply andb_true_iff in H as [H1 H2]. apply IH in H2 as [H2 H3]. rewrite H1, H2. split; [reflexivity|].
      unfold final_cfg, user_fs in *. cbn [fold_left]. exact H3.
  Qed.

  Theorem incremental_eq_fresh_E c_init h :
    Forall (ev_ok E) h ->
    reported cfg inp f0 (h ++ [Process]) = true ->
    dirs_ok (mkWorld f0 c_init empty_tree) h = true ->
    always_healthy f0 c_init (h ++ [Process]) = true ->
    exists w, run (mkWorld f0 c_init empty_tree) (h ++ [Process]) = Running w /\
              forall p, fs_get (w_fs w) p = fs_get (fresh (final_cfg cfg c_init h) (user_fs f0 h)) p.
  Proof.
    intros Hev Hrep Hdir Hah. set (w0 := mkWorld f0 c_init empty_tree) in *.
    set (d0 := mkDirty [] (fs_collect f0 inp) []).
    unfold reported in Hrep. fold d0 in Hrep. apply reported_from_app in Hrep as [Hrep1 Hrep2].
    apply always_healthy_app in Hah as [Hah1 Hah2].
    cbn [Worker.always_healthy] in Hah2. rewrite andb_true_r in Hah2. rename Hah2 into Hhealthy.
    destruct (run_inv h c_init d0 f0 w0 (inv_initial c_init c_init) Hev Hrep1 Hdir Hah1) as [w1 [c1 [Hrun1 [I1 Hc1]]]].
    set (u := user_fs f0 h) in *. set (d1 := dirt_after f0 d0 h) in *.
    cbn [Worker.reported_from call_ok andb] in Hrep2. rewrite andb_true_r in Hrep2.
    cbn [w_cfg] in Hc1. fold w0 in Hc1.
    assert (Hhl1 : healthy (w_cfg w1) u = true) by (rewrite Hc1; exact Hhealthy).
    destruct (step_inv c1 d1 u w1 Process I1 Logic.I eq_refl (conj Hrep2 Hhl1) eq_refl)
      as [w2 [c2 [Hs2 [I2 [[Hrm [Hc2 Hdone]] Hcfg2]]]]].
    cbn [user_step Worker.user_step Worker.track] in I2.
    exists w2. split.
    { rewrite (run_app h [Process] w0 w1 Hrun1). cbn [Worker.run]. rewrite Hs2. reflexivity. }
    assert (Hcfg : c2 = final_cfg cfg c_init h) by (rewrite Hc2, Hc1; reflexivity).
    rewrite <- Hcfg in *. clear Hcfg.
    destruct (clean_dirty d1 Hrep2) as [HdC [HdN HdR]].
    pose proof (inv_wf _ _ _ _ _ _ _ _ _ _ _ I2) as W2.
    assert (Hclean : forall it, clean_item d1 it).
    { intros it. unfold clean_item. rewrite HdC, HdR. cbn. auto. }
    (* every source of the user's files has a finished, good item whose result is the fresh one *)
    assert (Hitem : forall i it, get_slot (slots (w_tree w2)) i = Some it ->
                                 exists txt o, fs_get u (i_src it) = Some txt /\
                                               In (i_src it) (fs_collect u inp) /\
                                               fst (xform c2 (i_src it) txt u) = Some o /\
                                               fs_get (w_fs w2) (i_out it) = Some o).
    { intros i it Hi. pose proof (inv_good _ _ _ _ _ _ _ _ _ _ _ I2 i it Hi (Hdone i it Hi) (Hclean it)) as G.
      destruct G as [txt [o [Hsrc [Hok [Hdeps [Hst Hres]]]]]].
      destruct (wf_item _ _ _ _ W2 i it Hi) as [Hout [Hs _]].
      assert (Hso : starts_with outp (i_src it) = false) by (eapply source_not_out; eassumption).
      assert (Hu : fs_get u (i_src it) = Some txt) by (rewrite <- (inv_user _ _ _ _ _ _ _ _ _ _ _ I2); assumption).
      assert (Hx : xform c2 (i_src it) txt u = xform c2 (i_src it) txt (w_fs w2)).
      { apply xform_frame; [congruence|]. intros x Hx. symmetry. apply (inv_user _ _ _ _ _ _ _ _ _ _ _ I2).
        eapply deps_outside; [|exact Hx]. congruence. }
      assert (Hin : In (i_src it) (fs_collect u inp)).
      { apply fs_collect_spec. unfold Worker.is_source in Hs. apply andb_true_iff in Hs as [H1 H2].
        split; [congruence|auto]. }
      exists txt, o. rewrite Hx. auto. }
    intros p. destruct (starts_with outp p) eqn:Epo.
    - destruct (classic_item_out (slots (w_tree w2)) p) as [[i [it [Hi Ho]]]|Hno].
      + destruct (Hitem i it Hi) as [txt [o [Hu [Hin [Hx Hf]]]]].
        destruct (wf_item _ _ _ _ W2 i it Hi) as [Hout _].
        rewrite <- Ho, Hf, Hout. symmetry. eapply fresh_output; eassumption.
      + destruct (inv_out _ _ _ _ _ _ _ _ _ _ _ I2 p Epo) as [[i [it [Hi Ho]]]|[Hr|Hf]].
        * exfalso. eapply Hno; [exact Hi|exact Ho].
        * rewrite Hrm in Hr. contradiction.
        * rewrite Hf, fresh_other.
          -- symmetry. apply (inv_ufs_out _ _ _ _ _ _ _ _ _ _ _ I2 p Epo).
          -- intros q Hq Heq. apply fs_collect_spec in Hq as [Hq1 [Hq2 Hq3]].
             assert (Hqs : is_source q = true) by (unfold Worker.is_source; rewrite Hq2, Hq3; reflexivity).
             assert (Hnode : node_of (w_tree w2) q <> None).
             { apply (inv_hasitem _ _ _ _ _ _ _ _ _ _ _ I2 q Hqs).
               - rewrite (inv_user _ _ _ _ _ _ _ _ _ _ _ I2); [exact Hq1|]. eapply source_not_out; eassumption.
               - rewrite HdN. intros []. }
             apply node_of_ne_none in Hnode as [i [it [Hi Hs]]].
             destruct (wf_item _ _ _ _ W2 i it Hi) as [Hout _].
             eapply Hno; [exact Hi|]. rewrite Hout, Hs. exact Heq.
    - rewrite (inv_user _ _ _ _ _ _ _ _ _ _ _ I2 p Epo). symmetry. apply fresh_other.
      intros q _ Heq. pose proof (out_of_under inp outp q) as Hu. rewrite Heq in Hu. congruence.
  Qed.

  (** no history inside the contract makes the worker panic or run out of fuel *)
  Theorem no_panic_E c_init h :
    Forall (ev_ok E) h ->
    reported cfg inp f0 h = true ->
    dirs_ok (mkWorld f0 c_init empty_tree) h = true ->
    always_healthy f0 c_init h = true ->
    exists w, run (mkWorld f0 c_init empty_tree) h = Running w.
  Proof.
    intros Hev Hrep Hdir Hah.
    destruct (run_inv h c_init _ f0 _ (inv_initial c_init c_init) Hev Hrep Hdir Hah) as [w1 [c1 [Hrun1 _]]].
    eauto.
  Qed.
End Main.
