(** The invariant behind [evaluate_sound] and [pure_sound]: whenever the expression is
    statically known ([evaluate e <> LUnknown], table constructors pure) or free of side
    effects according to [has_side_effects false], evaluation only extends the store and the
    value is described by [evaluate e] -- numbers up to Leibniz equality and canonical,
    tables and closures freshly allocated. *)
From Coq Require Import ZArith NArith List Bool String Lia.
From Coq Require Import Floats.SpecFloat.
From DL Require Import Lib.Bytes Lib.F64 Lua.Syntax Lua.Sem Model.StringLit Model.NumberLit
  Model.Evaluator Lua.EvalSpec Lua.EvalSpec2 Proof.SemFacts Proof.EvaluatorStore Proof.EvaluatorF64
  Proof.EvaluatorCoercion.
Import ListNotations.
Open Scope N_scope.
Local Notation llen := List.length.

(** * The refined matching relation *)

Definition lv_ok (s0 s : store) (v : lv) (x : value) : Prop :=
  match v, x with
  | LUnknown, _ => True
  | LNil, VNil => True
  | LTrue, VBool true => True
  | LFalse, VBool false => True
  | LNumber a, VNum b => a = b /\ valid a
  | LString a, VStr b => a = b
  | LFunction, VClosure c => (llen (closures s0) <= N.to_nat c < llen (closures s))%nat
  | LTable, VTable a => (llen (tables s0) <= N.to_nat a)%nat /\ plain_tab s a
  | _, _ => False
  end.

Lemma store_extends_tables s s' : store_extends s s' -> (llen (tables s) <= llen (tables s'))%nat.
Proof. intros (_ & _ & _ & _ & H & _). now apply list_extends_length. Qed.
Lemma store_extends_closures s s' : store_extends s s' -> (llen (closures s) <= llen (closures s'))%nat.
Proof. intros (_ & _ & _ & _ & _ & H). now apply list_extends_length. Qed.

Lemma lv_ok_mono s0 s s0' s' v x :
  store_extends s0' s0 -> store_extends s s' -> lv_ok s0 s v x -> lv_ok s0' s' v x.
Proof.
  intros H0 H1. pose proof (store_extends_tables _ _ H0). pose proof (store_extends_closures _ _ H0).
  pose proof (store_extends_closures _ _ H1).
  destruct v, x; cbn; auto.
  - lia.
  - intros [A B]. split; [lia|]. eapply plain_tab_extends; eauto.
Qed.

Lemma lv_ok_matches s0 s v x : lv_ok s0 s v x -> lv_matches s v x.
Proof.
  destruct v, x; cbn; auto.
  - intros [-> _]. apply same_f64_refl.
  - intros [_ H]. exact H.
Qed.

Lemma lv_ok_plain s0 s v x : lv_ok s0 s v x -> v <> LUnknown -> plain s x.
Proof. destruct v, x; cbn; auto; try contradiction; try tauto. Qed.

Lemma lv_ok_truthy s0 s v x b : lv_ok s0 s v x -> is_truthy v = Some b -> truthy x = b.
Proof.
  destruct v, x; cbn; try contradiction; try discriminate; try (intros _ E; inversion E; reflexivity).
  - destruct b0; [contradiction|]. intros _ E; inversion E; reflexivity.
  - destruct b0; [|contradiction]. intros _ E; inversion E; reflexivity.
Qed.

Lemma lv_ok_unknown s0 s x : lv_ok s0 s LUnknown x.
Proof. exact I. Qed.

Lemma lv_ok_bool s0 s c : lv_ok s0 s (lv_of_bool c) (VBool c).
Proof. destruct c; exact I. Qed.

(** * Static value of the non-short-circuit binary operators *)

Definition lv_binop (op : binop) (a b : lv) : lv :=
  match op with
  | BAnd | BOr => LUnknown
  | BEq => evaluate_equal a b
  | BNeq =>
    match evaluate_equal a b with
    | LTrue => LFalse
    | LFalse => LTrue
    | _ => LUnknown
    end
  | BAdd | BSub | BMul | BDiv | BIDiv | BMod | BPow =>
    match number_coercion a with
    | LNumber x =>
      match number_coercion b with
      | LNumber y => match math_op op x y with Some z => LNumber z | None => LUnknown end
      | _ => LUnknown
      end
    | _ => LUnknown
    end
  | BConcat =>
    match string_coercion a, string_coercion b with
    | LString x, LString y => LString (x ++ y)
    | _, _ => LUnknown
    end
  | BLt | BLe | BGt | BGe =>
    match a with
    | LNumber x =>
      match b with
      | LNumber y => lv_of_bool (rel_num op x y)
      | _ => LUnknown
      end
    | LString x =>
      match b with
      | LString y => lv_of_bool (rel_str op x y)
      | _ => LUnknown
      end
    | _ => LUnknown
    end
  end.

Lemma evaluate_binop op l r : is_andor op = false ->
  evaluate (EBinary op l r) = lv_binop op (evaluate l) (evaluate r).
Proof. destruct op; intros H; try discriminate H; reflexivity. Qed.

Lemma number_coercion_unknown : number_coercion LUnknown = LUnknown.
Proof. reflexivity. Qed.

Lemma lv_binop_known op a b : lv_binop op a b <> LUnknown -> a <> LUnknown /\ b <> LUnknown.
Proof.
  intros H. split; intros ->; apply H; clear H.
  - destruct op; reflexivity.
  - destruct op; cbn; try reflexivity;
      try (destruct a; reflexivity);
      try (destruct (number_coercion a); reflexivity);
      try (destruct (string_coercion a); reflexivity).
Qed.

(** side conditions of [dialect_safe] at a binary node *)
Definition op_safe (d : dialect) (op : binop) (a b : lv) : Prop :=
  (op = BConcat -> concat_operand_safe d a = true /\ concat_operand_safe d b = true) /\
  (op = BMod -> d = Luau -> forall x y, number_coercion a = LNumber x -> number_coercion b = LNumber y ->
                                        same_f64 (fmod_51 x y) (fmod_luau x y) = true).

Section Safe.
Variable d : dialect.

Lemma ds_split e : dialect_safe d e = true <->
  concat_safe d e = true /\ (d = Luau -> mod_safe e = true).
Proof.
  unfold dialect_safe. rewrite andb_true_iff. destruct d; intuition discriminate.
Qed.

Lemma ds_binary op l r : dialect_safe d (EBinary op l r) = true ->
  dialect_safe d l = true /\ dialect_safe d r = true /\ op_safe d op (evaluate l) (evaluate r).
Proof.
  rewrite !ds_split. cbn [concat_safe mod_safe]. rewrite !andb_true_iff. intros [[[A B] C] D].
  split; [|split].
  - split; auto. intros E. specialize (D E). tauto.
  - split; auto. intros E. specialize (D E). tauto.
  - split.
    + intros ->. now apply andb_true_iff in C.
    + intros -> E x y Hx Hy. specialize (D E). destruct D as [_ D].
      rewrite Hx, Hy in D. exact D.
Qed.

Lemma ds_unary op e : dialect_safe d (EUnary op e) = true -> dialect_safe d e = true.
Proof. rewrite !ds_split. cbn [concat_safe mod_safe]. tauto. Qed.
Lemma ds_paren e : dialect_safe d (EParen e) = true -> dialect_safe d e = true.
Proof. rewrite !ds_split. cbn [concat_safe mod_safe]. tauto. Qed.
Lemma ds_typecast e t : dialect_safe d (ETypeCast e t) = true -> dialect_safe d e = true.
Proof. rewrite !ds_split. cbn [concat_safe mod_safe]. tauto. Qed.
Lemma ds_typeinst e t : dialect_safe d (ETypeInst e t) = true -> dialect_safe d e = true.
Proof. rewrite !ds_split. cbn [concat_safe mod_safe]. tauto. Qed.

Lemma ds_if_nil els : dialect_safe d (EIf [] els) = true -> dialect_safe d els = true.
Proof. rewrite !ds_split. cbn [concat_safe mod_safe forallb]. tauto. Qed.
Lemma ds_if_cons c r bs els : dialect_safe d (EIf (EBranch c r :: bs) els) = true ->
  dialect_safe d c = true /\ dialect_safe d r = true /\ dialect_safe d (EIf bs els) = true.
Proof.
  rewrite !ds_split. cbn [concat_safe mod_safe forallb]. rewrite !andb_true_iff. intros [[[[A B] C] D] E].
  tauto.
Qed.

Lemma ds_interp_str x segs : dialect_safe d (EInterp (ISStr x :: segs)) = true ->
  dialect_safe d (EInterp segs) = true.
Proof. rewrite !ds_split. cbn [concat_safe mod_safe forallb]. rewrite !andb_true_iff. tauto. Qed.
Lemma ds_interp_expr e segs : dialect_safe d (EInterp (ISExpr e :: segs)) = true ->
  dialect_safe d e = true /\ dialect_safe d (EInterp segs) = true.
Proof.
  rewrite !ds_split. cbn [concat_safe mod_safe forallb]. rewrite !andb_true_iff. intros [[A B] C].
  tauto.
Qed.

End Safe.

(** * Values of the operators on statically known operands *)

Section Inv.
Variable d : dialect.

(** the agreement of the two string->number coercions is [EvaluatorCoercion.coercion_agrees] *)

Lemma num_coerce_ok s0 s la a x y :
  lv_ok s0 s la a -> number_coercion la = LNumber x -> tonum a = Some y -> x = y /\ valid x.
Proof.
  intros H E T. destruct la; try discriminate E.
  - cbn in E. injection E as <-. destruct a; try contradiction. cbn in H, T.
    destruct H as [-> Hv]. injection T as <-. auto.
  - destruct a; try contradiction. cbn in H. subst s1. cbn in T.
    destruct (coercion_agrees _ _ _ T E) as [-> Hv]. auto.
Qed.

Lemma math_arith op x y z : valid x -> valid y ->
  (op = BMod -> d = Luau -> same_f64 (fmod_51 x y) (fmod_luau x y) = true) ->
  arith_num d op x y = Some z ->
  match math_op op x y with Some z' => z' = z /\ valid z | None => True end.
Proof.
  intros Hx Hy Hm. destruct op; cbn [arith_num math_op]; try discriminate;
    try (intros E; injection E as <-; split; [reflexivity|]).
  - now apply valid_fadd.
  - now apply valid_fsub.
  - now apply valid_fmul.
  - now apply valid_fdiv.
  - apply valid_ffloor. now apply valid_fdiv.
  - intros E; injection E as <-. rewrite (fmul_comm y). fold (fmod_51 x y).
    destruct d.
    + split; [reflexivity|]. now apply valid_fmod_51.
    + split; [|now apply valid_fmod_luau].
      apply to_bits_inj; auto using valid_fmod_51, valid_fmod_luau.
  - intros E. rewrite E. split; [reflexivity|]. exact (valid_fpow _ _ _ Hx Hy E).
Qed.

Lemma eq_ok s0 s1 s2 la lb a b :
  lv_ok s0 s1 la a -> lv_ok s1 s2 lb b -> la <> LUnknown -> lb <> LUnknown ->
  evaluate_equal la lb = lv_of_bool (raw_equal a b).
Proof.
  intros Ha Hb Ka Kb.
  destruct la; try congruence; destruct a; cbn in Ha; try contradiction;
  destruct lb; try congruence; destruct b; cbn in Hb; try contradiction;
  repeat match goal with
         | H : match ?c with true => _ | false => _ end |- _ => destruct c; try contradiction
         end; cbn; try reflexivity.
  - (* closures *) assert (a <> a0) by (intros ->; lia).
    apply N.eqb_neq in H. rewrite H. reflexivity.
  - destruct Ha as [-> _], Hb as [-> _]. reflexivity.
  - subst. reflexivity.
  - (* tables *) destruct Ha as [_ (t & Ht & _)]. apply nth_N_lt in Ht. destruct Hb as [Hb _].
    assert (a <> a0) by (intros ->; lia).
    apply N.eqb_neq in H. rewrite H. reflexivity.
Qed.

Lemma arith_ok n op la lb a b s0 s2 r s3 :
  lv_ok s0 s2 la a -> lv_ok s0 s2 lb b -> plain s2 a -> plain s2 b -> strmeta_plain s2 ->
  (op = BMod -> d = Luau -> forall x y, number_coercion la = LNumber x -> number_coercion lb = LNumber y ->
                                        same_f64 (fmod_51 x y) (fmod_luau x y) = true) ->
  arith d n op a b s2 = Ok r s3 ->
  s3 = s2 /\
  lv_ok s0 s2 (match number_coercion la with
               | LNumber x =>
                 match number_coercion lb with
                 | LNumber y => match math_op op x y with Some z => LNumber z | None => LUnknown end
                 | _ => LUnknown
                 end
               | _ => LUnknown
               end) r.
Proof.
  intros Ha Hb Pa Pb Hs Hm H.
  apply arith_plain in H as [-> (x & y & z & Tx & Ty & Ez & ->)]; auto. split; [reflexivity|].
  destruct (number_coercion la) as [| | |x'| | | |] eqn:Ea; try exact I.
  destruct (number_coercion lb) as [| | |y'| | | |] eqn:Eb; try exact I.
  destruct (num_coerce_ok _ _ _ _ _ _ Ha Ea Tx) as [-> Vx].
  destruct (num_coerce_ok _ _ _ _ _ _ Hb Eb Ty) as [-> Vy].
  assert (op = BMod -> d = Luau -> same_f64 (fmod_51 x y) (fmod_luau x y) = true) as Hm'.
  { intros E1 E2. apply Hm; auto. }
  pose proof (math_arith op x y z Vx Vy Hm' Ez) as M.
  destruct (math_op op x y) as [z'|]; [|exact I]. destruct M as [-> Vz]. cbn. auto.
Qed.

Lemma str_coerce_ok s0 s la a x :
  lv_ok s0 s la a -> cstr d a = Some x -> concat_operand_safe d la = true ->
  match string_coercion la with LString x' => x' = x | _ => True end.
Proof.
  intros H C S. destruct la; cbn [string_coercion]; try exact I.
  - destruct a; try contradiction. cbn in H. destruct H as [-> _]. cbn in C. injection C as <-.
    destruct (plain_decimal_range _); [|exact I]. cbn in S. now apply bytes_eqb_eq in S.
  - destruct a; try contradiction. cbn in H. subst. cbn in C. now injection C.
Qed.

Lemma binop_ok n op la lb a b s0 s1 s2 vs s3 :
  is_andor op = false ->
  lv_ok s0 s1 la a -> lv_ok s1 s2 lb b -> la <> LUnknown -> lb <> LUnknown ->
  store_extends s0 s1 -> store_extends s1 s2 -> strmeta_plain s2 ->
  op_safe d op la lb ->
  binop_sem d n op a b s2 = Ok vs s3 ->
  s3 = s2 /\ lv_ok s0 s2 (lv_binop op la lb) (first vs).
Proof.
  intros Hop Ha Hb Ka Kb E01 E12 Hs [Hcat Hmod] H.
  assert (lv_ok s0 s2 la a) as Ha2 by (eapply lv_ok_mono; [apply store_extends_refl|exact E12|exact Ha]).
  assert (lv_ok s0 s2 lb b) as Hb2 by (eapply lv_ok_mono; [exact E01|apply store_extends_refl|exact Hb]).
  pose proof (lv_ok_plain _ _ _ _ Ha2 Ka) as Pa. pose proof (lv_ok_plain _ _ _ _ Hb2 Kb) as Pb.
  assert (forall c s, lv_ok s0 s (lv_of_bool c) (VBool c)) as Hbool by (intros; apply lv_ok_bool).
  destruct op; try discriminate Hop; cbn [binop_sem lv_binop] in *.
  - (* == *) inv_ok H. subst. apply equal_plain in H0 as [-> ->]; auto. split; auto.
    rewrite (eq_ok _ _ _ _ _ _ _ Ha Hb Ka Kb). apply Hbool.
  - (* ~= *) inv_ok H. subst. apply equal_plain in H0 as [-> ->]; auto. split; auto.
    rewrite (eq_ok _ _ _ _ _ _ _ Ha Hb Ka Kb). destruct (raw_equal a b); exact I.
  - (* < *) inv_ok H. subst. apply less_plain in H0 as [-> [(x & y & -> & -> & ->)|(x & y & -> & -> & ->)]]; auto;
      (split; [reflexivity|]);
      destruct la; cbn in Ha2; try contradiction; destruct lb; cbn in Hb2; try contradiction.
    + destruct Ha2 as [-> _], Hb2 as [-> _]. apply Hbool.
    + subst. apply Hbool.
  - (* <= *) inv_ok H. subst. apply less_plain in H0 as [-> [(x & y & -> & -> & ->)|(x & y & -> & -> & ->)]]; auto;
      (split; [reflexivity|]);
      destruct la; cbn in Ha2; try contradiction; destruct lb; cbn in Hb2; try contradiction.
    + destruct Ha2 as [-> _], Hb2 as [-> _]. apply Hbool.
    + subst. apply Hbool.
  - (* > *) inv_ok H. subst. apply less_plain in H0 as [-> [(x & y & -> & -> & ->)|(x & y & -> & -> & ->)]]; auto;
      (split; [reflexivity|]);
      destruct la; cbn in Ha2; try contradiction; destruct lb; cbn in Hb2; try contradiction.
    + destruct Ha2 as [-> _], Hb2 as [-> _]. apply Hbool.
    + subst. apply Hbool.
  - (* >= *) inv_ok H. subst. apply less_plain in H0 as [-> [(x & y & -> & -> & ->)|(x & y & -> & -> & ->)]]; auto;
      (split; [reflexivity|]);
      destruct la; cbn in Ha2; try contradiction; destruct lb; cbn in Hb2; try contradiction.
    + destruct Ha2 as [-> _], Hb2 as [-> _]. apply Hbool.
    + subst. apply Hbool.
  - (* + *) inv_ok H. subst. eapply arith_ok in H0 as [-> H0]; eauto.
  - inv_ok H. subst. eapply arith_ok in H0 as [-> H0]; eauto.
  - inv_ok H. subst. eapply arith_ok in H0 as [-> H0]; eauto.
  - inv_ok H. subst. eapply arith_ok in H0 as [-> H0]; eauto.
  - inv_ok H. subst. eapply arith_ok in H0 as [-> H0]; eauto.
  - (* % *) inv_ok H. subst. eapply arith_ok in H0 as [-> H0]; eauto.
  - inv_ok H. subst. eapply arith_ok in H0 as [-> H0]; eauto.
  - (* .. *) inv_ok H. subst. apply concat_plain in H0 as [-> (x & y & Cx & Cy & ->)]; auto.
    split; [reflexivity|]. destruct (Hcat eq_refl) as [Sa Sb].
    pose proof (str_coerce_ok _ _ _ _ _ Ha2 Cx Sa) as Xa. pose proof (str_coerce_ok _ _ _ _ _ Hb2 Cy Sb) as Xb.
    destruct (string_coercion la); try exact I. destruct (string_coercion lb); try exact I.
    subst. reflexivity.
Qed.


(** unary operators *)
Definition lv_unop (op : unop) (a : lv) : lv :=
  match op with
  | UNot => match is_truthy a with Some b => lv_of_bool (negb b) | None => LUnknown end
  | UMinus => match number_coercion a with LNumber x => LNumber (fneg x) | _ => LUnknown end
  | ULen => lv_length a
  end.

Lemma evaluate_unop op e : evaluate (EUnary op e) = lv_unop op (evaluate e).
Proof. destruct op; reflexivity. Qed.

Definition unop_sem (n : nat) (op : unop) (v : value) : M (list value) :=
  match op with
  | UNot => ret [VBool (negb (truthy v))]
  | UMinus =>
    match tonum v with
    | Some x => ret [VNum (fneg x)]
    | None =>
      h <- metamethod v "__unm" ;;
      match h with
      | VNil => fail 18
      | _ => vs <- call d n h [v; v] ;; ret [first vs]
      end
    end
  | ULen => r <- length d n v ;; ret [r]
  end.

Lemma eval_S_unary' n rho va op e :
  eval d (S n) rho va (EUnary op e) = (v <- eval1 d n rho va e ;; unop_sem n op v).
Proof. reflexivity. Qed.

Lemma unop_ok n op la a s0 s vs s' :
  lv_ok s0 s la a -> (op <> UNot -> la <> LUnknown) -> strmeta_plain s ->
  unop_sem n op a s = Ok vs s' ->
  s' = s /\ lv_ok s0 s (lv_unop op la) (first vs).
Proof.
  intros Ha Ka Hs H. destruct op; cbn [unop_sem lv_unop] in *.
  - inv_ok H. subst. split; [reflexivity|]. cbn [first].
    destruct (is_truthy la) as [b|] eqn:E; [|exact I].
    rewrite (lv_ok_truthy _ _ _ _ _ Ha E). apply lv_ok_bool.
  - assert (la <> LUnknown) as K by (apply Ka; discriminate).
    pose proof (lv_ok_plain _ _ _ _ Ha K) as Pa.
    destruct (tonum a) as [x|] eqn:T.
    + inv_ok H. subst. split; [reflexivity|]. cbn [first].
      destruct (number_coercion la) as [| | |x'| | | |] eqn:E; try exact I.
      destruct (num_coerce_ok _ _ _ _ _ _ Ha E T) as [-> V]. cbn. split; [reflexivity|]. now apply valid_fneg.
    + exfalso. unfold bind in H. rewrite metamethod_plain in H by (assumption || reflexivity). discriminate.
  - assert (la <> LUnknown) as K by (apply Ka; discriminate).
    pose proof (lv_ok_plain _ _ _ _ Ha K) as Pa.
    inv_ok H. subst. apply length_plain in H0 as [-> [(x & -> & ->)|(t & ->)]]; auto; (split; [reflexivity|]); cbn [first].
    + destruct la; cbn in Ha; try contradiction. subst. cbn. split; [reflexivity|]. apply valid_of_Z.
    + destruct la; cbn in Ha; try contradiction; exact I.
Qed.

(** * Hypotheses of the two theorems, and how they decompose along evaluation *)

Definition HypP (e : expr) : Prop :=
  dialect_safe d e = true /\ tables_safe d e = true /\ has_side_effects false e = false.
Definition HypK (e : expr) : Prop :=
  dialect_safe d e = true /\ ctor_pure d e = true /\ evaluate e <> LUnknown.
Definition Hyp (m : bool) (e : expr) : Prop := if m then HypK e else HypP e.

Lemma evaluate_and l r :
  evaluate (EBinary BAnd l r) =
  match is_truthy (evaluate l) with Some true => evaluate r | Some false => evaluate l | None => LUnknown end.
Proof. reflexivity. Qed.
Lemma evaluate_or l r :
  evaluate (EBinary BOr l r) =
  match is_truthy (evaluate l) with Some true => evaluate l | Some false => evaluate r | None => LUnknown end.
Proof. reflexivity. Qed.

Lemma is_truthy_unknown v : is_truthy v = None <-> v = LUnknown.
Proof. destruct v; cbn; split; congruence. Qed.

Lemma D_and m l r : Hyp m (EBinary BAnd l r) ->
  Hyp m l /\ (is_truthy (evaluate l) <> Some false -> Hyp m r).
Proof.
  destruct m; cbn [Hyp].
  - intros (Hd & Hc & He). apply ds_binary in Hd as (Dl & Dr & _).
    cbn [ctor_pure] in Hc. apply andb_true_iff in Hc as [Cl Cr].
    rewrite evaluate_and in He.
    split.
    + split; [exact Dl|split; [exact Cl|]]. intros E. rewrite E in He. now apply He.
    + intros Hf. split; [exact Dr|split; [exact Cr|]].
      destruct (is_truthy (evaluate l)) as [[|]|]; congruence.
  - intros (Hd & Ht & Hs). apply ds_binary in Hd as (Dl & Dr & _).
    cbn [tables_safe] in Ht. apply andb_true_iff in Ht as [Tl Tr].
    cbn [has_side_effects] in Hs.
    split.
    + split; [exact Dl|split; [exact Tl|]].
      destruct (match is_truthy (evaluate l) with Some b => b | None => true end); [|exact Hs].
      now apply orb_false_iff in Hs.
    + intros Hf. split; [exact Dr|split; [exact Tr|]].
      destruct (is_truthy (evaluate l)) as [[|]|]; try congruence; now apply orb_false_iff in Hs.
Qed.

Lemma D_or m l r : Hyp m (EBinary BOr l r) ->
  Hyp m l /\ (is_truthy (evaluate l) <> Some true -> Hyp m r).
Proof.
  destruct m; cbn [Hyp].
  - intros (Hd & Hc & He). apply ds_binary in Hd as (Dl & Dr & _).
    cbn [ctor_pure] in Hc. apply andb_true_iff in Hc as [Cl Cr].
    rewrite evaluate_or in He.
    split.
    + split; [exact Dl|split; [exact Cl|]]. intros E. rewrite E in He. now apply He.
    + intros Hf. split; [exact Dr|split; [exact Cr|]].
      destruct (is_truthy (evaluate l)) as [[|]|]; congruence.
  - intros (Hd & Ht & Hs). apply ds_binary in Hd as (Dl & Dr & _).
    cbn [tables_safe] in Ht. apply andb_true_iff in Ht as [Tl Tr].
    cbn [has_side_effects] in Hs.
    split.
    + split; [exact Dl|split; [exact Tl|]].
      destruct (match is_truthy (evaluate l) with Some b => b | None => false end); [exact Hs|].
      now apply orb_false_iff in Hs.
    + intros Hf. split; [exact Dr|split; [exact Tr|]].
      destruct (is_truthy (evaluate l)) as [[|]|]; try congruence; now apply orb_false_iff in Hs.
Qed.

Lemma maybe_metatable_false v : maybe_metatable v = false -> v <> LUnknown.
Proof. destruct v; cbn; congruence. Qed.

Lemma D_binop m op l r : is_andor op = false -> Hyp m (EBinary op l r) ->
  Hyp m l /\ Hyp m r /\ evaluate l <> LUnknown /\ evaluate r <> LUnknown /\
  op_safe d op (evaluate l) (evaluate r).
Proof.
  intros Hop. destruct m; cbn [Hyp].
  - intros (Hd & Hc & He). apply ds_binary in Hd as (Dl & Dr & Ho).
    cbn [ctor_pure] in Hc. apply andb_true_iff in Hc as [Cl Cr].
    rewrite (evaluate_binop _ _ _ Hop) in He. apply lv_binop_known in He as [Kl Kr].
    unfold HypK. tauto.
  - intros (Hd & Ht & Hs). apply ds_binary in Hd as (Dl & Dr & Ho).
    cbn [tables_safe] in Ht. apply andb_true_iff in Ht as [Tl Tr].
    assert (maybe_metatable (evaluate l) || maybe_metatable (evaluate r)
            || has_side_effects false l || has_side_effects false r = false) as Hs'.
    { destruct op; try discriminate Hop; exact Hs. }
    apply orb_false_iff in Hs' as [Hs' S4]. apply orb_false_iff in Hs' as [Hs' S3].
    apply orb_false_iff in Hs' as [S1 S2].
    apply maybe_metatable_false in S1, S2. unfold HypP. tauto.
Qed.

Lemma D_unop m op e : Hyp m (EUnary op e) ->
  Hyp m e /\ (op <> UNot -> evaluate e <> LUnknown).
Proof.
  destruct m; cbn [Hyp].
  - intros (Hd & Hc & He). apply ds_unary in Hd. cbn [ctor_pure] in Hc.
    rewrite evaluate_unop in He.
    assert (evaluate e <> LUnknown) as K.
    { intros E. rewrite E in He. destruct op; now apply He. }
    unfold HypK. tauto.
  - intros (Hd & Ht & Hs). apply ds_unary in Hd. cbn [tables_safe] in Ht.
    cbn [has_side_effects] in Hs. destruct op; cbn in Hs.
    + unfold HypP. split; [tauto|]. congruence.
    + apply orb_false_iff in Hs as [S1 S2]. apply maybe_metatable_false in S1. unfold HypP. tauto.
    + apply orb_false_iff in Hs as [S1 S2]. apply maybe_metatable_false in S1. unfold HypP. tauto.
Qed.

Lemma D_paren m e : Hyp m (EParen e) -> Hyp m e.
Proof.
  destruct m; cbn [Hyp]; intros (Hd & Hc & He); apply ds_paren in Hd; split; auto.
Qed.
Lemma D_typecast m e t : Hyp m (ETypeCast e t) -> Hyp m e.
Proof.
  destruct m; cbn [Hyp]; intros (Hd & Hc & He); apply ds_typecast in Hd; split; auto.
Qed.

Lemma typeinst_lv p t : evaluate (ETypeInst p t) = evaluate p \/ evaluate (ETypeInst p t) = LUnknown.
Proof. destruct p; auto. Qed.

Lemma D_typeinst m p t : Hyp m (ETypeInst p t) -> Hyp m p.
Proof.
  destruct m; cbn [Hyp]; intros (Hd & Hc & He); apply ds_typeinst in Hd; split; auto.
  split; [exact Hc|]. destruct (typeinst_lv p t) as [E|E]; congruence.
Qed.

Lemma D_bad_field m p f : Hyp m (EField p f) -> False.
Proof. destruct m; cbn [Hyp]; intros (_ & _ & H); [now apply H|discriminate H]. Qed.
Lemma D_bad_index m p k : Hyp m (EIndex p k) -> False.
Proof. destruct m; cbn [Hyp]; intros (_ & _ & H); [now apply H|discriminate H]. Qed.
Lemma D_bad_call m p mm a : Hyp m (ECall p mm a) -> False.
Proof. destruct m; cbn [Hyp]; intros (_ & _ & H); [now apply H|discriminate H]. Qed.


(** if-expressions *)
Lemma evaluate_if_nil els : evaluate (EIf [] els) = evaluate els.
Proof. reflexivity. Qed.
Lemma evaluate_if_cons c r rest els :
  evaluate (EIf (EBranch c r :: rest) els) =
  match is_truthy (evaluate c) with
  | Some true => evaluate r
  | Some false => evaluate (EIf rest els)
  | None => LUnknown
  end.
Proof. reflexivity. Qed.

Fixpoint if_hyp (m : bool) (bs : list ebranch) (els : expr) : Prop :=
  match bs with
  | [] => Hyp m els
  | EBranch c r :: rest =>
    Hyp m c /\
    match is_truthy (evaluate c) with
    | Some true => Hyp m r
    | Some false => if_hyp m rest els
    | None => Hyp m r /\ if_hyp m rest els
    end
  end.

Definition hse_go1 (els : expr) :=
  fix go (bs : list ebranch) : bool :=
    match bs with
    | [] => has_side_effects false els
    | EBranch c' r' :: rest' =>
      if has_side_effects false c' then true
      else match is_truthy (evaluate c') with
           | Some true => has_side_effects false r'
           | Some false => go rest'
           | None => if has_side_effects false r' then true else go rest'
           end
    end.
Definition hse_go2 (els : expr) :=
  fix go (bs : list ebranch) : bool :=
    match bs with
    | [] => has_side_effects false els
    | EBranch c' r' :: rest' =>
      if has_side_effects false c' || has_side_effects false r' then true else go rest'
    end.

Lemma hse_if_nil els : has_side_effects false (EIf [] els) = has_side_effects false els.
Proof. reflexivity. Qed.
Lemma hse_if_cons c r rest els :
  has_side_effects false (EIf (EBranch c r :: rest) els) =
  if has_side_effects false c then true
  else match is_truthy (evaluate c) with
       | Some true => has_side_effects false r
       | Some false => hse_go1 els rest
       | None => if has_side_effects false r then true else hse_go2 els rest
       end.
Proof. reflexivity. Qed.

Lemma ts_if_cons c r bs els : tables_safe d (EIf (EBranch c r :: bs) els) = true ->
  tables_safe d c = true /\ tables_safe d r = true /\ tables_safe d (EIf bs els) = true.
Proof. cbn [tables_safe forallb]. rewrite !andb_true_iff. tauto. Qed.
Lemma cp_if_cons c r bs els : ctor_pure d (EIf (EBranch c r :: bs) els) = true ->
  ctor_pure d c = true /\ ctor_pure d r = true /\ ctor_pure d (EIf bs els) = true.
Proof. cbn [ctor_pure forallb]. rewrite !andb_true_iff. tauto. Qed.

Lemma go1_hyp els : forall bs,
  dialect_safe d (EIf bs els) = true -> tables_safe d (EIf bs els) = true ->
  hse_go1 els bs = false -> if_hyp false bs els.
Proof.
  induction bs as [|[c r] bs IH]; intros Hd Ht Hs.
  - cbn [if_hyp Hyp]. apply ds_if_nil in Hd. cbn in Ht. cbn in Hs. unfold HypP. auto.
  - apply ds_if_cons in Hd as (Dc & Dr & Db). apply ts_if_cons in Ht as (Tc & Tr & Tb).
    cbn [hse_go1] in Hs. fold (hse_go1 els) in Hs.
    destruct (has_side_effects false c) eqn:Sc; [discriminate|].
    cbn [if_hyp Hyp]. split; [unfold HypP; auto|].
    destruct (is_truthy (evaluate c)) as [[|]|].
    + unfold HypP; auto.
    + auto.
    + destruct (has_side_effects false r) eqn:Sr; [discriminate|]. split; [unfold HypP; auto|auto].
Qed.

Lemma go2_hyp els : forall bs,
  dialect_safe d (EIf bs els) = true -> tables_safe d (EIf bs els) = true ->
  hse_go2 els bs = false -> if_hyp false bs els.
Proof.
  induction bs as [|[c r] bs IH]; intros Hd Ht Hs.
  - cbn [if_hyp Hyp]. apply ds_if_nil in Hd. cbn in Ht. cbn in Hs. unfold HypP. auto.
  - apply ds_if_cons in Hd as (Dc & Dr & Db). apply ts_if_cons in Ht as (Tc & Tr & Tb).
    cbn [hse_go2] in Hs. fold (hse_go2 els) in Hs.
    destruct (has_side_effects false c) eqn:Sc; [discriminate|].
    destruct (has_side_effects false r) eqn:Sr; [discriminate|]. cbn [orb] in Hs.
    cbn [if_hyp Hyp]. split; [unfold HypP; auto|].
    destruct (is_truthy (evaluate c)) as [[|]|].
    + unfold HypP; auto.
    + auto.
    + split; [unfold HypP; auto|auto].
Qed.

Lemma D_if m : forall bs els, Hyp m (EIf bs els) -> if_hyp m bs els.
Proof.
  destruct m; cbn [Hyp].
  - induction bs as [|[c r] bs IH]; intros els (Hd & Hc & He).
    + cbn [if_hyp Hyp]. apply ds_if_nil in Hd. cbn in Hc. rewrite evaluate_if_nil in He. unfold HypK. auto.
    + apply ds_if_cons in Hd as (Dc & Dr & Db). apply cp_if_cons in Hc as (Cc & Cr & Cb).
      rewrite evaluate_if_cons in He. cbn [if_hyp Hyp].
      assert (evaluate c <> LUnknown) as Kc.
      { intros E. rewrite E in He. now apply He. }
      split; [unfold HypK; auto|].
      destruct (is_truthy (evaluate c)) as [[|]|].
      * unfold HypK; auto.
      * apply IH. unfold HypK; auto.
      * exfalso. now apply He.
  - intros [|[c r] bs] els (Hd & Ht & Hs).
    + cbn [if_hyp Hyp]. apply ds_if_nil in Hd. cbn in Ht. rewrite hse_if_nil in Hs. unfold HypP. auto.
    + rewrite hse_if_cons in Hs.
      pose proof Hd as Hd'. pose proof Ht as Ht'.
      apply ds_if_cons in Hd' as (Dc & Dr & Db). apply ts_if_cons in Ht' as (Tc & Tr & Tb).
      destruct (has_side_effects false c) eqn:Sc; [discriminate|].
      cbn [if_hyp Hyp]. split; [unfold HypP; auto|].
      destruct (is_truthy (evaluate c)) as [[|]|].
      * unfold HypP; auto.
      * apply go1_hyp; auto.
      * destruct (has_side_effects false r) eqn:Sr; [discriminate|]. split; [unfold HypP; auto|].
        apply go2_hyp; auto.
Qed.

(** interpolated strings *)
Definition lv_interp_go :=
  fix go (ss : list iseg) (acc : bytes) : lv :=
    match ss with
    | [] => LString acc
    | ISStr s :: rest => go rest (acc ++ s)
    | ISExpr e' :: rest =>
      match evaluate e' with
      | LFalse => go rest (acc ++ of_string "false")
      | LTrue => go rest (acc ++ of_string "true")
      | LNil => go rest (acc ++ of_string "nil")
      | LString s => go rest (acc ++ s)
      | _ => LUnknown
      end
    end.

Lemma evaluate_interp segs : evaluate (EInterp segs) = lv_interp_go segs [].
Proof. reflexivity. Qed.

Definition seg_hyp (m : bool) (sg : iseg) : Prop :=
  match sg with
  | ISExpr e' => Hyp m e' /\ evaluate e' <> LUnknown
  | ISStr _ => True
  end.

Lemma D_interp m segs : Hyp m (EInterp segs) -> Forall (seg_hyp m) segs.
Proof.
  destruct m; cbn [Hyp].
  - intros (Hd & Hc & He). rewrite evaluate_interp in He. revert Hd Hc He. generalize (@nil N).
    induction segs as [|[x|e] segs IH]; intros acc Hd Hc He.
    + constructor.
    + constructor; [exact I|]. apply ds_interp_str in Hd. cbn [ctor_pure forallb] in Hc.
      cbn [lv_interp_go] in He. eapply IH; eauto.
    + apply ds_interp_expr in Hd as [De Ds]. cbn [ctor_pure forallb] in Hc.
      apply andb_true_iff in Hc as [Ce Cs]. cbn [lv_interp_go] in He. fold lv_interp_go in He.
      assert (evaluate e <> LUnknown) as K.
      { intros E. rewrite E in He. now apply He. }
      constructor; [cbn; unfold HypK; auto|].
      destruct (evaluate e); try (exfalso; now apply He); eapply IH; eauto.
  - intros (Hd & Ht & Hs). revert Hd Ht Hs.
    induction segs as [|[x|e] segs IH]; intros Hd Ht Hs.
    + constructor.
    + constructor; [exact I|]. apply ds_interp_str in Hd. cbn [tables_safe forallb] in Ht.
      cbn [has_side_effects existsb orb] in Hs. apply IH; auto.
    + apply ds_interp_expr in Hd as [De Ds]. cbn [tables_safe forallb] in Ht.
      apply andb_true_iff in Ht as [Te Ts]. cbn [has_side_effects existsb] in Hs.
      apply orb_false_iff in Hs as [S1 S2]. apply orb_false_iff in S1 as [S1 S3]. cbn in S3.
      apply maybe_metatable_false in S3.
      constructor; [cbn; unfold HypP; auto|]. apply IH; auto.
Qed.

(** table constructors *)
Definition entry_hyp (en : tentry) : Prop :=
  match en with
  | TField _ v => HypP v
  | TIndex k v => HypP k /\ HypP v
  | TValue v => HypP v
  end.

Lemma D_table_K es : HypK (ETable es) -> HypP (ETable es).
Proof.
  intros (Hd & Hc & _). cbn [ctor_pure] in Hc. apply andb_true_iff in Hc as [Hs Hdp].
  unfold deep_safe in Hdp. apply andb_true_iff in Hdp as [D1 D2].
  apply negb_true_iff in Hs. unfold HypP. auto.
Qed.

Lemma D_table es : HypP (ETable es) -> Forall entry_hyp es.
Proof.
  intros (_ & Ht & Hs). revert Ht Hs. induction es as [|en es IH]; intros Ht Hs; [constructor|].
  cbn [tables_safe forallb] in Ht. apply andb_true_iff in Ht as [T1 T2].
  cbn [has_side_effects existsb] in Hs. apply orb_false_iff in Hs as [S1 S2].
  constructor; [|apply IH; auto].
  destruct en as [f v|k v|v]; cbn [entry_hyp]; unfold HypP.
  - apply andb_true_iff in T1. tauto.
  - rewrite !andb_true_iff in T1. apply orb_false_iff in S1. tauto.
  - apply andb_true_iff in T1. tauto.
Qed.


(** * The induction on fuel *)

Definition Main (n : nat) : Prop := forall m e rho va s vs s', Hyp m e -> env_plain s ->
  eval d n rho va e s = Ok vs s' -> store_extends s s' /\ lv_ok s s' (evaluate e) (first vs).
Definition Main1 (n : nat) : Prop := forall m e rho va s v s', Hyp m e -> env_plain s ->
  eval1 d n rho va e s = Ok v s' -> store_extends s s' /\ lv_ok s s' (evaluate e) v.
Definition Fill (n : nat) : Prop := forall es rho va a pos s0 s u s',
  Forall entry_hyp es -> env_plain s0 -> store_extends s0 s ->
  (llen (tables s0) <= N.to_nat a)%nat -> plain_tab s a ->
  fill_table d n rho va a es pos s = Ok u s' -> store_extends s0 s' /\ plain_tab s' a.

Tactic Notation "binv" hyp(H) "as" ident(v) ident(s1) ident(Hv) :=
  apply bind_ok in H; destruct H as (v & s1 & Hv & H); cbv beta in H.
Ltac rinv H := apply ret_ok in H; destruct H as [? ?]; subst.

Lemma main1_step n : Main n -> Main1 (S n).
Proof.
  intros IH m e rho va s v s' Hh He H. rewrite eval1_S in H. binv H as vs s1 Hv. rinv H.
  eapply IH; eauto.
Qed.

Lemma fill_step n : Main n -> Main1 n -> Fill n -> Fill (S n).
Proof.
  intros IHm IH1 IHf es rho va a pos s0 s u s' Hes He0 Hext Hlen Hp H.
  assert (forall e v s s1, HypP e -> store_extends s0 s -> plain_tab s a ->
          eval1 d n rho va e s = Ok v s1 -> store_extends s0 s1 /\ plain_tab s1 a) as Hev.
  { intros e v t t1 Hh Ht Hpt Hv.
    destruct (IH1 false e rho va t v t1 Hh (env_plain_extends _ _ Ht He0) Hv) as [E _].
    split; [eapply store_extends_trans; eauto|eapply plain_tab_extends; eauto]. }
  destruct es as [|[f e|k e|e] rest].
  - rewrite fill_S_nil in H. rinv H. auto.
  - rewrite fill_S_field in H. binv H as v s1 Hv. binv H as u1 s2 Hput. destruct u1.
    inversion Hes as [|? ? Hen Hrest]; subst. cbn in Hen.
    destruct (Hev _ _ _ _ Hen Hext Hp Hv) as [E1 P1].
    destruct (put_ok _ _ _ _ _ _ Hput E1 Hlen P1) as (E2 & P2 & _).
    eapply IHf; eauto.
  - rewrite fill_S_index in H. binv H as kv s1 Hkv. binv H as v s2 Hv. binv H as u1 s3 Hput. destruct u1.
    inversion Hes as [|? ? Hen Hrest]; subst. cbn in Hen. destruct Hen as [Hk Hvv].
    destruct (Hev _ _ _ _ Hk Hext Hp Hkv) as [E1 P1].
    destruct (Hev _ _ _ _ Hvv E1 P1 Hv) as [E2 P2].
    destruct (put_ok _ _ _ _ _ _ Hput E2 Hlen P2) as (E3 & P3 & _).
    eapply IHf; eauto.
  - inversion Hes as [|? ? Hen Hrest]; subst. cbn in Hen. destruct rest as [|x rest].
    + rewrite fill_S_last in H. binv H as vs s1 Hv.
      destruct (IHm false e rho va s vs s1 Hen (env_plain_extends _ _ Hext He0) Hv) as [E _].
      assert (store_extends s0 s1) as E1 by (eapply store_extends_trans; eauto).
      assert (plain_tab s1 a) as P1 by exact (plain_tab_extends _ _ _ E Hp).
      destruct (fill_go_ok _ _ _ _ _ _ _ H E1 Hlen P1) as (E2 & P2 & _). auto.
    + rewrite fill_S_value in H. binv H as v s1 Hv. binv H as u1 s2 Hput. destruct u1.
      destruct (Hev _ _ _ _ Hen Hext Hp Hv) as [E1 P1].
      destruct (put_pos_ok _ _ _ _ _ _ Hput E1 Hlen P1) as (E2 & P2 & _).
      eapply IHf; eauto.
Qed.

Lemma compute_number_value x : compute_value x = number_value x /\ valid (compute_value x).
Proof.
  destruct x as [bits ex|i u [[e eu]|]|i u]; cbn [compute_value number_value].
  - split; [reflexivity|apply valid_of_bits].
  - split; [|apply valid_of_N]. f_equal. rewrite N.mul_mod_idemp_r; [reflexivity|discriminate].
  - split; [reflexivity|apply valid_of_N].
  - split; [reflexivity|apply valid_of_N].
Qed.

Lemma if_ok n m rho va els : Main1 n -> forall bs s vs s',
  if_hyp m bs els -> env_plain s -> if_go d n rho va els bs s = Ok vs s' ->
  store_extends s s' /\ lv_ok s s' (evaluate (EIf bs els)) (first vs).
Proof.
  intros IH1. induction bs as [|[c r] bs IH]; intros s vs s' Hh He H.
  - rewrite if_go_nil in H. binv H as v s1 Hv. rinv H. rewrite evaluate_if_nil. cbn [first].
    eapply IH1; eauto.
  - rewrite if_go_cons in H. binv H as cv s1 Hcv. cbn [if_hyp] in Hh. destruct Hh as [Hc Hrest].
    destruct (IH1 m c rho va s cv s1 Hc He Hcv) as [E1 L1].
    pose proof (env_plain_extends _ _ E1 He) as He1.
    rewrite evaluate_if_cons.
    destruct (is_truthy (evaluate c)) as [[|]|] eqn:Et.
    + rewrite (lv_ok_truthy _ _ _ _ _ L1 Et) in H. binv H as v s2 Hv. rinv H. cbn [first].
      destruct (IH1 m r rho va s1 v _ Hrest He1 Hv) as [E2 L2].
      split; [eapply store_extends_trans; eauto|].
      eapply lv_ok_mono; [exact E1|apply store_extends_refl|exact L2].
    + rewrite (lv_ok_truthy _ _ _ _ _ L1 Et) in H.
      destruct (IH _ _ _ Hrest He1 H) as [E2 L2].
      split; [eapply store_extends_trans; eauto|].
      eapply lv_ok_mono; [exact E1|apply store_extends_refl|exact L2].
    + destruct Hrest as [Hr Hrest]. split; [|exact I]. destruct (truthy cv).
      * binv H as v s2 Hv. rinv H. destruct (IH1 m r rho va s1 v _ Hr He1 Hv) as [E2 _].
        eapply store_extends_trans; eauto.
      * destruct (IH _ _ _ Hrest He1 H) as [E2 _]. eapply store_extends_trans; eauto.
Qed.

Lemma interp_ok n m rho va : Main1 n -> forall segs acc s vs s',
  Forall (seg_hyp m) segs -> env_plain s -> interp_go d n rho va segs acc s = Ok vs s' ->
  store_extends s s' /\ lv_ok s s' (lv_interp_go segs acc) (first vs).
Proof.
  intros IH1. induction segs as [|[x|e] segs IH]; intros acc s vs s' Hh He H.
  - rewrite interp_go_nil in H. rinv H. split; [apply store_extends_refl|reflexivity].
  - rewrite interp_go_str in H. inversion Hh; subst. cbn [lv_interp_go]. eapply IH; eauto.
  - rewrite interp_go_expr in H. binv H as v s1 Hv. binv H as sv s2 Hsv.
    inversion Hh as [|? ? Hseg Hrest]; subst. cbn [seg_hyp] in Hseg. destruct Hseg as [Hhe Ke].
    destruct (IH1 m e rho va s v s1 Hhe He Hv) as [E1 L1].
    pose proof (env_plain_extends _ _ E1 He) as He1.
    apply tostr_plain in Hsv as [-> ->]; [|apply He1|eapply lv_ok_plain; eauto].
    destruct (IH _ _ _ _ Hrest He1 H) as [E2 L2].
    split; [eapply store_extends_trans; eauto|].
    cbn [lv_interp_go]. fold lv_interp_go.
    destruct (evaluate e); destruct v; cbn in L1; try contradiction; try exact I;
      try (destruct b; try contradiction);
      try (subst; eapply lv_ok_mono; [exact E1|apply store_extends_refl|exact L2]).
Qed.

Lemma main_step n : Main1 n -> Fill n -> Main (S n).
Proof.
  intros IH1 IHf m e rho va s vs s' Hh He H.
  destruct e.
  - rewrite eval_S_nil in H. rinv H. split; [apply store_extends_refl|exact I].
  - rewrite eval_S_true in H. rinv H. split; [apply store_extends_refl|exact I].
  - rewrite eval_S_false in H. rinv H. split; [apply store_extends_refl|exact I].
  - rewrite eval_S_number in H. rinv H. split; [apply store_extends_refl|].
    cbn. destruct (compute_number_value n0) as [E V]. rewrite <- E. auto.
  - rewrite eval_S_string in H. rinv H. split; [apply store_extends_refl|reflexivity].
  - rewrite eval_S_interp in H. rewrite evaluate_interp. eapply (interp_ok n m); eauto. apply D_interp; exact Hh.
  - rewrite eval_S_varargs in H. rinv H. split; [apply store_extends_refl|exact I].
  - rewrite eval_S_ident in H. split; [|exact I]. destruct (lookup rho x).
    + binv H as v s1 Hv. rinv H. apply get_cell_ok in Hv. subst. apply store_extends_refl.
    + binv H as v s1 Hv. apply index_globals_plain in Hv; [|apply He]. subst s1.
      destruct v; try (rinv H; apply store_extends_refl).
      destruct (is_ext_name x); rinv H; apply store_extends_refl.
  - exfalso. eapply D_bad_field; eauto.
  - exfalso. eapply D_bad_index; eauto.
  - exfalso. eapply D_bad_call; eauto.
  - rewrite eval_S_function in H. binv H as c s1 Hc. rinv H.
    apply new_closure_ok in Hc as (E & Ea & Ec & _). split; [exact E|].
    cbn. rewrite Ec, app_length. cbn. lia.
  - rewrite eval_S_if in H. eapply (if_ok n m); eauto. apply D_if; exact Hh.
  - rewrite eval_S_paren in H. binv H as v s1 Hv. rinv H. cbn [first].
    change (evaluate (EParen e)) with (evaluate e). eapply (IH1 m); eauto; eapply D_paren; eauto.
  - assert (HypP (ETable entries)) as Hp.
    { destruct m; [apply D_table_K|]; exact Hh. }
    rewrite eval_S_table in H. binv H as a s1 Ha. binv H as u s2 Hf. rinv H.
    apply new_table_ok in Ha as (E & Ea & Et).
    assert (plain_tab s1 a) as P0.
    { exists (mkTable [] None). split; [|reflexivity]. rewrite Et, Ea. apply nth_N_length. }
    destruct (IHf _ _ _ _ _ s s1 _ _ (D_table _ Hp) He E (Nat.eq_le_incl _ _ (eq_sym Ea)) P0 Hf) as [E2 P2].
    split; [exact E2|]. cbn. split; [lia|exact P2].
  - rewrite eval_S_unary' in H. binv H as v s1 Hv. apply D_unop in Hh as [Hh K].
    destruct (IH1 m e rho va s v s1 Hh He Hv) as [E1 L1].
    pose proof (env_plain_extends _ _ E1 He) as He1.
    apply (unop_ok _ _ _ _ _ _ _ _ L1 K (proj2 He1)) in H as [-> L].
    rewrite evaluate_unop. auto.
  - destruct (is_andor op) eqn:Hop.
    + destruct op; try discriminate Hop.
      * (* and *) rewrite eval_S_and in H. binv H as a s1 Ha. apply D_and in Hh as [Hl Hr].
        destruct (IH1 m e1 rho va s a s1 Hl He Ha) as [E1 L1].
        pose proof (env_plain_extends _ _ E1 He) as He1.
        rewrite evaluate_and.
        destruct (truthy a) eqn:Ta.
        -- binv H as b s2 Hb. rinv H. cbn [first].
           assert (is_truthy (evaluate e1) <> Some false) as Nf.
           { intros Ef. rewrite (lv_ok_truthy _ _ _ _ _ L1 Ef) in Ta. discriminate. }
           destruct (IH1 m e2 rho va s1 b _ (Hr Nf) He1 Hb) as [E2 L2].
           split; [eapply store_extends_trans; eauto|].
           destruct (is_truthy (evaluate e1)) as [[|]|]; [|congruence|exact I].
           eapply lv_ok_mono; [exact E1|apply store_extends_refl|exact L2].
        -- rinv H. cbn [first]. split; [exact E1|].
           destruct (is_truthy (evaluate e1)) as [[|]|] eqn:Et; [|exact L1|exact I].
           rewrite (lv_ok_truthy _ _ _ _ _ L1 Et) in Ta. discriminate.
      * (* or *) rewrite eval_S_or in H. binv H as a s1 Ha. apply D_or in Hh as [Hl Hr].
        destruct (IH1 m e1 rho va s a s1 Hl He Ha) as [E1 L1].
        pose proof (env_plain_extends _ _ E1 He) as He1.
        rewrite evaluate_or.
        destruct (truthy a) eqn:Ta.
        -- rinv H. cbn [first]. split; [exact E1|].
           destruct (is_truthy (evaluate e1)) as [[|]|] eqn:Et; [exact L1| |exact I].
           rewrite (lv_ok_truthy _ _ _ _ _ L1 Et) in Ta. discriminate.
        -- binv H as b s2 Hb. rinv H. cbn [first].
           assert (is_truthy (evaluate e1) <> Some true) as Nf.
           { intros Ef. rewrite (lv_ok_truthy _ _ _ _ _ L1 Ef) in Ta. discriminate. }
           destruct (IH1 m e2 rho va s1 b _ (Hr Nf) He1 Hb) as [E2 L2].
           split; [eapply store_extends_trans; eauto|].
           destruct (is_truthy (evaluate e1)) as [[|]|]; [congruence| |exact I].
           eapply lv_ok_mono; [exact E1|apply store_extends_refl|exact L2].
    + rewrite (eval_S_binop _ _ _ _ _ _ _ Hop) in H. binv H as a s1 Ha. binv H as b s2 Hb.
      apply (D_binop _ _ _ _ Hop) in Hh as (Hl & Hr & Kl & Kr & Ho).
      destruct (IH1 m e1 rho va s a s1 Hl He Ha) as [E1 L1].
      pose proof (env_plain_extends _ _ E1 He) as He1.
      destruct (IH1 m e2 rho va s1 b s2 Hr He1 Hb) as [E2 L2].
      pose proof (env_plain_extends _ _ E2 He1) as He2.
      destruct (binop_ok _ _ _ _ _ _ _ _ _ _ _ Hop L1 L2 Kl Kr E1 E2 (proj2 He2) Ho H) as [-> L].
      rewrite (evaluate_binop _ _ _ Hop).
      split; [eapply store_extends_trans; eauto|exact L].
  - rewrite eval_S_typecast in H. binv H as v s1 Hv. rinv H. cbn [first].
    change (evaluate (ETypeCast e t)) with (evaluate e). eapply (IH1 m); eauto; eapply D_typecast; eauto.
  - rewrite eval_S_typeinst in H. binv H as v s1 Hv. rinv H. cbn [first].
    destruct (IH1 m e rho va s v _ (D_typeinst _ _ _ Hh) He Hv) as [E1 L1].
    split; [exact E1|]. destruct (typeinst_lv e tys) as [-> | ->]; [exact L1|exact I].
Qed.

Theorem main_all : forall n, Main n /\ Main1 n /\ Fill n.
Proof.
  induction n as [|n (IHm & IH1 & IHf)].
  - unfold Main, Main1, Fill. repeat split; intros; discriminate.
  - split; [apply main_step; auto|]. split; [apply main1_step; auto|apply fill_step; auto].
Qed.

End Inv.
