(** The invariant behind [evaluate_sound] and [pure_sound]: whenever the expression is
    statically known ([evaluate e <> LUnknown], table constructors pure) or free of side
    effects according to [has_side_effects false], evaluation only extends the store and the
    value is described by [evaluate e] -- numbers up to Leibniz equality and canonical,
    tables and closures freshly allocated. *)
From Coq Require Import ZArith NArith List Bool String Lia.
From Coq Require Import Floats.SpecFloat.
From DL Require Import Lib.Bytes Lib.F64 Lua.Syntax Lua.Sem Model.StringLit Model.NumberLit
  Model.Evaluator Lua.EvalSpec Lua.EvalSpec2 Proof.SemFacts Proof.EvaluatorStore Proof.EvaluatorF64.
Import ListNotations.
Open Scope N_scope.
Local Notation llen := List.length.

(** * The refined matching relation *)

Definition lv_ok (s0 s : store) (v : lv) (x : value) : Prop :=
  match v, x with
  | LUnknown, _ => True
  | LNil, VNil => True
  | LTrue, VBool true => True
  | LFalse, VBool false => True
  | LNumber a, VNum b => a = b /\ valid a
  | LString a, VStr b => a = b
  | LFunction, VClosure c => (llen (closures s0) <= N.to_nat c < llen (closures s))%nat
  | LTable, VTable a => (llen (tables s0) <= N.to_nat a)%nat /\ plain_tab s a
  | _, _ => False
  end.

Lemma store_extends_tables s s' : store_extends s s' -> (llen (tables s) <= llen (tables s'))%nat.
Proof. intros (_ & _ & _ & _ & H & _). now apply list_extends_length. Qed.
Lemma store_extends_closures s s' : store_extends s s' -> (llen (closures s) <= llen (closures s'))%nat.
Proof. intros (_ & _ & _ & _ & _ & H). now apply list_extends_length. Qed.

Lemma lv_ok_mono s0 s s0' s' v x :
  store_extends s0' s0 -> store_extends s s' -> lv_ok s0 s v x -> lv_ok s0' s' v x.
Proof.
  intros H0 H1. pose proof (store_extends_tables _ _ H0). pose proof (store_extends_closures _ _ H0).
  pose proof (store_extends_closures _ _ H1).
  destruct v, x; cbn; auto.
  - lia.
  - intros [A B]. split; [lia|]. eapply plain_tab_extends; eauto.
Qed.

Lemma lv_ok_matches s0 s v x : lv_ok s0 s v x -> lv_matches s v x.
Proof.
  destruct v, x; cbn; auto.
  - intros [-> _]. apply same_f64_refl.
  - intros [_ H]. exact H.
Qed.

Lemma lv_ok_plain s0 s v x : lv_ok s0 s v x -> v <> LUnknown -> plain s x.
Proof. destruct v, x; cbn; auto; try contradiction; try tauto. Qed.

Lemma lv_ok_truthy s0 s v x b : lv_ok s0 s v x -> is_truthy v = Some b -> truthy x = b.
Proof.
  destruct v, x; cbn; try contradiction; try discriminate; try (intros _ E; inversion E; reflexivity).
  - destruct b0; [contradiction|]. intros _ E; inversion E; reflexivity.
  - destruct b0; [|contradiction]. intros _ E; inversion E; reflexivity.
Qed.

Lemma lv_ok_unknown s0 s x : lv_ok s0 s LUnknown x.
Proof. exact I. Qed.

Lemma lv_ok_bool s0 s c : lv_ok s0 s (lv_of_bool c) (VBool c).
Proof. destruct c; exact I. Qed.

(** * Static value of the non-short-circuit binary operators *)

Definition lv_binop (op : binop) (a b : lv) : lv :=
  match op with
  | BAnd | BOr => LUnknown
  | BEq => evaluate_equal a b
  | BNeq =>
    match evaluate_equal a b with
    | LTrue => LFalse
    | LFalse => LTrue
    | _ => LUnknown
    end
  | BAdd | BSub | BMul | BDiv | BIDiv | BMod | BPow =>
    match number_coercion a with
    | LNumber x =>
      match number_coercion b with
      | LNumber y => match math_op op x y with Some z => LNumber z | None => LUnknown end
      | _ => LUnknown
      end
    | _ => LUnknown
    end
  | BConcat =>
    match string_coercion a, string_coercion b with
    | LString x, LString y => LString (x ++ y)
    | _, _ => LUnknown
    end
  | BLt | BLe | BGt | BGe =>
    match a with
    | LNumber x =>
      match b with
      | LNumber y => lv_of_bool (rel_num op x y)
      | _ => LUnknown
      end
    | LString x =>
      match b with
      | LString y => lv_of_bool (rel_str op x y)
      | _ => LUnknown
      end
    | _ => LUnknown
    end
  end.

Lemma evaluate_binop op l r : is_andor op = false ->
  evaluate (EBinary op l r) = lv_binop op (evaluate l) (evaluate r).
Proof. destruct op; intros H; try discriminate H; reflexivity. Qed.

Lemma number_coercion_unknown : number_coercion LUnknown = LUnknown.
Proof. reflexivity. Qed.

Lemma lv_binop_known op a b : lv_binop op a b <> LUnknown -> a <> LUnknown /\ b <> LUnknown.
Proof.
  intros H. split; intros ->; apply H; clear H.
  - destruct op; reflexivity.
  - destruct op; cbn; try reflexivity;
      try (destruct a; reflexivity);
      try (destruct (number_coercion a); reflexivity);
      try (destruct (string_coercion a); reflexivity).
Qed.

(** side conditions of [dialect_safe] at a binary node *)
Definition op_safe (d : dialect) (op : binop) (a b : lv) : Prop :=
  (op = BConcat -> concat_operand_safe d a = true /\ concat_operand_safe d b = true) /\
  (op = BMod -> d = Luau -> forall x y, number_coercion a = LNumber x -> number_coercion b = LNumber y ->
                                        same_f64 (fmod_51 x y) (fmod_luau x y) = true).

Section Safe.
Variable d : dialect.

Lemma ds_split e : dialect_safe d e = true <->
  concat_safe d e = true /\ (d = Luau -> mod_safe e = true).
Proof.
  unfold dialect_safe. rewrite andb_true_iff. destruct d; intuition discriminate.
Qed.

Lemma ds_binary op l r : dialect_safe d (EBinary op l r) = true ->
  dialect_safe d l = true /\ dialect_safe d r = true /\ op_safe d op (evaluate l) (evaluate r).
Proof.
  rewrite !ds_split. cbn [concat_safe mod_safe]. rewrite !andb_true_iff. intros [[[A B] C] D].
  split; [|split].
  - split; auto. intros E. specialize (D E). tauto.
  - split; auto. intros E. specialize (D E). tauto.
  - split.
    + intros ->. now apply andb_true_iff in C.
    + intros -> E x y Hx Hy. specialize (D E). destruct D as [_ D].
      rewrite Hx, Hy in D. exact D.
Qed.

Lemma ds_unary op e : dialect_safe d (EUnary op e) = true -> dialect_safe d e = true.
Proof. rewrite !ds_split. cbn [concat_safe mod_safe]. tauto. Qed.
Lemma ds_paren e : dialect_safe d (EParen e) = true -> dialect_safe d e = true.
Proof. rewrite !ds_split. cbn [concat_safe mod_safe]. tauto. Qed.
Lemma ds_typecast e t : dialect_safe d (ETypeCast e t) = true -> dialect_safe d e = true.
Proof. rewrite !ds_split. cbn [concat_safe mod_safe]. tauto. Qed.
Lemma ds_typeinst e t : dialect_safe d (ETypeInst e t) = true -> dialect_safe d e = true.
Proof. rewrite !ds_split. cbn [concat_safe mod_safe]. tauto. Qed.

Lemma ds_if_nil els : dialect_safe d (EIf [] els) = true -> dialect_safe d els = true.
Proof. rewrite !ds_split. cbn [concat_safe mod_safe forallb]. tauto. Qed.
Lemma ds_if_cons c r bs els : dialect_safe d (EIf (EBranch c r :: bs) els) = true ->
  dialect_safe d c = true /\ dialect_safe d r = true /\ dialect_safe d (EIf bs els) = true.
Proof.
  rewrite !ds_split. cbn [concat_safe mod_safe forallb]. rewrite !andb_true_iff. intros [[[[A B] C] D] E].
  tauto.
Qed.

Lemma ds_interp_str x segs : dialect_safe d (EInterp (ISStr x :: segs)) = true ->
  dialect_safe d (EInterp segs) = true.
Proof. rewrite !ds_split. cbn [concat_safe mod_safe forallb]. rewrite !andb_true_iff. tauto. Qed.
Lemma ds_interp_expr e segs : dialect_safe d (EInterp (ISExpr e :: segs)) = true ->
  dialect_safe d e = true /\ dialect_safe d (EInterp segs) = true.
Proof.
  rewrite !ds_split. cbn [concat_safe mod_safe forallb]. rewrite !andb_true_iff. intros [[A B] C].
  tauto.
Qed.

End Safe.

(** * Values of the operators on statically known operands *)

Section Inv.
Variable d : dialect.

(** agreement of the two string->number coercions (discharged in [EvaluatorCoercion]) *)
Hypothesis coercion_agrees : forall s x y,
  str2num s = Some x -> number_coercion (LString s) = LNumber y -> y = x /\ valid x.

Lemma num_coerce_ok s0 s la a x y :
  lv_ok s0 s la a -> number_coercion la = LNumber x -> tonum a = Some y -> x = y /\ valid x.
Proof.
  intros H E T. destruct la; try discriminate E.
  - cbn in E. injection E as <-. destruct a; try contradiction. cbn in H, T.
    destruct H as [-> Hv]. injection T as <-. auto.
  - destruct a; try contradiction. cbn in H. subst s1. cbn in T.
    destruct (coercion_agrees _ _ _ T E) as [-> Hv]. auto.
Qed.

Lemma math_arith op x y z : valid x -> valid y ->
  (op = BMod -> d = Luau -> same_f64 (fmod_51 x y) (fmod_luau x y) = true) ->
  arith_num d op x y = Some z ->
  match math_op op x y with Some z' => z' = z /\ valid z | None => True end.
Proof.
  intros Hx Hy Hm. destruct op; cbn [arith_num math_op]; try discriminate;
    try (intros E; injection E as <-; split; [reflexivity|]).
  - now apply valid_fadd.
  - now apply valid_fsub.
  - now apply valid_fmul.
  - now apply valid_fdiv.
  - apply valid_ffloor. now apply valid_fdiv.
  - intros E; injection E as <-. rewrite (fmul_comm y). fold (fmod_51 x y).
    destruct d.
    + split; [reflexivity|]. now apply valid_fmod_51.
    + split; [|now apply valid_fmod_luau].
      apply to_bits_inj; auto using valid_fmod_51, valid_fmod_luau.
  - intros E. rewrite E. split; [reflexivity|]. eapply valid_fpow; eauto.
Qed.

Lemma eq_ok s0 s1 s2 la lb a b :
  lv_ok s0 s1 la a -> lv_ok s1 s2 lb b -> la <> LUnknown -> lb <> LUnknown ->
  evaluate_equal la lb = lv_of_bool (raw_equal a b).
Proof.
  intros Ha Hb Ka Kb.
  destruct la; try congruence; destruct a; cbn in Ha; try contradiction;
  destruct lb; try congruence; destruct b; cbn in Hb; try contradiction;
  repeat match goal with
         | H : match ?c with true => _ | false => _ end |- _ => destruct c; try contradiction
         end; cbn; try reflexivity.
  - destruct Ha as [-> _], Hb as [-> _]. reflexivity.
  - subst. reflexivity.
  - (* closures *) assert (a <> a0) by (intros ->; lia).
    apply N.eqb_neq in H. rewrite H. reflexivity.
  - (* tables *) destruct Ha as [_ (t & Ht & _)]. apply nth_N_lt in Ht. destruct Hb as [Hb _].
    assert (a <> a0) by (intros ->; lia).
    apply N.eqb_neq in H. rewrite H. reflexivity.
Qed.

Lemma binop_ok n op la lb a b s0 s1 s2 vs s3 :
  is_andor op = false ->
  lv_ok s0 s1 la a -> lv_ok s1 s2 lb b -> la <> LUnknown -> lb <> LUnknown ->
  store_extends s0 s1 -> store_extends s1 s2 -> strmeta_plain s2 ->
  op_safe d op la lb ->
  binop_sem d n op a b s2 = Ok vs s3 ->
  s3 = s2 /\ lv_ok s0 s2 (lv_binop op la lb) (first vs).
Proof.
  intros Hop Ha Hb Ka Kb E01 E12 Hs [Hcat Hmod] H.
  assert (lv_ok s0 s2 la a) as Ha2 by (eapply lv_ok_mono; [apply store_extends_refl|exact E12|exact Ha]).
  assert (lv_ok s0 s2 lb b) as Hb2 by (eapply lv_ok_mono; [exact E01|apply store_extends_refl|exact Hb]).
  pose proof (lv_ok_plain _ _ _ _ Ha2 Ka) as Pa. pose proof (lv_ok_plain _ _ _ _ Hb2 Kb) as Pb.
  assert (forall c s, lv_ok s0 s (lv_of_bool c) (VBool c)) as Hbool by (intros; apply lv_ok_bool).
  destruct op; try discriminate Hop; cbn [binop_sem lv_binop] in *.
  - (* == *) inv_ok H. subst. apply equal_plain in H0 as [-> ->]; auto. split; auto.
    rewrite (eq_ok _ _ _ _ _ _ _ Ha Hb Ka Kb). apply Hbool.
  - (* ~= *) inv_ok H. subst. apply equal_plain in H0 as [-> ->]; auto. split; auto.
    rewrite (eq_ok _ _ _ _ _ _ _ Ha Hb Ka Kb). destruct (raw_equal a b); exact I.
  - (* < *) inv_ok H. subst. apply less_plain in H0 as [-> [(x & y & -> & -> & ->)|(x & y & -> & -> & ->)]]; auto;
      (split; [reflexivity|]);
      destruct la; cbn in Ha2; try contradiction; destruct lb; cbn in Hb2; try contradiction.
    + destruct Ha2 as [-> _], Hb2 as [-> _]. apply Hbool.
    + subst. apply Hbool.
  - (* <= *) inv_ok H. subst. apply less_plain in H0 as [-> [(x & y & -> & -> & ->)|(x & y & -> & -> & ->)]]; auto;
      (split; [reflexivity|]);
      destruct la; cbn in Ha2; try contradiction; destruct lb; cbn in Hb2; try contradiction.
    + destruct Ha2 as [-> _], Hb2 as [-> _]. apply Hbool.
    + subst. apply Hbool.
  - (* > *) inv_ok H. subst. apply less_plain in H0 as [-> [(x & y & -> & -> & ->)|(x & y & -> & -> & ->)]]; auto;
      (split; [reflexivity|]);
      destruct la; cbn in Ha2; try contradiction; destruct lb; cbn in Hb2; try contradiction.
    + destruct Ha2 as [-> _], Hb2 as [-> _]. apply Hbool.
    + subst. apply Hbool.
  - (* >= *) inv_ok H. subst. apply less_plain in H0 as [-> [(x & y & -> & -> & ->)|(x & y & -> & -> & ->)]]; auto;
      (split; [reflexivity|]);
      destruct la; cbn in Ha2; try contradiction; destruct lb; cbn in Hb2; try contradiction.
    + destruct Ha2 as [-> _], Hb2 as [-> _]. apply Hbool.
    + subst. apply Hbool.
  - admit.
  - admit.
  - admit.
  - admit.
  - admit.
  - admit.
  - admit.
  - admit.
Admitted.

End Inv.
