(** C01, LIFTING of node-level rewrites to whole programs - definitions.

    A rule of Model/DefaultRules.v rewrites nodes everywhere in a program; closures created at
    run time then hold REWRITTEN bodies, so the original and the rewritten program run in
    different stores.  This file defines
    - the "rewrite at the root, then in the children" closure [crel_*] of base relations
      [Re] (expressions in value position), [Rv] (expressions in assignment-target position,
      i.e. where [eval_target] runs), [Rt] (the entry list of a
      table constructor), [Rs] (statements), [Rb] (blocks): [crel_expr e e'] iff [e'] is obtained
      from [e] by AT MOST ONE base step at the root ([Re e e1]) followed by [cong_expr e1 e'] -
      same head constructor, children related by [crel_*] again.  This is the shape of darklua's
      pre-order traversal ([DefaultRules.visit]: the hook sees the node, then the children of
      what it left are visited).  Type annotations, generics and attributes are unconstrained
      (the interpreter never reads them); function bodies are compared through the EFFECTIVE
      parameter names (so [function a:m(x)] and [function a.m(self, x)] are congruent);
    - the store relation [lstore_rel B]: everything equal except the closure records, which
      are pairwise related by [lclos_rel B] (same effective parameter names, same variadic flag,
      same captured environment, bodies related by [B]);
    - the FORWARD result relation [fwd]: whatever the left run yields other than [Fuel], the
      right run yields too (equal values / error / [Unsup] tag) in a related store;
    - the monadic rules for [fsimR] and the store primitives.
    The simulation itself is Proof/LiftingSim.v. *)
From Coq Require Import ZArith NArith List Bool String Lia.
From DL Require Import Lib.Bytes Lib.F64 Lua.Syntax Lua.Sem.
From DL Require Import Proof.LoweringFuel.
From DL Require Import Proof.SemFacts Proof.DefaultRulesSem Proof.RefactorSem Proof.RefactorSimA.
Import ListNotations.
Open Scope N_scope.

Inductive opt_rel {A} (R : A -> A -> Prop) : option A -> option A -> Prop :=
| opt_rel_none : opt_rel R None None
| opt_rel_some a b : R a b -> opt_rel R (Some a) (Some b).

Definition self_param : param := Param (of_string "self") None.
Definition eff_names (self : bool) (ps : list param) : list name :=
  map param_name (if self then self_param :: ps else ps).
Definition opt_list {A} (o : option A) : list A := match o with Some x => [x] | None => [] end.
Definition is_some {A} (o : option A) : bool := match o with Some _ => true | None => false end.

(** * The closure of the base relations *)
Section Rel.
Variable Re : expr -> expr -> Prop.
Variable Rv : expr -> expr -> Prop.
Variable Rt : list tentry -> list tentry -> Prop.
Variable Rs : stmt -> stmt -> Prop.
Variable Rb : block -> block -> Prop.

Unset Elimination Schemes.
Inductive crel_expr : expr -> expr -> Prop :=
| cr_e_same e e' : cong_expr e e' -> crel_expr e e'
| cr_e_rw e e1 e' : Re e e1 -> cong_expr e1 e' -> crel_expr e e'

with cong_expr : expr -> expr -> Prop :=
| cg_nil : cong_expr ENil ENil
| cg_true : cong_expr ETrue ETrue
| cg_false : cong_expr EFalse EFalse
| cg_number x : cong_expr (ENumber x) (ENumber x)
| cg_string s : cong_expr (EString s) (EString s)
| cg_interp segs segs' : Forall2 crel_iseg segs segs' -> cong_expr (EInterp segs) (EInterp segs')
| cg_varargs : cong_expr EVarArgs EVarArgs
| cg_ident x : cong_expr (EIdent x) (EIdent x)
| cg_field p p' f : crel_expr p p' -> cong_expr (EField p f) (EField p' f)
| cg_index p p' k k' : crel_expr p p' -> crel_expr k k' -> cong_expr (EIndex p k) (EIndex p' k')
| cg_call p p' m a a' : crel_expr p p' -> crel_args a a' -> cong_expr (ECall p m a) (ECall p' m a')
| cg_function f f' : frel false false f f' -> cong_expr (EFunction f) (EFunction f')
| cg_if bs bs' els els' : Forall2 crel_ebranch bs bs' -> crel_expr els els' ->
                          cong_expr (EIf bs els) (EIf bs' els')
| cg_paren e e' : crel_expr e e' -> cong_expr (EParen e) (EParen e')
| cg_table ens ens' : crel_entries ens ens' -> cong_expr (ETable ens) (ETable ens')
| cg_unary op e e' : crel_expr e e' -> cong_expr (EUnary op e) (EUnary op e')
| cg_binary op l l' r r' : crel_expr l l' -> crel_expr r r' -> cong_expr (EBinary op l r) (EBinary op l' r')
| cg_typecast e e' t t' : crel_expr e e' -> cong_expr (ETypeCast e t) (ETypeCast e' t')
| cg_typeinst p p' ts ts' : crel_expr p p' -> cong_expr (ETypeInst p ts) (ETypeInst p' ts')

(** assignment-target position ([eval_target]): its own base relation *)
with crel_var : expr -> expr -> Prop :=
| cr_v_same e e' : cong_expr e e' -> crel_var e e'
| cr_v_rw e e1 e' : Rv e e1 -> cong_expr e1 e' -> crel_var e e'

with crel_iseg : iseg -> iseg -> Prop :=
| cg_isstr s : crel_iseg (ISStr s) (ISStr s)
| cg_isexpr e e' : crel_expr e e' -> crel_iseg (ISExpr e) (ISExpr e')

with crel_ebranch : ebranch -> ebranch -> Prop :=
| cg_ebranch c c' r r' : crel_expr c c' -> crel_expr r r' -> crel_ebranch (EBranch c r) (EBranch c' r')

with crel_args : args -> args -> Prop :=
| cg_atuple es es' : Forall2 crel_expr es es' -> crel_args (ATuple es) (ATuple es')
| cg_astring s : crel_args (AString s) (AString s)
| cg_atable ens ens' : crel_entries ens ens' -> crel_args (ATable ens) (ATable ens')

with crel_entries : list tentry -> list tentry -> Prop :=
| cr_t_same ens ens' : Forall2 cong_tentry ens ens' -> crel_entries ens ens'
| cr_t_rw ens ens1 ens' : Rt ens ens1 -> Forall2 cong_tentry ens1 ens' -> crel_entries ens ens'

with cong_tentry : tentry -> tentry -> Prop :=
| cg_tfield f v v' : crel_expr v v' -> cong_tentry (TField f v) (TField f v')
| cg_tindex k k' v v' : crel_expr k k' -> crel_expr v v' -> cong_tentry (TIndex k v) (TIndex k' v')
| cg_tvalue v v' : crel_expr v v' -> cong_tentry (TValue v) (TValue v')

(** function bodies; [self]: the closure is created with an implicit [self] parameter *)
with frel : bool -> bool -> fbody -> fbody -> Prop :=
| fr_intro self self' ps ps' v vt vt' rt rt' g g' at_ at_' body body' :
    eff_names self ps = eff_names self' ps' -> crel_block body body' ->
    frel self self' (FBody ps v vt rt g at_ body) (FBody ps' v vt' rt' g' at_' body')

with crel_stmt : stmt -> stmt -> Prop :=
| cr_s_same st st' : cong_stmt st st' -> crel_stmt st st'
| cr_s_rw st st1 st' : Rs st st1 -> cong_stmt st1 st' -> crel_stmt st st'

with cong_stmt : stmt -> stmt -> Prop :=
| cg_assign vars vars' vals vals' : Forall2 crel_var vars vars' -> Forall2 crel_expr vals vals' ->
                                    cong_stmt (SAssign vars vals) (SAssign vars' vals')
| cg_do b b' : crel_block b b' -> cong_stmt (SDo b) (SDo b')
| cg_scall c c' : crel_expr c c' -> cong_stmt (SCall c) (SCall c')
| cg_compound op var var' v v' : crel_var var var' -> crel_expr v v' ->
                                 cong_stmt (SCompound op var v) (SCompound op var' v')
| cg_sfunction base fields fields' m m' f f' :
    fields ++ opt_list m = fields' ++ opt_list m' -> frel (is_some m) (is_some m') f f' ->
    cong_stmt (SFunction base fields m f) (SFunction base fields' m' f')
| cg_genfor vars vars' es es' b b' :
    map param_name vars = map param_name vars' -> Forall2 crel_expr es es' -> crel_block b b' ->
    cong_stmt (SGenericFor vars es b) (SGenericFor vars' es' b')
| cg_sif bs bs' els els' : Forall2 crel_sbranch bs bs' -> opt_rel crel_block els els' ->
                           cong_stmt (SIf bs els) (SIf bs' els')
| cg_local k k' vars vars' vals vals' :
    map param_name vars = map param_name vars' -> Forall2 crel_expr vals vals' ->
    cong_stmt (SLocal k vars vals) (SLocal k' vars' vals')
| cg_localfunction x f f' : frel false false f f' -> cong_stmt (SLocalFunction x f) (SLocalFunction x f')
| cg_numfor var var' a a' b b' step step' body body' :
    param_name var = param_name var' -> crel_expr a a' -> crel_expr b b' -> opt_rel crel_expr step step' ->
    crel_block body body' ->
    cong_stmt (SNumericFor var a b step body) (SNumericFor var' a' b' step' body')
| cg_repeat b b' c c' : crel_block b b' -> crel_expr c c' -> cong_stmt (SRepeat b c) (SRepeat b' c')
| cg_while c c' b b' : crel_expr c c' -> crel_block b b' -> cong_stmt (SWhile c b) (SWhile c' b')
| cg_typedecl ex ex' x x' g g' t t' : cong_stmt (STypeDecl ex x g t) (STypeDecl ex' x' g' t')
| cg_typefunction ex ex' x x' f f' : cong_stmt (STypeFunction ex x f) (STypeFunction ex' x' f')

with crel_sbranch : sbranch -> sbranch -> Prop :=
| cg_sbranch c c' b b' : crel_expr c c' -> crel_block b b' -> crel_sbranch (SBranch c b) (SBranch c' b')

with crel_block : block -> block -> Prop :=
| cr_b_same b b' : cong_block b b' -> crel_block b b'
| cr_b_rw b b1 b' : Rb b b1 -> cong_block b1 b' -> crel_block b b'

with cong_block : block -> block -> Prop :=
| cg_block ss ss' last last' : Forall2 crel_stmt ss ss' -> opt_rel crel_last last last' ->
                               cong_block (Block ss last) (Block ss' last')

with crel_last : laststmt -> laststmt -> Prop :=
| cg_break : crel_last LBreak LBreak
| cg_continue : crel_last LContinue LContinue
| cg_return es es' : Forall2 crel_expr es es' -> crel_last (LReturn es) (LReturn es').
Set Elimination Schemes.

End Rel.

(** * Stores, results *)
Section Store.
Variable B : block -> block -> Prop.

Definition lclos_rel (c1 c2 : closure) : Prop :=
  map param_name (effective_params c1) = map param_name (effective_params c2) /\
  closure_variadic c1 = closure_variadic c2 /\
  B (closure_block c1) (closure_block c2) /\
  c_env c1 = c_env c2.

Definition lstore_rel (s1 s2 : store) : Prop :=
  cells s1 = cells s2 /\ tables s1 = tables s2 /\ trace s1 = trace s2 /\
  oracle s1 = oracle s2 /\ fresh s1 = fresh s2 /\
  Forall2 lclos_rel (closures s1) (closures s2).

(** forward: nothing is claimed when the left run is out of fuel *)
Definition fwd {A} (R : A -> A -> Prop) (r1 r2 : res A) : Prop :=
  match r1 with
  | Fuel => True
  | Ok a1 s1 => match r2 with Ok a2 s2 => R a1 a2 /\ lstore_rel s1 s2 | _ => False end
  | Err e1 s1 => match r2 with Err e2 s2 => e1 = e2 /\ lstore_rel s1 s2 | _ => False end
  | Unsup w1 => match r2 with Unsup w2 => w1 = w2 | _ => False end
  end.

Definition fsimR {A} (R : A -> A -> Prop) (m1 m2 : M A) : Prop :=
  forall s1 s2, lstore_rel s1 s2 -> fwd R (m1 s1) (m2 s2).

Lemma fsim_ret {A} (R : A -> A -> Prop) a1 a2 : R a1 a2 -> fsimR R (ret a1) (ret a2).
Proof. intros H s1 s2 Hs. cbn. auto. Qed.
Lemma fsim_fail {A} (R : A -> A -> Prop) t : fsimR R (fail t) (fail t).
Proof. intros s1 s2 Hs. cbn. auto. Qed.
Lemma fsim_unsup {A} (R : A -> A -> Prop) t : fsimR R (unsup t) (unsup t).
Proof. intros s1 s2 Hs. cbn. auto. Qed.
Lemma fsim_raise {A} (R : A -> A -> Prop) v : fsimR R (raise v) (raise v).
Proof. intros s1 s2 Hs. cbn. auto. Qed.
Lemma fsim_fuel {A} (R : A -> A -> Prop) (m : M A) : fsimR R (fun _ => Fuel) m.
Proof. intros s1 s2 Hs. exact I. Qed.

Lemma fwd_bind {A B'} (R : A -> A -> Prop) (R' : B' -> B' -> Prop) m1 m2 f1 f2 s1 s2 :
  fwd R (m1 s1) (m2 s2) ->
  (forall a1 a2 t1 t2, R a1 a2 -> lstore_rel t1 t2 -> fwd R' (f1 a1 t1) (f2 a2 t2)) ->
  fwd R' (bind m1 f1 s1) (bind m2 f2 s2).
Proof.
  intros H K. unfold bind. destruct (m1 s1), (m2 s2); cbn in H |- *; try contradiction; auto.
  destruct H. auto.
Qed.

Lemma fsim_bind {A B'} (R : A -> A -> Prop) (R' : B' -> B' -> Prop) m1 m2 f1 f2 :
  fsimR R m1 m2 -> (forall a1 a2, R a1 a2 -> fsimR R' (f1 a1) (f2 a2)) ->
  fsimR R' (bind m1 f1) (bind m2 f2).
Proof.
  intros H K s1 s2 Hs. eapply fwd_bind; [exact (H s1 s2 Hs)|]. intros. now apply K.
Qed.

Lemma fsim_bind_eq {A B'} (R' : B' -> B' -> Prop) (m1 m2 : M A) f1 f2 :
  fsimR eq m1 m2 -> (forall a, fsimR R' (f1 a) (f2 a)) -> fsimR R' (bind m1 f1) (bind m2 f2).
Proof. intros H K. eapply fsim_bind; [exact H|]. intros a1 a2 <-. apply K. Qed.

Lemma fsim_pcall m1 m2 : fsimR eq m1 m2 -> fsimR eq (pcall_wrap m1) (pcall_wrap m2).
Proof.
  intros H s1 s2 Hs. specialize (H s1 s2 Hs). unfold pcall_wrap.
  destruct (m1 s1), (m2 s2); cbn in H |- *; try contradiction; auto.
  - destruct H as [-> H]. auto.
  - destruct H as [-> H]. destruct e0; cbn; auto.
Qed.

(** a node-level refinement on the left (same store, Proof/LoweringFuel.v [refines]) composes
    with a simulation *)
Lemma fsim_refines_l {A} (R : A -> A -> Prop) (m1 m1' m2 : M A) :
  refines m1 m1' -> fsimR R m1' m2 -> fsimR R m1 m2.
Proof.
  intros Hr H s1 s2 Hs. specialize (H s1 s2 Hs). specialize (Hr s1).
  destruct (m1 s1) eqn:E; try exact I; rewrite Hr in H by discriminate; exact H.
Qed.

(** * Store primitives *)

Ltac lprim :=
  let Hc := fresh in let Ht := fresh in let Htr := fresh in let Ho := fresh in
  let Hf := fresh in let Hcl := fresh in
  intros s1 s2 (Hc & Ht & Htr & Ho & Hf & Hcl);
  unfold get_cell, set_cell, new_cell, get_table, set_table, new_table, emit_event, pop_oracle, next_fresh;
  rewrite ?Hc, ?Ht, ?Htr, ?Ho, ?Hf;
  repeat match goal with |- context [match ?x with _ => _ end] => destruct x eqn:? end;
  cbn; unfold lstore_rel; cbn; repeat split; auto; try congruence.

Lemma fs_get_cell a : fsimR eq (get_cell a) (get_cell a). Proof. lprim. Qed.
Lemma fs_set_cell a v : fsimR eq (set_cell a v) (set_cell a v). Proof. lprim. Qed.
Lemma fs_new_cell v : fsimR eq (new_cell v) (new_cell v). Proof. lprim. Qed.
Lemma fs_get_table a : fsimR eq (get_table a) (get_table a). Proof. lprim. Qed.
Lemma fs_set_table a t : fsimR eq (set_table a t) (set_table a t). Proof. lprim. Qed.
Lemma fs_new_table t : fsimR eq (new_table t) (new_table t). Proof. lprim. Qed.
Lemma fs_emit_event e : fsimR eq (emit_event e) (emit_event e). Proof. lprim. Qed.
Lemma fs_pop_oracle : fsimR eq pop_oracle pop_oracle. Proof. lprim. Qed.
Lemma fs_next_fresh : fsimR eq next_fresh next_fresh. Proof. lprim. Qed.

Lemma Forall2_nth_N' {A} (R : A -> A -> Prop) l1 l2 k :
  Forall2 R l1 l2 ->
  match nth_N l1 k, nth_N l2 k with
  | Some a, Some b => R a b
  | None, None => True
  | _, _ => False
  end.
Proof.
  intros H. revert k. induction H; intros [|k]; cbn; auto. apply IHForall2.
Qed.

Lemma fs_get_closure a : fsimR lclos_rel (get_closure a) (get_closure a).
Proof.
  intros s1 s2 Hs. unfold get_closure.
  pose proof (Forall2_nth_N' lclos_rel _ _ (N.to_nat a) (proj2 (proj2 (proj2 (proj2 (proj2 Hs)))))) as H.
  destruct (nth_N (closures s1) _), (nth_N (closures s2) _); cbn; try contradiction; auto.
Qed.

Lemma Forall2_len' {A B'} (R : A -> B' -> Prop) l1 l2 : Forall2 R l1 l2 -> List.length l1 = List.length l2.
Proof. induction 1; cbn; auto. Qed.

Lemma fs_new_closure c1 c2 : lclos_rel c1 c2 -> fsimR eq (new_closure c1) (new_closure c2).
Proof.
  intros Hc s1 s2 (H1 & H2 & H3 & H4 & H5 & H6). unfold new_closure. cbn. split.
  - now rewrite (Forall2_len' _ _ _ H6).
  - unfold lstore_rel. cbn. repeat split; auto. apply Forall2_app; auto.
Qed.

End Store.

(** * The generic tactic: peel binds, destruct scrutinees, close leaves *)

Ltac fs_leaf :=
  lazymatch goal with
  | |- fsimR _ _ (ret _) (ret _) => apply fsim_ret; reflexivity
  | |- fsimR _ _ (fail _) (fail _) => apply fsim_fail
  | |- fsimR _ _ (unsup _) (unsup _) => apply fsim_unsup
  | |- fsimR _ _ (raise _) (raise _) => apply fsim_raise
  | |- fsimR _ _ (num_result _) (num_result _) => apply fsim_ret; reflexivity
  | |- fsimR _ _ (fun _ => Fuel) _ => apply fsim_fuel
  | |- fsimR _ _ (get_cell _) (get_cell _) => apply fs_get_cell
  | |- fsimR _ _ (set_cell _ _) (set_cell _ _) => apply fs_set_cell
  | |- fsimR _ _ (new_cell _) (new_cell _) => apply fs_new_cell
  | |- fsimR _ _ (get_table _) (get_table _) => apply fs_get_table
  | |- fsimR _ _ (set_table _ _) (set_table _ _) => apply fs_set_table
  | |- fsimR _ _ (new_table _) (new_table _) => apply fs_new_table
  | |- fsimR _ _ (emit_event _) (emit_event _) => apply fs_emit_event
  | |- fsimR _ _ pop_oracle pop_oracle => apply fs_pop_oracle
  | |- fsimR _ _ next_fresh next_fresh => apply fs_next_fresh
  end.

Ltac fs_step tac :=
  lazymatch goal with
  | |- fsimR _ _ (bind _ _) (bind _ _) => apply fsim_bind_eq; [|intros ?]
  | |- fsimR _ _ (pcall_wrap _) (pcall_wrap _) => apply fsim_pcall
  | |- fsimR _ _ (let x := _ in _) _ => cbv zeta
  | |- fsimR _ _ (match ?x with _ => _ end) (match ?x with _ => _ end) => destruct x
  | |- fsimR _ _ _ _ => first [fs_leaf | solve [tac]]
  end.

Ltac fs_with tac := repeat (fs_step tac).
Ltac fs := fs_with fail.

Section Store2.
Variable B : block -> block -> Prop.
Local Notation fsim := (fsimR B eq).

Lemma fs_metatable_of v : fsim (metatable_of v) (metatable_of v).
Proof. unfold metatable_of. fs. Qed.
Lemma fs_metamethod v ev : fsim (metamethod v ev) (metamethod v ev).
Proof. unfold metamethod. fs_with ltac:(apply fs_metatable_of). Qed.

Lemma fs_materialise o : fsim (materialise o) (materialise o).
Proof. unfold materialise. fs. Qed.
Lemma fs_materialise_all os : fsim (materialise_all os) (materialise_all os).
Proof.
  induction os as [|o os IH]; cbn [materialise_all]; fs_with ltac:(first [apply fs_materialise | exact IH]).
Qed.

Lemma render_rel' k s1 s2 v : tables s1 = tables s2 -> render k s1 v = render k s2 v.
Proof.
  intros H. revert v. induction k as [|k IH]; intros v; destruct v; cbn [render]; try reflexivity.
  rewrite H. destruct (nth_N (tables s2) (N.to_nat a)); [|reflexivity].
  f_equal. apply map_ext. intros kv. now rewrite !IH.
Qed.

Lemma fs_call_ext_body ev : fsim (_ <- emit_event ev ;; os <- pop_oracle ;; materialise_all os)
                                 (_ <- emit_event ev ;; os <- pop_oracle ;; materialise_all os).
Proof. fs_with ltac:(apply fs_materialise_all). Qed.

Lemma fs_call_ext x args : fsim (call_ext x args) (call_ext x args).
Proof.
  intros s1 s2 Hs. unfold call_ext.
  rewrite (map_ext (render 3 s1) (render 3 s2)) by (intros; apply render_rel'; apply Hs).
  now apply fs_call_ext_body.
Qed.

Lemma fs_local_go vars1 : forall vars2 vs rho,
  map param_name vars1 = map param_name vars2 ->
  fsim (local_go vars1 vs rho) (local_go vars2 vs rho).
Proof.
  induction vars1 as [|p1 vars1 IH]; intros [|p2 vars2] vs rho H; try discriminate H.
  - rewrite !local_go_nil. now apply fsim_ret.
  - cbn [map] in H. injection H as Hp Hps. rewrite !local_go_cons, Hp.
    apply fsim_bind_eq; [apply fs_new_cell|]. intros a. now apply IH.
Qed.

Lemma fs_bind_params ps1 : forall ps2 args,
  map param_name ps1 = map param_name ps2 ->
  fsim (bind_params ps1 args) (bind_params ps2 args).
Proof.
  induction ps1 as [|p1 ps1 IH]; intros [|p2 ps2] args H; try discriminate H.
  - rewrite !bind_params_nil. now apply fsim_ret.
  - cbn [map] in H. injection H as Hp Hps.
    rewrite !bind_params_cons. apply fsim_bind_eq; [apply fs_new_cell|]. intros a.
    apply fsim_bind_eq; [apply (IH ps2 (tl args) Hps)|].
    intros r. apply fsim_ret. now rewrite Hp.
Qed.

End Store2.
