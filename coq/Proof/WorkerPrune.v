(** The ancestor pruning of [clean_files] (file-system resources): it only ever removes
    directories that are empty and were not there before the first run, and never a file. *)
From Coq Require Import Arith PeanoNat Lia.
From DL Require Import Lib.Bytes Model.WorkerFs Model.Worker Proof.WorkerBasics.
Open Scope N_scope.

Lemma strict_prefix_spec a b : strict_prefix a b = true <-> starts_with a b = true /\ a <> b.
Proof.
  unfold strict_prefix. rewrite andb_true_iff, negb_true_iff, path_eqb_neq. tauto.
Qed.

Lemma prune_subset snapshot files anc : forall dirs d,
  In d (prune_ancestors snapshot files dirs anc) -> In d dirs.
Proof.
  induction anc as [|a anc IH]; intros dirs d H; cbn [prune_ancestors] in H; [exact H|].
  destruct (negb (mem_path a snapshot) && dir_is_empty files dirs a); [|exact H].
  apply IH in H. apply filter_In in H as [H _]. exact H.
Qed.

(** a directory of the snapshot is never removed *)
Lemma prune_keeps_snapshot snapshot files anc : forall dirs d,
  In d snapshot -> In d dirs -> In d (prune_ancestors snapshot files dirs anc).
Proof.
  induction anc as [|a anc IH]; intros dirs d Hs Hd; cbn [prune_ancestors]; [exact Hd|].
  destruct (negb (mem_path a snapshot) && dir_is_empty files dirs a) eqn:Ea; [|exact Hd].
  apply andb_true_iff in Ea as [Ea1 Ea2]. apply IH; [exact Hs|].
  apply filter_In. split; [exact Hd|]. apply negb_true_iff.
  destruct (starts_with a d) eqn:Es; [|reflexivity]. exfalso.
  destruct (path_eq_dec a d) as [->|Hne].
  - apply negb_true_iff in Ea1. apply mem_path_In in Hs. congruence.
  - unfold dir_is_empty in Ea2. apply andb_true_iff in Ea2 as [_ Ea2]. apply negb_true_iff in Ea2.
    assert (existsb (fun p => strict_prefix a p) dirs = true).
    { apply existsb_exists. exists d. split; [exact Hd|]. apply strict_prefix_spec. auto. }
    congruence.
Qed.

(** a directory that still contains a file is never removed *)
Lemma prune_keeps_nonempty snapshot files anc : forall dirs d f,
  In d dirs -> In f files -> starts_with d f = true -> d <> f ->
  In d (prune_ancestors snapshot files dirs anc).
Proof.
  induction anc as [|a anc IH]; intros dirs d f Hd Hf Hs Hne; cbn [prune_ancestors]; [exact Hd|].
  destruct (negb (mem_path a snapshot) && dir_is_empty files dirs a) eqn:Ea; [|exact Hd].
  apply andb_true_iff in Ea as [_ Ea2]. eapply IH; [|exact Hf|exact Hs|exact Hne].
  apply filter_In. split; [exact Hd|]. apply negb_true_iff.
  destruct (starts_with a d) eqn:Es; [|reflexivity]. exfalso.
  unfold dir_is_empty in Ea2. apply andb_true_iff in Ea2 as [Ea2 _]. apply andb_true_iff in Ea2 as [_ Ea2].
  apply negb_true_iff in Ea2.
  assert (existsb (fun p => strict_prefix a p) files = true).
  { apply existsb_exists. exists f. split; [exact Hf|]. apply strict_prefix_spec.
    split; [eapply starts_with_trans; eassumption|].
    intros ->. apply Hne. apply starts_with_antisym; assumption. }
  congruence.
Qed.

(** one cleaning step removes exactly the queued file, whatever happens to the directories *)
Lemma clean_one_files snapshot files dirs p q :
  In q (fst (clean_one snapshot files dirs p)) <-> In q files /\ q <> p.
Proof.
  unfold clean_one. cbn [fst]. rewrite filter_In, negb_true_iff, path_eqb_neq. tauto.
Qed.
