(** C11: what a batch run writes (one output per successful item, at its output path, from
    the original inputs, and nothing else), independence from the processing order, isolation
    of a faulty file, fail-fast. *)
From Coq Require Import Arith PeanoNat Lia Permutation.
From DL Require Import Lib.Bytes Model.WorkerFs Model.Batch Proof.WorkerBasics.
Open Scope N_scope.

(** * collect_work *)

Lemma has_src_spec s l : has_src s l = true <-> exists it, In it l /\ fst it = s.
Proof.
  induction l as [|it l IH]; cbn [has_src In].
  - split; [discriminate|intros [it [[] _]]].
  - rewrite orb_true_iff, IH, path_eqb_eq. split.
    + intros [H|[x [H1 H2]]]; [exists it; auto|exists x; auto].
    + intros [x [[->|H1] H2]]; [left; exact H2|right; exists x; auto].
Qed.

Lemma add_missing_in l : forall acc it, In it (add_missing acc l) -> In it acc \/ In it l.
Proof.
  induction l as [|x l IH]; intros acc it H; cbn [add_missing] in H; [left; exact H|].
  apply IH in H as [H|H]; [|right; right; exact H].
  destruct (has_src (fst x) acc); [left; exact H|].
  apply in_app_or in H as [H|[<-|[]]]; [left; exact H|right; left; reflexivity].
Qed.

Lemma add_missing_keeps l : forall acc it, In it acc -> In it (add_missing acc l).
Proof.
  induction l as [|x l IH]; intros acc it H; cbn [add_missing]; [exact H|].
  apply IH. destruct (has_src (fst x) acc); [exact H|apply in_or_app; left; exact H].
Qed.

Lemma add_missing_covers l : forall acc it, In it l -> has_src (fst it) (add_missing acc l) = true.
Proof.
  induction l as [|x l IH]; intros acc it H; [destruct H|]. cbn [add_missing].
  destruct H as [->|H]; [|apply IH; exact H].
  apply has_src_spec. destruct (has_src (fst it) acc) eqn:Eh.
  - apply has_src_spec in Eh as [y [H1 H2]]. exists y. split; [apply add_missing_keeps; exact H1|exact H2].
  - exists it. split; [apply add_missing_keeps; apply in_or_app; right; left; reflexivity|reflexivity].
Qed.

Lemma nodup_snoc {A} (l : list A) x : NoDup l -> ~ In x l -> NoDup (l ++ [x]).
Proof.
  induction l as [|y l IH]; intros Hn Hx; cbn.
  - constructor; [intros []|constructor].
  - inversion Hn as [|? ? Hy Hn']; subst. constructor.
    + intros Hin. apply in_app_or in Hin as [Hin|[<-|[]]]; [contradiction|]. apply Hx. left. reflexivity.
    + apply IH; [exact Hn'|]. intros H. apply Hx. right. exact H.
Qed.

Lemma add_missing_nodup l : forall acc,
  NoDup (map fst acc) -> NoDup (map fst (add_missing acc l)).
Proof.
  induction l as [|x l IH]; intros acc H; cbn [add_missing]; [exact H|].
  apply IH. destruct (has_src (fst x) acc) eqn:Eh; [exact H|].
  rewrite map_app. cbn [map]. apply nodup_snoc; [exact H|].
  intros Hin. apply in_map_iff in Hin as [y [H1 H2]].
  assert (has_src (fst x) acc = true) by (apply has_src_spec; eauto). congruence.
Qed.

(** directory input with an output: exactly the Lua files under the input, each at its
    mirrored path, each once *)
Theorem collect_dir_mirror f input out items :
  fs_is_file f input = false ->
  collect f input (Some out) = Some items ->
  (forall s o, In (s, o) items <->
               (fs_get f s <> None /\ starts_with input s = true /\ is_lua_path s = true) /\
               o = rebase input out s) /\
  NoDup (map fst items).
Proof.
  intros Hf H. unfold collect in H. rewrite Hf in H. inversion H as [Hi]. clear H.
  set (l := map (fun s => (s, rebase input out s)) (fs_collect f input)). split.
  - intros s o. rewrite <- fs_collect_spec. split.
    + intros Hin. apply add_missing_in in Hin as [[]|Hin]. unfold l in Hin.
      apply in_map_iff in Hin as [s' [Heq Hs']]. inversion Heq; subst. auto.
    + intros [Hs ->].
      assert (Hl : In (s, rebase input out s) l) by (unfold l; apply in_map_iff; eauto).
      pose proof (add_missing_covers l [] _ Hl) as Hc. cbn [fst] in Hc.
      apply has_src_spec in Hc as [[s' o'] [H1 H2]]. cbn [fst] in H2. subst s'.
      pose proof H1 as H1'. apply add_missing_in in H1' as [[]|H1']. unfold l in H1'.
      apply in_map_iff in H1' as [s'' [Heq _]]. inversion Heq; subst. exact H1.
  - apply add_missing_nodup. constructor.
Qed.

(** in place: every Lua file under the input is its own output *)
Theorem collect_in_place f input items :
  collect f input None = Some items ->
  (forall s o, In (s, o) items <->
               (fs_get f s <> None /\ starts_with input s = true /\ is_lua_path s = true) /\ o = s) /\
  NoDup (map fst items).
Proof.
  intros H. unfold collect in H. inversion H as [Hi]. clear H.
  set (l := map (fun s => (s, s)) (fs_collect f input)). split.
  - intros s o. rewrite <- fs_collect_spec. split.
    + intros Hin. apply add_missing_in in Hin as [[]|Hin]. unfold l in Hin.
      apply in_map_iff in Hin as [s' [Heq Hs']]. inversion Heq; subst. auto.
    + intros [Hs ->].
      assert (Hl : In (s, s) l) by (unfold l; apply in_map_iff; eauto).
      pose proof (add_missing_covers l [] _ Hl) as Hc. cbn [fst] in Hc.
      apply has_src_spec in Hc as [[s' o'] [H1 H2]]. cbn [fst] in H2. subst s'.
      pose proof H1 as H1'. apply add_missing_in in H1' as [[]|H1']. unfold l in H1'.
      apply in_map_iff in H1' as [s'' [Heq _]]. inversion Heq; subst. exact H1.
  - apply add_missing_nodup. constructor.
Qed.

(** a single file given as input, with an output: exactly one item, whatever the extension
    of the input, at the path the decision gives *)
Theorem collect_single_file f input out items :
  fs_is_file f input = true ->
  collect f input (Some out) = Some items ->
  exists o, items = [(input, o)] /\
            match output_decision (fs_is_dir f out) (fs_is_file f out) (is_some (path_extension out)) with
            | AsFile => o = out
            | InsideDirectory => exists n, file_name input = Some n /\ o = (out ++ [n])%list
            end.
Proof.
  intros Hf H. unfold collect in H. rewrite Hf in H.
  destruct (output_decision (fs_is_dir f out) (fs_is_file f out) (is_some (path_extension out))).
  - inversion H. eauto.
  - destruct (file_name input) as [n|]; [|discriminate]. cbn in H. inversion H. eauto.
Qed.

(** a single file given as input without output: processed in place if and only if its
    extension is lua/luau *)
Theorem collect_single_in_place f input items :
  fs_is_file f input = true -> fs_is_dir f input = false ->
  collect f input None = Some items ->
  forall s o, In (s, o) items <-> (s = input /\ o = input /\ is_lua_path input = true).
Proof.
  intros Hf Hd Hc s o. destruct (collect_in_place f input items Hc) as [Hspec _]. rewrite Hspec.
  assert (Hex : fs_get f input <> None).
  { unfold fs_is_file in Hf. destruct (fs_get f input); [discriminate|discriminate]. }
  split.
  - intros [[H1 [H2 H3]] ->].
    assert (s = input).
    { destruct (path_eq_dec s input) as [E|E]; [exact E|]. exfalso.
      assert (fs_is_dir f input = true) by (apply fs_is_dir_spec; exists s; auto). congruence. }
    subst s. auto.
  - intros [-> [-> H]]. split; [|reflexivity]. split; [exact Hex|]. split; [apply starts_with_refl|exact H].
Qed.

(** * The run *)

Section Facts.
  Variable cfg : Type.
  Variable xform : cfg -> path -> content -> fs -> option content * list path.

  Notation outcome := (outcome cfg xform).
  Notation run_batch := (run_batch cfg xform).
  Notation spec_get := (spec_get cfg xform).
  Notation until_failure := (until_failure cfg xform).

  (** outputs are distinct, and no item's source is another item's output *)
  Definition wf_items (items : list bitem) : Prop :=
    NoDup (map snd items) /\ forall a b, In a items -> In b items -> snd b = fst a -> a = b.

  (** the transformation of any file does not read an output path of the batch *)
  Definition reads_no_output (c : cfg) (items : list bitem) : Prop :=
    forall s txt g g', (forall p, ~ In p (map snd items) -> fs_get g p = fs_get g' p) ->
                       xform c s txt g = xform c s txt g'.

  Lemma spec_get_ext c f items g g' p :
    fs_get g p = fs_get g' p -> spec_get c f items g p = spec_get c f items g' p.
  Proof.
    intros H. induction items as [|it items IH]; cbn [Batch.spec_get]; [exact H|].
    destruct (path_eqb (snd it) p); [|exact IH]. destruct (outcome c f it); [reflexivity|exact IH].
  Qed.

  Lemma spec_get_notin c f items g p :
    (forall it, In it items -> snd it <> p) -> spec_get c f items g p = fs_get g p.
  Proof.
    induction items as [|it items IH]; intros H; cbn [Batch.spec_get]; [reflexivity|].
    destruct (path_eqb (snd it) p) eqn:E.
    - apply path_eqb_eq in E. exfalso. apply (H it); [left; reflexivity|exact E].
    - apply IH. intros x Hx. apply H. right. exact Hx.
  Qed.

  Lemma spec_get_in c f items g p it :
    NoDup (map snd items) -> In it items -> snd it = p ->
    spec_get c f items g p = match outcome c f it with Some o => Some o | None => fs_get g p end.
  Proof.
    induction items as [|x items IH]; intros Hnd Hin Hp; [destruct Hin|].
    cbn [Batch.spec_get]. cbn [map] in Hnd. inversion Hnd as [|? ? Hnot Hnd']; subst.
    destruct Hin as [->|Hin].
    - rewrite path_eqb_refl. destruct (outcome c f it); [reflexivity|].
      apply spec_get_notin. intros y Hy Heq. apply Hnot. rewrite <- Heq. apply in_map. exact Hy.
    - assert (Hne : path_eqb (snd x) (snd it) = false).
      { apply path_eqb_neq. intros Heq. apply Hnot. rewrite Heq. apply in_map. exact Hin. }
      rewrite Hne. apply IH; auto.
  Qed.

  (** the central fact: processing a sub-list of the batch on a file system that still has the
      original inputs gives, point-wise, the specification computed from the original files *)
  Lemma run_spec c all f : wf_items all -> reads_no_output c all ->
    forall items g,
      incl items all -> NoDup (map snd items) ->
      (forall p, ~ In p (map snd all) -> fs_get g p = fs_get f p) ->
      (forall it, In it items -> fs_get g (fst it) = fs_get f (fst it)) ->
      (forall p, fs_get (fst (run_batch false c items g)) p = spec_get c f items g p) /\
      snd (run_batch false c items g) = map (fun it => (fst it, is_some (outcome c f it))) items.
  Proof.
    intros [Hnd_all Hwf] Hind. induction items as [|it items IH]; intros g Hincl Hnd Hout Hsrc.
    - cbn. auto.
    - cbn [map] in Hnd. inversion Hnd as [|? ? Hnot Hnd']; subst.
      assert (Hit : In it all) by (apply Hincl; left; reflexivity).
      assert (Ho : outcome c g it = outcome c f it).
      { unfold Batch.outcome. rewrite (Hsrc it (or_introl eq_refl)).
        destruct (fs_get f (fst it)) as [txt|]; [|reflexivity]. f_equal. apply Hind. exact Hout. }
      cbn [Batch.run_batch]. unfold process_item. rewrite Ho. cbn [andb].
      set (g1 := match outcome c f it with Some o => fs_write g (snd it) o | None => g end).
      assert (Hg1 : forall p, p <> snd it -> fs_get g1 p = fs_get g p).
      { intros p Hp. unfold g1. destruct (outcome c f it); [|reflexivity].
        rewrite fs_get_write. destruct (path_eqb (snd it) p) eqn:E; [|reflexivity].
        apply path_eqb_eq in E. congruence. }
      assert (Hrest : (forall p, fs_get (fst (run_batch false c items g1)) p = spec_get c f items g1 p) /\
                      snd (run_batch false c items g1) =
                      map (fun it => (fst it, is_some (outcome c f it))) items).
      { apply IH.
        - intros x Hx. apply Hincl. right. exact Hx.
        - exact Hnd'.
        - intros p Hp. rewrite Hg1; [apply Hout; exact Hp|]. intros ->. apply Hp. apply in_map. exact Hit.
        - intros x Hx. rewrite Hg1; [apply Hsrc; right; exact Hx|].
          intros Heq. assert (x = it) by (apply Hwf; [apply Hincl; right; exact Hx|exact Hit|auto]).
          subst x. apply Hnot. apply in_map. exact Hx. }
      destruct Hrest as [Hr1 Hr2].
      assert (Hshape : run_batch false c items g1 =
                       (fst (run_batch false c items g1), snd (run_batch false c items g1)))
        by (destruct (run_batch false c items g1); reflexivity).
      destruct (outcome c f it) as [o|] eqn:Eo.
      + fold g1. rewrite Hshape. cbn [fst snd negb andb]. split.
        * intros p. rewrite Hr1. cbn [Batch.spec_get]. rewrite Eo.
          destruct (path_eqb (snd it) p) eqn:E.
          -- apply path_eqb_eq in E. subst p. rewrite spec_get_notin.
             ++ unfold g1. rewrite fs_get_write, path_eqb_refl. reflexivity.
             ++ intros y Hy Heq. apply Hnot. rewrite <- Heq. apply in_map. exact Hy.
          -- apply spec_get_ext. apply Hg1. apply path_eqb_neq in E. congruence.
        * cbn [map]. rewrite Eo, Hr2. reflexivity.
      + fold g1. rewrite Hshape. cbn [fst snd negb andb]. split.
        * intros p. rewrite Hr1. cbn [Batch.spec_get]. rewrite Eo.
          destruct (path_eqb (snd it) p); reflexivity.
        * cbn [map]. rewrite Eo, Hr2. reflexivity.
  Qed.

  (** ** one-to-one: what is written, and nothing else *)
  Theorem batch_one_to_one c items f :
    wf_items items -> reads_no_output c items ->
    (forall p, fs_get (fst (run_batch false c items f)) p = spec_get c f items f p) /\
    snd (run_batch false c items f) = map (fun it => (fst it, is_some (outcome c f it))) items.
  Proof.
    intros W I. apply (run_spec c items f W I items f).
    - apply incl_refl.
    - apply W.
    - reflexivity.
    - reflexivity.
  Qed.

  (** every path that is not the output of an item keeps its content: input files are never
      modified when the outputs lie elsewhere *)
  Theorem batch_untouched c items f p :
    wf_items items -> reads_no_output c items ->
    (forall it, In it items -> snd it <> p) ->
    fs_get (fst (run_batch false c items f)) p = fs_get f p.
  Proof.
    intros W I H. rewrite (proj1 (batch_one_to_one c items f W I)). apply spec_get_notin. exact H.
  Qed.

  (** nothing is written for an item that fails, and a successful item's output is the
      transformation of the ORIGINAL source *)
  Theorem batch_item_result c items f it :
    wf_items items -> reads_no_output c items -> In it items ->
    fs_get (fst (run_batch false c items f)) (snd it) =
    match outcome c f it with Some o => Some o | None => fs_get f (snd it) end.
  Proof.
    intros W I Hin. rewrite (proj1 (batch_one_to_one c items f W I)).
    apply spec_get_in; [apply W|exact Hin|reflexivity].
  Qed.

  (** ** the order of the items is irrelevant (without fail-fast) *)
  Lemma wf_items_perm items items' : Permutation items items' -> wf_items items -> wf_items items'.
  Proof.
    intros P [H1 H2]. split.
    - eapply Permutation_NoDup; [apply Permutation_map; exact P|exact H1].
    - intros a b Ha Hb. apply H2; eapply Permutation_in; try eassumption; apply Permutation_sym; exact P.
  Qed.

  Lemma reads_no_output_perm c items items' :
    Permutation items items' -> reads_no_output c items -> reads_no_output c items'.
  Proof.
    intros P H s txt g g' Hg. apply H. intros p Hp. apply Hg. intros Hin. apply Hp.
    eapply Permutation_in; [apply Permutation_map; apply Permutation_sym; exact P|exact Hin].
  Qed.

  Lemma spec_get_perm c f items items' g p :
    NoDup (map snd items) -> Permutation items items' ->
    spec_get c f items g p = spec_get c f items' g p.
  Proof.
    intros Hnd P.
    assert (Hnd' : NoDup (map snd items')) by (eapply Permutation_NoDup; [apply Permutation_map; exact P|exact Hnd]).
    destruct (find (fun it => path_eqb (snd it) p) items) as [it|] eqn:Ef.
    - apply find_some in Ef as [Hin Heq]. apply path_eqb_eq in Heq.
      rewrite (spec_get_in c f items g p it Hnd Hin Heq).
      rewrite (spec_get_in c f items' g p it Hnd' (Permutation_in _ P Hin) Heq). reflexivity.
    - rewrite !spec_get_notin; [reflexivity| |].
      + intros it Hin Heq. apply (Permutation_in _ (Permutation_sym P)) in Hin.
        pose proof (find_none _ _ Ef it Hin) as Hn. cbn in Hn. apply path_eqb_neq in Hn. contradiction.
      + intros it Hin Heq. pose proof (find_none _ _ Ef it Hin) as Hn. cbn in Hn.
        apply path_eqb_neq in Hn. contradiction.
  Qed.

  Theorem order_irrelevant c items items' f :
    Permutation items items' -> wf_items items -> reads_no_output c items ->
    (forall p, fs_get (fst (run_batch false c items f)) p = fs_get (fst (run_batch false c items' f)) p) /\
    Permutation (snd (run_batch false c items f)) (snd (run_batch false c items' f)).
  Proof.
    intros P W I.
    pose proof (wf_items_perm _ _ P W) as W'. pose proof (reads_no_output_perm c _ _ P I) as I'.
    destruct (batch_one_to_one c items f W I) as [H1 H2].
    destruct (batch_one_to_one c items' f W' I') as [H1' H2']. split.
    - intros p. rewrite H1, H1'. apply spec_get_perm; [apply W|exact P].
    - rewrite H2, H2'. apply Permutation_map. exact P.
  Qed.

  (** ** isolation: the other files are processed as if the faulty one were absent *)
  Definition without (j : bitem) (items : list bitem) : list bitem :=
    filter (fun it => negb (path_eqb (fst it) (fst j))) items.

  (** no other file's transformation looks at the file [q] *)
  Definition ignores (c : cfg) (q : path) : Prop :=
    forall s txt g g', s <> q -> (forall p, p <> q -> fs_get g p = fs_get g' p) ->
                       xform c s txt g = xform c s txt g'.

  Theorem isolation c items f j it :
    wf_items items -> reads_no_output c items -> ignores c (fst j) ->
    In j items -> In it items -> fst it <> fst j ->
    fs_get (fst (run_batch false c items f)) (snd it) =
    fs_get (fst (run_batch false c (without j items) (fs_del f (fst j)))) (snd it)
    /\ outcome c f it = outcome c (fs_del f (fst j)) it.
  Proof.
    intros W I Hig Hj Hit Hne.
    assert (W' : wf_items (without j items)).
    { destruct W as [W1 W2]. split.
      - unfold without. clear -W1. induction items as [|x l IH]; cbn; [constructor|].
        cbn [map] in W1. inversion W1 as [|? ? Hn Hnd]; subst.
        destruct (negb (path_eqb (fst x) (fst j))); [|apply IH; exact Hnd].
        cbn [map]. constructor; [|apply IH; exact Hnd].
        intros Hin. apply Hn. apply in_map_iff in Hin as [y [H1 H2]]. apply filter_In in H2 as [H2 _].
        rewrite <- H1. apply in_map. exact H2.
      - intros a b Ha Hb. unfold without in Ha, Hb. apply filter_In in Ha as [Ha _]. apply filter_In in Hb as [Hb _].
        apply W2; assumption. }
    assert (I' : reads_no_output c (without j items)).
    { intros s txt g g' Hg. apply I. intros p Hp. apply Hg. intros Hin. apply Hp.
      apply in_map_iff in Hin as [y [H1 H2]]. apply filter_In in H2 as [H2 _]. rewrite <- H1. apply in_map. exact H2. }
    assert (Hit' : In it (without j items)).
    { apply filter_In. split; [exact Hit|]. apply negb_true_iff, path_eqb_neq. exact Hne. }
    assert (Hout : outcome c f it = outcome c (fs_del f (fst j)) it).
    { unfold Batch.outcome. rewrite fs_get_del.
      assert (Hp : path_eqb (fst j) (fst it) = false) by (apply path_eqb_neq; congruence).
      rewrite Hp. destruct (fs_get f (fst it)) as [txt|]; [|reflexivity]. f_equal.
      apply Hig; [exact Hne|]. intros p Hp'. rewrite fs_get_del.
      destruct (path_eqb (fst j) p) eqn:E; [apply path_eqb_eq in E; congruence|reflexivity]. }
    split; [|exact Hout].
    rewrite (batch_item_result c items f it W I Hit).
    rewrite (batch_item_result c (without j items) (fs_del f (fst j)) it W' I' Hit').
    rewrite <- Hout. destruct (outcome c f it); [reflexivity|].
    rewrite fs_get_del. destruct (path_eqb (fst j) (snd it)) eqn:E; [|reflexivity].
    apply path_eqb_eq in E. exfalso. apply Hne. destruct W as [_ W2].
    assert (j = it) by (apply W2; [exact Hj|exact Hit|congruence]). subst. reflexivity.
  Qed.

  (** ** fail-fast: the run stops after the first failure *)
  Lemma run_batch_shape ff c items g :
    run_batch ff c items g = (fst (run_batch ff c items g), snd (run_batch ff c items g)).
  Proof. destruct (run_batch ff c items g); reflexivity. Qed.

  Theorem fail_fast_prefix c all f : wf_items all -> reads_no_output c all ->
    forall items g,
      incl items all -> NoDup (map snd items) ->
      (forall p, ~ In p (map snd all) -> fs_get g p = fs_get f p) ->
      (forall it, In it items -> fs_get g (fst it) = fs_get f (fst it)) ->
      run_batch true c items g = run_batch false c (until_failure c f items) g.
  Proof.
    intros [Hnd_all Hwf] Hind. induction items as [|it items IH]; intros g Hincl Hnd Hout Hsrc.
    - reflexivity.
    - cbn [map] in Hnd. inversion Hnd as [|? ? Hnot Hnd']; subst.
      assert (Hit : In it all) by (apply Hincl; left; reflexivity).
      assert (Ho : outcome c g it = outcome c f it).
      { unfold Batch.outcome. rewrite (Hsrc it (or_introl eq_refl)).
        destruct (fs_get f (fst it)) as [txt|]; [|reflexivity]. f_equal. apply Hind. exact Hout. }
      cbn [Batch.run_batch Batch.until_failure]. unfold process_item. rewrite Ho.
      destruct (outcome c f it) as [o|] eqn:Eo.
      + cbn [andb negb Batch.run_batch]. unfold process_item. rewrite Ho. cbn [andb negb].
        rewrite IH; [reflexivity| | | |].
        * intros x Hx. apply Hincl. right. exact Hx.
        * exact Hnd'.
        * intros p Hp. rewrite fs_get_write. destruct (path_eqb (snd it) p) eqn:E; [|apply Hout; exact Hp].
          apply path_eqb_eq in E. subst p. exfalso. apply Hp. apply in_map. exact Hit.
        * intros x Hx. rewrite fs_get_write. destruct (path_eqb (snd it) (fst x)) eqn:E; [|apply Hsrc; right; exact Hx].
          apply path_eqb_eq in E. assert (x = it) by (apply Hwf; [apply Hincl; right; exact Hx|exact Hit|auto]).
          subst x. exfalso. apply Hnot. apply in_map. exact Hx.
      + cbn [andb negb Batch.run_batch]. unfold process_item. rewrite Ho. reflexivity.
  Qed.
End Facts.

(** * The item lists produced by [collect] are well formed *)

Lemma nodup_map_inj {A B} (g : A -> B) (l : list A) :
  (forall x y, In x l -> In y l -> g x = g y -> x = y) -> NoDup l -> NoDup (map g l).
Proof.
  induction l as [|x l IH]; intros Hinj Hn; cbn; [constructor|].
  inversion Hn as [|? ? Hx Hn']; subst. constructor.
  - intros Hin. apply in_map_iff in Hin as [y [H1 H2]].
    assert (y = x) by (apply Hinj; [right; exact H2|left; reflexivity|exact H1]). subst. contradiction.
  - apply IH; [|exact Hn']. intros a b Ha Hb. apply Hinj; right; assumption.
Qed.

Lemma nodup_fst_items (items : list bitem) a b :
  NoDup (map fst items) -> In a items -> In b items -> fst a = fst b -> a = b \/ snd a <> snd b \/ True.
Proof. auto. Qed.

Lemma in_items_fst_unique (items : list bitem) :
  NoDup (map fst items) -> forall a b, In a items -> In b items -> fst a = fst b -> a = b.
Proof.
  induction items as [|x l IH]; intros Hn a b Ha Hb Hab; [destruct Ha|].
  cbn [map] in Hn. inversion Hn as [|? ? Hx Hn']; subst.
  destruct Ha as [->|Ha], Hb as [->|Hb].
  - reflexivity.
  - exfalso. apply Hx. rewrite Hab. apply in_map. exact Hb.
  - exfalso. apply Hx. rewrite <- Hab. apply in_map. exact Ha.
  - apply IH; assumption.
Qed.

(** directory to a separate output location (the output is not a prefix of a source) *)
Theorem collect_dir_wf f input out items :
  fs_is_file f input = false ->
  collect f input (Some out) = Some items ->
  (forall s, In s (fs_collect f input) -> starts_with out s = false) ->
  wf_items items.
Proof.
  intros Hf Hc Hsep. destruct (collect_dir_mirror f input out items Hf Hc) as [Hspec Hnd].
  assert (Hshape : forall it, In it items ->
                              In (fst it) (fs_collect f input) /\ snd it = rebase input out (fst it)).
  { intros [s o] Hin. apply Hspec in Hin as [H1 H2]. cbn. split; [apply fs_collect_spec; exact H1|exact H2]. }
  split.
  - assert (Heq : map snd items = map (fun it => rebase input out (fst it)) items).
    { apply map_ext_in. intros it Hin. apply (Hshape it Hin). }
    rewrite Heq. apply nodup_map_inj.
    + intros a b Ha Hb Hab. apply in_items_fst_unique with (items := items); try assumption.
      destruct (Hshape a Ha) as [Hsa _]. destruct (Hshape b Hb) as [Hsb _].
      apply fs_collect_spec in Hsa as [_ [Hsa _]]. apply fs_collect_spec in Hsb as [_ [Hsb _]].
      eapply rebase_inj; eassumption.
    + clear -Hnd. induction items as [|x l IH]; [constructor|]. cbn [map] in Hnd.
      inversion Hnd as [|? ? Hx Hn']; subst. constructor; [|apply IH; exact Hn'].
      intros Hin. apply Hx. apply in_map. exact Hin.
  - intros a b Ha Hb Hab. exfalso. destruct (Hshape a Ha) as [Hsa _]. destruct (Hshape b Hb) as [_ Hob].
    pose proof (Hsep _ Hsa) as Hno. rewrite <- Hab, Hob, rebase_starts in Hno. discriminate.
Qed.

Theorem collect_in_place_wf f input items :
  collect f input None = Some items -> wf_items items.
Proof.
  intros Hc. destruct (collect_in_place f input items Hc) as [Hspec Hnd].
  assert (Hshape : forall it, In it items -> snd it = fst it).
  { intros [s o] Hin. apply Hspec in Hin as [_ H2]. exact H2. }
  assert (Heq : map snd items = map fst items) by (apply map_ext_in; exact Hshape).
  split; [rewrite Heq; exact Hnd|].
  intros a b Ha Hb Hab. apply in_items_fst_unique with (items := items); try assumption.
  rewrite <- Hab. apply Hshape. exact Hb.
Qed.

(** processing a directory into a separate location never modifies a file outside it *)
Theorem inputs_untouched cfg xform (c : cfg) f input out items p :
  fs_is_file f input = false ->
  collect f input (Some out) = Some items ->
  (forall s, In s (fs_collect f input) -> starts_with out s = false) ->
  reads_no_output cfg xform c items ->
  starts_with out p = false ->
  fs_get (fst (run_batch cfg xform false c items f)) p = fs_get f p.
Proof.
  intros Hf Hc Hsep Hr Hp. apply batch_untouched; [eapply collect_dir_wf; eassumption|exact Hr|].
  intros [s o] Hin Heq. cbn in Heq. subst o.
  destruct (collect_dir_mirror f input out items Hf Hc) as [Hspec _].
  apply Hspec in Hin as [_ ->]. rewrite rebase_starts in Hp. discriminate.
Qed.

(** * Hidden state: the result of a file is a function of the file and the file system only *)

Section StatefulFacts.
  Variable cfg : Type.
  Variable st : Type.
  Variable xform : cfg -> path -> content -> fs -> option content * list path.
  Variable sxform : st -> cfg -> path -> content -> fs -> (option content * list path) * st.

  (** the hidden state (caches, earlier items, earlier runs) never changes a result *)
  Definition stateless : Prop :=
    forall s c q txt f, fst (sxform s c q txt f) = xform c q txt f.

  (** then the stateful run, from ANY initial state, is the pure run: the theorems about
      [run_batch] (one-to-one, isolation, order irrelevance) apply, and what was processed before
      on the same thread - in this run or in an earlier one - cannot matter *)
  Theorem stateless_run ff c : stateless -> forall items f s,
    fst (run_batch_st cfg st sxform ff c items f s) = run_batch cfg xform ff c items f.
  Proof.
    intros H. induction items as [|it items IH]; intros f s; [reflexivity|].
    cbn [run_batch_st Batch.run_batch]. unfold process_item_st, process_item, outcome.
    destruct (fs_get f (fst it)) as [txt|] eqn:Et.
    - pose proof (H s c (fst it) txt f) as Hx.
      destruct (sxform s c (fst it) txt f) as [r s'] eqn:Es. cbn [fst] in Hx. rewrite <- Hx.
      destruct (fst r) as [o|]; cbn [andb negb].
      + specialize (IH (fs_write f (snd it) o) s').
        destruct (run_batch_st cfg st sxform ff c items (fs_write f (snd it) o) s') as [[f2 sts] s2].
        cbn [fst] in IH. rewrite <- IH. destruct ff; reflexivity.
      + destruct ff; cbn [andb].
        * reflexivity.
        * specialize (IH f s'). destruct (run_batch_st cfg st sxform false c items f s') as [[f2 sts] s2].
          cbn [fst] in IH. rewrite <- IH. reflexivity.
    - cbn [andb negb]. destruct ff; cbn [andb].
      + reflexivity.
      + specialize (IH f s). destruct (run_batch_st cfg st sxform false c items f s) as [[f2 sts] s2].
        cbn [fst] in IH. rewrite <- IH. reflexivity.
  Qed.

  Corollary earlier_state_irrelevant ff c items f s s' :
    stateless ->
    fst (run_batch_st cfg st sxform ff c items f s) = fst (run_batch_st cfg st sxform ff c items f s').
  Proof. intros H. rewrite !(stateless_run ff c H). reflexivity. Qed.
End StatefulFacts.

(** a cache that is keyed too coarsely makes the result depend on the order: the first
    [.luaurc] resolved is reused for every later file *)
Definition rc_root : path := ["src"; ".luaurc"]%string.
Definition rc_nested : path := ["src"; "nested"; ".luaurc"]%string.
Definition rc_top : path := ["src"; "top.lua"]%string.
Definition rc_low : path := ["src"; "nested"; "low.lua"]%string.

Definition closest_rc (q : path) (f : fs) : option content :=
  if starts_with ["src"; "nested"]%string q then
    match fs_get f rc_nested with Some r => Some r | None => fs_get f rc_root end
  else fs_get f rc_root.

(** pure: every file uses its closest [.luaurc] *)
Definition rc_xform (c : N) (q : path) (txt : content) (f : fs) : option content * list path :=
  (option_map (fun r => r ++ txt) (closest_rc q f), []).

(** with a cache shared by all directories *)
Definition rc_sxform (s : option content) (c : N) (q : path) (txt : content) (f : fs)
  : (option content * list path) * option content :=
  match s with
  | Some r => ((Some (r ++ txt), []), s)
  | None => ((option_map (fun r => r ++ txt) (closest_rc q f), []), closest_rc q f)
  end.

Definition rc_fs : fs := [(rc_root, [1]); (rc_nested, [2]); (rc_top, [10]); (rc_low, [20])].
Definition rc_items : list bitem :=
  [(rc_top, ["out"; "top.lua"]%string); (rc_low, ["out"; "nested"; "low.lua"]%string)].

Theorem shared_cache_order_refuted :
  Permutation rc_items (rev rc_items) /\
  fs_get (fst (fst (run_batch_st N (option content) rc_sxform false 0 rc_items rc_fs None)))
         ["out"; "nested"; "low.lua"]%string <>
  fs_get (fst (fst (run_batch_st N (option content) rc_sxform false 0 (rev rc_items) rc_fs None)))
         ["out"; "nested"; "low.lua"]%string /\
  (* and a state left by an earlier run changes the result of this one *)
  fs_get (fst (fst (run_batch_st N (option content) rc_sxform false 0 rc_items rc_fs (Some [9]))))
         ["out"; "top.lua"]%string <>
  fs_get (fst (run_batch N rc_xform false 0 rc_items rc_fs)) ["out"; "top.lua"]%string.
Proof. split; [apply Permutation_rev|]. split; vm_compute; discriminate. Qed.

(** * A concrete instance: the hypotheses are satisfiable, and needed *)

Definition b_a : path := ["src"; "a.lua"]%string.
Definition b_b : path := ["src"; "b.lua"]%string.
Definition b_main : path := ["src"; "main.lua"]%string.

(** [main.lua] inlines [a.lua]; a text starting with byte 0 does not parse; rules add 100 *)
Definition b_xform (c : N) (q : path) (txt : content) (f : fs) : option content * list path :=
  match txt with
  | 0 :: _ => (None, [])
  | _ =>
    if path_eqb q b_main then
      match fs_get f b_a with
      | Some at_ => (Some (100 :: txt ++ at_), [b_a])
      | None => (None, [])
      end
    else (Some (100 :: txt), [])
  end.

Definition b_fs : fs := [(b_a, [1]); (b_b, [2]); (b_main, [3])].
Definition b_out (s : path) : path := rebase ["src"%string] ["out"%string] s.
Definition b_items_dir : list bitem := [(b_a, b_out b_a); (b_b, b_out b_b); (b_main, b_out b_main)].
Definition b_items_in_place : list bitem := [(b_a, b_a); (b_b, b_b); (b_main, b_main)].

Example batch_dir_collect :
  collect b_fs ["src"%string] (Some ["out"%string]) = Some b_items_dir.
Proof. vm_compute. reflexivity. Qed.

(** with the output elsewhere, two orders give the same files *)
Example batch_dir_orders_agree :
  forall p, In p (map snd b_items_dir ++ map fst b_items_dir) ->
    fs_get (fst (run_batch N b_xform false 0 b_items_dir b_fs)) p =
    fs_get (fst (run_batch N b_xform false 0 (rev b_items_dir) b_fs)) p.
Proof. intros p H. cbn in H. repeat (destruct H as [<-|H]; [vm_compute; reflexivity|]). destruct H. Qed.

(** in place, a bundle entry sees its module either before or after that module was
    rewritten: the result depends on the enumeration order *)
Theorem in_place_order_refuted :
  Permutation b_items_in_place (rev b_items_in_place) /\
  fs_get (fst (run_batch N b_xform false 0 b_items_in_place b_fs)) b_main <>
  fs_get (fst (run_batch N b_xform false 0 (rev b_items_in_place) b_fs)) b_main.
Proof. split; [apply Permutation_rev|]. vm_compute. discriminate. Qed.

(** fail-fast: which good files get written depends on where the faulty one is enumerated *)
Definition b_fs_bad : fs := [(b_a, [1]); (b_b, [0]); (b_main, [3])].

Theorem fail_fast_order_refuted :
  Permutation b_items_dir (rev b_items_dir) /\
  fs_get (fst (run_batch N b_xform true 0 b_items_dir b_fs_bad)) (b_out b_a) <>
  fs_get (fst (run_batch N b_xform true 0 (rev b_items_dir) b_fs_bad)) (b_out b_a).
Proof. split; [apply Permutation_rev|]. vm_compute. discriminate. Qed.

(** the hypotheses of the order / isolation theorems hold for the instance when the output is a
    separate directory: [main.lua] reads [src/a.lua], which no item writes *)
Lemma b_dir_wf : wf_items b_items_dir.
Proof.
  split.
  - vm_compute. repeat constructor; cbn; intuition discriminate.
  - intros a b Ha Hb Hab. exfalso. cbn in Ha, Hb.
    destruct Ha as [<-|[<-|[<-|[]]]], Hb as [<-|[<-|[<-|[]]]]; vm_compute in Hab; discriminate.
Qed.

Lemma b_dir_reads_no_output c : reads_no_output N b_xform c b_items_dir.
Proof.
  intros s txt g g' H. unfold b_xform.
  assert (Ha : fs_get g b_a = fs_get g' b_a).
  { apply H. vm_compute. intros [E|[E|[E|[]]]]; discriminate. }
  rewrite Ha. reflexivity.
Qed.

Theorem b_dir_order_irrelevant items' f :
  Permutation b_items_dir items' ->
  forall p, fs_get (fst (run_batch N b_xform false 0 b_items_dir f)) p =
            fs_get (fst (run_batch N b_xform false 0 items' f)) p.
Proof.
  intros P. apply (order_irrelevant N b_xform 0 b_items_dir items' f P b_dir_wf (b_dir_reads_no_output 0)).
Qed.

(** work items are told apart by their exact path: names that differ only by case are two
    sources, each with its own output *)
Example collect_is_case_sensitive :
  collect [(["src"; "Config.lua"]%string, [1]); (["src"; "config.lua"]%string, [2])]
          ["src"%string] (Some ["out"%string])
  = Some [(["src"; "Config.lua"]%string, ["out"; "Config.lua"]%string);
          (["src"; "config.lua"]%string, ["out"; "config.lua"]%string)].
Proof. vm_compute. reflexivity. Qed.
