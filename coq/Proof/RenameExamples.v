(** Non-vacuity examples for the C09 theorems. *)
From Coq Require Import NArith List Bool Lia.
From DL Require Import Lib.Bytes Lua.Syntax Lua.Resolve Model.Rename Proof.RenameStream Proof.RenameInv
  Proof.ResolveFacts Proof.ResolveIdem.
Import ListNotations.
Open Scope N_scope.

Definition nm := of_string.

(** local x = 1; local function f(a) local x = a + x; return function() return x, y, f end end;
    repeat local d = f(x) until d; function t:m() return self, x end *)
Definition sample : block :=
  Block [SLocal false [Param (nm "x") None] [ENumber (NDec 1 None)];
         SLocalFunction (nm "f") (FBody [Param (nm "a") None] false None None None 0
           (Block [SLocal false [Param (nm "x") None] [EBinary BAdd (EIdent (nm "a")) (EIdent (nm "x"))]]
                  (Some (LReturn [EFunction (FBody [] false None None None 0
                     (Block [] (Some (LReturn [EIdent (nm "x"); EIdent (nm "y"); EIdent (nm "f")]))))]))));
         SRepeat (Block [SLocal false [Param (nm "d") None] [ECall (EIdent (nm "f")) None (ATuple [EIdent (nm "x")])]] None)
                 (EIdent (nm "d"));
         SFunction (nm "t") [] (Some (nm "m")) (FBody [] false None None None 0
           (Block [] (Some (LReturn [EIdent (nm "self"); EIdent (nm "x")]))))]
        None.

(** rename every binder called x to q, keep the others *)
Definition x_to (new : name) (_ : renv) (x : name) : name := if bytes_eqb x (nm "x") then new else x.

Example rename_ok_sample :
  rename_ok (x_to (nm "q")) sample = true /\ ren_block (x_to (nm "q")) [] sample <> sample /\
  nameless (ren_block (x_to (nm "q")) [] sample) = nameless sample.
Proof.
  split; [vm_compute; reflexivity|]. split; [vm_compute; discriminate|].
  apply nameless_rename_invariant. vm_compute. reflexivity.
Qed.

(** renaming x to a captures the parameter a: rejected, and the nameless form does change *)
Example rename_capture_sample :
  rename_ok (x_to (nm "a")) sample = false /\
  nameless (ren_block (x_to (nm "a")) [] sample) <> nameless sample.
Proof. split; [vm_compute; reflexivity | vm_compute; discriminate]. Qed.

(** renaming x to the global y captures y *)
Example rename_global_capture_sample :
  rename_ok (x_to (nm "y")) sample = false /\
  nameless (ren_block (x_to (nm "y")) [] sample) <> nameless sample.
Proof. split; [vm_compute; reflexivity | vm_compute; discriminate]. Qed.

Example idempotent_sample : canon_free sample = true /\ nameless sample <> sample.
Proof. split; [vm_compute; reflexivity | vm_compute; discriminate]. Qed.

(** an always-fresh pick: '!' followed by all new names in scope *)
Definition bang_pick (env : renv) (_ : name) : name := 33 :: List.concat (map snd env).

Lemma concat_length_ge (l : list name) x : In x l -> (List.length x <= List.length (List.concat l))%nat.
Proof.
  induction l as [|y l IH]; [contradiction|]. cbn [List.concat]. rewrite app_length.
  intros [->|H]; [lia | specialize (IH H); lia].
Qed.

Example fresh_sample :
  nameless (ren_block bang_pick [] sample) = nameless sample /\ ren_block bang_pick [] sample <> sample.
Proof.
  split; [|vm_compute; discriminate].
  apply (nameless_fresh_rename_invariant bang_pick [nm "y"; nm "t"; nm "self"]).
  - intros env x H. apply concat_length_ge in H. unfold bang_pick in H. cbn [List.length] in H. lia.
  - intros env x. reflexivity.
  - intros env x. unfold bang_pick, self_name. intros K. inversion K.
  - vm_compute. reflexivity.
Qed.

(** a run of the state machine: two scopes, shadowing, reuse after pop *)
Definition sample_ops : list op :=
  [OPush; OInsert (nm "x"); OKeep (nm "f"); OPush; OInsert (nm "a"); OInsert (nm "x"); OLookup (nm "x");
   OLookup (nm "print"); OPop; OInsert (nm "y"); OInsert (nm "y"); OPush; OInsertSelf; OLookup (nm "self")].

Example sample_trace :
  map to_string (trace (init [nm "f"; nm "b"]) sample_ops)
  = [""; "a"; "f"; ""; "c"; "d"; "d"; ""; ""; "c"; "d"; ""; ""; "self"]%string.
Proof. vm_compute. reflexivity. Qed.

Example sample_keeps : incl (keeps sample_ops) [nm "f"; nm "b"] /\ pos (run [nm "f"; nm "b"] sample_ops) <= self_index.
Proof. split; [vm_compute; intros x [<-|[]]; now left | vm_compute; discriminate]. Qed.
