(** The name stream of rename_variables (Model/Rename.v: nth_raw, search, gen_stream):
    the raw permutator enumerates without repetition ([nth_raw] is injective, with an explicit
    inverse [index_of]), every string it yields is over the identifier alphabet, and whatever
    passes the filters is a valid identifier that is not a keyword. *)
From Coq Require Import NArith List Bool Lia ZArith ZifyBool ZifyN ZifyNat.
From DL Require Import Lib.Bytes Model.Rename.
Import ListNotations.
Open Scope N_scope.
Ltac Zify.zify_post_hook ::= Z.div_mod_to_equations.

Definition unalpha (c : N) : N :=
  if is_lower c then c - 97
  else if is_upper c then c - 65 + 26
  else if c =? 95 then 52
  else c - 48 + 53.

Lemma unalpha_alpha d : d < 63 -> unalpha (alpha d) = d.
Proof.
  intros H. unfold alpha.
  destruct (d <? 26) eqn:E1; [|destruct (d <? 52) eqn:E2; [|destruct (d =? 52) eqn:E3]];
    unfold unalpha, is_lower, is_upper;
    repeat match goal with |- context[if ?b then _ else _] => destruct b eqn:? end; lia.
Qed.

Lemma alpha_ident_char d : d < 63 -> is_ident_char (alpha d) = true.
Proof.
  intros H. unfold alpha.
  destruct (d <? 26) eqn:E1; [|destruct (d <? 52) eqn:E2; [|destruct (d =? 52) eqn:E3]];
    unfold is_ident_char, is_ident_start, is_lower, is_upper, is_digit; lia.
Qed.

Definition hstep (a c : N) : N := a * 63 + unalpha c + 1.
Definition hval (s : name) : N := fold_left hstep s 0.
(** position of a string in the permutator's enumeration *)
Definition index_of (s : name) : N := hval s - 1.

Lemma nth_raw_fuel_S f n acc :
  nth_raw_fuel (S f) n acc =
  if n <? 63 then alpha n :: acc else nth_raw_fuel f (n / 63 - 1) (alpha (n mod 63) :: acc).
Proof. reflexivity. Qed.

Lemma nth_raw_fuel_val : forall fuel n acc,
  n < 2 ^ N.of_nat fuel ->
  fold_left hstep (nth_raw_fuel (S fuel) n acc) 0 = fold_left hstep acc (n + 1).
Proof.
  induction fuel as [|f IH]; intros n acc Hn.
  - assert (n = 0) by (cbn in Hn; lia). subst n. reflexivity.
  - rewrite nth_raw_fuel_S. destruct (n <? 63) eqn:E.
    + cbn [fold_left]. unfold hstep at 2. rewrite unalpha_alpha by lia. f_equal.
    + rewrite IH.
      * cbn [fold_left]. unfold hstep at 2. rewrite unalpha_alpha by (apply N.mod_lt; lia).
        f_equal. lia.
      * rewrite Nat2N.inj_succ, N.pow_succ_r' in Hn. lia.
Qed.

Lemma hval_nth_raw n : hval (nth_raw n) = n + 1.
Proof.
  unfold hval, nth_raw. rewrite nth_raw_fuel_val.
  - reflexivity.
  - rewrite N2Nat.id. apply N.size_gt.
Qed.

Lemma index_of_nth_raw n : index_of (nth_raw n) = n.
Proof. unfold index_of. rewrite hval_nth_raw. lia. Qed.

(** the permutator never repeats *)
Theorem nth_raw_inj : forall n m, nth_raw n = nth_raw m -> n = m.
Proof.
  intros n m H. rewrite <- (index_of_nth_raw n), <- (index_of_nth_raw m). now rewrite H.
Qed.

Lemma nth_raw_nonempty n : nth_raw n <> [].
Proof.
  intros H. pose proof (hval_nth_raw n) as E. rewrite H in E. cbn in E. lia.
Qed.

Lemma nth_raw_fuel_chars : forall fuel n acc,
  Forall (fun c => is_ident_char c = true) acc ->
  Forall (fun c => is_ident_char c = true) (nth_raw_fuel fuel n acc).
Proof.
  induction fuel as [|f IH]; intros n acc H; [exact H|].
  rewrite nth_raw_fuel_S. destruct (n <? 63) eqn:E.
  - constructor; [apply alpha_ident_char; lia | exact H].
  - apply IH. constructor; [apply alpha_ident_char; apply N.mod_lt; lia | exact H].
Qed.

Lemma nth_raw_chars n : Forall (fun c => is_ident_char c = true) (nth_raw n).
Proof. apply nth_raw_fuel_chars. constructor. Qed.

Lemma start_or_digit c : is_ident_char c = true -> is_ident_start c = negb (is_digit c).
Proof.
  unfold is_ident_char, is_ident_start, is_lower, is_upper, is_digit. lia.
Qed.

(** a raw name is an identifier (lexically) exactly when it does not start with a digit *)
Lemma raw_shape n : ident_shape (nth_raw n) = negb (starts_with_digit (nth_raw n)).
Proof.
  pose proof (nth_raw_chars n) as H. pose proof (nth_raw_nonempty n) as NE.
  destruct (nth_raw n) as [|c r]; [congruence|].
  inversion H as [|? ? Hc Hr]; subst. cbn [ident_shape starts_with_digit].
  rewrite (proj2 (forallb_forall _ _)).
  - rewrite andb_true_r. now apply start_or_digit.
  - intros x Hx. rewrite Forall_forall in Hr. now apply Hr.
Qed.

Lemma mem_In x l : mem x l = true <-> In x l.
Proof.
  unfold mem. rewrite existsb_exists. split.
  - intros [y [Hy E]]. apply bytes_eqb_eq in E. now subst.
  - intros H. exists x. split; [exact H|]. now apply bytes_eqb_eq.
Qed.

Lemma mem_false x l : mem x l = false <-> ~ In x l.
Proof.
  rewrite <- mem_In. destruct (mem x l); split; congruence.
Qed.

(** what the processor's filter lets through is a valid identifier, hence not a keyword *)
Lemma filter_valid av q :
  incl keywords av -> filter_identifier av (nth_raw q) = true -> valid_ident (nth_raw q) = true.
Proof.
  intros Hk H. unfold filter_identifier in H. apply andb_true_iff in H as [H1 H2].
  unfold valid_ident. rewrite raw_shape, H2. cbn [andb].
  apply negb_true_iff in H1. apply mem_false in H1.
  apply negb_true_iff. apply mem_false. intros K. apply H1. now apply Hk.
Qed.

Lemma valid_not_keyword s : valid_ident s = true -> ~ In s keywords.
Proof.
  unfold valid_ident. intros H. apply andb_true_iff in H as [_ H].
  apply negb_true_iff in H. now apply mem_false.
Qed.

(** [search]: the result satisfies the predicate and is not before the start *)
Lemma search_spec good : forall k p q, search good k p = Some q -> good q = true /\ p <= q.
Proof.
  induction k as [|k IH]; intros p q H; cbn [search] in H.
  - destruct (good p) eqn:E; inversion H; subst. split; [exact E | lia].
  - destruct (search good k p) eqn:E1.
    + inversion H; subst. now apply IH.
    + apply IH in H as [H1 H2]. split; [exact H1 | lia].
Qed.

(** [search] returns the LEAST good position *)
Lemma search_least good : forall k p q, search good k p = Some q -> forall r, p <= r < q -> good r = false.
Proof.
  assert (None_all : forall k p, search good k p = None -> forall r, p <= r < p + 2 ^ N.of_nat k -> good r = false).
  { induction k as [|k IH]; intros p H r Hr; cbn [search] in H.
    - destruct (good p) eqn:E; [discriminate|]. cbn in Hr. assert (r = p) by lia. now subst.
    - destruct (search good k p) eqn:E1; [discriminate|].
      rewrite Nat2N.inj_succ, N.pow_succ_r' in Hr.
      destruct (r <? p + 2 ^ N.of_nat k) eqn:C.
      + apply (IH p E1). lia.
      + apply (IH _ H). lia. }
  induction k as [|k IH]; intros p q H r Hr; cbn [search] in H.
  - destruct (good p); inversion H; subst. lia.
  - destruct (search good k p) eqn:E1.
    + inversion H; subst. now apply (IH p q).
    + destruct (r <? p + 2 ^ N.of_nat k) eqn:C.
      * apply (None_all k p E1). lia.
      * apply (IH _ _ H). lia.
Qed.

(** the stream of generate_identifier *)
Lemma gen_stream_from_S n p :
  gen_stream_from (S n) p =
  match search (fun q => valid_ident (nth_raw q)) search_bits p with
  | Some q => nth_raw q :: gen_stream_from n (q + 1)
  | None => []
  end.
Proof. reflexivity. Qed.

Lemma gen_stream_from_spec : forall n p x,
  In x (gen_stream_from n p) -> valid_ident x = true /\ exists q, p <= q /\ x = nth_raw q.
Proof.
  induction n as [|n IH]; intros p x H; [contradiction|]. rewrite gen_stream_from_S in H.
  destruct (search (fun q => valid_ident (nth_raw q)) search_bits p) as [q|] eqn:E; [|contradiction].
  apply search_spec in E as [G L]. destruct H as [H|H].
  - subst x. split; [exact G|]. exists q. split; [exact L | reflexivity].
  - apply IH in H as [V [q' [L' E']]]. split; [exact V|]. exists q'. split; [lia | exact E'].
Qed.

Lemma gen_stream_from_nodup : forall n p, NoDup (gen_stream_from n p).
Proof.
  induction n as [|n IH]; intros p; [constructor|]. rewrite gen_stream_from_S.
  destruct (search (fun q => valid_ident (nth_raw q)) search_bits p) as [q|] eqn:E; [|constructor].
  constructor; [|apply IH].
  intros H. apply gen_stream_from_spec in H as [_ [q' [L E']]].
  apply nth_raw_inj in E'. lia.
Qed.

Theorem gen_stream_valid n : Forall (fun x => valid_ident x = true) (gen_stream n).
Proof. apply Forall_forall. intros x H. now apply gen_stream_from_spec in H as [V _]. Qed.

Theorem gen_stream_nodup n : NoDup (gen_stream n).
Proof. apply gen_stream_from_nodup. Qed.

(** position of "self": the first raw name the processor must never hand out but can *)
Definition self_index : N := 4771499.
Lemma nth_raw_self : nth_raw self_index = of_string "self".
Proof. vm_compute. reflexivity. Qed.

Theorem filtered_name_valid : forall av q,
  incl keywords av -> filter_identifier av (nth_raw q) = true ->
  valid_ident (nth_raw q) = true /\ ~ In (nth_raw q) keywords.
Proof.
  intros av q H1 H2. split; [now apply (filter_valid av) | apply valid_not_keyword; now apply (filter_valid av)].
Qed.

Theorem generated_stream : forall n,
  Forall (fun x => valid_ident x = true) (gen_stream n) /\ NoDup (gen_stream n).
Proof. intros n. split; [apply gen_stream_valid | apply gen_stream_nodup]. Qed.
