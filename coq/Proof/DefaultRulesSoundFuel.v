(** C01, rewrites whose local equivalence needs FUEL MONOTONICITY of the reference interpreter
    (a run that succeeds with fuel [n] succeeds with the same result with any fuel [m >= n]):
    remove_empty_do at any position of a statement list, and the whole pass [rw_empty_do].

    Monotonicity is a property of [Lua/Sem.v] alone; it is proved in Proof/LoweringFuel.v
    (another work stream).  Here it is a section hypothesis, so the theorems below state it
    explicitly; [Properties/C01.v] instantiates it once that file is available. *)
From Coq Require Import ZArith NArith List Bool String Lia.
From DL Require Import Lib.Bytes Lib.F64 Lua.Syntax Lua.Sem Model.Evaluator Model.DefaultRules
  Proof.SemFacts Proof.DefaultRulesSem Proof.DefaultRulesSoundBlock Proof.DefaultRulesSoundExpr.
Import ListNotations.
Open Scope N_scope.

Definition stmts_fuel_mono (d : dialect) : Prop :=
  forall n m rho va ss last s r s', (n <= m)%nat ->
    exec_stmts d n rho va ss last s = Ok r s' -> exec_stmts d m rho va ss last s = Ok r s'.

Section Fuel.
Variable d : dialect.
Hypothesis exec_stmts_mono : stmts_fuel_mono d.

Lemma empty_do_is st : empty_do st = true -> st = SDo (Block [] None).
Proof.
  destruct st; try discriminate. destruct b as [[|x ss] [l|]]; try discriminate. reflexivity.
Qed.

(** removing every empty [do end] from a statement list: a successful run stays the same run
    (same signal, same store), with the same fuel *)
Theorem empty_do_filter_sound : forall ss n rho va last s r s',
  exec_stmts d n rho va ss last s = Ok r s' ->
  exec_stmts d n rho va (filter (fun st => negb (empty_do st)) ss) last s = Ok r s'.
Proof.
  induction ss as [|st rest IH]; intros n rho va last s r s' H; [exact H|].
  destruct n as [|n]; [discriminate|]. cbn [filter].
  rewrite exec_stmts_S_cons in H. apply bind_ok in H as ([rho1 sg1] & s1 & H1 & H2).
  destruct (empty_do st) eqn:Ee; cbn [negb].
  - apply empty_do_is in Ee. subst st.
    apply empty_do_stmt_sound in H1 as [E ->]. inversion E; subst; clear E.
    cbn [stmts_cont] in H2. apply IH in H2.
    eapply exec_stmts_mono; [|exact H2]. lia.
  - rewrite exec_stmts_S_cons. unfold bind. rewrite H1. cbn [stmts_cont] in *.
    destruct sg1; try exact H2. now apply IH.
Qed.

(** one pass of the rule over a block ([EmptyDoFilter::process_block]) *)
Theorem empty_do_block_sound : forall b n rho va s r s',
  exec_block d n rho va b s = Ok r s' -> exec_block d n rho va (rw_empty_do b) s = Ok r s'.
Proof.
  intros [ss last] n rho va s r s' H. destruct n as [|n]; [discriminate|].
  cbn [rw_empty_do]. rewrite exec_block_S in *. now apply empty_do_filter_sound.
Qed.

End Fuel.

(** * remove_nil_declaration, trailing [nil]s: [local a, b, c = e, nil, nil] and
    [local a, b, c = e] (as many values as variables, every [nil] behind the other values, so
    the variables keep their order and the same cells are bound to the same names) *)

Definition eval1_fuel_mono (d : dialect) : Prop :=
  forall n m rho va e s v s', (n <= m)%nat ->
    eval1 d n rho va e s = Ok v s' -> eval1 d m rho va e s = Ok v s'.
Definition eval_list_fuel_mono (d : dialect) : Prop :=
  forall n m rho va es s vs s', (n <= m)%nat ->
    eval_list d n rho va es s = Ok vs s' -> eval_list d m rho va es s = Ok vs s'.

Lemma map_last_cons {A} (f : A -> A) x y l : map_last f (x :: y :: l) = x :: map_last f (y :: l).
Proof. reflexivity. Qed.
Lemma map_last_nonempty {A} (f : A -> A) y l : exists z l', map_last f (y :: l) = z :: l'.
Proof. destruct l; cbn [map_last]; eauto. Qed.

Lemma split_vars_trailing : forall es xs k,
  List.length xs = (List.length es + k)%nat -> forallb (fun e => negb (is_nil e)) es = true ->
  split_vars xs (es ++ repeat ENil k) = (firstn (List.length es) xs, skipn (List.length es) xs).
Proof.
  induction es as [|e es IH]; intros xs k Hl Hn.
  - cbn [app List.length firstn skipn plus] in *. rewrite <- Hl. apply split_vars_nils.
  - destruct xs as [|x xs]; [discriminate|]. cbn [forallb] in Hn. apply andb_true_iff in Hn as [He Hn].
    cbn [app split_vars List.length firstn skipn]. rewrite (IH xs k) by (auto; cbn in Hl; lia).
    destruct (is_nil e); [discriminate|]. reflexivity.
Qed.

Lemma filter_trailing : forall es k, forallb (fun e => negb (is_nil e)) es = true ->
  filter (fun e => negb (is_nil e)) (es ++ repeat ENil k) = es.
Proof.
  induction es as [|e es IH]; intros k Hn; cbn [app].
  - apply filter_nils.
  - cbn [forallb] in Hn. apply andb_true_iff in Hn as [He Hn]. cbn [filter]. rewrite He, IH; auto.
Qed.

Lemma rw_nil_declaration_trailing xs es k :
  (1 <= k)%nat -> List.length xs = (List.length es + k)%nat ->
  forallb (fun e => negb (is_nil e)) es = true -> names_distinct (map param_name xs) = true ->
  rw_nil_declaration (SLocal false xs (es ++ repeat ENil k)) = SLocal false xs (map_last paren_if_multi es).
Proof.
  intros Hk Hl Hn Hd. unfold rw_nil_declaration.
  assert (List.length (es ++ repeat ENil k) = List.length xs) as Hlen.
  { rewrite app_length, repeat_length. lia. }
  assert (firstn (List.length xs) (es ++ repeat ENil k)
          ++ filter hse (skipn (List.length xs) (es ++ repeat ENil k)) = es ++ repeat ENil k) as ->.
  { rewrite firstn_all2 by lia. rewrite skipn_all2 by lia. apply app_nil_r. }
  rewrite Hlen, Nat.ltb_irrefl, Hd. cbn [andb negb].
  assert (existsb is_nil (es ++ repeat ENil k) = true) as ->.
  { rewrite existsb_app. destruct k; [lia|]. cbn. apply orb_true_r. }
  cbn [negb]. rewrite (split_vars_trailing _ _ _ Hl Hn), (filter_trailing _ _ Hn), firstn_skipn. reflexivity.
Qed.

Section FuelNil.
Variable d : dialect.
Hypothesis eval1_mono : eval1_fuel_mono d.
Hypothesis eval_list_mono : eval_list_fuel_mono d.

Lemma eval_list_repeat_nil k n rho va s vs s' :
  eval_list d n rho va (repeat ENil k) s = Ok vs s' -> vs = repeat VNil k /\ s' = s.
Proof. apply eval_list_nils. Qed.

Lemma paren_if_multi_eval_list e n rho va s v s' :
  eval1 d n rho va e s = Ok v s' -> exists n', eval_list d n' rho va [paren_if_multi e] s = Ok [v] s'.
Proof.
  intros H. destruct n as [|n]; [discriminate|].
  destruct (paren_if_multi_eval _ _ _ _ _ _ _ _ H) as [n' Hn'].
  exists (S n'). rewrite eval_list_S_one. exact Hn'.
Qed.

Lemma eval_list_trailing : forall es k n rho va s vs s', (1 <= k)%nat ->
  eval_list d n rho va (es ++ repeat ENil k) s = Ok vs s' ->
  exists n' ws, eval_list d n' rho va (map_last paren_if_multi es) s = Ok ws s' /\ vs = ws ++ repeat VNil k.
Proof.
  induction es as [|e es IH]; intros k n rho va s vs s' Hk H.
  - cbn [app] in H. apply eval_list_nils in H as [-> ->]. exists 1%nat, []. split; reflexivity.
  - destruct n as [|n]; [discriminate|]. destruct es as [|e2 rest].
    + destruct k as [|k]; [lia|]. cbn [app repeat] in H. rewrite eval_list_S_cons in H.
      apply bind_ok in H as (v & s1 & Hv & H). apply bind_ok in H as (ws & s2 & Hw & H). inv_ok H. subst.
      change (ENil :: repeat ENil k) with (repeat ENil (S k)) in Hw. apply eval_list_nils in Hw as [-> ->].
      destruct (paren_if_multi_eval_list _ _ _ _ _ _ _ Hv) as [n' Hn'].
      exists n', [v]. split; [exact Hn'|reflexivity].
    + change ((e :: e2 :: rest) ++ repeat ENil k) with (e :: e2 :: (rest ++ repeat ENil k)) in H.
      rewrite eval_list_S_cons in H.
      apply bind_ok in H as (v & s1 & Hv & H). apply bind_ok in H as (ws & s2 & Hw & H). inv_ok H. subst.
      change (e2 :: rest ++ repeat ENil k) with ((e2 :: rest) ++ repeat ENil k) in Hw.
      destruct (IH _ _ _ _ _ _ _ Hk Hw) as (n1 & ws' & Hn1 & ->).
      rewrite map_last_cons. destruct (map_last_nonempty paren_if_multi e2 rest) as (z & l' & Ez).
      rewrite Ez in *. exists (S (Nat.max n n1)), (v :: ws'). split; [|reflexivity].
      rewrite eval_list_S_cons. unfold bind.
      rewrite (eval1_mono _ (Nat.max n n1) _ _ _ _ _ _ (Nat.le_max_l _ _) Hv).
      rewrite (eval_list_mono _ (Nat.max n n1) _ _ _ _ _ _ (Nat.le_max_r _ _) Hn1). reflexivity.
Qed.

Lemma local_go_padding : forall xs ws k acc s,
  local_go xs (ws ++ repeat VNil k) acc s = local_go xs ws acc s.
Proof.
  induction xs as [|x xs IH]; intros ws k acc s; [reflexivity|]. cbn [local_go].
  destruct ws as [|w ws].
  - cbn [app]. assert (arg (repeat VNil k) 0 = arg [] 0) as -> by (destruct k; reflexivity).
    apply bind_eq. intros a s1 _. destruct k as [|k]; [reflexivity|]. cbn [repeat tl].
    apply (IH [] k).
  - cbn [app tl]. change (arg (w :: ws ++ repeat VNil k) 0) with (arg (w :: ws) 0).
    apply bind_eq. intros a s1 _. apply IH.
Qed.

Theorem nil_decl_trailing_sound : forall xs es k n rho va s r s',
  (1 <= k)%nat -> List.length xs = (List.length es + k)%nat ->
  forallb (fun e => negb (is_nil e)) es = true -> names_distinct (map param_name xs) = true ->
  exec_stmt d n rho va (SLocal false xs (es ++ repeat ENil k)) s = Ok r s' ->
  exists n', exec_stmt d n' rho va (rw_nil_declaration (SLocal false xs (es ++ repeat ENil k))) s = Ok r s'.
Proof.
  intros xs es k n rho va s r s' Hk Hl Hn Hd H.
  rewrite (rw_nil_declaration_trailing _ _ _ Hk Hl Hn Hd).
  destruct n as [|n]; [discriminate|]. rewrite exec_stmt_S_local in H.
  apply bind_ok in H as (vs & s1 & Hv & H).
  destruct (eval_list_trailing _ _ _ _ _ _ _ _ Hk Hv) as (n' & ws & Hn' & ->).
  exists (S n'). rewrite exec_stmt_S_local. unfold bind at 1. rewrite Hn'.
  unfold bind in *. rewrite local_go_padding in H. exact H.
Qed.

End FuelNil.
