(** C01, rewrites whose local equivalence needs FUEL MONOTONICITY of the reference interpreter
    (a run that succeeds with fuel [n] succeeds with the same result with any fuel [m >= n]):
    remove_empty_do at any position of a statement list, and the whole pass [rw_empty_do].

    Monotonicity is a property of [Lua/Sem.v] alone; it is proved in Proof/LoweringFuel.v
    (another work stream).  Here it is a section hypothesis, so the theorems below state it
    explicitly; [Properties/C01.v] instantiates it once that file is available. *)
From Coq Require Import ZArith NArith List Bool String Lia.
From DL Require Import Lib.Bytes Lib.F64 Lua.Syntax Lua.Sem Model.Evaluator Model.DefaultRules
  Proof.SemFacts Proof.DefaultRulesSem Proof.DefaultRulesSoundBlock.
Import ListNotations.
Open Scope N_scope.

Definition stmts_fuel_mono (d : dialect) : Prop :=
  forall n m rho va ss last s r s', (n <= m)%nat ->
    exec_stmts d n rho va ss last s = Ok r s' -> exec_stmts d m rho va ss last s = Ok r s'.

Section Fuel.
Variable d : dialect.
Hypothesis exec_stmts_mono : stmts_fuel_mono d.

Lemma empty_do_is st : empty_do st = true -> st = SDo (Block [] None).
Proof.
  destruct st; try discriminate. destruct b as [[|x ss] [l|]]; try discriminate. reflexivity.
Qed.

(** removing every empty [do end] from a statement list: a successful run stays the same run
    (same signal, same store), with the same fuel *)
Theorem empty_do_filter_sound : forall ss n rho va last s r s',
  exec_stmts d n rho va ss last s = Ok r s' ->
  exec_stmts d n rho va (filter (fun st => negb (empty_do st)) ss) last s = Ok r s'.
Proof.
  induction ss as [|st rest IH]; intros n rho va last s r s' H; [exact H|].
  destruct n as [|n]; [discriminate|]. cbn [filter].
  rewrite exec_stmts_S_cons in H. apply bind_ok in H as ([rho1 sg1] & s1 & H1 & H2).
  destruct (empty_do st) eqn:Ee; cbn [negb].
  - apply empty_do_is in Ee. subst st.
    apply empty_do_stmt_sound in H1 as [E ->]. inversion E; subst; clear E.
    cbn [stmts_cont] in H2. apply IH in H2.
    eapply exec_stmts_mono; [|exact H2]. lia.
  - rewrite exec_stmts_S_cons. unfold bind. rewrite H1. cbn [stmts_cont] in *.
    destruct sg1; try exact H2. now apply IH.
Qed.

(** one pass of the rule over a block ([EmptyDoFilter::process_block]) *)
Theorem empty_do_block_sound : forall b n rho va s r s',
  exec_block d n rho va b s = Ok r s' -> exec_block d n rho va (rw_empty_do b) s = Ok r s'.
Proof.
  intros [ss last] n rho va s r s' H. destruct n as [|n]; [discriminate|].
  cbn [rw_empty_do]. rewrite exec_block_S in *. now apply empty_do_filter_sound.
Qed.

End Fuel.
