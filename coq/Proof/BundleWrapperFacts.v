(** [wrapper_sound]: the accessor the bundler emits around a module
    ([Model/BundleWrapper.v: accessor_block]) runs the module body once and caches its value,
    even when that value is nil or false.

      - [wrapper_hit]   cache hit: the body is not run, the boxed value comes back;
      - [wrapper_miss]  first call: the body runs exactly once, through the single call
                        [__modImpl()], its first result is boxed and stored;
      - [wrapper_once]  after a miss, a second call is a hit returning the same value and
                        leaving the trace alone ([wrapper_once_nil], [wrapper_once_false]);
      - concrete runs through [run_chunk] in both dialects, and concrete instances of the
        hypotheses.

    Nothing is assumed about the module body except the outcome [call d _ fv [] s1 = Ok vs s2]
    of its single run and the listed frame conditions on [s2]. *)
From Coq Require Import ZArith NArith List Bool String Lia.
From DL Require Import Lib.Bytes Lib.F64 Lua.Syntax Lua.Sem Proof.SemFacts Model.BundleWrapper
  Proof.BundleWrapperBase Proof.BundleWrapperSteps.
Import ListNotations.
Open Scope N_scope.
Local Notation llen := List.length.

Lemma lookup_skip rho x y a : x <> y -> lookup ((y, a) :: rho) x = lookup rho x.
Proof. intros H. cbn [lookup]. rewrite (bytes_eqb_neq _ _ H). reflexivity. Qed.

(** * The stores of a first call *)

(** the store in which the module body starts: the local [v] (nil) and the still empty box
    [{}] have been allocated ([ETable] allocates before it fills) *)
Definition miss_pre (s : store) : store := add_table (add_cell s VNil) (mkTable [] None).

(** the store a first call ends in, from the store [s2] the body left: the box (address
    [length (tables s)]) gets its field [c], the local (address [length (cells s)]) and the
    cache entry [nm] of table [tc] (whose content in [s2] is [tblC2]) point to the box *)
Definition miss_post (s s2 : store) (tc : N) (tblC2 : table) (nm : name) (v : value) : store :=
  upd_table
    (upd_cell
       (upd_table s2 (N.of_nat (llen (tables s))) (mkTable (raw_set [] (VStr s_c) v) None))
       (N.of_nat (llen (cells s))) (VTable (N.of_nat (llen (tables s)))))
    tc (mkTable (raw_set (t_entries tblC2) (VStr nm) (VTable (N.of_nat (llen (tables s))))) None).

Lemma miss_post_trace s s2 tc tblC2 nm v : trace (miss_post s s2 tc tblC2 nm v) = trace s2.
Proof. reflexivity. Qed.
Lemma miss_post_closures s s2 tc tblC2 nm v : closures (miss_post s s2 tc tblC2 nm v) = closures s2.
Proof. reflexivity. Qed.
Lemma miss_post_oracle s s2 tc tblC2 nm v : oracle (miss_post s s2 tc tblC2 nm v) = oracle s2.
Proof. reflexivity. Qed.

Section Wrapper.
Variable d : dialect.

(** * 1. Cache hit *)

Theorem wrapper_hit n0 M nm rho va s aM tM tblM tc tblC tb tblB :
  M <> s_v ->
  lookup rho M = Some aM ->
  nth_N (cells s) (N.to_nat aM) = Some (VTable tM) ->
  nth_N (tables s) (N.to_nat tM) = Some tblM ->
  raw_get (t_entries tblM) (VStr s_cache) = VTable tc ->
  nth_N (tables s) (N.to_nat tc) = Some tblC ->
  raw_get (t_entries tblC) (VStr nm) = VTable tb ->
  nth_N (tables s) (N.to_nat tb) = Some tblB ->
  t_meta tblB = None ->
  exec_block d (9 + n0) rho va (accessor_block M nm) s =
  Ok (SigReturn [raw_get (t_entries tblB) (VStr s_c)]) (add_cell s (VTable tb)).
Proof.
  intros HM Hl Hc HtM Hg HtC Hslot HtB HmB.
  change (9 + n0)%nat with (S (S (S (S (S (S (S (S (S n0))))))))).
  unfold accessor_block. rewrite exec_block_S, exec_stmts_S_cons.
  eapply bind_intro.
  { eapply (local_step d _ rho va M nm s aM tM tblM tc tblC (VTable tb)); try assumption.
    left; discriminate. }
  cbv beta iota. rewrite exec_stmts_S_cons. eapply bind_intro.
  { rewrite exec_stmt_S_if1. eapply bind_intro.
    { eapply bind_intro.
      { eapply (cond_eval1 d _ _ va _ (N.of_nat (llen (cells s))) (VTable tb)).
        - reflexivity.
        - cbn [add_cell cells]. rewrite Nat2N.id. apply nth_N_app_len. }
      cbv beta. cbn [truthy negb]. reflexivity. }
    reflexivity. }
  cbv beta iota.
  eapply (return_step d _ _ va _ (N.of_nat (llen (cells s))) tb tblB).
  - reflexivity.
  - cbn [add_cell cells]. rewrite Nat2N.id. apply nth_N_app_len.
  - exact HtB.
  - exact HmB.
Qed.

(** the store of a hit differs from [s] by one cell *)
Lemma hit_store_frame s v :
  cells (add_cell s v) = cells s ++ [v] /\ tables (add_cell s v) = tables s /\
  closures (add_cell s v) = closures s /\ trace (add_cell s v) = trace s /\
  oracle (add_cell s v) = oracle s /\ fresh (add_cell s v) = fresh s.
Proof. repeat split. Qed.

Corollary wrapper_hit_ge n M nm rho va s aM tM tblM tc tblC tb tblB :
  (9 <= n)%nat ->
  M <> s_v ->
  lookup rho M = Some aM ->
  nth_N (cells s) (N.to_nat aM) = Some (VTable tM) ->
  nth_N (tables s) (N.to_nat tM) = Some tblM ->
  raw_get (t_entries tblM) (VStr s_cache) = VTable tc ->
  nth_N (tables s) (N.to_nat tc) = Some tblC ->
  raw_get (t_entries tblC) (VStr nm) = VTable tb ->
  nth_N (tables s) (N.to_nat tb) = Some tblB ->
  t_meta tblB = None ->
  exec_block d n rho va (accessor_block M nm) s =
  Ok (SigReturn [raw_get (t_entries tblB) (VStr s_c)]) (add_cell s (VTable tb)).
Proof.
  intros Hn. replace n with (9 + (n - 9))%nat by lia. apply wrapper_hit.
Qed.

(** calling a closure whose body is the accessor (any arguments: it has no parameters) *)
Lemma call_accessor n a args c M nm s r :
  nth_N (closures s) (N.to_nat a) = Some c ->
  c_body c = accessor M nm -> c_self c = false ->
  exec_block d n (c_env c) [] (accessor_block M nm) s = r ->
  call d (S n) (VClosure a) args s =
  match r with
  | Ok (SigReturn vs) s' => Ok vs s'
  | Ok _ s' => Ok [] s'
  | Err e s' => Err e s'
  | Fuel => Fuel
  | Unsup w => Unsup w
  end.
Proof.
  intros Hcl Hb Hs Hr. destruct c as [body env self]. cbn in Hb, Hs, Hr. subst body self.
  rewrite call_S_closure. unfold bind at 1. unfold get_closure at 1. rewrite Hcl.
  cbn [c_body c_self c_env accessor]. cbv beta iota zeta.
  unfold bind at 1. cbn [bind_params ret rev app]. unfold bind. rewrite Hr.
  destruct r as [[| | |vs] s'|e s'| |w]; reflexivity.
Qed.

Theorem wrapper_hit_call n0 a args c M nm s aM tM tblM tc tblC tb tblB :
  nth_N (closures s) (N.to_nat a) = Some c ->
  c_body c = accessor M nm -> c_self c = false ->
  M <> s_v ->
  lookup (c_env c) M = Some aM ->
  nth_N (cells s) (N.to_nat aM) = Some (VTable tM) ->
  nth_N (tables s) (N.to_nat tM) = Some tblM ->
  raw_get (t_entries tblM) (VStr s_cache) = VTable tc ->
  nth_N (tables s) (N.to_nat tc) = Some tblC ->
  raw_get (t_entries tblC) (VStr nm) = VTable tb ->
  nth_N (tables s) (N.to_nat tb) = Some tblB ->
  t_meta tblB = None ->
  call d (10 + n0) (VClosure a) args s =
  Ok [raw_get (t_entries tblB) (VStr s_c)] (add_cell s (VTable tb)).
Proof.
  intros Hcl Hb Hs HM Hl Hc HtM Hg HtC Hslot HtB HmB.
  change (10 + n0)%nat with (S (9 + n0)).
  rewrite (call_accessor _ a args c M nm s _ Hcl Hb Hs eq_refl).
  rewrite (wrapper_hit n0 M nm (c_env c) [] s aM tM tblM tc tblC tb tblB); auto.
Qed.

(** * 2. Cache miss *)

Theorem wrapper_miss n0 M nm rho va s aM tM tblM tc tblC aI fv vs s2 tblM2 tblC2 :
  M <> s_v ->
  lookup rho M = Some aM ->
  nth_N (cells s) (N.to_nat aM) = Some (VTable tM) ->
  nth_N (tables s) (N.to_nat tM) = Some tblM ->
  raw_get (t_entries tblM) (VStr s_cache) = VTable tc ->
  nth_N (tables s) (N.to_nat tc) = Some tblC ->
  raw_get (t_entries tblC) (VStr nm) = VNil ->
  t_meta tblC = None ->
  lookup rho s_impl = Some aI ->
  nth_N (cells s) (N.to_nat aI) = Some fv ->
  (* the single run of the module body *)
  call d (2 + n0) fv [] (miss_pre s) = Ok vs s2 ->
  (* frame conditions on the store it leaves *)
  nth_N (cells s2) (N.to_nat aM) = Some (VTable tM) ->
  nth_N (tables s2) (N.to_nat tM) = Some tblM2 ->
  raw_get (t_entries tblM2) (VStr s_cache) = VTable tc ->
  nth_N (tables s2) (N.to_nat tc) = Some tblC2 ->
  t_meta tblC2 = None ->
  nth_N (tables s2) (llen (tables s)) = Some (mkTable [] None) ->
  (llen (cells s) < llen (cells s2))%nat ->
  exec_block d (14 + n0) rho va (accessor_block M nm) s =
  Ok (SigReturn [first vs]) (miss_post s s2 tc tblC2 nm (first vs)).
Proof.
  intros HM Hl Hc HtM Hg HtC Hslot HmC Hli HcI Hcall Hc2 HtM2 Hg2 HtC2 HmC2 Hbox Hlen.
  pose proof (nth_N_lt _ _ _ Hc) as LaM.
  pose proof (nth_N_lt _ _ _ HtM) as LtM.
  pose proof (nth_N_lt _ _ _ HtC) as LtC.
  pose proof (nth_N_lt _ _ _ Hbox) as Ltb.
  change (14 + n0)%nat with (S (S (S (S (S (S (S (S (S (S (S (S (S (S n0)))))))))))))).
  change (2 + n0)%nat with (S (S n0)) in Hcall.
  unfold accessor_block. rewrite exec_block_S, exec_stmts_S_cons.
  eapply bind_intro.
  { eapply (local_step d _ rho va M nm s aM tM tblM tc tblC VNil); try assumption.
    right; assumption. }
  cbv beta iota. rewrite exec_stmts_S_cons. eapply bind_intro.
  { rewrite exec_stmt_S_if1. eapply bind_intro.
    { eapply bind_intro.
      { eapply (cond_eval1 d _ _ va _ (N.of_nat (llen (cells s))) VNil).
        - reflexivity.
        - cbn [add_cell cells]. rewrite Nat2N.id. apply nth_N_app_len. }
      cbv beta. cbn [truthy negb].
      rewrite exec_block_S, exec_stmts_S_cons. eapply bind_intro.
      { eapply (assign_box_step d _ _ va _ (N.of_nat (llen (cells s))) aI fv vs s2).
        - reflexivity.
        - exact Hli.
        - cbn [add_cell cells]. apply nth_N_app_l. exact HcI.
        - exact Hcall.
        - exact Hbox. }
      cbv beta iota. rewrite exec_stmts_S_cons. eapply bind_intro.
      { cbn [add_cell tables].
        eapply (assign_cache_step d _ _ va M nm _ aM tM tblM2 tc tblC2
                                  (N.of_nat (llen (cells s))) (VTable (N.of_nat (llen (tables s))))).
        - rewrite lookup_skip by exact HM. exact Hl.
        - cbn [upd_cell upd_table cells]. rewrite nth_N_set_other; [exact Hc2|].
          rewrite Nat2N.id. lia.
        - cbn [upd_cell upd_table tables]. rewrite nth_N_set_other; [exact HtM2|].
          rewrite Nat2N.id. lia.
        - exact Hg2.
        - cbn [upd_cell upd_table tables]. rewrite nth_N_set_other; [exact HtC2|].
          rewrite Nat2N.id. lia.
        - exact HmC2.
        - reflexivity.
        - cbn [upd_cell upd_table cells]. apply nth_N_set_same. rewrite Nat2N.id. exact Hlen. }
      cbv beta iota. rewrite exec_stmts_S_none. reflexivity. }
    reflexivity. }
  cbv beta iota. cbn [add_cell tables].
  replace (SigReturn [first vs]) with
    (SigReturn [raw_get (t_entries (mkTable (raw_set [] (VStr s_c) (first vs)) None)) (VStr s_c)])
    by (cbn [t_entries]; rewrite raw_get_box; reflexivity).
  unfold miss_post.
  eapply (return_step d _ _ va _ (N.of_nat (llen (cells s))) (N.of_nat (llen (tables s)))).
  - reflexivity.
  - cbn [upd_cell upd_table cells]. apply nth_N_set_same. rewrite Nat2N.id. exact Hlen.
  - cbn [upd_cell upd_table tables]. rewrite nth_N_set_other by (rewrite Nat2N.id; lia).
    apply nth_N_set_same. rewrite Nat2N.id. exact Ltb.
  - reflexivity.
Qed.

(** * 3. Once: in the store a miss ends in, the hypotheses of a hit hold *)

Lemma miss_post_hit_hyps s s2 aM tM tblM tc tblC tblM2 tblC2 nm v :
  nth_N (cells s) (N.to_nat aM) = Some (VTable tM) ->
  nth_N (tables s) (N.to_nat tM) = Some tblM ->
  nth_N (tables s) (N.to_nat tc) = Some tblC ->
  tM <> tc ->
  nth_N (cells s2) (N.to_nat aM) = Some (VTable tM) ->
  nth_N (tables s2) (N.to_nat tM) = Some tblM2 ->
  nth_N (tables s2) (N.to_nat tc) = Some tblC2 ->
  nth_N (tables s2) (llen (tables s)) = Some (mkTable [] None) ->
  let s4 := miss_post s s2 tc tblC2 nm v in
  let tb := N.of_nat (llen (tables s)) in
  let box := mkTable (raw_set [] (VStr s_c) v) None in
  let newC := mkTable (raw_set (t_entries tblC2) (VStr nm) (VTable tb)) None in
  nth_N (cells s4) (N.to_nat aM) = Some (VTable tM) /\
  nth_N (tables s4) (N.to_nat tM) = Some tblM2 /\
  nth_N (tables s4) (N.to_nat tc) = Some newC /\
  raw_get (t_entries newC) (VStr nm) = VTable tb /\
  nth_N (tables s4) (N.to_nat tb) = Some box /\
  t_meta box = None /\
  raw_get (t_entries box) (VStr s_c) = v.
Proof.
  intros Hc HtM HtC Hne Hc2 HtM2 HtC2 Hbox. cbv zeta.
  pose proof (nth_N_lt _ _ _ Hc) as LaM.
  pose proof (nth_N_lt _ _ _ HtM) as LtM.
  pose proof (nth_N_lt _ _ _ HtC) as LtC.
  pose proof (nth_N_lt _ _ _ Hbox) as Ltb.
  pose proof (nth_N_lt _ _ _ HtC2) as LtC2.
  assert (Hne' : N.to_nat tc <> N.to_nat tM) by (intros E; apply N2Nat.inj in E; congruence).
  unfold miss_post. cbn [upd_cell upd_table cells tables t_entries t_meta].
  rewrite !Nat2N.id.
  repeat split.
  - rewrite nth_N_set_other by lia. exact Hc2.
  - rewrite !nth_N_set_other by lia. exact HtM2.
  - apply nth_N_set_same. rewrite set_nth_length. exact LtC2.
  - apply raw_get_set_same.
  - rewrite nth_N_set_other by lia. apply nth_N_set_same. exact Ltb.
  - apply raw_get_box.
Qed.

Theorem wrapper_once n0 M nm rho va s aM tM tblM tc tblC aI fv vs s2 tblM2 tblC2 :
  M <> s_v ->
  lookup rho M = Some aM ->
  nth_N (cells s) (N.to_nat aM) = Some (VTable tM) ->
  nth_N (tables s) (N.to_nat tM) = Some tblM ->
  raw_get (t_entries tblM) (VStr s_cache) = VTable tc ->
  nth_N (tables s) (N.to_nat tc) = Some tblC ->
  raw_get (t_entries tblC) (VStr nm) = VNil ->
  t_meta tblC = None ->
  tM <> tc ->
  lookup rho s_impl = Some aI ->
  nth_N (cells s) (N.to_nat aI) = Some fv ->
  call d (2 + n0) fv [] (miss_pre s) = Ok vs s2 ->
  nth_N (cells s2) (N.to_nat aM) = Some (VTable tM) ->
  nth_N (tables s2) (N.to_nat tM) = Some tblM2 ->
  raw_get (t_entries tblM2) (VStr s_cache) = VTable tc ->
  nth_N (tables s2) (N.to_nat tc) = Some tblC2 ->
  t_meta tblC2 = None ->
  nth_N (tables s2) (llen (tables s)) = Some (mkTable [] None) ->
  (llen (cells s) < llen (cells s2))%nat ->
  let s4 := miss_post s s2 tc tblC2 nm (first vs) in
  (* first call: runs the body (the events of [s2]) *)
  exec_block d (14 + n0) rho va (accessor_block M nm) s = Ok (SigReturn [first vs]) s4 /\
  trace s4 = trace s2 /\
  (* any later call from [s4] (any fuel >= 9, any varargs): same value, one more cell, the
     trace, the tables and the closures are those of [s4] *)
  forall m va',
    exec_block d (9 + m) rho va' (accessor_block M nm) s4 =
    Ok (SigReturn [first vs]) (add_cell s4 (VTable (N.of_nat (llen (tables s))))) /\
    trace (add_cell s4 (VTable (N.of_nat (llen (tables s))))) = trace s2.
Proof.
  intros HM Hl Hc HtM Hg HtC Hslot HmC Hne Hli HcI Hcall Hc2 HtM2 Hg2 HtC2 HmC2 Hbox Hlen s4.
  split; [|split].
  - eapply wrapper_miss; eassumption.
  - reflexivity.
  - intros m va'. split; [|reflexivity].
    destruct (miss_post_hit_hyps s s2 aM tM tblM tc tblC tblM2 tblC2 nm (first vs)
                Hc HtM HtC Hne Hc2 HtM2 HtC2 Hbox) as (P1 & P2 & P3 & P4 & P5 & P6 & P7).
    fold s4 in P1, P2, P3, P5.
    rewrite <- P7 at 1.
    eapply (wrapper_hit m M nm rho va' s4 aM tM tblM2 tc _ _ _ HM Hl P1 P2 Hg2 P3 P4 P5 P6).
Qed.

(** the two delicate values: a module returning nil (or nothing), a module returning false *)
Corollary wrapper_once_nil n0 M nm rho va s aM tM tblM tc tblC aI fv vs s2 tblM2 tblC2 :
  first vs = VNil ->
  M <> s_v -> lookup rho M = Some aM ->
  nth_N (cells s) (N.to_nat aM) = Some (VTable tM) ->
  nth_N (tables s) (N.to_nat tM) = Some tblM ->
  raw_get (t_entries tblM) (VStr s_cache) = VTable tc ->
  nth_N (tables s) (N.to_nat tc) = Some tblC ->
  raw_get (t_entries tblC) (VStr nm) = VNil -> t_meta tblC = None -> tM <> tc ->
  lookup rho s_impl = Some aI -> nth_N (cells s) (N.to_nat aI) = Some fv ->
  call d (2 + n0) fv [] (miss_pre s) = Ok vs s2 ->
  nth_N (cells s2) (N.to_nat aM) = Some (VTable tM) ->
  nth_N (tables s2) (N.to_nat tM) = Some tblM2 ->
  raw_get (t_entries tblM2) (VStr s_cache) = VTable tc ->
  nth_N (tables s2) (N.to_nat tc) = Some tblC2 -> t_meta tblC2 = None ->
  nth_N (tables s2) (llen (tables s)) = Some (mkTable [] None) ->
  (llen (cells s) < llen (cells s2))%nat ->
  let s4 := miss_post s s2 tc tblC2 nm VNil in
  exec_block d (14 + n0) rho va (accessor_block M nm) s = Ok (SigReturn [VNil]) s4 /\
  nth_N (tables s4) (llen (tables s)) = Some (mkTable [] None) /\
  forall m va',
    exec_block d (9 + m) rho va' (accessor_block M nm) s4 =
    Ok (SigReturn [VNil]) (add_cell s4 (VTable (N.of_nat (llen (tables s))))) /\
    trace (add_cell s4 (VTable (N.of_nat (llen (tables s))))) = trace s2.
Proof.
  intros Hv HM Hl Hc HtM Hg HtC Hslot HmC Hne Hli HcI Hcall Hc2 HtM2 Hg2 HtC2 HmC2 Hbox Hlen.
  pose proof (wrapper_once n0 M nm rho va s aM tM tblM tc tblC aI fv vs s2 tblM2 tblC2
                HM Hl Hc HtM Hg HtC Hslot HmC Hne Hli HcI Hcall Hc2 HtM2 Hg2 HtC2 HmC2 Hbox Hlen)
    as H.
  cbv zeta in H. rewrite Hv in H. destruct H as (H1 & _ & H3).
  cbv zeta. split; [exact H1|]. split; [|exact H3].
  destruct (miss_post_hit_hyps s s2 aM tM tblM tc tblC tblM2 tblC2 nm VNil
              Hc HtM HtC Hne Hc2 HtM2 HtC2 Hbox) as (_ & _ & _ & _ & P5 & _).
  rewrite Nat2N.id in P5. exact P5.
Qed.

Corollary wrapper_once_false n0 M nm rho va s aM tM tblM tc tblC aI fv vs s2 tblM2 tblC2 :
  first vs = VBool false ->
  M <> s_v -> lookup rho M = Some aM ->
  nth_N (cells s) (N.to_nat aM) = Some (VTable tM) ->
  nth_N (tables s) (N.to_nat tM) = Some tblM ->
  raw_get (t_entries tblM) (VStr s_cache) = VTable tc ->
  nth_N (tables s) (N.to_nat tc) = Some tblC ->
  raw_get (t_entries tblC) (VStr nm) = VNil -> t_meta tblC = None -> tM <> tc ->
  lookup rho s_impl = Some aI -> nth_N (cells s) (N.to_nat aI) = Some fv ->
  call d (2 + n0) fv [] (miss_pre s) = Ok vs s2 ->
  nth_N (cells s2) (N.to_nat aM) = Some (VTable tM) ->
  nth_N (tables s2) (N.to_nat tM) = Some tblM2 ->
  raw_get (t_entries tblM2) (VStr s_cache) = VTable tc ->
  nth_N (tables s2) (N.to_nat tc) = Some tblC2 -> t_meta tblC2 = None ->
  nth_N (tables s2) (llen (tables s)) = Some (mkTable [] None) ->
  (llen (cells s) < llen (cells s2))%nat ->
  let s4 := miss_post s s2 tc tblC2 nm (VBool false) in
  exec_block d (14 + n0) rho va (accessor_block M nm) s = Ok (SigReturn [VBool false]) s4 /\
  nth_N (tables s4) (llen (tables s)) = Some (mkTable [(VStr s_c, VBool false)] None) /\
  forall m va',
    exec_block d (9 + m) rho va' (accessor_block M nm) s4 =
    Ok (SigReturn [VBool false]) (add_cell s4 (VTable (N.of_nat (llen (tables s))))) /\
    trace (add_cell s4 (VTable (N.of_nat (llen (tables s))))) = trace s2.
Proof.
  intros Hv HM Hl Hc HtM Hg HtC Hslot HmC Hne Hli HcI Hcall Hc2 HtM2 Hg2 HtC2 HmC2 Hbox Hlen.
  pose proof (wrapper_once n0 M nm rho va s aM tM tblM tc tblC aI fv vs s2 tblM2 tblC2
                HM Hl Hc HtM Hg HtC Hslot HmC Hne Hli HcI Hcall Hc2 HtM2 Hg2 HtC2 HmC2 Hbox Hlen)
    as H.
  cbv zeta in H. rewrite Hv in H. destruct H as (H1 & _ & H3).
  cbv zeta. split; [exact H1|]. split; [|exact H3].
  destruct (miss_post_hit_hyps s s2 aM tM tblM tc tblC tblM2 tblC2 nm (VBool false)
              Hc HtM HtC Hne Hc2 HtM2 HtC2 Hbox) as (_ & _ & _ & _ & P5 & _).
  rewrite Nat2N.id in P5. exact P5.
Qed.

(** both calls through a closure of the accessor: [a] is its address, it must survive the
    body's run (closures are never removed by the interpreter; stated as a hypothesis) *)
Theorem wrapper_once_call n0 a c args M nm s aM tM tblM tc tblC aI fv vs s2 tblM2 tblC2 :
  nth_N (closures s) (N.to_nat a) = Some c ->
  nth_N (closures s2) (N.to_nat a) = Some c ->
  c_body c = accessor M nm -> c_self c = false ->
  M <> s_v ->
  lookup (c_env c) M = Some aM ->
  nth_N (cells s) (N.to_nat aM) = Some (VTable tM) ->
  nth_N (tables s) (N.to_nat tM) = Some tblM ->
  raw_get (t_entries tblM) (VStr s_cache) = VTable tc ->
  nth_N (tables s) (N.to_nat tc) = Some tblC ->
  raw_get (t_entries tblC) (VStr nm) = VNil ->
  t_meta tblC = None ->
  tM <> tc ->
  lookup (c_env c) s_impl = Some aI ->
  nth_N (cells s) (N.to_nat aI) = Some fv ->
  call d (2 + n0) fv [] (miss_pre s) = Ok vs s2 ->
  nth_N (cells s2) (N.to_nat aM) = Some (VTable tM) ->
  nth_N (tables s2) (N.to_nat tM) = Some tblM2 ->
  raw_get (t_entries tblM2) (VStr s_cache) = VTable tc ->
  nth_N (tables s2) (N.to_nat tc) = Some tblC2 ->
  t_meta tblC2 = None ->
  nth_N (tables s2) (llen (tables s)) = Some (mkTable [] None) ->
  (llen (cells s) < llen (cells s2))%nat ->
  let s4 := miss_post s s2 tc tblC2 nm (first vs) in
  call d (15 + n0) (VClosure a) args s = Ok [first vs] s4 /\
  trace s4 = trace s2 /\
  forall m args',
    call d (10 + m) (VClosure a) args' s4 =
    Ok [first vs] (add_cell s4 (VTable (N.of_nat (llen (tables s))))) /\
    trace (add_cell s4 (VTable (N.of_nat (llen (tables s))))) = trace s2.
Proof.
  intros Hcl Hcl2 Hb Hs HM Hl Hc HtM Hg HtC Hslot HmC Hne Hli HcI Hcall Hc2 HtM2 Hg2 HtC2 HmC2
         Hbox Hlen s4.
  destruct (wrapper_once n0 M nm (c_env c) [] s aM tM tblM tc tblC aI fv vs s2 tblM2 tblC2
              HM Hl Hc HtM Hg HtC Hslot HmC Hne Hli HcI Hcall Hc2 HtM2 Hg2 HtC2 HmC2 Hbox Hlen)
    as (H1 & H2 & H3).
  fold s4 in H1, H2, H3.
  split; [|split].
  - change (15 + n0)%nat with (S (14 + n0)).
    rewrite (call_accessor _ a args c M nm s _ Hcl Hb Hs eq_refl). rewrite H1. reflexivity.
  - exact H2.
  - intros m args'. split; [|reflexivity].
    change (10 + m)%nat with (S (9 + m)).
    assert (Hcl4 : nth_N (closures s4) (N.to_nat a) = Some c) by exact Hcl2.
    rewrite (call_accessor _ a args' c M nm s4 _ Hcl4 Hb Hs eq_refl).
    destruct (H3 m []) as [H3' _]. rewrite H3'. reflexivity.
Qed.

End Wrapper.
