(** convert_require keeps the target, at the level of the written require argument
    ([generate_require] produces bytes, [find_require] reads them back), the variant for
    requiring files directly in the working directory, the refutation of the unrestricted
    statement, and instances showing that the hypotheses are satisfiable. *)
From DL Require Import Lib.Bytes Model.Paths Model.Require Proof.PathsBasics Proof.PathsFacts
  Proof.PathsRoundtrip Proof.PathsConvert.
Require Import Lia PeanoNat.
Open Scope N_scope.

Lemma forallb_wf_repeat_par j : forallb wf_comp (repeat Par j) = true.
Proof. induction j; cbn; auto. Qed.

Lemma wf_rel_gen_prefix init k st : forallb wf_comp st = true -> wf_rel (gen_prefix init k ++ st) = true.
Proof.
  intros H. unfold gen_prefix. destruct init.
  - destruct k as [|[|j]].
    + cbn [app wf_rel forallb wf_comp]. rewrite H. reflexivity.
    + exact H.
    + cbn [repeat app wf_rel forallb wf_comp]. rewrite forallb_app, forallb_wf_repeat_par, H. reflexivity.
  - destruct k as [|j].
    + exact H.
    + cbn [repeat app wf_rel forallb wf_comp]. rewrite forallb_app, forallb_wf_repeat_par, H. reflexivity.
Qed.

Lemma generated_wf tgt d s t :
  c_sources tgt = [] -> simple d = true -> simple t = true -> path_prefix t d = false ->
  forallb wf_comp (strip_target tgt t) = true ->
  wf_rel (strip_target tgt (generate_path tgt (d ++ [Norm s]) t)) = true.
Proof.
  intros Hsrc Hd Ht Hpre Hwf.
  destruct (common_prefix_split t d) as (cp & t' & d' & -> & -> & Hdiv).
  rewrite simple_app in Hd, Ht. apply andb_true_iff in Hd as [Hcp Hd']. apply andb_true_iff in Ht as [_ Ht'].
  assert (Hne : t' <> []).
  { intros ->. rewrite app_nil_r in Hpre. clear - Hpre. induction cp as [|c cp IH]; [discriminate|].
    cbn [app path_prefix] in Hpre. rewrite comp_eqb_refl in Hpre. auto. }
  destruct (simple_snoc_inv t' Ht' Hne) as (y & n & -> & Hy).
  rewrite (generate_path_simple tgt Hsrc cp d' (y ++ [Norm n]) s Hcp Hd' Ht' Hne Hdiv).
  rewrite strip_target_app. rewrite strip_target_app, forallb_app in Hwf.
  apply andb_true_iff in Hwf as [_ Hwf]. apply wf_rel_gen_prefix. exact Hwf.
Qed.

(** ** the theorem on the written argument *)
Theorem convert_keeps_target :
  forall (tgt : config) (rcs : rc_files) (f : fs) (d : path) (s : bytes) (t : path) (m : bytes),
    c_sources tgt = [] ->
    parse_path (module_folder_name tgt) = [Norm m] ->
    simple d = true -> simple t = true ->
    path_prefix t d = false ->
    strip_target tgt t <> [] ->
    forallb wf_comp (strip_target tgt t) = true ->
    unambiguous tgt f t ->
    exists t',
      find_require tgt rcs f (d ++ [Norm s]) (generate_require tgt (d ++ [Norm s]) t) = Found t' /\
      same_file t' t = true.
Proof.
  intros tgt rcs f d s t m Hsrc Hmfn Hd Ht Hpre Hstrip Hwf Hun.
  unfold find_require, generate_require.
  rewrite parse_write_roundtrip by (apply generated_wf; assumption).
  apply (convert_keeps_target_paths tgt rcs f d s t m); assumption.
Qed.

(** ** requiring file directly in the working directory: the locators answer [./t] *)
Theorem convert_keeps_target_toplevel :
  forall (tgt : config) (rcs : rc_files) (f : fs) (s : bytes) (t : path) (m : bytes),
    parse_path (module_folder_name tgt) = [Norm m] ->
    init_source tgt [Norm s] = false ->
    simple t = true ->
    strip_target tgt t <> [] ->
    forallb wf_comp (strip_target tgt t) = true ->
    unambiguous tgt f t ->
    exists t',
      find_require tgt rcs f [Norm s] (generate_require tgt [Norm s] (Cur :: t)) = Found t' /\
      same_file t' (Cur :: t) = true.
Proof.
  intros tgt rcs f s t m Hmfn Hinit Ht Hstrip Hwf Hun.
  assert (Hne : t <> []) by (intros ->; apply Hstrip; reflexivity).
  destruct (simple_snoc_inv t Ht Hne) as (y & n & -> & Hy).
  unfold find_require, generate_require, generate_path.
  cbn [is_require_relative starts_with_cur orb].
  rewrite (normalize_simple false [Norm s]) by reflexivity.
  unfold init_source in Hinit. rewrite Hinit.
  change (Cur :: y ++ [Norm n]) with ([Cur] ++ y ++ [Norm n]).
  rewrite strip_target_app.
  pose proof (strip_target_simple tgt y n Hy) as Hst.
  rewrite parse_write_roundtrip by exact Hwf.
  cbn [app]. rewrite normalize_true_cur_simple by exact Hst.
  unfold find_require_path.
  assert (Hh : head_path tgt (rc_aliases tgt rcs [Norm s]) [Norm s] (Cur :: strip_target tgt (y ++ [Norm n]))
               = inl (Cur :: strip_target tgt (y ++ [Norm n]))).
  { unfold head_path. cbn [is_require_relative starts_with_cur orb].
    destruct (c_luau tgt); [destruct (is_module_folder_name tgt [Norm s])|]; reflexivity. }
  rewrite Hh. unfold locate. rewrite normalize_true_cur_simple by exact Hst.
  unfold unambiguous in Hun.
  destruct (strip_target tgt (y ++ [Norm n])) as [|c0 st0] eqn:Est; [congruence|].
  assert (Hst' : c0 :: st0 <> []) by discriminate.
  destruct (simple_snoc_inv _ Hst Hst') as (y0 & n0 & E0 & _).
  rewrite E0 in Hun |- *.
  rewrite (candidates_documented_order _ _ m Hmfn) in Hun.
  rewrite (candidates_documented_order _ _ m Hmfn).
  rewrite documented_candidates_cons_cur.
  rewrite first_file_cons_cur
    by (intros x Hx; apply (documented_candidates_nonempty (y0 ++ [Norm n0]) m x); [destruct y0; discriminate|exact Hx]).
  rewrite Hun. cbn [option_map]. eexists. split; [reflexivity|].
  unfold same_file. rewrite normalize_true_cur_simple by exact Ht. apply path_eqb_refl.
Qed.

(** ** the unrestricted statement is false *)

Local Open Scope string_scope.
Definition S (s : string) : bytes := of_string s.
Definition Pn (l : list string) : path := map (fun s => Norm (S s)) l.

Definition path_mode (mfn : string) : config :=
  {| c_luau := false; c_mfn := S mfn; c_sources := []; c_project := None; c_use_rc := false |}.
Definition luau_mode : config :=
  {| c_luau := true; c_mfn := S "init"; c_sources := []; c_project := None; c_use_rc := false |}.

(** "convert_require ... produces a require that resolves, under the target mode, to the same file
    the original resolved to under the current mode" *)
Definition convert_full_statement : Prop :=
  forall (cur tgt : config) (rcs : rc_files) (f : fs) (src : path) (literal : bytes) (t : path),
    find_require cur rcs f src literal = Found t ->
    exists t', find_require tgt rcs f src (generate_require tgt src t) = Found t' /\ same_file t' t = true.

(** [src/b.lua] and [src/b.luau] both exist; [require("./b.lua")] in [src/a.lua] becomes
    [require("./b")], which is [src/b.luau] *)
Theorem convert_keeps_target_refuted : ~ convert_full_statement.
Proof.
  intros H.
  destruct (H (path_mode "init") luau_mode []
              (mk_fs [Pn ["src"; "a.lua"]; Pn ["src"; "b.lua"]; Pn ["src"; "b.luau"]])
              (Pn ["src"; "a.lua"]) (S "./b.lua") (Pn ["src"; "b.lua"]) eq_refl) as (t' & Ht' & Hs).
  vm_compute in Ht'. inversion Ht'; subst. vm_compute in Hs. discriminate.
Qed.

(** the same holds when the target is unambiguous but the resolved path starts with "." :
    [sources: { pkg: "./pkg" }], [require("pkg/b")] in [src/a.lua] resolves to [./pkg/b.lua]
    and becomes [require("./pkg/b")], which is [src/pkg/b] *)
Definition path_mode_pkg : config :=
  {| c_luau := false; c_mfn := S "init"; c_sources := [(S "pkg", [Cur; Norm (S "pkg")])];
     c_project := Some []; c_use_rc := false |}.
Definition luau_mode_pkg : config :=
  {| c_luau := true; c_mfn := S "init"; c_sources := [(S "@pkg", [Cur; Norm (S "pkg")])];
     c_project := Some []; c_use_rc := false |}.

Theorem convert_relative_result_refuted :
  exists (f : fs) (src : path) (literal : bytes) (t : path),
    find_require path_mode_pkg [] f src literal = Found t /\
    unambiguous luau_mode_pkg f t /\
    is_require_relative t = true /\
    find_require luau_mode_pkg [] f src (generate_require luau_mode_pkg src t) = Failed ENotFound.
Proof.
  exists (mk_fs [Pn ["src"; "a.lua"]; Pn ["pkg"; "b.lua"]]), (Pn ["src"; "a.lua"]), (S "pkg/b"),
         (Cur :: Pn ["pkg"; "b.lua"]).
  repeat split; vm_compute; reflexivity.
Qed.

(** ** the hypotheses of the positive theorems are satisfiable *)

Example convert_keeps_target_instance :
  let tgt := luau_mode in
  let f := mk_fs [Pn ["src"; "sub"; "init.luau"]; Pn ["src"; "b"; "init.lua"]; Pn ["src"; "b.txt"]] in
  let d := Pn ["src"; "sub"] in
  let t := Pn ["src"; "b"; "init.lua"] in
  c_sources tgt = [] /\ parse_path (module_folder_name tgt) = [Norm (S "init")] /\
  simple d = true /\ simple t = true /\ path_prefix t d = false /\ strip_target tgt t <> [] /\
  forallb wf_comp (strip_target tgt t) = true /\ unambiguous tgt f t /\
  generate_require tgt (d ++ [Norm (S "init.luau")])%list t = S "./b" /\
  find_require tgt [] f (d ++ [Norm (S "init.luau")])%list (S "./b") = Found t.
Proof. repeat split; try (vm_compute; reflexivity). vm_compute. discriminate. Qed.

Example convert_keeps_target_toplevel_instance :
  let tgt := path_mode "index" in
  let f := mk_fs [Pn ["main.lua"]; Pn ["lib"; "index.luau"]] in
  let t := Pn ["lib"; "index.luau"] in
  parse_path (module_folder_name tgt) = [Norm (S "index")] /\ init_source tgt [Norm (S "main.lua")] = false /\
  simple t = true /\ strip_target tgt t <> [] /\ forallb wf_comp (strip_target tgt t) = true /\
  unambiguous tgt f t /\
  generate_require tgt [Norm (S "main.lua")] (Cur :: t) = S "./lib".
Proof. repeat split; try (vm_compute; reflexivity). vm_compute. discriminate. Qed.

Example candidates_six_instance :
  candidates (Pn ["src"; "example"]) (S "init") =
  [ Pn ["src"; "example"]; Pn ["src"; "example.luau"]; Pn ["src"; "example.lua"];
    Pn ["src"; "example"; "init"]; Pn ["src"; "example"; "init.luau"]; Pn ["src"; "example"; "init.lua"] ].
Proof. vm_compute. reflexivity. Qed.

(** names that merely begin with the module folder name are not module-folder files: the test is
    on the whole file name and on the file stem (up to the LAST dot) *)
Example init_like_names_are_ordinary_files :
  is_module_folder_name luau_mode (Pn ["src"; "pkg"; "init.spec.luau"]) = false /\
  is_module_folder_name luau_mode (Pn ["src"; "pkg"; "init.server.luau"]) = false /\
  is_module_folder_name (path_mode "index") (Pn ["src"; "pkg"; "index.spec.lua"]) = false /\
  is_module_folder_name luau_mode (Pn ["src"; "pkg"; "init.luau"]) = true /\
  is_module_folder_name luau_mode (Pn ["src"; "pkg"; "init.config"]) = true /\
  head_path luau_mode None (Pn ["src"; "pkg"; "init.spec.luau"]) [Cur; Norm (S "helper")] = inl (Pn ["src"; "pkg"; "helper"]) /\
  head_path luau_mode None (Pn ["src"; "pkg"; "init.luau"]) [Cur; Norm (S "helper")] = inl (Pn ["src"; "helper"]) /\
  generate_require luau_mode (Pn ["src"; "a.lua"]) (Pn ["src"; "pkg"; "init.spec.luau"]) = S "./pkg/init.spec" /\
  generate_require (path_mode "init") (Pn ["src"; "pkg"; "init.spec.luau"]) (Pn ["src"; "pkg"; "helper.luau"]) = S "./helper".
Proof. vm_compute. repeat split; reflexivity. Qed.

Lemma is_module_folder_name_last c q n :
  is_module_folder_name c (q ++ [Norm n])%list =
  bytes_eqb n (module_folder_name c) || opt_bytes_eqb (name_stem n) (module_folder_name c).
Proof. unfold is_module_folder_name. rewrite file_stem_snoc, file_name_snoc. reflexivity. Qed.

(** the darklua configuration in [project/] (not the working directory), [project/.luaurc] with
    [{"aliases": {"pkg": "packages"}}]: [require("@pkg/lib")] in [project/src/main.lua] is
    [project/packages/lib.lua] (the [.luaurc] alias is not joined onto the configuration
    location: the decoy [project/project/packages/lib.lua] is not chosen), and convert_require
    path -> luau writes [require("../packages/lib")], which is the same file *)
Example configuration_in_subdirectory_luaurc_alias :
  let cur := {| c_luau := false; c_mfn := S "init"; c_sources := [(S "vendor", Pn ["vendor"])];
                c_project := Some (Pn ["project"]); c_use_rc := true |} in
  let tgt := {| c_luau := true; c_mfn := S "init"; c_sources := [(S "@vendor", Pn ["vendor"])];
                c_project := Some (Pn ["project"]); c_use_rc := true |} in
  let rcs : rc_files := [(Pn ["project"], [(S "pkg", Pn ["packages"])])] in
  let f := mk_fs [Pn ["project"; "src"; "main.lua"]; Pn ["project"; ".luaurc"];
                  Pn ["project"; "packages"; "lib.lua"]; Pn ["project"; "project"; "packages"; "lib.lua"];
                  Pn ["project"; "vendor"; "lib.lua"]; Pn ["vendor"; "lib.lua"]] in
  let src := Pn ["project"; "src"; "main.lua"] in
  find_require cur rcs f src (S "@pkg/lib") = Found (Pn ["project"; "packages"; "lib.lua"]) /\
  find_require tgt rcs f src (S "@pkg/lib") = Found (Pn ["project"; "packages"; "lib.lua"]) /\
  find_require cur rcs f src (S "vendor/lib") = Found (Pn ["project"; "vendor"; "lib.lua"]) /\
  generate_require tgt src (Pn ["project"; "packages"; "lib.lua"]) = S "../packages/lib" /\
  find_require tgt rcs f src (S "../packages/lib") = Found (Pn ["project"; "packages"; "lib.lua"]) /\
  generate_require tgt src (Pn ["project"; "vendor"; "lib.lua"]) = S "@vendor/lib".
Proof. vm_compute. repeat split; reflexivity. Qed.

(** ** a target source/alias whose value is exactly the resolved FILE

    [generate_path] writes the alias name alone ([skip(count)] leaves nothing); [strip_target] looks
    at the GENERATED path (the alias name), not at the resolved file, so nothing is popped even when
    the file is a module-folder file; the target mode then finds the file as candidate 0 of itself.
    No "unambiguous" hypothesis is needed: the file only has to exist. *)
Theorem convert_keeps_target_file_alias :
  forall (tgt : config) (rcs : rc_files) (f : fs) (src t : path) (name : bytes),
    simple t = true -> t <> [] ->
    (* the longest target alias that contains the file is the file itself *)
    best_alias (project_location tgt src) t (c_sources tgt) None = Some (name, t) ->
    (* the alias name is an ordinary name that [strip_target] leaves alone *)
    wf_name name = true ->
    is_module_folder_name tgt [Norm name] = false -> is_lua_ext (name_ext name) = false ->
    (* under the target mode the alias name alone designates the file *)
    head_path tgt (rc_aliases tgt rcs src) src [Norm name] = inl t ->
    is_file f t = true ->
    generate_require tgt src t = name /\
    find_require tgt rcs f src (generate_require tgt src t) = Found t.
Proof.
  intros tgt rcs f src t name Ht Hne Hbest Hwf Hmfn Hext Hhead Hfile.
  assert (Hgen : strip_target tgt (generate_path tgt src t) = [Norm name]).
  { unfold generate_path.
    destruct (simple_head_norm t Ht Hne) as (x & r & Et).
    assert (Hrel : is_require_relative t = false) by (rewrite Et; reflexivity).
    rewrite Hrel, (normalize_simple false t Ht), Hbest.
    rewrite skipn_all, parse_path_wf_name by exact Hwf.
    unfold extend. cbn [fold_left].
    unfold strip_target. rewrite Hmfn.
    change (extension [Norm name]) with (name_ext name). rewrite Hext. reflexivity. }
  assert (Hw : write_require_path [Norm name] = name).
  { unfold write_require_path. cbn [fold_left write_step orb app]. reflexivity. }
  unfold generate_require. rewrite Hgen, Hw. split; [reflexivity|].
  unfold find_require. rewrite parse_path_wf_name by exact Hwf.
  rewrite (normalize_simple true [Norm name]) by reflexivity.
  unfold find_require_path. rewrite Hhead. unfold locate.
  rewrite (normalize_simple true t Ht).
  unfold candidates. cbn [first_file]. rewrite Hfile. rewrite (normalize_simple true t Ht). reflexivity.
Qed.

(** [sources: { "@value": "src/value/init.luau" }] (a module-folder file), both target modes; the
    require reaches the file through another spelling *)
Example convert_keeps_target_file_alias_instance :
  let srcs := [(S "@value", Pn ["src"; "value"; "init.luau"]); (S "@vdir", Pn ["src"; "value"])] in
  let pm := {| c_luau := false; c_mfn := S "init"; c_sources := srcs; c_project := Some []; c_use_rc := false |} in
  let lm := {| c_luau := true; c_mfn := S "init"; c_sources := srcs; c_project := Some []; c_use_rc := false |} in
  let f := mk_fs [Pn ["src"; "a.lua"]; Pn ["src"; "value"; "init.luau"]; Pn ["src"; "value.luau"]] in
  let src := Pn ["src"; "a.lua"] in
  let t := Pn ["src"; "value"; "init.luau"] in
  find_require lm [] f src (S "./value/init") = Found t /\
  best_alias (project_location pm src) t (c_sources pm) None = Some (S "@value", t) /\
  wf_name (S "@value") = true /\ is_module_folder_name pm [Norm (S "@value")] = false /\
  head_path pm None src [Norm (S "@value")] = inl t /\ head_path lm None src [Norm (S "@value")] = inl t /\
  is_file f t = true /\
  generate_require pm src t = S "@value" /\ generate_require lm src t = S "@value" /\
  find_require pm [] f src (S "@value") = Found t /\ find_require lm [] f src (S "@value") = Found t.
Proof. vm_compute. repeat split; reflexivity. Qed.

(** the nearest [.luaurc] is used even when it declares no aliases: [.luaurc] {lib -> vendorA},
    [src/.luaurc] without aliases, configured [@lib -> vendorB]: [require("@lib/x")] in
    [src/main.luau] is [vendorB/x.lua] in both modes, and luau -> path writes [../vendorB/x] *)
Example nearest_luaurc_without_aliases :
  let lm := {| c_luau := true; c_mfn := S "init"; c_sources := [(S "@lib", Pn ["vendorB"])];
               c_project := Some []; c_use_rc := true |} in
  let pm := {| c_luau := false; c_mfn := S "init"; c_sources := []; c_project := Some []; c_use_rc := true |} in
  let pm' := {| c_luau := false; c_mfn := S "init"; c_sources := [(S "@lib", Pn ["vendorB"])]; c_project := Some []; c_use_rc := true |} in
  let rcs : rc_files := [([], [(S "lib", Pn ["vendorA"])]); (Pn ["src"], [])] in
  let f := mk_fs [Pn ["src"; "main.luau"]; Pn [".luaurc"]; Pn ["src"; ".luaurc"]; Pn ["vendorA"; "x.lua"]; Pn ["vendorB"; "x.lua"]] in
  let src := Pn ["src"; "main.luau"] in
  first_rc rcs (ancestors src) = Some (Pn ["src"], []) /\
  find_require lm rcs f src (S "@lib/x") = Found (Pn ["vendorB"; "x.lua"]) /\
  find_require pm' rcs f src (S "@lib/x") = Found (Pn ["vendorB"; "x.lua"]) /\
  find_require pm rcs f src (S "@lib/x") = Failed EUnknownSource /\
  generate_require pm src (Pn ["vendorB"; "x.lua"]) = S "../vendorB/x" /\
  find_require lm rcs f (Pn ["main.luau"]) (S "@lib/x") = Found (Pn ["vendorA"; "x.lua"]).
Proof. vm_compute. repeat split; reflexivity. Qed.
