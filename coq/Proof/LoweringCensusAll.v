(** C07: composition.  Every modelled lowering rule removes its construct and introduces none
    of the nine, so any sequence of them that contains a rule for a construct yields a tree
    free of it; a sequence covering all constructs (but [continue], whose rule is not
    modelled) applied to a tree without [continue] yields a tree a strict Lua 5.1 grammar can
    express. *)
From Coq Require Import ZArith NArith List Bool Lia.
From DL Require Import Lib.Bytes Lua.Syntax Lua.Census Model.Visit Model.Lowering
  Proof.LoweringCensusBase Proof.LoweringCensusVisit Proof.LoweringCensusRules.
Import ListNotations.
Local Open Scope nat_scope.

(** a rule for feature [i]: removes it, and keeps every feature absent that is absent *)
Definition lowers (i : nat) (r : block -> block) : Prop :=
  (forall b, feature i (r b) = 0%N) /\
  (forall j b, j < 9 -> feature j b = 0%N -> feature j (r b) = 0%N).

Definition rule := (nat * (block -> block))%type.

(** the modelled rules with the index (in [Lua/Census.v]) of the construct each targets *)
Definition lowering_rules : list rule :=
  [ (0, rule_compound_assign); (2, rule_if_expression); (3, rule_interpolated_string false);
    (3, rule_interpolated_string true); (4, rule_floor_division); (5, rule_luau_number);
    (6, rule_const); (7, rule_types); (8, rule_attribute) ].

Theorem lowering_rules_lower : forall p, In p lowering_rules -> lowers (fst p) (snd p).
Proof.
  intros p Hp. cbn in Hp.
  repeat destruct Hp as [<-|Hp]; try contradiction; cbn [fst snd]; split.
  - apply removes_compound_assign.
  - apply preserves_compound_assign.
  - apply removes_if_expression.
  - apply preserves_if_expression.
  - apply removes_interpolated_string.
  - apply preserves_interpolated_string.
  - apply removes_interpolated_string.
  - apply preserves_interpolated_string.
  - apply removes_floor_division.
  - apply preserves_floor_division.
  - apply removes_luau_number.
  - apply preserves_luau_number.
  - apply removes_const.
  - apply preserves_const.
  - apply removes_types.
  - apply preserves_types.
  - apply removes_attribute.
  - apply preserves_attribute.
Qed.

(** rules applied left to right *)
Definition apply_rules (rs : list rule) (b : block) : block := fold_left (fun b p => snd p b) rs b.

Theorem lowered_feature : forall rs, (forall p, In p rs -> lowers (fst p) (snd p)) ->
  forall j b, j < 9 -> feature j b = 0%N \/ In j (map fst rs) -> feature j (apply_rules rs b) = 0%N.
Proof.
  induction rs as [|[i r] rs IH]; intros G j b Hj Hc.
  - destruct Hc as [Z|[]]. exact Z.
  - unfold apply_rules. cbn [fold_left snd]. fold (apply_rules rs (r b)).
    destruct (G (i, r) (or_introl eq_refl)) as [Rm Kp]. cbn [fst snd] in Rm, Kp.
    apply IH; [intros p Hp; apply G; right; exact Hp|exact Hj|].
    destruct Hc as [Z|[E|Hin]].
    + left. apply Kp; assumption.
    + left. cbn [fst] in E. subst j. apply Rm.
    + right. exact Hin.
Qed.

(** all modelled rules, in ANY order (and any multiplicity): the result has none of the eight
    constructs they target; with no [continue] in the input, it is a Lua 5.1 tree *)
Theorem all_lowered : forall rs,
  (forall p, In p rs -> In p lowering_rules) ->
  (forall j, j < 9 -> j <> 1 -> In j (map fst rs)) ->
  forall b, feature 1 b = 0%N -> lua51_tree (apply_rules rs b) = true.
Proof.
  intros rs Sub Cov b Z1. apply lua51_tree_iff. intros j Hj.
  apply lowered_feature; [intros p Hp; apply lowering_rules_lower, Sub, Hp|exact Hj|].
  destruct (Nat.eq_dec j 1) as [->|Ne]; [left; exact Z1|right; apply Cov; assumption].
Qed.

(** in particular the list itself, and its reverse *)
Corollary all_lowered_listed : forall b, feature 1 b = 0%N -> lua51_tree (apply_rules lowering_rules b) = true.
Proof.
  apply all_lowered; [auto|]. intros j Hj Ne. cbn.
  do 9 (destruct j as [|j]; [tauto|]). lia.
Qed.

Corollary all_lowered_reversed : forall b, feature 1 b = 0%N -> lua51_tree (apply_rules (rev lowering_rules) b) = true.
Proof.
  apply all_lowered; [intros p Hp; apply in_rev, Hp|]. intros j Hj Ne. rewrite map_rev. apply in_rev. rewrite rev_involutive.
  cbn. do 9 (destruct j as [|j]; [tauto|]). lia.
Qed.

(** the hypotheses are satisfiable by a tree that contains every construct *)
Example all_lowered_example :
  let b := Block [SLocal true [Param [120%N] (Some (TyNode 0%N [] []))]
                     [EIf [EBranch (EIdent [99%N]) (EBinary BIDiv (ENumber (NBin 5%N false)) (EInterp [ISExpr (EIdent [121%N])]))]
                          (EFunction (FBody [] false None None None 1%N (Block [SCompound BAdd (EIdent [122%N]) ENil] None)))]] None in
  feature 1 b = 0%N /\ lua51_tree b = false /\ lua51_tree (apply_rules lowering_rules b) = true.
Proof. vm_compute. repeat split. Qed.

(** * The fuel [w_block b] is sufficient: more fuel gives the same tree *)
Definition lowering_hooks : list hooks :=
  [ hooks_compound_assign; hooks_if_expression; hooks_interpolated_string false; hooks_interpolated_string true;
    hooks_floor_division; hooks_luau_number; hooks_const; hooks_types; hooks_attribute ].

Theorem fuel_sufficient : forall H, In H lowering_hooks ->
  forall b n, w_block b <= n -> visit_block H n 0 b = run_rule H b.
Proof.
  intros H Hin b n Hn. apply LoweringCensusVisit.run_rule_stable; [|exact Hn].
  cbn in Hin. repeat destruct Hin as [<-|Hin]; try contradiction.
  - exact hooks_w_compound.
  - exact hooks_w_if.
  - exact (hooks_w_interp false).
  - exact (hooks_w_interp true).
  - exact hooks_w_floor.
  - exact hooks_w_luau_number.
  - exact hooks_w_const.
  - exact hooks_w_types.
  - exact hooks_w_attribute.
Qed.
