(** C02: the conditions evaluated on the frozen tables, satisfiability examples and the
    refutation of the unrestricted statement. *)
From DL Require Import Lib.Bytes Model.Lexer Model.DenseGen Model.Precedence Model.C02Spec Proof.PrecedenceFacts Proof.C02FrozenTables.
Open Scope N_scope.

Definition it (m : mode) (s : string) : item := {| imode := m; itext := of_string s |}.

(** the frozen copy of the tables satisfies the condition (the live copy is re-checked on
    every run in [Generated/C02Current.v]) *)
Example frozen_table_ok : spacing_ok tbl = true.
Proof. vm_compute. reflexivity. Qed.

(** the hypotheses are satisfiable by a non-trivial push list:
    [local function f(...) return 1 ..x.y, - -a[ [[s]] ] end] *)
Definition sample_items : list item :=
  [it MStr "local"; it MSpace ""; it MStr "function"; it MSpace ""; it MStr "f"; it MStr "(";
   it MStr "..."; it MStr ")"; it MStr "return"; it MStr "1"; it (MBreak BConcat) "..";
   it MStr "x"; it (MNlRaw 1) "."; it MStr "y"; it MStr ","; it (MBreak BMinus) "-";
   it (MBreak BMinus) "-"; it MStr "a"; it MStr "["; it (MBreak BLongString) "[[s]]"; it MStr "]";
   it MStr "g"; it MMerge "("; it MStr ")"; it MStr "end"]%string.

Example sample_in_universe : adjacency_ok sample_items = true.
Proof. vm_compute. reflexivity. Qed.

Example sample_text :
  to_string (emit tbl 80 sample_items) = "local function f(...)return 1 ..x.y,- -a[ [[s]] ]g()end"%string.
Proof. vm_compute. reflexivity. Qed.

(** THE UNRESTRICTED STATEMENT IS FALSE for the tables of darklua: a number whose text
    starts with "-" (darklua writes the number node -0.0 as "-0") followed by ".." is not
    separated, and "0..h" is one malformed number.  This push list is what dense.rs performs
    for [return -0 .. h] after compute_expression (recorded finding). *)
Definition fusion_items : list item :=
  [it MStr "return"; it MStr "-0"; it (MBreak BConcat) ".."; it MStr "h"]%string.

Theorem no_fusion_unrestricted_refuted :
  exists items span, lex (emit tbl span items) <> lex (canon items).
Proof. exists fusion_items, 80. vm_compute. discriminate. Qed.

(** ... and it is outside the hypotheses of both theorems, as it must be *)
Example fusion_items_rejected : stream_ok tbl fusion_items = false /\ adjacency_ok fusion_items = false.
Proof. vm_compute. split; reflexivity. Qed.

(** * parenthesisation *)

Example frozen_prec_ok : prec_ok ptbl = true.
Proof. vm_compute. reflexivity. Qed.

(** a non-trivial tree: not (((a + b) * -(c ^ d)) ^ (e .. (f .. g))), written "not((a+b)*-c^d)^(e..f..g)" *)
Definition sample_tree : expr :=
  EUn Not (EBin Caret (EBin Asterisk (EBin Plus (EAtom 0) (EAtom 1)) (EUn Neg (EBin Caret (EAtom 2) (EAtom 3))))
                      (EBin Concat (EAtom 4) (EBin Concat (EAtom 5) (EAtom 6)))).

Example sample_tree_tokens :
  tokens_of_expr ptbl sample_tree =
  [KOp SNot; KLp; KLp; KAtom 0; KOp SPlus; KAtom 1; KRp; KOp SStar; KOp SMinus; KAtom 2; KOp SCaret; KAtom 3; KRp;
   KOp SCaret; KLp; KAtom 4; KOp SConcat; KAtom 5; KOp SConcat; KAtom 6; KRp].
Proof. vm_compute. reflexivity. Qed.

Example sample_tree_reads_back :
  option_map strip (parse_expr (tokens_of_expr ptbl sample_tree)) = Some sample_tree.
Proof. vm_compute. reflexivity. Qed.

(** without the generator's parentheses the same tree is read differently: the condition
    [wp] is not vacuous *)
Example plain_print_is_ambiguous :
  parse_expr (print_plain (EBin Asterisk (EBin Plus (EAtom 0) (EAtom 1)) (EAtom 2)))
  = Some (EBin Plus (EAtom 0) (EBin Asterisk (EAtom 1) (EAtom 2))).
Proof. vm_compute. reflexivity. Qed.

(** a trailing cast to a bare type name on the right spine of the left operand of "<":
    Binary(<, Binary(+, a, TypeCast(b, T)), c) is written "(a+b::T)<c"; without the parentheses
    the reference grammar reads "T<c" as the start of type parameters *)
Definition cast_tree : expr := EBin LowerThan (EBin Plus (EAtom 0) (ECast (EAtom 1) (TyName false))) (EAtom 2).

Example cast_tree_tokens :
  tokens_of_expr ptbl cast_tree = [KLp; KAtom 0; KOp SPlus; KAtom 1; KCast (TyName false); KRp; KOp SLt; KAtom 2].
Proof. vm_compute. reflexivity. Qed.

Example cast_tree_reads_back : option_map strip (parse_expr (tokens_of_expr ptbl cast_tree)) = Some cast_tree.
Proof. vm_compute. reflexivity. Qed.

Example cast_without_parentheses_is_rejected : parse_expr (print_plain cast_tree) = None.
Proof. vm_compute. reflexivity. Qed.

(** a type with parameters needs none: "a+b::T<P><c" *)
Example cast_param_tree_tokens :
  tokens_of_expr ptbl (EBin LowerThan (EBin Plus (EAtom 0) (ECast (EAtom 1) (TyName true))) (EAtom 2))
  = [KAtom 0; KOp SPlus; KAtom 1; KCast (TyName true); KOp SLt; KAtom 2].
Proof. vm_compute. reflexivity. Qed.

(** the regression class "variadic return": value :: () -> ...Elem < limit must be wrapped *)
Example variadic_return_cast_is_wrapped :
  tokens_of_expr ptbl (EBin LowerThan (ECast (EAtom 0) (TyFunVariadic (TyName false))) (EAtom 1))
  = [KLp; KAtom 0; KCast (TyFunVariadic (TyName false)); KRp; KOp SLt; KAtom 1].
Proof. vm_compute. reflexivity. Qed.
