(** Stage 3: the "(" of a call is glued to the callee; the rule that decides the ";" between
    statements looks at the tree, not at the text. *)
From DL Require Import Lib.Bytes Model.Lexer Model.DenseGen Model.Precedence Model.C02Spec
  Proof.DenseGenFacts Proof.PrecedenceFacts Proof.C02FrozenTables.
Require Import Lia.
Open Scope N_scope.

(** [merge_char]: at every column span the "(" directly follows the text of the previous push
    (the callee's last token): no space and no new line can land between them *)
Theorem merge_char_glues : forall span g,
  exists pre, out (merge_char span g [40]) = pre ++ last_push g ++ [40].
Proof.
  intros span g. unfold merge_char. destruct (fits span g 1).
  - exists (before_last_push g). cbn [raw_push out]. rewrite app_assoc, before_last_app. reflexivity.
  - exists (strip_trailing_spaces (before_last_push g) ++ [10]). cbn [out].
    rewrite <- !app_assoc. reflexivity.
Qed.

(** where the generator adds no parentheses along the right spine, the tree-based rule and
    the text agree *)
Theorem semicolon_rule_partial : forall isp P e,
  right_spine_plain P e = true ->
  ends_prefix isp e = closes_prefix isp (tokens_of_expr P e).
Proof.
  intros isp P. unfold tokens_of_expr, closes_prefix.
  induction e as [a|o l IHl r IHr|u x IHx|x IHx|x IHx k]; intros H; cbn [right_spine_plain] in H.
  - reflexivity.
  - apply andb_true_iff in H as [H1 H2]. apply Bool.negb_true_iff in H1.
    cbn [parenthesize print_plain ends_prefix]. rewrite H1. cbn [wrap].
    rewrite last_app_nonempty by discriminate.
    rewrite last_cons_nonempty by apply print_plain_nonempty.
    apply IHr. exact H2.
  - apply andb_true_iff in H as [H1 H2]. apply Bool.negb_true_iff in H1.
    cbn [parenthesize print_plain ends_prefix]. rewrite H1. cbn [wrap].
    rewrite last_cons_nonempty by apply print_plain_nonempty.
    apply IHx. exact H2.
  - cbn [parenthesize print_plain ends_prefix].
    rewrite last_cons_nonempty.
    + rewrite last_app_nonempty by discriminate. reflexivity.
    + intros E. apply app_eq_nil in E as [_ E]. discriminate E.
  - cbn [parenthesize print_plain ends_prefix].
    rewrite last_app_nonempty by discriminate. reflexivity.
Qed.

(** ... and where it does, they do not: [a * (c + 1)] written from the tree
    Binary( *, a, Binary(+, c, 1)) ends with ")" but the rule answers "does not end with a
    prefix expression", so no ";" is written before a following "(" (recorded finding) *)
Theorem semicolon_rule_refuted :
  exists e, ends_prefix (fun a => a <? 50) e = false
            /\ closes_prefix (fun a => a <? 50) (tokens_of_expr ptbl e) = true.
Proof.
  exists (EBin Asterisk (EAtom 0) (EBin Plus (EAtom 1) (EAtom 99))). vm_compute. split; reflexivity.
Qed.
