(** Bundler model (Model/Bundle.v): the structural invariant of the state (cache and definitions
    agree, every file is defined at most once, every definition is the processed body of its
    file, a call site is left alone only when an error was pushed), by induction on derivations. *)
From Coq Require Import NArith Arith PeanoNat List Bool Lia.
From DL Require Import Lib.Bytes Model.Rename Model.Bundle Proof.BundleSpec Proof.BundleBasics
  Proof.BundleRel.
Import ListNotations.
Open Scope N_scope.

Section Inv.
Variable g : graph.

(** the weak (unconditional) reading of [site_ok]: a replaced site points below [k] at the
    definition of the file it resolves to; an untouched site is always accepted here *)
Definition wsite (ms : list (file * list site)) (k : nat) (r : req) (x : site) : Prop :=
  match x with
  | None => True
  | Some j => (j < k)%nat /\ exists f, r = RFile f /\ nth_error (map fst ms) j = Some f
  end.

Definition entry_ok (s : state) (k : nat) (f : file) (sites : list site) : Prop :=
  (In None sites -> errors s <> []) /\
  match lookup g f with
  | Some KData => sites = []
  | Some (KLua reqs (Some 1%nat)) => Forall2 (wsite (defs s) k) reqs sites
  | _ => False
  end.

Record Good (s : state) : Prop := mkGood {
  G_hit : forall f k, cache_get (cache s) f = Some k -> nth_error (map fst (defs s)) k = Some f;
  G_miss : forall f, cache_get (cache s) f = None -> ~ In f (map fst (defs s));
  G_nodup : NoDup (map fst (defs s));
  G_skip : skip s <> [] -> errors s <> [];
  G_entry : forall k f sites, nth_error (defs s) k = Some (f, sites) -> entry_ok s k f sites
}.

Lemma wsite_app ms more k k' r x : (k <= k')%nat -> wsite ms k r x -> wsite (ms ++ more) k' r x.
Proof.
  intros L. destruct x as [j|]; cbn [wsite]; [|trivial].
  intros [Lj [f [-> N]]]. split; [lia|]. exists f. split; [reflexivity|].
  rewrite map_app. now apply nth_error_app_some.
Qed.

Lemma entry_ok_grow s s' k f sites more :
  defs s' = defs s ++ more -> (errors s <> [] -> errors s' <> []) ->
  entry_ok s k f sites -> entry_ok s' k f sites.
Proof.
  intros D E [H1 H2]. split; [tauto|].
  destruct (lookup g f) as [[reqs [[|[|n]]|]| |]|]; try exact H2.
  rewrite D. eapply Forall2_weaken; [|exact H2]. intros a b. now apply wsite_app.
Qed.

Lemma Good_init : Good init.
Proof.
  constructor; cbn.
  - discriminate.
  - tauto.
  - constructor.
  - tauto.
  - intros [|k]; discriminate.
Qed.

Lemma Good_push e s : Good s -> Good (push_error e s).
Proof.
  intros [H1 H2 H3 H4 H5]. constructor; cbn [push_error cache skip defs errors]; auto.
  - intros _. destruct (errors s); discriminate.
  - intros k f sites H. apply (entry_ok_grow s _ k f sites []); cbn; auto.
    + now rewrite app_nil_r.
    + intros _. destruct (errors s); discriminate.
Qed.

Lemma Good_skip_push f e s : Good s -> Good (add_skip f (push_error e s)).
Proof.
  intros G. apply (Good_push e) in G. destruct G as [H1 H2 H3 H4 H5].
  constructor; cbn [add_skip push_error cache skip defs errors] in *; auto.
  - intros _. destruct (errors s); discriminate.
Qed.

Lemma Good_define f sites s :
  Good s -> ~ In f (map fst (defs s)) -> entry_ok s (List.length (defs s)) f sites ->
  Good (fst (define f sites s)).
Proof.
  intros [H1 H2 H3 H4 H5] NI EO.
  constructor; cbn [define fst cache skip defs errors].
  - intros f' k. cbn [cache_get]. destruct (N.eqb_spec f f') as [<-|NE].
    + intros [= <-]. rewrite map_app. cbn [map fst].
      replace (List.length (defs s)) with (List.length (map fst (defs s))) by apply map_length.
      apply nth_error_snoc_len.
    + intros H. rewrite map_app. apply nth_error_app_some. now apply H1.
  - intros f'. cbn [cache_get]. destruct (N.eqb_spec f f') as [<-|NE]; [discriminate|].
    intros H. rewrite map_app. intros C. apply in_app_or in C as [C|[C|[]]].
    + now apply (H2 f').
    + now apply NE.
  - rewrite map_app. now apply NoDup_snoc.
  - exact H4.
  - intros k f' sites' H. apply nth_error_snoc_inv in H as [H|[-> [= -> ->]]].
    + apply (entry_ok_grow s _ k f' sites' [(f, sites)]); cbn; auto.
    + apply (entry_ok_grow s _ _ f sites [(f, sites)]); cbn; auto.
Qed.

(** files on the require stack are not defined by what runs below them *)
Definition frame (stack : list file) (s s' : state) : Prop :=
  forall x, In x stack -> In x (map fst (defs s')) -> In x (map fst (defs s)).

Lemma frame_refl stack s : frame stack s s.
Proof. intros x _ H; exact H. Qed.

Lemma frame_trans stack s1 s2 s3 : frame stack s1 s2 -> frame stack s2 s3 -> frame stack s1 s3.
Proof. intros A B x Hx H. apply A; [exact Hx|]. now apply B. Qed.

Definition P_Inl (stack : list file) (f : file) (s s' : state) (r : inlined) : Prop :=
  Good s ->
  Good s' /\ frame stack s s' /\
  (forall k, r = inl k -> nth_error (map fst (defs s')) k = Some f).

Definition P_Vis (stack : list file) (rs : list req) (s s' : state) (xs : list site) : Prop :=
  Good s ->
  Good s' /\ frame stack s s' /\
  Forall2 (wsite (defs s') (List.length (defs s'))) rs xs /\
  (In None xs -> errors s' <> []).

Lemma define_nth f sites s :
  nth_error (map fst (defs (fst (define f sites s)))) (List.length (defs s)) = Some f.
Proof.
  cbn [define fst defs]. rewrite map_app. cbn [map fst].
  replace (List.length (defs s)) with (List.length (map fst (defs s))) by apply map_length.
  apply nth_error_snoc_len.
Qed.

Lemma define_frame stack f sites s0 s :
  ~ In f stack -> frame stack s0 s -> frame stack s0 (fst (define f sites s)).
Proof.
  intros NI F x Hx H. cbn [define fst defs] in H. rewrite map_app in H.
  apply in_app_or in H as [H|[H|[]]]; [now apply F|]. cbn in H. subst x. contradiction.
Qed.

Lemma push_nonempty e s : errors (push_error e s) <> [].
Proof. cbn. destruct (errors s); discriminate. Qed.

Lemma skip_push_nonempty f e s : errors (add_skip f (push_error e s)) <> [].
Proof. cbn. destruct (errors s); discriminate. Qed.

Lemma Inl_Vis_good :
  (forall stack f s s' r, Inl g stack f s s' r -> P_Inl stack f s s' r) /\
  (forall stack rs s s' xs, Vis g stack rs s s' xs -> P_Vis stack rs s s' xs).
Proof.
  apply Inl_Vis_ind; unfold P_Inl, P_Vis.
  - (* cached *) intros stack f s k Hc G. split; [exact G|]. split; [apply frame_refl|].
    intros k' [= <-]. now apply (G_hit s G).
  - (* cyclic *) intros stack f s i Hc Hi G. split; [exact G|]. split; [apply frame_refl|discriminate].
  - (* resource *) intros stack f s Hc Hi Hl G. split; [exact G|]. split; [apply frame_refl|discriminate].
  - (* data *) intros stack f s Hc Hi Hl G.
    assert (NI : ~ In f stack) by now apply index_of_none.
    split; [|split].
    + apply Good_define; [exact G|now apply (G_miss s G)|].
      split; [intros []|]. now rewrite Hl.
    + apply define_frame; [exact NI|apply frame_refl].
    + intros k [= <-]. apply define_nth.
  - (* lua *) intros stack f s reqs s1 sites Hc Hi Hl HV IH G.
    destruct (IH G) as [G1 [F1 [W1 N1]]].
    assert (NI : ~ In f stack) by now apply index_of_none.
    split; [|split].
    + apply Good_define; [exact G1| |].
      * intros C. apply (G_miss s G f Hc). apply F1; [|exact C].
        apply in_or_app. right. now left.
      * split; [exact N1|]. now rewrite Hl.
    + apply define_frame; [exact NI|]. intros x Hx. apply F1. apply in_or_app. now left.
    + intros k [= <-]. apply define_nth.
  - (* module *) intros stack f s reqs ret s1 sites Hc Hi Hl Hr HV IH G.
    destruct (IH G) as [G1 [F1 _]]. split; [exact G1|]. split; [|discriminate].
    intros x Hx. apply F1. apply in_or_app. now left.
  - (* nil *) intros stack s G. split; [exact G|]. split; [apply frame_refl|].
    split; [constructor|intros []].
  - (* notfound *) intros stack lit rest s s' xs HV IH G.
    destruct (IH (Good_push _ _ G)) as [G' [F' [W' N']]].
    split; [exact G'|]. split; [exact F'|]. split; [constructor; [exact I|exact W']|].
    intros _. eapply grows_errors_nonempty; [eapply Vis_grows; exact HV|apply push_nonempty].
  - (* skip *) intros stack f rest s s' xs Hm HV IH G.
    destruct (IH G) as [G' [F' [W' N']]].
    split; [exact G'|]. split; [exact F'|]. split; [constructor; [exact I|exact W']|].
    intros _. eapply grows_errors_nonempty; [eapply Vis_grows; exact HV|].
    apply (G_skip s G). eapply memf_true; exact Hm.
  - (* inl *) intros stack f rest s s1 k s' xs Hm HI IH1 HV IH2 G.
    destruct (IH1 G) as [G1 [F1 K1]]. destruct (IH2 G1) as [G' [F' [W' N']]].
    split; [exact G'|]. split; [eapply frame_trans; eassumption|]. split.
    + constructor; [|exact W']. cbn [wsite].
      assert (Nk : nth_error (map fst (defs s')) k = Some f).
      { eapply grows_nth_fst; [eapply Vis_grows; exact HV|]. now apply K1. }
      split; [|exists f; auto].
      rewrite <- (map_length fst). apply nth_error_Some. congruence.
    + intros [C|C]; [discriminate|now apply N'].
  - (* inr *) intros stack f rest s s1 e s' xs Hm HI IH1 HV IH2 G.
    destruct (IH1 G) as [G1 [F1 _]].
    destruct (IH2 (Good_skip_push _ _ _ G1)) as [G' [F' [W' N']]].
    split; [exact G'|]. split; [eapply frame_trans; [exact F1|exact F']|].
    split; [constructor; [exact I|exact W']|].
    intros _. eapply grows_errors_nonempty; [eapply Vis_grows; exact HV|apply skip_push_nonempty].
Qed.

Lemma Vis_good stack rs s s' xs : Vis g stack rs s s' xs -> P_Vis stack rs s s' xs.
Proof. apply (proj2 Inl_Vis_good). Qed.

(** ** reading the invariant off an error-free final state *)

Lemma wsite_strong ms k rs xs :
  Forall2 (wsite ms k) rs xs -> ~ In None xs ->
  Forall2 (site_ok ms) rs xs /\ (forall j, In (Some j) xs -> (j < k)%nat).
Proof.
  induction 1 as [|r x rs xs H F IH]; intros NN.
  - split; [constructor|intros j []].
  - destruct IH as [A B]; [intros C; apply NN; now right|].
    destruct x as [j|]; [|exfalso; apply NN; now left].
    cbn [wsite] in H. destruct H as [L [f [-> N]]]. split.
    + constructor; [exact N|exact A].
    + intros j' [[= <-]|C]; [exact L|now apply B].
Qed.

(** the definitions, seen from an error-free state: [defs_ok] plus strictly decreasing indices *)
Definition ranked (ms : list (file * list site)) : Prop :=
  forall k f sites, nth_error ms k = Some (f, sites) -> forall j, In (Some j) sites -> (j < k)%nat.

Lemma Good_defs_ok s : Good s -> errors s = [] -> defs_ok g (defs s) /\ ranked (defs s).
Proof.
  intros G E. split.
  - intros f sites H. apply In_nth_error in H as [k H].
    destruct (G_entry s G k f sites H) as [A B].
    destruct (lookup g f) as [[reqs [[|[|n]]|]| |]|]; try exact B.
    apply (wsite_strong _ k); [exact B|]. intros C. now apply A.
  - intros k f sites H j Hj. destruct (G_entry s G k f sites H) as [A B].
    destruct (lookup g f) as [[reqs [[|[|n]]|]| |]|]; try contradiction.
    + eapply (wsite_strong _ k); [exact B| |exact Hj]. intros C. now apply A.
    + subst sites. destruct Hj.
Qed.

End Inv.
