(** C01, LIFTING - instantiations for the block- and statement-level rules that need no static
    evaluation: filter_after_early_return, remove_empty_do (every pass and the whole loop),
    remove_method_definition (all unconditional) and remove_unused_while restricted to the
    LITERAL conditions [false] / [nil] ([..._literal]; the general rule evaluates the condition
    statically, the node theorem [while_false_sound] needs [env_plain] and loses the condition's
    fresh allocations: PARTIAL). *)
From Coq Require Import ZArith NArith List Bool String Lia.
From DL Require Import Lib.Bytes Lib.F64 Lua.Syntax Lua.Sem Model.Evaluator Model.DefaultRules.
From DL Require Import Proof.LoweringFuel.
From DL Require Import Proof.SemFacts Proof.DefaultRulesSem Proof.RefactorSem Proof.RefactorSimA.
From DL Require Import Proof.DefaultRulesSoundBlock Proof.DefaultRulesSoundFuel.
From DL Require Import Proof.LiftingDefs Proof.LiftingSim Proof.LiftingVisit Proof.LiftingRulesExpr.
Import ListNotations.
Open Scope N_scope.

(** a block hook only: the other hooks of the record are identities *)
Lemma block_hook_ok (Rb : block -> block -> Prop) (h : block -> block) :
  (forall b, Rb b (h b)) ->
  hooks_ok Rnone Rnone Rnone Rnone Rb
    (mkHooks h (fun s => s) (fun e => e) (fun e => e) (fun e => e) (fun e => e) (fun t => t)).
Proof.
  intros Hh. constructor; cbn [h_expr h_prefix h_var h_call h_table h_stmt h_block].
  - intros e e' Hg. apply cr_e_same. destruct e; exact Hg.
  - intros e e' Hg. apply cr_e_same. destruct e; exact Hg.
  - apply id_ok_v.
  - apply id_ok_e.
  - apply id_ok_t.
  - apply id_ok_s.
  - intros b b' Hg. eapply cr_b_rw; [apply Hh|exact Hg].
Qed.

Section Block.
Variable d : dialect.

(** a rule given by a block rewrite [h] that is a refinement both when the block is run as a
    block and when it is the body of a [repeat] *)
Lemma lifting_block_hook (h : block -> block) :
  (forall b n rho va, refines (exec_block d n rho va b) (exec_block d n rho va (h b))) ->
  (forall b n rho va c, refines (exec_repeat d n rho va b c) (exec_repeat d n rho va (h b) c)) ->
  forall n orc b out, run_chunk d n orc b = out -> out <> OutFuel ->
  run_chunk d n orc
    (apply_hooks (mkHooks h (fun s => s) (fun e => e) (fun e => e) (fun e => e) (fun e => e) (fun t => t)) b) = out.
Proof.
  intros H1 H2 n orc b out.
  apply (lifting_apply_hooks Rnone Rnone Rnone Rnone (fun b b1 => b1 = h b) d); try (intros ? ? []; fail).
  - intros b0 b1 ->. intros; apply H1.
  - intros b0 b1 ->. intros; apply H2.
  - apply block_hook_ok. reflexivity.
Qed.

(** * Removing statements that do nothing *)
Section Filter.
Variable keep : stmt -> bool.
Hypothesis noop : forall st, keep st = false -> forall n rho va,
  refines (exec_stmt d n rho va st) (ret (rho, SigNone)).

Lemma filter_noop_stmts ss : forall n rho va last,
  refines (exec_stmts d n rho va ss last) (exec_stmts d n rho va (filter keep ss) last).
Proof.
  induction ss as [|st rest IHr]; intros n rho va last; [apply refines_refl|].
  destruct n as [|n]; [apply refines_fuel|]. cbn [filter]. destruct (keep st) eqn:Ek.
  - rewrite !exec_stmts_S_cons. apply refines_bind_l. intros [rho1 sg1]. cbn [stmts_cont].
    destruct sg1; try apply refines_refl. apply IHr.
  - rewrite exec_stmts_S_cons. eapply refines_bind_const; [apply noop; exact Ek|]. cbn [stmts_cont].
    eapply refines_trans; [apply IHr|]. apply exec_stmts_refines_le. lia.
Qed.

Lemma filter_noop_block ss last n rho va :
  refines (exec_block d n rho va (Block ss last)) (exec_block d n rho va (Block (filter keep ss) last)).
Proof. destruct n as [|n]; [apply refines_fuel|]. rewrite !exec_block_S. apply filter_noop_stmts. Qed.

Lemma filter_noop_repeat_go n va last ss : forall rho,
  refines (repeat_go d n va last ss rho) (repeat_go d n va last (filter keep ss) rho).
Proof.
  induction ss as [|st rest IHr]; intros rho; [apply refines_refl|].
  cbn [filter]. destruct (keep st) eqn:Ek.
  - rewrite !repeat_go_cons. apply refines_bind_l. intros [rho1 sg1].
    destruct sg1; try apply refines_refl. apply IHr.
  - rewrite repeat_go_cons. eapply refines_bind_const; [apply noop; exact Ek|]. apply IHr.
Qed.

Lemma filter_noop_repeat ss last c : forall n rho va,
  refines (exec_repeat d n rho va (Block ss last) c) (exec_repeat d n rho va (Block (filter keep ss) last) c).
Proof.
  induction n as [|n IHn]; intros rho va; [apply refines_fuel|]. rewrite !exec_repeat_S.
  apply refines_bind; [apply filter_noop_repeat_go|]. intros [rho1 sg1].
  destruct sg1; try apply refines_refl; apply refines_bind_l; intros cv; destruct (truthy cv);
    try apply refines_refl; apply IHn.
Qed.

End Filter.

(** * remove_empty_do *)

Lemma empty_do_noop st : negb (empty_do st) = false -> forall n rho va,
  refines (exec_stmt d n rho va st) (ret (rho, SigNone)).
Proof.
  intros He n rho va. apply negb_false_iff in He. apply empty_do_is in He. subst st.
  destruct n as [|[|[|n]]]; try (intros s Hf; exfalso; apply Hf; reflexivity).
  intros s _. symmetry. apply empty_do_stmt_run.
Qed.

Theorem lifting_remove_empty_do_pass : forall n orc b out,
  run_chunk d n orc b = out -> out <> OutFuel ->
  run_chunk d n orc (apply_hooks hooks_empty_do b) = out.
Proof.
  apply (lifting_block_hook rw_empty_do).
  - intros [ss last] n rho va. apply filter_noop_block. apply empty_do_noop.
  - intros [ss last] n rho va c. apply filter_noop_repeat. apply empty_do_noop.
Qed.

Lemma lifting_empty_do_loop : forall fuel n orc b out,
  run_chunk d n orc b = out -> out <> OutFuel ->
  run_chunk d n orc (empty_do_loop fuel b) = out.
Proof.
  induction fuel as [|fuel IHf]; intros n orc b out Hr Hf; cbn [empty_do_loop].
  - now apply lifting_remove_empty_do_pass.
  - destruct (empty_do_mutated b).
    + apply IHf; [|exact Hf]. now apply lifting_remove_empty_do_pass.
    + now apply lifting_remove_empty_do_pass.
Qed.

Theorem lifting_remove_empty_do : forall n orc b out,
  run_chunk d n orc b = out -> out <> OutFuel ->
  run_chunk d n orc (rule_remove_empty_do b) = out.
Proof. intros n orc b out. unfold rule_remove_empty_do. apply lifting_empty_do_loop. Qed.

(** * filter_after_early_return *)

Lemma early_return_repeat_go n va last pre : forall st rest rho s,
  stmt_returns st = true ->
  repeat_go d n va last (pre ++ st :: rest) rho s = repeat_go d n va None (pre ++ [st]) rho s.
Proof.
  induction pre as [|x pre IHp]; intros st rest rho s Hr; cbn [app]; rewrite !repeat_go_cons;
    apply bind_eq; intros [rho1 sg1] s1 H1.
  - destruct sg1; try reflexivity. exfalso. eapply (never_none_all d n); eauto.
  - destruct sg1; try reflexivity. now apply IHp.
Qed.

Lemma early_return_repeat b c : forall n rho va s,
  exec_repeat d n rho va (rw_early_return b) c s = exec_repeat d n rho va b c s.
Proof.
  destruct b as [ss last]. unfold rw_early_return.
  destruct (search_remove_after ss) as [i|] eqn:E; [|reflexivity].
  destruct (search_remove_after_spec _ _ E) as (pre & st & rest & -> & Hs & Hf). rewrite Hf.
  induction n as [|n IHn]; intros rho va s; [reflexivity|]. rewrite !exec_repeat_S.
  unfold bind. rewrite (early_return_repeat_go n va last pre st rest rho s Hs).
  destruct (repeat_go d n va None (pre ++ [st]) rho s) as [[rho1 sg1] s1|e s1| |w]; try reflexivity.
  destruct sg1; try reflexivity; destruct (eval1 d n rho1 va c s1) as [cv s2|e s2| |w]; try reflexivity;
    destruct (truthy cv); try reflexivity; apply IHn.
Qed.

Theorem lifting_filter_after_early_return : forall n orc b out,
  run_chunk d n orc b = out -> out <> OutFuel ->
  run_chunk d n orc (rule_filter_after_early_return b) = out.
Proof.
  apply (lifting_block_hook rw_early_return).
  - intros b n rho va. apply refines_eq. intros s. symmetry. apply early_return_sound.
  - intros b n rho va c. apply refines_eq. intros s. symmetry. apply early_return_repeat.
Qed.

(** * remove_unused_while, literal conditions *)

Definition while_kept_lit (st : stmt) : bool :=
  match st with
  | SWhile EFalse _ | SWhile ENil _ => false
  | _ => true
  end.
Definition rw_while_lit (b : block) : block :=
  match b with Block ss last => Block (filter while_kept_lit ss) last end.
Definition hooks_while_lit : hooks :=
  mkHooks rw_while_lit (fun s => s) (fun e => e) (fun e => e) (fun e => e) (fun e => e) (fun t => t).
(** the rule with the static evaluation of the condition answering only on [false] and [nil] *)
Definition rule_remove_unused_while_literal : block -> block := apply_hooks hooks_while_lit.

(** the rule does remove these loops *)
Lemma while_kept_lit_agrees st : while_kept_lit st = false -> while_kept st = false.
Proof. destruct st; try discriminate. destruct cond; try discriminate; reflexivity. Qed.

Lemma while_lit_noop st : while_kept_lit st = false -> forall n rho va,
  refines (exec_stmt d n rho va st) (ret (rho, SigNone)).
Proof.
  intros Hk n rho va. destruct st; try discriminate Hk.
  destruct cond; try discriminate Hk;
    (destruct n as [|[|[|[|n]]]]; try (intros s Hf; exfalso; apply Hf; reflexivity));
    intros s _; reflexivity.
Qed.

Theorem lifting_remove_unused_while_literal : forall n orc b out,
  run_chunk d n orc b = out -> out <> OutFuel ->
  run_chunk d n orc (rule_remove_unused_while_literal b) = out.
Proof.
  apply (lifting_block_hook rw_while_lit).
  - intros [ss last] n rho va. apply filter_noop_block. apply while_lit_noop.
  - intros [ss last] n rho va c. apply filter_noop_repeat. apply while_lit_noop.
Qed.

(** the rule itself, on programs in which it only ever removes [while false] / [while nil] *)
Theorem lifting_remove_unused_while_partial : forall n orc b out,
  rule_remove_unused_while b = rule_remove_unused_while_literal b ->
  run_chunk d n orc b = out -> out <> OutFuel ->
  run_chunk d n orc (rule_remove_unused_while b) = out.
Proof. intros n orc b out ->. apply lifting_remove_unused_while_literal. Qed.

(** * remove_method_definition: no base step at all - [function a:m(ps)] and
    [function a.m(self, ps)] are congruent ([cg_sfunction]) *)

Lemma hooks_method_def_ok : hooks_ok Rnone Rnone Rnone Rnone Rnone hooks_method_def.
Proof.
  constructor; cbn [hooks_method_def h_expr h_prefix h_var h_call h_table h_stmt h_block].
  - intros e e' Hg. apply cr_e_same. destruct e; exact Hg.
  - intros e e' Hg. apply cr_e_same. destruct e; exact Hg.
  - apply id_ok_v.
  - apply id_ok_e.
  - apply id_ok_t.
  - intros st st' Hg. apply cr_s_same.
    destruct st; try exact Hg. destruct method as [m|]; [|exact Hg].
    cbn [rw_method_def] in Hg. inversion Hg as [| | | |base' fs fs' m0 m' f0 f' Hp Hf| | | | | | | | |]; subst.
    constructor.
    + cbn [opt_list] in *. rewrite app_nil_r in Hp. exact Hp.
    + destruct f as [ps v vt rt g at_ body]. cbn [add_self is_some] in *.
      inversion Hf; subst. constructor; assumption.
  - apply id_ok_b.
Qed.

Theorem lifting_remove_method_definition : forall n orc b out,
  run_chunk d n orc b = out -> out <> OutFuel ->
  run_chunk d n orc (rule_remove_method_definition b) = out.
Proof.
  intros n orc b out. unfold rule_remove_method_definition.
  apply (lifting_apply_hooks Rnone Rnone Rnone Rnone Rnone d); try (intros ? ? []; fail).
  exact hooks_method_def_ok.
Qed.

End Block.
