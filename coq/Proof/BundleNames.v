(** Names of the module accessors (generate_module_name): every name handed out is a valid
    identifier that is not a keyword and not `cache`, and names are pairwise distinct - for
    every number of modules; the indexed function [module_name] used by the correspondence
    check is tied to the list [module_names] up to 1000 modules by computation (the wide
    projects of vlib/c05.py bundle up to 965 modules). *)
From Coq Require Import NArith List Bool Lia.
From DL Require Import Lib.Bytes Model.Rename Model.Bundle Proof.RenameStream Proof.BundleBasics Proof.BundleTheorems.
Import ListNotations.
Open Scope N_scope.

Theorem module_names_valid : forall n, Forall (fun x => valid_ident x = true) (module_names n).
Proof.
  intros n. apply Forall_forall. intros x H. unfold module_names in H.
  apply firstn_In in H. apply filter_In in H as [H _].
  exact (proj1 (Forall_forall _ _) (gen_stream_valid (S n)) x H).
Qed.

(** spelled out: identifier shape (a letter or `_`, then letters, digits, `_`), not one of the
    21 keywords, not `cache` *)
Theorem module_names_identifier : forall n x, In x (module_names n) ->
  ident_shape x = true /\ ~ In x keywords /\ x <> of_string "cache".
Proof.
  intros n x H.
  pose proof (proj1 (Forall_forall _ _) (module_names_valid n) x H) as V.
  split; [|split].
  - unfold valid_ident in V. apply andb_true_iff in V. tauto.
  - now apply valid_not_keyword.
  - intros E. subst x. exact (module_names_not_cache n H).
Qed.

(** pairwise distinct, by position *)
Theorem module_names_distinct : forall n i j,
  (i < List.length (module_names n))%nat -> (j < List.length (module_names n))%nat ->
  nth i (module_names n) [] = nth j (module_names n) [] -> i = j.
Proof.
  intros n i j Hi Hj E. exact (proj1 (NoDup_nth (module_names n) []) (module_names_nodup n) i j Hi Hj E).
Qed.

Definition names_bound : nat := 1000.

(** the generator does not run dry and [module_name k] is the k-th element of the list, up to
    [names_bound] modules (computed) *)
Lemma module_names_bound_computed :
  List.length (module_names names_bound) = names_bound /\
  map module_name (seq 0 names_bound) = module_names names_bound.
Proof. vm_compute. split; reflexivity. Qed.

Theorem module_name_valid_bounded : forall k, (k < names_bound)%nat ->
  ident_shape (module_name k) = true /\ ~ In (module_name k) keywords /\ module_name k <> of_string "cache".
Proof.
  intros k Hk. apply (module_names_identifier names_bound).
  destruct module_names_bound_computed as [_ E]. rewrite <- E.
  apply in_map. apply in_seq. lia.
Qed.

Theorem module_name_inj_bounded : forall i j, (i < names_bound)%nat -> (j < names_bound)%nat ->
  module_name i = module_name j -> i = j.
Proof.
  intros i j Hi Hj E.
  destruct module_names_bound_computed as [L M].
  assert (N : forall k, (k < names_bound)%nat -> nth k (module_names names_bound) [] = module_name k).
  { intros k Hk. rewrite <- M.
    rewrite (nth_indep _ [] (module_name 0)) by (rewrite map_length, seq_length; exact Hk).
    rewrite map_nth. rewrite seq_nth by exact Hk. reflexivity. }
  apply (module_names_distinct names_bound); rewrite ?L; try assumption.
  rewrite (N i Hi), (N j Hj). exact E.
Qed.

(** non-vacuity: the 54th name is the first two-letter one ("aa": `0`..`9` are skipped), and the
    names around the keywords `do`, `if`, `in`, `or` *)
Example module_name_53 : to_string (module_name 53) = "aa"%string.
Proof. vm_compute. reflexivity. Qed.
Example module_name_skips_do : map (fun k => to_string (module_name k)) [255; 256]%nat = ["dn"; "dp"]%string.
Proof. vm_compute. reflexivity. Qed.
Example module_name_skips_or : map (fun k => to_string (module_name k)) [948; 949]%nat = ["oq"; "os"]%string.
Proof. vm_compute. reflexivity. Qed.
