(** Fuel monotonicity in the argument order convenient for [rewrite ... by lia]. *)
From Coq Require Import ZArith NArith List Bool String Lia.
From DL Require Import Lib.Bytes Lib.F64 Lua.Syntax Lua.Sem Proof.LoweringFuel.

Lemma eval_up d n rho va e s vs s' m :
  eval d n rho va e s = Ok vs s' -> (n <= m)%nat -> eval d m rho va e s = Ok vs s'.
Proof. intros H L. eapply eval_mono; eauto. Qed.
Lemma eval1_up d n rho va e s v s' m :
  eval1 d n rho va e s = Ok v s' -> (n <= m)%nat -> eval1 d m rho va e s = Ok v s'.
Proof. intros H L. eapply eval1_mono; eauto. Qed.
Lemma arith_up d n o a b s r s' m :
  arith d n o a b s = Ok r s' -> (n <= m)%nat -> arith d m o a b s = Ok r s'.
Proof. intros H L. eapply arith_mono; eauto. Qed.
Lemma concat_up d n a b s r s' m :
  concat d n a b s = Ok r s' -> (n <= m)%nat -> concat d m a b s = Ok r s'.
Proof. intros H L. eapply concat_mono; eauto. Qed.
