(** C16: closure-representation independence of the reference interpreter - DEFINITIONS and
    the statement proved in Proof/RefactorSim.v.

    Several refactorings change nothing but the RECORD the interpreter keeps for a function:
    - convert_local_function_to_assign: the captured environment no longer holds the function's
      own name (which the body never looks up);
    - group_local_assignment: a function literal in the second initialiser is created before
      the first declaration's variables are bound (which it never looks up);
    - convert_function_to_assignment: [function a:m(ps)] keeps [c_self = true] and parameters
      [ps], the assignment creates [function(self, ps)] with [c_self = false]; type annotations,
      generics and attributes are dropped.
    Function values are addresses into [closures s]; two stores that agree everywhere except on
    such details of closure records run every program alike.  This file says what "such details"
    are ([clos_rel]) and what "alike" means ([res_rel]). *)
From Coq Require Import ZArith NArith List Bool String.
From DL Require Import Lib.Bytes Lib.F64 Lua.Syntax Lua.Sem Model.Refactor.
From DL Require Import Proof.DefaultRulesSem.
Import ListNotations.
Open Scope N_scope.

(** two environments give every name of the set [P] the same cell *)
Definition env_agree (P : name -> bool) (rho1 rho2 : env) : Prop :=
  forall x, P x = true -> lookup rho1 x = lookup rho2 x.

(** the names a piece of syntax can look up: [ment_* [x]] of Model/Refactor.v (every identifier
    in expression / prefix / variable position and the base name of function statements) *)
Definition covers_expr (P : name -> bool) (e : expr) : Prop := forall x, ment_expr [x] e = true -> P x = true.
Definition covers_block (P : name -> bool) (b : block) : Prop := forall x, ment_block [x] b = true -> P x = true.
Definition covers_stmt (P : name -> bool) (st : stmt) : Prop := forall x, ment_stmt [x] st = true -> P x = true.

Definition param_names (ps : list param) : list name := map param_name ps.

(** what [call] reads of a closure record (Proof/DefaultRulesSem.v [call_S_closure]): the
    effective parameter NAMES, the variadic flag, the body, and the captured environment on the
    names the body mentions that are not parameters *)
Definition clos_rel (c1 c2 : closure) : Prop :=
  param_names (effective_params c1) = param_names (effective_params c2) /\
  closure_variadic c1 = closure_variadic c2 /\
  closure_block c1 = closure_block c2 /\
  forall x, ment_block [x] (closure_block c1) = true ->
            In x (param_names (effective_params c1)) \/ lookup (c_env c1) x = lookup (c_env c2) x.

Definition store_rel (s1 s2 : store) : Prop :=
  cells s1 = cells s2 /\ tables s1 = tables s2 /\ trace s1 = trace s2 /\
  oracle s1 = oracle s2 /\ fresh s1 = fresh s2 /\
  Forall2 clos_rel (closures s1) (closures s2).

Definition res_rel {A} (R : A -> A -> Prop) (r1 r2 : res A) : Prop :=
  match r1, r2 with
  | Ok a1 s1, Ok a2 s2 => R a1 a2 /\ store_rel s1 s2
  | Err e1 s1, Err e2 s2 => e1 = e2 /\ store_rel s1 s2
  | Fuel, Fuel => True
  | Unsup w1, Unsup w2 => w1 = w2
  | _, _ => False
  end.

Definition stmt_res_rel (P : name -> bool) (a b : env * signal) : Prop :=
  env_agree P (fst a) (fst b) /\ snd a = snd b.
