(** Symbolic-execution infrastructure for the bundler's module accessor
    ([Model/BundleWrapper.v]): statement-level one-step unfolding equations of the reference
    interpreter ([Lua/Sem.v]), store update helpers with their lookup facts, and the
    behaviour of the raw table accesses the accessor performs.  Theorems: BundleWrapperFacts.v *)
From Coq Require Import ZArith NArith List Bool String Lia.
From DL Require Import Lib.Bytes Lib.F64 Lua.Syntax Lua.Sem Proof.SemFacts Model.BundleWrapper.
Import ListNotations.
Open Scope N_scope.
Local Notation llen := List.length.

Arguments call : simpl never.
Arguments index : simpl never.
Arguments setindex : simpl never.
Arguments tostr : simpl never.
Arguments arith : simpl never.
Arguments concat : simpl never.
Arguments equal : simpl never.
Arguments less : simpl never.
Arguments Sem.length : simpl never.
Arguments call_builtin : simpl never.
Arguments eval : simpl never.
Arguments eval1 : simpl never.
Arguments eval_list : simpl never.
Arguments eval_args : simpl never.
Arguments fill_table : simpl never.
Arguments exec_block : simpl never.
Arguments exec_stmts : simpl never.
Arguments assign_target : simpl never.
Arguments eval_target : simpl never.
Arguments exec_stmt : simpl never.

(** * Monad *)

Lemma bind_intro {A B} (m : M A) (f : A -> M B) s a s1 r :
  m s = Ok a s1 -> f a s1 = r -> bind m f s = r.
Proof. intros H1 H2. unfold bind. rewrite H1. exact H2. Qed.

(** * Store updates (the results of [new_cell], [new_table], [set_cell], [set_table]) *)

Definition add_cell (s : store) (v : value) : store :=
  mkStore (cells s ++ [v]) (tables s) (closures s) (trace s) (oracle s) (fresh s).
Definition add_table (s : store) (t : table) : store :=
  mkStore (cells s) (tables s ++ [t]) (closures s) (trace s) (oracle s) (fresh s).
Definition upd_cell (s : store) (a : N) (v : value) : store :=
  mkStore (set_nth (cells s) (N.to_nat a) v) (tables s) (closures s) (trace s) (oracle s) (fresh s).
Definition upd_table (s : store) (a : N) (t : table) : store :=
  mkStore (cells s) (set_nth (tables s) (N.to_nat a) t) (closures s) (trace s) (oracle s) (fresh s).

Lemma new_cell_eq v s : new_cell v s = Ok (N.of_nat (llen (cells s))) (add_cell s v).
Proof. reflexivity. Qed.
Lemma new_table_eq t s : new_table t s = Ok (N.of_nat (llen (tables s))) (add_table s t).
Proof. reflexivity. Qed.
Lemma set_cell_eq a v s : set_cell a v s = Ok tt (upd_cell s a v).
Proof. reflexivity. Qed.
Lemma set_table_eq a t s : set_table a t s = Ok tt (upd_table s a t).
Proof. reflexivity. Qed.

Lemma nth_N_lt {A} (l : list A) i x : nth_N l i = Some x -> (i < llen l)%nat.
Proof.
  revert i; induction l as [|y l IH]; intros [|i] H; cbn in *; try discriminate; try lia.
  apply IH in H. lia.
Qed.

Lemma nth_N_app_l {A} (l r : list A) i x : nth_N l i = Some x -> nth_N (l ++ r) i = Some x.
Proof.
  revert i; induction l as [|y l IH]; intros [|i] H; cbn in *; try discriminate; auto.
Qed.

Lemma nth_N_app_len {A} (l : list A) x : nth_N (l ++ [x]) (llen l) = Some x.
Proof. induction l as [|y l IH]; cbn; auto. Qed.

Lemma nth_N_set_same {A} (l : list A) i v : (i < llen l)%nat -> nth_N (set_nth l i v) i = Some v.
Proof.
  revert i; induction l as [|y l IH]; intros [|i] H; cbn in *; try lia; auto.
  apply IH. lia.
Qed.

Lemma nth_N_set_other {A} (l : list A) i j v : i <> j -> nth_N (set_nth l i v) j = nth_N l j.
Proof.
  revert i j; induction l as [|y l IH]; intros [|i] [|j] H; cbn; try reflexivity; try congruence.
  apply IH. congruence.
Qed.

Lemma set_nth_length {A} (l : list A) i v : llen (set_nth l i v) = llen l.
Proof. revert i; induction l as [|y l IH]; intros [|i]; cbn; auto. Qed.

(** * Raw table operations on string keys *)

Lemma bytes_eqb_refl a : bytes_eqb a a = true.
Proof. apply bytes_eqb_eq. reflexivity. Qed.

Lemma bytes_eqb_neq a b : a <> b -> bytes_eqb a b = false.
Proof.
  intros H. destruct (bytes_eqb a b) eqn:E; [|reflexivity].
  apply bytes_eqb_eq in E. contradiction.
Qed.

Lemma raw_get_box v k : raw_get (raw_set [] (VStr k) v) (VStr k) = v.
Proof.
  destruct v; cbn [raw_set raw_get raw_equal]; rewrite ?bytes_eqb_refl; reflexivity.
Qed.

Lemma raw_get_set_same es k v : raw_get (raw_set es (VStr k) v) (VStr k) = v.
Proof.
  induction es as [|[k' v'] es IH].
  - apply raw_get_box.
  - cbn [raw_set]. destruct (raw_equal k' (VStr k)) eqn:E; cbn [raw_get]; rewrite E; auto.
Qed.

(** * Statement-level unfolding equations (all by computation) *)

Section Unfold.
Variable d : dialect.

Lemma exec_block_S n rho va ss last :
  exec_block d (S n) rho va (Block ss last) = exec_stmts d n rho va ss last.
Proof. reflexivity. Qed.

Lemma exec_stmts_S_cons n rho va st rest last :
  exec_stmts d (S n) rho va (st :: rest) last =
  ('(rho', sg) <- exec_stmt d n rho va st ;;
   match sg with
   | SigNone => exec_stmts d n rho' va rest last
   | _ => ret sg
   end).
Proof. reflexivity. Qed.

Lemma exec_stmts_S_none n rho va : exec_stmts d (S n) rho va [] None = ret SigNone.
Proof. reflexivity. Qed.

Lemma exec_stmts_S_return n rho va es :
  exec_stmts d (S n) rho va [] (Some (LReturn es)) =
  (vs <- eval_list d n rho va es ;; ret (SigReturn vs)).
Proof. reflexivity. Qed.

Lemma exec_stmt_S_local1 n rho va c x ty e :
  exec_stmt d (S n) rho va (SLocal c [Param x ty] [e]) =
  (vs <- eval_list d n rho va [e] ;;
   rho' <- (a <- new_cell (arg vs 0) ;; ret ((x, a) :: rho)) ;;
   ret (rho', SigNone)).
Proof. reflexivity. Qed.

Lemma exec_stmt_S_if1 n rho va c b :
  exec_stmt d (S n) rho va (SIf [SBranch c b] None) =
  (sg <- (cv <- eval1 d n rho va c ;;
          if truthy cv then exec_block d n rho va b else ret SigNone) ;;
   ret (rho, sg)).
Proof. reflexivity. Qed.

Lemma exec_stmt_S_assign1 n rho va tgt e :
  exec_stmt d (S n) rho va (SAssign [tgt] [e]) =
  (tgts <- (t <- eval_target d n rho va tgt ;; ts <- ret [] ;; ret (t :: ts)) ;;
   vs <- eval_list d n rho va [e] ;;
   _ <- (fix go (ts : list (option N * value * value)) (vs : list value) : M unit :=
           match ts with
           | [] => ret tt
           | t :: rest => _ <- assign_target d n rho t (arg vs 0) ;; go rest (tl vs)
           end) tgts vs ;;
   ret (rho, SigNone)).
Proof. reflexivity. Qed.

Lemma eval_list_S_nil n rho va : eval_list d (S n) rho va [] = ret [].
Proof. reflexivity. Qed.
Lemma eval_list_S_one n rho va e : eval_list d (S n) rho va [e] = eval d n rho va e.
Proof. reflexivity. Qed.
Lemma eval_args_S_tuple n rho va es : eval_args d (S n) rho va (ATuple es) = eval_list d n rho va es.
Proof. reflexivity. Qed.

Lemma eval_S_call n rho va p a :
  eval d (S n) rho va (ECall p None a) =
  (o <- eval1 d n rho va p ;; args <- eval_args d n rho va a ;; call d n o args).
Proof. reflexivity. Qed.

Lemma eval_target_S_ident n rho va x :
  eval_target d (S n) rho va (EIdent x) =
  match lookup rho x with
  | Some a => ret (Some a, VNil, VNil)
  | None => ret (None, VTable A_globals, VStr x)
  end.
Proof. reflexivity. Qed.

Lemma eval_target_S_field n rho va p f :
  eval_target d (S n) rho va (EField p f) = (o <- eval1 d n rho va p ;; ret (None, o, VStr f)).
Proof. reflexivity. Qed.

Lemma assign_target_S_cell n rho a o k v :
  assign_target d (S n) rho (Some a, o, k) v = set_cell a v.
Proof. reflexivity. Qed.

Lemma assign_target_S_index n rho o k v :
  assign_target d (S n) rho (None, o, k) v = setindex d n o k v.
Proof. reflexivity. Qed.

Lemma setindex_S_table n a k v :
  setindex d (S n) (VTable a) k v =
  (t <- get_table a ;;
   let existing := raw_get (t_entries t) (match norm_key k with Some k' => k' | None => k end) in
   h <- (match existing with VNil => metamethod (VTable a) "__newindex" | _ => ret VNil end) ;;
   match h with
   | VNil =>
     match norm_key k with
     | None => fail 12
     | Some k' => set_table a (mkTable (raw_set (t_entries t) k' v) (t_meta t))
     end
   | VTable _ => setindex d n h k v
   | _ => _ <- call d n h [VTable a; k; v] ;; ret tt
   end).
Proof. reflexivity. Qed.

Lemma call_S_closure n a args :
  call d (S n) (VClosure a) args =
  (c <- get_closure a ;;
   match c_body c with
   | FBody ps variadic _ _ _ _ body =>
     let ps := if c_self c then Param (of_string "self") None :: ps else ps in
     rho <- bind_params ps args ;;
     let va := if variadic then skipn (llen ps) args else [] in
     sg <- exec_block d n (rev rho ++ c_env c) va body ;;
     match sg with
     | SigReturn vs => ret vs
     | _ => ret []
     end
   end).
Proof. reflexivity. Qed.

(** * Small-step facts in "[m s = Ok a s']" form *)

Lemma eval_ident_cell n rho va x a v s :
  lookup rho x = Some a -> nth_N (cells s) (N.to_nat a) = Some v ->
  eval d (S n) rho va (EIdent x) s = Ok [v] s.
Proof.
  intros Hl Hc. rewrite eval_S_ident, Hl. unfold bind, get_cell. rewrite Hc. reflexivity.
Qed.

Lemma eval1_of_eval n rho va e vs s s' :
  eval d n rho va e s = Ok vs s' -> eval1 d (S n) rho va e s = Ok (first vs) s'.
Proof. intros H. rewrite eval1_S. unfold bind. rewrite H. reflexivity. Qed.

Lemma eval1_ident_cell n rho va x a v s :
  lookup rho x = Some a -> nth_N (cells s) (N.to_nat a) = Some v ->
  eval1 d (S (S n)) rho va (EIdent x) s = Ok v s.
Proof.
  intros Hl Hc. exact (eval1_of_eval _ _ _ _ _ _ _ (eval_ident_cell n rho va x a v s Hl Hc)).
Qed.

(** reading a string key: no metamethod is consulted when the entry is there, or when the
    table has no metatable *)
Lemma index_table_get n a k t v s :
  nth_N (tables s) (N.to_nat a) = Some t ->
  raw_get (t_entries t) (VStr k) = v ->
  (v <> VNil \/ t_meta t = None) ->
  index d (S n) (VTable a) (VStr k) s = Ok v s.
Proof.
  intros Ht Hv Hm. rewrite index_S_table. unfold bind at 1. unfold get_table at 1. rewrite Ht.
  cbn [norm_key]. rewrite Hv. destruct v; try reflexivity.
  destruct Hm as [Hm|Hm]; [congruence|].
  unfold metamethod, metatable_of, bind, get_table, ret. rewrite Ht, Hm. reflexivity.
Qed.

(** writing a string key of a table without metatable is a raw set *)
Lemma setindex_table_raw n a k t v s :
  nth_N (tables s) (N.to_nat a) = Some t -> t_meta t = None ->
  setindex d (S n) (VTable a) (VStr k) v s =
  Ok tt (upd_table s a (mkTable (raw_set (t_entries t) (VStr k) v) None)).
Proof.
  intros Ht Hm. rewrite setindex_S_table. unfold bind at 1. unfold get_table at 1. rewrite Ht.
  cbn [norm_key]. cbv zeta.
  assert (Hh : (match raw_get (t_entries t) (VStr k) with
                | VNil => metamethod (VTable a) "__newindex"
                | _ => ret VNil
                end) s = Ok VNil s).
  { destruct (raw_get (t_entries t) (VStr k)); try reflexivity.
    unfold metamethod, metatable_of, bind, get_table, ret. rewrite Ht, Hm. reflexivity. }
  eapply bind_intro; [exact Hh|]. cbv beta iota. rewrite Hm. reflexivity.
Qed.

End Unfold.
