(** C06, local equivalences that need no fuel monotonicity: Luau number literals, [const],
    type annotations on locals, casts and type instantiations.  Each statement is against the
    reference interpreter Lua/Sem.v, for every dialect, fuel, environment, varargs and store. *)
From Coq Require Import ZArith NArith List Bool String Lia.
From DL Require Import Lib.Bytes Lib.F64 Lua.Syntax Lua.Sem Model.Evaluator Lua.EvalSpec Lua.EvalSpec2
  Proof.SemFacts Proof.EvaluatorSound Model.Visit Model.Lowering.
Import ListNotations.
Open Scope N_scope.
Local Notation llen := List.length.

Lemma bind_ext {A B} (m : M A) (f g : A -> M B) s :
  (forall a s1, f a s1 = g a s1) -> bind m f s = bind m g s.
Proof. intros E. unfold bind. destruct (m s); auto. Qed.

(** forward reasoning through a [bind] *)
Lemma bind_eq {A B} (m : M A) (f : A -> M B) s a s1 : m s = Ok a s1 -> bind m f s = f a s1.
Proof. unfold bind. intros ->. reflexivity. Qed.

(** [eval] of an and/or node returns exactly the one value [eval1] extracts *)
Lemma eval1_and_S d n rho va l r s :
  eval1 d (S (S n)) rho va (EBinary BAnd l r) s =
  (a <- eval1 d n rho va l ;; if truthy a then eval1 d n rho va r else ret a) s.
Proof.
  rewrite eval1_S, eval_S_and. unfold bind. destruct (eval1 d n rho va l s) as [a s1| | |]; try reflexivity.
  destruct (truthy a); [|reflexivity]. destruct (eval1 d n rho va r s1); reflexivity.
Qed.

Lemma eval1_or_S d n rho va l r s :
  eval1 d (S (S n)) rho va (EBinary BOr l r) s =
  (a <- eval1 d n rho va l ;; if truthy a then ret a else eval1 d n rho va r) s.
Proof.
  rewrite eval1_S, eval_S_or. unfold bind. destruct (eval1 d n rho va l s) as [a s1| | |]; try reflexivity.
  destruct (truthy a); [reflexivity|]. destruct (eval1 d n rho va r s1); reflexivity.
Qed.

Lemma eval_or_of_eval1 d n rho va l r s v s' :
  eval1 d (S n) rho va (EBinary BOr l r) s = Ok v s' -> eval d n rho va (EBinary BOr l r) s = Ok [v] s'.
Proof.
  rewrite eval1_S. intros H. inv_ok H. subst.
  match goal with E : eval _ _ _ _ _ _ = Ok ?a _ |- _ =>
    assert (llen a = 1%nat) as L by (eapply single_sound; [|exact E]; reflexivity);
    destruct a as [|x [|? ?]]; try discriminate L; exact E end.
Qed.

(** * convert_luau_number: the value of the literal is unchanged (bit-exact) *)
Theorem luau_number_sound : forall n, number_value (rw_luau_number n) = number_value n.
Proof. destruct n; reflexivity. Qed.

(** ... also as darklua's own evaluator computes it *)
Theorem luau_number_compute_sound : forall n, compute_value (rw_luau_number n) = compute_value n.
Proof. destruct n; reflexivity. Qed.

Theorem luau_number_eval_sound : forall d n rho va x s,
  eval d n rho va (rw_luau_number_expr (ENumber x)) s = eval d n rho va (ENumber x) s.
Proof.
  intros d n rho va x s. cbn [rw_luau_number_expr]. destruct n; [reflexivity|].
  rewrite !eval_S_number, luau_number_sound. reflexivity.
Qed.

Example luau_number_example :
  rw_luau_number (NBin 5 true) = NHex 5 false None /\ rw_luau_number (NBin 5 true) <> NBin 5 true /\
  number_value (NBin 5 true) = of_N 5.
Proof. repeat split. discriminate. Qed.

(** * make_assignment_local: [const] and [local] declarations execute identically *)
Theorem const_sound : forall d n rho va c vars vals s,
  exec_stmt d n rho va (rw_const (SLocal c vars vals)) s = exec_stmt d n rho va (SLocal c vars vals) s.
Proof. intros. destruct n; reflexivity. Qed.

Example const_example : rw_const (SLocal true [Param [120] None] [ENil]) = SLocal false [Param [120] None] [ENil].
Proof. reflexivity. Qed.

(** * remove_types *)

(** annotations on declared names are not looked at by the semantics *)
Definition local_go : list param -> list value -> env -> M env :=
  fix go (ps : list param) (vs : list value) (acc : env) : M env :=
    match ps with
    | [] => ret acc
    | p :: rest => a <- new_cell (arg vs 0) ;; go rest (tl vs) ((param_name p, a) :: acc)
    end.

Lemma exec_S_local d n rho va c vars vals :
  exec_stmt d (S n) rho va (SLocal c vars vals) =
  (vs <- eval_list d n rho va vals ;; rho' <- local_go vars vs rho ;; ret (rho', SigNone)).
Proof. reflexivity. Qed.

Lemma local_go_clear : forall vars vs acc s, local_go (map clear_param vars) vs acc s = local_go vars vs acc s.
Proof.
  induction vars as [|[x t] vars IH]; intros vs acc s; [reflexivity|].
  cbn [map clear_param local_go param_name]. apply bind_ext. intros a s1. apply IH.
Qed.

Theorem types_local_sound : forall d n rho va c vars vals s,
  exec_stmt d n rho va (rw_types_stmt (SLocal c vars vals)) s = exec_stmt d n rho va (SLocal c vars vals) s.
Proof.
  intros. cbn [rw_types_stmt]. destruct n; [reflexivity|]. rewrite !exec_S_local.
  apply bind_ext. intros vs s1. unfold bind. rewrite local_go_clear. reflexivity.
Qed.

Example types_local_example :
  rw_types_stmt (SLocal false [Param [120] (Some (TyNode 0 [] []))] [ENil]) = SLocal false [Param [120] None] [ENil].
Proof. reflexivity. Qed.

(** a type declaration does nothing *)
Theorem types_decl_sound : forall d n rho va ex x gen t s,
  exec_stmt d (S n) rho va (STypeDecl ex x gen t) s = Ok (rho, SigNone) s.
Proof. reflexivity. Qed.
Theorem types_function_sound : forall d n rho va ex x f s,
  exec_stmt d (S n) rho va (STypeFunction ex x f) s = Ok (rho, SigNone) s.
Proof. reflexivity. Qed.

(** a cast / an instantiation evaluates like the parenthesised expression: the first value *)
Lemma eval_cast_paren d n rho va e t s : eval d n rho va (ETypeCast e t) s = eval d n rho va (EParen e) s.
Proof. destruct n; reflexivity. Qed.
Lemma eval_inst_paren d n rho va p tys s : eval d n rho va (ETypeInst p tys) s = eval d n rho va (EParen p) s.
Proof. destruct n; reflexivity. Qed.

(** [eval (ETypeCast e t)] = the first value of [eval e] *)
Theorem types_cast_first : forall d n rho va e t s,
  eval d (S (S n)) rho va (ETypeCast e t) s = (vs <- eval d n rho va e ;; ret [first vs]) s.
Proof.
  intros. rewrite eval_S_typecast, eval1_S. unfold bind. destruct (eval d n rho va e s); reflexivity.
Qed.

(** one step of the rule: parentheses when the static check says the callee may return several
    values, the bare callee otherwise - which then yields exactly that one value
    ([single_sound]) with less fuel *)
Lemma paren_step d n rho va e s vs s' :
  eval d n rho va (EParen e) s = Ok vs s' ->
  exists n', (n' <= n)%nat /\
             eval d n' rho va (if can_return_multiple_values e then EParen e else e) s = Ok vs s'.
Proof.
  intros H. destruct (can_return_multiple_values e) eqn:C; [exists n; split; [lia|exact H]|].
  destruct n as [|n]; [discriminate H|]. rewrite eval_S_paren in H. inv_ok H. subst.
  destruct n as [|n]; [discriminate H0|]. rewrite eval1_S in H0. inv_ok H0. subst.
  pose proof (single_sound _ _ _ _ _ _ _ _ C H) as L.
  destruct a0 as [|v [|? ?]]; try discriminate L. exists n. split; [lia|exact H].
Qed.

Theorem types_cast_sound : forall d n rho va e t s vs s',
  eval d n rho va (ETypeCast e t) s = Ok vs s' ->
  exists n', eval d n' rho va (if can_return_multiple_values e then EParen e else e) s = Ok vs s'.
Proof.
  intros d n rho va e t s vs s' H. rewrite eval_cast_paren in H.
  destruct (paren_step _ _ _ _ _ _ _ _ H) as (n' & _ & H'). exists n'. exact H'.
Qed.

Theorem types_inst_sound : forall d n rho va p tys s vs s',
  eval d n rho va (ETypeInst p tys) s = Ok vs s' ->
  exists n', eval d n' rho va (if can_return_multiple_values p then EParen p else p) s = Ok vs s'.
Proof.
  intros d n rho va p tys s vs s' H. rewrite eval_inst_paren in H.
  destruct (paren_step _ _ _ _ _ _ _ _ H) as (n' & _ & H'). exists n'. exact H'.
Qed.

(** the whole loop of [process_expression]: nested casts / instantiations *)
Theorem strip_types_sound : forall e d n rho va s vs s',
  eval d n rho va e s = Ok vs s' ->
  exists n', (n' <= n)%nat /\ eval d n' rho va (strip_types e) s = Ok vs s'.
Proof.
  induction e; intros d fu rho va st vs st' H; try (exists fu; split; [lia|exact H]).
  - rewrite eval_cast_paren in H. destruct (paren_step _ _ _ _ _ _ _ _ H) as (n1 & L1 & H1).
    cbn [strip_types]. destruct (can_return_multiple_values e).
    + exists n1. split; assumption.
    + destruct (IHe _ _ _ _ _ _ _ H1) as (n2 & L2 & H2). exists n2. split; [lia|exact H2].
  - rewrite eval_inst_paren in H. destruct (paren_step _ _ _ _ _ _ _ _ H) as (n1 & L1 & H1).
    cbn [strip_types]. destruct (can_return_multiple_values e).
    + exists n1. split; assumption.
    + destruct (IHe _ _ _ _ _ _ _ H1) as (n2 & L2 & H2). exists n2. split; [lia|exact H2].
Qed.

(** in prefix position (the callee is then evaluated to one value by the enclosing node) *)
Theorem types_prefix_sound : forall p d n rho va s v s',
  eval1 d n rho va p s = Ok v s' ->
  exists n', (n' <= n)%nat /\ eval1 d n' rho va (rw_types_prefix p) s = Ok v s'.
Proof.
  induction p; intros d fu rho va st v st' H; try (exists fu; split; [lia|exact H]).
  cbn [rw_types_prefix].
  destruct fu as [|fu]; [discriminate H|]. rewrite eval1_S in H. inv_ok H. subst.
  destruct fu as [|fu]; [discriminate H0|]. rewrite eval_S_typeinst in H0. inv_ok H0. subst. cbn [first].
  destruct (IHp _ _ _ _ _ _ _ H) as (n2 & L2 & H2). exists n2. split; [lia|exact H2].
Qed.

(** the hypotheses are satisfiable: a cast of a call that returns two values *)
Example types_cast_example :
  let e := ECall (EIdent (of_string "ext_f")) None (ATuple []) in
  let s := initial_store [[ONum 0; ONum 1]] in
  exists vs s', eval Luau 10 [] [] (ETypeCast e (TyNode 0 [] [])) s = Ok vs s' /\ llen vs = 1%nat /\
                strip_types (ETypeCast e (TyNode 0 [] [])) = EParen e /\
                eval Luau 10 [] [] (strip_types (ETypeCast e (TyNode 0 [] []))) s = Ok vs s'.
Proof. vm_compute. eexists. eexists. repeat split. Qed.
