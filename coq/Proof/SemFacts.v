(** Infrastructure lemmas about the reference interpreter ([Lua/Sem.v]): inversion of the
    state monad, one-step unfolding equations of the mutual fixpoint (one per constructor),
    store-extension facts, and the behaviour of the primitive operations on values that
    carry no metatable ("plain" values). *)
From Coq Require Import ZArith NArith List Bool String Lia.
From Coq Require Import Floats.SpecFloat.
From DL Require Import Lib.Bytes Lib.F64 Lua.Syntax Lua.Sem Model.Evaluator Lua.EvalSpec.
Import ListNotations.
Open Scope N_scope.
Local Notation llen := List.length.

(** * Monad inversion *)

Lemma bind_ok {A B} (m : M A) (f : A -> M B) s b s' :
  bind m f s = Ok b s' -> exists a s1, m s = Ok a s1 /\ f a s1 = Ok b s'.
Proof. unfold bind. destruct (m s); try discriminate. eauto. Qed.

Lemma ret_ok {A} (a b : A) s s' : ret a s = Ok b s' -> b = a /\ s' = s.
Proof. unfold ret. intros H; inversion H; auto. Qed.

Lemma fail_ok {A} t s (b : A) s' : fail t s = Ok b s' -> False.
Proof. discriminate. Qed.

Lemma unsup_ok {A} t s (b : A) s' : unsup t s = Ok b s' -> False.
Proof. discriminate. Qed.

(** decompose hypotheses of the form [(x <- m ;; f) s = Ok b s'] *)
Ltac inv_ok H :=
  match type of H with
  | bind _ _ _ = Ok _ _ =>
    let a := fresh "a" in let s1 := fresh "s" in let H1 := fresh "H" in let H2 := fresh "H" in
    apply bind_ok in H; destruct H as (a & s1 & H1 & H2); cbv beta in H2; inv_ok H2
  | ret _ _ = Ok _ _ =>
    let E1 := fresh "E" in let E2 := fresh "E" in
    apply ret_ok in H; destruct H as [E1 E2]
  | fail _ _ = Ok _ _ => exfalso; exact (fail_ok _ _ _ _ H)
  | unsup _ _ = Ok _ _ => exfalso; exact (unsup_ok _ _ _ _ H)
  | _ => idtac
  end.

(** * Unfolding equations *)

Section Unfold.
Variable d : dialect.

Lemma eval_0 rho va e s : eval d 0 rho va e s = Fuel. Proof. reflexivity. Qed.
Lemma eval1_0 rho va e s : eval1 d 0 rho va e s = Fuel. Proof. reflexivity. Qed.

Lemma eval1_S n rho va e : eval1 d (S n) rho va e = (vs <- eval d n rho va e ;; ret (first vs)).
Proof. reflexivity. Qed.

Lemma eval_S_nil n rho va : eval d (S n) rho va ENil = ret [VNil]. Proof. reflexivity. Qed.
Lemma eval_S_true n rho va : eval d (S n) rho va ETrue = ret [VBool true]. Proof. reflexivity. Qed.
Lemma eval_S_false n rho va : eval d (S n) rho va EFalse = ret [VBool false]. Proof. reflexivity. Qed.
Lemma eval_S_number n rho va x : eval d (S n) rho va (ENumber x) = ret [VNum (number_value x)].
Proof. reflexivity. Qed.
Lemma eval_S_string n rho va x : eval d (S n) rho va (EString x) = ret [VStr x]. Proof. reflexivity. Qed.
Lemma eval_S_varargs n rho va : eval d (S n) rho va EVarArgs = ret va. Proof. reflexivity. Qed.
Lemma eval_S_ident n rho va x :
  eval d (S n) rho va (EIdent x) =
  match lookup rho x with
  | Some a => v <- get_cell a ;; ret [v]
  | None =>
    v <- index d n (VTable A_globals) (VStr x) ;;
    match v with
    | VNil => if is_ext_name x then ret [VExt x] else ret [VNil]
    | _ => ret [v]
    end
  end.
Proof. reflexivity. Qed.
Lemma eval_S_field n rho va p f :
  eval d (S n) rho va (EField p f) = (o <- eval1 d n rho va p ;; v <- index d n o (VStr f) ;; ret [v]).
Proof. reflexivity. Qed.
Lemma eval_S_index n rho va p k :
  eval d (S n) rho va (EIndex p k) =
  (o <- eval1 d n rho va p ;; kv <- eval1 d n rho va k ;; v <- index d n o kv ;; ret [v]).
Proof. reflexivity. Qed.
Lemma eval_S_function n rho va f :
  eval d (S n) rho va (EFunction f) = (a <- new_closure (mkClosure f rho false) ;; ret [VClosure a]).
Proof. reflexivity. Qed.

Definition if_go (n : nat) (rho : env) (va : list value) (els : expr) :=
  fix go (bs : list ebranch) : M (list value) :=
    match bs with
    | [] => v <- eval1 d n rho va els ;; ret [v]
    | EBranch c r :: rest =>
      cv <- eval1 d n rho va c ;;
      if truthy cv then v <- eval1 d n rho va r ;; ret [v] else go rest
    end.

Lemma eval_S_if n rho va bs els : eval d (S n) rho va (EIf bs els) = if_go n rho va els bs.
Proof. reflexivity. Qed.
Lemma if_go_nil n rho va els : if_go n rho va els [] = (v <- eval1 d n rho va els ;; ret [v]).
Proof. reflexivity. Qed.
Lemma if_go_cons n rho va els c r rest :
  if_go n rho va els (EBranch c r :: rest) =
  (cv <- eval1 d n rho va c ;;
   if truthy cv then v <- eval1 d n rho va r ;; ret [v] else if_go n rho va els rest).
Proof. reflexivity. Qed.

Lemma eval_S_paren n rho va e : eval d (S n) rho va (EParen e) = (v <- eval1 d n rho va e ;; ret [v]).
Proof. reflexivity. Qed.
Lemma eval_S_typecast n rho va e t : eval d (S n) rho va (ETypeCast e t) = (v <- eval1 d n rho va e ;; ret [v]).
Proof. reflexivity. Qed.
Lemma eval_S_typeinst n rho va e t : eval d (S n) rho va (ETypeInst e t) = (v <- eval1 d n rho va e ;; ret [v]).
Proof. reflexivity. Qed.
Lemma eval_S_table n rho va entries :
  eval d (S n) rho va (ETable entries) =
  (a <- new_table (mkTable [] None) ;; _ <- fill_table d n rho va a entries 1 ;; ret [VTable a]).
Proof. reflexivity. Qed.

Lemma eval_S_unary n rho va op e :
  eval d (S n) rho va (EUnary op e) =
  (v <- eval1 d n rho va e ;;
   match op with
   | UNot => ret [VBool (negb (truthy v))]
   | UMinus =>
     match tonum v with
     | Some x => ret [VNum (fneg x)]
     | None =>
       h <- metamethod v "__unm" ;;
       match h with
       | VNil => fail 18
       | _ => vs <- call d n h [v; v] ;; ret [first vs]
       end
     end
   | ULen => r <- length d n v ;; ret [r]
   end).
Proof. reflexivity. Qed.

Lemma eval_S_and n rho va l r :
  eval d (S n) rho va (EBinary BAnd l r) =
  (a <- eval1 d n rho va l ;; if truthy a then b <- eval1 d n rho va r ;; ret [b] else ret [a]).
Proof. reflexivity. Qed.
Lemma eval_S_or n rho va l r :
  eval d (S n) rho va (EBinary BOr l r) =
  (a <- eval1 d n rho va l ;; if truthy a then ret [a] else b <- eval1 d n rho va r ;; ret [b]).
Proof. reflexivity. Qed.

Definition is_andor (o : binop) : bool := match o with BAnd | BOr => true | _ => false end.

Definition binop_sem (n : nat) (op : binop) (a b : value) : M (list value) :=
  match op with
  | BEq => r <- equal d n a b ;; ret [VBool r]
  | BNeq => r <- equal d n a b ;; ret [VBool (negb r)]
  | BLt => r <- less d n true a b ;; ret [VBool r]
  | BLe => r <- less d n false a b ;; ret [VBool r]
  | BGt => r <- less d n true b a ;; ret [VBool r]
  | BGe => r <- less d n false b a ;; ret [VBool r]
  | BConcat => r <- concat d n a b ;; ret [r]
  | _ => r <- arith d n op a b ;; ret [r]
  end.

Lemma eval_S_binop n rho va op l r : is_andor op = false ->
  eval d (S n) rho va (EBinary op l r) =
  (a <- eval1 d n rho va l ;; b <- eval1 d n rho va r ;; binop_sem n op a b).
Proof. destruct op; intros H; try discriminate H; reflexivity. Qed.

Definition interp_go (n : nat) (rho : env) (va : list value) :=
  fix go (ss : list iseg) (acc : bytes) : M (list value) :=
    match ss with
    | [] => ret [VStr acc]
    | ISStr s :: rest => go rest (acc ++ s)
    | ISExpr e' :: rest =>
      v <- eval1 d n rho va e' ;;
      sv <- tostr d n v ;;
      match sv with
      | VStr s => go rest (acc ++ s)
      | _ => fail 19
      end
    end.

Lemma eval_S_interp n rho va segs : eval d (S n) rho va (EInterp segs) = interp_go n rho va segs [].
Proof. reflexivity. Qed.
Lemma interp_go_nil n rho va acc : interp_go n rho va [] acc = ret [VStr acc]. Proof. reflexivity. Qed.
Lemma interp_go_str n rho va s rest acc :
  interp_go n rho va (ISStr s :: rest) acc = interp_go n rho va rest (acc ++ s).
Proof. reflexivity. Qed.
Lemma interp_go_expr n rho va e rest acc :
  interp_go n rho va (ISExpr e :: rest) acc =
  (v <- eval1 d n rho va e ;; sv <- tostr d n v ;;
   match sv with VStr s => interp_go n rho va rest (acc ++ s) | _ => fail 19 end).
Proof. reflexivity. Qed.

(** table constructor *)
Definition put (a : N) (k v : value) : M unit :=
  t <- get_table a ;;
  match norm_key k with
  | None => fail 12
  | Some k' => set_table a (mkTable (raw_set (t_entries t) k' v) (t_meta t))
  end.

Definition put_pos (a : N) (pos : Z) (v : value) : M unit :=
  match v with VNil => ret tt | _ => put a (VNum (of_Z pos)) v end.

Definition fill_go (a : N) :=
  fix go (vs : list value) (pos : Z) : M unit :=
    match vs with
    | [] => ret tt
    | v :: vs' => _ <- put_pos a pos v ;; go vs' (pos + 1)%Z
    end.

Lemma fill_table_0 rho va a es pos s : fill_table d 0 rho va a es pos s = Fuel. Proof. reflexivity. Qed.
Lemma fill_S_nil n rho va a pos : fill_table d (S n) rho va a [] pos = ret tt. Proof. reflexivity. Qed.
Lemma fill_S_field n rho va a f e rest pos :
  fill_table d (S n) rho va a (TField f e :: rest) pos =
  (v <- eval1 d n rho va e ;; _ <- put a (VStr f) v ;; fill_table d n rho va a rest pos).
Proof. reflexivity. Qed.
Lemma fill_S_index n rho va a k e rest pos :
  fill_table d (S n) rho va a (TIndex k e :: rest) pos =
  (kv <- eval1 d n rho va k ;; v <- eval1 d n rho va e ;; _ <- put a kv v ;; fill_table d n rho va a rest pos).
Proof. reflexivity. Qed.
Lemma fill_S_last n rho va a e pos :
  fill_table d (S n) rho va a [TValue e] pos = (vs <- eval d n rho va e ;; fill_go a vs pos).
Proof. reflexivity. Qed.
Lemma fill_S_value n rho va a e x rest pos :
  fill_table d (S n) rho va a (TValue e :: x :: rest) pos =
  (v <- eval1 d n rho va e ;; _ <- put_pos a pos v ;; fill_table d n rho va a (x :: rest) (pos + 1)%Z).
Proof. reflexivity. Qed.

(** operations on values *)
Lemma tostr_S n v :
  tostr d (S n) v =
  (h <- metamethod v "__tostring" ;;
   match h with
   | VNil =>
     ret (VStr match v with
               | VNil => of_string "nil"
               | VBool true => of_string "true"
               | VBool false => of_string "false"
               | VNum x => tostring_num d x
               | VStr s => s
               | VTable _ => of_string "table"
               | _ => of_string "function"
               end)
   | _ => vs <- call d n h [v] ;; ret (first vs)
   end).
Proof. reflexivity. Qed.

Lemma arith_S n o a b :
  arith d (S n) o a b =
  match tonum a, tonum b with
  | Some x, Some y =>
    match arith_num d o x y with
    | Some r => ret (VNum r)
    | None => unsup 20
    end
  | _, _ =>
    match arith_name o with
    | None => unsup 21
    | Some ev =>
      h <- metamethod a ev ;;
      h <- (match h with VNil => metamethod b ev | _ => ret h end) ;;
      match h with
      | VNil => fail 14
      | _ => vs <- call d n h [a; b] ;; ret (first vs)
      end
    end
  end.
Proof. reflexivity. Qed.

Definition cstr (v : value) : option bytes :=
  match v with
  | VStr s => Some s
  | VNum x => Some (tostring_num d x)
  | _ => None
  end.

Lemma concat_S n a b :
  concat d (S n) a b =
  match cstr a, cstr b with
  | Some x, Some y => ret (VStr (x ++ y))
  | _, _ =>
    h <- metamethod a "__concat" ;;
    h <- (match h with VNil => metamethod b "__concat" | _ => ret h end) ;;
    match h with
    | VNil => fail 15
    | _ => vs <- call d n h [a; b] ;; ret (first vs)
    end
  end.
Proof. reflexivity. Qed.

Lemma equal_S n a b :
  equal d (S n) a b =
  if raw_equal a b then ret true
  else match a, b with
       | VTable _, VTable _ =>
         h1 <- metamethod a "__eq" ;;
         h2 <- metamethod b "__eq" ;;
         let h := match d with
                  | L51 => if raw_equal h1 h2 then h1 else VNil
                  | Luau => match h1 with VNil => h2 | _ => h1 end
                  end in
         match h with
         | VNil => ret false
         | _ => vs <- call d n h [a; b] ;; ret (truthy (first vs))
         end
       | _, _ => ret false
       end.
Proof. reflexivity. Qed.

Lemma less_S n strict a b :
  less d (S n) strict a b =
  match a, b with
  | VNum x, VNum y => ret (if strict then fltb x y else fleb x y)
  | VStr x, VStr y => ret (if strict then bytes_ltb x y else bytes_leb x y)
  | _, _ =>
    let ev := if strict then "__lt"%string else "__le"%string in
    h1 <- metamethod a ev ;;
    h2 <- metamethod b ev ;;
    match h1 with
    | VNil =>
      if strict then fail 16
      else r <- less d n true b a ;; ret (negb r)
    | _ =>
      if raw_equal h1 h2 then vs <- call d n h1 [a; b] ;; ret (truthy (first vs))
      else if strict then fail 16 else r <- less d n true b a ;; ret (negb r)
    end
  end.
Proof. reflexivity. Qed.

Lemma length_S n v :
  length d (S n) v =
  match v with
  | VStr s => ret (VNum (of_Z (Z.of_nat (List.length s))))
  | VTable a =>
    h <- (if is_luau d then metamethod v "__len" else ret VNil) ;;
    match h with
    | VNil => t <- get_table a ;; ret (VNum (of_Z (border (t_entries t))))
    | _ => vs <- call d n h [v] ;; ret (first vs)
    end
  | _ =>
    h <- metamethod v "__len" ;;
    match h with
    | VNil => fail 17
    | _ => vs <- call d n h [v] ;; ret (first vs)
    end
  end.
Proof. reflexivity. Qed.

Lemma index_S_table n a k :
  index d (S n) (VTable a) k =
  (t <- get_table a ;;
   match raw_get (t_entries t) (match norm_key k with Some k' => k' | None => k end) with
   | VNil =>
     h <- metamethod (VTable a) "__index" ;;
     match h with
     | VNil => ret VNil
     | VTable _ => index d n h k
     | _ => vs <- call d n h [VTable a; k] ;; ret (first vs)
     end
   | v => ret v
   end).
Proof. reflexivity. Qed.

End Unfold.

