(** C16, closure-representation independence - part C: the simulation, by induction on fuel. *)
From Coq Require Import ZArith NArith List Bool String Lia.
From DL Require Import Lib.Bytes Lib.F64 Lua.Syntax Lua.Sem Model.Refactor.
From DL Require Import Proof.SemFacts Proof.DefaultRulesSem Proof.RefactorSem Proof.RefactorSimDefs.
From DL Require Import Proof.RefactorSimA Proof.RefactorSimB.
Import ListNotations.
Open Scope N_scope.

Section Sim.
Variable d : dialect.

Record sim_all (n : nat) : Prop := {
  sa_call : forall f args, oblivious (call d n f args);
  sa_index : forall o k, oblivious (index d n o k);
  sa_setindex : forall o k v, oblivious (setindex d n o k v);
  sa_tostr : forall v, oblivious (tostr d n v);
  sa_arith : forall o a b, oblivious (arith d n o a b);
  sa_concat : forall a b, oblivious (concat d n a b);
  sa_equal : forall a b, oblivious (equal d n a b);
  sa_less : forall st a b, oblivious (less d n st a b);
  sa_length : forall v, oblivious (length d n v);
  sa_builtin : forall b args, oblivious (call_builtin d n b args);
  sa_eval : forall P rho1 rho2 va e, covers_expr P e -> env_agree P rho1 rho2 ->
            rel2 eq (eval d n rho1 va e) (eval d n rho2 va e);
  sa_eval1 : forall P rho1 rho2 va e, covers_expr P e -> env_agree P rho1 rho2 ->
             rel2 eq (eval1 d n rho1 va e) (eval1 d n rho2 va e);
  sa_eval_list : forall P rho1 rho2 va es, Forall (covers_expr P) es -> env_agree P rho1 rho2 ->
                 rel2 eq (eval_list d n rho1 va es) (eval_list d n rho2 va es);
  sa_eval_args : forall P rho1 rho2 va a, covers_args P a -> env_agree P rho1 rho2 ->
                 rel2 eq (eval_args d n rho1 va a) (eval_args d n rho2 va a);
  sa_fill : forall P rho1 rho2 va a es pos, Forall (covers_tentry P) es -> env_agree P rho1 rho2 ->
            rel2 eq (fill_table d n rho1 va a es pos) (fill_table d n rho2 va a es pos);
  sa_block : forall P rho1 rho2 va b, covers_block P b -> env_agree P rho1 rho2 ->
             rel2 eq (exec_block d n rho1 va b) (exec_block d n rho2 va b);
  sa_stmts : forall P rho1 rho2 va ss last, covers_block P (Block ss last) -> env_agree P rho1 rho2 ->
             rel2 eq (exec_stmts d n rho1 va ss last) (exec_stmts d n rho2 va ss last);
  sa_assign_target : forall rho1 rho2 t v, rel2 eq (assign_target d n rho1 t v) (assign_target d n rho2 t v);
  sa_eval_target : forall P rho1 rho2 va e, covers_expr P e -> env_agree P rho1 rho2 ->
                   rel2 eq (eval_target d n rho1 va e) (eval_target d n rho2 va e);
  sa_stmt : forall P rho1 rho2 va st, covers_stmt P st -> env_agree P rho1 rho2 ->
            rel2 (stmt_res_rel P) (exec_stmt d n rho1 va st) (exec_stmt d n rho2 va st);
  sa_while : forall P rho1 rho2 va c b, covers_expr P c -> covers_block P b -> env_agree P rho1 rho2 ->
             rel2 eq (exec_while d n rho1 va c b) (exec_while d n rho2 va c b);
  sa_repeat : forall P rho1 rho2 va b c, covers_block P b -> covers_expr P c -> env_agree P rho1 rho2 ->
              rel2 eq (exec_repeat d n rho1 va b c) (exec_repeat d n rho2 va b c);
  sa_numfor : forall P rho1 rho2 va x i stop step b, covers_block P b -> env_agree P rho1 rho2 ->
              rel2 eq (exec_numfor d n rho1 va x i stop step b) (exec_numfor d n rho2 va x i stop step b);
  sa_genfor : forall P rho1 rho2 va vars f s ctl b, covers_block P b -> env_agree P rho1 rho2 ->
              rel2 eq (exec_genfor d n rho1 va vars f s ctl b) (exec_genfor d n rho2 va vars f s ctl b)
}.

Lemma sim_all_0 : sim_all 0.
Proof. constructor; intros; intros s1 s2 Hs; exact I. Qed.

(** the induction hypothesis, as a leaf tactic for the value operations *)
Ltac ihv IH :=
  first [ apply obl_metamethod | apply obl_metatable_of | apply obl_call_ext
        | apply (sa_call _ IH) | apply (sa_index _ IH) | apply (sa_setindex _ IH)
        | apply (sa_tostr _ IH) | apply (sa_arith _ IH) | apply (sa_concat _ IH)
        | apply (sa_equal _ IH) | apply (sa_less _ IH) | apply (sa_length _ IH)
        | apply (sa_builtin _ IH) | apply (sa_assign_target _ IH) ].

Section Step.
Variable n : nat.
Hypothesis IH : sim_all n.

Lemma step_index o k : oblivious (index d (S n) o k).
Proof.
  destruct o; try (rewrite index_S_other by exact I); try rewrite index_S_table; obl_with ltac:(ihv IH).
Qed.

Lemma step_setindex o k v : oblivious (setindex d (S n) o k v).
Proof.
  destruct o; try (rewrite setindex_S_other by exact I); try rewrite setindex_S_table; obl_with ltac:(ihv IH).
Qed.

Lemma step_tostr v : oblivious (tostr d (S n) v).
Proof. rewrite tostr_S. obl_with ltac:(ihv IH). Qed.

Lemma step_arith o a b : oblivious (arith d (S n) o a b).
Proof. rewrite arith_S. obl_with ltac:(ihv IH). Qed.

Lemma step_concat a b : oblivious (concat d (S n) a b).
Proof. rewrite concat_S. obl_with ltac:(ihv IH). Qed.

Lemma step_equal a b : oblivious (equal d (S n) a b).
Proof. rewrite equal_S. obl_with ltac:(ihv IH). Qed.

Lemma step_less st a b : oblivious (less d (S n) st a b).
Proof. rewrite less_S. obl_with ltac:(ihv IH). Qed.

Lemma step_length v : oblivious (length d (S n) v).
Proof. rewrite length_S. obl_with ltac:(ihv IH). Qed.

End Step.
End Sim.
