(** C16, closure-representation independence - part C: the simulation, by induction on fuel. *)
From Coq Require Import ZArith NArith List Bool String Lia.
From DL Require Import Lib.Bytes Lib.F64 Lua.Syntax Lua.Sem Model.Refactor.
From DL Require Import Proof.SemFacts Proof.DefaultRulesSem Proof.RefactorSem Proof.RefactorSimDefs.
From DL Require Import Proof.RefactorSimA Proof.RefactorSimB.
Import ListNotations.
Open Scope N_scope.

Section Sim.
Variable d : dialect.

Record sim_all (n : nat) : Prop := {
  sa_call : forall f args, oblivious (call d n f args);
  sa_index : forall o k, oblivious (index d n o k);
  sa_setindex : forall o k v, oblivious (setindex d n o k v);
  sa_tostr : forall v, oblivious (tostr d n v);
  sa_arith : forall o a b, oblivious (arith d n o a b);
  sa_concat : forall a b, oblivious (concat d n a b);
  sa_equal : forall a b, oblivious (equal d n a b);
  sa_less : forall st a b, oblivious (less d n st a b);
  sa_length : forall v, oblivious (length d n v);
  sa_builtin : forall b args, oblivious (call_builtin d n b args);
  sa_eval : forall P rho1 rho2 va e, covers_expr P e -> env_agree P rho1 rho2 ->
            rel2 eq (eval d n rho1 va e) (eval d n rho2 va e);
  sa_eval1 : forall P rho1 rho2 va e, covers_expr P e -> env_agree P rho1 rho2 ->
             rel2 eq (eval1 d n rho1 va e) (eval1 d n rho2 va e);
  sa_eval_list : forall P rho1 rho2 va es, Forall (covers_expr P) es -> env_agree P rho1 rho2 ->
                 rel2 eq (eval_list d n rho1 va es) (eval_list d n rho2 va es);
  sa_eval_args : forall P rho1 rho2 va a, covers_args P a -> env_agree P rho1 rho2 ->
                 rel2 eq (eval_args d n rho1 va a) (eval_args d n rho2 va a);
  sa_fill : forall P rho1 rho2 va a es pos, Forall (covers_tentry P) es -> env_agree P rho1 rho2 ->
            rel2 eq (fill_table d n rho1 va a es pos) (fill_table d n rho2 va a es pos);
  sa_block : forall P rho1 rho2 va b, covers_block P b -> env_agree P rho1 rho2 ->
             rel2 eq (exec_block d n rho1 va b) (exec_block d n rho2 va b);
  sa_stmts : forall P rho1 rho2 va ss last, covers_block P (Block ss last) -> env_agree P rho1 rho2 ->
             rel2 eq (exec_stmts d n rho1 va ss last) (exec_stmts d n rho2 va ss last);
  sa_assign_target : forall rho1 rho2 t v, rel2 eq (assign_target d n rho1 t v) (assign_target d n rho2 t v);
  sa_eval_target : forall P rho1 rho2 va e, covers_expr P e -> env_agree P rho1 rho2 ->
                   rel2 eq (eval_target d n rho1 va e) (eval_target d n rho2 va e);
  sa_stmt : forall P rho1 rho2 va st, covers_stmt P st -> env_agree P rho1 rho2 ->
            rel2 (stmt_res_rel P) (exec_stmt d n rho1 va st) (exec_stmt d n rho2 va st);
  sa_while : forall P rho1 rho2 va c b, covers_expr P c -> covers_block P b -> env_agree P rho1 rho2 ->
             rel2 eq (exec_while d n rho1 va c b) (exec_while d n rho2 va c b);
  sa_repeat : forall P rho1 rho2 va b c, covers_block P b -> covers_expr P c -> env_agree P rho1 rho2 ->
              rel2 eq (exec_repeat d n rho1 va b c) (exec_repeat d n rho2 va b c);
  sa_numfor : forall P rho1 rho2 va x i stop step b, covers_block P b -> env_agree P rho1 rho2 ->
              rel2 eq (exec_numfor d n rho1 va x i stop step b) (exec_numfor d n rho2 va x i stop step b);
  sa_genfor : forall P rho1 rho2 va vars f s ctl b, covers_block P b -> env_agree P rho1 rho2 ->
              rel2 eq (exec_genfor d n rho1 va vars f s ctl b) (exec_genfor d n rho2 va vars f s ctl b)
}.

Lemma sim_all_0 : sim_all 0.
Proof. constructor; intros; intros s1 s2 Hs; exact I. Qed.

(** the induction hypothesis, as a leaf tactic for the value operations *)
Ltac ihv IH := idtac;
  lazymatch goal with
  | |- rel2 _ (metamethod _ _) (metamethod _ _) => apply obl_metamethod
  | |- rel2 _ (metatable_of _) (metatable_of _) => apply obl_metatable_of
  | |- rel2 _ (call_ext _ _) (call_ext _ _) => apply obl_call_ext
  | |- rel2 _ (call _ _ _ _) (call _ _ _ _) => apply (sa_call _ IH)
  | |- rel2 _ (index _ _ _ _) (index _ _ _ _) => apply (sa_index _ IH)
  | |- rel2 _ (setindex _ _ _ _ _) (setindex _ _ _ _ _) => apply (sa_setindex _ IH)
  | |- rel2 _ (tostr _ _ _) (tostr _ _ _) => apply (sa_tostr _ IH)
  | |- rel2 _ (arith _ _ _ _ _) (arith _ _ _ _ _) => apply (sa_arith _ IH)
  | |- rel2 _ (concat _ _ _ _) (concat _ _ _ _) => apply (sa_concat _ IH)
  | |- rel2 _ (equal _ _ _ _) (equal _ _ _ _) => apply (sa_equal _ IH)
  | |- rel2 _ (less _ _ _ _ _) (less _ _ _ _ _) => apply (sa_less _ IH)
  | |- rel2 _ (length _ _ _) (length _ _ _) => apply (sa_length _ IH)
  | |- rel2 _ (call_builtin _ _ _ _) (call_builtin _ _ _ _) => apply (sa_builtin _ IH)
  | |- rel2 _ (assign_target _ _ _ _ _) (assign_target _ _ _ _ _) => apply (sa_assign_target _ IH)
  end.

Section Step.
Variable n : nat.
Hypothesis IH : sim_all n.

Lemma step_index o k : oblivious (index d (S n) o k).
Proof.
  destruct o; try (rewrite index_S_other by exact I); try rewrite index_S_table; obl_with ltac:(ihv IH).
Qed.

Lemma step_setindex o k v : oblivious (setindex d (S n) o k v).
Proof.
  destruct o; try (rewrite setindex_S_other by exact I); try rewrite setindex_S_table; obl_with ltac:(ihv IH).
Qed.

Lemma step_tostr v : oblivious (tostr d (S n) v).
Proof. rewrite tostr_S. obl_with ltac:(ihv IH). Qed.

Lemma step_arith o a b : oblivious (arith d (S n) o a b).
Proof. rewrite arith_S. obl_with ltac:(ihv IH). Qed.

Lemma step_concat a b : oblivious (concat d (S n) a b).
Proof. rewrite concat_S. obl_with ltac:(ihv IH). Qed.

Lemma step_equal a b : oblivious (equal d (S n) a b).
Proof. rewrite equal_S. obl_with ltac:(ihv IH). Qed.

Lemma step_less st a b : oblivious (less d (S n) st a b).
Proof. rewrite less_S. obl_with ltac:(ihv IH). Qed.

Lemma step_length v : oblivious (length d (S n) v).
Proof. rewrite length_S. obl_with ltac:(ihv IH). Qed.

Lemma obl_minmax_go b vs : forall acc, oblivious (minmax_go b vs acc).
Proof.
  induction vs as [|v vs IHv]; intros acc; cbn [minmax_go]; obl_with ltac:(apply IHv).
Qed.

Lemma obl_char_go vs : forall acc, oblivious (char_go vs acc).
Proof.
  induction vs as [|v vs IHv]; intros acc; cbn [char_go]; obl_with ltac:(apply IHv).
Qed.

Lemma obl_tconcat_go t sep is : forall acc fi, oblivious (tconcat_go d t sep is acc fi).
Proof.
  induction is as [|i is IHi]; intros acc fi; cbn [tconcat_go]; obl_with ltac:(apply IHi).
Qed.

Lemma obl_format_go fuel : forall f vs acc, oblivious (format_go d n fuel f vs acc).
Proof.
  induction fuel as [|fuel IHf]; intros f vs acc; cbn [format_go];
    obl_with ltac:(first [apply IHf | ihv IH]).
Qed.

Lemma step_builtin b args : oblivious (call_builtin d (S n) b args).
Proof.
  rewrite call_builtin_S.
  obl_with ltac:(first [ihv IH | apply obl_minmax_go | apply obl_char_go | apply obl_tconcat_go | apply obl_format_go]).
Qed.

Lemma rel2_call_closure c1 c2 args : clos_rel c1 c2 ->
  rel2 eq (call_closure d n (effective_params c1) (closure_variadic c1) (closure_block c1) (c_env c1) args)
          (call_closure d n (effective_params c2) (closure_variadic c2) (closure_block c2) (c_env c2) args).
Proof.
  intros Hc. pose proof Hc as (H1 & H2 & H3 & H4). unfold call_closure. rewrite <- H2, <- H3.
  eapply rel2_bind; [apply rel2_bind_params; exact H1|]. intros r1 r2 [<- Hr]. cbv zeta.
  replace (List.length (effective_params c2)) with (List.length (effective_params c1))
    by (unfold param_names in H1; rewrite <- (map_length param_name), H1, map_length; reflexivity).
  apply rel2_bind_eq.
  - apply (sa_block _ IH) with (P := fun x => ment_block [x] (closure_block c1)).
    + intros x Hx. exact Hx.
    + apply env_agree_call; assumption.
  - intros sg. destruct sg; obl.
Qed.

Lemma step_call f args : oblivious (call d (S n) f args).
Proof.
  destruct f; try (rewrite call_S_other by exact I; obl_with ltac:(ihv IH)).
  - intros s1 s2 Hs. rewrite !call_S_closure.
    eapply res_rel_bind; [apply rel2_get_closure; exact Hs|].
    intros c1 c2 t1 t2 Hc Ht. now apply rel2_call_closure.
  - rewrite call_S_builtin. apply (sa_builtin _ IH).
  - rewrite call_S_ext. apply obl_call_ext.
Qed.

(** the induction hypothesis for the functions that read the environment *)
Ltac side := first [eassumption | cov].
Ltac envside := first [eassumption | apply env_agree_cons; eassumption].
Ltac ihe :=
  idtac;
  lazymatch goal with
  | |- rel2 _ (eval _ _ _ _ _) (eval _ _ _ _ _) => eapply (sa_eval _ IH); [|envside]; side
  | |- rel2 _ (eval1 _ _ _ _ _) (eval1 _ _ _ _ _) => eapply (sa_eval1 _ IH); [|envside]; side
  | |- rel2 _ (eval_list _ _ _ _ _) (eval_list _ _ _ _ _) => eapply (sa_eval_list _ IH); [|envside]; side
  | |- rel2 _ (eval_args _ _ _ _ _) (eval_args _ _ _ _ _) => eapply (sa_eval_args _ IH); [|envside]; side
  | |- rel2 _ (fill_table _ _ _ _ _ _ _) (fill_table _ _ _ _ _ _ _) => eapply (sa_fill _ IH); [|envside]; side
  | |- rel2 _ (exec_block _ _ _ _ _) (exec_block _ _ _ _ _) => eapply (sa_block _ IH); [|envside]; side
  | |- rel2 _ (exec_stmts _ _ _ _ _ _) (exec_stmts _ _ _ _ _ _) => eapply (sa_stmts _ IH); [|envside]; side
  | |- rel2 _ (eval_target _ _ _ _ _) (eval_target _ _ _ _ _) => eapply (sa_eval_target _ IH); [|envside]; side
  | |- rel2 _ (exec_while _ _ _ _ _ _) (exec_while _ _ _ _ _ _) => eapply (sa_while _ IH); [| |envside]; side
  | |- rel2 _ (exec_repeat _ _ _ _ _ _) (exec_repeat _ _ _ _ _ _) => eapply (sa_repeat _ IH); [| |envside]; side
  | |- rel2 _ (exec_numfor _ _ _ _ _ _ _ _ _) (exec_numfor _ _ _ _ _ _ _ _ _) => eapply (sa_numfor _ IH); [|envside]; side
  | |- rel2 _ (exec_genfor _ _ _ _ _ _ _ _ _) (exec_genfor _ _ _ _ _ _ _ _ _) => eapply (sa_genfor _ IH); [|envside]; side
  | |- rel2 (stmt_res_rel _) (ret _) (ret _) => apply rel2_ret; split; cbn [fst snd]; [eassumption|reflexivity]
  | |- _ => ihv IH
  end.

Lemma rel2_if_go P rho1 rho2 va els bs :
  Forall (covers_ebranch P) bs -> covers_expr P els -> env_agree P rho1 rho2 ->
  rel2 eq (if_go d n rho1 va els bs) (if_go d n rho2 va els bs).
Proof.
  intros Hb Hc He. induction bs as [|[c r] bs IHb].
  - rewrite !if_go_nil. obl_with ihe.
  - finv. rewrite !if_go_cons. obl_with ltac:(first [ihe | now apply IHb]).
Qed.

Lemma rel2_interp_go P rho1 rho2 va segs : forall acc,
  Forall (covers_iseg P) segs -> env_agree P rho1 rho2 ->
  rel2 eq (interp_go d n rho1 va segs acc) (interp_go d n rho2 va segs acc).
Proof.
  induction segs as [|[s|e] segs IHs]; intros acc Hc He.
  - rewrite !interp_go_nil. obl.
  - finv. rewrite !interp_go_str. now apply IHs.
  - finv. rewrite !interp_go_expr. obl_with ltac:(first [ihe | now apply IHs]).
Qed.

Lemma step_eval P rho1 rho2 va e : covers_expr P e -> env_agree P rho1 rho2 ->
  rel2 eq (eval d (S n) rho1 va e) (eval d (S n) rho2 va e).
Proof.
  intros Hc He. destruct e.
  - rewrite !eval_S_nil. obl.
  - rewrite !eval_S_true. obl.
  - rewrite !eval_S_false. obl.
  - rewrite !eval_S_number. obl.
  - rewrite !eval_S_string. obl.
  - rewrite !eval_S_interp. apply rel2_interp_go with (P := P); [cov|assumption].
  - rewrite !eval_S_varargs. obl.
  - rewrite !eval_S_ident. rewrite (He x) by (apply Hc; rewrite ment_ident; apply is_target_self).
    obl_with ihe.
  - rewrite !eval_S_field. obl_with ihe.
  - rewrite !eval_S_index. obl_with ihe.
  - rewrite !eval_S_call. obl_with ihe.
  - rewrite !eval_S_function. apply rel2_bind_eq; [|intros; obl].
    apply rel2_new_closure, clos_rel_same. intros x Hx. apply He, Hc. now rewrite ment_function.
  - rewrite !eval_S_if. apply rel2_if_go with (P := P); [cov|cov|assumption].
  - rewrite !eval_S_paren. obl_with ihe.
  - rewrite !eval_S_table. obl_with ihe.
  - rewrite !eval_S_unary. obl_with ihe.
  - destruct op;
      first [rewrite !eval_S_and | rewrite !eval_S_or | rewrite !eval_S_binop by reflexivity; unfold binop_sem];
      obl_with ihe.
  - rewrite !eval_S_typecast. obl_with ihe.
  - rewrite !eval_S_typeinst. obl_with ihe.
Qed.

Lemma step_eval1 P rho1 rho2 va e : covers_expr P e -> env_agree P rho1 rho2 ->
  rel2 eq (eval1 d (S n) rho1 va e) (eval1 d (S n) rho2 va e).
Proof. intros Hc He. rewrite !eval1_S. obl_with ihe. Qed.

Lemma step_eval_list P rho1 rho2 va es : Forall (covers_expr P) es -> env_agree P rho1 rho2 ->
  rel2 eq (eval_list d (S n) rho1 va es) (eval_list d (S n) rho2 va es).
Proof.
  intros Hc He. destruct es as [|e [|e2 es]].
  - rewrite !eval_list_S_nil. obl.
  - finv. rewrite !eval_list_S_one. ihe.
  - inversion Hc; subst. rewrite !eval_list_S_cons. obl_with ihe.
Qed.

Lemma step_eval_args P rho1 rho2 va a : covers_args P a -> env_agree P rho1 rho2 ->
  rel2 eq (eval_args d (S n) rho1 va a) (eval_args d (S n) rho2 va a).
Proof.
  intros Hc He. destruct a.
  - rewrite !eval_args_S_tuple. ihe.
  - rewrite !eval_args_S_string. obl.
  - rewrite !eval_args_S_table. obl_with ihe.
Qed.

Lemma obl_put a k v : oblivious (put a k v).
Proof. unfold put. obl. Qed.
Lemma obl_put_pos a pos v : oblivious (put_pos a pos v).
Proof. unfold put_pos. obl_with ltac:(apply obl_put). Qed.
Lemma obl_fill_go a vs : forall pos, oblivious (fill_go a vs pos).
Proof.
  induction vs as [|v vs IHv]; intros pos; cbn [fill_go]; obl_with ltac:(first [apply obl_put_pos | apply IHv]).
Qed.

Lemma step_fill P rho1 rho2 va a es pos : Forall (covers_tentry P) es -> env_agree P rho1 rho2 ->
  rel2 eq (fill_table d (S n) rho1 va a es pos) (fill_table d (S n) rho2 va a es pos).
Proof.
  intros Hc He. destruct es as [|[f e|k e|e] rest].
  - rewrite !fill_S_nil. obl.
  - inversion Hc; subst. rewrite !fill_S_field.
    obl_with ltac:(first [apply obl_put | ihe]).
  - inversion Hc; subst. rewrite !fill_S_index.
    obl_with ltac:(first [apply obl_put | ihe]).
  - destruct rest as [|x rest].
    + finv. rewrite !fill_S_last. obl_with ltac:(first [apply obl_fill_go | ihe]).
    + inversion Hc; subst. rewrite !fill_S_value.
      obl_with ltac:(first [apply obl_put_pos | ihe]).
Qed.

Lemma step_block P rho1 rho2 va b : covers_block P b -> env_agree P rho1 rho2 ->
  rel2 eq (exec_block d (S n) rho1 va b) (exec_block d (S n) rho2 va b).
Proof. intros Hc He. destruct b as [ss last]. rewrite !exec_block_S. ihe. Qed.

Lemma step_stmts P rho1 rho2 va ss last : covers_block P (Block ss last) -> env_agree P rho1 rho2 ->
  rel2 eq (exec_stmts d (S n) rho1 va ss last) (exec_stmts d (S n) rho2 va ss last).
Proof.
  intros Hc He. destruct ss as [|st rest].
  - rewrite !exec_stmts_S_nil. destruct last as [[| |es]|]; obl_with ihe.
  - rewrite !exec_stmts_S_cons. eapply rel2_bind.
    + eapply (sa_stmt _ IH); [|eassumption]. cov.
    + intros [r1 g1] [r2 g2] [Hr Hg]. cbn [fst snd] in Hr, Hg. subst g2.
      unfold stmts_cont. destruct g1; obl_with ihe.
Qed.

Lemma step_assign_target rho1 rho2 t v :
  rel2 eq (assign_target d (S n) rho1 t v) (assign_target d (S n) rho2 t v).
Proof.
  destruct t as [[[a|] o] k].
  - rewrite !assign_target_S_cell. obl.
  - rewrite !assign_target_S_index. ihv IH.
Qed.

Lemma step_eval_target P rho1 rho2 va e : covers_expr P e -> env_agree P rho1 rho2 ->
  rel2 eq (eval_target d (S n) rho1 va e) (eval_target d (S n) rho2 va e).
Proof.
  intros Hc He. destruct e; try (rewrite !eval_target_S_other by reflexivity; obl).
  - rewrite !eval_target_S_ident. rewrite (He x) by (apply Hc; rewrite ment_ident; apply is_target_self).
    obl.
  - rewrite !eval_target_S_field. obl_with ihe.
  - rewrite !eval_target_S_index. obl_with ihe.
Qed.

Lemma rel2_targets_go P rho1 rho2 va vars : Forall (covers_expr P) vars -> env_agree P rho1 rho2 ->
  rel2 eq (targets_go d n rho1 va vars) (targets_go d n rho2 va vars).
Proof.
  intros Hc He. induction vars as [|v vars IHv].
  - rewrite !targets_go_nil. obl.
  - inversion Hc; subst. rewrite !targets_go_cons. obl_with ltac:(first [ihe | now apply IHv]).
Qed.

Lemma rel2_assign_go rho1 rho2 ts : forall vs,
  rel2 eq (assign_go d n rho1 ts vs) (assign_go d n rho2 ts vs).
Proof.
  induction ts as [|t ts IHt]; intros vs.
  - rewrite !assign_go_nil. obl.
  - rewrite !assign_go_cons. obl_with ltac:(first [ihe | apply IHt]).
Qed.

Lemma rel2_sif_go P rho1 rho2 va els bs :
  Forall (covers_sbranch P) bs -> (forall x, optb (ment_block [x]) els = true -> P x = true) ->
  env_agree P rho1 rho2 ->
  rel2 eq (sif_go d n rho1 va els bs) (sif_go d n rho2 va els bs).
Proof.
  intros Hb Hc He. induction bs as [|[c b] bs IHb].
  - rewrite !sif_go_nil. destruct els; obl_with ihe.
  - inversion Hb; subst. rewrite !sif_go_cons. obl_with ltac:(first [ihe | now apply IHb]).
Qed.

Lemma obl_path_go ks : forall o, oblivious (path_go d n o ks).
Proof.
  induction ks as [|k ks IHk]; intros o.
  - rewrite path_go_short by (cbn; lia). obl.
  - destruct ks as [|k2 ks].
    + rewrite path_go_short by (cbn; lia). obl.
    + rewrite path_go_cons. obl_with ltac:(first [ihe | apply IHk]).
Qed.

Lemma rel2_sfunction_store P rho1 rho2 va base path c :
  covers_expr P (EIdent base) -> env_agree P rho1 rho2 ->
  rel2 (stmt_res_rel P) (sfunction_store d n rho1 va base path c) (sfunction_store d n rho2 va base path c).
Proof.
  intros Hc He. unfold sfunction_store. destruct path; obl_with ltac:(first [apply obl_path_go | ihe]).
Qed.

Lemma rel2_repeat_go P va last ss : forall rho1 rho2,
  covers_block P (Block ss last) -> env_agree P rho1 rho2 ->
  rel2 (stmt_res_rel P) (repeat_go d n va last ss rho1) (repeat_go d n va last ss rho2).
Proof.
  induction ss as [|st ss IHs]; intros rho1 rho2 Hc He.
  - rewrite !repeat_go_nil. destruct last as [[| |es]|]; obl_with ihe.
  - rewrite !repeat_go_cons. eapply rel2_bind.
    + eapply (sa_stmt _ IH); [|eassumption]. cov.
    + intros [r1 g1] [r2 g2] [Hr Hg]. cbn [fst snd] in Hr, Hg. subst g2.
      destruct g1; try (apply rel2_ret; split; [assumption|reflexivity]).
      apply IHs; [cov|assumption].
Qed.

Lemma step_stmt P rho1 rho2 va st : covers_stmt P st -> env_agree P rho1 rho2 ->
  rel2 (stmt_res_rel P) (exec_stmt d (S n) rho1 va st) (exec_stmt d (S n) rho2 va st).
Proof.
  intros Hc He. destruct st.
  - rewrite !exec_stmt_S_assign.
    obl_with ltac:(first [apply rel2_targets_go with (P := P); [cov|assumption] | apply rel2_assign_go | ihe]).
  - rewrite !exec_stmt_S_do. obl_with ihe.
  - rewrite !exec_stmt_S_call. obl_with ihe.
  - rewrite !exec_stmt_S_compound. obl_with ihe.
  - rewrite !exec_stmt_S_function. apply rel2_bind_eq.
    + apply rel2_new_closure, clos_rel_same. intros y Hy. apply He, Hc.
      rewrite ment_sfunction, Hy. apply orb_true_r.
    + intros c. apply rel2_sfunction_store; [|assumption].
      intros y Hy. apply Hc. rewrite ment_sfunction. rewrite ment_ident in Hy. now rewrite Hy.
  - rewrite !exec_stmt_S_genfor. obl_with ihe.
  - rewrite !exec_stmt_S_if.
    obl_with ltac:(first [apply rel2_sif_go with (P := P); [cov|cov|assumption] | ihe]).
  - rewrite !exec_stmt_S_local. apply rel2_bind_eq; [ihe|]. intros vs.
    eapply rel2_bind; [apply rel2_local_go; eassumption|].
    intros r1 r2 Hr. apply rel2_ret. split; [assumption|reflexivity].
  - rewrite !exec_stmt_S_localfunction. apply rel2_bind_eq; [obl_leaf|]. intros a.
    apply rel2_bind_eq.
    + apply rel2_new_closure, clos_rel_same. intros y Hy. apply (env_agree_cons P _ _ x a He).
      apply Hc. now rewrite ment_localfunction.
    + intros c. apply rel2_bind_eq; [obl_leaf|]. intros _. apply rel2_ret.
      split; cbn [fst snd]; [now apply env_agree_cons|reflexivity].
  - rewrite !exec_stmt_S_numfor. obl_with ihe.
  - rewrite !exec_stmt_S_repeat. obl_with ihe.
  - rewrite !exec_stmt_S_while. obl_with ihe.
  - rewrite !exec_stmt_S_typedecl. ihe.
  - rewrite !exec_stmt_S_typefunction. ihe.
Qed.

Lemma step_while P rho1 rho2 va c b : covers_expr P c -> covers_block P b -> env_agree P rho1 rho2 ->
  rel2 eq (exec_while d (S n) rho1 va c b) (exec_while d (S n) rho2 va c b).
Proof. intros Hc Hb He. rewrite !exec_while_S. obl_with ihe. Qed.

Lemma step_repeat P rho1 rho2 va b c : covers_block P b -> covers_expr P c -> env_agree P rho1 rho2 ->
  rel2 eq (exec_repeat d (S n) rho1 va b c) (exec_repeat d (S n) rho2 va b c).
Proof.
  intros Hb Hc He. destruct b as [ss last]. rewrite !exec_repeat_S. eapply rel2_bind.
  - apply rel2_repeat_go; eassumption.
  - intros [r1 g1] [r2 g2] [Hr Hg]. cbn [fst snd] in Hr, Hg. subst g2.
    destruct g1; obl_with ihe.
Qed.

Lemma step_numfor P rho1 rho2 va x i stop step b : covers_block P b -> env_agree P rho1 rho2 ->
  rel2 eq (exec_numfor d (S n) rho1 va x i stop step b) (exec_numfor d (S n) rho2 va x i stop step b).
Proof. intros Hb He. rewrite !exec_numfor_S. obl_with ihe. Qed.

Lemma step_genfor P rho1 rho2 va vars f s ctl b : covers_block P b -> env_agree P rho1 rho2 ->
  rel2 eq (exec_genfor d (S n) rho1 va vars f s ctl b) (exec_genfor d (S n) rho2 va vars f s ctl b).
Proof.
  intros Hb He. rewrite !exec_genfor_S. apply rel2_bind_eq; [ihe|]. intros vs.
  destruct (first vs); [obl|..];
    (eapply rel2_bind; [apply rel2_local_go; eassumption|]; intros r1 r2 Hr; obl_with ihe).
Qed.

Lemma sim_all_S : sim_all (S n).
Proof.
  constructor.
  - exact step_call.
  - exact step_index.
  - exact step_setindex.
  - exact step_tostr.
  - exact step_arith.
  - exact step_concat.
  - exact step_equal.
  - exact step_less.
  - exact step_length.
  - exact step_builtin.
  - exact step_eval.
  - exact step_eval1.
  - exact step_eval_list.
  - exact step_eval_args.
  - exact step_fill.
  - exact step_block.
  - exact step_stmts.
  - exact step_assign_target.
  - exact step_eval_target.
  - exact step_stmt.
  - exact step_while.
  - exact step_repeat.
  - exact step_numfor.
  - exact step_genfor.
Qed.

End Step.

Theorem sim_all_holds n : sim_all n.
Proof. induction n as [|n IHn]; [exact sim_all_0 | exact (sim_all_S n IHn)]. Qed.

End Sim.
