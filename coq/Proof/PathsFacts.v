(** Facts about the candidate iterator, the candidate search, [normalize] and
    [pathdiff::diff_paths] of Model/Paths.v. *)
From DL Require Import Lib.Bytes Model.Paths Model.Require Proof.PathsBasics.
Require Import Lia PeanoNat.
Open Scope N_scope.

(** * names *)

Lemma name_ext_none_stem n : name_ext n = None -> name_stem n = Some n.
Proof.
  unfold name_ext, name_stem, rsplit_file_at_dot.
  destruct (is_dotdot n); [reflexivity|].
  destruct (rsplit_dot_rev (rev n) []) as [[before after]|]; [|reflexivity].
  destruct before; [reflexivity|discriminate].
Qed.

(** a name without separator that is neither "" nor "." nor ".." *)
Definition wf_name (n : bytes) : bool :=
  negb (bytes_eqb n []) && negb (existsb (N.eqb slash) n) && negb (is_dot n) && negb (is_dotdot n).

Lemma split_slash_acc_no_slash s cur :
  existsb (N.eqb slash) s = false -> split_slash_acc s cur = [rev cur ++ s].
Proof.
  revert cur. induction s as [|c s IH]; intros cur H; cbn [split_slash_acc].
  - rewrite app_nil_r. reflexivity.
  - cbn [existsb] in H. apply orb_false_iff in H as [Hc Hs].
    rewrite N.eqb_sym in Hc. rewrite Hc. rewrite IH by assumption.
    cbn [rev]. rewrite <- app_assoc. reflexivity.
Qed.

Lemma parse_path_wf_name n : wf_name n = true -> parse_path n = [Norm n].
Proof.
  unfold wf_name. intros H.
  apply andb_true_iff in H as [H Hdd]. apply andb_true_iff in H as [H Hd]. apply andb_true_iff in H as [Hne Hs].
  apply negb_true_iff in Hdd, Hd, Hne, Hs.
  destruct n as [|c n]; [discriminate|].
  unfold parse_path. cbn [existsb] in Hs. apply orb_false_iff in Hs as [Hc Hs'].
  rewrite N.eqb_sym in Hc. rewrite Hc.
  unfold split_slash. rewrite split_slash_acc_no_slash
    by (cbn [existsb]; rewrite N.eqb_sym in Hc; rewrite Hc; exact Hs').
  cbn [rev app]. rewrite Hd. cbn [seg_comps]. rewrite Hne, Hd, Hdd. reflexivity.
Qed.

(** * the candidate list is the documented list *)

Definition sibling (p : path) (x : bytes) : path := pop p ++ [Norm x].

Definition folder_documented (p : path) (m : bytes) : list path :=
  (p ++ [Norm m]) ::
  match name_ext m with
  | Some _ => []
  | None => [p ++ [Norm (m ++ dot :: luau_ext)]; p ++ [Norm (m ++ dot :: lua_ext)]]
  end.

(** docs/path-require-mode, "Path Resolution": the path, the path with [.luau], with [.lua],
    the path joined with the module folder name, that with [.luau], with [.lua] (the last two only
    when the module folder name has no extension); a path that already ends in [.lua]/[.luau] is
    tried alone; a path without a final name ([.], [..], [x/..]) has no [.luau]/[.lua] variants *)
Definition documented_candidates (p : path) (m : bytes) : list path :=
  match file_name p with
  | Some n =>
    if is_lua_ext (name_ext n) then [p]
    else p :: sibling p (n ++ dot :: luau_ext) :: sibling p (n ++ dot :: lua_ext) :: folder_documented p m
  | None => p :: folder_documented p m
  end.

Lemma folder_candidates_documented p mfn m :
  parse_path mfn = [Norm m] -> folder_candidates p mfn = folder_documented p m.
Proof.
  intros H. unfold folder_candidates, folder_documented. rewrite H.
  rewrite (join_plain p [Norm m]) by reflexivity.
  rewrite extension_snoc. destruct (name_ext m) eqn:E; [reflexivity|].
  rewrite !(set_extension_snoc p m _ m) by (apply name_ext_none_stem; exact E).
  reflexivity.
Qed.

Theorem candidates_documented_order p mfn m :
  parse_path mfn = [Norm m] -> candidates p mfn = documented_candidates p m.
Proof.
  intros H. unfold candidates, documented_candidates, extension.
  rewrite (folder_candidates_documented p mfn m H).
  destruct (file_name p) as [n|] eqn:E; [|reflexivity].
  destruct (is_lua_ext (name_ext n)); [reflexivity|].
  unfold with_file_name. rewrite E. rewrite !join_plain by reflexivity. reflexivity.
Qed.

Corollary candidates_lua_extension p mfn :
  is_lua_ext (extension p) = true -> candidates p mfn = [p].
Proof. intros H. unfold candidates. rewrite H. reflexivity. Qed.

(** the six candidates, spelled out, for a path that ends in a name *)
Corollary candidates_six q n mfn m :
  parse_path mfn = [Norm m] -> is_lua_ext (name_ext n) = false -> name_ext m = None ->
  candidates (q ++ [Norm n]) mfn =
  [ q ++ [Norm n];
    q ++ [Norm (n ++ dot :: luau_ext)];
    q ++ [Norm (n ++ dot :: lua_ext)];
    q ++ [Norm n; Norm m];
    q ++ [Norm n; Norm (m ++ dot :: luau_ext)];
    q ++ [Norm n; Norm (m ++ dot :: lua_ext)] ].
Proof.
  intros H Hn Hm. rewrite (candidates_documented_order _ mfn m H).
  unfold documented_candidates, folder_documented, sibling.
  rewrite file_name_snoc, Hn, Hm, pop_snoc by discriminate.
  rewrite <- !app_assoc. reflexivity.
Qed.

(** * the candidate search returns the first existing candidate *)

Lemma first_file_some f l q :
  first_file f l = Some q <->
  exists l1 l2, l = l1 ++ q :: l2 /\ is_file f q = true /\ (forall x, In x l1 -> is_file f x = false).
Proof.
  induction l as [|p l IH]; cbn [first_file].
  - split; [discriminate|]. intros (l1 & l2 & H & _). destruct l1; discriminate.
  - destruct (is_file f p) eqn:E.
    + split.
      * intros H. inversion H; subst. exists [], l. repeat split; auto. intros x [].
      * intros (l1 & l2 & H & Hq & Hl1). destruct l1 as [|y l1].
        -- cbn in H. inversion H; subst. reflexivity.
        -- cbn in H. inversion H; subst. rewrite (Hl1 y (or_introl eq_refl)) in E. discriminate.
    + rewrite IH. split.
      * intros (l1 & l2 & H & Hq & Hl1). exists (p :: l1), l2. subst. repeat split; auto.
        intros x [Hx|Hx]; subst; auto.
      * intros (l1 & l2 & H & Hq & Hl1). destruct l1 as [|y l1].
        -- cbn in H. inversion H; subst. rewrite Hq in E. discriminate.
        -- cbn in H. inversion H; subst. exists l1, l2. repeat split; auto.
           intros x Hx. apply Hl1. right. exact Hx.
Qed.

Lemma first_file_none f l :
  first_file f l = None <-> (forall x, In x l -> is_file f x = false).
Proof.
  induction l as [|p l IH]; cbn [first_file].
  - split; auto. intros _ x [].
  - destruct (is_file f p) eqn:E.
    + split; [discriminate|]. intros H. rewrite (H p (or_introl eq_refl)) in E. discriminate.
    + rewrite IH. split.
      * intros H x [Hx|Hx]; subst; auto.
      * intros H x Hx. apply H. right. exact Hx.
Qed.

(** [first_existing]: what [locate] (the loop of both [find_require_path]) returns *)
Theorem first_existing c f p r :
  locate c f p = Found r <->
  exists l1 q l2,
    candidates (normalize true p) (module_folder_name c) = l1 ++ q :: l2 /\
    is_file f q = true /\ (forall x, In x l1 -> is_file f x = false) /\ r = normalize true q.
Proof.
  unfold locate. destruct (first_file f _) as [q|] eqn:E.
  - apply first_file_some in E as (l1 & l2 & H & Hq & Hl1). split.
    + intros H0. inversion H0; subst. exists l1, q, l2. auto.
    + intros (l1' & q' & l2' & H' & Hq' & Hl1' & Hr). subst r. f_equal. f_equal.
      assert (first_file f (candidates (normalize true p) (module_folder_name c)) = Some q') as E'
        by (apply first_file_some; exists l1', l2'; auto).
      assert (first_file f (candidates (normalize true p) (module_folder_name c)) = Some q) as E''
        by (apply first_file_some; exists l1, l2; auto).
      congruence.
  - split; [discriminate|]. intros (l1 & q & l2 & H & Hq & _).
    rewrite first_file_none in E. rewrite (E q) in Hq; [discriminate|].
    rewrite H. apply in_or_app. right. left. reflexivity.
Qed.

Theorem none_existing c f p :
  (exists e, locate c f p = Failed e) <->
  (forall x, In x (candidates (normalize true p) (module_folder_name c)) -> is_file f x = false).
Proof.
  unfold locate. destruct (first_file f _) as [q|] eqn:E.
  - split.
    + intros [e H]. discriminate.
    + intros H. apply first_file_none in H. congruence.
  - split; [|intros _; eexists; reflexivity]. intros _. apply first_file_none. exact E.
Qed.

Lemma locate_error c f p e : locate c f p = Failed e -> e = ENotFound.
Proof. unfold locate. destruct (first_file f _); intros H; inversion H; reflexivity. Qed.

(** * [normalize] on the shapes of require resolution *)

Lemma simple_rev s : simple (rev s) = simple s.
Proof. unfold simple. apply forallb_rev'. Qed.

Lemma plain_rev s : plain (rev s) = plain s.
Proof. unfold plain. apply forallb_rev'. Qed.

Lemma normalize_simple k s : simple s = true -> normalize k s = s.
Proof.
  intros H. destruct s as [|c s]; [reflexivity|].
  rewrite (normalize_finish k (c :: s) (rev (c :: s))).
  - apply rev_involutive.
  - discriminate.
  - rewrite nfold_simple by assumption. apply app_nil_r.
  - intros E. apply (f_equal (@rev comp)) in E. rewrite rev_involutive in E. discriminate.
  - rewrite plain_rev. apply simple_plain. assumption.
Qed.

(** leading ".."s stay, the names after them stay *)
Lemma normalize_pars_simple k j s :
  simple s = true -> (j + List.length s <> 0)%nat -> normalize k (repeat Par j ++ s) = repeat Par j ++ s.
Proof.
  intros H Hne.
  rewrite (normalize_finish k _ (rev s ++ repeat Par j)).
  - rewrite rev_app_distr, rev_involutive, rev_repeat. reflexivity.
  - destruct j; destruct s; cbn in *; try discriminate; lia.
  - rewrite nfold_app. pose proof (nfold_pars_acc k j 0) as E. cbn [repeat] in E. rewrite E, Nat.add_0_r.
    apply nfold_simple. assumption.
  - destruct j; destruct s as [|c s]; cbn in *; try lia; try discriminate.
    + destruct (rev s); discriminate.
    + destruct (rev s); discriminate.
  - rewrite plain_app, plain_rev, plain_repeat_par, andb_true_r. apply simple_plain. assumption.
Qed.

(** a leading "." is kept by [normalize_path_with_current_dir] *)
Lemma normalize_true_cur_simple s : simple s = true -> normalize true (Cur :: s) = Cur :: s.
Proof.
  intros H. unfold normalize. fold (nfold true (Cur :: s) []).
  change (nfold true (Cur :: s) []) with (nfold true s [Cur]).
  rewrite nfold_simple by assumption. rewrite rev_app_distr, rev_involutive. cbn [rev app].
  apply from_iter_cur_plain. apply simple_plain. assumption.
Qed.

(** and dropped by [normalize_path] *)
Lemma normalize_false_cur p : p <> [] -> normalize false (Cur :: p) = normalize false p.
Proof. intros H. destruct p; [congruence|]. reflexivity. Qed.

(** names, then as many ".." as the last [j] names, then names: the ".."s cancel *)
Lemma normalize_cancel k a d s :
  simple a = true -> simple d = true -> simple s = true -> a ++ s <> [] ->
  normalize k (a ++ d ++ repeat Par (List.length d) ++ s) = a ++ s.
Proof.
  intros Ha Hd Hs Hne.
  rewrite (normalize_finish k _ (rev s ++ rev a)).
  - rewrite rev_app_distr, !rev_involutive. reflexivity.
  - destruct a; destruct d; destruct s; cbn in *; try discriminate; congruence.
  - rewrite !nfold_app. rewrite (nfold_simple k a) by assumption.
    rewrite (nfold_simple k d) by assumption. rewrite <- (rev_length d).
    rewrite app_nil_r. rewrite nfold_pars_pop by (rewrite simple_rev; assumption).
    apply nfold_simple. assumption.
  - intros E. apply (f_equal (@rev comp)) in E. rewrite rev_app_distr, !rev_involutive in E.
    cbn in E. congruence.
  - rewrite plain_app, !plain_rev. rewrite !simple_plain by assumption. reflexivity.
Qed.

(** * [diff_paths] on names *)

Lemma map_const_repeat {A B} (x : B) (l : list A) : map (fun _ => x) l = repeat x (List.length l).
Proof. induction l; cbn; congruence. Qed.

Lemma diff_loop_common cp a b : diff_loop (cp ++ a) (cp ++ b) [] = diff_loop a b [].
Proof.
  induction cp as [|c cp IH]; [reflexivity|]. cbn [app diff_loop]. rewrite comp_eqb_refl. exact IH.
Qed.

(** the two paths have no common first component *)
Definition diverge (a b : path) : bool :=
  match a, b with
  | x :: _, y :: _ => negb (comp_eqb x y)
  | _, _ => true
  end.

Lemma diff_loop_diverge a b :
  a <> [] -> simple b = true -> diverge a b = true ->
  diff_loop a b [] = Some (repeat Par (List.length b) ++ a).
Proof.
  intros Ha Hb Hd. destruct a as [|x a]; [congruence|]. destruct b as [|y b].
  - reflexivity.
  - cbn [diverge] in Hd. apply negb_true_iff in Hd. cbn [diff_loop]. rewrite Hd. cbn [andb].
    cbn [simple forallb] in Hb. apply andb_true_iff in Hb as [Hy _]. destruct y; try discriminate.
    rewrite map_const_repeat. reflexivity.
Qed.

Lemma common_prefix_split (a b : path) :
  exists cp a' b', a = cp ++ a' /\ b = cp ++ b' /\ diverge a' b' = true.
Proof.
  revert b. induction a as [|x a IH]; intros b.
  - exists [], [], b. auto.
  - destruct b as [|y b].
    + exists [], (x :: a), []. auto.
    + destruct (comp_eqb x y) eqn:E.
      * apply comp_eqb_eq in E. subst y. destruct (IH b) as (cp & a' & b' & H1 & H2 & H3).
        exists (x :: cp), a', b'. subst. auto.
      * exists [], (x :: a), (y :: b). cbn [diverge]. rewrite E. auto.
Qed.
