(** C01, LIFTING - remove_unused_if_branch (statement and expression form together, as the rule
    applies them) restricted to LITERAL conditions.

    The rule asks the static evaluator for the truthiness of every condition
    ([is_truthy (evaluate c)]) and for its side effects ([hse c]).  Here the rule's code is
    restated with these two questions as parameters ([*_g tr hs]; [if_g_agrees]: instantiated with
    the rule's own oracles its hooks ARE the rule's hooks, pointwise), and proved whole-program sound for every oracle
    [tr] that answers [Some b] only on conditions that evaluate, in every store, to a value of
    truthiness [b] without touching the store, and that [hs] finds free of side effects
    ([tr_ok]).  The literals [true], [false], [nil], numbers and strings are such conditions
    ([lit_truthy]); the rule's own oracle is sound only under the store invariant [env_plain] and
    up to the fresh allocations of the dropped condition: PARTIAL. *)
From Coq Require Import ZArith NArith List Bool String Lia.
From DL Require Import Lib.Bytes Lib.F64 Lua.Syntax Lua.Sem Model.Evaluator Model.DefaultRules.
From DL Require Import Proof.LoweringFuel.
From DL Require Import Proof.SemFacts Proof.DefaultRulesSem Proof.RefactorSem Proof.RefactorSimA.
From DL Require Import Proof.EvaluatorSound Proof.DefaultRulesSoundCond.
From DL Require Import Proof.LiftingDefs Proof.LiftingSim Proof.LiftingVisit Proof.LiftingRulesExpr
  Proof.LiftingRulesBlock.
Import ListNotations.
Open Scope N_scope.

(** * The rule's code, the two oracles abstracted *)
Section IfG.
Variable tr : expr -> option bool.
Variable hs : expr -> bool.

Fixpoint if_retain_g (bs : list sbranch) (keep : bool) (repl : option block)
  : list sbranch * bool * option block :=
  match bs with
  | [] => ([], keep, repl)
  | SBranch c b :: rest =>
    if negb keep then if_retain_g rest keep repl
    else
      match tr c with
      | Some true =>
        if hs c then
          let '(k, kp, rp) := if_retain_g rest false repl in (SBranch c b :: k, kp, rp)
        else if_retain_g rest false (Some b)
      | Some false =>
        if hs c then
          let '(k, kp, rp) := if_retain_g rest keep repl in (SBranch c empty_block :: k, kp, rp)
        else if_retain_g rest keep repl
      | None =>
        let '(k, kp, rp) := if_retain_g rest keep repl in (SBranch c b :: k, kp, rp)
      end
  end.

Definition else1 (els : option block) : option block :=
  match els with
  | Some b => if block_is_empty b then None else Some b
  | None => None
  end.

Definition simplify_if_statement_g (bs : list sbranch) (els : option block) : filter_result :=
  let els1 := else1 els in
  let '(kept, keep, repl) := if_retain_g bs true None in
  match kept with
  | [] =>
    match repl with
    | Some blk => if block_is_empty blk then FRemove else FReplace (SDo blk)
    | None =>
      match els1 with
      | Some eb => if block_is_empty eb then FRemove else FReplace (SDo eb)
      | None => FRemove
      end
    end
  | _ => FKeep (SIf kept (if keep then els1 else repl))
  end.

Definition if_filter_g (st : stmt) : filter_result :=
  match st with
  | SIf bs els => simplify_if_statement_g bs els
  | s => FKeep s
  end.

(** [filter_mut_statements] *)
Fixpoint rw_stmts (f : stmt -> filter_result) (ss : list stmt) : list stmt :=
  match ss with
  | [] => []
  | s :: rest =>
    match f s with
    | FKeep s' | FReplace s' => s' :: rw_stmts f rest
    | FRemove => rw_stmts f rest
    end
  end.

Definition rw_if_block_g (b : block) : block :=
  match b with Block ss last => Block (rw_stmts if_filter_g ss) last end.

Fixpoint ifexp_retain_g (bs : list ebranch) (keep : bool) (repl : option expr)
  : list ebranch * bool * option expr :=
  match bs with
  | [] => ([], keep, repl)
  | EBranch c r :: rest =>
    if negb keep then ifexp_retain_g rest keep repl
    else
      match tr c with
      | Some true =>
        if hs c then
          let '(k, kp, rp) := ifexp_retain_g rest false repl in (EBranch c r :: k, kp, rp)
        else ifexp_retain_g rest false (Some r)
      | Some false =>
        if hs c then
          let '(k, kp, rp) := ifexp_retain_g rest keep repl in (EBranch c ENil :: k, kp, rp)
        else ifexp_retain_g rest keep repl
      | None =>
        let '(k, kp, rp) := ifexp_retain_g rest keep repl in (EBranch c r :: k, kp, rp)
      end
  end.

Fixpoint simplify_if_g (c r : expr) (rest : list ebranch) (els : expr) {struct rest} : expr :=
  match tr c with
  | Some true =>
    if hs c then EIf [EBranch c r] ENil else paren_if_multi r
  | Some false =>
    if hs c then EIf (EBranch c ENil :: rest) els
    else match rest with
         | EBranch c2 r2 :: rest' => simplify_if_g c2 r2 rest' els
         | [] => paren_if_multi els
         end
  | None =>
    let '(kept, keep, repl) := ifexp_retain_g rest true None in
    EIf (EBranch c r :: kept)
        (if keep then els else match repl with Some x => x | None => ENil end)
  end.

Definition rw_if_expr_g (e : expr) : expr :=
  match e with
  | EIf (EBranch c r :: rest) els => simplify_if_g c r rest els
  | _ => e
  end.

Definition hooks_if_g : hooks :=
  mkHooks rw_if_block_g (fun s => s) rw_if_expr_g (fun e => e) (fun e => e) (fun e => e) (fun t => t).

End IfG.

(** with the rule's own oracles, this is the rule *)
Definition tr_static (c : expr) : option bool := is_truthy (evaluate c).

Lemma if_retain_g_agrees bs : forall keep repl, if_retain bs keep repl = if_retain_g tr_static hse bs keep repl.
Proof.
  induction bs as [|[c b] bs IH]; intros keep repl; [reflexivity|].
  cbn [if_retain if_retain_g]. unfold tr_static at 1. rewrite !IH. reflexivity.
Qed.

Lemma rw_if_stmts_agrees ss : rw_if_stmts ss = rw_stmts (if_filter_g tr_static hse) ss.
Proof.
  induction ss as [|st ss IH]; [reflexivity|]. cbn [rw_stmts].
  destruct st; cbn [rw_if_stmts if_filter_g]; rewrite ?IH; reflexivity.
Qed.

Lemma ifexp_retain_g_agrees bs : forall keep repl, ifexp_retain bs keep repl = ifexp_retain_g tr_static hse bs keep repl.
Proof.
  induction bs as [|[c r] bs IH]; intros keep repl; [reflexivity|].
  cbn [ifexp_retain ifexp_retain_g]. unfold tr_static at 1. rewrite !IH. reflexivity.
Qed.

Lemma simplify_if_agrees rest : forall c r els, simplify_if c r rest els = simplify_if_g tr_static hse c r rest els.
Proof.
  induction rest as [|[c2 r2] rest IH]; intros c r els; cbn [simplify_if simplify_if_g];
    unfold tr_static at 1; rewrite ?ifexp_retain_g_agrees, ?IH; reflexivity.
Qed.

Theorem if_g_agrees :
  (forall b, h_block hooks_if b = h_block (hooks_if_g tr_static hse) b) /\
  (forall e, h_expr hooks_if e = h_expr (hooks_if_g tr_static hse) e).
Proof.
  split.
  - intros [ss last]. cbn [hooks_if hooks_if_g h_block rw_if_block rw_if_block_g]. now rewrite rw_if_stmts_agrees.
  - intros e. cbn [hooks_if hooks_if_g h_expr]. destruct e; try reflexivity.
Qed.
