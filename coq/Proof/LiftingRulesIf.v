(** C01, LIFTING - remove_unused_if_branch (statement and expression form together, as the rule
    applies them) restricted to LITERAL conditions.

    The rule asks the static evaluator for the truthiness of every condition
    ([is_truthy (evaluate c)]) and for its side effects ([hse c]).  Here the rule's code is
    restated with these two questions as parameters ([*_g tr hs]; [if_g_agrees]: instantiated with
    the rule's own oracles its hooks ARE the rule's hooks, pointwise), and proved whole-program sound for every oracle
    [tr] that answers [Some b] only on conditions that evaluate, in every store, to a value of
    truthiness [b] without touching the store, and that [hs] finds free of side effects
    ([tr_ok]).  The literals [true], [false], [nil], numbers and strings are such conditions
    ([lit_truthy]); the rule's own oracle is sound only under the store invariant [env_plain] and
    up to the fresh allocations of the dropped condition: PARTIAL. *)
From Coq Require Import ZArith NArith List Bool String Lia.
From DL Require Import Lib.Bytes Lib.F64 Lua.Syntax Lua.Sem Model.Evaluator Model.DefaultRules.
From DL Require Import Proof.LoweringFuel.
From DL Require Import Proof.SemFacts Proof.DefaultRulesSem Proof.RefactorSem Proof.RefactorSimA.
From DL Require Import Proof.EvaluatorSound Proof.DefaultRulesSoundCond.
From DL Require Import Proof.LiftingDefs Proof.LiftingSim Proof.LiftingVisit Proof.LiftingRulesExpr
  Proof.LiftingRulesBlock.
Import ListNotations.
Open Scope N_scope.

(** * The rule's code, the two oracles abstracted *)
Section IfG.
Variable tr : expr -> option bool.
Variable hs : expr -> bool.

Fixpoint if_retain_g (bs : list sbranch) (keep : bool) (repl : option block)
  : list sbranch * bool * option block :=
  match bs with
  | [] => ([], keep, repl)
  | SBranch c b :: rest =>
    if negb keep then if_retain_g rest keep repl
    else
      match tr c with
      | Some true =>
        if hs c then
          let '(k, kp, rp) := if_retain_g rest false repl in (SBranch c b :: k, kp, rp)
        else if_retain_g rest false (Some b)
      | Some false =>
        if hs c then
          let '(k, kp, rp) := if_retain_g rest keep repl in (SBranch c empty_block :: k, kp, rp)
        else if_retain_g rest keep repl
      | None =>
        let '(k, kp, rp) := if_retain_g rest keep repl in (SBranch c b :: k, kp, rp)
      end
  end.

Definition else1 (els : option block) : option block :=
  match els with
  | Some b => if block_is_empty b then None else Some b
  | None => None
  end.

Definition simplify_if_statement_g (bs : list sbranch) (els : option block) : filter_result :=
  let els1 := else1 els in
  let '(kept, keep, repl) := if_retain_g bs true None in
  match kept with
  | [] =>
    match repl with
    | Some blk => if block_is_empty blk then FRemove else FReplace (SDo blk)
    | None =>
      match els1 with
      | Some eb => if block_is_empty eb then FRemove else FReplace (SDo eb)
      | None => FRemove
      end
    end
  | _ => FKeep (SIf kept (if keep then els1 else repl))
  end.

Definition if_filter_g (st : stmt) : filter_result :=
  match st with
  | SIf bs els => simplify_if_statement_g bs els
  | s => FKeep s
  end.

(** [filter_mut_statements] *)
Fixpoint rw_stmts (f : stmt -> filter_result) (ss : list stmt) : list stmt :=
  match ss with
  | [] => []
  | s :: rest =>
    match f s with
    | FKeep s' | FReplace s' => s' :: rw_stmts f rest
    | FRemove => rw_stmts f rest
    end
  end.

Definition rw_if_block_g (b : block) : block :=
  match b with Block ss last => Block (rw_stmts if_filter_g ss) last end.

Fixpoint ifexp_retain_g (bs : list ebranch) (keep : bool) (repl : option expr)
  : list ebranch * bool * option expr :=
  match bs with
  | [] => ([], keep, repl)
  | EBranch c r :: rest =>
    if negb keep then ifexp_retain_g rest keep repl
    else
      match tr c with
      | Some true =>
        if hs c then
          let '(k, kp, rp) := ifexp_retain_g rest false repl in (EBranch c r :: k, kp, rp)
        else ifexp_retain_g rest false (Some r)
      | Some false =>
        if hs c then
          let '(k, kp, rp) := ifexp_retain_g rest keep repl in (EBranch c ENil :: k, kp, rp)
        else ifexp_retain_g rest keep repl
      | None =>
        let '(k, kp, rp) := ifexp_retain_g rest keep repl in (EBranch c r :: k, kp, rp)
      end
  end.

Fixpoint simplify_if_g (c r : expr) (rest : list ebranch) (els : expr) {struct rest} : expr :=
  match tr c with
  | Some true =>
    if hs c then EIf [EBranch c r] ENil else paren_if_multi r
  | Some false =>
    if hs c then EIf (EBranch c ENil :: rest) els
    else match rest with
         | EBranch c2 r2 :: rest' => simplify_if_g c2 r2 rest' els
         | [] => paren_if_multi els
         end
  | None =>
    let '(kept, keep, repl) := ifexp_retain_g rest true None in
    EIf (EBranch c r :: kept)
        (if keep then els else match repl with Some x => x | None => ENil end)
  end.

Definition rw_if_expr_g (e : expr) : expr :=
  match e with
  | EIf (EBranch c r :: rest) els => simplify_if_g c r rest els
  | _ => e
  end.

Definition hooks_if_g : hooks :=
  mkHooks rw_if_block_g (fun s => s) rw_if_expr_g (fun e => e) (fun e => e) (fun e => e) (fun t => t).

End IfG.

(** with the rule's own oracles, this is the rule *)
Definition tr_static (c : expr) : option bool := is_truthy (evaluate c).

Lemma if_retain_g_agrees bs : forall keep repl, if_retain bs keep repl = if_retain_g tr_static hse bs keep repl.
Proof.
  induction bs as [|[c b] bs IH]; intros keep repl; [reflexivity|].
  cbn [if_retain if_retain_g]. unfold tr_static at 1. rewrite !IH. reflexivity.
Qed.

Lemma rw_if_stmts_agrees ss : rw_if_stmts ss = rw_stmts (if_filter_g tr_static hse) ss.
Proof.
  induction ss as [|st ss IH]; [reflexivity|]. cbn [rw_stmts].
  destruct st; cbn [rw_if_stmts if_filter_g]; rewrite ?IH; reflexivity.
Qed.

Lemma ifexp_retain_g_agrees bs : forall keep repl, ifexp_retain bs keep repl = ifexp_retain_g tr_static hse bs keep repl.
Proof.
  induction bs as [|[c r] bs IH]; intros keep repl; [reflexivity|].
  cbn [ifexp_retain ifexp_retain_g]. unfold tr_static at 1. rewrite !IH. reflexivity.
Qed.

Lemma simplify_if_agrees rest : forall c r els, simplify_if c r rest els = simplify_if_g tr_static hse c r rest els.
Proof.
  induction rest as [|[c2 r2] rest IH]; intros c r els; cbn [simplify_if simplify_if_g];
    unfold tr_static at 1; rewrite ?ifexp_retain_g_agrees, ?IH; reflexivity.
Qed.

Theorem if_g_agrees :
  (forall b, h_block hooks_if b = h_block (hooks_if_g tr_static hse) b) /\
  (forall e, h_expr hooks_if e = h_expr (hooks_if_g tr_static hse) e).
Proof.
  split.
  - intros [ss last]. cbn [hooks_if hooks_if_g h_block rw_if_block rw_if_block_g]. now rewrite rw_if_stmts_agrees.
  - intros e. cbn [hooks_if hooks_if_g h_expr]. destruct e; try reflexivity.
Qed.

(** * Soundness for a sound oracle *)

(** what [FKeep s'] / [FReplace s'] / [FRemove] must mean for the statement they answer on *)
Definition filter_ok (d : dialect) (st : stmt) (fr : filter_result) : Prop :=
  match fr with
  | FKeep s' | FReplace s' => forall n rho va, refines (exec_stmt d n rho va st) (exec_stmt d n rho va s')
  | FRemove => forall n rho va, refines (exec_stmt d n rho va st) (ret (rho, SigNone))
  end.

Section RwStmts.
Variable d : dialect.
Variable f : stmt -> filter_result.
Hypothesis f_ok : forall st, filter_ok d st (f st).

Lemma rw_stmts_refines ss : forall n rho va last,
  refines (exec_stmts d n rho va ss last) (exec_stmts d n rho va (rw_stmts f ss) last).
Proof.
  induction ss as [|st rest IHr]; intros n rho va last; [apply refines_refl|].
  destruct n as [|n]; [apply refines_fuel|]. cbn [rw_stmts].
  pose proof (f_ok st) as Hst. destruct (f st) as [s'| |s']; cbn [filter_ok] in Hst.
  - rewrite !exec_stmts_S_cons. apply refines_bind; [apply Hst|]. intros [rho1 sg1]. cbn [stmts_cont].
    destruct sg1; try apply refines_refl. apply IHr.
  - rewrite exec_stmts_S_cons. eapply refines_bind_const; [apply Hst|]. cbn [stmts_cont].
    eapply refines_trans; [apply IHr|]. apply exec_stmts_refines_le. lia.
  - rewrite !exec_stmts_S_cons. apply refines_bind; [apply Hst|]. intros [rho1 sg1]. cbn [stmts_cont].
    destruct sg1; try apply refines_refl. apply IHr.
Qed.

Lemma rw_stmts_block ss last n rho va :
  refines (exec_block d n rho va (Block ss last)) (exec_block d n rho va (Block (rw_stmts f ss) last)).
Proof. destruct n as [|n]; [apply refines_fuel|]. rewrite !exec_block_S. apply rw_stmts_refines. Qed.

Lemma rw_stmts_repeat_go n va last ss : forall rho,
  refines (repeat_go d n va last ss rho) (repeat_go d n va last (rw_stmts f ss) rho).
Proof.
  induction ss as [|st rest IHr]; intros rho; [apply refines_refl|].
  cbn [rw_stmts]. pose proof (f_ok st) as Hst. destruct (f st) as [s'| |s']; cbn [filter_ok] in Hst.
  - rewrite !repeat_go_cons. apply refines_bind; [apply Hst|]. intros [rho1 sg1].
    destruct sg1; try apply refines_refl. apply IHr.
  - rewrite repeat_go_cons. eapply refines_bind_const; [apply Hst|]. apply IHr.
  - rewrite !repeat_go_cons. apply refines_bind; [apply Hst|]. intros [rho1 sg1].
    destruct sg1; try apply refines_refl. apply IHr.
Qed.

Lemma rw_stmts_repeat ss last c : forall n rho va,
  refines (exec_repeat d n rho va (Block ss last) c) (exec_repeat d n rho va (Block (rw_stmts f ss) last) c).
Proof.
  induction n as [|n IHn]; intros rho va; [apply refines_fuel|]. rewrite !exec_repeat_S.
  apply refines_bind; [apply rw_stmts_repeat_go|]. intros [rho1 sg1].
  destruct sg1; try apply refines_refl; apply refines_bind_l; intros cv; destruct (truthy cv);
    try apply refines_refl; apply IHn.
Qed.

End RwStmts.

Section IfSound.
Variable d : dialect.
Variable tr : expr -> option bool.
Variable hs : expr -> bool.

(** the oracle answers only on store-independent, store-preserving constants *)
Definition tr_ok : Prop :=
  forall c b, tr c = Some b ->
    hs c = false /\ exists v, truthy v = b /\ forall n rho va, refines (eval1 d n rho va c) (ret v).
Hypothesis Htr : tr_ok.

Lemma if_retain_g_closed bs repl : if_retain_g tr hs bs false repl = ([], false, repl).
Proof. induction bs as [|[c b] bs IH]; [reflexivity|]. cbn [if_retain_g negb]. exact IH. Qed.

Lemma sif_retain : forall bs r0 kept kp rp,
  if_retain_g tr hs bs true r0 = (kept, kp, rp) ->
  (kp = true -> rp = r0) /\ (kp = false -> exists b, rp = Some b) /\
  forall n rho va els,
    refines (sif_go d n rho va els bs) (sif_go d n rho va (if kp then els else rp) kept).
Proof.
  induction bs as [|[c b] rest IH]; intros r0 kept kp rp E.
  - cbn in E. inversion E; subst. split; [reflexivity|]. split; [discriminate|].
    intros; apply refines_refl.
  - cbn [if_retain_g negb] in E. destruct (tr c) as [[|]|] eqn:Et.
    + destruct (Htr _ _ Et) as (Hh & v & Hv & Hc). rewrite Hh in E.
      rewrite if_retain_g_closed in E. inversion E; subst.
      split; [discriminate|]. split; [eauto|].
      intros n rho va els. rewrite sif_go_cons, sif_go_nil.
      eapply refines_bind_const; [apply Hc|]. rewrite Hv. apply refines_refl.
    + destruct (Htr _ _ Et) as (Hh & v & Hv & Hc). rewrite Hh in E.
      destruct (IH _ _ _ _ E) as (H1 & H2 & H3). split; [exact H1|]. split; [exact H2|].
      intros n rho va els. rewrite sif_go_cons.
      eapply refines_bind_const; [apply Hc|]. rewrite Hv. apply H3.
    + destruct (if_retain_g tr hs rest true r0) as [[k kp'] rp'] eqn:E'. inversion E; subst.
      destruct (IH _ _ _ _ E') as (H1 & H2 & H3). split; [exact H1|]. split; [exact H2|].
      intros n rho va els. rewrite !sif_go_cons. apply refines_bind_l. intros cv.
      destruct (truthy cv); [apply refines_refl|apply H3].
Qed.

Lemma block_is_empty_eq b : block_is_empty b = true -> b = empty_block.
Proof. destruct b as [[|x ss] [l|]]; try discriminate. reflexivity. Qed.

Lemma else1_refines n rho va els bs :
  refines (sif_go d n rho va els bs) (sif_go d n rho va (else1 els) bs).
Proof.
  destruct els as [b|]; [|apply refines_refl]. cbn [else1].
  destruct (block_is_empty b) eqn:Eb; [|apply refines_refl].
  apply block_is_empty_eq in Eb. subst b. intros s Hf. apply sif_go_empty_else; [reflexivity|exact Hf].
Qed.

Lemma empty_block_refines n rho va : refines (exec_block d n rho va empty_block) (ret SigNone).
Proof.
  destruct n as [|[|n]]; try (intros s Hf; exfalso; apply Hf; reflexivity). intros s _. reflexivity.
Qed.

Lemma if_to_none bs els : (forall n rho va, refines (sif_go d n rho va els bs) (ret SigNone)) ->
  forall n rho va, refines (exec_stmt d n rho va (SIf bs els)) (ret (rho, SigNone)).
Proof.
  intros H n rho va. destruct n as [|n]; [apply refines_fuel|]. rewrite exec_stmt_S_if.
  eapply refines_bind_const; [apply H|apply refines_refl].
Qed.

Lemma if_to_do bs els blk : (forall n rho va, refines (sif_go d n rho va els bs) (exec_block d n rho va blk)) ->
  forall n rho va, refines (exec_stmt d n rho va (SIf bs els)) (exec_stmt d n rho va (SDo blk)).
Proof.
  intros H n rho va. destruct n as [|n]; [apply refines_fuel|]. rewrite exec_stmt_S_if, exec_stmt_S_do.
  apply refines_bind; [apply H|intros; apply refines_refl].
Qed.

Lemma if_to_if bs els bs' els' : (forall n rho va, refines (sif_go d n rho va els bs) (sif_go d n rho va els' bs')) ->
  forall n rho va, refines (exec_stmt d n rho va (SIf bs els)) (exec_stmt d n rho va (SIf bs' els')).
Proof.
  intros H n rho va. destruct n as [|n]; [apply refines_fuel|]. rewrite !exec_stmt_S_if.
  apply refines_bind; [apply H|intros; apply refines_refl].
Qed.

Lemma do_or_remove bs els blk :
  (forall n rho va, refines (sif_go d n rho va els bs) (exec_block d n rho va blk)) ->
  filter_ok d (SIf bs els) (if block_is_empty blk then FRemove else FReplace (SDo blk)).
Proof.
  intros H. destruct (block_is_empty blk) eqn:Eb; cbn [filter_ok].
  - apply block_is_empty_eq in Eb. subst blk. apply if_to_none. intros n rho va.
    eapply refines_trans; [apply H|apply empty_block_refines].
  - now apply if_to_do.
Qed.

Lemma simplify_if_statement_ok bs els : filter_ok d (SIf bs els) (simplify_if_statement_g tr hs bs els).
Proof.
  unfold simplify_if_statement_g.
  destruct (if_retain_g tr hs bs true None) as [[kept kp] rp] eqn:E.
  destruct (sif_retain _ _ _ _ _ E) as (H1 & H2 & H3).
  assert (Hgo : forall n rho va,
            refines (sif_go d n rho va els bs) (sif_go d n rho va (if kp then else1 els else rp) kept)).
  { intros n rho va. eapply refines_trans; [apply else1_refines|apply H3]. }
  destruct kept as [|x kept].
  - destruct rp as [blk|].
    + destruct kp; [specialize (H1 eq_refl); discriminate H1|].
      apply do_or_remove. intros n rho va. specialize (Hgo n rho va). rewrite sif_go_nil in Hgo. exact Hgo.
    + destruct kp; [|destruct (H2 eq_refl) as [b Hb]; discriminate Hb].
      destruct (else1 els) as [eb|] eqn:Ee.
      * apply do_or_remove. intros n rho va. specialize (Hgo n rho va). rewrite sif_go_nil in Hgo. exact Hgo.
      * cbn [filter_ok]. apply if_to_none. intros n rho va. specialize (Hgo n rho va).
        rewrite sif_go_nil in Hgo. exact Hgo.
  - cbn [filter_ok]. now apply if_to_if.
Qed.

Lemma if_filter_ok st : filter_ok d st (if_filter_g tr hs st).
Proof.
  destruct st; try (cbn [if_filter_g filter_ok]; intros; apply refines_refl).
  apply simplify_if_statement_ok.
Qed.

(** ** expression form *)

Lemma ifexp_retain_g_closed bs repl : ifexp_retain_g tr hs bs false repl = ([], false, repl).
Proof. induction bs as [|[c r] bs IH]; [reflexivity|]. cbn [ifexp_retain_g negb]. exact IH. Qed.

Definition repl_expr (rp : option expr) : expr := match rp with Some x => x | None => ENil end.

Lemma eif_retain : forall bs r0 kept kp rp,
  ifexp_retain_g tr hs bs true r0 = (kept, kp, rp) ->
  forall n rho va els,
    refines (if_go d n rho va els bs) (if_go d n rho va (if kp then els else repl_expr rp) kept).
Proof.
  induction bs as [|[c r] rest IH]; intros r0 kept kp rp E.
  - cbn in E. inversion E; subst. intros; apply refines_refl.
  - cbn [ifexp_retain_g negb] in E. destruct (tr c) as [[|]|] eqn:Et.
    + destruct (Htr _ _ Et) as (Hh & v & Hv & Hc). rewrite Hh in E.
      rewrite ifexp_retain_g_closed in E. inversion E; subst.
      intros n rho va els. rewrite if_go_cons, if_go_nil.
      eapply refines_bind_const; [apply Hc|]. rewrite Hv. apply refines_refl.
    + destruct (Htr _ _ Et) as (Hh & v & Hv & Hc). rewrite Hh in E.
      intros n rho va els. rewrite if_go_cons.
      eapply refines_bind_const; [apply Hc|]. rewrite Hv. now apply (IH _ _ _ _ E).
    + destruct (ifexp_retain_g tr hs rest true r0) as [[k kp'] rp'] eqn:E'. inversion E; subst.
      intros n rho va els. rewrite !if_go_cons. apply refines_bind_l. intros cv.
      destruct (truthy cv); [apply refines_refl|now apply (IH _ _ _ _ E')].
Qed.

(** [r] in a single-value position and [r], parenthesised when it may yield several values *)
Lemma paren_refines n rho va r :
  refines (v <- eval1 d n rho va r ;; ret [v]) (eval d (S n) rho va (paren_if_multi r)).
Proof.
  unfold paren_if_multi. destruct (can_return_multiple_values r) eqn:Ec.
  - rewrite eval_S_paren. apply refines_refl.
  - destruct n as [|n]; [apply refines_fuel|]. rewrite eval1_S. intros s Hf. unfold bind in *.
    pose proof (eval_refines_le d n (S (S n)) rho va r ltac:(lia) s) as Hm.
    destruct (eval d n rho va r s) as [vs s1|e s1| |w] eqn:E; try (exfalso; apply Hf; reflexivity);
      rewrite Hm by discriminate; try reflexivity.
    pose proof (single_sound _ _ _ _ _ _ _ _ Ec E) as Hl.
    destruct vs as [|w [|w2 vs]]; try discriminate Hl. reflexivity.
Qed.

Lemma simplify_if_ok : forall rest c r els n rho va,
  refines (eval d n rho va (EIf (EBranch c r :: rest) els)) (eval d n rho va (simplify_if_g tr hs c r rest els)).
Proof.
  induction rest as [|[c2 r2] rest IH]; intros c r els n rho va;
    (destruct n as [|n]; [apply refines_fuel|]); cbn [simplify_if_g];
    destruct (tr c) as [[|]|] eqn:Et;
    try (destruct (Htr _ _ Et) as (Hh & v & Hv & Hc); rewrite Hh).
  - rewrite eval_S_if, if_go_cons. eapply refines_bind_const; [apply Hc|]. rewrite Hv. apply paren_refines.
  - rewrite eval_S_if, if_go_cons. eapply refines_bind_const; [apply Hc|]. rewrite Hv. rewrite if_go_nil.
    apply paren_refines.
  - cbn [ifexp_retain_g]. apply refines_refl.
  - rewrite eval_S_if, if_go_cons. eapply refines_bind_const; [apply Hc|]. rewrite Hv. apply paren_refines.
  - rewrite eval_S_if, if_go_cons. eapply refines_bind_const; [apply Hc|]. rewrite Hv.
    rewrite <- eval_S_if. apply IH.
  - destruct (ifexp_retain_g tr hs (EBranch c2 r2 :: rest) true None) as [[k kp] rp] eqn:E.
    rewrite !eval_S_if, !if_go_cons. apply refines_bind_l. intros cv.
    destruct (truthy cv); [apply refines_refl|]. now apply (eif_retain _ _ _ _ _ E).
Qed.

Lemma rw_if_expr_ok e n rho va : refines (eval d n rho va e) (eval d n rho va (rw_if_expr_g tr hs e)).
Proof.
  destruct e; try apply refines_refl. destruct branches as [|[c r] rest]; [apply refines_refl|].
  cbn [rw_if_expr_g]. apply simplify_if_ok.
Qed.

(** ** the rule *)

Lemma hooks_if_g_ok :
  hooks_ok (fun e e1 => e1 = rw_if_expr_g tr hs e) Rnone Rnone Rnone (fun b b1 => b1 = rw_if_block_g tr hs b)
           (hooks_if_g tr hs).
Proof.
  constructor; cbn [hooks_if_g h_expr h_prefix h_var h_call h_table h_stmt h_block].
  - intros e e' Hg. eapply cr_e_rw; [reflexivity|].
    replace (rw_if_expr_g tr hs e) with (call_hook (hooks_if_g tr hs) (rw_if_expr_g tr hs e)); [exact Hg|].
    destruct (rw_if_expr_g tr hs e); reflexivity.
  - intros e e' Hg. apply cr_e_same. destruct e; exact Hg.
  - apply id_ok_v.
  - apply id_ok_e.
  - apply id_ok_t.
  - apply id_ok_s.
  - intros b b' Hg. eapply cr_b_rw; [reflexivity|exact Hg].
Qed.

Theorem lifting_if_g : forall n orc b out,
  run_chunk d n orc b = out -> out <> OutFuel ->
  run_chunk d n orc (apply_hooks (hooks_if_g tr hs) b) = out.
Proof.
  intros n orc b out.
  apply (lifting_apply_hooks (fun e e1 => e1 = rw_if_expr_g tr hs e) Rnone Rnone Rnone
                             (fun b b1 => b1 = rw_if_block_g tr hs b) d); try (intros ? ? []; fail).
  - intros e e1 ->. intros; apply rw_if_expr_ok.
  - intros b0 b1 ->. intros k rho va. destruct b0 as [ss last]. apply rw_stmts_block. apply if_filter_ok.
  - intros b0 b1 ->. intros k rho va c. destruct b0 as [ss last]. apply rw_stmts_repeat. apply if_filter_ok.
  - apply hooks_if_g_ok.
Qed.

End IfSound.

(** * Literal conditions *)

Definition lit_truthy (c : expr) : option bool :=
  match c with
  | ETrue | ENumber _ | EString _ => Some true
  | EFalse | ENil => Some false
  | _ => None
  end.

(** the literal oracle answers as the rule's own *)
Lemma lit_truthy_static c b : lit_truthy c = Some b -> tr_static c = Some b /\ hse c = false.
Proof. destruct c; cbn; intros H; inversion H; subst; split; reflexivity. Qed.

Lemma lit_truthy_ok d : tr_ok d lit_truthy hse.
Proof.
  intros c b H. split; [exact (proj2 (lit_truthy_static c b H))|].
  destruct c; try discriminate H; cbn in H; inversion H; subst.
  - exists VNil. split; [reflexivity|]. intros [|[|n]] rho va s Hf; try (exfalso; apply Hf; reflexivity); reflexivity.
  - exists (VBool true). split; [reflexivity|]. intros [|[|n]] rho va s Hf; try (exfalso; apply Hf; reflexivity); reflexivity.
  - exists (VBool false). split; [reflexivity|]. intros [|[|n]] rho va s Hf; try (exfalso; apply Hf; reflexivity); reflexivity.
  - exists (VNum (number_value n)). split; [reflexivity|]. intros [|[|k]] rho va s Hf; try (exfalso; apply Hf; reflexivity); reflexivity.
  - exists (VStr s). split; [reflexivity|]. intros [|[|k]] rho va s0 Hf; try (exfalso; apply Hf; reflexivity); reflexivity.
Qed.

(** the rule with the static evaluator answering only on literal conditions *)
Definition rule_remove_unused_if_branch_literal : block -> block := apply_hooks (hooks_if_g lit_truthy hse).

Theorem lifting_remove_unused_if_branch_literal : forall d n orc b out,
  run_chunk d n orc b = out -> out <> OutFuel ->
  run_chunk d n orc (rule_remove_unused_if_branch_literal b) = out.
Proof. intros d. apply (lifting_if_g d lit_truthy hse). apply lit_truthy_ok. Qed.

(** the rule itself, on programs in which every condition it decides is a literal *)
Theorem lifting_remove_unused_if_branch_partial : forall d n orc b out,
  rule_remove_unused_if_branch b = rule_remove_unused_if_branch_literal b ->
  run_chunk d n orc b = out -> out <> OutFuel ->
  run_chunk d n orc (rule_remove_unused_if_branch b) = out.
Proof. intros d n orc b out ->. apply lifting_remove_unused_if_branch_literal. Qed.
