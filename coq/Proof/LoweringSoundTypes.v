(** C06, remove_types at block level: dropping the type declarations of a block
    ([process_block]) does not change what the block does. *)
From Coq Require Import ZArith NArith List Bool String Lia.
From DL Require Import Lib.Bytes Lib.F64 Lua.Syntax Lua.Sem Proof.SemFacts Proof.LoweringFuel
  Proof.LoweringSoundBasic Model.Visit Model.Lowering.
Import ListNotations.
Open Scope N_scope.

Lemma exec_stmts_S_cons d n rho va st rest last :
  exec_stmts d (S n) rho va (st :: rest) last =
  ('(rho', sg) <- exec_stmt d n rho va st ;;
   match sg with
   | SigNone => exec_stmts d n rho' va rest last
   | _ => ret sg
   end).
Proof. reflexivity. Qed.

Lemma exec_block_S d n rho va ss last :
  exec_block d (S n) rho va (Block ss last) = exec_stmts d n rho va ss last.
Proof. reflexivity. Qed.

Lemma type_stmt_noop d n rho va st s r s' : is_type_stmt st = true ->
  exec_stmt d n rho va st s = Ok r s' -> r = (rho, SigNone) /\ s' = s.
Proof.
  intros T H. destruct n; [discriminate H|]. destruct st; try discriminate T; cbn in H; inversion H; auto.
Qed.

Theorem types_stmts_sound : forall d ss n rho va last s r s',
  exec_stmts d n rho va ss last s = Ok r s' ->
  exists n', exec_stmts d n' rho va (filter (fun st => negb (is_type_stmt st)) ss) last s = Ok r s'.
Proof.
  intros d ss. induction ss as [|st rest IH]; intros n rho va last s r s' H.
  - exists n. exact H.
  - destruct n as [|n]; [discriminate H|]. rewrite exec_stmts_S_cons in H.
    apply bind_ok in H as ([rho1 sg] & s1 & Hst & H). cbn [filter].
    destruct (is_type_stmt st) eqn:T; cbn [negb].
    + destruct (type_stmt_noop _ _ _ _ _ _ _ _ T Hst) as [E ->]. inversion E; subst. eapply IH. exact H.
    + destruct sg.
      * destruct (IH _ _ _ _ _ _ _ H) as (n' & Hn').
        exists (S (n + n')). rewrite exec_stmts_S_cons.
        erewrite bind_eq; [|eapply exec_stmt_mono; [|exact Hst]; lia].
        cbv beta iota. eapply exec_stmts_mono; [|exact Hn']. lia.
      * exists (S n). rewrite exec_stmts_S_cons. erewrite bind_eq; [|exact Hst]. exact H.
      * exists (S n). rewrite exec_stmts_S_cons. erewrite bind_eq; [|exact Hst]. exact H.
      * exists (S n). rewrite exec_stmts_S_cons. erewrite bind_eq; [|exact Hst]. exact H.
Qed.

Theorem types_block_sound : forall d n rho va b s r s',
  exec_block d n rho va b s = Ok r s' ->
  exists n', exec_block d n' rho va (rw_types_block b) s = Ok r s'.
Proof.
  intros d n rho va [ss last] s r s' H. destruct n as [|n]; [discriminate H|]. rewrite exec_block_S in H.
  destruct (types_stmts_sound _ _ _ _ _ _ _ _ _ H) as (n' & Hn').
  exists (S n'). cbn [rw_types_block]. rewrite exec_block_S. exact Hn'.
Qed.

Example types_block_example :
  let b := Block [STypeDecl false [84] None (TyNode 0 [] []); SLocal false [Param [120] None] [ETrue]]
                 (Some (LReturn [EIdent [120]])) in
  rw_types_block b = Block [SLocal false [Param [120] None] [ETrue]] (Some (LReturn [EIdent [120]])) /\
  exists s', exec_block Luau 8 [] [] b (initial_store []) = Ok (SigReturn [VBool true]) s' /\
             exec_block Luau 8 [] [] (rw_types_block b) (initial_store []) = Ok (SigReturn [VBool true]) s'.
Proof. split; [reflexivity|]. vm_compute. eexists. split; reflexivity. Qed.
