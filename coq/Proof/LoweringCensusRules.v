(** C07 for the rules modelled in Model/Lowering.v: per rule the three facts the generic
    theorems of Proof/LoweringCensusVisit.v ask of its hooks -
      (w) the hooks do not increase the size measure,
      (r) the root of a rewritten node carries no occurrence of the rule's construct,
      (z) the hooks introduce no occurrence of any of the nine constructs into a tree free of it -
    and from them [removes_*], [preserves_*] and the composition theorem [all_lowered]. *)
From Coq Require Import ZArith NArith List Bool Lia ZifyBool ZifyN ZifyNat.
From DL Require Import Lib.Bytes Lua.Syntax Lua.Census Model.Evaluator Model.Visit Model.Lowering
  Proof.LoweringCensusBase Proof.LoweringCensusKids Proof.LoweringCensusVisit.
Import ListNotations.
Local Open Scope nat_scope.

(** * Helpers *)
Lemma tyfree_ne7 i l : u i 7 = 0%N -> tyfree i l.
Proof. intros E c _. destruct c; auto. Qed.

Definition kt_free (l : list kid) : Prop := forall c, In c l -> match c with KT _ => False | _ => True end.

Lemma kt_free_tyfree i l : kt_free l -> tyfree i l.
Proof. intros K c Hc. specialize (K c Hc). destruct c; auto; contradiction. Qed.
Lemma kt_free_nil : kt_free []. Proof. intros c []. Qed.
Lemma kt_free_app a b : kt_free a -> kt_free b -> kt_free (a ++ b).
Proof. intros A B c Hc. apply in_app_or in Hc as [Hc|Hc]; [apply A|apply B]; exact Hc. Qed.
Lemma kt_free_cons c l : match c with KT _ => False | _ => True end -> kt_free l -> kt_free (c :: l).
Proof. intros A B x [<-|Hx]; [exact A|apply B, Hx]. Qed.
Lemma kt_free_map_KE es : kt_free (map KE es).
Proof. intros c Hc. apply in_map_iff in Hc as (x & <- & _). exact I. Qed.
Lemma kt_free_map_KV es : kt_free (map KV es).
Proof. intros c Hc. apply in_map_iff in Hc as (x & <- & _). exact I. Qed.
Lemma kt_free_flat_map {A} (g : A -> list kid) l : (forall x, kt_free (g x)) -> kt_free (flat_map g l).
Proof. intros G c Hc. apply in_flat_map in Hc as (x & _ & Hc). exact (G x c Hc). Qed.
Lemma kt_free_tentries en : kt_free (flat_map kids_tentry en).
Proof. apply kt_free_flat_map. intros [f v|k v|v] c Hc; cbn in Hc; intuition (subst; exact I). Qed.
Lemma kt_free_args a : kt_free (kids_args a).
Proof. destruct a; cbn [kids_args]; [apply kt_free_map_KE|apply kt_free_nil|apply kt_free_tentries]. Qed.

Ltac kt :=
  repeat first [ apply kt_free_nil | apply kt_free_map_KE | apply kt_free_map_KV | apply kt_free_tentries
               | apply kt_free_args | apply kt_free_app | apply kt_free_cons; [exact I|] ].

(** the root of a node that is not the construct of index [i] *)
Ltac root0 :=
  cbn [root_expr root_stmt root_last attrs_root];
  repeat (match goal with
          | |- context [if ?c then _ else _] => destruct c
          | |- context [match ?op with BAnd => _ | _ => _ end] => destruct op
          | f : fbody |- _ => destruct f
          end; cbn [root_expr root_stmt root_last attrs_root]); try reflexivity.

Lemma root_prefix_form i e : u i 7 = 0%N -> is_prefix_form e = true -> root_expr i e = 0%N.
Proof. intros U E. destruct e; try discriminate E; try reflexivity. exact U. Qed.

Lemma le_zero (a b : N) : (a <= b)%N -> b = 0%N -> a = 0%N.
Proof. lia. Qed.
Lemma le2_zero (a b : N) : (a <= 2 * b)%N -> b = 0%N -> a = 0%N.
Proof. lia. Qed.

Definition id_stmt_hook (g : stmt -> stmt) : nat -> stmt -> stmt * nat := fun k s => (g s, k).

(** the generic theorems, for a rule = the traversal with fuel [w_block b], read on [feature] *)
Lemma removes_rule i H (okS : stmt -> Prop) : i < 9 -> hooks_w H ->
  (forall e, root_expr i (h_expr H e) = 0%N /\ tyfree i (kids_expr (h_expr H e))) ->
  (forall e, is_prefix_form e = true -> root_expr i (h_prefix H e) = 0%N /\ tyfree i (kids_expr (h_prefix H e))) ->
  (forall k s, okS s -> root_stmt i (fst (h_stmt H k s)) = 0%N /\ tyfree i (kids_stmt (fst (h_stmt H k s)))) ->
  (forall b, match h_block H b with
             | Block ss last => (forall s, In s ss -> okS s) /\ (forall l, last = Some l -> root_last i l = 0%N)
             end) ->
  forall b, feature i (run_rule H b) = 0%N.
Proof.
  intros Hi HW Re Rp Rs Rb b. rewrite feature_f_block by exact Hi. unfold run_rule.
  destruct (visit_removes i H okS HW Re Rp Rs Rb (w_block b)) as (_ & _ & _ & _ & _ & _ & G).
  apply G; [exact I|lia].
Qed.

Lemma preserves_rule j H : j < 9 -> hooks_w H ->
  (forall e, f_expr j e = 0%N -> f_expr j (h_expr H e) = 0%N) ->
  (forall e, f_expr j e = 0%N -> f_expr j (h_prefix H e) = 0%N) ->
  (forall k s, f_stmt j s = 0%N -> f_stmt j (fst (h_stmt H k s)) = 0%N) ->
  (forall b, f_block j b = 0%N -> f_block j (h_block H b) = 0%N) ->
  forall b, feature j b = 0%N -> feature j (run_rule H b) = 0%N.
Proof.
  intros Hj HW Ze Zp Zs Zb b Z. rewrite feature_f_block in * by exact Hj. unfold run_rule.
  destruct (visit_preserves j H HW Ze Zp Zs Zb (w_block b)) as (_ & _ & _ & _ & _ & _ & G).
  apply G; [exact Z|lia].
Qed.

(** the last statement of a block carries no construct other than [continue] *)
Lemma id_block_ok i (okS : stmt -> Prop) : u i 1 = 0%N -> (forall s, okS s) -> forall b : block,
  match b with
  | Block ss last => (forall s, In s ss -> okS s) /\ (forall l, last = Some l -> root_last i l = 0%N)
  end.
Proof. intros U A [ss last]. split; [intros; apply A|]. intros l _. destruct l; try reflexivity. exact U. Qed.

(** * remove_if_expression *)
Lemma w_wrap_in_table e : w_expr (wrap_in_table e) <= 3 + w_expr e.
Proof. unfold wrap_in_table. destruct (can_return_multiple_values e); wsimp; lia. Qed.

Lemma w_convert c r acc : w_expr (convert_if_branch c r acc) <= 12 + (w_expr c + w_expr r) + w_expr acc.
Proof.
  unfold convert_if_branch. pose proof (w_wrap_in_table r). pose proof (w_wrap_in_table acc).
  destruct (is_truthy (evaluate r)) as [[|]|]; unfold num_one; wsimp; lia.
Qed.

Lemma w_if_fold els bs :
  w_expr (fold_right (fun b acc => match b with EBranch c r => convert_if_branch c r acc end) els bs)
  <= sum (map w_ebranch bs) + w_expr els.
Proof.
  induction bs as [|[c r] bs IH]; cbn [fold_right map]; [cbn; lia|].
  rewrite sum_cons. cbn [w_ebranch].
  pose proof (w_convert c r (fold_right (fun b acc => match b with EBranch c r => convert_if_branch c r acc end) els bs)).
  lia.
Qed.

Lemma w_rw_if e : w_expr (rw_if_expression e) <= w_expr e.
Proof.
  destruct e; try (cbn [rw_if_expression]; lia). unfold rw_if_expression.
  destruct branches as [|b bs]; [wsimp; lia|weq].
  pose proof (w_if_fold e (b :: bs)). lia.
Qed.

Lemma f_wrap_in_table j e : f_expr j (wrap_in_table e) = f_expr j e.
Proof. unfold wrap_in_table. destruct (can_return_multiple_values e); fsimp j; lia. Qed.

Lemma f_convert j c r acc : f_expr j (convert_if_branch c r acc) = (f_expr j c + f_expr j r + f_expr j acc)%N.
Proof.
  unfold convert_if_branch.
  destruct (is_truthy (evaluate r)) as [[|]|]; unfold num_one; fsimp j; cbn [luau_number]; rewrite ?f_wrap_in_table; lia.
Qed.

Lemma f_if_fold j els bs :
  f_expr j (fold_right (fun b acc => match b with EBranch c r => convert_if_branch c r acc end) els bs)
  = (sumN (map (f_ebranch j) bs) + f_expr j els)%N.
Proof.
  induction bs as [|[c r] bs IH]; cbn [fold_right map]; [cbn; lia|].
  rewrite f_convert, IH, sumN_cons. cbn [f_ebranch]. lia.
Qed.

Lemma f_rw_if j e : (f_expr j (rw_if_expression e) <= f_expr j e)%N.
Proof.
  destruct e; try (cbn [rw_if_expression]; lia). unfold rw_if_expression.
  destruct branches as [|b bs]; [fsimp j; lia|feq].
  rewrite f_if_fold. lia.
Qed.

Lemma root_convert i c r acc : root_expr i (convert_if_branch c r acc) = 0%N.
Proof. unfold convert_if_branch. destruct (is_truthy (evaluate r)) as [[|]|]; reflexivity. Qed.

Lemma root_rw_if e : root_expr 2 (rw_if_expression e) = 0%N.
Proof.
  destruct e; try (cbn [rw_if_expression]; root0; fail).
  unfold rw_if_expression. destruct branches as [|[c r] bs]; [reflexivity|].
  cbn [fold_right]. apply root_convert.
Qed.

Lemma hooks_w_if : hooks_w hooks_if_expression.
Proof. unfold hooks_w, hooks_if_expression; cbn. repeat split; intros; try lia. apply w_rw_if. Qed.

Theorem removes_if_expression : forall b, feature 2 (rule_if_expression b) = 0%N.
Proof.
  intros b. apply (removes_rule 2 hooks_if_expression (fun _ => True)); [lia|exact hooks_w_if|..].
  - intros e. split; [apply root_rw_if|apply tyfree_ne7; reflexivity].
  - intros e E. cbn. split; [apply root_prefix_form; [reflexivity|exact E]|apply tyfree_ne7; reflexivity].
  - intros k0 s _. cbn. split; [destruct s; root0|apply tyfree_ne7; reflexivity].
  - intros b0. apply (id_block_ok _ (fun _ => True)); [reflexivity|auto].
Qed.

Theorem preserves_if_expression : forall j b, j < 9 -> feature j b = 0%N -> feature j (rule_if_expression b) = 0%N.
Proof.
  intros j b Hj. apply (preserves_rule j hooks_if_expression); [exact Hj|exact hooks_w_if|cbn; auto..].
  intros e. apply le_zero, f_rw_if.
Qed.

(** * convert_luau_number *)
Lemma hooks_w_luau_number : hooks_w hooks_luau_number.
Proof. unfold hooks_w, hooks_luau_number; cbn. repeat split; intros; try lia. destruct e; cbn; lia. Qed.

Lemma luau_number_rw n : luau_number (rw_luau_number n) = false.
Proof. destruct n; reflexivity. Qed.

Theorem removes_luau_number : forall b, feature 5 (rule_luau_number b) = 0%N.
Proof.
  intros b. apply (removes_rule 5 hooks_luau_number (fun _ => True)); [lia|exact hooks_w_luau_number|..].
  - intros e. split; [|apply tyfree_ne7; reflexivity].
    destruct e; cbn [hooks_luau_number h_expr rw_luau_number_expr]; try (root0; fail).
    cbn [root_expr]. rewrite luau_number_rw. reflexivity.
  - intros e E. cbn. split; [apply root_prefix_form; [reflexivity|exact E]|apply tyfree_ne7; reflexivity].
  - intros k0 s _. cbn. split; [destruct s; root0|apply tyfree_ne7; reflexivity].
  - intros b0. apply (id_block_ok _ (fun _ => True)); [reflexivity|auto].
Qed.

Theorem preserves_luau_number : forall j b, j < 9 -> feature j b = 0%N -> feature j (rule_luau_number b) = 0%N.
Proof.
  intros j b Hj. apply (preserves_rule j hooks_luau_number); [exact Hj|exact hooks_w_luau_number|cbn; auto..].
  intros e. destruct e; cbn [rw_luau_number_expr]; auto.
  cbn [f_expr]. rewrite luau_number_rw. reflexivity.
Qed.

(** * make_assignment_local *)
Lemma hooks_w_const : hooks_w hooks_const.
Proof. unfold hooks_w, hooks_const; cbn. repeat split; intros; try lia. destruct s; cbn [rw_const]; weq; lia. Qed.

Theorem removes_const : forall b, feature 6 (rule_const b) = 0%N.
Proof.
  intros b. apply (removes_rule 6 hooks_const (fun _ => True)); [lia|exact hooks_w_const|..].
  - intros e. cbn. split; [destruct e; root0|apply tyfree_ne7; reflexivity].
  - intros e E. cbn. split; [apply root_prefix_form; [reflexivity|exact E]|apply tyfree_ne7; reflexivity].
  - intros k0 s _. cbn. split; [destruct s; cbn [rw_const]; root0|apply tyfree_ne7; reflexivity].
  - intros b0. apply (id_block_ok _ (fun _ => True)); [reflexivity|auto].
Qed.

Theorem preserves_const : forall j b, j < 9 -> feature j b = 0%N -> feature j (rule_const b) = 0%N.
Proof.
  intros j b Hj. apply (preserves_rule j hooks_const); [exact Hj|exact hooks_w_const|cbn; auto..].
  intros _ s. destruct s; cbn [rw_const]; auto. feq. destruct is_const; lia.
Qed.

(** * remove_attribute *)
Lemma w_clear_attrs f : w_fbody (clear_attrs f) = w_fbody f.
Proof. destruct f. reflexivity. Qed.
Lemma f_clear_attrs j f : (f_fbody j (clear_attrs f) <= f_fbody j f)%N.
Proof. destruct f. cbn [clear_attrs]. feq. cbn [N.eqb]. destruct (attrs =? 0)%N; lia. Qed.

Lemma hooks_w_attribute : hooks_w hooks_attribute.
Proof.
  unfold hooks_w, hooks_attribute; cbn. repeat split; intros; try lia.
  - destruct e; cbn [rw_attribute w_expr]; try lia. rewrite w_clear_attrs. lia.
  - destruct s; cbn [rw_attribute_stmt w_stmt]; try lia; rewrite w_clear_attrs; lia.
Qed.

Lemma attrs_root_clear i f : attrs_root i (clear_attrs f) = 0%N.
Proof. destruct f. reflexivity. Qed.

Theorem removes_attribute : forall b, feature 8 (rule_attribute b) = 0%N.
Proof.
  intros b. apply (removes_rule 8 hooks_attribute (fun _ => True)); [lia|exact hooks_w_attribute|..].
  - intros e. cbn. split; [|apply tyfree_ne7; reflexivity].
    destruct e; cbn [rw_attribute]; try (root0; fail); cbn [root_expr]; apply attrs_root_clear.
  - intros e E. cbn. split; [apply root_prefix_form; [reflexivity|exact E]|apply tyfree_ne7; reflexivity].
  - intros k0 s _. cbn. split; [|apply tyfree_ne7; reflexivity].
    destruct s; cbn [rw_attribute_stmt]; try (root0; fail); cbn [root_stmt]; rewrite attrs_root_clear; reflexivity.
  - intros b0. apply (id_block_ok _ (fun _ => True)); [reflexivity|auto].
Qed.

Theorem preserves_attribute : forall j b, j < 9 -> feature j b = 0%N -> feature j (rule_attribute b) = 0%N.
Proof.
  intros j b Hj. apply (preserves_rule j hooks_attribute); [exact Hj|exact hooks_w_attribute|cbn; auto..].
  - intros e. destruct e; cbn [rw_attribute]; auto. cbn [f_expr]. apply le_zero, f_clear_attrs.
  - intros _ s. destruct s; cbn [rw_attribute_stmt]; auto; cbn [f_stmt]; pose proof (f_clear_attrs j f); lia.
Qed.

(** * remove_interpolated_string *)
Lemma w_interp_values st segs : sum (map w_expr (interp_values st segs)) <= sum (map w_iseg segs).
Proof.
  unfold interp_values. rewrite sum_flat_map. apply sum_map_le_pointwise. intros [s|e] _.
  - cbn. lia.
  - destruct st; unfold call_tostring; wsimp; lia.
Qed.

Lemma w_rw_interp st e : w_expr (rw_interpolated_string st e) <= w_expr e.
Proof.
  destruct e; try (cbn [rw_interpolated_string]; lia). weq.
  assert (w_expr (ECall (EField (EIdent (lnm "string")) (lnm "format")) None
            (ATuple (EString (interp_format st segs) :: interp_values st segs))) <= 8 + sum (map w_iseg segs)) as X.
  { wsimp. pose proof (w_interp_values st segs). lia. }
  unfold rw_interpolated_string. destruct segs as [|[s|v] [|x rest]]; try exact X;
    unfold call_tostring; wsimp; lia.
Qed.

Lemma f_interp_values j st segs : sumN (map (f_expr j) (interp_values st segs)) = sumN (map (f_iseg j) segs).
Proof.
  unfold interp_values. rewrite sumN_flat_map. apply sumN_map_ext. intros [s|e] _.
  - reflexivity.
  - destruct st; unfold call_tostring; fsimp j; lia.
Qed.

Lemma f_rw_interp j st e : (f_expr j (rw_interpolated_string st e) <= f_expr j e)%N.
Proof.
  destruct e; try (cbn [rw_interpolated_string]; lia). feq.
  assert (f_expr j (ECall (EField (EIdent (lnm "string")) (lnm "format")) None
            (ATuple (EString (interp_format st segs) :: interp_values st segs))) <= u j 3 + sumN (map (f_iseg j) segs))%N as X.
  { fsimp j. rewrite f_interp_values. lia. }
  unfold rw_interpolated_string. destruct segs as [|[s|v] [|x rest]]; try exact X;
    unfold call_tostring; fsimp j; lia.
Qed.

Lemma root_rw_interp st e : root_expr 3 (rw_interpolated_string st e) = 0%N.
Proof.
  destruct e; try (cbn [rw_interpolated_string]; root0; fail).
  unfold rw_interpolated_string. destruct segs as [|[s|v] [|x rest]]; reflexivity.
Qed.

Lemma hooks_w_interp st : hooks_w (hooks_interpolated_string st).
Proof. unfold hooks_w, hooks_interpolated_string; cbn. repeat split; intros; try lia. apply w_rw_interp. Qed.

Theorem removes_interpolated_string : forall st b, feature 3 (rule_interpolated_string st b) = 0%N.
Proof.
  intros st b. apply (removes_rule 3 (hooks_interpolated_string st) (fun _ => True)); [lia|exact (hooks_w_interp st)|..].
  - intros e. split; [apply root_rw_interp|apply tyfree_ne7; reflexivity].
  - intros e E. cbn. split; [apply root_prefix_form; [reflexivity|exact E]|apply tyfree_ne7; reflexivity].
  - intros k0 s _. cbn. split; [destruct s; root0|apply tyfree_ne7; reflexivity].
  - intros b0. apply (id_block_ok _ (fun _ => True)); [reflexivity|auto].
Qed.

Theorem preserves_interpolated_string : forall st j b, j < 9 ->
  feature j b = 0%N -> feature j (rule_interpolated_string st b) = 0%N.
Proof.
  intros st j b Hj. apply (preserves_rule j (hooks_interpolated_string st)); [exact Hj|exact (hooks_w_interp st)|cbn; auto..].
  intros e. apply le_zero, f_rw_interp.
Qed.

(** * remove_compound_assignment *)
Lemma w_remove_parens e : w_expr (remove_parens e) <= w_expr e.
Proof. destruct e; cbn [remove_parens w_expr]; lia. Qed.
Lemma w_simplify_prefix p : w_expr (simplify_prefix p) <= w_expr p.
Proof. destruct p; cbn [simplify_prefix]; try lia. destruct p; cbn [w_expr]; lia. Qed.
Lemma f_remove_parens j e : f_expr j (remove_parens e) = f_expr j e.
Proof. destruct e; reflexivity. Qed.
Lemma f_simplify_prefix j p : f_expr j (simplify_prefix p) = f_expr j p.
Proof. destruct p; try reflexivity. destruct p; reflexivity. Qed.

Lemma w_binop_le op : match op with BIDiv => 8 | _ => 1 end <= 8.
Proof. destruct op; lia. Qed.

Lemma w_rw_compound k s : w_stmt (fst (rw_compound_assign_k k s)) <= w_stmt s.
Proof.
  destruct s; try (cbn [rw_compound_assign_k fst]; lia).
  pose proof (w_binop_le op) as Hop.
  unfold rw_compound_assign_k. destruct var; try (cbn [fst]; unfold plain_assign; wsimp; lia).
  - (* field *)
    pose proof (w_remove_parens var). pose proof (w_simplify_prefix var).
    destruct (prefix_needs_temp var); cbn [fst]; unfold do_assign, plain_assign, local_temps; wsimp; lia.
  - (* index *)
    pose proof (w_remove_parens var1). pose proof (w_simplify_prefix var1). pose proof (w_remove_parens var2).
    destruct (prefix_needs_temp var1), (key_needs_temp var2); cbn [fst];
      unfold do_assign, plain_assign, local_temps; wsimp; lia.
Qed.

Lemma f_rw_compound j k s : (f_stmt j (fst (rw_compound_assign_k k s)) <= 2 * f_stmt j s)%N.
Proof.
  destruct s; try (cbn [rw_compound_assign_k fst]; lia).
  unfold rw_compound_assign_k. destruct var; try (cbn [fst]; unfold plain_assign; fsimp j; lia).
  - pose proof (f_remove_parens j var). pose proof (f_simplify_prefix j var).
    destruct (prefix_needs_temp var); cbn [fst]; unfold do_assign, plain_assign, local_temps; fsimp j; lia.
  - pose proof (f_remove_parens j var1). pose proof (f_simplify_prefix j var1). pose proof (f_remove_parens j var2).
    destruct (prefix_needs_temp var1), (key_needs_temp var2); cbn [fst];
      unfold do_assign, plain_assign, local_temps; fsimp j; lia.
Qed.

Lemma root_compound_result i k op var v : root_stmt i (fst (rw_compound_assign_k k (SCompound op var v))) = 0%N.
Proof.
  unfold rw_compound_assign_k. destruct var; try reflexivity.
  - destruct (prefix_needs_temp var); reflexivity.
  - destruct (prefix_needs_temp var1), (key_needs_temp var2); reflexivity.
Qed.

Lemma hooks_w_compound : hooks_w hooks_compound_assign.
Proof. unfold hooks_w, hooks_compound_assign; cbn. repeat split; intros; try lia. apply w_rw_compound. Qed.

Theorem removes_compound_assign : forall b, feature 0 (rule_compound_assign b) = 0%N.
Proof.
  intros b. apply (removes_rule 0 hooks_compound_assign (fun _ => True)); [lia|exact hooks_w_compound|..].
  - intros e. cbn. split; [destruct e; root0|apply tyfree_ne7; reflexivity].
  - intros e E. cbn. split; [apply root_prefix_form; [reflexivity|exact E]|apply tyfree_ne7; reflexivity].
  - intros k0 s _. cbn [hooks_compound_assign h_stmt]. split; [|apply tyfree_ne7; reflexivity].
    destruct s; try (cbn [rw_compound_assign_k fst]; root0; fail). apply root_compound_result.
  - intros b0. apply (id_block_ok _ (fun _ => True)); [reflexivity|auto].
Qed.

Theorem preserves_compound_assign : forall j b, j < 9 -> feature j b = 0%N -> feature j (rule_compound_assign b) = 0%N.
Proof.
  intros j b Hj. apply (preserves_rule j hooks_compound_assign); [exact Hj|exact hooks_w_compound|cbn; auto..].
  intros k s. apply le2_zero, f_rw_compound.
Qed.

(** * remove_floor_division *)
Lemma w_rw_floor e : w_expr (rw_floor_division e) <= w_expr e.
Proof. destruct e; try (cbn [rw_floor_division]; lia). destruct op; cbn [rw_floor_division]; try lia. wsimp. lia. Qed.

Lemma w_rw_floor_stmt s : w_stmt (rw_floor_division_stmt s) <= w_stmt s.
Proof.
  destruct s; try (cbn [rw_floor_division_stmt]; lia). destruct op; cbn [rw_floor_division_stmt]; try lia.
  destruct (visit_weight hooks_compound_assign hooks_w_compound (w_stmt (SCompound BIDiv var v)))
    as (_ & _ & _ & _ & _ & Hs & _). apply Hs.
Qed.

Lemma hooks_w_floor : hooks_w hooks_floor_division.
Proof.
  unfold hooks_w, hooks_floor_division; cbn. repeat split; intros; try lia; [apply w_rw_floor|apply w_rw_floor_stmt].
Qed.

Lemma f_rw_floor j e : (f_expr j (rw_floor_division e) <= f_expr j e)%N.
Proof. destruct e; try (cbn [rw_floor_division]; lia). destruct op; cbn [rw_floor_division]; try lia. fsimp j. lia. Qed.

Lemma compound_weight_S op var v : exists n, w_stmt (SCompound op var v) = S n.
Proof. cbn [w_stmt]. eexists. reflexivity. Qed.

Lemma root_rw_floor_stmt s : root_stmt 4 (rw_floor_division_stmt s) = 0%N.
Proof.
  destruct s; try (cbn [rw_floor_division_stmt]; root0; fail).
  destruct op; cbn [rw_floor_division_stmt]; try reflexivity.
  destruct (compound_weight_S BIDiv var v) as [n ->]. rewrite visit_stmt_S. cbv zeta. cbn [fst].
  rewrite root_stmt_map. apply root_compound_result.
Qed.

Theorem removes_floor_division : forall b, feature 4 (rule_floor_division b) = 0%N.
Proof.
  intros b. apply (removes_rule 4 hooks_floor_division (fun _ => True)); [lia|exact hooks_w_floor|..].
  - intros e. cbn. split; [|apply tyfree_ne7; reflexivity].
    destruct e; try (cbn [rw_floor_division]; root0; fail); destruct op; reflexivity.
  - intros e E. cbn. split; [apply root_prefix_form; [reflexivity|exact E]|apply tyfree_ne7; reflexivity].
  - intros k0 s _. cbn. split; [apply root_rw_floor_stmt|apply tyfree_ne7; reflexivity].
  - intros b0. apply (id_block_ok _ (fun _ => True)); [reflexivity|auto].
Qed.

Theorem preserves_floor_division : forall j b, j < 9 -> feature j b = 0%N -> feature j (rule_floor_division b) = 0%N.
Proof.
  intros j b Hj. apply (preserves_rule j hooks_floor_division); [exact Hj|exact hooks_w_floor|cbn; auto..].
  - intros e. apply le_zero, f_rw_floor.
  - intros _ s Z. destruct s; try exact Z. destruct op; try exact Z. cbn [rw_floor_division_stmt].
    assert (forall k s, f_stmt j s = 0%N -> f_stmt j (fst (h_stmt hooks_compound_assign k s)) = 0%N) as Zs
      by (intros k s; apply le2_zero, f_rw_compound).
    destruct (visit_preserves j hooks_compound_assign hooks_w_compound (fun e H => H) (fun e H => H) Zs
                (fun b H => H) (w_stmt (SCompound BIDiv var v))) as (_ & _ & _ & _ & _ & Hs & _).
    apply Hs; [exact Z|lia].
Qed.

(** * remove_types *)
Definition not_type_root (e : expr) : Prop :=
  match e with ETypeCast _ _ | ETypeInst _ _ => False | _ => True end.

Lemma strip_types_facts e :
  not_type_root (strip_types e) /\ w_expr (strip_types e) <= w_expr e /\
  forall j, (f_expr j (strip_types e) <= f_expr j e)%N.
Proof.
  induction e; try (cbn [strip_types]; split; [exact I|split; [lia|intros; lia]]).
  - destruct IHe as (A & B & C). cbn [strip_types]. destruct (can_return_multiple_values e).
    + split; [exact I|split; [wsimp; lia|intros j; fsimp j; lia]].
    + split; [exact A|split; [wsimp; lia|intros j; specialize (C j); fsimp j; lia]].
  - destruct IHe as (A & B & C). cbn [strip_types]. destruct (can_return_multiple_values e).
    + split; [exact I|split; [wsimp; lia|intros j; fsimp j; lia]].
    + split; [exact A|split; [wsimp; lia|intros j; specialize (C j); fsimp j; lia]].
Qed.

Lemma kids_params_clear ps : flat_map kids_param (map clear_param ps) = [].
Proof. induction ps as [|[x t] ps IH]; [reflexivity|]. cbn [map flat_map clear_param kids_param kids_opt_ty app]. exact IH. Qed.

Lemma kids_clear_fbody f : kt_free (kids_fbody (clear_fbody f)).
Proof. destruct f. cbn [clear_fbody kids_fbody kids_opt_ty app]. rewrite kids_params_clear. cbn [app]. kt. Qed.

Lemma w_params_clear ps : sum (map w_param (map clear_param ps)) <= sum (map w_param ps).
Proof. apply sum_map_le. intros [x t] _. cbn [clear_param]. wsimp. lia. Qed.

Lemma w_clear_fbody f : w_fbody (clear_fbody f) <= w_fbody f.
Proof. destruct f. cbn [clear_fbody]. weq. cbn [wopt]. pose proof (w_params_clear params). lia. Qed.

Lemma f_params_clear j ps : sumN (map (f_param j) (map clear_param ps)) = 0%N.
Proof. apply sumN_map_zero. intros p Hp. apply in_map_iff in Hp as ([x t] & <- & _). reflexivity. Qed.

Lemma f_clear_fbody j f : (f_fbody j (clear_fbody f) <= f_fbody j f)%N.
Proof. destruct f. cbn [clear_fbody]. feq. cbn [optN]. rewrite f_params_clear. lia. Qed.

Lemma attrs_root_7 f : attrs_root 7 f = 0%N.
Proof. destruct f. cbn [attrs_root]. destruct (attrs =? 0)%N; reflexivity. Qed.

Lemma kt_free_kids_expr e : not_type_root e -> (forall f, e <> EFunction f) -> kt_free (kids_expr e).
Proof.
  intros N F. destruct e; cbn [kids_expr]; try contradiction; kt.
  - apply kt_free_flat_map. intros [b|e]; cbn [kids_iseg]; kt.
  - exfalso. exact (F f eq_refl).
  - apply kt_free_flat_map. intros [c r]; cbn [kids_ebranch]; kt.
Qed.

Lemma root7_plain e : not_type_root e -> root_expr 7 e = 0%N.
Proof. intros N. destruct e; try contradiction; root0. Qed.

Lemma w_rw_types e : w_expr (rw_types e) <= w_expr e.
Proof.
  unfold rw_types. destruct (strip_types_facts e) as (_ & B & _).
  destruct (strip_types e); try exact B. cbn [w_expr] in *. pose proof (w_clear_fbody f). lia.
Qed.

Lemma f_rw_types j e : (f_expr j (rw_types e) <= f_expr j e)%N.
Proof.
  unfold rw_types. destruct (strip_types_facts e) as (_ & _ & C). specialize (C j).
  destruct (strip_types e); try exact C. cbn [f_expr] in *. pose proof (f_clear_fbody j f). lia.
Qed.

Lemma removes_rw_types e : root_expr 7 (rw_types e) = 0%N /\ tyfree 7 (kids_expr (rw_types e)).
Proof.
  unfold rw_types. destruct (strip_types_facts e) as (A & _ & _).
  destruct (strip_types e) eqn:E; try contradiction;
    try (split; [root0|apply kt_free_tyfree, kt_free_kids_expr; [exact I|discriminate]]).
  split; [cbn [root_expr]; apply attrs_root_7|]. apply kt_free_tyfree. cbn [kids_expr]. apply kids_clear_fbody.
Qed.

Lemma rw_types_prefix_facts p :
  w_expr (rw_types_prefix p) <= w_expr p /\ (forall j, (f_expr j (rw_types_prefix p) <= f_expr j p)%N) /\
  (is_prefix_form p = true -> not_type_root (rw_types_prefix p) /\ forall f, rw_types_prefix p <> EFunction f).
Proof.
  induction p; try (cbn [rw_types_prefix]; split; [lia|split; [intros; lia|first [intros E; discriminate E|intros _; split; [exact I|discriminate]]]]).
  destruct IHp as (A & B & C). cbn [rw_types_prefix is_prefix_form].
  split; [wsimp; lia|split; [intros j; specialize (B j); fsimp j; lia|exact C]].
Qed.

Lemma filter_weight (g : stmt -> bool) ss : sum (map w_stmt (filter g ss)) <= sum (map w_stmt ss).
Proof. induction ss as [|s ss IH]; [cbn; lia|]. cbn [filter map]. destruct (g s); cbn [map]; rewrite ?sum_cons; lia. Qed.

Lemma filter_census j (g : stmt -> bool) ss : (sumN (map (f_stmt j) (filter g ss)) <= sumN (map (f_stmt j) ss))%N.
Proof. induction ss as [|s ss IH]; [cbn; lia|]. cbn [filter map]. destruct (g s); cbn [map]; rewrite ?sumN_cons; lia. Qed.

Lemma w_rw_types_stmt s : w_stmt (rw_types_stmt s) <= w_stmt s.
Proof.
  destruct s; cbn [rw_types_stmt]; try lia.
  - pose proof (w_clear_fbody f). cbn [w_stmt]. lia.
  - weq. pose proof (w_params_clear vars). lia.
  - weq. pose proof (w_params_clear vars). lia.
  - pose proof (w_clear_fbody f). cbn [w_stmt]. lia.
  - weq. destruct var. cbn [clear_param]. wsimp. lia.
Qed.

Lemma f_rw_types_stmt j s : (f_stmt j (rw_types_stmt s) <= f_stmt j s)%N.
Proof.
  destruct s; cbn [rw_types_stmt]; try lia.
  - pose proof (f_clear_fbody j f). cbn [f_stmt]. lia.
  - feq. rewrite f_params_clear. lia.
  - feq. rewrite f_params_clear. lia.
  - pose proof (f_clear_fbody j f). cbn [f_stmt]. lia.
  - feq. destruct var. cbn [clear_param]. fsimp j. lia.
Qed.

Lemma hooks_w_types : hooks_w hooks_types.
Proof.
  unfold hooks_w, hooks_types; cbn [h_expr h_prefix h_stmt h_block fst]. repeat split.
  - apply w_rw_types.
  - intros e. apply rw_types_prefix_facts.
  - intros _ s. apply w_rw_types_stmt.
  - intros [ss last]. cbn [rw_types_block]. weq. pose proof (filter_weight (fun s => negb (is_type_stmt s)) ss). lia.
Qed.

Lemma removes_rw_types_stmt s : is_type_stmt s = false ->
  root_stmt 7 (rw_types_stmt s) = 0%N /\ tyfree 7 (kids_stmt (rw_types_stmt s)).
Proof.
  intros T. destruct s; try discriminate T; cbn [rw_types_stmt]; (split; [cbn [root_stmt]; try apply attrs_root_7; root0|]);
    apply kt_free_tyfree; cbn [kids_stmt].
  - kt.
  - kt.
  - kt.
  - kt.
  - apply kids_clear_fbody.
  - rewrite kids_params_clear. kt.
  - apply kt_free_app; [|destruct els; cbn [kids_opt_block]; kt].
    apply kt_free_flat_map. intros [c b]; cbn [kids_sbranch]; kt.
  - rewrite kids_params_clear. kt.
  - apply kids_clear_fbody.
  - destruct var. cbn [clear_param kids_param kids_opt_ty]. destruct step; cbn [kids_opt_expr]; kt.
  - kt.
  - kt.
Qed.

Theorem removes_types : forall b, feature 7 (rule_types b) = 0%N.
Proof.
  intros b. apply (removes_rule 7 hooks_types (fun s => is_type_stmt s = false)); [lia|exact hooks_w_types|..].
  - intros e. apply removes_rw_types.
  - intros e E. cbn [hooks_types h_prefix]. destruct (rw_types_prefix_facts e) as (_ & _ & C).
    destruct (C E) as [N F]. split; [apply root7_plain, N|apply kt_free_tyfree, kt_free_kids_expr; assumption].
  - intros k s T. cbn [hooks_types h_stmt fst]. apply removes_rw_types_stmt, T.
  - intros [ss last]. cbn [hooks_types h_block rw_types_block]. split.
    + intros s Hs. apply filter_In in Hs as [_ Hs]. destruct (is_type_stmt s); [discriminate Hs|reflexivity].
    + intros l _. destruct l; reflexivity.
Qed.

Theorem preserves_types : forall j b, j < 9 -> feature j b = 0%N -> feature j (rule_types b) = 0%N.
Proof.
  intros j b Hj. apply (preserves_rule j hooks_types); [exact Hj|exact hooks_w_types|..].
  - intros e. apply le_zero, f_rw_types.
  - intros e. apply le_zero. apply rw_types_prefix_facts.
  - intros k s. cbn [hooks_types h_stmt fst]. apply le_zero, f_rw_types_stmt.
  - intros [ss last]. cbn [hooks_types h_block rw_types_block]. feq.
    pose proof (filter_census j (fun s => negb (is_type_stmt s)) ss). lia.
Qed.
