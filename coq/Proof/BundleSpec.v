(** Specification vocabulary for the bundler theorems (definitions only): the module graph as
    a relation, reachability from the entry's call sites, cycles, well-formed projects, and
    what it means for a processed call site to denote the right module. *)
From Coq Require Import NArith List Bool.
From DL Require Import Lib.Bytes Model.Rename Model.Bundle.
Import ListNotations.
Open Scope N_scope.

Section Spec.
Variable g : graph.

(** [a] is a Lua file with a call site that resolves to [b] *)
Definition edge (a b : file) : Prop :=
  exists reqs returns, lookup g a = Some (KLua reqs returns) /\ In (RFile b) reqs.

(** files reachable from the call sites [roots] of the entry *)
Inductive reach (roots : list req) : file -> Prop :=
| reach_root f : In (RFile f) roots -> reach roots f
| reach_step a b : reach roots a -> edge a b -> reach roots b.

(** non-empty path *)
Inductive path : file -> file -> Prop :=
| path_edge a b : edge a b -> path a b
| path_step a b c : edge a b -> path b c -> path a c.

(** the graph reachable from the entry has a cycle *)
Definition cyclic (roots : list req) : Prop := exists f, reach roots f /\ path f f.

(** a proper module: data, or a Lua file ending with a one-value return whose require literals all resolve *)
Definition proper (f : file) : Prop :=
  match lookup g f with
  | Some KData => True
  | Some (KLua reqs (Some 1%nat)) => forall lit, ~ In (RNotFound lit) reqs
  | _ => False
  end.

(** no missing file, no malformed module among what the entry reaches *)
Definition well_formed (roots : list req) : Prop :=
  (forall lit, ~ In (RNotFound lit) roots) /\ forall f, reach roots f -> proper f.

(** [chain] = f :: ... :: f walks along edges: what a "cyclic require" message must name *)
Fixpoint walk (chain : list file) : Prop :=
  match chain with
  | a :: ((b :: _) as rest) => edge a b /\ walk rest
  | _ => True
  end.
Definition names_cycle (chain : list file) : Prop :=
  exists f mid, chain = f :: mid ++ [f] /\ walk chain.

(** a processed call site denotes the definition of the file the site resolves to *)
Definition site_ok (ms : list (file * list site)) (r : req) (x : site) : Prop :=
  match r, x with
  | RFile f, Some k => nth_error (map fst ms) k = Some f
  | _, _ => False
  end.

(** every definition of the bundle is the body of its file with every call site replaced by
    the accessor of the right module *)
Definition defs_ok (ms : list (file * list site)) : Prop :=
  forall f sites, In (f, sites) ms ->
    match lookup g f with
    | Some KData => sites = []
    | Some (KLua reqs (Some 1%nat)) => Forall2 (site_ok ms) reqs sites
    | _ => False
    end.

End Spec.
