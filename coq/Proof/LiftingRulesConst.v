(** C01, LIFTING - the rules that consult the static evaluator, with the evaluator's answers
    abstracted as ORACLES: convert_index_to_field ([ck]: the field name of a key),
    remove_unused_while ([keepc]: is the loop kept), compute_expression ([ev]: static value,
    [tr]: truthiness of an [and]/[or] operand, [hs]: side effects); remove_unused_if_branch is
    Proof/LiftingRulesIf.v.  Each rule's code is restated with the oracle as a parameter
    ([*_g]; [*_agrees]: with the rule's own oracle the hooks are the rule's hooks, pointwise) and
    proved whole-program sound for every oracle that only answers on expressions that
    evaluate, in every store, to the announced constant without touching the store.

    Instances: the closed constant expressions of Proof/LiftingConst.v ([..._const]; the
    literals of the [..._literal] theorems are the simplest case).  The rules' own oracle (the
    static evaluator of C08) is sound only under the store invariant [env_plain] and up to the
    fresh allocations of the dropped expression, hence the general rules are not covered:
    PARTIAL.  compute_expression: the [and]/[or] operand selection is left out altogether
    ([tr] answers [None]): it is unsound where the kept operand may yield several values
    (recorded finding, [compute_multivalue_refuted]); and a result of minus infinity is not
    folded ([5 - 1e309] needs 3 units of fuel, its literal [(-1)/0] needs 5, so a same-fuel
    statement is false for it). *)
From Coq Require Import ZArith NArith List Bool String Lia.
From Coq Require Import Floats.SpecFloat.
From DL Require Import Lib.Bytes Lib.F64 Lua.Syntax Lua.Sem Model.Evaluator Model.DefaultRules.
From DL Require Model.Serializer.
From DL Require Import Proof.LoweringFuel.
From DL Require Import Proof.SemFacts Proof.DefaultRulesSem Proof.RefactorSem Proof.RefactorSimA.
From DL Require Import Proof.EvaluatorF64 Proof.EvaluatorInv Proof.DefaultRulesSoundExpr.
From DL Require Import Proof.LiftingDefs Proof.LiftingSim Proof.LiftingVisit Proof.LiftingRulesExpr
  Proof.LiftingRulesBlock Proof.LiftingRulesIf Proof.LiftingConst.
Import ListNotations.
Open Scope N_scope.

(** * convert_index_to_field *)

Definition rw_index_to_field_g (ck : expr -> option name) (e : expr) : expr :=
  match e with
  | EIndex p k => match ck k with Some f => EField p f | None => e end
  | _ => e
  end.
Definition rw_index_entry_g (ck : expr -> option name) (en : tentry) : tentry :=
  match en with
  | TIndex k v => match ck k with Some f => TField f v | None => en end
  | _ => en
  end.
Definition hooks_index_to_field_g (ck : expr -> option name) : hooks :=
  mkHooks (fun b => b) (fun s => s) (rw_index_to_field_g ck) (rw_index_to_field_g ck) (rw_index_to_field_g ck)
          (fun e => e) (map (rw_index_entry_g ck)).

Theorem index_to_field_g_agrees :
  (forall e, h_expr hooks_index_to_field e = h_expr (hooks_index_to_field_g convert_to_field) e) /\
  (forall e, h_prefix hooks_index_to_field e = h_prefix (hooks_index_to_field_g convert_to_field) e) /\
  (forall e, h_var hooks_index_to_field e = h_var (hooks_index_to_field_g convert_to_field) e) /\
  (forall t, h_table hooks_index_to_field t = h_table (hooks_index_to_field_g convert_to_field) t).
Proof. repeat split. Qed.

Definition ck_ok (d : dialect) (ck : expr -> option name) : Prop :=
  forall k f, ck k = Some f -> forall n rho va, refines (eval1 d n rho va k) (ret (VStr f)).

Section IndexG.
Variable d : dialect.
Variable ck : expr -> option name.
Hypothesis Hck : ck_ok d ck.

Lemma index_g_refines e n rho va :
  refines (eval d n rho va e) (eval d n rho va (rw_index_to_field_g ck e)).
Proof.
  destruct e; try apply refines_refl. cbn [rw_index_to_field_g].
  destruct (ck e2) as [f|] eqn:Ek; [|apply refines_refl].
  destruct n as [|n]; [apply refines_fuel|]. rewrite eval_S_index, eval_S_field.
  apply refines_bind_l. intros o. eapply refines_bind_const; [apply (Hck _ _ Ek)|apply refines_refl].
Qed.

Lemma index_g_target_refines e n rho va :
  refines (eval_target d n rho va e) (eval_target d n rho va (rw_index_to_field_g ck e)).
Proof.
  destruct e; try apply refines_refl. cbn [rw_index_to_field_g].
  destruct (ck e2) as [f|] eqn:Ek; [|apply refines_refl].
  destruct n as [|n]; [apply refines_fuel|]. rewrite eval_target_S_index, eval_target_S_field.
  apply refines_bind_l. intros o. eapply refines_bind_const; [apply (Hck _ _ Ek)|apply refines_refl].
Qed.

Lemma entries_g_refines ens : forall n rho va a pos,
  refines (fill_table d n rho va a ens pos) (fill_table d n rho va a (map (rw_index_entry_g ck) ens) pos).
Proof.
  induction ens as [|en rest IHr]; intros n rho va a pos; [apply refines_refl|].
  destruct n as [|n]; [apply refines_fuel|]. cbn [map].
  destruct en as [f v|k v|v].
  - cbn [rw_index_entry_g]. rewrite !fill_S_field.
    apply refines_bind_l. intros x. apply refines_bind_l. intros u. apply IHr.
  - cbn [rw_index_entry_g]. destruct (ck k) as [f|] eqn:Ek.
    + rewrite fill_S_index, fill_S_field. eapply refines_bind_const; [apply (Hck _ _ Ek)|].
      apply refines_bind_l. intros x. apply refines_bind_l. intros u. apply IHr.
    + rewrite !fill_S_index. apply refines_bind_l. intros kv. apply refines_bind_l. intros x.
      apply refines_bind_l. intros u. apply IHr.
  - destruct rest as [|x rest].
    + cbn [map rw_index_entry_g]. apply refines_refl.
    + cbn [rw_index_entry_g].
      change (map (rw_index_entry_g ck) (x :: rest)) with (rw_index_entry_g ck x :: map (rw_index_entry_g ck) rest) in *.
      rewrite !fill_S_value. apply refines_bind_l. intros y. apply refines_bind_l. intros u.
      apply (IHr n rho va a (pos + 1)%Z).
Qed.

Lemma hooks_index_to_field_g_ok :
  hooks_ok (fun e e1 => e1 = rw_index_to_field_g ck e) (fun e e1 => e1 = rw_index_to_field_g ck e)
           (fun t t1 => t1 = map (rw_index_entry_g ck) t) Rnone Rnone (hooks_index_to_field_g ck).
Proof.
  constructor; cbn [hooks_index_to_field_g h_expr h_prefix h_var h_call h_table h_stmt h_block].
  - intros e e' Hg. eapply cr_e_rw; [reflexivity|].
    replace (rw_index_to_field_g ck e) with (call_hook (hooks_index_to_field_g ck) (rw_index_to_field_g ck e)); [exact Hg|].
    destruct (rw_index_to_field_g ck e); reflexivity.
  - intros e e' Hg. eapply cr_e_rw; [reflexivity|].
    replace (rw_index_to_field_g ck e) with (call_hook (hooks_index_to_field_g ck) (rw_index_to_field_g ck e)); [exact Hg|].
    destruct (rw_index_to_field_g ck e); reflexivity.
  - intros e e' Hg. eapply cr_v_rw; [reflexivity|exact Hg].
  - apply id_ok_e.
  - intros ens ens' Hg. eapply cr_t_rw; [reflexivity|exact Hg].
  - apply id_ok_s.
  - apply id_ok_b.
Qed.

Theorem lifting_index_to_field_g : forall n orc b out,
  run_chunk d n orc b = out -> out <> OutFuel ->
  run_chunk d n orc (apply_hooks (hooks_index_to_field_g ck) b) = out.
Proof.
  intros n orc b out.
  apply (lifting_apply_hooks (fun e e1 => e1 = rw_index_to_field_g ck e) (fun e e1 => e1 = rw_index_to_field_g ck e)
                             (fun t t1 => t1 = map (rw_index_entry_g ck) t) Rnone Rnone d); try (intros ? ? []; fail).
  - intros e e1 ->. intros; apply index_g_refines.
  - intros e e1 ->. intros; apply index_g_target_refines.
  - intros ens ens1 ->. intros; apply entries_g_refines.
  - exact hooks_index_to_field_g_ok.
Qed.

End IndexG.

(** * remove_unused_while *)

Definition while_kept_g (keepc : expr -> bool) (st : stmt) : bool :=
  match st with
  | SWhile c _ => keepc c
  | _ => true
  end.
Definition rw_while_g (keepc : expr -> bool) (b : block) : block :=
  match b with Block ss last => Block (filter (while_kept_g keepc) ss) last end.
Definition hooks_while_g (keepc : expr -> bool) : hooks :=
  mkHooks (rw_while_g keepc) (fun s => s) (fun e => e) (fun e => e) (fun e => e) (fun e => e) (fun t => t).

Definition keepc_static (c : expr) : bool :=
  hse c || match is_truthy (evaluate c) with Some b => b | None => true end.

Theorem while_g_agrees : forall b, h_block hooks_while b = h_block (hooks_while_g keepc_static) b.
Proof. intros [ss last]. reflexivity. Qed.

Definition keepc_ok (d : dialect) (keepc : expr -> bool) : Prop :=
  forall c, keepc c = false ->
    exists v, truthy v = false /\ forall n rho va, refines (eval1 d n rho va c) (ret v).

Section WhileG.
Variable d : dialect.
Variable keepc : expr -> bool.
Hypothesis Hk : keepc_ok d keepc.

Lemma while_g_noop st : while_kept_g keepc st = false -> forall n rho va,
  refines (exec_stmt d n rho va st) (ret (rho, SigNone)).
Proof.
  intros Hw n rho va. destruct st; try discriminate Hw. cbn [while_kept_g] in Hw.
  destruct (Hk _ Hw) as (v & Hv & Hc).
  destruct n as [|n]; [apply refines_fuel|]. rewrite exec_stmt_S_while.
  destruct n as [|n]; [intros s Hf; exfalso; apply Hf; reflexivity|]. rewrite exec_while_S.
  apply (refines_trans _ (sg <- ret SigNone ;; ret (rho, sg))); [|apply refines_refl].
  apply refines_bind; [|intros; apply refines_refl].
  eapply refines_bind_const; [apply Hc|]. rewrite Hv. apply refines_refl.
Qed.

Theorem lifting_while_g : forall n orc b out,
  run_chunk d n orc b = out -> out <> OutFuel ->
  run_chunk d n orc (apply_hooks (hooks_while_g keepc) b) = out.
Proof.
  apply (lifting_block_hook d (rw_while_g keepc)).
  - intros [ss last] n rho va. apply filter_noop_block. apply while_g_noop.
  - intros [ss last] n rho va c. apply filter_noop_repeat. apply while_g_noop.
Qed.

End WhileG.

(** * compute_expression *)

Section ComputeG.
Variable ev : expr -> lv.
Variable tr : expr -> option bool.
Variable hs : expr -> bool.

Fixpoint rw_compute_g (e : expr) : expr :=
  match e with
  | EUnary _ _ | EIf _ _ =>
    if hs e then e else match lit_of_lv (ev e) with Some l => l | None => e end
  | EBinary op l r =>
    if hs e then
      match op with
      | BAnd =>
        if hs l then e
        else match tr l with
             | Some true => r
             | Some false => l
             | None => e
             end
      | BOr =>
        if hs l then e
        else match tr l with
             | Some true => l
             | Some false => r
             | None => e
             end
      | _ => e
      end
    else
      match lit_of_lv (ev e) with
      | Some lit => lit
      | None =>
        match op with
        | BAnd =>
          match tr l with
          | Some true => rw_compute_g r
          | Some false => rw_compute_g l
          | None => e
          end
        | BOr =>
          match tr l with
          | Some true => rw_compute_g l
          | Some false => rw_compute_g r
          | None => e
          end
        | _ => e
        end
      end
  | _ => e
  end.

Definition hooks_compute_g : hooks :=
  mkHooks (fun b => b) (fun s => s) rw_compute_g (fun e => e) (fun e => e) (fun e => e) (fun t => t).
End ComputeG.

Theorem compute_g_agrees : forall e, h_expr hooks_compute e = h_expr (hooks_compute_g evaluate tr_static hse) e.
Proof. intros e. reflexivity. Qed.

(** the static value is announced only for nodes that evaluate to that literal at the same fuel *)
Definition ev_ok (d : dialect) (ev : expr -> lv) (hs : expr -> bool) : Prop :=
  forall e lit, computable_shape e = true -> hs e = false -> lit_of_lv (ev e) = Some lit ->
    forall n rho va, refines (eval d n rho va e) (eval d n rho va lit).

Section ComputeSound.
Variable d : dialect.
Variable ev : expr -> lv.
Variable hs : expr -> bool.
Hypothesis Hev : ev_ok d ev hs.
Let tr : expr -> option bool := fun _ => None.

Lemma compute_g_refines e n rho va :
  refines (eval d n rho va e) (eval d n rho va (rw_compute_g ev tr hs e)).
Proof.
  destruct e; try apply refines_refl; cbn [rw_compute_g].
  - destruct (hs (EIf branches e)) eqn:Eh; [apply refines_refl|].
    destruct (lit_of_lv (ev (EIf branches e))) as [lit|] eqn:El; [|apply refines_refl].
    now apply Hev.
  - destruct (hs (EUnary op e)) eqn:Eh; [apply refines_refl|].
    destruct (lit_of_lv (ev (EUnary op e))) as [lit|] eqn:El; [|apply refines_refl].
    now apply Hev.
  - destruct (hs (EBinary op e1 e2)) eqn:Eh.
    + destruct op; try apply refines_refl; destruct (hs e1); apply refines_refl.
    + destruct (lit_of_lv (ev (EBinary op e1 e2))) as [lit|] eqn:El; [now apply Hev|].
      destruct op; apply refines_refl.
Qed.

Lemma hooks_compute_g_ok :
  hooks_ok (fun e e1 => e1 = rw_compute_g ev tr hs e) Rnone Rnone Rnone Rnone (hooks_compute_g ev tr hs).
Proof.
  constructor; cbn [hooks_compute_g h_expr h_prefix h_var h_call h_table h_stmt h_block].
  - intros e e' Hg. eapply cr_e_rw; [reflexivity|].
    replace (rw_compute_g ev tr hs e) with (call_hook (hooks_compute_g ev tr hs) (rw_compute_g ev tr hs e)); [exact Hg|].
    destruct (rw_compute_g ev tr hs e); reflexivity.
  - intros e e' Hg. apply cr_e_same. destruct e; exact Hg.
  - apply id_ok_v.
  - apply id_ok_e.
  - apply id_ok_t.
  - apply id_ok_s.
  - apply id_ok_b.
Qed.

Theorem lifting_compute_g : forall n orc b out,
  run_chunk d n orc b = out -> out <> OutFuel ->
  run_chunk d n orc (apply_hooks (hooks_compute_g ev (fun _ => None) hs) b) = out.
Proof.
  intros n orc b out.
  apply (lifting_apply_hooks (fun e e1 => e1 = rw_compute_g ev tr hs e) Rnone Rnone Rnone Rnone d);
    try (intros ? ? []; fail).
  - intros e e1 ->. intros; apply compute_g_refines.
  - exact hooks_compute_g_ok.
Qed.

End ComputeSound.

(** * The constant oracles *)

Definition ck_const (k : expr) : option name :=
  match cval k with
  | Some (VStr s) => if Serializer.is_valid_identifier s then Some s else None
  | _ => None
  end.
Lemma ck_const_ok d : ck_ok d ck_const.
Proof.
  intros k f H n rho va. unfold ck_const in H.
  destruct (cval k) as [[| | |s| | | |]|] eqn:E; try discriminate H.
  destruct (Serializer.is_valid_identifier s); inversion H; subst. now apply cval_sound1.
Qed.

Definition keepc_const (c : expr) : bool :=
  match cval c with Some v => truthy v | None => true end.
Lemma keepc_const_ok d : keepc_ok d keepc_const.
Proof.
  intros c H. unfold keepc_const in H. destruct (cval c) as [v|] eqn:E; [|discriminate H].
  exists v. split; [exact H|]. intros; now apply cval_sound1.
Qed.

Definition tr_const (c : expr) : option bool := option_map truthy (cval c).
Lemma tr_const_ok d : tr_ok d tr_const (fun _ => false).
Proof.
  intros c b H. split; [reflexivity|]. unfold tr_const in H.
  destruct (cval c) as [v|] eqn:E; [|discriminate H]. cbn in H. inversion H; subst.
  exists v. split; [reflexivity|]. intros; now apply cval_sound1.
Qed.

(** a folded constant: minus infinity is left alone (its literal needs more fuel) *)
Definition lv_of_value (v : value) : lv :=
  match v with
  | VNil => LNil
  | VBool true => LTrue
  | VBool false => LFalse
  | VNum (S754_infinity true) => LUnknown
  | VNum x => LNumber x
  | VStr s => LString s
  | _ => LUnknown
  end.
Definition ev_const (e : expr) : lv :=
  match cval e with Some v => lv_of_value v | None => LUnknown end.

Lemma arith_nomod_valid op x y r : valid x -> valid y -> arith_nomod op x y = Some r -> valid r.
Proof.
  intros Hx Hy H. destruct op; cbn in H; try discriminate H; try (inversion H; subst).
  - now apply valid_fadd.
  - now apply valid_fsub.
  - now apply valid_fmul.
  - now apply valid_fdiv.
  - apply valid_ffloor. now apply valid_fdiv.
  - exact (valid_fpow x y r Hx Hy H).
Qed.

Definition value_valid (v : value) : Prop := match v with VNum x => valid x | _ => True end.

Lemma cval_valid e : forall v, cval e = Some v -> value_valid v.
Proof.
  induction e; intros v H; try discriminate H; cbn [cval] in H.
  - inversion H; exact I.
  - inversion H; exact I.
  - inversion H; exact I.
  - inversion H; subst. cbn. destruct (compute_number_value n) as [E Hv]. rewrite <- E. exact Hv.
  - inversion H; exact I.
  - now apply IHe.
  - destruct op; try discriminate H.
    + destruct (cval e); inversion H; exact I.
    + destruct (cval e) as [[| |x| | | | |]|] eqn:E; try discriminate H. inversion H; subst.
      cbn. apply valid_fneg. exact (IHe _ eq_refl).
  - destruct op;
      try (destruct (cval e1) as [a|] eqn:Ea; [|discriminate H];
           destruct (cval e2) as [b|] eqn:Eb; [|discriminate H];
           cbn [cbin] in H;
           first [ destruct a; inversion H; exact I
                 | destruct a, b; inversion H; exact I
                 | destruct a as [| |x| | | | |], b as [| |y| | | | |]; try discriminate H;
                   match type of H with option_map _ ?o = _ => destruct o as [r|] eqn:Er end;
                   [|discriminate H]; inversion H; subst; cbn;
                   eapply arith_nomod_valid; [exact (IHe1 _ eq_refl)|exact (IHe2 _ eq_refl)|exact Er] ]).
    + destruct (cval e1) as [a|] eqn:Ea; [|discriminate H].
      destruct (truthy a); [now apply IHe2|inversion H; subst; now apply IHe1].
    + destruct (cval e1) as [a|] eqn:Ea; [|discriminate H].
      destruct (truthy a); [inversion H; subst; now apply IHe1|now apply IHe2].
Qed.

(** the literal of a folded constant evaluates to it with 3 units of fuel *)
Lemma lit_of_f64_eval3 d rho va x n s : valid x -> x <> S754_infinity true ->
  eval d (S (S (S n))) rho va (lit_of_f64 x) s = Ok [VNum x] s.
Proof.
  intros Hv Hn. destruct x as [sg|sg| |sg m e]; cbn [lit_of_f64].
  - apply eval_dec. exact Hv.
  - destruct sg; [congruence|].
    rewrite (eval_div d rho va _ _ _ fone fzero); [reflexivity| |]; apply eval1_dec; (apply valid_fone || apply valid_fzero).
  - rewrite (eval_div d rho va _ _ _ fzero fzero); [reflexivity| |]; apply eval1_dec; apply valid_fzero.
  - destruct sg.
    + rewrite eval_neg_dec; [reflexivity|exact Hv].
    + apply eval_dec. exact Hv.
Qed.

Lemma lit_of_value_eval3 d rho va v lit n s : value_valid v ->
  lit_of_lv (lv_of_value v) = Some lit -> eval d (S (S (S n))) rho va lit s = Ok [v] s.
Proof.
  intros Hv Hl. destruct v as [|b|x|str| | | |]; cbn [lv_of_value] in Hl; try discriminate Hl.
  - inversion Hl; subst. reflexivity.
  - destruct b; inversion Hl; subst; reflexivity.
  - assert (x <> S754_infinity true) as Hn by (intros ->; discriminate Hl).
    assert (lit = lit_of_f64 x) as ->.
    { destruct x as [sg|sg| |sg m e]; try (inversion Hl; reflexivity). destruct sg; [congruence|inversion Hl; reflexivity]. }
    now apply lit_of_f64_eval3.
  - inversion Hl; subst. reflexivity.
Qed.

Lemma computable_fuel d e n rho va s : computable_shape e = true -> eval d n rho va e s <> Fuel -> (3 <= n)%nat.
Proof.
  intros Hc Hf. destruct n as [|[|[|n]]]; try lia; exfalso; apply Hf; destruct e; try discriminate Hc.
  - reflexivity.
  - reflexivity.
  - reflexivity.
  - rewrite eval_S_if. destruct branches as [|[c r] rest]; reflexivity.
  - rewrite eval_S_unary. reflexivity.
  - destruct (SemFacts.is_andor op) eqn:Eo.
    + destruct op; try discriminate Eo; reflexivity.
    + rewrite eval_S_binop by exact Eo. reflexivity.
  - rewrite eval_S_if. destruct branches as [|[c r] rest]; [rewrite if_go_nil|rewrite if_go_cons]; reflexivity.
  - rewrite eval_S_unary. reflexivity.
  - destruct (SemFacts.is_andor op) eqn:Eo.
    + destruct op; try discriminate Eo; reflexivity.
    + rewrite eval_S_binop by exact Eo. reflexivity.
Qed.

Lemma ev_const_ok d : ev_ok d ev_const (fun _ => false).
Proof.
  intros e lit Hc _ Hl n rho va s Hf. unfold ev_const in Hl.
  destruct (cval e) as [v|] eqn:E; [|discriminate Hl].
  pose proof (computable_fuel d e n rho va s Hc Hf) as Hn.
  rewrite <- (cval_sound d rho va e v E n s Hf). cbn [ret].
  do 3 (destruct n as [|n]; [lia|]).
  apply lit_of_value_eval3; [exact (cval_valid e v E)|exact Hl].
Qed.

(** * The restricted rules *)

Definition rule_convert_index_to_field_const : block -> block :=
  apply_hooks (hooks_index_to_field_g ck_const).
Definition rule_remove_unused_while_const : block -> block :=
  apply_hooks (hooks_while_g keepc_const).
Definition rule_remove_unused_if_branch_const : block -> block :=
  apply_hooks (hooks_if_g tr_const (fun _ => false)).
Definition rule_compute_expression_const : block -> block :=
  apply_hooks (hooks_compute_g ev_const (fun _ => None) (fun _ => false)).

Theorem lifting_convert_index_to_field_const : forall d n orc b out,
  run_chunk d n orc b = out -> out <> OutFuel ->
  run_chunk d n orc (rule_convert_index_to_field_const b) = out.
Proof. intros d. apply (lifting_index_to_field_g d ck_const (ck_const_ok d)). Qed.

Theorem lifting_remove_unused_while_const : forall d n orc b out,
  run_chunk d n orc b = out -> out <> OutFuel ->
  run_chunk d n orc (rule_remove_unused_while_const b) = out.
Proof. intros d. apply (lifting_while_g d keepc_const (keepc_const_ok d)). Qed.

Theorem lifting_remove_unused_if_branch_const : forall d n orc b out,
  run_chunk d n orc b = out -> out <> OutFuel ->
  run_chunk d n orc (rule_remove_unused_if_branch_const b) = out.
Proof. intros d. apply (lifting_if_g d tr_const (fun _ => false) (tr_const_ok d)). Qed.

Theorem lifting_compute_expression_const : forall d n orc b out,
  run_chunk d n orc b = out -> out <> OutFuel ->
  run_chunk d n orc (rule_compute_expression_const b) = out.
Proof. intros d. apply (lifting_compute_g d ev_const (fun _ => false) (ev_const_ok d)). Qed.

(** the rules themselves, on programs on which they do nothing but what their constant
    restriction does *)
Theorem lifting_convert_index_to_field_const_partial : forall d n orc b out,
  rule_convert_index_to_field b = rule_convert_index_to_field_const b ->
  run_chunk d n orc b = out -> out <> OutFuel ->
  run_chunk d n orc (rule_convert_index_to_field b) = out.
Proof. intros d n orc b out ->. apply lifting_convert_index_to_field_const. Qed.

Theorem lifting_remove_unused_while_const_partial : forall d n orc b out,
  rule_remove_unused_while b = rule_remove_unused_while_const b ->
  run_chunk d n orc b = out -> out <> OutFuel ->
  run_chunk d n orc (rule_remove_unused_while b) = out.
Proof. intros d n orc b out ->. apply lifting_remove_unused_while_const. Qed.

Theorem lifting_remove_unused_if_branch_const_partial : forall d n orc b out,
  rule_remove_unused_if_branch b = rule_remove_unused_if_branch_const b ->
  run_chunk d n orc b = out -> out <> OutFuel ->
  run_chunk d n orc (rule_remove_unused_if_branch b) = out.
Proof. intros d n orc b out ->. apply lifting_remove_unused_if_branch_const. Qed.

Theorem lifting_compute_expression_const_partial : forall d n orc b out,
  rule_compute_expression b = rule_compute_expression_const b ->
  run_chunk d n orc b = out -> out <> OutFuel ->
  run_chunk d n orc (rule_compute_expression b) = out.
Proof. intros d n orc b out ->. apply lifting_compute_expression_const. Qed.
