(** C14 — tables of the reference interpreter as functions from keys to values: key
    equality is a partial equivalence, [raw_set] is a functional update, and the content
    of a table filled positionally / by key-value pairs is what the specification
    ([Lua/DataSpec.v]) says. *)
From Coq Require Import ZArith NArith List Bool Lia.
From Coq Require Import Floats.SpecFloat.
From DL Require Import Lib.Bytes Lib.F64 Lua.Syntax Lua.Sem Lua.DataSpec Proof.SerializerF64.
Import ListNotations.
Open Scope N_scope.

(** * key equality *)

Lemma bytes_eqb_refl' a : bytes_eqb a a = true.
Proof. now apply bytes_eqb_eq. Qed.

Lemma raw_equal_sym a b : raw_equal a b = true -> raw_equal b a = true.
Proof.
  destruct a, b; cbn; try discriminate; intros H.
  - reflexivity.
  - apply Bool.eqb_prop in H. subst. apply Bool.eqb_reflx.
  - now apply SFeqb_sym.
  - apply bytes_eqb_eq in H. subst. apply bytes_eqb_refl'.
  - apply N.eqb_eq in H. subst. apply N.eqb_refl.
  - apply N.eqb_eq in H. subst. apply N.eqb_refl.
  - apply N.eqb_eq in H. subst. apply N.eqb_refl.
  - apply bytes_eqb_eq in H. subst. apply bytes_eqb_refl'.
Qed.

Lemma raw_equal_trans a b c : raw_equal a b = true -> raw_equal b c = true -> raw_equal a c = true.
Proof.
  destruct a, b; cbn; try discriminate; intros H; destruct c; cbn; try discriminate; intros H2.
  - reflexivity.
  - apply Bool.eqb_prop in H. now subst.
  - eapply SFeqb_trans; eauto.
  - apply bytes_eqb_eq in H. now subst.
  - apply N.eqb_eq in H. now subst.
  - apply N.eqb_eq in H. now subst.
  - apply N.eqb_eq in H. now subst.
  - apply bytes_eqb_eq in H. now subst.
Qed.

(** equal keys select the same entries *)
Lemma raw_equal_cong a b c : raw_equal a b = true -> raw_equal a c = raw_equal b c.
Proof.
  intros H. destruct (raw_equal a c) eqn:E1, (raw_equal b c) eqn:E2; auto.
  - apply raw_equal_sym in H. rewrite (raw_equal_trans _ _ _ H E1) in E2. discriminate.
  - rewrite (raw_equal_trans _ _ _ H E2) in E1. discriminate.
Qed.

Lemma norm_key_refl k k' : norm_key k = Some k' -> raw_equal k' k' = true.
Proof.
  destruct k; cbn [norm_key]; try discriminate; intros H.
  - inversion H; subst. apply Bool.eqb_reflx.
  - destruct (is_nan x) eqn:En; [discriminate|]. destruct (is_zero x).
    + inversion H; subst. reflexivity.
    + inversion H; subst. cbn. now apply SFeqb_refl.
  - inversion H; subst. apply bytes_eqb_refl'.
  - inversion H; subst. apply N.eqb_refl.
  - inversion H; subst. apply N.eqb_refl.
  - inversion H; subst. apply N.eqb_refl.
  - inversion H; subst. apply bytes_eqb_refl'.
Qed.

Lemma key_value_refl k kv : key_value k = Some kv -> raw_equal kv kv = true.
Proof.
  destruct k; cbn [key_value]; try discriminate; intros H.
  - inversion H; subst. apply Bool.eqb_reflx.
  - eapply norm_key_refl; eauto.
  - eapply norm_key_refl; eauto.
  - inversion H; subst. apply bytes_eqb_refl'.
Qed.

(** keys of the table constructor are already normal *)
Lemma norm_key_idem k k' : norm_key k = Some k' -> norm_key k' = Some k'.
Proof.
  destruct k; cbn; try discriminate; intros H; try (inversion H; subst; reflexivity).
  destruct (is_nan x) eqn:En; [discriminate|]. destruct (is_zero x) eqn:Ez; inversion H; subst.
  - reflexivity.
  - cbn. now rewrite En, Ez.
Qed.

(** * [raw_set] is a functional update *)

Lemma raw_get_set es k v k2 :
  raw_get (raw_set es k v) k2 = if raw_equal k k2 then v else raw_get es k2.
Proof.
  induction es as [|[k0 v0] rest IH]; cbn [raw_set raw_get].
  - destruct v; cbn [raw_get]; destruct (raw_equal k k2); reflexivity.
  - destruct (raw_equal k0 k) eqn:E0; cbn [raw_get].
    + rewrite (raw_equal_cong _ _ k2 E0). destruct (raw_equal k k2); reflexivity.
    + destruct (raw_equal k0 k2) eqn:E2; [|exact IH].
      destruct (raw_equal k k2) eqn:E; [|reflexivity].
      apply raw_equal_sym in E. rewrite (raw_equal_trans _ _ _ E2 E) in E0. discriminate.
Qed.

(** * positional filling (sequences) *)

Fixpoint seq_fill (es : list (value * value)) (pos : Z) (vs : list value) : list (value * value) :=
  match vs with
  | [] => es
  | v :: r => seq_fill (match v with VNil => es | _ => raw_set es (VNum (of_Z pos)) v end) (pos + 1) r
  end.

Lemma seq_fill_other : forall vs es pos k,
  (forall i, (i < List.length vs)%nat -> raw_equal (VNum (of_Z (Z.of_nat i + pos))) k = false) ->
  raw_get (seq_fill es pos vs) k = raw_get es k.
Proof.
  induction vs as [|v r IH]; intros es pos k H; cbn [seq_fill]; [reflexivity|].
  rewrite IH.
  - assert (raw_equal (VNum (of_Z pos)) k = false) as H0.
    { specialize (H 0%nat). change (Z.of_nat 0 + pos)%Z with pos in H. apply H. cbn. lia. }
    destruct v; try reflexivity; rewrite raw_get_set, H0; reflexivity.
  - intros i Hi. replace (Z.of_nat i + (pos + 1))%Z with (Z.of_nat (S i) + pos)%Z by lia.
    apply H. cbn. lia.
Qed.

Lemma pos_keys_distinct pos i j :
  (1 <= pos)%Z -> (Z.of_nat i + pos < 9007199254740992)%Z -> (Z.of_nat j + pos < 9007199254740992)%Z ->
  i <> j -> raw_equal (VNum (of_Z (Z.of_nat i + pos))) (VNum (of_Z (Z.of_nat j + pos))) = false.
Proof.
  intros Hp Hi Hj Hne. cbn. destruct (feqb _ _) eqn:E; [|reflexivity].
  apply of_Z_small_inj in E; lia.
Qed.

Lemma pos_key_refl pos i : (1 <= pos)%Z -> (Z.of_nat i + pos < 9007199254740992)%Z ->
  raw_equal (VNum (of_Z (Z.of_nat i + pos))) (VNum (of_Z (Z.of_nat i + pos))) = true.
Proof.
  intros Hp Hi. cbn. apply SFeqb_refl. apply of_Z_small_finite. lia.
Qed.

Lemma seq_fill_nth : forall vs es pos i v,
  (1 <= pos)%Z -> (pos + Z.of_nat (List.length vs) <= 9007199254740992)%Z ->
  nth_error vs i = Some v ->
  raw_get es (VNum (of_Z (Z.of_nat i + pos))) = VNil ->
  raw_get (seq_fill es pos vs) (VNum (of_Z (Z.of_nat i + pos))) = v.
Proof.
  induction vs as [|v0 r IH]; intros es pos i v Hp Hlen Hn Hes; [destruct i; discriminate|].
  cbn [List.length] in Hlen. destruct i as [|i]; cbn [nth_error] in Hn.
  - inversion Hn; subst v0; clear Hn. cbn [seq_fill].
    change (Z.of_nat 0 + pos)%Z with pos in *.
    assert (raw_equal (VNum (of_Z pos)) (VNum (of_Z pos)) = true) as Hrefl.
    { pose proof (pos_key_refl pos 0 Hp) as R. change (Z.of_nat 0 + pos)%Z with pos in R. apply R. lia. }
    rewrite seq_fill_other.
    + destruct v; try exact Hes; rewrite raw_get_set, Hrefl; reflexivity.
    + intros j Hj. replace (Z.of_nat j + (pos + 1))%Z with (Z.of_nat (S j) + pos)%Z by lia.
      pose proof (pos_keys_distinct pos (S j) 0 Hp) as D. change (Z.of_nat 0 + pos)%Z with pos in D.
      apply D; lia.
  - assert (i < List.length r)%nat as Hi by (apply nth_error_Some; congruence).
    cbn [seq_fill].
    assert (raw_equal (VNum (of_Z pos)) (VNum (of_Z (Z.of_nat (S i) + pos))) = false) as Hd.
    { pose proof (pos_keys_distinct pos 0 (S i) Hp) as D. change (Z.of_nat 0 + pos)%Z with pos in D.
      apply D; lia. }
    replace (Z.of_nat (S i) + pos)%Z with (Z.of_nat i + (pos + 1))%Z in * by lia.
    apply IH; try lia; try assumption.
    destruct v0; try exact Hes; rewrite raw_get_set, Hd; exact Hes.
Qed.

(** * filling by key-value pairs (mappings) *)

Fixpoint map_fill (es : list (value * value)) (kvs : list (value * value)) : list (value * value) :=
  match kvs with
  | [] => es
  | (k, v) :: r => map_fill (raw_set es k v) r
  end.

Lemma map_fill_app es l1 l2 : map_fill es (l1 ++ l2) = map_fill (map_fill es l1) l2.
Proof. revert es; induction l1 as [|[k v] r IH]; intros es; cbn; auto. Qed.

Lemma map_fill_other : forall kvs es k,
  (forall k0 v0, In (k0, v0) kvs -> raw_equal k0 k = false) ->
  raw_get (map_fill es kvs) k = raw_get es k.
Proof.
  induction kvs as [|[k1 v1] r IH]; intros es k H; cbn [map_fill]; [reflexivity|].
  rewrite IH by (intros k0 v0 Hin; eapply H; right; exact Hin).
  rewrite raw_get_set, (H k1 v1) by (left; reflexivity). reflexivity.
Qed.

Lemma map_fill_last es l1 k v l2 :
  raw_equal k k = true ->
  (forall k1 v1, In (k1, v1) l2 -> raw_equal k1 k = false) ->
  raw_get (map_fill es (l1 ++ (k, v) :: l2)) k = v.
Proof.
  intros Hr H. rewrite map_fill_app. cbn [map_fill].
  rewrite map_fill_other by exact H. now rewrite raw_get_set, Hr.
Qed.

Lemma Forall2_in_l {A B} (R : A -> B -> Prop) l l' x :
  Forall2 R l l' -> In x l -> exists y, In y l' /\ R x y.
Proof.
  induction 1 as [|x0 y0 l l' H0 H IH]; intros Hin; [contradiction|].
  destruct Hin as [<-|Hin].
  - exists y0. split; [left; reflexivity|exact H0].
  - destruct (IH Hin) as (y & Hy & HR). exists y. split; [right; exact Hy|exact HR].
Qed.
