(** Round-trip theorems for the string-literal writer model ([Model/StringLit.v]):
    what [write_string] / [write_quoted] / [write_long_bracket] emit is decoded back
    to the original bytes by the reference decoders. *)
From DL Require Import Lib.Bytes Model.StringLit.
Require Import Lia ZArith ZifyBool ZifyN ZifyNat.
Ltac Zify.zify_post_hook ::= Z.div_mod_to_equations.
Open Scope N_scope.
Local Notation length := List.length.

(** * Generic helpers *)

Definition all_bytes : list N := map N.of_nat (seq 0 256).

Lemma byte_sweep (P : N -> bool) :
  forallb P all_bytes = true -> forall c, c < 256 -> P c = true.
Proof.
  intros H c Hc. rewrite forallb_forall in H. apply H.
  unfold all_bytes. rewrite in_map_iff. exists (N.to_nat c). split.
  - apply N2Nat.id.
  - apply in_seq. lia.
Qed.

Lemma wf_cons c s : wf_bytes (c :: s) = true -> c < 256 /\ wf_bytes s = true.
Proof.
  unfold wf_bytes. cbn [forallb]. intros H. apply andb_true_iff in H as [H1 H2].
  unfold is_byte in H1. split; [lia | exact H2].
Qed.

(** * UTF-8 *)

Lemma utf8_decode_spec : forall n s cps, (length s <= n)%nat -> utf8_decode s = Some cps ->
  flat_map utf8_encode cps = s /\ Forall (fun c => c <= 1114111) cps.
Proof.
  induction n as [|n IHn]; intros s cps Hlen H.
  - destruct s; [|cbn [length] in Hlen; lia]. cbn in H. injection H as <-. split; [reflexivity|constructor].
  - destruct s as [|b0 t0].
    { cbn in H. injection H as <-. split; [reflexivity|constructor]. }
    cbn [utf8_decode] in H. cbn [length] in Hlen.
    destruct (b0 <? 128) eqn:E0.
    { destruct (utf8_decode t0) as [l|] eqn:E; cbn [option_map] in H; [|discriminate].
      injection H as <-. destruct (IHn t0 l) as [IH1 IH2]; [lia|exact E|].
      split; [|constructor; [lia|exact IH2]].
      cbn [flat_map]. rewrite IH1. unfold utf8_encode. rewrite E0. reflexivity. }
    destruct t0 as [|b1 t1]; [discriminate|]. cbn [length] in Hlen.
    destruct (in_range 194 223 b0) eqn:E1.
    { destruct (is_cont b1) eqn:C1; [|discriminate].
      destruct (utf8_decode t1) as [l|] eqn:E; cbn [option_map] in H; [|discriminate].
      injection H as <-. destruct (IHn t1 l) as [IH1 IH2]; [lia|exact E|].
      unfold in_range, is_cont in *.
      split; [|constructor; [lia|exact IH2]].
      cbn [flat_map]. rewrite IH1. unfold utf8_encode.
      set (c := (b0 - 192) * 64 + (b1 - 128)).
      assert (c <? 128 = false) as -> by lia.
      assert (c <? 2048 = true) as -> by lia.
      assert (192 + c / 64 = b0) as -> by lia.
      assert (128 + c mod 64 = b1) as -> by lia.
      reflexivity. }
    destruct t1 as [|b2 t2]; [discriminate|]. cbn [length] in Hlen.
    destruct (in_range 224 239 b0) eqn:E2.
    { match type of H with (if ?c then _ else _) = _ => destruct c eqn:C1; [|discriminate] end.
      destruct (utf8_decode t2) as [l|] eqn:E; cbn [option_map] in H; [|discriminate].
      injection H as <-. destruct (IHn t2 l) as [IH1 IH2]; [lia|exact E|].
      apply andb_true_iff in C1 as [C1 C2].
      unfold in_range, is_cont in *.
      destruct (b0 =? 224) eqn:B1; [|destruct (b0 =? 237) eqn:B2].
      all: (split; [|constructor; [lia|exact IH2]]).
      all: cbn [flat_map]; rewrite IH1; unfold utf8_encode.
      all: set (c := (b0 - 224) * 4096 + (b1 - 128) * 64 + (b2 - 128)).
      all: assert (c <? 128 = false) as -> by lia.
      all: assert (c <? 2048 = false) as -> by lia.
      all: assert (c <? 65536 = true) as -> by lia.
      all: assert (224 + c / 4096 = b0) as -> by lia.
      all: assert (128 + (c / 64) mod 64 = b1) as -> by lia.
      all: assert (128 + c mod 64 = b2) as -> by lia.
      all: reflexivity. }
    destruct t2 as [|b3 t3]; [discriminate|]. cbn [length] in Hlen.
    destruct (in_range 240 244 b0) eqn:E3; [|discriminate].
    match type of H with (if ?c then _ else _) = _ => destruct c eqn:C1; [|discriminate] end.
    destruct (utf8_decode t3) as [l|] eqn:E; cbn [option_map] in H; [|discriminate].
    injection H as <-. destruct (IHn t3 l) as [IH1 IH2]; [lia|exact E|].
    apply andb_true_iff in C1 as [C1 C3]. apply andb_true_iff in C1 as [C1 C2].
    unfold in_range, is_cont in *.
    destruct (b0 =? 240) eqn:B1; [|destruct (b0 =? 244) eqn:B2].
    all: (split; [|constructor; [lia|exact IH2]]).
    all: cbn [flat_map]; rewrite IH1; unfold utf8_encode.
    all: set (c := (b0 - 240) * 262144 + (b1 - 128) * 4096 + (b2 - 128) * 64 + (b3 - 128)).
    all: assert (c <? 128 = false) as -> by lia.
    all: assert (c <? 2048 = false) as -> by lia.
    all: assert (c <? 65536 = false) as -> by lia.
    all: assert (240 + c / 262144 = b0) as -> by lia.
    all: assert (128 + (c / 4096) mod 64 = b1) as -> by lia.
    all: assert (128 + (c / 64) mod 64 = b2) as -> by lia.
    all: assert (128 + c mod 64 = b3) as -> by lia.
    all: reflexivity.
Qed.

Theorem utf8_roundtrip : forall s cps, utf8_decode s = Some cps -> flat_map utf8_encode cps = s.
Proof.
  intros s cps H. exact (proj1 (utf8_decode_spec (length s) s cps (le_n _) H)).
Qed.

Lemma utf8_decode_bound s cps : utf8_decode s = Some cps -> Forall (fun c => c <= 1114111) cps.
Proof.
  intros H. exact (proj2 (utf8_decode_spec (length s) s cps (le_n _) H)).
Qed.

(** * Unfolding equations of the decoder state machine *)

Lemma un_nil_normal luau q : unescape_from luau q UNormal [] = Some [].
Proof. reflexivity. Qed.

Lemma un_normal_cons luau q c rest :
  unescape_from luau q UNormal (c :: rest) =
  if c =? 92 then unescape_from luau q UEsc rest
  else if (c =? q) || (c =? 10) || (c =? 13) then None
  else emit [c] (unescape_from luau q UNormal rest).
Proof. reflexivity. Qed.

Lemma un_normal_bs luau q rest :
  unescape_from luau q UNormal (92 :: rest) = unescape_from luau q UEsc rest.
Proof. reflexivity. Qed.

Lemma un_esc_simple luau q c v rest : simple_escape c = Some v ->
  unescape_from luau q UEsc (c :: rest) = emit [v] (unescape_from luau q UNormal rest).
Proof. intros H. cbn [unescape_from]. rewrite H. reflexivity. Qed.

Lemma un_dec_cons luau q v k c rest :
  unescape_from luau q (UDec v k) (c :: rest) =
  if is_digit c && Nat.ltb k 3 then unescape_from luau q (UDec (v * 10 + (c - 48)) (S k)) rest
  else if v <? 256 then emit [v] (unescape_from luau q UNormal (c :: rest)) else None.
Proof. reflexivity. Qed.

Lemma un_code_cons luau q v k c rest :
  unescape_from luau q (UCode v k) (c :: rest) =
  if is_hexdigit c then
    if v * 16 + unhexdigit c <=? 1114111
    then unescape_from luau q (UCode (v * 16 + unhexdigit c) (S k)) rest else None
  else if (c =? 125) && Nat.ltb 0 k then emit (utf8_encode v) (unescape_from luau q UNormal rest)
  else None.
Proof. reflexivity. Qed.

Lemma un_u_prefix q rest :
  unescape_from true q UNormal (92 :: 117 :: 123 :: rest) = unescape_from true q (UCode 0 0) rest.
Proof. reflexivity. Qed.

Lemma emit_some c r : emit c (Some r) = Some (c ++ r).
Proof. reflexivity. Qed.

(** * Decimal escapes *)

Lemma simple_escape_digit x : is_digit x = true -> simple_escape x = None.
Proof.
  unfold is_digit, simple_escape. intros H.
  repeat match goal with |- context [?a =? ?b] => destruct (a =? b) eqn:?; try lia end.
  reflexivity.
Qed.

Lemma un_esc_digit luau q d rest : is_digit d = true ->
  unescape_from luau q UEsc (d :: rest) = unescape_from luau q (UDec (d - 48) 1) rest.
Proof.
  intros H. cbn [unescape_from]. rewrite (simple_escape_digit d H), H. reflexivity.
Qed.

Lemma un_dec_step luau q v k d rest : is_digit d = true -> (k < 3)%nat ->
  unescape_from luau q (UDec v k) (d :: rest) =
  unescape_from luau q (UDec (v * 10 + (d - 48)) (S k)) rest.
Proof.
  intros H Hk. rewrite un_dec_cons, H.
  assert (Nat.ltb k 3 = true) as -> by (apply Nat.ltb_lt; exact Hk). reflexivity.
Qed.

Lemma un_dec_stop luau q v k R : v < 256 -> (k = 3%nat \/ next_is_digit_b R = false) ->
  unescape_from luau q (UDec v k) R = emit [v] (unescape_from luau q UNormal R).
Proof.
  intros Hv Hk. assert (Hv' : v <? 256 = true) by lia. destruct R as [|d R].
  - cbn [unescape_from]. rewrite Hv'. reflexivity.
  - rewrite un_dec_cons, Hv'.
    assert (is_digit d && Nat.ltb k 3 = false) as ->; [|reflexivity].
    destruct Hk as [->|Hk].
    + apply andb_false_r.
    + cbn [next_is_digit_b] in Hk. rewrite Hk. reflexivity.
Qed.

Lemma dec1 luau q x R c : is_digit x = true -> c = x - 48 -> next_is_digit_b R = false ->
  unescape_from luau q UNormal (92 :: x :: R) = emit [c] (unescape_from luau q UNormal R).
Proof.
  intros Hx -> HR. rewrite un_normal_bs, (un_esc_digit _ _ _ _ Hx).
  apply un_dec_stop; [unfold is_digit in Hx; lia | right; exact HR].
Qed.

Lemma dec2 luau q x y R c : is_digit x = true -> is_digit y = true ->
  c = (x - 48) * 10 + (y - 48) -> next_is_digit_b R = false ->
  unescape_from luau q UNormal (92 :: x :: y :: R) = emit [c] (unescape_from luau q UNormal R).
Proof.
  intros Hx Hy -> HR. rewrite un_normal_bs, (un_esc_digit _ _ _ _ Hx).
  rewrite (un_dec_step _ _ _ _ _ _ Hy) by lia.
  apply un_dec_stop; [unfold is_digit in *; lia | right; exact HR].
Qed.

Lemma dec3 luau q x y z R c : is_digit x = true -> is_digit y = true -> is_digit z = true ->
  c = ((x - 48) * 10 + (y - 48)) * 10 + (z - 48) -> c < 256 ->
  unescape_from luau q UNormal (92 :: x :: y :: z :: R) = emit [c] (unescape_from luau q UNormal R).
Proof.
  intros Hx Hy Hz -> Hc. rewrite un_normal_bs, (un_esc_digit _ _ _ _ Hx).
  rewrite (un_dec_step _ _ _ _ _ _ Hy) by lia.
  rewrite (un_dec_step _ _ _ _ _ _ Hz) by lia.
  apply un_dec_stop; [exact Hc | left; reflexivity].
Qed.

Definition dec_spec (c : N) : bytes :=
  if c <? 10 then [48 + c]
  else if c <? 100 then [48 + c / 10; 48 + c mod 10]
  else [48 + c / 100; 48 + (c / 10) mod 10; 48 + c mod 10].

Lemma dec_digits_byte c : c < 256 -> dec_digits c = dec_spec c.
Proof.
  intros Hc. apply bytes_eqb_eq.
  apply (byte_sweep (fun c => bytes_eqb (dec_digits c) (dec_spec c))); [vm_compute; reflexivity | exact Hc].
Qed.

Lemma dec_escape_decode luau q c nd R :
  c < 256 -> (next_is_digit_b R = true -> nd = true) ->
  unescape_from luau q UNormal ((92 :: (if nd then pad3 (dec_digits c) else dec_digits c)) ++ R)
  = emit [c] (unescape_from luau q UNormal R).
Proof.
  intros Hc Hnd. rewrite (dec_digits_byte c Hc). unfold dec_spec.
  assert (HR : nd = false -> next_is_digit_b R = false).
  { intros ->. destruct (next_is_digit_b R); [discriminate (Hnd eq_refl) | reflexivity]. }
  destruct (c <? 10) eqn:E1; [|destruct (c <? 100) eqn:E2]; destruct nd; cbn [pad3 app].
  - apply dec3; unfold is_digit; lia.
  - apply dec1; [unfold is_digit; lia | lia | auto].
  - apply dec3; unfold is_digit; lia.
  - apply dec2; [unfold is_digit; lia | unfold is_digit; lia | lia | auto].
  - apply dec3; unfold is_digit; lia.
  - apply dec3; unfold is_digit; lia.
Qed.

Lemma escape_hd c nd : exists tl, escape c nd = 92 :: tl.
Proof.
  unfold escape.
  repeat match goal with |- context [if ?a =? ?b then _ else _] => destruct (a =? b) end;
    eexists; reflexivity.
Qed.

Lemma escape_decode luau q c nd R :
  c < 256 -> (next_is_digit_b R = true -> nd = true) ->
  unescape_from luau q UNormal (escape c nd ++ R) = emit [c] (unescape_from luau q UNormal R).
Proof.
  intros Hc Hnd. unfold escape.
  repeat match goal with |- context [if ?a =? ?b then _ else _] =>
    destruct (a =? b) eqn:?E;
      [apply N.eqb_eq in E; rewrite E; reflexivity | clear E] end.
  apply dec_escape_decode; assumption.
Qed.
