(** Round-trip theorems for the string-literal writer model ([Model/StringLit.v]):
    what [write_string] / [write_quoted] / [write_long_bracket] emit is decoded back
    to the original bytes by the reference decoders. *)
From DL Require Import Lib.Bytes Model.StringLit.
Require Import Lia ZArith ZifyBool ZifyN ZifyNat.
Ltac Zify.zify_post_hook ::= Z.div_mod_to_equations.
Open Scope N_scope.
Local Notation length := List.length.

(** * Generic helpers *)

Definition all_bytes : list N := map N.of_nat (seq 0 256).

Lemma byte_sweep (P : N -> bool) :
  forallb P all_bytes = true -> forall c, c < 256 -> P c = true.
Proof.
  intros H c Hc. rewrite forallb_forall in H. apply H.
  unfold all_bytes. rewrite in_map_iff. exists (N.to_nat c). split.
  - apply N2Nat.id.
  - apply in_seq. lia.
Qed.

Lemma wf_cons c s : wf_bytes (c :: s) = true -> c < 256 /\ wf_bytes s = true.
Proof.
  unfold wf_bytes. cbn [forallb]. intros H. apply andb_true_iff in H as [H1 H2].
  unfold is_byte in H1. split; [lia | exact H2].
Qed.

(** * UTF-8 *)

Lemma utf8_decode_spec : forall n s cps, (length s <= n)%nat -> utf8_decode s = Some cps ->
  flat_map utf8_encode cps = s /\ Forall (fun c => c <= 1114111) cps.
Proof.
  induction n as [|n IHn]; intros s cps Hlen H.
  - destruct s; [|cbn [length] in Hlen; lia]. cbn in H. injection H as <-. split; [reflexivity|constructor].
  - destruct s as [|b0 t0].
    { cbn in H. injection H as <-. split; [reflexivity|constructor]. }
    cbn [utf8_decode] in H. cbn [length] in Hlen.
    destruct (b0 <? 128) eqn:E0.
    { destruct (utf8_decode t0) as [l|] eqn:E; cbn [option_map] in H; [|discriminate].
      injection H as <-. destruct (IHn t0 l) as [IH1 IH2]; [lia|exact E|].
      split; [|constructor; [lia|exact IH2]].
      cbn [flat_map]. rewrite IH1. unfold utf8_encode. rewrite E0. reflexivity. }
    destruct t0 as [|b1 t1]; [discriminate|]. cbn [length] in Hlen.
    destruct (in_range 194 223 b0) eqn:E1.
    { destruct (is_cont b1) eqn:C1; [|discriminate].
      destruct (utf8_decode t1) as [l|] eqn:E; cbn [option_map] in H; [|discriminate].
      injection H as <-. destruct (IHn t1 l) as [IH1 IH2]; [lia|exact E|].
      unfold in_range, is_cont in *.
      split; [|constructor; [lia|exact IH2]].
      cbn [flat_map]. rewrite IH1. unfold utf8_encode.
      set (c := (b0 - 192) * 64 + (b1 - 128)).
      assert (c <? 128 = false) as -> by lia.
      assert (c <? 2048 = true) as -> by lia.
      assert (192 + c / 64 = b0) as -> by lia.
      assert (128 + c mod 64 = b1) as -> by lia.
      reflexivity. }
    destruct t1 as [|b2 t2]; [discriminate|]. cbn [length] in Hlen.
    destruct (in_range 224 239 b0) eqn:E2.
    { match type of H with (if ?c then _ else _) = _ => destruct c eqn:C1; [|discriminate] end.
      destruct (utf8_decode t2) as [l|] eqn:E; cbn [option_map] in H; [|discriminate].
      injection H as <-. destruct (IHn t2 l) as [IH1 IH2]; [lia|exact E|].
      apply andb_true_iff in C1 as [C1 C2].
      unfold in_range, is_cont in *.
      destruct (b0 =? 224) eqn:B1; [|destruct (b0 =? 237) eqn:B2].
      all: (split; [|constructor; [lia|exact IH2]]).
      all: cbn [flat_map]; rewrite IH1; unfold utf8_encode.
      all: set (c := (b0 - 224) * 4096 + (b1 - 128) * 64 + (b2 - 128)).
      all: assert (c <? 128 = false) as -> by lia.
      all: assert (c <? 2048 = false) as -> by lia.
      all: assert (c <? 65536 = true) as -> by lia.
      all: assert (224 + c / 4096 = b0) as -> by lia.
      all: assert (128 + (c / 64) mod 64 = b1) as -> by lia.
      all: assert (128 + c mod 64 = b2) as -> by lia.
      all: reflexivity. }
    destruct t2 as [|b3 t3]; [discriminate|]. cbn [length] in Hlen.
    destruct (in_range 240 244 b0) eqn:E3; [|discriminate].
    match type of H with (if ?c then _ else _) = _ => destruct c eqn:C1; [|discriminate] end.
    destruct (utf8_decode t3) as [l|] eqn:E; cbn [option_map] in H; [|discriminate].
    injection H as <-. destruct (IHn t3 l) as [IH1 IH2]; [lia|exact E|].
    apply andb_true_iff in C1 as [C1 C3]. apply andb_true_iff in C1 as [C1 C2].
    unfold in_range, is_cont in *.
    destruct (b0 =? 240) eqn:B1; [|destruct (b0 =? 244) eqn:B2].
    all: (split; [|constructor; [lia|exact IH2]]).
    all: cbn [flat_map]; rewrite IH1; unfold utf8_encode.
    all: set (c := (b0 - 240) * 262144 + (b1 - 128) * 4096 + (b2 - 128) * 64 + (b3 - 128)).
    all: assert (c <? 128 = false) as -> by lia.
    all: assert (c <? 2048 = false) as -> by lia.
    all: assert (c <? 65536 = false) as -> by lia.
    all: assert (240 + c / 262144 = b0) as -> by lia.
    all: assert (128 + (c / 4096) mod 64 = b1) as -> by lia.
    all: assert (128 + (c / 64) mod 64 = b2) as -> by lia.
    all: assert (128 + c mod 64 = b3) as -> by lia.
    all: reflexivity.
Qed.

Theorem utf8_roundtrip : forall s cps, utf8_decode s = Some cps -> flat_map utf8_encode cps = s.
Proof.
  intros s cps H. exact (proj1 (utf8_decode_spec (length s) s cps (le_n _) H)).
Qed.

Lemma utf8_decode_bound s cps : utf8_decode s = Some cps -> Forall (fun c => c <= 1114111) cps.
Proof.
  intros H. exact (proj2 (utf8_decode_spec (length s) s cps (le_n _) H)).
Qed.

(** * Unfolding equations of the decoder state machine *)

Lemma un_nil_normal luau q : unescape_from luau q UNormal [] = Some [].
Proof. reflexivity. Qed.

Lemma un_normal_cons luau q c rest :
  unescape_from luau q UNormal (c :: rest) =
  if c =? 92 then unescape_from luau q UEsc rest
  else if (c =? q) || (c =? 10) || (c =? 13) then None
  else emit [c] (unescape_from luau q UNormal rest).
Proof. reflexivity. Qed.

Lemma un_normal_bs luau q rest :
  unescape_from luau q UNormal (92 :: rest) = unescape_from luau q UEsc rest.
Proof. reflexivity. Qed.

Lemma un_esc_simple luau q c v rest : simple_escape c = Some v ->
  unescape_from luau q UEsc (c :: rest) = emit [v] (unescape_from luau q UNormal rest).
Proof. intros H. cbn [unescape_from]. rewrite H. reflexivity. Qed.

Lemma un_dec_cons luau q v k c rest :
  unescape_from luau q (UDec v k) (c :: rest) =
  if is_digit c && Nat.ltb k 3 then unescape_from luau q (UDec (v * 10 + (c - 48)) (S k)) rest
  else if v <? 256 then emit [v] (unescape_from luau q UNormal (c :: rest)) else None.
Proof. reflexivity. Qed.

Lemma un_code_cons luau q v k c rest :
  unescape_from luau q (UCode v k) (c :: rest) =
  if is_hexdigit c then
    if v * 16 + unhexdigit c <=? 1114111
    then unescape_from luau q (UCode (v * 16 + unhexdigit c) (S k)) rest else None
  else if (c =? 125) && Nat.ltb 0 k then emit (utf8_encode v) (unescape_from luau q UNormal rest)
  else None.
Proof. reflexivity. Qed.

Lemma un_u_prefix q rest :
  unescape_from true q UNormal (92 :: 117 :: 123 :: rest) = unescape_from true q (UCode 0 0) rest.
Proof. reflexivity. Qed.

Lemma emit_some c r : emit c (Some r) = Some (c ++ r).
Proof. reflexivity. Qed.

(** * Decimal escapes *)

Lemma simple_escape_digit x : is_digit x = true -> simple_escape x = None.
Proof.
  unfold is_digit, simple_escape. intros H.
  repeat match goal with |- context [?a =? ?b] => destruct (a =? b) eqn:?; try lia end.
  reflexivity.
Qed.

Lemma un_esc_digit luau q d rest : is_digit d = true ->
  unescape_from luau q UEsc (d :: rest) = unescape_from luau q (UDec (d - 48) 1) rest.
Proof.
  intros H. cbn [unescape_from]. rewrite (simple_escape_digit d H), H. reflexivity.
Qed.

Lemma un_dec_step luau q v k d rest : is_digit d = true -> (k < 3)%nat ->
  unescape_from luau q (UDec v k) (d :: rest) =
  unescape_from luau q (UDec (v * 10 + (d - 48)) (S k)) rest.
Proof.
  intros H Hk. rewrite un_dec_cons, H.
  assert (Nat.ltb k 3 = true) as -> by (apply Nat.ltb_lt; exact Hk). reflexivity.
Qed.

Lemma un_dec_stop luau q v k R : v < 256 -> (k = 3%nat \/ next_is_digit_b R = false) ->
  unescape_from luau q (UDec v k) R = emit [v] (unescape_from luau q UNormal R).
Proof.
  intros Hv Hk. assert (Hv' : v <? 256 = true) by lia. destruct R as [|d R].
  - cbn [unescape_from]. rewrite Hv'. reflexivity.
  - rewrite un_dec_cons, Hv'.
    assert (is_digit d && Nat.ltb k 3 = false) as ->; [|reflexivity].
    destruct Hk as [->|Hk].
    + apply andb_false_r.
    + cbn [next_is_digit_b] in Hk. rewrite Hk. reflexivity.
Qed.

Lemma dec1 luau q x R c : is_digit x = true -> c = x - 48 -> next_is_digit_b R = false ->
  unescape_from luau q UNormal (92 :: x :: R) = emit [c] (unescape_from luau q UNormal R).
Proof.
  intros Hx -> HR. rewrite un_normal_bs, (un_esc_digit _ _ _ _ Hx).
  apply un_dec_stop; [unfold is_digit in Hx; lia | right; exact HR].
Qed.

Lemma dec2 luau q x y R c : is_digit x = true -> is_digit y = true ->
  c = (x - 48) * 10 + (y - 48) -> next_is_digit_b R = false ->
  unescape_from luau q UNormal (92 :: x :: y :: R) = emit [c] (unescape_from luau q UNormal R).
Proof.
  intros Hx Hy -> HR. rewrite un_normal_bs, (un_esc_digit _ _ _ _ Hx).
  rewrite (un_dec_step _ _ _ _ _ _ Hy) by lia.
  apply un_dec_stop; [unfold is_digit in *; lia | right; exact HR].
Qed.

Lemma dec3 luau q x y z R c : is_digit x = true -> is_digit y = true -> is_digit z = true ->
  c = ((x - 48) * 10 + (y - 48)) * 10 + (z - 48) -> c < 256 ->
  unescape_from luau q UNormal (92 :: x :: y :: z :: R) = emit [c] (unescape_from luau q UNormal R).
Proof.
  intros Hx Hy Hz -> Hc. rewrite un_normal_bs, (un_esc_digit _ _ _ _ Hx).
  rewrite (un_dec_step _ _ _ _ _ _ Hy) by lia.
  rewrite (un_dec_step _ _ _ _ _ _ Hz) by lia.
  apply un_dec_stop; [exact Hc | left; reflexivity].
Qed.

Definition dec_spec (c : N) : bytes :=
  if c <? 10 then [48 + c]
  else if c <? 100 then [48 + c / 10; 48 + c mod 10]
  else [48 + c / 100; 48 + (c / 10) mod 10; 48 + c mod 10].

Lemma dec_digits_byte c : c < 256 -> dec_digits c = dec_spec c.
Proof.
  intros Hc. apply bytes_eqb_eq.
  apply (byte_sweep (fun c => bytes_eqb (dec_digits c) (dec_spec c))); [vm_compute; reflexivity | exact Hc].
Qed.

Lemma dec_escape_decode luau q c nd R :
  c < 256 -> (next_is_digit_b R = true -> nd = true) ->
  unescape_from luau q UNormal ((92 :: (if nd then pad3 (dec_digits c) else dec_digits c)) ++ R)
  = emit [c] (unescape_from luau q UNormal R).
Proof.
  intros Hc Hnd. rewrite (dec_digits_byte c Hc). unfold dec_spec.
  assert (HR : nd = false -> next_is_digit_b R = false).
  { intros ->. destruct (next_is_digit_b R); [discriminate (Hnd eq_refl) | reflexivity]. }
  destruct (c <? 10) eqn:E1; [|destruct (c <? 100) eqn:E2]; destruct nd; cbn [pad3 app].
  - apply dec3; unfold is_digit; lia.
  - apply dec1; [unfold is_digit; lia | lia | auto].
  - apply dec3; unfold is_digit; lia.
  - apply dec2; [unfold is_digit; lia | unfold is_digit; lia | lia | auto].
  - apply dec3; unfold is_digit; lia.
  - apply dec3; unfold is_digit; lia.
Qed.

Lemma escape_hd c nd : exists tl, escape c nd = 92 :: tl.
Proof.
  unfold escape.
  repeat match goal with |- context [if ?a =? ?b then _ else _] => destruct (a =? b) end;
    eexists; reflexivity.
Qed.

Lemma escape_decode luau q c nd R :
  c < 256 -> (next_is_digit_b R = true -> nd = true) ->
  unescape_from luau q UNormal (escape c nd ++ R) = emit [c] (unescape_from luau q UNormal R).
Proof.
  intros Hc Hnd. unfold escape.
  repeat match goal with |- context [if ?a =? ?b then _ else _] =>
    destruct (a =? b) eqn:?E;
      [apply N.eqb_eq in E; rewrite E; reflexivity | clear E] end.
  apply dec_escape_decode; assumption.
Qed.

(** * Hexadecimal code-point escapes *)

Fixpoint hexval (v : N) (ds : bytes) : N :=
  match ds with
  | [] => v
  | d :: ds' => hexval (v * 16 + unhexdigit d) ds'
  end.

Lemma hexval_app v a b : hexval v (a ++ b) = hexval (hexval v a) b.
Proof. revert v; induction a as [|x a IH]; intros v; cbn [app hexval]; [reflexivity | apply IH]. Qed.

Lemma hexval_ge v ds : v <= hexval v ds.
Proof.
  revert v; induction ds as [|d ds IH]; intros v; cbn [hexval]; [lia|].
  specialize (IH (v * 16 + unhexdigit d)). lia.
Qed.

Lemma hdf_app f n acc : hex_digits_fuel f n acc = hex_digits_fuel f n [] ++ acc.
Proof.
  revert n acc; induction f as [|f IH]; intros n acc; cbn [hex_digits_fuel]; [reflexivity|].
  destruct (n <? 16); [reflexivity|].
  rewrite IH. rewrite (IH _ [_]). rewrite <- app_assoc. reflexivity.
Qed.

Lemma hexdigit_ok n : n < 16 -> is_hexdigit (hexdigit n) = true /\ unhexdigit (hexdigit n) = n.
Proof.
  intros Hn.
  pose (P := fun n => negb (n <? 16) || (is_hexdigit (hexdigit n) && (unhexdigit (hexdigit n) =? n))).
  assert (H : P n = true) by (apply byte_sweep; [vm_compute; reflexivity | lia]).
  unfold P in H; clear P. assert (n <? 16 = true) as E by lia. rewrite E in H. cbn [negb orb] in H.
  apply andb_true_iff in H as [H1 H2]. apply N.eqb_eq in H2. split; assumption.
Qed.

Lemma hdf_spec f n : n < 2 ^ N.of_nat f ->
  forallb is_hexdigit (hex_digits_fuel f n []) = true /\ hexval 0 (hex_digits_fuel f n []) = n.
Proof.
  revert n; induction f as [|f IH]; intros n Hn.
  - change (2 ^ N.of_nat 0) with 1 in Hn. cbn [hex_digits_fuel forallb hexval]. split; [reflexivity | lia].
  - cbn [hex_digits_fuel]. destruct (n <? 16) eqn:E.
    + destruct (hexdigit_ok n) as [A B]; [lia|].
      cbn [forallb hexval]. rewrite A, B. split; [reflexivity | lia].
    + rewrite hdf_app, forallb_app, hexval_app.
      rewrite Nat2N.inj_succ, N.pow_succ_r' in Hn.
      destruct (IH (n / 16)) as [A B].
      { remember (2 ^ N.of_nat f) as P. lia. }
      destruct (hexdigit_ok (n mod 16)) as [A' B']; [lia|].
      rewrite A, B. cbn [forallb hexval]. rewrite A', B'. split; [reflexivity | lia].
Qed.

Lemma fuel_ok n : n < 2 ^ N.of_nat (S (N.to_nat (N.log2 n))).
Proof.
  rewrite Nat2N.inj_succ, N2Nat.id. destruct (N.eq_dec n 0) as [->|Hn].
  - reflexivity.
  - apply N.log2_spec. lia.
Qed.

Lemma hex_digits_spec n :
  forallb is_hexdigit (hex_digits n) = true /\ hexval 0 (hex_digits n) = n /\ hex_digits n <> [].
Proof.
  unfold hex_digits. destruct (hdf_spec _ n (fuel_ok n)) as [A B]. split; [exact A|]. split; [exact B|].
  cbn [hex_digits_fuel]. destruct (n <? 16); [discriminate|].
  rewrite hdf_app. intros H. apply app_eq_nil in H as [_ H]. discriminate H.
Qed.

Lemma ucode_digits luau q ds : forall v k rest,
  forallb is_hexdigit ds = true -> hexval v ds <= 1114111 ->
  unescape_from luau q (UCode v k) (ds ++ rest)
  = unescape_from luau q (UCode (hexval v ds) (k + List.length ds)) rest.
Proof.
  induction ds as [|d ds IH]; intros v k rest Hd Hv.
  - cbn [app hexval List.length]. rewrite Nat.add_0_r. reflexivity.
  - cbn [forallb] in Hd. apply andb_true_iff in Hd as [Hd1 Hd2]. cbn [hexval] in Hv |- *.
    cbn [app]. rewrite un_code_cons, Hd1.
    pose proof (hexval_ge (v * 16 + unhexdigit d) ds) as Hge.
    assert (v * 16 + unhexdigit d <=? 1114111 = true) as -> by lia.
    rewrite IH by assumption. cbn [List.length]. rewrite Nat.add_succ_r. reflexivity.
Qed.

Lemma un_code_close luau q v k R : (0 < k)%nat ->
  unescape_from luau q (UCode v k) (125 :: R) = emit (utf8_encode v) (unescape_from luau q UNormal R).
Proof. intros Hk. destruct k; [lia|]. reflexivity. Qed.

Lemma u_escape_decode q c R : c <= 1114111 ->
  unescape_from true q UNormal (92 :: 117 :: 123 :: hex_digits c ++ 125 :: R)
  = emit (utf8_encode c) (unescape_from true q UNormal R).
Proof.
  intros Hc. destruct (hex_digits_spec c) as (A & B & C).
  rewrite un_u_prefix, ucode_digits by (try assumption; rewrite B; exact Hc).
  rewrite B. apply un_code_close. destruct (hex_digits c); [congruence | cbn [List.length]; lia].
Qed.

(** * The two loops of [write_quoted] *)

Lemma simple_escape_quote q : q = 34 \/ q = 39 -> simple_escape q = Some q.
Proof. intros [->| ->]; reflexivity. Qed.

Lemma needs_escaping_false c : needs_escaping c = false ->
  c <> 92 /\ c <> 10 /\ c <> 13 /\ c < 128.
Proof. unfold needs_escaping, is_graphic. intros H. lia. Qed.

Lemma raw_decode luau q c R : c <> q -> needs_escaping c = false ->
  unescape_from luau q UNormal (c :: R) = emit [c] (unescape_from luau q UNormal R).
Proof.
  intros Hq Hn. apply needs_escaping_false in Hn. rewrite un_normal_cons.
  assert (c =? 92 = false) as -> by lia.
  assert ((c =? q) || (c =? 10) || (c =? 13) = false) as -> by lia.
  reflexivity.
Qed.

Lemma quote_decode luau q R : q = 34 \/ q = 39 ->
  unescape_from luau q UNormal (92 :: q :: R) = emit [q] (unescape_from luau q UNormal R).
Proof. intros Hq. rewrite un_normal_bs. apply un_esc_simple, simple_escape_quote, Hq. Qed.

Lemma qb_first q rest :
  next_is_digit_b (quote_bytes q rest) = true -> next_is_digit_b rest = true.
Proof.
  destruct rest as [|n rest]; [intros H; exact H|]. cbn [quote_bytes].
  destruct (n =? q) eqn:E1.
  { cbn [app next_is_digit_b]. intros H. vm_compute in H. discriminate H. }
  destruct (needs_escaping n) eqn:E2.
  { destruct (escape_hd n (next_is_digit_b rest)) as [tl ->]. cbn [app next_is_digit_b].
    intros H. vm_compute in H. discriminate H. }
  cbn [app next_is_digit_b]. intros H; exact H.
Qed.

Lemma quote_bytes_decode luau q s : q = 34 \/ q = 39 -> wf_bytes s = true ->
  unescape_from luau q UNormal (quote_bytes q s) = Some s.
Proof.
  intros Hq. induction s as [|c rest IH]; intros Hwf; [reflexivity|].
  apply wf_cons in Hwf as [Hc Hwf]. specialize (IH Hwf). cbn [quote_bytes].
  destruct (c =? q) eqn:E1.
  { apply N.eqb_eq in E1; subst c. cbn [app]. rewrite quote_decode, IH by exact Hq. reflexivity. }
  destruct (needs_escaping c) eqn:E2.
  { rewrite escape_decode, IH; [reflexivity | exact Hc | apply qb_first]. }
  cbn [app]. rewrite raw_decode, IH; [reflexivity | lia | exact E2].
Qed.

Lemma qc_first q rest :
  next_is_digit_b (quote_chars q rest) = true -> next_is_digit_c rest = true.
Proof.
  destruct rest as [|n rest]; [intros H; exact H|]. cbn [quote_chars].
  destruct (n =? q) eqn:E1.
  { cbn [app next_is_digit_b]. intros H. vm_compute in H. discriminate H. }
  destruct ((128 <=? n) || needs_escaping n) eqn:E2.
  { destruct (n <? 128) eqn:E3.
    - destruct (escape_hd n (next_is_digit_c rest)) as [tl ->]. cbn [app next_is_digit_b].
      intros H. vm_compute in H. discriminate H.
    - cbn [app next_is_digit_b]. intros H. vm_compute in H. discriminate H. }
  cbn [app next_is_digit_b next_is_digit_c]. intros H.
  rewrite N.mod_small by lia. exact H.
Qed.

Lemma quote_chars_decode q cps : q = 34 \/ q = 39 -> Forall (fun c => c <= 1114111) cps ->
  unescape_from true q UNormal (quote_chars q cps) = Some (flat_map utf8_encode cps).
Proof.
  intros Hq. induction cps as [|c rest IH]; intros Hb; [reflexivity|].
  inversion Hb as [|? ? Hc Hb']; subst. specialize (IH Hb'). cbn [quote_chars flat_map].
  destruct (c =? q) eqn:E1.
  { apply N.eqb_eq in E1; subst c. cbn [app]. rewrite quote_decode, IH by exact Hq.
    unfold utf8_encode. assert (q <? 128 = true) as -> by lia. reflexivity. }
  destruct ((128 <=? c) || needs_escaping c) eqn:E2.
  { destruct (c <? 128) eqn:E3.
    - rewrite escape_decode, IH; [| lia | apply qc_first].
      unfold utf8_encode. rewrite E3. reflexivity.
    - rewrite <- !app_assoc. cbn [app]. rewrite u_escape_decode, IH by exact Hc. reflexivity. }
  apply orb_false_iff in E2 as [E2 E3].
  cbn [app]. rewrite raw_decode, IH; [| lia | exact E3].
  unfold utf8_encode. assert (c <? 128 = true) as -> by lia. reflexivity.
Qed.

(** on pure ASCII the char loop and the byte loop coincide *)
Lemma quote_chars_ascii q s : forallb (fun c => c <? 128) s = true -> quote_chars q s = quote_bytes q s.
Proof.
  induction s as [|c rest IH]; intros H; [reflexivity|].
  cbn [forallb] in H. apply andb_true_iff in H as [Hc H]. cbn [quote_chars quote_bytes].
  rewrite (IH H), Hc.
  assert (128 <=? c = false) as -> by lia. cbn [orb].
  assert (next_is_digit_c rest = next_is_digit_b rest) as ->; [|reflexivity].
  destruct rest as [|n rest]; [reflexivity|]. cbn [next_is_digit_c next_is_digit_b].
  cbn [forallb] in H. apply andb_true_iff in H as [Hn _]. rewrite N.mod_small by lia. reflexivity.
Qed.

Lemma utf8_decode_ascii s : forallb (fun c => c <? 128) s = true -> utf8_decode s = Some s.
Proof.
  induction s as [|c rest IH]; intros H; [reflexivity|].
  cbn [forallb] in H. apply andb_true_iff in H as [Hc H]. cbn [utf8_decode].
  rewrite Hc, (IH H). reflexivity.
Qed.

(** * Quoted literals *)

Lemma get_quote_symbol_cases s : get_quote_symbol s = 34 \/ get_quote_symbol s = 39.
Proof.
  unfold get_quote_symbol. destruct (existsb (N.eqb 34) s); [right; reflexivity|].
  destruct (existsb (N.eqb 39) s); [left|right]; reflexivity.
Qed.

Lemma decode_quoted_wrap luau q body : q = 34 \/ q = 39 ->
  decode_quoted luau (q :: body ++ [q]) = unescape luau q body.
Proof.
  intros Hq. unfold decode_quoted.
  assert ((q =? 34) || (q =? 39) = true) as -> by lia.
  rewrite rev_unit, N.eqb_refl, rev_involutive. reflexivity.
Qed.

Theorem quoted_roundtrip_luau : forall s, wf_bytes s = true -> decode_quoted true (write_quoted s) = Some s.
Proof.
  intros s Hwf. unfold write_quoted. cbv zeta.
  pose proof (get_quote_symbol_cases s) as Hq.
  rewrite decode_quoted_wrap by exact Hq. unfold unescape, quoted_body. cbv zeta.
  destruct (utf8_decode s) as [cps|] eqn:E.
  - rewrite quote_chars_decode; [| exact Hq | exact (utf8_decode_bound _ _ E)].
    rewrite (utf8_roundtrip _ _ E). reflexivity.
  - apply quote_bytes_decode; assumption.
Qed.

Theorem quoted_roundtrip_51 : forall s, wf_bytes s = true ->
  (utf8_decode s = None \/ forallb (fun c => c <? 128) s = true) ->
  decode_quoted false (write_quoted s) = Some s.
Proof.
  intros s Hwf H. unfold write_quoted. cbv zeta.
  pose proof (get_quote_symbol_cases s) as Hq.
  rewrite decode_quoted_wrap by exact Hq. unfold unescape, quoted_body. cbv zeta.
  destruct H as [H|H].
  - rewrite H. apply quote_bytes_decode; assumption.
  - rewrite (utf8_decode_ascii s H), (quote_chars_ascii _ s H).
    apply quote_bytes_decode; assumption.
Qed.

(** * Long brackets *)

Lemma prefix_b_len p s : prefix_b p s = true -> (List.length p <= List.length s)%nat.
Proof.
  revert s; induction p as [|x p IH]; intros s H; cbn [List.length]; [lia|].
  destruct s as [|y s]; cbn [prefix_b] in H; [discriminate|].
  apply andb_true_iff in H as [_ H]. apply IH in H. cbn [List.length]. lia.
Qed.

Lemma prefix_b_app p r : prefix_b p (p ++ r) = true.
Proof. induction p as [|x p IH]; cbn [prefix_b app]; [reflexivity|]. rewrite N.eqb_refl, IH. reflexivity. Qed.

Lemma find_sub_unfold p s :
  find_sub p s = prefix_b p s || match s with [] => false | _ :: s' => find_sub p s' end.
Proof. destruct s; reflexivity. Qed.

Lemma suffix_b_unfold p s :
  suffix_b p s = bytes_eqb p s || match s with [] => false | _ :: s' => suffix_b p s' end.
Proof. destruct s; reflexivity. Qed.

Lemma tuc_unfold cl s :
  take_until_closer cl s =
  if prefix_b cl s then Some ([], skipn (List.length cl) s)
  else match s with
       | [] => None
       | c :: s' => match take_until_closer cl s' with
                    | Some (a, b) => Some (c :: a, b)
                    | None => None
                    end
       end.
Proof. destruct s; reflexivity. Qed.

Lemma find_sub_len p s : find_sub p s = true -> (List.length p <= List.length s)%nat.
Proof.
  induction s as [|y s IH]; rewrite find_sub_unfold; intros H; apply orb_true_iff in H as [H|H].
  - apply prefix_b_len, H.
  - discriminate.
  - apply prefix_b_len, H.
  - apply IH in H. cbn [List.length]. lia.
Qed.

Lemma suffix_b_len p s : suffix_b p s = true -> (List.length p <= List.length s)%nat.
Proof.
  induction s as [|y s IH]; rewrite suffix_b_unfold; intros H; apply orb_true_iff in H as [H|H].
  - apply bytes_eqb_eq in H. subst. lia.
  - discriminate.
  - apply bytes_eqb_eq in H. subst. lia.
  - apply IH in H. cbn [List.length]. lia.
Qed.

Lemma find_sub_app p a b : prefix_b p b = true -> find_sub p (a ++ b) = true.
Proof.
  intros H. induction a as [|x a IH]; rewrite find_sub_unfold; cbn [app].
  - rewrite H. reflexivity.
  - rewrite IH. apply orb_true_r.
Qed.

Lemma suffix_b_app p a : suffix_b p (a ++ p) = true.
Proof.
  induction a as [|x a IH]; rewrite suffix_b_unfold; cbn [app].
  - assert (bytes_eqb p p = true) as -> by (apply bytes_eqb_eq; reflexivity). reflexivity.
  - rewrite IH. apply orb_true_r.
Qed.

Lemma closer_len i : List.length (closer i) = (i + 2)%nat.
Proof. unfold closer. cbn [List.length]. rewrite app_length, repeat_length. cbn [List.length]. lia. Qed.

Lemma half_closer_len i : List.length (half_closer i) = (i + 1)%nat.
Proof. unfold half_closer. cbn [List.length]. rewrite repeat_length. lia. Qed.

(** the level search stops at a level that has no occurrence *)
Lemma find_level_exit : forall f s i, (List.length s < i + f)%nat ->
  let j := find_level f s i in
  find_sub (closer j) s = false /\ suffix_b (half_closer j) s = false.
Proof.
  induction f as [|f IH]; intros s i Hlen; cbn [find_level].
  - cbv zeta. split.
    + destruct (find_sub (closer i) s) eqn:E; [|reflexivity].
      apply find_sub_len in E. rewrite closer_len in E. lia.
    + destruct (suffix_b (half_closer i) s) eqn:E; [|reflexivity].
      apply suffix_b_len in E. rewrite half_closer_len in E. lia.
  - destruct (find_sub (closer i) s || suffix_b (half_closer i) s) eqn:E.
    + apply IH. lia.
    + cbv zeta. apply orb_false_iff in E. exact E.
Qed.

Lemma long_bracket_level_exit s :
  let j := long_bracket_level s in
  find_sub (closer j) s = false /\ suffix_b (half_closer j) s = false.
Proof. unfold long_bracket_level. apply find_level_exit. destruct (ends_with_b s 93); lia. Qed.

(** matching "="^j "]" against [b' ++ "]" ...]: the match lies inside [b'], or [b'] is "="^j *)
Lemma eqs_match j : forall b' T,
  prefix_b (repeat 61 j ++ [93]) (b' ++ 93 :: T) = true ->
  prefix_b (repeat 61 j ++ [93]) b' = true \/ b' = repeat 61 j.
Proof.
  induction j as [|j IH]; intros b' T H; cbn [repeat app] in *.
  - destruct b' as [|x b']; [right; reflexivity|]. left. cbn [app prefix_b] in *. exact H.
  - destruct b' as [|x b']; cbn [app prefix_b] in H.
    + apply andb_true_iff in H as [H _]. vm_compute in H. discriminate H.
    + apply andb_true_iff in H as [H1 H2]. apply N.eqb_eq in H1. subst x.
      destruct (IH _ _ H2) as [H|H].
      * left. cbn [prefix_b]. rewrite H. reflexivity.
      * right. rewrite H. reflexivity.
Qed.

Lemma no_early_closer i s : find_sub (closer i) s = false -> suffix_b (half_closer i) s = false ->
  forall a b, s = a ++ b -> b <> [] -> prefix_b (closer i) (b ++ closer i) = false.
Proof.
  intros H1 H2 a b -> Hb.
  destruct (prefix_b (closer i) (b ++ closer i)) eqn:E; [exfalso|reflexivity].
  destruct b as [|x b']; [congruence|].
  unfold closer in E at 1 2. cbn [app prefix_b] in E.
  apply andb_true_iff in E as [Ex E]. apply N.eqb_eq in Ex. subst x.
  apply eqs_match in E as [E|E].
  - rewrite find_sub_app in H1; [discriminate|].
    unfold closer. cbn [prefix_b]. rewrite E. reflexivity.
  - subst b'. change (93 :: repeat 61 i) with (half_closer i) in H2.
    rewrite suffix_b_app in H2. discriminate.
Qed.

Lemma tuc_exact cl : forall s,
  (forall a b, s = a ++ b -> b <> [] -> prefix_b cl (b ++ cl) = false) ->
  take_until_closer cl (s ++ cl) = Some (s, []).
Proof.
  induction s as [|c s IH]; intros H; rewrite tuc_unfold; cbn [app].
  - pose proof (prefix_b_app cl []) as Hp. rewrite app_nil_r in Hp.
    rewrite Hp, skipn_all. reflexivity.
  - change (c :: s ++ cl) with ((c :: s) ++ cl). rewrite (H [] (c :: s)) by (reflexivity || discriminate).
    cbn [app]. rewrite IH; [reflexivity|].
    intros a b -> Hb. apply (H (c :: a) b); [reflexivity | exact Hb].
Qed.

Definition strip_nl (t2 : bytes) : bytes :=
  match t2 with
  | 13 :: 10 :: t' => t'
  | 10 :: 13 :: t' => t'
  | 10 :: t' => t'
  | 13 :: t' => t'
  | _ => t2
  end.

Lemma decode_long_eq t :
  decode_long (91 :: t) =
  let '(n, t1) := strip_eqs t 0 in
  match t1 with
  | 91 :: t2 => take_until_closer (closer n) (strip_nl t2)
  | _ => None
  end.
Proof. reflexivity. Qed.

Lemma strip_eqs_repeat i : forall n X, strip_eqs (repeat 61 i ++ 91 :: X) n = ((n + i)%nat, 91 :: X).
Proof.
  induction i as [|i IH]; intros n X; cbn [repeat app].
  - rewrite Nat.add_0_r. reflexivity.
  - change (strip_eqs (61 :: repeat 61 i ++ 91 :: X) n) with (strip_eqs (repeat 61 i ++ 91 :: X) (S n)).
    rewrite IH. f_equal. lia.
Qed.

Lemma strip_nl_other c t : c <> 10 -> c <> 13 -> strip_nl (c :: t) = c :: t.
Proof.
  intros H10 H13. unfold strip_nl. destruct c as [|p]; [reflexivity|].
  repeat (destruct p as [p|p|]; try reflexivity); congruence.
Qed.

Lemma no_cr s : existsb needs_quoted_string s = false -> forall c t, s = c :: t -> c <> 13.
Proof.
  intros H c t -> ->. cbn [existsb] in H. vm_compute in H. discriminate H.
Qed.

Theorem long_roundtrip : forall s t, wf_bytes s = true -> existsb needs_quoted_string s = false ->
  write_long_bracket s = Some t -> decode_long t = Some (s, []).
Proof.
  intros s t Hwf Hnq H. unfold write_long_bracket in H.
  destruct (utf8_decode s) as [cps|]; [|discriminate]. cbv zeta in H. injection H as <-.
  set (i := long_bracket_level s).
  pose proof (long_bracket_level_exit s) as [L1 L2]. fold i in L1, L2.
  cbn [app]. rewrite decode_long_eq, strip_eqs_repeat. cbn [Nat.add].
  change (93 :: repeat 61 i ++ [93]) with (closer i).
  assert (Hstrip : strip_nl (match s with 10 :: _ => [10] | _ => [] end ++ s ++ closer i) = s ++ closer i).
  { destruct s as [|c s'] eqn:Es.
    - reflexivity.
    - destruct (N.eq_dec c 10) as [->|Hc].
      + cbn [app]. destruct s' as [|c' s'']; [reflexivity|].
        assert (c' <> 13).
        { intros ->. cbn [existsb] in Hnq. vm_compute in Hnq. discriminate Hnq. }
        cbn [app]. unfold strip_nl.
        destruct c' as [|p]; [reflexivity|].
        repeat (destruct p as [p|p|]; try reflexivity); congruence.
      + assert (c <> 13) by (eapply no_cr; [exact Hnq | reflexivity]).
        assert (match c :: s' with 10 :: _ => [10] | _ => [] end = []) as ->.
        { destruct c as [|p]; [reflexivity|].
          repeat (destruct p as [p|p|]; try reflexivity); congruence. }
        cbn [app]. apply strip_nl_other; assumption. }
  rewrite Hstrip. apply tuc_exact. apply (no_early_closer i s L1 L2).
Qed.

(** * [write_string] *)

Lemma decode_literal_quoted luau s :
  decode_literal luau (write_quoted s) = decode_quoted luau (write_quoted s).
Proof.
  unfold write_quoted. cbv zeta. destruct (get_quote_symbol_cases s) as [-> | ->]; reflexivity.
Qed.

Lemma decode_literal_long luau t :
  decode_literal luau (91 :: t) =
  match decode_long (91 :: t) with
  | Some (v, []) => Some (norm_newlines luau v)
  | _ => None
  end.
Proof. reflexivity. Qed.

(** a text without carriage return is left alone by the reader's line-break normalisation *)
Lemma norm_newlines_id luau : forall s,
  existsb (N.eqb 13) s = false -> norm_newlines luau s = s.
Proof.
  induction s as [|c r IH]; intros H; [reflexivity|].
  cbn [existsb] in H. apply orb_false_iff in H as [Hc Hr].
  cbn [norm_newlines].
  assert (Hc' : (c =? 13) = false) by (rewrite N.eqb_sym; exact Hc).
  rewrite Hc'.
  destruct (c =? 10) eqn:E10.
  - apply N.eqb_eq in E10. subst c.
    destruct r as [|d r']; [reflexivity|].
    cbn [existsb] in Hr. apply orb_false_iff in Hr as [Hd Hr'].
    assert (Hd13 : d <> 13) by (intros ->; discriminate).
    rewrite (IH (proj2 (orb_false_iff _ _) (conj Hd Hr'))).
    destruct d as [|p]; [reflexivity|].
    do 4 (destruct p as [p|p|]; try reflexivity); exfalso; apply Hd13; reflexivity.
  - rewrite (IH Hr). reflexivity.
Qed.

Lemma no_quoted_no_cr : forall s, existsb needs_quoted_string s = false -> existsb (N.eqb 13) s = false.
Proof.
  induction s as [|c r IH]; intros H; [reflexivity|].
  cbn [existsb] in *. apply orb_false_iff in H as [Hc Hr].
  rewrite (IH Hr), orb_false_r.
  destruct (13 =? c) eqn:E; [|reflexivity].
  apply N.eqb_eq in E. subst c. discriminate.
Qed.

Lemma write_string_single c : c < 256 -> decode_literal true (write_string [c]) = Some [c].
Proof.
  intros Hc.
  pose (P := fun c => match decode_literal true (write_string [c]) with
                      | Some r => bytes_eqb r [c]
                      | None => false
                      end).
  assert (H : P c = true) by (apply byte_sweep; [vm_compute; reflexivity | exact Hc]).
  unfold P in H; clear P.
  destruct (decode_literal true (write_string [c])) as [r|]; [|discriminate].
  apply bytes_eqb_eq in H. rewrite H. reflexivity.
Qed.

Lemma write_string_general c1 c2 s' :
  write_string (c1 :: c2 :: s') =
  let s := c1 :: c2 :: s' in
  if negb (existsb needs_quoted_string s)
     && Nat.leb LONG_STRING_MIN_LENGTH (List.length s)
     && (Nat.leb QUOTED_STRING_MAX_LENGTH (List.length s)
         || Nat.leb FORCE_LONG_STRING_NEW_LINE_THRESHOLD (count_b 10 s))
  then match write_long_bracket s with
       | Some t => t
       | None => write_quoted s
       end
  else write_quoted s.
Proof. reflexivity. Qed.

Theorem write_string_roundtrip : forall s, wf_bytes s = true -> decode_literal true (write_string s) = Some s.
Proof.
  intros s Hwf.
  assert (HQ : decode_literal true (write_quoted s) = Some s).
  { rewrite decode_literal_quoted. apply quoted_roundtrip_luau, Hwf. }
  destruct s as [|c1 [|c2 s']].
  - reflexivity.
  - apply wf_cons in Hwf as [Hc _]. apply write_string_single, Hc.
  - rewrite write_string_general. cbv zeta.
    remember (c1 :: c2 :: s') as s eqn:Es.
    match goal with |- context [if ?c then _ else _] => destruct c eqn:C end; [|exact HQ].
    destruct (write_long_bracket s) as [t|] eqn:W; [|exact HQ].
    apply andb_true_iff in C as [C _]. apply andb_true_iff in C as [C _].
    apply negb_true_iff in C.
    pose proof (long_roundtrip s t Hwf C W) as D.
    assert (exists t', t = 91 :: t') as [t' ->].
    { unfold write_long_bracket in W. destruct (utf8_decode s); [|discriminate].
      cbv zeta in W. injection W as <-. eexists; reflexivity. }
    rewrite decode_literal_long, D.
    rewrite (norm_newlines_id true s (no_quoted_no_cr s C)). reflexivity.
Qed.
