(** C17, inject_global_value: [ValueInjection] (src/rules/inject_value.rs) replaces a read of the
    global [X] - written [X], [_G.X] or [_G["X"]], at a place where no local of that name
    ([X], respectively [_G]) is in scope - by the literal expression of the configured value.
    The reference behaviour is the original program run with the global [X] preset to that value.

    - scalars (null, booleans, strings, numbers): the literal evaluates, in any store and any
      environment, with any fuel >= 5, to exactly the configured value (numbers bit for bit) and
      leaves the store alone ([inject_scalar_expr_sound]); so wherever the read of the global
      yields that value without running code, the original node and the injected node agree
      ([inject_ident_sound], [inject_field_sound], [inject_index_sound], [inject_prefix_sound]);
    - arrays and objects: the injected expression is the one the serializer of C14 builds
      ([inject_table_sound]); it evaluates to a FRESH table whose content is the configured value
      ([inject_table_value_sound], [inject_table_value_sound_exact]).  A table has an identity:
      each occurrence of the literal makes a new table where the preset global is ONE table, so a
      program that compares [X == X] (or mutates [X]) tells the two apart
      ([inject_table_identity_refuted]).

    Each theorem about numbers comes in two forms: unconditional (every JSON integer; rests on
    Flocq's rounding theorem through [EvaluatorF64.valid_of_Z], i.e. on the classical reals) and
    [_exact] (hypothesis [ints_exact (json_data j)]: integers below 2^53 in absolute value; closed
    under the global context).  None of the theorems uses fuel monotonicity
    (Proof/LoweringFuel.v).  Fuel bounds: 5 for a literal (least: [inject_scalar_fuel_tight]),
    7 for the parenthesised literal of prefix position. *)
From Coq Require Import ZArith NArith List Bool String Lia.
From Coq Require Import Floats.SpecFloat.
From DL Require Import Lib.Bytes Lib.F64 Lua.Syntax Lua.Sem Lua.EvalSpec Lua.DataSpec.
From DL Require Import Model.Evaluator Model.Removal.
From DL Require Model.Serializer Model.DefaultRules.
From DL Require Import Proof.SemFacts Proof.EvaluatorF64 Proof.EvaluatorStore Proof.DefaultRulesSem.
From DL Require Import Proof.DefaultRulesSoundExpr Proof.RefactorSem.
From DL Require Import Proof.SerializerF64 Proof.SerializerSound Proof.SerializerTheorems.
Import ListNotations.
Open Scope N_scope.
Local Notation len := List.length.

(** * the configured value as a Lua value *)

Definition scalar_value (j : json) : option value :=
  match j with
  | JNull => Some VNil
  | JBool b => Some (VBool b)
  | JStr s => Some (VStr s)
  | JInt z => Some (VNum (of_Z z))
  | JFloat bits => Some (VNum (of_bits bits))
  | JArr _ | JObj _ => None
  end.

Definition is_table_json (j : json) : Prop :=
  match j with JArr _ | JObj _ => True | _ => False end.

(** [_G] denotes the globals table *)
Definition G_is_globals (rho : env) (s : store) : Prop := reads rho nm_G s (VTable A_globals).

(** the global [x] holds [v] and reading the field runs no code *)
Definition global_holds (x : name) (s : store) (v : value) : Prop :=
  exists t, nth_N (tables s) (N.to_nat A_globals) = Some t /\
            raw_get (t_entries t) (VStr x) = v /\
            (v <> VNil \/ t_meta t = None).

Lemma bytes_eqb_refl a : bytes_eqb a a = true.
Proof. apply bytes_eqb_eq. reflexivity. Qed.

(** * what the hooks do at the three node shapes *)

Lemma inject_expr_ident x e sc : in_scope x sc = false -> inject_expr x e sc (EIdent x) = e.
Proof. intros H. cbn [inject_expr]. rewrite bytes_eqb_refl, H. reflexivity. Qed.

Lemma inject_expr_field x e sc :
  in_scope nm_G sc = false -> inject_expr x e sc (EField (EIdent nm_G) x) = e.
Proof. intros H. cbn [inject_expr]. rewrite !bytes_eqb_refl, H. reflexivity. Qed.

Lemma inject_expr_index x e sc :
  in_scope nm_G sc = false -> inject_expr x e sc (EIndex (EIdent nm_G) (EString x)) = e.
Proof. intros H. cbn [inject_expr]. rewrite !bytes_eqb_refl, H. reflexivity. Qed.

Lemma inject_prefix_ident x e sc : in_scope x sc = false -> inject_prefix x e sc (EIdent x) = EParen e.
Proof. intros H. cbn [inject_prefix]. rewrite bytes_eqb_refl, H. reflexivity. Qed.

(** a shadowed name is left alone *)
Lemma inject_expr_shadowed x e sc : in_scope x sc = true -> inject_expr x e sc (EIdent x) = EIdent x.
Proof. intros H. cbn [inject_expr]. rewrite H, andb_false_r. reflexivity. Qed.

(** * integers

    [DecimalNumber::new(v as f64)] keeps the double; the model's [of_Z z] is a valid binary64 for
    every [z] by Flocq's rounding theorem (classical reals: its axioms show in [Print Assumptions]
    of the unconditional theorems below); for |z| < 2^53 the double is [z] itself and no axiom
    is needed (the [_exact] variants, hypothesis [ints_exact (json_data j)] of C14). *)
Definition int_valid (j : json) : Prop :=
  match j with JInt z => valid (of_Z z) | _ => True end.

Lemma int_valid_all j : int_valid j.
Proof. destruct j; cbn [int_valid]; auto. apply valid_of_Z. Qed.

Lemma valid_of_Z_small z : (Z.abs z < 9007199254740992)%Z -> valid (of_Z z).
Proof.
  intros H. unfold valid. destruct z as [|p|p].
  - reflexivity.
  - rewrite of_Z_pos_small by lia. cbn [valid_binary]. apply small_repr_bounded. lia.
  - rewrite of_Z_neg_small by lia. cbn [valid_binary]. apply small_repr_bounded. lia.
Qed.

Lemma int_valid_exact j : ints_exact (json_data j) -> int_valid j.
Proof. destruct j; cbn [int_valid json_data ints_exact]; auto. apply valid_of_Z_small. Qed.

Section Inject.
Variable d : dialect.

(** * scalars *)

Lemma inject_scalar_expr_core j v e rho va s :
  int_valid j -> scalar_value j = Some v -> value_expr j = Some e ->
  forall k, (5 <= k)%nat -> eval d k rho va e s = Ok [v] s.
Proof.
  intros Hi Hv He k L. do 5 (destruct k as [|k]; [lia|]).
  destruct j as [|b|z|bits|str|items|fields]; cbn [scalar_value] in Hv; try discriminate Hv;
    inversion Hv; subst v; clear Hv; cbn [value_expr] in He; cbn [int_valid] in Hi.
  - inversion He; subst e. reflexivity.
  - destruct b; inversion He; subst e; reflexivity.
  - destruct ((0 <=? z)%Z && (z <? 18446744073709551616)%Z); inversion He; subst e.
    + apply eval_dec. exact Hi.
    + apply lit_of_f64_eval. exact Hi.
  - inversion He; subst e. apply lit_of_f64_eval. apply valid_of_bits.
  - inversion He; subst e. reflexivity.
Qed.

Theorem inject_scalar_expr_sound j v e rho va s :
  scalar_value j = Some v -> value_expr j = Some e ->
  forall k, (5 <= k)%nat -> eval d k rho va e s = Ok [v] s.
Proof. apply inject_scalar_expr_core, int_valid_all. Qed.

Theorem inject_scalar_expr_sound_exact j v e rho va s :
  ints_exact (json_data j) -> scalar_value j = Some v -> value_expr j = Some e ->
  forall k, (5 <= k)%nat -> eval d k rho va e s = Ok [v] s.
Proof. intros Hx. apply inject_scalar_expr_core, int_valid_exact, Hx. Qed.

(** what the four theorems below need of the literal: it evaluates to [v] without effect *)
Definition literal_of (e : expr) (v : value) : Prop :=
  forall rho va s k, (5 <= k)%nat -> eval d k rho va e s = Ok [v] s.

Lemma literal_of_scalar j v e : scalar_value j = Some v -> value_expr j = Some e -> literal_of e v.
Proof. intros Hv He rho va s k L. eapply inject_scalar_expr_sound; eauto. Qed.

Lemma literal_of_scalar_exact j v e :
  ints_exact (json_data j) -> scalar_value j = Some v -> value_expr j = Some e -> literal_of e v.
Proof. intros Hx Hv He rho va s k L. eapply inject_scalar_expr_sound_exact; eauto. Qed.

(** * [X] in expression position *)

Lemma inject_ident_core v e x sc rho va s :
  literal_of e v -> in_scope x sc = false -> reads rho x s v ->
  forall k, (5 <= k)%nat ->
  eval d k rho va (EIdent x) s = Ok [v] s /\
  eval d k rho va (inject_expr x e sc (EIdent x)) s = Ok [v] s.
Proof.
  intros Hlit Hsc Hr k L. split.
  - apply reads_eval; [exact Hr|lia].
  - rewrite (inject_expr_ident _ _ _ Hsc). apply Hlit. exact L.
Qed.

Theorem inject_ident_sound j v e x sc rho va s :
  scalar_value j = Some v -> value_expr j = Some e -> in_scope x sc = false ->
  reads rho x s v ->
  forall k, (5 <= k)%nat ->
  eval d k rho va (EIdent x) s = Ok [v] s /\
  eval d k rho va (inject_expr x e sc (EIdent x)) s = Ok [v] s.
Proof. intros Hv He. apply inject_ident_core. eapply literal_of_scalar; eauto. Qed.

Theorem inject_ident_sound_exact j v e x sc rho va s :
  ints_exact (json_data j) ->
  scalar_value j = Some v -> value_expr j = Some e -> in_scope x sc = false ->
  reads rho x s v ->
  forall k, (5 <= k)%nat ->
  eval d k rho va (EIdent x) s = Ok [v] s /\
  eval d k rho va (inject_expr x e sc (EIdent x)) s = Ok [v] s.
Proof. intros Hx Hv He. apply inject_ident_core. eapply literal_of_scalar_exact; eauto. Qed.

(** * [X] in prefix position: [X.f], [X[k]], [X(...)], [X :: T<...>] *)

Lemma inject_prefix_core v e x sc rho va s :
  literal_of e v -> in_scope x sc = false -> reads rho x s v ->
  forall k, (7 <= k)%nat ->
  inject_prefix x e sc (EIdent x) = EParen e /\
  eval d k rho va (EIdent x) s = Ok [v] s /\
  eval d k rho va (EParen e) s = Ok [v] s.
Proof.
  intros Hlit Hsc Hr k L. split; [exact (inject_prefix_ident _ _ _ Hsc)|]. split.
  - apply reads_eval; [exact Hr|lia].
  - destruct k as [|[|k]]; try lia. rewrite eval_S_paren. eapply bind_ok_intro.
    { rewrite eval1_S. eapply bind_ok_intro; [|reflexivity]. apply Hlit. lia. }
    reflexivity.
Qed.

Theorem inject_prefix_sound j v e x sc rho va s :
  scalar_value j = Some v -> value_expr j = Some e -> in_scope x sc = false ->
  reads rho x s v ->
  forall k, (7 <= k)%nat ->
  inject_prefix x e sc (EIdent x) = EParen e /\
  eval d k rho va (EIdent x) s = Ok [v] s /\
  eval d k rho va (EParen e) s = Ok [v] s.
Proof. intros Hv He. apply inject_prefix_core. eapply literal_of_scalar; eauto. Qed.

Theorem inject_prefix_sound_exact j v e x sc rho va s :
  ints_exact (json_data j) ->
  scalar_value j = Some v -> value_expr j = Some e -> in_scope x sc = false ->
  reads rho x s v ->
  forall k, (7 <= k)%nat ->
  inject_prefix x e sc (EIdent x) = EParen e /\
  eval d k rho va (EIdent x) s = Ok [v] s /\
  eval d k rho va (EParen e) s = Ok [v] s.
Proof. intros Hx Hv He. apply inject_prefix_core. eapply literal_of_scalar_exact; eauto. Qed.

(** * [_G.X] and [_G["X"]] *)

Lemma global_holds_index x s v n : global_holds x s v -> index d (S n) (VTable A_globals) (VStr x) s = Ok v s.
Proof.
  intros (t & Ht & Hg & Hk).
  destruct Hk as [Hk|Hk].
  - rewrite (index_raw_hit d n A_globals (VStr x) s t Ht); cbn [norm_key]; [rewrite Hg; reflexivity|].
    rewrite Hg. exact Hk.
  - destruct v; try (rewrite (index_raw_hit d n A_globals (VStr x) s t Ht); cbn [norm_key];
                     [rewrite Hg; reflexivity|rewrite Hg; discriminate]).
    apply (index_plain_miss d n A_globals (VStr x) s t Ht Hk). cbn [norm_key]. exact Hg.
Qed.

(** a global that [global_holds] is read by its plain name too, unless the value is [nil] and the
    name is one of the [ext...] names the reference interpreter defaults *)
Lemma global_holds_reads rho x s v :
  lookup rho x = None -> global_holds x s v -> (v <> VNil \/ is_ext_name x = false) -> reads rho x s v.
Proof.
  intros Hl (t & Ht & Hg & Hk) Hx. unfold reads. rewrite Hl. exists t. split; [exact Ht|].
  rewrite Hg. split; [exact Hk|]. unfold global_default.
  destruct v; try reflexivity. destruct Hx as [Hx|Hx]; [congruence|]. rewrite Hx. reflexivity.
Qed.

Lemma inject_field_core v e x sc rho va s :
  literal_of e v -> in_scope nm_G sc = false -> G_is_globals rho s -> global_holds x s v ->
  forall k, (5 <= k)%nat ->
  eval d k rho va (EField (EIdent nm_G) x) s = Ok [v] s /\
  eval d k rho va (inject_expr x e sc (EField (EIdent nm_G) x)) s = Ok [v] s.
Proof.
  intros Hlit Hsc HG Hx k L. split.
  - do 2 (destruct k as [|k]; [lia|]). rewrite eval_S_field.
    eapply bind_ok_intro; [apply (reads_eval1 d _ _ _ _ _ _ HG); lia|].
    eapply bind_ok_intro; [apply global_holds_index; exact Hx|reflexivity].
  - rewrite (inject_expr_field _ _ _ Hsc). apply Hlit. exact L.
Qed.

Lemma inject_index_core v e x sc rho va s :
  literal_of e v -> in_scope nm_G sc = false -> G_is_globals rho s -> global_holds x s v ->
  forall k, (5 <= k)%nat ->
  eval d k rho va (EIndex (EIdent nm_G) (EString x)) s = Ok [v] s /\
  eval d k rho va (inject_expr x e sc (EIndex (EIdent nm_G) (EString x))) s = Ok [v] s.
Proof.
  intros Hlit Hsc HG Hx k L. split.
  - do 3 (destruct k as [|k]; [lia|]). rewrite eval_S_index.
    eapply bind_ok_intro; [apply (reads_eval1 d _ _ _ _ _ _ HG); lia|].
    eapply bind_ok_intro; [rewrite eval1_S, eval_S_string; reflexivity|].
    eapply bind_ok_intro; [apply global_holds_index; exact Hx|reflexivity].
  - rewrite (inject_expr_index _ _ _ Hsc). apply Hlit. exact L.
Qed.

Theorem inject_field_sound j v e x sc rho va s :
  scalar_value j = Some v -> value_expr j = Some e -> in_scope nm_G sc = false ->
  G_is_globals rho s -> global_holds x s v ->
  forall k, (5 <= k)%nat ->
  eval d k rho va (EField (EIdent nm_G) x) s = Ok [v] s /\
  eval d k rho va (inject_expr x e sc (EField (EIdent nm_G) x)) s = Ok [v] s.
Proof. intros Hv He. apply inject_field_core. eapply literal_of_scalar; eauto. Qed.

Theorem inject_field_sound_exact j v e x sc rho va s :
  ints_exact (json_data j) ->
  scalar_value j = Some v -> value_expr j = Some e -> in_scope nm_G sc = false ->
  G_is_globals rho s -> global_holds x s v ->
  forall k, (5 <= k)%nat ->
  eval d k rho va (EField (EIdent nm_G) x) s = Ok [v] s /\
  eval d k rho va (inject_expr x e sc (EField (EIdent nm_G) x)) s = Ok [v] s.
Proof. intros Hx Hv He. apply inject_field_core. eapply literal_of_scalar_exact; eauto. Qed.

Theorem inject_index_sound j v e x sc rho va s :
  scalar_value j = Some v -> value_expr j = Some e -> in_scope nm_G sc = false ->
  G_is_globals rho s -> global_holds x s v ->
  forall k, (5 <= k)%nat ->
  eval d k rho va (EIndex (EIdent nm_G) (EString x)) s = Ok [v] s /\
  eval d k rho va (inject_expr x e sc (EIndex (EIdent nm_G) (EString x))) s = Ok [v] s.
Proof. intros Hv He. apply inject_index_core. eapply literal_of_scalar; eauto. Qed.

Theorem inject_index_sound_exact j v e x sc rho va s :
  ints_exact (json_data j) ->
  scalar_value j = Some v -> value_expr j = Some e -> in_scope nm_G sc = false ->
  G_is_globals rho s -> global_holds x s v ->
  forall k, (5 <= k)%nat ->
  eval d k rho va (EIndex (EIdent nm_G) (EString x)) s = Ok [v] s /\
  eval d k rho va (inject_expr x e sc (EIndex (EIdent nm_G) (EString x))) s = Ok [v] s.
Proof. intros Hx Hv He. apply inject_index_core. eapply literal_of_scalar_exact; eauto. Qed.

(** * arrays and objects *)

Lemma all_strings_entries items : forall l,
  all_strings items = Some l ->
  Serializer.seq_entries (map json_data items) = Some (map (fun s => TValue (EString s)) l).
Proof.
  induction items as [|j items IH]; intros l H.
  - inversion H; subst l. reflexivity.
  - unfold all_strings in H. cbn [fold_right] in H. fold (all_strings items) in H.
    destruct j; try discriminate H.
    destruct (all_strings items) as [l'|]; [|discriminate H]. inversion H; subst l.
    cbn [map json_data Serializer.seq_entries Serializer.to_expression]. rewrite (IH l' eq_refl). reflexivity.
Qed.

(** the StringList variant and the Array variant of [RulePropertyValue] give the same expression *)
Theorem inject_table_sound j e :
  value_expr j = Some e -> is_table_json j -> Serializer.to_expression (json_data j) = Some e.
Proof.
  intros He Ht. destruct j as [|b|z|bits|str|items|fields]; try contradiction; cbn [value_expr] in He.
  - destruct (all_strings items) as [l|] eqn:El; [|exact He].
    inversion He; subst e. cbn [json_data]. rewrite to_expression_seq, (all_strings_entries _ _ El). reflexivity.
  - exact He.
Qed.

Lemma inject_table_value_core j e :
  ints_ok (json_data j) ->
  value_expr j = Some e -> is_table_json j -> wf_keys (json_data j) -> seq_len_ok (json_data j) ->
  forall k rho va s, (size (json_data j) <= k)%nat ->
  exists a s', eval d k rho va e s = Ok [VTable a] s' /\
    (len (tables s) <= N.to_nat a)%nat /\
    (forall b t, nth_N (tables s) b = Some t -> nth_N (tables s') b = Some t) /\
    value_denotes_from (len (tables s)) s' (VTable a) (json_data j).
Proof.
  intros Hi He Ht Hw Hl k rho va s L.
  pose proof (inject_table_sound _ _ He Ht) as Hs.
  destruct (serialize_sound_fuel _ _ Hi Hw Hl Hs d k rho va s L) as (v & s' & E & K & D).
  assert (Ha : exists a, v = VTable a /\ (len (tables s) <= N.to_nat a)%nat).
  { destruct j; try contradiction; cbn [json_data] in D; inversion D; subst; eauto. }
  destruct Ha as (a & -> & Ha). exists a, s'. auto.
Qed.

(** every integer of the value (uses Flocq's rounding theorems, hence classical reals) *)
Theorem inject_table_value_sound j e :
  value_expr j = Some e -> is_table_json j -> wf_keys (json_data j) -> seq_len_ok (json_data j) ->
  forall k rho va s, (size (json_data j) <= k)%nat ->
  exists a s', eval d k rho va e s = Ok [VTable a] s' /\
    (len (tables s) <= N.to_nat a)%nat /\
    (forall b t, nth_N (tables s) b = Some t -> nth_N (tables s') b = Some t) /\
    value_denotes_from (len (tables s)) s' (VTable a) (json_data j).
Proof. intros. eapply inject_table_value_core; eauto. apply ints_ok_all. Qed.

(** integers below 2^53 in absolute value: no axiom *)
Theorem inject_table_value_sound_exact j e :
  ints_exact (json_data j) ->
  value_expr j = Some e -> is_table_json j -> wf_keys (json_data j) -> seq_len_ok (json_data j) ->
  forall k rho va s, (size (json_data j) <= k)%nat ->
  exists a s', eval d k rho va e s = Ok [VTable a] s' /\
    (len (tables s) <= N.to_nat a)%nat /\
    (forall b t, nth_N (tables s) b = Some t -> nth_N (tables s') b = Some t) /\
    value_denotes_from (len (tables s)) s' (VTable a) (json_data j).
Proof. intros. eapply inject_table_value_core; eauto. now apply ints_exact_ok. Qed.

End Inject.

(** * the fuel bound 5 is the least one: [-inf] is written [-1 / 0] *)
Example inject_scalar_fuel_tight :
  value_expr (JFloat 18442240474082181120) = Some (EBinary BDiv (EUnary UMinus (DefaultRules.dec fone)) (DefaultRules.dec fzero)) /\
  eval L51 4 [] [] (EBinary BDiv (EUnary UMinus (DefaultRules.dec fone)) (DefaultRules.dec fzero)) (initial_store []) = Fuel.
Proof. split; vm_compute; reflexivity. Qed.

(** * satisfiable hypotheses *)

Definition nm_X : name := of_string "X".

(** the initial store with one more global *)
Definition store_with_global (x : name) (v : value) (more : list table) : store :=
  match initial_tables with
  | g :: rest =>
    mkStore [] (mkTable ((VStr x, v) :: t_entries g) (t_meta g) :: rest ++ more) [] [] [] 0
  | [] => initial_store []
  end.

Definition st_X3 : store := store_with_global nm_X (VNum (of_Z 3)) [].

Example st_X3_reads : reads [] nm_X st_X3 (VNum (of_Z 3)).
Proof.
  unfold reads. cbn [lookup]. eexists. split; [vm_compute; reflexivity|].
  split; [left; vm_compute; discriminate|vm_compute; reflexivity].
Qed.

Example st_X3_holds : global_holds nm_X st_X3 (VNum (of_Z 3)).
Proof.
  eexists. split; [vm_compute; reflexivity|]. split; [vm_compute; reflexivity|left; discriminate].
Qed.

Example st_X3_G : G_is_globals [] st_X3.
Proof.
  unfold G_is_globals, reads. cbn [lookup]. eexists. split; [vm_compute; reflexivity|].
  split; [left; vm_compute; discriminate|vm_compute; reflexivity].
Qed.

Example inject_ident_example :
  scalar_value (JInt 3) = Some (VNum (of_Z 3)) /\
  (exists e, value_expr (JInt 3) = Some e /\
     eval L51 5 [] [] (EIdent nm_X) st_X3 = Ok [VNum (of_Z 3)] st_X3 /\
     eval L51 5 [] [] (inject_expr nm_X e [] (EIdent nm_X)) st_X3 = Ok [VNum (of_Z 3)] st_X3 /\
     eval L51 5 [] [] (EField (EIdent nm_G) nm_X) st_X3 = Ok [VNum (of_Z 3)] st_X3 /\
     eval L51 5 [] [] (inject_expr nm_X e [] (EField (EIdent nm_G) nm_X)) st_X3 = Ok [VNum (of_Z 3)] st_X3 /\
     eval L51 5 [] [] (EIndex (EIdent nm_G) (EString nm_X)) st_X3 = Ok [VNum (of_Z 3)] st_X3 /\
     eval L51 5 [] [] (inject_expr nm_X e [] (EIndex (EIdent nm_G) (EString nm_X))) st_X3 = Ok [VNum (of_Z 3)] st_X3 /\
     eval L51 7 [] [] (inject_prefix nm_X e [] (EIdent nm_X)) st_X3 = Ok [VNum (of_Z 3)] st_X3).
Proof. split; [reflexivity|]. eexists. split; [reflexivity|]. repeat split; vm_compute; reflexivity. Qed.

(** a [null] value: the global is absent *)
Example inject_null_example :
  reads [] nm_X (initial_store []) VNil /\ value_expr JNull = Some ENil /\
  eval L51 5 [] [] (EIdent nm_X) (initial_store []) = Ok [VNil] (initial_store []).
Proof.
  split; [|split; vm_compute; reflexivity].
  unfold reads. cbn [lookup]. eexists. split; [vm_compute; reflexivity|].
  split; [right; reflexivity|vm_compute; reflexivity].
Qed.

(** a table value: [{"a", "b"}] (StringList) and [{x = 1}] (Map) *)
Example inject_table_example :
  exists e1 e2,
    value_expr (JArr [JStr (of_string "a"); JStr (of_string "b")]) = Some e1 /\
    Serializer.to_expression (json_data (JArr [JStr (of_string "a"); JStr (of_string "b")])) = Some e1 /\
    value_expr (JObj [(of_string "x", JInt 1)]) = Some e2 /\
    wf_keys (json_data (JObj [(of_string "x", JInt 1)])) /\
    seq_len_ok (json_data (JObj [(of_string "x", JInt 1)])) /\
    ints_exact (json_data (JObj [(of_string "x", JInt 1)])).
Proof.
  eexists. eexists. split; [vm_compute; reflexivity|]. split; [vm_compute; reflexivity|].
  split; [vm_compute; reflexivity|]. cbn. repeat split; try discriminate; lia.
Qed.

(** * tables have an identity *)

(** the global [X] preset to ONE empty table (address 7, the first one after the initial tables) *)
Definition st_Xtab : store := store_with_global nm_X (VTable 7) [mkTable [] None].

(** [X == X] is true when the global [X] holds the configured (empty) array, and false once both
    reads are replaced by the table literal: the rule is not behaviour preserving for programs
    that observe the identity of a configured array / object (comparison, mutation, use as a key) *)
Theorem inject_table_identity_refuted :
  exists j e s0 s1 s2,
    value_expr j = Some e /\ is_table_json j /\
    reads [] nm_X s0 (VTable 7) /\ value_denotes s0 (VTable 7) (json_data j) /\
    eval L51 8 [] [] (EBinary BEq (EIdent nm_X) (EIdent nm_X)) s0 = Ok [VBool true] s1 /\
    eval L51 8 [] [] (EBinary BEq (inject_expr nm_X e [] (EIdent nm_X)) (inject_expr nm_X e [] (EIdent nm_X))) s0
      = Ok [VBool false] s2.
Proof.
  exists (JArr []), (ETable []), st_Xtab. eexists. eexists.
  split; [reflexivity|]. split; [exact I|]. split.
  { unfold reads. cbn [lookup]. eexists. split; [vm_compute; reflexivity|].
    split; [left; vm_compute; discriminate|vm_compute; reflexivity]. }
  split.
  { cbn [json_data map]. apply (VD_seq 0 st_Xtab 7 (mkTable [] None) []).
    - lia.
    - vm_compute; reflexivity.
    - reflexivity.
    - intros [|i] dd Hn; discriminate Hn.
    - intros k _. reflexivity. }
  split; vm_compute; reflexivity.
Qed.

(** the same in the initial store, for the literal alone *)
Example table_literal_not_self_equal :
  exists s', eval L51 8 [] [] (EBinary BEq (ETable []) (ETable [])) (initial_store []) = Ok [VBool false] s'.
Proof. eexists. vm_compute. reflexivity. Qed.
