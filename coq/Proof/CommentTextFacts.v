(** Facts about [Model/CommentText.v]: the comment built by [append_text_comment] is read by
    the reference comment lexer as exactly one comment (outside two recorded defect classes),
    and the trivia filters keep every code token. *)
From DL Require Import Lib.Bytes Model.CommentText.
Require Import Lia ZArith ZifyBool ZifyN ZifyNat.
Open Scope N_scope.
Local Notation length := List.length.
Arguments N.eqb : simpl never.
Arguments N.leb : simpl never.
Arguments N.ltb : simpl never.

(** * Generic list facts *)

Lemma prefix_b_length p s : prefix_b p s = true -> (length p <= length s)%nat.
Proof.
  revert s; induction p as [|x p IH]; intros [|y s] H; cbn [prefix_b length] in *; try lia; try discriminate.
  apply andb_true_iff in H as [_ H]. apply IH in H. lia.
Qed.

Lemma find_sub_length p s : find_sub p s = true -> (length p <= length s)%nat.
Proof.
  induction s as [|y s IH]; cbn [find_sub]; intros H.
  - rewrite orb_false_r in H. apply prefix_b_length in H. exact H.
  - apply orb_true_iff in H as [H|H].
    + apply prefix_b_length in H. exact H.
    + apply IH in H. cbn [length]. lia.
Qed.

Lemma prefix_b_app p w : prefix_b p (p ++ w) = true.
Proof. induction p as [|x p IH]; cbn [prefix_b app]; [reflexivity|]. rewrite N.eqb_refl. exact IH. Qed.

Lemma find_sub_cons p c s : find_sub p (c :: s) = prefix_b p (c :: s) || find_sub p s.
Proof. reflexivity. Qed.

Lemma long_closer_length n : length (long_closer n) = S (S n).
Proof. unfold long_closer. cbn [length]. rewrite app_length, repeat_length. cbn. lia. Qed.

Lemma long_closer_no_lf n : existsb (N.eqb 10) (long_closer n) = false.
Proof.
  unfold long_closer. cbn [existsb]. rewrite existsb_app. cbn [existsb].
  assert (H : existsb (N.eqb 10) (repeat 61 n) = false).
  { induction n as [|n IH]; cbn [repeat existsb]; [reflexivity|]. rewrite IH. reflexivity. }
  rewrite H. reflexivity.
Qed.

(** * The level search terminates on a level whose closer and opener are both absent *)

Lemma long_opener_length n : length (long_opener n) = S (S n).
Proof. unfold long_opener. cbn [length]. rewrite app_length, repeat_length. cbn. lia. Qed.

Lemma find_level_ok : forall fuel s n, (length s <= fuel + n)%nat ->
  find_sub (long_closer (find_level fuel s n)) s = false /\
  find_sub (long_opener (find_level fuel s n)) s = false.
Proof.
  induction fuel as [|f IH]; intros s n Hlen; cbn [find_level].
  - split.
    + destruct (find_sub (long_closer n) s) eqn:E; [|reflexivity].
      apply find_sub_length in E. rewrite long_closer_length in E. lia.
    + destruct (find_sub (long_opener n) s) eqn:E; [|reflexivity].
      apply find_sub_length in E. rewrite long_opener_length in E. lia.
  - destruct (find_sub (long_closer n) s || find_sub (long_opener n) s) eqn:E.
    + apply IH. lia.
    + apply orb_false_iff in E. exact E.
Qed.

Lemma comment_level_ok s :
  find_sub (long_closer (comment_level s)) s = false /\ find_sub (long_opener (comment_level s)) s = false.
Proof. unfold comment_level. apply find_level_ok. lia. Qed.

(** the level is the least one: every lower level has its closer or its opener in the text *)
Lemma find_level_least : forall fuel s n m, (n <= m)%nat -> (m < find_level fuel s n)%nat ->
  find_sub (long_closer m) s || find_sub (long_opener m) s = true.
Proof.
  induction fuel as [|f IH]; intros s n m Hnm Hm; cbn [find_level] in Hm; [lia|].
  destruct (find_sub (long_closer n) s || find_sub (long_opener n) s) eqn:E; [|lia].
  destruct (Nat.eq_dec n m) as [->|Hne]; [exact E|].
  apply (IH s (S n) m); [lia|exact Hm].
Qed.

Lemma comment_level_least s m : (m < comment_level s)%nat ->
  find_sub (long_closer m) s || find_sub (long_opener m) s = true.
Proof. intros H. apply (find_level_least (S (length s)) s 0 m); [lia|exact H]. Qed.

(** * The reference lexer on an opener *)

Lemma count_eqs_repeat n k rest : (forall t, rest <> 61 :: t) ->
  count_eqs (repeat 61 n ++ rest) k = ((k + n)%nat, rest).
Proof.
  revert k; induction n as [|n IH]; intros k Hrest; cbn [repeat app].
  - destruct rest as [|c rest]; cbn [count_eqs]; [f_equal; lia|].
    destruct (N.eq_dec c 61) as [->|Hc]; [exfalso; eapply Hrest; reflexivity|].
    replace (k + 0)%nat with k by lia.
    destruct c as [|p]; [reflexivity|].
    do 6 (destruct p as [p|p|]; try reflexivity). all: try (exfalso; apply Hc; reflexivity).
    all: destruct p; reflexivity.
  - cbn [count_eqs]. rewrite IH by exact Hrest. f_equal. lia.
Qed.

Lemma long_open_opener n rest : long_open (long_opener n ++ rest) = Some (n, rest).
Proof.
  unfold long_opener, long_open. cbn [app]. rewrite <- app_assoc. cbn [app].
  rewrite count_eqs_repeat by (intros t H; discriminate). reflexivity.
Qed.

(** * Long comments: the first closer is the comment's own *)

(** a closer without LF that is a prefix of [x ++ LF :: w] is a prefix of [x] *)
Lemma prefix_before_lf cl x w : existsb (N.eqb 10) cl = false ->
  prefix_b cl (x ++ 10 :: w) = true -> prefix_b cl x = true.
Proof.
  revert x; induction cl as [|c cl IH]; intros x Hcl H; [reflexivity|].
  cbn [existsb] in Hcl. apply orb_false_iff in Hcl as [Hc Hcl].
  destruct x as [|y x]; cbn [app prefix_b] in *.
  - apply andb_true_iff in H as [H _]. rewrite N.eqb_sym in Hc. congruence.
  - apply andb_true_iff in H as [H1 H2]. rewrite H1. cbn [andb]. apply IH; assumption.
Qed.

Lemma find_end_prefix cl s : prefix_b cl s = true -> find_end cl s = Some (length cl).
Proof. intros H. destruct s; cbn [find_end]; rewrite H; reflexivity. Qed.

Lemma find_end_skip cl c s : prefix_b cl (c :: s) = false ->
  find_end cl (c :: s) = option_map S (find_end cl s).
Proof. intros H. cbn [find_end]. rewrite H. reflexivity. Qed.

Lemma find_end_own_closer cl x follow : cl <> [] -> existsb (N.eqb 10) cl = false ->
  find_sub cl x = false ->
  find_end cl (x ++ 10 :: cl ++ follow) = Some (length x + 1 + length cl)%nat.
Proof.
  intros Hne Hcl. induction x as [|y x IH]; intros Hx.
  - cbn [app length]. rewrite find_end_skip.
    + rewrite find_end_prefix by apply prefix_b_app. reflexivity.
    + destruct cl as [|c cl]; [congruence|].
      cbn [existsb] in Hcl. apply orb_false_iff in Hcl as [Hc _].
      cbn [prefix_b]. rewrite N.eqb_sym in Hc. rewrite Hc. reflexivity.
  - rewrite find_sub_cons in Hx. apply orb_false_iff in Hx as [Hp Hx].
    cbn [app]. rewrite find_end_skip.
    + rewrite (IH Hx). cbn [option_map length]. f_equal.
    + destruct (prefix_b cl (y :: x ++ 10 :: cl ++ follow)) eqn:E; [|reflexivity].
      change (y :: x ++ 10 :: cl ++ follow) with ((y :: x) ++ 10 :: cl ++ follow) in E.
      apply prefix_before_lf in E; [congruence|exact Hcl].
Qed.

Lemma long_closer_nonempty n : long_closer n <> [].
Proof. unfold long_closer. discriminate. Qed.

(** * Short comments *)

Lemma line_len_app x follow : existsb is_eol x = false -> line_follow follow = true ->
  line_len (x ++ follow) = length x.
Proof.
  intros Hx Hf. induction x as [|c x IH]; cbn [app line_len length].
  - destruct follow as [|c f]; [reflexivity|]. cbn [line_follow] in Hf. cbn [line_len]. rewrite Hf. reflexivity.
  - cbn [existsb] in Hx. apply orb_false_iff in Hx as [Hc Hx]. rewrite Hc. f_equal. exact (IH Hx).
Qed.

Lemma existsb_is_eol s : has_lf s = false -> has_cr s = false -> existsb is_eol s = false.
Proof.
  unfold has_lf, has_cr, is_eol. induction s as [|c s IH]; cbn [existsb]; [reflexivity|].
  intros H1 H2. apply orb_false_iff in H1 as [A1 B1]. apply orb_false_iff in H2 as [A2 B2].
  rewrite (IH B1 B2). rewrite N.eqb_sym in A1. rewrite N.eqb_sym in A2. rewrite A1, A2. reflexivity.
Qed.

(** an opener cannot be completed by what follows a short comment (a line break or nothing) *)
Lemma count_eqs_app_follow s k follow : line_follow follow = true ->
  count_eqs (s ++ follow) k = (fst (count_eqs s k), snd (count_eqs s k) ++ follow) \/
  (snd (count_eqs s k) = [] /\ count_eqs (s ++ follow) k = (fst (count_eqs s k), follow)).
Proof.
  intros Hf. revert k; induction s as [|c s IH]; intros k.
  - right. cbn [app count_eqs]. split; [reflexivity|].
    destruct follow as [|c f]; [reflexivity|]. cbn [line_follow] in Hf. unfold is_eol in Hf.
    cbn [count_eqs]. destruct (N.eq_dec c 61) as [->|Hc]; [discriminate|].
    destruct c as [|p]; [reflexivity|].
    do 6 (destruct p as [p|p|]; try reflexivity). all: try (exfalso; apply Hc; reflexivity).
    all: destruct p; reflexivity.
  - destruct (N.eq_dec c 61) as [->|Hc].
    + cbn [app count_eqs]. apply IH.
    + left. assert (E : forall t, count_eqs (c :: t) k = (k, c :: t)).
      { intros t. destruct c as [|p]; [reflexivity|].
        do 6 (destruct p as [p|p|]; try reflexivity). all: try (exfalso; apply Hc; reflexivity).
        all: destruct p; reflexivity. }
      cbn [app]. rewrite !E. reflexivity.
Qed.

Lemma long_open_app_follow s follow : line_follow follow = true ->
  long_open s = None -> long_open (s ++ follow) = None.
Proof.
  intros Hf H. destruct s as [|c s].
  - cbn [app]. destruct follow as [|c f]; [reflexivity|]. cbn [line_follow] in Hf. unfold is_eol in Hf.
    unfold long_open. destruct (N.eq_dec c 91) as [->|Hc]; [discriminate|].
    destruct c as [|p]; [reflexivity|].
    do 7 (destruct p as [p|p|]; try reflexivity). all: exfalso; apply Hc; reflexivity.
  - cbn [app]. unfold long_open in *.
    destruct (N.eq_dec c 91) as [->|Hc].
    2:{ destruct c as [|p]; [reflexivity|].
        do 7 (destruct p as [p|p|]; try reflexivity). all: exfalso; apply Hc; reflexivity. }
    destruct (count_eqs_app_follow s 0 follow Hf) as [E|[E1 E2]].
    + rewrite E. destruct (count_eqs s 0) as [n t1] eqn:E0. cbn [fst snd] in *.
      destruct t1 as [|d t1].
      * cbn [app]. destruct follow as [|d f]; [reflexivity|]. cbn [line_follow] in Hf. unfold is_eol in Hf.
        destruct (N.eq_dec d 91) as [->|Hd]; [discriminate|].
        destruct d as [|p]; [reflexivity|].
        do 7 (destruct p as [p|p|]; try reflexivity). all: exfalso; apply Hd; reflexivity.
      * cbn [app]. destruct (N.eq_dec d 91) as [->|Hd]; [discriminate|].
        destruct d as [|p]; [reflexivity|].
        do 7 (destruct p as [p|p|]; try reflexivity). all: exfalso; apply Hd; reflexivity.
    + rewrite E2. destruct (count_eqs s 0) as [n t1] eqn:E0. cbn [fst snd] in *. subst t1.
      destruct follow as [|d f]; [reflexivity|]. cbn [line_follow] in Hf. unfold is_eol in Hf.
      destruct (N.eq_dec d 91) as [->|Hd]; [discriminate|].
      destruct d as [|p]; [reflexivity|].
      do 7 (destruct p as [p|p|]; try reflexivity). all: exfalso; apply Hd; reflexivity.
Qed.

(** * The main theorems *)

Lemma skip_eqs_count_eqs s n : skip_eqs s = snd (count_eqs s n).
Proof.
  revert n; induction s as [|c s IH]; intros n; [reflexivity|].
  destruct (N.eq_dec c 61) as [->|Hc].
  - cbn [skip_eqs count_eqs]. apply IH.
  - destruct c as [|p]; [reflexivity|].
    do 6 (destruct p as [p|p|]; try reflexivity). all: try (exfalso; apply Hc; reflexivity).
    all: destruct p; reflexivity.
Qed.

(** [starts_with_long_bracket] of the rule = "a long-bracket opener is at the head" of the reference lexer *)
Lemma starts_agrees t :
  starts_with_long_bracket t = match long_open t with Some _ => true | None => false end.
Proof.
  unfold starts_with_long_bracket, long_open.
  destruct t as [|c t]; [reflexivity|].
  destruct (N.eq_dec c 91) as [->|Hc].
  - rewrite (skip_eqs_count_eqs t 0). destruct (count_eqs t 0) as [n t1]. cbn [snd].
    destruct t1 as [|d t1]; [reflexivity|].
    destruct (N.eq_dec d 91) as [->|Hd]; [reflexivity|].
    destruct d as [|p]; [reflexivity|].
    do 7 (destruct p as [p|p|]; try reflexivity). all: exfalso; apply Hd; reflexivity.
  - destruct c as [|p]; [reflexivity|].
    do 7 (destruct p as [p|p|]; try reflexivity). all: exfalso; apply Hc; reflexivity.
Qed.

Lemma block_form_false text : block_form text = false ->
  has_lf text = false /\ has_cr text = false /\ long_open text = None.
Proof.
  unfold block_form. intros H. apply orb_false_iff in H as [H H3]. apply orb_false_iff in H as [H1 H2].
  repeat split; try assumption. rewrite starts_agrees in H3. destruct (long_open text); [discriminate|reflexivity].
Qed.

Lemma comment_of_block text : text <> [] -> block_form text = true ->
  comment_of text = [45; 45] ++ long_opener (comment_level text) ++ [10] ++ text ++ [10] ++ long_closer (comment_level text).
Proof. intros Hne H. unfold comment_of. destruct text; [congruence|]. rewrite H. reflexivity. Qed.

Lemma comment_of_line text : text <> [] -> block_form text = false -> comment_of text = [45; 45] ++ text.
Proof. intros Hne H. unfold comment_of. destruct text; [congruence|]. rewrite H. reflexivity. Qed.

Lemma block_form_nonempty text : block_form text = true -> text <> [].
Proof. intros H E. subst. discriminate. Qed.

(** texts written in the long form (a line break, a carriage return, or a leading opener): closed
    whatever follows *)
Theorem block_comment_closed : forall text follow, block_form text = true ->
  lex_comment (comment_of text ++ follow) = Some (length (comment_of text)).
Proof.
  intros text follow Hb. rewrite (comment_of_block text (block_form_nonempty _ Hb) Hb).
  set (n := comment_level text).
  cbn [app]. unfold lex_comment.
  replace (long_opener n ++ 10 :: text ++ 10 :: long_closer n)
    with (long_opener n ++ (10 :: text ++ 10 :: long_closer n)) by reflexivity.
  rewrite <- app_assoc. rewrite long_open_opener.
  replace ((10 :: text ++ 10 :: long_closer n) ++ follow)
    with ((10 :: text) ++ 10 :: long_closer n ++ follow).
  2:{ cbn [app]. rewrite <- app_assoc. reflexivity. }
  rewrite find_end_own_closer.
  - cbn [option_map]. f_equal. cbn [length]. rewrite !app_length. cbn [length].
    unfold long_opener. cbn [length]. rewrite !app_length, repeat_length, long_closer_length.
    cbn [length]. rewrite ?long_closer_length. lia.
  - apply long_closer_nonempty.
  - apply long_closer_no_lf.
  - rewrite find_sub_cons. apply orb_false_iff. split; [reflexivity | apply comment_level_ok].
Qed.

(** all other texts: closed when followed by a line break or nothing *)
Theorem line_comment_closed : forall text follow, text <> [] -> block_form text = false ->
  line_follow follow = true ->
  lex_comment (comment_of text ++ follow) = Some (length (comment_of text)).
Proof.
  intros text follow Hne Hb Hf. rewrite (comment_of_line text Hne Hb).
  destruct (block_form_false text Hb) as [Hlf [Hcr Hop]].
  cbn [app]. unfold lex_comment.
  rewrite (long_open_app_follow _ _ Hf Hop).
  rewrite line_len_app; [reflexivity | apply existsb_is_eol; assumption | exact Hf].
Qed.

(** no carve-out any more (before /repo commit d1a6e5c: texts starting with a long-bracket opener
    and texts with a carriage return had to be excluded) *)
Theorem comment_closed : forall text follow, text <> [] ->
  (block_form text = true \/ line_follow follow = true) ->
  lex_comment (comment_of text ++ follow) = Some (length (comment_of text)).
Proof.
  intros text follow Hne Hf. destruct (block_form text) eqn:Hb.
  - apply block_comment_closed. exact Hb.
  - destruct Hf as [Hf|Hf]; [discriminate|]. apply line_comment_closed; assumption.
Qed.

(** ** Lua 5.1: no "[[" nested in a level-0 long comment *)

Lemma find_sub_lf_wrap p x : p <> [] -> existsb (N.eqb 10) p = false ->
  find_sub p x = false -> find_sub p (10 :: x ++ [10]) = false.
Proof.
  intros Hne Hp Hx.
  assert (Hhd : forall w, prefix_b p (10 :: w) = false).
  { intros w. destruct p as [|c p]; [congruence|]. cbn [existsb] in Hp. apply orb_false_iff in Hp as [Hc _].
    cbn [prefix_b]. rewrite N.eqb_sym in Hc. rewrite Hc. reflexivity. }
  rewrite find_sub_cons, Hhd. cbn [orb].
  induction x as [|c x IH].
  - cbn [app]. rewrite find_sub_cons, Hhd. cbn [orb find_sub]. destruct p; [congruence|reflexivity].
  - rewrite find_sub_cons in Hx. apply orb_false_iff in Hx as [H1 H2].
    cbn [app]. rewrite find_sub_cons. apply orb_false_iff. split; [|apply IH, H2].
    destruct (prefix_b p (c :: x ++ [10])) eqn:E; [|reflexivity].
    change (c :: x ++ [10]) with ((c :: x) ++ 10 :: []) in E.
    apply prefix_before_lf in E; [congruence|exact Hp].
Qed.

Lemma firstn_app_exact {T} (a b : list T) : firstn (length a) (a ++ b) = a.
Proof. induction a as [|x a IH]; [destruct b; reflexivity|]. cbn [length app firstn]. rewrite IH. reflexivity. Qed.

Theorem comment_closed_51 : forall text follow, text <> [] ->
  (block_form text = true \/ line_follow follow = true) ->
  lex_comment51 (comment_of text ++ follow) = Some (length (comment_of text)).
Proof.
  intros text follow Hne Hf. pose proof (comment_closed text follow Hne Hf) as H.
  destruct (block_form text) eqn:Hb.
  2:{ (* a short comment: the two lexers are the same function *)
      rewrite (comment_of_line text Hne Hb) in *. cbn [app] in *. unfold lex_comment51. unfold lex_comment in H.
      destruct (block_form_false text Hb) as [_ [_ Hop]].
      destruct Hf as [Hf|Hf]; [discriminate|].
      rewrite (long_open_app_follow _ _ Hf Hop) in *. exact H. }
  rewrite (comment_of_block text Hne Hb) in *.
  set (n := comment_level text) in *.
  cbn [app] in *. unfold lex_comment51. unfold lex_comment in H.
  replace (long_opener n ++ 10 :: text ++ 10 :: long_closer n)
    with (long_opener n ++ (10 :: text ++ 10 :: long_closer n)) in * by reflexivity.
  rewrite <- app_assoc in *. rewrite long_open_opener in *.
  replace ((10 :: text ++ 10 :: long_closer n) ++ follow)
    with ((10 :: text) ++ 10 :: long_closer n ++ follow) in *.
  2:{ cbn [app]. rewrite <- app_assoc. reflexivity. }
  assert (Hfe : find_end (long_closer n) ((10 :: text) ++ 10 :: long_closer n ++ follow)
                = Some (S (length text) + 1 + length (long_closer n))%nat).
  { change (S (length text)) with (length (10 :: text)). apply find_end_own_closer; [apply long_closer_nonempty|apply long_closer_no_lf|].
    rewrite find_sub_cons. apply orb_false_iff. split; [reflexivity|apply comment_level_ok]. }
  rewrite Hfe in *. cbn [option_map] in H.
  destruct (Nat.eqb n 0) eqn:En; [|exact H].
  apply Nat.eqb_eq in En. cbn [andb].
  assert (Hnest : find_sub [91; 91] (firstn (S (length text) + 1 + length (long_closer n) - 2)%nat
                                            ((10 :: text) ++ 10 :: long_closer n ++ follow)) = false).
  { rewrite long_closer_length, En.
    replace (S (length text) + 1 + 2 - 2)%nat with (length ((10 :: text) ++ [10])) by (rewrite app_length; cbn [length]; lia).
    replace ((10 :: text) ++ 10 :: long_closer 0 ++ follow) with (((10 :: text) ++ [10]) ++ long_closer 0 ++ follow)
      by (rewrite <- app_assoc; reflexivity).
    rewrite firstn_app_exact. cbn [app].
    apply find_sub_lf_wrap; [discriminate|reflexivity|].
    pose proof (comment_level_ok text) as [_ Ho]. fold n in Ho. rewrite En in Ho. exact Ho. }
  rewrite Hnest. exact H.
Qed.

(** the texts that used to break out (recorded before d1a6e5c) are now held by a long comment *)
Example formerly_opener_text :
  let text := of_string "[[ hello" in
  comment_of text = of_string "--[=[" ++ [10] ++ text ++ [10] ++ of_string "]=]" /\
  lex_comment (comment_of text ++ of_string "print(1)]]") = Some (length (comment_of text)).
Proof. vm_compute. split; reflexivity. Qed.

Example formerly_cr_text :
  let text := [97; 13; 112; 114; 105; 110; 116; 40; 50; 41] in   (* "a\rprint(2)" *)
  comment_of text = of_string "--[[" ++ [10] ++ text ++ [10] ++ of_string "]]" /\
  lex_comment (comment_of text ++ [10]) = Some (length (comment_of text)).
Proof. vm_compute. split; reflexivity. Qed.

(** "a\n[[b" is written at level 1: "[[" would be nested in a level-0 bracket (Lua 5.1) *)
Example nested_opener_level :
  comment_level [97; 10; 91; 91; 98] = 1%nat.
Proof. vm_compute. reflexivity. Qed.

(** ** the text is inside the comment, verbatim *)
Theorem text_inside : forall text, text <> [] ->
  exists pre post, comment_of text = pre ++ text ++ post /\
    (block_form text = false -> pre = [45; 45] /\ post = []) /\
    (block_form text = true -> pre = [45; 45] ++ long_opener (comment_level text) ++ [10] /\
                               post = [10] ++ long_closer (comment_level text)).
Proof.
  intros text Hne. destruct (block_form text) eqn:Hb.
  - rewrite (comment_of_block text Hne Hb).
    exists ([45; 45] ++ long_opener (comment_level text) ++ [10]), ([10] ++ long_closer (comment_level text)).
    split; [|split; [discriminate|intros _; split; reflexivity]].
    rewrite <- !app_assoc. reflexivity.
  - rewrite (comment_of_line text Hne Hb).
    exists [45; 45], []. split; [rewrite app_nil_r; reflexivity|].
    split; [intros _; split; reflexivity|discriminate].
Qed.

(** ** the line shift equals the number of lines put in front of the file *)

Lemma lines_count_aux_snoc s c p : c <> 10 ->
  lines_count_aux (s ++ [c]) p = S (count_lf (s ++ [c])).
Proof.
  intros Hc. revert p; induction s as [|d s IH]; intros p; cbn [app lines_count_aux].
  - apply N.eqb_neq in Hc. rewrite Hc. unfold count_lf, count_b. cbn [filter].
    rewrite N.eqb_sym, Hc. reflexivity.
  - unfold count_lf, count_b in *. cbn [filter]. rewrite (N.eqb_sym 10 d).
    destruct (d =? 10); cbn [length]; rewrite IH; reflexivity.
Qed.

Lemma count_lf_snoc_lf s : count_lf (s ++ [10]) = S (count_lf s).
Proof.
  unfold count_lf, count_b. rewrite filter_app, app_length. cbn [filter]. rewrite N.eqb_refl. cbn [length]. lia.
Qed.

Lemma has_lf_last_not_lf s : s <> [] -> has_lf s = false -> exists s' c, s = s' ++ [c] /\ c <> 10.
Proof.
  intros Hne Hlf. destruct (exists_last Hne) as [s' [c ->]]. exists s', c. split; [reflexivity|].
  unfold has_lf in Hlf. rewrite existsb_app in Hlf. apply orb_false_iff in Hlf as [_ H].
  cbn [existsb] in H. rewrite orb_false_r in H. apply N.eqb_neq in H. congruence.
Qed.

Theorem shift_exact : forall text, text <> [] ->
  shift_amount text = count_lf (start_insertion text).
Proof.
  intros text Hne. unfold shift_amount, start_insertion, lines_count.
  assert (Hc : exists s c, comment_of text = s ++ [c] /\ c <> 10).
  { destruct (block_form text) eqn:Hb.
    - rewrite (comment_of_block text Hne Hb).
      exists ([45; 45] ++ long_opener (comment_level text) ++ [10] ++ text ++ [10] ++ 93 :: repeat 61 (comment_level text)), 93.
      split; [|discriminate]. unfold long_closer. rewrite <- !app_assoc. cbn [app]. reflexivity.
    - rewrite (comment_of_line text Hne Hb). destruct (block_form_false text Hb) as [Hlf _].
      destruct (has_lf_last_not_lf text Hne Hlf) as [s' [c [E Hc]]].
      exists ([45; 45] ++ s'), c. split; [|exact Hc]. rewrite E. rewrite <- app_assoc. reflexivity. }
  destruct Hc as [s [c [E Hc]]]. rewrite E.
  destruct (s ++ [c]) eqn:E2; [destruct s; discriminate|]. rewrite <- E2.
  rewrite lines_count_aux_snoc by exact Hc. rewrite count_lf_snoc_lf. reflexivity.
Qed.

(** ** the generator's classification is the reference lexer's (since /repo commit fc507f0) *)

(** a comment is taken for a long comment exactly when a long-bracket opener follows "--" *)
Theorem classifier_agrees : forall t,
  is_multiline_comment (45 :: 45 :: t) = match long_open t with Some _ => true | None => false end.
Proof. intros t. rewrite <- starts_agrees. reflexivity. Qed.

(** ... and it is the form the rule chose (both directions, no exception) *)
Theorem comment_form_recognised : forall text, text <> [] ->
  is_single_line_comment (comment_of text) = negb (block_form text).
Proof.
  intros text Hne. unfold is_single_line_comment. f_equal.
  destruct (block_form text) eqn:Hb.
  - rewrite (comment_of_block text Hne Hb). cbn [app]. rewrite classifier_agrees, long_open_opener. reflexivity.
  - rewrite (comment_of_line text Hne Hb). cbn [app]. rewrite classifier_agrees.
    destruct (block_form_false text Hb) as [_ [_ Hop]]. rewrite Hop. reflexivity.
Qed.

(** * Trivia filters keep the code tokens and remove exactly the selected comments *)

Section Filters.
  Context {A : Type}.
  (** [keep] is the regex oracle of [remove_comments]: does one of the [except] patterns match *)
  Variable keep : bytes -> bool.

  Lemma code_tokens_filter (l : list (ttoken A)) :
    code_tokens (map (filter_comments keep) l) = code_tokens l.
  Proof. unfold code_tokens. rewrite map_map. apply map_ext. reflexivity. Qed.

  Lemma code_tokens_clear k (l : list (ttoken A)) :
    code_tokens (map (clear_kind k) l) = code_tokens l.
  Proof. unfold code_tokens. rewrite map_map. apply map_ext. reflexivity. Qed.

  Lemma trivia_of_filter (t : ttoken A) :
    trivia_of (filter_comments keep t) = filter (keep_trivia keep) (trivia_of t).
  Proof. unfold trivia_of, filter_comments. cbn. rewrite filter_app. reflexivity. Qed.

  Lemma flat_trivia_filter (l : list (ttoken A)) :
    flat_map trivia_of (map (filter_comments keep) l) = filter (keep_trivia keep) (flat_map trivia_of l).
  Proof.
    induction l as [|t l IH]; cbn [map flat_map]; [reflexivity|].
    rewrite filter_app, trivia_of_filter, IH. reflexivity.
  Qed.

  Lemma filter_filter {T} (f g : T -> bool) (l : list T) :
    filter f (filter g l) = filter (fun x => g x && f x) l.
  Proof.
    induction l as [|x l IH]; cbn [filter]; [reflexivity|].
    destruct (g x); cbn [filter andb]; [destruct (f x)|]; rewrite IH; reflexivity.
  Qed.

  Theorem comments_filter (l : list (ttoken A)) :
    comments_of (map (filter_comments keep) l) = filter keep (comments_of l).
  Proof.
    unfold comments_of. rewrite flat_trivia_filter, filter_filter.
    induction (flat_map trivia_of l) as [|[k s] m IH]; [reflexivity|].
    cbn [filter]. unfold keep_trivia, is_comment in *. cbn [fst snd] in *.
    destruct k; cbn [trivia_kind_eqb negb orb andb].
    - rewrite andb_true_r. destruct (keep s) eqn:Ek; cbn [map filter snd]; rewrite Ek.
      + f_equal. exact IH.
      + exact IH.
    - exact IH.
  Qed.

  Theorem whitespaces_filter (l : list (ttoken A)) :
    whitespaces_of (map (filter_comments keep) l) = whitespaces_of l.
  Proof.
    unfold whitespaces_of. rewrite flat_trivia_filter, filter_filter. f_equal.
    apply filter_ext. intros [k s]. unfold keep_trivia, is_comment. cbn [fst snd].
    destruct k; cbn [trivia_kind_eqb negb orb andb]; [destruct (keep s)|]; reflexivity.
  Qed.
End Filters.

Section Clears.
  Context {A : Type}.

  Lemma flat_trivia_clear k (l : list (ttoken A)) :
    flat_map trivia_of (map (clear_kind k) l) =
    filter (fun tr => negb (trivia_kind_eqb (fst tr) k)) (flat_map trivia_of l).
  Proof.
    induction l as [|t l IH]; cbn [map flat_map]; [reflexivity|].
    rewrite filter_app, IH. f_equal. unfold trivia_of, clear_kind. cbn. rewrite filter_app. reflexivity.
  Qed.

  Theorem clear_comments_spec (l : list (ttoken A)) :
    comments_of (map clear_comments l) = [] /\ whitespaces_of (map clear_comments l) = whitespaces_of l.
  Proof.
    unfold comments_of, whitespaces_of, clear_comments. rewrite flat_trivia_clear, !filter_filter. split.
    - induction (flat_map trivia_of l) as [|[k s] m IH]; [reflexivity|].
      cbn [filter]. unfold is_comment. cbn [fst]. destruct k; cbn; exact IH.
    - f_equal. apply filter_ext. intros [k s]. unfold is_comment. cbn [fst]. destruct k; reflexivity.
  Qed.

  Theorem clear_whitespaces_spec (l : list (ttoken A)) :
    whitespaces_of (map clear_whitespaces l) = [] /\ comments_of (map clear_whitespaces l) = comments_of l.
  Proof.
    unfold comments_of, whitespaces_of, clear_whitespaces. rewrite flat_trivia_clear, !filter_filter. split.
    - induction (flat_map trivia_of l) as [|[k s] m IH]; [reflexivity|].
      cbn [filter]. unfold is_comment. cbn [fst]. destruct k; cbn; exact IH.
    - f_equal. apply filter_ext. intros [k s]. unfold is_comment. cbn [fst]. destruct k; reflexivity.
  Qed.

  (** appending the comment touches one trivia list of one token and nothing else *)
  Theorem append_start_spec comment (t : ttoken A) (l : list (ttoken A)) :
    code_tokens (append_start comment t :: l) = code_tokens (t :: l) /\
    comments_of (append_start comment t :: l) = comment :: comments_of (t :: l).
  Proof.
    split; [reflexivity|].
    unfold comments_of. cbn [flat_map]. unfold trivia_of at 1 3. unfold append_start. cbn [tt_leading tt_trailing].
    unfold insert_at at 2. cbn [length Nat.ltb Nat.leb firstn skipn app].
    unfold insert_at. cbn [length]. cbn [Nat.ltb Nat.leb firstn skipn app]. reflexivity.
  Qed.

  Theorem append_end_spec comment (l : list (ttoken A)) (t : ttoken A) :
    code_tokens (l ++ [append_end comment t]) = code_tokens (l ++ [t]) /\
    comments_of (l ++ [append_end comment t]) = comments_of (l ++ [t]) ++ [comment].
  Proof.
    split.
    - unfold code_tokens. rewrite !map_app. reflexivity.
    - unfold comments_of. rewrite !flat_map_app. cbn [flat_map]. rewrite !app_nil_r.
      unfold trivia_of, append_end. cbn [tt_leading tt_trailing].
      rewrite !filter_app, !map_app. cbn [filter is_comment fst trivia_kind_eqb map snd].
      rewrite <- !app_assoc. reflexivity.
  Qed.
End Clears.
