(** C16, closure-representation independence of the reference interpreter: the clauses of
    [sim_all] (Proof/RefactorSimC.v, proved by induction on the fuel) as separate theorems.
    Definitions: Proof/RefactorSimDefs.v.  "The interpreter cannot distinguish [store_rel]-related
    stores and [env_agree]-ing environments": same fuel on both sides, every outcome (values,
    Lua errors, out-of-fuel, unsupported). *)
From Coq Require Import ZArith NArith List Bool String.
From DL Require Import Lib.Bytes Lib.F64 Lua.Syntax Lua.Sem Model.Refactor.
From DL Require Import Proof.DefaultRulesSem Proof.RefactorSimDefs.
From DL Require Import Proof.RefactorSimA Proof.RefactorSimB Proof.RefactorSimC.
Import ListNotations.
Open Scope N_scope.

Section Export.
Variable d : dialect.
Variable n : nat.

(** ** operations on values: only the stores differ *)
Theorem sim_call f args s1 s2 : store_rel s1 s2 ->
  res_rel eq (call d n f args s1) (call d n f args s2).
Proof. apply (sa_call d n (sim_all_holds d n)). Qed.

Theorem sim_index o k s1 s2 : store_rel s1 s2 ->
  res_rel eq (index d n o k s1) (index d n o k s2).
Proof. apply (sa_index d n (sim_all_holds d n)). Qed.

Theorem sim_setindex o k v s1 s2 : store_rel s1 s2 ->
  res_rel eq (setindex d n o k v s1) (setindex d n o k v s2).
Proof. apply (sa_setindex d n (sim_all_holds d n)). Qed.

Theorem sim_tostr v s1 s2 : store_rel s1 s2 ->
  res_rel eq (tostr d n v s1) (tostr d n v s2).
Proof. apply (sa_tostr d n (sim_all_holds d n)). Qed.

Theorem sim_arith o a b s1 s2 : store_rel s1 s2 ->
  res_rel eq (arith d n o a b s1) (arith d n o a b s2).
Proof. apply (sa_arith d n (sim_all_holds d n)). Qed.

Theorem sim_concat a b s1 s2 : store_rel s1 s2 ->
  res_rel eq (concat d n a b s1) (concat d n a b s2).
Proof. apply (sa_concat d n (sim_all_holds d n)). Qed.

Theorem sim_equal a b s1 s2 : store_rel s1 s2 ->
  res_rel eq (equal d n a b s1) (equal d n a b s2).
Proof. apply (sa_equal d n (sim_all_holds d n)). Qed.

Theorem sim_less strict a b s1 s2 : store_rel s1 s2 ->
  res_rel eq (less d n strict a b s1) (less d n strict a b s2).
Proof. apply (sa_less d n (sim_all_holds d n)). Qed.

Theorem sim_length v s1 s2 : store_rel s1 s2 ->
  res_rel eq (length d n v s1) (length d n v s2).
Proof. apply (sa_length d n (sim_all_holds d n)). Qed.

Theorem sim_call_builtin b args s1 s2 : store_rel s1 s2 ->
  res_rel eq (call_builtin d n b args s1) (call_builtin d n b args s2).
Proof. apply (sa_builtin d n (sim_all_holds d n)). Qed.

(** ** expressions *)
Theorem sim_eval P rho1 rho2 va e s1 s2 :
  covers_expr P e -> env_agree P rho1 rho2 -> store_rel s1 s2 ->
  res_rel eq (eval d n rho1 va e s1) (eval d n rho2 va e s2).
Proof. intros Hc He. now apply (sa_eval d n (sim_all_holds d n) P). Qed.

Theorem sim_eval1 P rho1 rho2 va e s1 s2 :
  covers_expr P e -> env_agree P rho1 rho2 -> store_rel s1 s2 ->
  res_rel eq (eval1 d n rho1 va e s1) (eval1 d n rho2 va e s2).
Proof. intros Hc He. now apply (sa_eval1 d n (sim_all_holds d n) P). Qed.

Theorem sim_eval_list P rho1 rho2 va es s1 s2 :
  Forall (covers_expr P) es -> env_agree P rho1 rho2 -> store_rel s1 s2 ->
  res_rel eq (eval_list d n rho1 va es s1) (eval_list d n rho2 va es s2).
Proof. intros Hc He. now apply (sa_eval_list d n (sim_all_holds d n) P). Qed.

Theorem sim_eval_args P rho1 rho2 va a s1 s2 :
  (forall x, ment_args [x] a = true -> P x = true) -> env_agree P rho1 rho2 -> store_rel s1 s2 ->
  res_rel eq (eval_args d n rho1 va a s1) (eval_args d n rho2 va a s2).
Proof. intros Hc He. now apply (sa_eval_args d n (sim_all_holds d n) P). Qed.

Theorem sim_fill_table P rho1 rho2 va a entries pos s1 s2 :
  Forall (fun t => forall x, ment_tentry [x] t = true -> P x = true) entries ->
  env_agree P rho1 rho2 -> store_rel s1 s2 ->
  res_rel eq (fill_table d n rho1 va a entries pos s1) (fill_table d n rho2 va a entries pos s2).
Proof. intros Hc He. now apply (sa_fill d n (sim_all_holds d n) P). Qed.

(** ** assignment targets *)
Theorem sim_eval_target P rho1 rho2 va e s1 s2 :
  covers_expr P e -> env_agree P rho1 rho2 -> store_rel s1 s2 ->
  res_rel eq (eval_target d n rho1 va e s1) (eval_target d n rho2 va e s2).
Proof. intros Hc He. now apply (sa_eval_target d n (sim_all_holds d n) P). Qed.

Theorem sim_assign_target rho1 rho2 t v s1 s2 : store_rel s1 s2 ->
  res_rel eq (assign_target d n rho1 t v s1) (assign_target d n rho2 t v s2).
Proof. apply (sa_assign_target d n (sim_all_holds d n)). Qed.

(** ** statements and blocks *)
Theorem sim_exec_stmt P rho1 rho2 va st s1 s2 :
  covers_stmt P st -> env_agree P rho1 rho2 -> store_rel s1 s2 ->
  res_rel (stmt_res_rel P) (exec_stmt d n rho1 va st s1) (exec_stmt d n rho2 va st s2).
Proof. intros Hc He. now apply (sa_stmt d n (sim_all_holds d n) P). Qed.

Theorem sim_exec_stmts P rho1 rho2 va ss last s1 s2 :
  (forall x, existsb (ment_stmt [x]) ss || optb (ment_last [x]) last = true -> P x = true) ->
  env_agree P rho1 rho2 -> store_rel s1 s2 ->
  res_rel eq (exec_stmts d n rho1 va ss last s1) (exec_stmts d n rho2 va ss last s2).
Proof. intros Hc He. now apply (sa_stmts d n (sim_all_holds d n) P). Qed.

Theorem sim_exec_block P rho1 rho2 va b s1 s2 :
  covers_block P b -> env_agree P rho1 rho2 -> store_rel s1 s2 ->
  res_rel eq (exec_block d n rho1 va b s1) (exec_block d n rho2 va b s2).
Proof. intros Hc He. now apply (sa_block d n (sim_all_holds d n) P). Qed.

(** ** loops *)
Theorem sim_exec_while P rho1 rho2 va c b s1 s2 :
  covers_expr P c -> covers_block P b -> env_agree P rho1 rho2 -> store_rel s1 s2 ->
  res_rel eq (exec_while d n rho1 va c b s1) (exec_while d n rho2 va c b s2).
Proof. intros Hc Hb He. now apply (sa_while d n (sim_all_holds d n) P). Qed.

Theorem sim_exec_repeat P rho1 rho2 va b c s1 s2 :
  covers_block P b -> covers_expr P c -> env_agree P rho1 rho2 -> store_rel s1 s2 ->
  res_rel eq (exec_repeat d n rho1 va b c s1) (exec_repeat d n rho2 va b c s2).
Proof. intros Hb Hc He. now apply (sa_repeat d n (sim_all_holds d n) P). Qed.

Theorem sim_exec_numfor P rho1 rho2 va x i stop step b s1 s2 :
  covers_block P b -> env_agree P rho1 rho2 -> store_rel s1 s2 ->
  res_rel eq (exec_numfor d n rho1 va x i stop step b s1) (exec_numfor d n rho2 va x i stop step b s2).
Proof. intros Hb He. now apply (sa_numfor d n (sim_all_holds d n) P). Qed.

Theorem sim_exec_genfor P rho1 rho2 va vars f s ctl b s1 s2 :
  covers_block P b -> env_agree P rho1 rho2 -> store_rel s1 s2 ->
  res_rel eq (exec_genfor d n rho1 va vars f s ctl b s1) (exec_genfor d n rho2 va vars f s ctl b s2).
Proof. intros Hb He. now apply (sa_genfor d n (sim_all_holds d n) P). Qed.

End Export.

Print Assumptions sim_exec_stmts.
Print Assumptions sim_call.
