(** What the model records when a transformation FAILS, and what that record is good for:
    the files a failed attempt registered stay in the item ([advance]), are linked in
    [external_dependencies] by the pass ([sweep]), and a later change of any of them restarts the
    item ([source_changed]) - so a failed bundle is retried when a file it had read changes. *)
From Coq Require Import Arith PeanoNat Lia.
From DL Require Import Lib.Bytes Model.WorkerFs Model.Worker Proof.WorkerBasics Proof.WorkerInv
     Proof.WorkerStep.
Open Scope N_scope.

Section Failure.
  Variable cfg : Type.
  Variable xform : cfg -> path -> content -> fs -> option content * list path.

  (** [Worker::bundle] / [apply_rules]: [external_file_dependencies.extend(..)] happens before
      the [?] on the rule result *)
  Theorem failed_run_keeps_dependencies c it f txt :
    fs_get f (i_src it) = Some txt ->
    fst (xform c (i_src it) txt f) = None ->
    i_st (fst (advance cfg xform c it f)) = DoneErr /\
    snd (advance cfg xform c it f) = f /\
    forall d, In d (snd (xform c (i_src it) txt f)) -> In d (i_deps (fst (advance cfg xform c it f))).
  Proof.
    intros Hs Hx. unfold advance. rewrite Hs.
    destruct (xform c (i_src it) txt f) as [r ds]. cbn [fst snd] in *. subst r. cbn [fst snd i_st i_deps].
    repeat split. intros d Hd. apply in_or_app. left. exact Hd.
  Qed.

  Lemma link_all_mono e ds i q j :
    In j (ext_get e q) -> In j (ext_get (fold_left (fun e0 d => ext_link e0 d i) ds e) q).
  Proof. intros H. apply ext_get_link_all. left. exact H. Qed.

  (** after a pass, every dependency of every item (finished successfully or not) is
      registered under the item's node index *)
  Theorem sweep_links_dependencies c : forall s i e f done s2 e2 f2 d2,
    sweep cfg xform c s i e f done = (s2, e2, f2, d2) ->
    (forall q j, In j (ext_get e q) -> In j (ext_get e2 q)) /\
    forall k it2 dep, nth k s2 None = Some it2 -> In dep (i_deps it2) -> In (i + k)%nat (ext_get e2 dep).
  Proof.
    induction s as [|o s IH]; intros i e f done s2 e2 f2 d2 H.
    - cbn in H. inversion H; subst. split; [auto|]. intros k it2 dep Hk. destruct k; discriminate.
    - destruct o as [it|]; cbn [sweep] in H.
      + set (head := if is_done (i_st it) then (it, f, done)
                     else let '(it', f') := advance cfg xform c it f in (it', f', S done)) in *.
        destruct head as [[it1 f1] d1] eqn:Eh.
        destruct (sweep cfg xform c s (S i) (fold_left (fun e0 d => ext_link e0 d i) (i_deps it1) e) f1 d1)
          as [[[s' e'] f'] d'] eqn:Et.
        inversion H; subst. destruct (IH _ _ _ _ _ _ _ _ Et) as [Hmono Hlink]. split.
        * intros q j Hj. apply Hmono. apply link_all_mono. exact Hj.
        * intros k it2 dep Hk Hdep. destruct k as [|k]; cbn [nth] in Hk.
          -- inversion Hk; subst it2. rewrite Nat.add_0_r. apply Hmono. apply ext_get_link_all.
             right. split; [exact Hdep|reflexivity].
          -- replace (i + S k)%nat with (S i + k)%nat by lia. eapply Hlink; eassumption.
      + destruct (sweep cfg xform c s (S i) e f done) as [[[s' e'] f'] d'] eqn:Et.
        inversion H; subst. destruct (IH _ _ _ _ _ _ _ _ Et) as [Hmono Hlink]. split; [exact Hmono|].
        intros k it2 dep Hk Hdep. destruct k as [|k]; cbn [nth] in Hk; [discriminate|].
        replace (i + S k)%nat with (S i + k)%nat by lia. eapply Hlink; eassumption.
  Qed.
End Failure.

(** a reported change of a registered dependency restarts the item, whatever its status *)
Theorem source_changed_restarts_dependents inp outp E t p i it :
  wf inp outp E t -> get_slot (slots t) i = Some it -> In p (i_deps it) ->
  exists t' it', source_changed t p = Ok t' /\ get_slot (slots t') i = Some it' /\
                 i_st it' = NotStarted /\ i_src it' = i_src it.
Proof.
  intros W Hi Hp.
  set (idxs := match node_of t p with Some k => [k] | None => nodes_under (slots t) p 0 end).
  assert (Hocc : forall k, In k idxs -> get_slot (slots t) k <> None).
  { intros k Hk. unfold idxs in Hk. destruct (node_of t p) as [n|] eqn:En.
    - destruct Hk as [<-|[]]. apply node_of_some in En as [x [H _]]. congruence.
    - apply nodes_under_in in Hk as [x [H _]]. congruence. }
  destruct (two_restarts inp outp E t idxs p W Hocc) as [t1 [t2 [R1 [R2 [W1 [W2 [_ [_ [_ [Hg1 Hg2]]]]]]]]]].
  assert (Hrun : source_changed t p = Ok t2).
  { unfold source_changed. destruct (node_of t p) as [n|] eqn:En.
    - rewrite restart_work_as_all. unfold idxs in R1. rewrite R1. exact R2.
    - unfold idxs in R1. rewrite R1. exact R2. }
  set (it1 := reset_if (mem_nat i idxs) it).
  assert (H1 : get_slot (slots t1) i = Some it1) by (rewrite Hg1, Hi; reflexivity).
  destruct (mem_nat i idxs) eqn:Em.
  - (* already restarted in the first round *)
    exists t2, (reset_if (mem_nat i (ext_get (ext t1) p)) it1). split; [exact Hrun|].
    split; [rewrite Hg2, H1; reflexivity|].
    unfold it1. cbn [reset_if]. destruct (mem_nat i (ext_get (ext t1) p)); cbn; auto.
  - assert (Hl : In i (ext_get (ext t1) p)).
    { apply (wf_linked _ _ _ _ W1 i it1 p H1). unfold it1. cbn [reset_if]. exact Hp. }
    apply mem_nat_In in Hl.
    exists t2, (reset_if (mem_nat i (ext_get (ext t1) p)) it1). split; [exact Hrun|].
    split; [rewrite Hg2, H1; reflexivity|]. rewrite Hl. unfold it1. cbn. auto.
Qed.
